(* C10 - lemmas about the crash machine of Model.v. *)
From Coq Require Import ZArith List Bool Lia.
From Verif Require Import C10.Model.
Import ListNotations.
Open Scope Z_scope.

(* ------------------------------------------------------------ small facts *)
Lemma memz_spec x l : memz x l = true <-> In x l.
Proof.
  unfold memz. rewrite existsb_exists. split.
  - intros [y [Hy E]]. apply Z.eqb_eq in E. subst. exact Hy.
  - intros H. exists x. split; [exact H | apply Z.eqb_refl].
Qed.

Lemma memz_false x l : memz x l = false <-> ~ In x l.
Proof.
  rewrite <- memz_spec. destruct (memz x l).
  - split; [discriminate | intros H; exfalso; apply H; reflexivity].
  - split; [intros _ H; discriminate | reflexivity].
Qed.

Lemma find_filter_other (fs : list (uid * fstate)) u v :
  v <> u ->
  find (fun q => fst q =? v) (filter (fun q => negb (fst q =? u)) fs) = find (fun q => fst q =? v) fs.
Proof.
  intros N. induction fs as [|q fs IH]; simpl; [reflexivity|].
  destruct (fst q =? u) eqn:E; simpl.
  - apply Z.eqb_eq in E. destruct (fst q =? v) eqn:E2.
    + apply Z.eqb_eq in E2. congruence.
    + exact IH.
  - destruct (fst q =? v); [reflexivity | exact IH].
Qed.

Lemma file_at_set u st fs v :
  file_at (set_file u st fs) v = if v =? u then Some st else file_at fs v.
Proof.
  unfold file_at, set_file. simpl.
  destruct (v =? u) eqn:E.
  - apply Z.eqb_eq in E. subst. rewrite Z.eqb_refl. reflexivity.
  - rewrite Z.eqb_sym, E. apply Z.eqb_neq in E. rewrite find_filter_other by exact E. reflexivity.
Qed.

Lemma exec_app s a b : exec s (a ++ b) = exec (exec s a) b.
Proof. unfold exec. apply fold_left_app. Qed.

Lemma loops_eqb_eq a b : loops_eqb a b = true -> a = b.
Proof.
  revert b. induction a as [|x a IH]; intros [|y b]; simpl; try congruence.
  intros H. apply andb_true_iff in H. destruct H as [H1 H2].
  f_equal; [| apply IH; exact H2].
  destruct x, y; simpl in H1; try congruence.
  apply Bool.eqb_prop in H1. congruence.
Qed.

Lemma cfg_ok_inv c :
  cfg_ok c = true ->
  c_seed_mode c = SeedByMapIndex /\ c_filter_listed c = true /\
  c_loop c = [LSave; LPrint true] /\ c_append c = true /\ c_reseed_each c = true /\
  c_norm c <> NoStrip.
Proof.
  unfold cfg_ok. intros H.
  repeat (apply andb_true_iff in H; destruct H as [H ?]).
  destruct (c_seed_mode c); [|discriminate].
  repeat split; auto using loops_eqb_eq.
  intros E. rewrite E in *. discriminate.
Qed.

(* ids that survive the normalisation of manifest lines are recognised as listed *)
Lemma listed_ids_in_nonneg c m u :
  c_norm c <> NoStrip -> 0 <= u -> In u m -> In u (listed_ids c m).
Proof.
  unfold listed_ids. intros N P I. destruct (c_norm c); [| exact I | congruence].
  rewrite <- (Z.abs_eq u P). apply (in_map strip_id). exact I.
Qed.

Lemma listed_ids_in c es m u :
  c_norm c <> NoStrip -> ids_stable c es -> In u (map fst es) -> In u m -> In u (listed_ids c m).
Proof.
  unfold listed_ids, ids_stable. intros N S Iu I. destruct (c_norm c); [| exact I | congruence].
  rewrite <- (Z.abs_eq u (S u Iu)). apply (in_map strip_id). exact I.
Qed.

Lemma listed_ids_id c es m :
  c_norm c <> NoStrip -> ids_stable c es -> (forall u, In u m -> In u (map fst es)) -> listed_ids c m = m.
Proof.
  unfold listed_ids, ids_stable. intros N S H. destruct (c_norm c); [| reflexivity | congruence].
  rewrite <- (map_id m) at 2. apply map_ext_in. intros u I. apply Z.abs_eq. apply S. apply H. exact I.
Qed.

(* ------------------------------------------------------------ the map file *)
Lemma parse_map_sound lines : forall seen es,
  parse_map seen lines = Some es ->
  NoDup (map fst es) /\ (forall u, In u (map fst es) -> ~ In u seen).
Proof.
  induction lines as [|l r IH]; intros seen es H; simpl in H.
  - inversion H; subst. split; [constructor | intros u []].
  - destruct l as [|u [|p0 p]].
    + apply IH; exact H.
    + discriminate.
    + destruct (memz u seen) eqn:M; [discriminate|].
      destruct (parse_map (u :: seen) r) as [es'|] eqn:E; [|discriminate].
      simpl in H. inversion H; subst. destruct (IH _ _ E) as [ND DJ].
      apply memz_false in M. split.
      * simpl. constructor; [|exact ND]. intros I. apply (DJ _ I). left; reflexivity.
      * simpl. intros v [->|I]; [exact M|]. intros S. apply (DJ _ I). right; exact S.
Qed.

(* ------------------------------------------------------------- work list *)
Lemma index_from_utts es : forall k, map i_utt (index_from k es) = map fst es.
Proof. induction es as [|[u p] r IH]; intros k; simpl; [reflexivity | f_equal; apply IH]. Qed.

Lemma reindex_utts its : forall k, map i_utt (reindex k its) = map i_utt its.
Proof. induction its as [|it r IH]; intros k; simpl; [reflexivity | f_equal; apply IH]. Qed.

Lemma map_filter_utt (listed : list uid) (its : list item) :
  map i_utt (filter (fun it => negb (memz (i_utt it) listed)) its)
  = filter (fun u => negb (memz u listed)) (map i_utt its).
Proof.
  induction its as [|it r IH]; simpl; [reflexivity|].
  destruct (memz (i_utt it) listed); simpl; [exact IH | f_equal; exact IH].
Qed.

Lemma work_utts c es listed :
  map i_utt (work c es listed)
  = if c_filter_listed c then filter (fun u => negb (memz u (listed_ids c listed))) (map fst es) else map fst es.
Proof.
  unfold work.
  assert (E : map i_utt (if c_filter_listed c
                         then filter (fun it => negb (memz (i_utt it) (listed_ids c listed))) (index_from 0 es)
                         else index_from 0 es)
              = if c_filter_listed c then filter (fun u => negb (memz u (listed_ids c listed))) (map fst es) else map fst es).
  { destruct (c_filter_listed c).
    - rewrite map_filter_utt, index_from_utts. reflexivity.
    - apply index_from_utts. }
  destruct (c_seed_mode c); [exact E | rewrite reindex_utts; exact E].
Qed.

Lemma deliver_utts c seed assign its : forall st j,
  map fst (deliver c seed assign st j its) = map i_utt its.
Proof. induction its as [|it r IH]; intros st j; simpl; [reflexivity | f_equal; apply IH]. Qed.

Definition pure_feat (seed : Z) (it : item) : uid * feat :=
  (i_utt it, mkfeat (i_utt it) (i_path it) (seed + i_off it)).

(* per-item re-seeding makes the delivered features independent of which
   process computed the item and of everything it computed before *)
Lemma deliver_reseed c seed assign its : c_reseed_each c = true ->
  forall st j, deliver c seed assign st j its = map (pure_feat seed) its.
Proof.
  intros R. induction its as [|it r IH]; intros st j; simpl; [reflexivity|].
  unfold getitem. rewrite R. simpl. f_equal. apply IH.
Qed.

Lemma find_nodup_item (l : list item) it :
  NoDup (map i_utt l) -> In it l -> find (fun x => i_utt x =? i_utt it) l = Some it.
Proof.
  induction l as [|x l IH]; intros ND I; [destruct I|].
  simpl in *. inversion ND as [|? ? NI ND']; subst.
  destruct I as [->|I].
  - rewrite Z.eqb_refl. reflexivity.
  - destruct (i_utt x =? i_utt it) eqn:E.
    + apply Z.eqb_eq in E. exfalso. apply NI. rewrite E. apply in_map. exact I.
    + apply IH; assumption.
Qed.

Lemma good_of_item seed es it :
  NoDup (map fst es) -> In it (index_from 0 es) ->
  good_of seed es (i_utt it) = Some (snd (pure_feat seed it)).
Proof.
  intros ND I. unfold good_of. rewrite find_nodup_item; [reflexivity | | exact I].
  rewrite index_from_utts. exact ND.
Qed.

Lemma good_of_some_in seed es u f : good_of seed es u = Some f -> In u (map fst es).
Proof.
  unfold good_of. destruct (find _ _) as [it|] eqn:E; [|discriminate].
  intros _. apply find_some in E. destruct E as [I E]. apply Z.eqb_eq in E. subst.
  rewrite <- (index_from_utts es 0). apply in_map. exact I.
Qed.

Lemma good_of_in_some seed es u : In u (map fst es) -> exists f, good_of seed es u = Some f.
Proof.
  intros I. unfold good_of. rewrite <- (index_from_utts es 0) in I.
  apply in_map_iff in I. destruct I as [it [E I]].
  destruct (find (fun it0 => i_utt it0 =? u) (index_from 0 es)) as [it'|] eqn:F.
  - eexists; reflexivity.
  - exfalso. apply (find_none _ _ F) in I. subst. rewrite Z.eqb_refl in I. discriminate.
Qed.

(* ------------------------------------------------------- schedules vs main *)
Definition same_main (s1 s2 : state) : Prop :=
  s_disk s1 = s_disk s2 /\ s_mbuf s1 = s_mbuf s2 /\ s_saved s1 = s_saved s2.

Lemma exec_filter_main ops : forall s1 s2, same_main s1 s2 ->
  same_main (exec s1 ops) (exec s2 (filter is_main ops)).
Proof.
  induction ops as [|o r IH]; intros s1 s2 H; simpl; [exact H|].
  destruct H as [H1 [H2 H3]].
  destruct o; simpl; apply IH; unfold same_main; simpl; rewrite ?H1, ?H2, ?H3; auto.
Qed.

Lemma filter_firstn {A} (p : A -> bool) (l : list A) : forall n,
  exists m, filter p (firstn n l) = firstn m (filter p l).
Proof.
  induction l as [|x l IH]; intros n.
  - exists O. rewrite firstn_nil. reflexivity.
  - destruct n as [|n]; [exists O; reflexivity|].
    simpl. destruct (IH n) as [m Hm]. destruct (p x).
    + exists (S m). simpl. f_equal. exact Hm.
    + exists m. exact Hm.
Qed.

Lemma halt_same_main k s1 s2 : same_main s1 s2 -> halt k s1 = halt k s2.
Proof. intros [H1 [H2 _]]. destruct k; simpl; rewrite ?H1, ?H2; reflexivity. Qed.

Lemma completed_filter ops : completed (filter is_main ops) = completed ops.
Proof.
  induction ops as [|o r IH]; simpl; [reflexivity|].
  destruct o; simpl; rewrite ?IH; reflexivity.
Qed.

(* ---------------------------------------------- prefixes of a flat_map *)
Lemma firstn_flat_map_cases {A B} (g : A -> list B) (l : list A) : forall n,
  firstn n (flat_map g l) = flat_map g l \/
  exists l1 x l2 m, l = l1 ++ x :: l2 /\ (m < length (g x))%nat /\
                    firstn n (flat_map g l) = flat_map g l1 ++ firstn m (g x).
Proof.
  induction l as [|x l IH]; intros n; simpl.
  - left. apply firstn_nil.
  - destruct (Nat.ltb n (length (g x))) eqn:E.
    + apply Nat.ltb_lt in E. right. exists [], x, l, n. simpl. repeat split; auto.
      rewrite firstn_app. replace (n - length (g x))%nat with O by lia. simpl. apply app_nil_r.
    + apply Nat.ltb_ge in E. rewrite firstn_app, firstn_all2 by exact E.
      destruct (IH (n - length (g x))%nat) as [H | [l1 [y [l2 [m [H1 [H2 H3]]]]]]].
      * left. rewrite H. reflexivity.
      * right. exists (x :: l1), y, l2, m. subst. simpl. repeat split; auto.
        rewrite H3. rewrite app_assoc. reflexivity.
Qed.

Lemma NoDup_snoc {A} (l : list A) u : NoDup l -> ~ In u l -> NoDup (l ++ [u]).
Proof.
  intros ND NI. induction l as [|x l IH]; simpl.
  - constructor; [intros []|constructor].
  - inversion ND; subst. constructor.
    + intros I. apply in_app_or in I. destruct I as [I|[->|[]]]; [contradiction|].
      apply NI. left; reflexivity.
    + apply IH; [assumption|]. intros I. apply NI. right; exact I.
Qed.

Lemma NoDup_app_l {A} (l m : list A) : NoDup (l ++ m) -> NoDup l.
Proof.
  induction l as [|x l IH]; simpl; intros H; [constructor|].
  inversion H; subst. constructor.
  - intros I. apply H2. apply in_or_app. left; exact I.
  - apply IH. assumption.
Qed.

(* ================================================================== *)
Section Run.
Variable c : tool_cfg.
Variable seed : Z.
Variable es : list (uid * path).
Hypothesis c_ok : cfg_ok c = true.
Hypothesis es_nodup : NoDup (map fst es).
Hypothesis es_stable : ids_stable c es.

Let good := good_of seed es.
Lemma norm_ok : c_norm c <> NoStrip.
Proof. exact (proj2 (proj2 (proj2 (proj2 (proj2 (cfg_ok_inv c c_ok)))))). Qed.

(* what "consistent" means for a directory + manifest *)
Definition Inv (d : disk) : Prop :=
  NoDup (d_manifest d) /\
  (forall u, In u (d_manifest d) ->
     exists f, good u = Some f /\ file_at (d_files d) u = Some (Complete f)) /\
  (forall u st, file_at (d_files d) u = Some st ->
     exists f, good u = Some f /\ (st = Partial \/ st = Complete f)).

Definition SI (s : state) : Prop := Inv (halt Soft s).

Lemma SI_hard s : SI s -> Inv (halt Hard s).
Proof.
  intros [ND [I1 I2]]. simpl in *. split; [|split].
  - apply NoDup_app_l in ND. exact ND.
  - intros u H. apply I1. apply in_or_app. left. exact H.
  - exact I2.
Qed.

Lemma SI_halt k s : SI s -> Inv (halt k s).
Proof. destruct k; [apply SI_hard | exact (fun H => H)]. Qed.

Definition listed (s : state) : list uid := d_manifest (s_disk s) ++ s_mbuf s.

Definition op_ok (s : state) (o : op) : Prop :=
  match o with
  | Compute _ => True
  | SaveBegin u => ~ In u (listed s) /\ exists f, good u = Some f
  | SaveEnd u f => ~ In u (listed s) /\ good u = Some f
  | MWrite u => ~ In u (listed s) /\
                exists f, good u = Some f /\ file_at (d_files (s_disk s)) u = Some (Complete f)
  | MFlush => True
  end.

Fixpoint all_ok (s : state) (ops : list op) : Prop :=
  match ops with
  | [] => True
  | o :: r => op_ok s o /\ all_ok (step s o) r
  end.

Lemma SI_step s o : SI s -> op_ok s o -> SI (step s o).
Proof.
  unfold SI, Inv, listed. intros [ND [I1 I2]] OK. destruct o; simpl in *.
  - auto.
  - destruct OK as [NL [f G]]. split; [exact ND|]. split.
    + intros v Hv. rewrite file_at_set. destruct (v =? u) eqn:E.
      * apply Z.eqb_eq in E. subst. contradiction.
      * apply I1. exact Hv.
    + intros v st. rewrite file_at_set. destruct (v =? u) eqn:E.
      * apply Z.eqb_eq in E. subst. intros H. inversion H; subst. exists f. auto.
      * apply I2.
  - destruct OK as [NL G]. split; [exact ND|]. split.
    + intros v Hv. rewrite file_at_set. destruct (v =? u) eqn:E.
      * apply Z.eqb_eq in E. subst. contradiction.
      * apply I1. exact Hv.
    + intros v st. rewrite file_at_set. destruct (v =? u) eqn:E.
      * apply Z.eqb_eq in E. subst. intros H. inversion H; subst. exists f. auto.
      * apply I2.
  - destruct OK as [NL [f [G F]]]. rewrite app_assoc. split; [|split].
    + apply NoDup_snoc; assumption.
    + intros v Hv. apply in_app_or in Hv. destruct Hv as [Hv | [<-|[]]].
      * apply I1. exact Hv.
      * exists f. auto.
    + exact I2.
  - rewrite app_nil_r. auto.
Qed.

Lemma prefix_SI ops : forall s, all_ok s ops -> SI s -> forall n, SI (exec s (firstn n ops)).
Proof.
  induction ops as [|o r IH]; intros s OK H n.
  - rewrite firstn_nil. exact H.
  - destruct n as [|n]; [exact H|]. simpl. destruct OK as [O1 O2].
    apply IH; [exact O2 | apply SI_step; assumption].
Qed.

(* the loop body of the verified shape *)
Definition item4 (uf : uid * feat) : list op :=
  [SaveBegin (fst uf); SaveEnd (fst uf) (snd uf); MWrite (fst uf); MFlush].
Definition main4 (dl : list (uid * feat)) : list op := flat_map item4 dl.

Lemma main_ops_ok dl : main_ops c dl = main4 dl.
Proof.
  destruct (cfg_ok_inv c c_ok) as [_ [_ [L _]]].
  unfold main_ops, main4, item_main. rewrite L. simpl.
  induction dl as [|uf r IH]; simpl; [reflexivity|]. rewrite IH. reflexivity.
Qed.

(* the remaining work is consistent with the state *)
Definition P (s : state) (dl : list (uid * feat)) : Prop :=
  NoDup (map fst dl) /\
  forall u f, In (u, f) dl -> good u = Some f /\ ~ In u (listed s).

Lemma listed_item4 s uf : listed (exec s (item4 uf)) = listed s ++ [fst uf].
Proof. unfold listed. simpl. rewrite app_nil_r, app_assoc. reflexivity. Qed.

Lemma all_ok_main4 dl : forall s, P s dl -> all_ok s (main4 dl).
Proof.
  induction dl as [|[u f] r IH]; intros s [ND H]; simpl; [exact I|].
  simpl in ND. inversion ND as [|? ? NI ND']; subst.
  destruct (H u f (or_introl eq_refl)) as [G NL].
  assert (NL' : forall s', listed s' = listed s -> ~ In u (listed s')) by (intros s' ->; exact NL).
  split; [split; [exact NL | exists f; exact G]|].
  split; [split; [apply NL'; reflexivity | exact G]|].
  split.
  { split; [apply NL'; reflexivity|]. exists f. split; [exact G|]. simpl.
    rewrite !file_at_set, Z.eqb_refl. reflexivity. }
  split; [exact I|].
  apply (IH (exec s (item4 (u, f)))). split; [exact ND'|].
  intros v g Hv. destruct (H v g (or_intror Hv)) as [Gv NLv]. split; [exact Gv|].
  rewrite listed_item4. simpl. intros I'. apply in_app_or in I'. destruct I' as [I'|[<-|[]]].
  - contradiction.
  - apply NI. change u with (fst (u, g)). apply in_map. exact Hv.
Qed.

(* state at the start of an invocation *)
Lemma boot_ok d : boot c d = mkstate d [] [] [].
Proof.
  destruct (cfg_ok_inv c c_ok) as [_ [_ [_ [A _]]]]. unfold boot, open_manifest. rewrite A. reflexivity.
Qed.

Lemma SI_boot d : Inv d -> SI (boot c d).
Proof.
  intros H. rewrite boot_ok. unfold SI. simpl. rewrite app_nil_r. destruct d. exact H.
Qed.

Lemma todo_ok d :
  todo c es d = filter (fun it => negb (memz (i_utt it) (listed_ids c (d_manifest d)))) (index_from 0 es).
Proof.
  destruct (cfg_ok_inv c c_ok) as [M [F [_ [A _]]]].
  unfold todo, open_manifest, work. rewrite A, F, M. reflexivity.
Qed.

Lemma delivered_ok wk d : delivered c seed es wk d = map (pure_feat seed) (todo c es d).
Proof.
  destruct (cfg_ok_inv c c_ok) as [_ [_ [_ [_ [R _]]]]]. unfold delivered. apply deliver_reseed. exact R.
Qed.

Lemma NoDup_filter {A} (p : A -> bool) (l : list A) : NoDup l -> NoDup (filter p l).
Proof.
  induction 1 as [|x l NI ND IH]; simpl; [constructor|].
  destruct (p x); [constructor; [|exact IH] | exact IH].
  intros I. apply filter_In in I. apply NI. apply I.
Qed.

Lemma P_boot wk d : P (boot c d) (delivered c seed es wk d).
Proof.
  rewrite delivered_ok, boot_ok, todo_ok. split.
  - rewrite map_map. simpl.
    change (fun x : item => i_utt x) with i_utt.
    rewrite map_filter_utt, index_from_utts. apply NoDup_filter. exact es_nodup.
  - intros u f I. apply in_map_iff in I. destruct I as [it [E I]].
    apply filter_In in I. destruct I as [I NM]. unfold pure_feat in E. inversion E; subst.
    split.
    + apply (good_of_item seed es it es_nodup I).
    + unfold listed. simpl. rewrite app_nil_r. intros Hin.
      apply (listed_ids_in c es _ _ norm_ok es_stable) in Hin.
      * apply memz_spec in Hin. rewrite Hin in NM. discriminate.
      * rewrite <- (index_from_utts es 0). apply in_map. exact I.
Qed.

(* ---- crash anywhere in any schedule keeps the directory consistent ---- *)
Lemma crash_on_main wk d sched n k :
  valid_sched c seed es wk d sched ->
  exists m, crash c d sched n k = halt k (exec (boot c d) (firstn m (main4 (delivered c seed es wk d))))
            /\ filter is_main (firstn n sched) = firstn m (main4 (delivered c seed es wk d)).
Proof.
  intros [V _]. destruct (filter_firstn is_main sched n) as [m Hm].
  exists m. rewrite <- main_ops_ok, <- V, <- Hm. split; [|reflexivity].
  unfold crash, crash_state. apply halt_same_main. apply exec_filter_main.
  repeat split.
Qed.

Lemma crash_inv_l wk d sched n k :
  Inv d -> valid_sched c seed es wk d sched -> Inv (crash c d sched n k).
Proof.
  intros H V. destruct (crash_on_main wk d sched n k V) as [m [E _]]. rewrite E.
  apply SI_halt. apply prefix_SI.
  - apply all_ok_main4. apply (P_boot wk d).
  - apply SI_boot. exact H.
Qed.

Lemma Inv_disk0 : Inv disk0.
Proof.
  split; [constructor|]. split; [intros u []|]. intros u st H. discriminate.
Qed.

Lemma reach_inv d : reach c seed es d -> Inv d.
Proof.
  induction 1 as [|d wk sched n k R IH V]; [apply Inv_disk0 | apply (crash_inv_l wk); assumption].
Qed.

(* ---- the manifest lists what was completed, except the one in flight ---- *)
Lemma exec_main4_manifest l1 : forall s, s_mbuf s = [] ->
  d_manifest (s_disk (exec s (main4 l1))) = d_manifest (s_disk s) ++ map fst l1 /\
  s_mbuf (exec s (main4 l1)) = [].
Proof.
  induction l1 as [|uf r IH]; intros s Hb.
  - simpl. rewrite app_nil_r. auto.
  - change (main4 (uf :: r)) with (item4 uf ++ main4 r). rewrite exec_app.
    destruct (IH (exec s (item4 uf))) as [E1 E2]; [reflexivity|].
    rewrite E1, E2. split; [|reflexivity]. simpl. rewrite Hb. simpl. rewrite <- app_assoc. reflexivity.
Qed.

Lemma manifest_mono ops : forall s, incl (d_manifest (s_disk s)) (d_manifest (s_disk (exec s ops))).
Proof.
  induction ops as [|o r IH]; intros s; simpl; [apply incl_refl|].
  eapply incl_tran; [|apply IH]. destruct o; simpl; try apply incl_refl. apply incl_appl, incl_refl.
Qed.

Lemma manifest_halt k s : incl (d_manifest (s_disk s)) (d_manifest (halt k s)).
Proof. destruct k; simpl; [apply incl_refl | apply incl_appl, incl_refl]. Qed.

Lemma completed_app a b : completed (a ++ b) = completed a ++ completed b.
Proof.
  induction a as [|o r IH]; simpl; [reflexivity|]. destruct o; simpl; rewrite ?IH; reflexivity.
Qed.

Lemma completed_main4 dl : completed (main4 dl) = map fst dl.
Proof. induction dl as [|uf r IH]; simpl; [reflexivity | rewrite IH; reflexivity]. Qed.

Lemma in_removelast {A} (l : list A) x : In x (removelast l) -> In x l.
Proof.
  induction l as [|y l IH]; simpl; [auto|]. destruct l as [|z l]; [intros []|].
  intros [->|H]; [left; reflexivity | right; apply IH; exact H].
Qed.

Lemma in_flight_l wk d sched n k u :
  valid_sched c seed es wk d sched ->
  In u (removelast (completed (firstn n sched))) ->
  In u (d_manifest (crash c d sched n k)).
Proof.
  intros V H. destruct (crash_on_main wk d sched n k V) as [m [E F]].
  rewrite <- completed_filter, F in H. rewrite E. apply manifest_halt.
  set (dl := delivered c seed es wk d) in *.
  assert (B : s_mbuf (boot c d) = []) by reflexivity.
  destruct (firstn_flat_map_cases item4 dl m) as [A | [l1 [x [l2 [j [D [J A]]]]]]];
    fold (main4 dl) in A; rewrite A in *.
  - rewrite completed_main4 in H. apply in_removelast in H.
    destruct (exec_main4_manifest dl (boot c d) B) as [M _]. rewrite M. apply in_or_app. right. exact H.
  - fold (main4 l1) in *. rewrite exec_app. apply manifest_mono.
    destruct (exec_main4_manifest l1 (boot c d) B) as [M _]. rewrite M. apply in_or_app. right.
    rewrite completed_app, completed_main4 in H.
    simpl in J. destruct j as [|[|[|[|j]]]]; simpl in H; try lia.
    + rewrite app_nil_r in H. apply in_removelast in H. exact H.
    + rewrite app_nil_r in H. apply in_removelast in H. exact H.
    + rewrite removelast_last in H. exact H.
    + rewrite removelast_last in H. exact H.
Qed.

(* ---- running to completion from any consistent state ---- *)
Lemma files_main4 dl : forall s v, NoDup (map fst dl) ->
  file_at (d_files (s_disk (exec s (main4 dl)))) v =
  match find (fun uf => fst uf =? v) dl with
  | Some uf => Some (Complete (snd uf))
  | None => file_at (d_files (s_disk s)) v
  end.
Proof.
  induction dl as [|[u f] r IH]; intros s v ND; [reflexivity|].
  change (main4 ((u, f) :: r)) with (item4 (u, f) ++ main4 r). rewrite exec_app.
  simpl in ND. inversion ND as [|? ? NI ND']; subst. rewrite IH by exact ND'.
  simpl find. destruct (u =? v) eqn:E.
  - apply Z.eqb_eq in E. subst v.
    destruct (find (fun uf => fst uf =? u) r) as [uf|] eqn:Fd.
    + exfalso. apply find_some in Fd. destruct Fd as [I Eq]. apply Z.eqb_eq in Eq.
      apply NI. rewrite <- Eq. apply in_map. exact I.
    + simpl. rewrite !file_at_set, Z.eqb_refl. reflexivity.
  - destruct (find (fun uf => fst uf =? v) r); [reflexivity|].
    simpl. rewrite !file_at_set. rewrite Z.eqb_sym, E. reflexivity.
Qed.

Lemma delivered_utts wk d :
  map fst (delivered c seed es wk d)
  = filter (fun u => negb (memz u (listed_ids c (d_manifest d)))) (map fst es).
Proof.
  rewrite delivered_ok, todo_ok, map_map. simpl. change (fun x : item => i_utt x) with i_utt.
  rewrite map_filter_utt, index_from_utts. reflexivity.
Qed.

Lemma run_to_end_main wk d sched n k :
  valid_sched c seed es wk d sched -> (length sched <= n)%nat ->
  crash c d sched n k = halt k (exec (boot c d) (main4 (delivered c seed es wk d))).
Proof.
  intros V L. destruct (crash_on_main wk d sched n k V) as [m [E F]]. rewrite E.
  rewrite <- F, firstn_all2 by exact L. destruct V as [V _]. rewrite V, main_ops_ok. reflexivity.
Qed.

Lemma final_files_l wk d sched n k v :
  Inv d -> valid_sched c seed es wk d sched -> (length sched <= n)%nat ->
  file_at (d_files (crash c d sched n k)) v = option_map Complete (good v).
Proof.
  intros [ND [I1 I2]] V L. rewrite (run_to_end_main wk d sched n k V L).
  replace (d_files (halt k (exec (boot c d) (main4 (delivered c seed es wk d)))))
    with (d_files (s_disk (exec (boot c d) (main4 (delivered c seed es wk d)))))
    by (destruct k; reflexivity).
  destruct (P_boot wk d) as [PN PG].
  rewrite files_main4 by exact PN.
  destruct (find (fun uf => fst uf =? v) (delivered c seed es wk d)) as [[u f]|] eqn:Fd.
  - apply find_some in Fd. destruct Fd as [I Eq]. apply Z.eqb_eq in Eq. simpl in Eq. subst u.
    destruct (PG v f I) as [G _]. fold good. rewrite G. reflexivity.
  - assert (NI : ~ In v (map fst (delivered c seed es wk d))).
    { intros I. apply in_map_iff in I. destruct I as [uf [Eq I]].
      apply (find_none _ _ Fd) in I. rewrite Eq, Z.eqb_refl in I. discriminate. }
    rewrite boot_ok. simpl. rewrite delivered_utts in NI.
    rewrite (listed_ids_id c es (d_manifest d) norm_ok es_stable) in NI
      by (intros u Hu; destruct (I1 u Hu) as [f [Gu _]]; apply (good_of_some_in seed es u f); exact Gu).
    destruct (good v) as [f|] eqn:G.
    + assert (Iv : In v (map fst es)) by (apply (good_of_some_in seed es v f); exact G).
      destruct (memz v (d_manifest d)) eqn:M.
      * apply memz_spec in M. destruct (I1 v M) as [f' [G' Fl]]. rewrite Fl. simpl.
        unfold good in *. rewrite G in G'. inversion G'; subst. reflexivity.
      * exfalso. apply NI. apply filter_In. split; [exact Iv | rewrite M; reflexivity].
    + destruct (file_at (d_files d) v) as [st|] eqn:Fl; [|reflexivity].
      destruct (I2 v st Fl) as [f [G' _]]. unfold good in *. rewrite G in G'. discriminate.
Qed.

Lemma final_manifest_l wk d sched n k v :
  Inv d -> valid_sched c seed es wk d sched -> (length sched <= n)%nat ->
  (In v (d_manifest (crash c d sched n k)) <-> In v (map fst es)).
Proof.
  intros [ND [I1 I2]] V L. rewrite (run_to_end_main wk d sched n k V L).
  assert (B : s_mbuf (boot c d) = []) by reflexivity.
  destruct (exec_main4_manifest (delivered c seed es wk d) (boot c d) B) as [M Mb].
  assert (E : d_manifest (halt k (exec (boot c d) (main4 (delivered c seed es wk d))))
              = d_manifest d ++ map fst (delivered c seed es wk d)).
  { destruct k; simpl; rewrite ?Mb, ?app_nil_r, M; rewrite boot_ok; reflexivity. }
  rewrite E, delivered_utts.
  rewrite (listed_ids_id c es (d_manifest d) norm_ok es_stable)
    by (intros u Hu; destruct (I1 u Hu) as [f [Gu _]]; apply (good_of_some_in seed es u f); exact Gu).
  rewrite in_app_iff, filter_In. split.
  - intros [H | [H _]]; [|exact H]. destruct (I1 v H) as [f [G _]].
    apply (good_of_some_in seed es v f). exact G.
  - intros H. destruct (memz v (d_manifest d)) eqn:Mz.
    + left. apply memz_spec. exact Mz.
    + right. split; [exact H | reflexivity].
Qed.
End Run.

(* ================================================================== *)
(* listed utterances are neither recomputed nor rewritten: needs only that the
   manifest is kept and filtered (not the loop shape, not the seeding) *)
Definition op_utt (o : op) : option uid :=
  match o with
  | Compute u | SaveBegin u | SaveEnd u _ | MWrite u => Some u
  | MFlush => None
  end.

Lemma untouched ops u : forall s,
  (forall o, In o ops -> op_utt o <> Some u) ->
  (In u (s_computed (exec s ops)) <-> In u (s_computed s)) /\
  (In u (s_saved (exec s ops)) <-> In u (s_saved s)) /\
  file_at (d_files (s_disk (exec s ops))) u = file_at (d_files (s_disk s)) u.
Proof.
  induction ops as [|o r IH]; intros s H; simpl; [repeat split; auto|].
  destruct (IH (step s o)) as [A [B C]]; [intros o' I; apply H; right; exact I|].
  rewrite A, B, C. clear A B C IH.
  assert (N : op_utt o <> Some u) by (apply H; left; reflexivity).
  destruct o; simpl in *; repeat split; auto; try tauto;
    try (rewrite file_at_set; destruct (u =? u0) eqn:E; [apply Z.eqb_eq in E; congruence | reflexivity]);
    try (intros [->|I]; [congruence | exact I]).
Qed.

Lemma main_ops_utts c dl o u : In o (main_ops c dl) -> op_utt o = Some u -> In u (map fst dl).
Proof.
  unfold main_ops, item_main. intros I E.
  apply in_flat_map in I. destruct I as [uf [Iuf I]].
  apply in_flat_map in I. destruct I as [lo [_ I]].
  assert (fst uf = u).
  { destruct lo as [|fl]; simpl in I.
    - destruct I as [<-|[<-|[]]]; simpl in E; congruence.
    - destruct I as [<-|I]; [simpl in E; congruence|].
      destruct fl; simpl in I; [destruct I as [<-|[]]; discriminate | destruct I]. }
  subst u. apply in_map. exact Iuf.
Qed.

Lemma in_firstn {A} (l : list A) x : forall n, In x (firstn n l) -> In x l.
Proof.
  induction l as [|y l IH]; intros [|n]; simpl; auto; try tauto.
  intros [->|H]; [left; reflexivity | right; apply (IH n); exact H].
Qed.

Lemma listed_untouched_l c seed es wk d sched n u :
  c_filter_listed c = true -> c_append c = true ->
  valid_sched c seed es wk d sched -> In u (listed_ids c (d_manifest d)) ->
  ~ In u (s_computed (crash_state c d sched n)) /\
  ~ In u (s_saved (crash_state c d sched n)) /\
  file_at (d_files (s_disk (crash_state c d sched n))) u = file_at (d_files d) u.
Proof.
  intros F A [V1 V2] L. unfold crash_state.
  assert (NT : ~ In u (map i_utt (todo c es d))).
  { unfold todo, open_manifest. rewrite A, work_utts, F. intros I. apply filter_In in I.
    destruct I as [_ I]. apply memz_spec in L. rewrite L in I. discriminate. }
  destruct (untouched (firstn n sched) u (boot c d)) as [H1 [H2 H3]].
  { intros o I E. apply in_firstn in I. destruct (is_main o) eqn:M.
    - assert (I' : In o (main_ops c (delivered c seed es wk d))).
      { rewrite <- V1. apply filter_In. auto. }
      apply NT. rewrite <- (deliver_utts c seed (w_assign wk) (todo c es d) (w_rng wk) 0%nat).
      apply (main_ops_utts c _ o u I' E).
    - destruct o; try discriminate. simpl in E. inversion E; subst. apply NT. apply V2. exact I. }
  rewrite H1, H2, H3. unfold boot, open_manifest. rewrite A. simpl. tauto.
Qed.

(* ================================================================== *)
(* worker configuration is irrelevant as soon as every item re-seeds *)
Lemma delivered_workers c seed es wk1 wk2 d :
  c_reseed_each c = true -> delivered c seed es wk1 d = delivered c seed es wk2 d.
Proof. intros R. unfold delivered. rewrite !deliver_reseed by exact R. reflexivity. Qed.

Lemma crash_seq_workers c seed es wk1 wk2 d n k :
  c_reseed_each c = true -> crash_seq c seed es wk1 d n k = crash_seq c seed es wk2 d n k.
Proof. intros R. unfold crash_seq. rewrite (delivered_workers c seed es wk1 wk2 d R). reflexivity. Qed.

Lemma valid_sched_workers c seed es wk1 wk2 d sched :
  c_reseed_each c = true -> valid_sched c seed es wk1 d sched -> valid_sched c seed es wk2 d sched.
Proof. intros R [V1 V2]. split; [|exact V2]. rewrite (delivered_workers c seed es wk2 wk1 d R). exact V1. Qed.

Definition strip_workers (h : hist) : list (nat * kind) := map (fun x => match x with (n, k, _) => (n, k) end) h.

Lemma after_hist_workers c seed es : c_reseed_each c = true ->
  forall h1 h2 d, strip_workers h1 = strip_workers h2 ->
  after_hist c seed es d h1 = after_hist c seed es d h2.
Proof.
  intros R. induction h1 as [|[[n k] w] r IH]; intros [|[[n' k'] w'] r'] d E; simpl in E; try discriminate.
  - reflexivity.
  - inversion E; subst. unfold after_hist. simpl.
    rewrite (crash_seq_workers c seed es (wk_round_robin w) (wk_round_robin w') d n' k' R).
    apply IH. assumption.
Qed.

(* ================================================================== *)
(* the executable sequential schedule is a valid schedule, so everything the
   correspondence evaluates lies inside [reach] *)
Lemma item_main_all_main c uf : filter is_main (item_main c uf) = item_main c uf.
Proof.
  unfold item_main. induction (c_loop c) as [|lo r IH]; simpl; [reflexivity|].
  rewrite filter_app, IH. f_equal. destruct lo as [|[|]]; reflexivity.
Qed.

Lemma seq_ops_main c dl : filter is_main (seq_ops c dl) = main_ops c dl.
Proof.
  unfold seq_ops, main_ops. induction dl as [|uf r IH]; simpl; [reflexivity|].
  rewrite filter_app, item_main_all_main, IH. reflexivity.
Qed.

Lemma seq_ops_computes c dl u : In (Compute u) (seq_ops c dl) -> In u (map fst dl).
Proof.
  unfold seq_ops. intros I. apply in_flat_map in I. destruct I as [uf [Iuf I]].
  destruct I as [E|I].
  - inversion E; subst. apply in_map. exact Iuf.
  - exfalso. rewrite <- item_main_all_main in I. apply filter_In in I. destruct I as [_ I]. discriminate.
Qed.

Lemma seq_valid c seed es wk d : valid_sched c seed es wk d (seq_ops c (delivered c seed es wk d)).
Proof.
  split; [apply seq_ops_main|]. intros u I. apply seq_ops_computes in I.
  unfold delivered in I. rewrite deliver_utts in I. exact I.
Qed.

Lemma main_valid c seed es wk d : valid_sched c seed es wk d (main_ops c (delivered c seed es wk d)).
Proof.
  split.
  - unfold main_ops. induction (delivered c seed es wk d) as [|uf r IH]; simpl; [reflexivity|].
    rewrite filter_app, item_main_all_main, IH. reflexivity.
  - intros u I. exfalso. unfold main_ops in I. apply in_flat_map in I. destruct I as [uf [_ I]].
    rewrite <- item_main_all_main in I. apply filter_In in I. destruct I as [_ I]. discriminate.
Qed.

Lemma after_hist_reach c seed es : forall h d, reach c seed es d -> reach c seed es (after_hist c seed es d h).
Proof.
  induction h as [|[[n k] w] r IH]; intros d R; [exact R|].
  unfold after_hist. simpl. apply IH. unfold crash_seq. apply reach_crash with (wk := wk_round_robin w).
  - exact R.
  - apply seq_valid.
Qed.

Lemma full_run_is_crash c seed es wk d :
  full_run c seed es wk d =
  crash c d (seq_ops c (delivered c seed es wk d)) (length (seq_ops c (delivered c seed es wk d))) Soft.
Proof. reflexivity. Qed.

Lemma manifest_kept_l c d sched n k :
  c_append c = true -> incl (d_manifest d) (d_manifest (crash c d sched n k)).
Proof.
  intros A. unfold crash, crash_state. eapply incl_tran; [|apply manifest_halt].
  eapply incl_tran; [|apply manifest_mono]. unfold boot, open_manifest. rewrite A. apply incl_refl.
Qed.

Lemma obs_sched_valid c seed es w d : valid_sched c seed es (wk_round_robin w) d (obs_sched c seed es w d).
Proof. unfold obs_sched. destruct w; [apply seq_valid | apply main_valid]. Qed.

Lemma after_obs_reach c seed es : forall h d, reach c seed es d -> reach c seed es (after_obs c seed es d h).
Proof.
  induction h as [|[[n k] w] r IH]; intros d R; [exact R|].
  unfold after_obs. simpl. apply IH. apply reach_crash with (wk := wk_round_robin w); [exact R|].
  apply obs_sched_valid.
Qed.

(* ================================================================== *)
Section Exact.
Variable c : tool_cfg.
Variable seed : Z.
Variable es : list (uid * path).
Hypothesis c_ok : cfg_ok c = true.

(* what one invocation adds to the manifest: exactly the utterances it completed,
   in order, except possibly the last one *)
Lemma manifest_exact_l wk d sched n k :
  valid_sched c seed es wk d sched ->
  exists l, d_manifest (crash c d sched n k) = d_manifest d ++ l /\
            (l = completed (firstn n sched) \/ l = removelast (completed (firstn n sched))).
Proof.
  intros V. destruct (crash_on_main c seed es c_ok wk d sched n k V) as [m [E F]].
  rewrite <- (completed_filter (firstn n sched)), F, E. clear E F.
  set (dl := delivered c seed es wk d).
  assert (B : s_mbuf (boot c d) = []) by reflexivity.
  assert (BD : d_manifest (s_disk (boot c d)) = d_manifest d) by (rewrite (boot_ok c c_ok d); reflexivity).
  destruct (firstn_flat_map_cases item4 dl m) as [A | [l1 [x [l2 [t [D [T A]]]]]]];
    fold (main4 dl) in A; rewrite A.
  - destruct (exec_main4_manifest dl (boot c d) B) as [M Mb].
    exists (map fst dl). rewrite completed_main4. split; [|left; reflexivity].
    destruct k; simpl; rewrite ?Mb, ?app_nil_r, M, BD; reflexivity.
  - fold (main4 l1). rewrite exec_app.
    destruct (exec_main4_manifest l1 (boot c d) B) as [M Mb].
    set (s1 := exec (boot c d) (main4 l1)) in *.
    rewrite completed_app, completed_main4. simpl in T.
    assert (TT : (t = 0 \/ t = 1 \/ t = 2 \/ t = 3)%nat) by lia.
    destruct k; destruct TT as [ -> | [ -> | [ -> | -> ] ] ]; simpl;
      rewrite ?Mb, ?app_nil_r, ?M, ?BD, ?removelast_last.
    all: try (exists (map fst l1); split; [reflexivity | simpl; rewrite ?app_nil_r, ?removelast_last; auto]; fail).
    exists (map fst l1 ++ [fst x]). split; [simpl; rewrite <- app_assoc; reflexivity | auto].
Qed.

(* once everything is listed, running the command again changes nothing *)
Lemma rerun_noop_l wk d sched n k :
  valid_sched c seed es wk d sched ->
  (forall u, In u (map fst es) -> In u (listed_ids c (d_manifest d))) ->
  crash c d sched n k = d.
Proof.
  intros [V1 V2] H.
  assert (T : todo c es d = []).
  { destruct (cfg_ok_inv c c_ok) as [M [Fl [_ [A _]]]].
    unfold todo, open_manifest, work. rewrite A, Fl, M.
    assert (G : forall its : list item, (forall it, In it its -> In (i_utt it) (map fst es)) ->
              filter (fun it => negb (memz (i_utt it) (listed_ids c (d_manifest d)))) its = []).
    { induction its as [|it r IH]; intros Hin; [reflexivity|]. simpl.
      assert (Mz : memz (i_utt it) (listed_ids c (d_manifest d)) = true).
      { apply memz_spec. apply H. apply Hin. left; reflexivity. }
      rewrite Mz. simpl. apply IH. intros it' I'. apply Hin. right; exact I'. }
    apply G. intros it I. rewrite <- (index_from_utts es 0). apply in_map. exact I. }
  assert (S : sched = []).
  { unfold delivered in V1. rewrite T in V1, V2. simpl in V1, V2.
    destruct sched as [|o r]; [reflexivity|]. exfalso.
    destruct o; try (simpl in V1; discriminate). apply (V2 u). left; reflexivity. }
  subst sched. unfold crash, crash_state. rewrite firstn_nil. simpl.
  rewrite (boot_ok c c_ok d). destruct d as [fs m]. destruct k; simpl; rewrite ?app_nil_r; reflexivity.
Qed.
End Exact.
