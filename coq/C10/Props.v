(* C10 - the property theorems, and nothing else.  [tool] is the description of
   signals_to_torch_feat_dir regenerated from command_line.py on every run
   (coq/gen/C10Tool.v); [reach tool seed es d] = d is the directory + manifest
   left by any number of invocations of the same command from an empty
   directory, each killed (Hard = SIGKILL, Soft = interrupt/exception/normal
   exit) after any number of operations of any schedule of any worker
   configuration.  [good_of seed es u] is the file an uninterrupted run stores. *)
From Coq Require Import ZArith List Bool.
From Verif Require Import C10.Model C10.Proofs C10.Shape C10.Counter gen.C10Tool C10.ToolProofs.
Import ListNotations.
Open Scope Z_scope.

(* at every interruption point the manifest lists only utterances whose feature
   file is complete and is the file of an uninterrupted run *)
Theorem manifest_only_complete : forall seed es d u,
  NoDup (map fst es) -> reach tool seed es d -> In u (d_manifest d) ->
  exists f, good_of seed es u = Some f /\ file_at (d_files d) u = Some (Complete f).
Proof. exact manifest_only_complete_l. Qed.
Print Assumptions manifest_only_complete.

(* every file in the directory belongs to a map entry and is either a torn
   write or the right content *)
Theorem files_partial_or_right : forall seed es d u st,
  NoDup (map fst es) -> reach tool seed es d -> file_at (d_files d) u = Some st ->
  exists f, good_of seed es u = Some f /\ (st = Partial \/ st = Complete f).
Proof. exact files_partial_or_right_l. Qed.
Print Assumptions files_partial_or_right.

Theorem manifest_no_duplicates : forall seed es d,
  NoDup (map fst es) -> reach tool seed es d -> NoDup (d_manifest d).
Proof. exact manifest_no_duplicates_l. Qed.
Print Assumptions manifest_no_duplicates.

(* every utterance whose file was completed before the interruption is listed,
   except possibly the last one (in flight); from any state d whatsoever *)
Theorem manifest_complete_but_in_flight : forall seed es wk d sched n k u,
  valid_sched tool seed es wk d sched ->
  In u (removelast (completed (firstn n sched))) ->
  In u (d_manifest (crash tool d sched n k)).
Proof. exact manifest_complete_but_in_flight_l. Qed.
Print Assumptions manifest_complete_but_in_flight.

(* exactly: one invocation appends to the manifest the utterances it completed,
   in order, all of them or all but the last *)
Theorem manifest_exact : forall seed es wk d sched n k,
  valid_sched tool seed es wk d sched ->
  exists l, d_manifest (crash tool d sched n k) = d_manifest d ++ l /\
            (l = completed (firstn n sched) \/ l = removelast (completed (firstn n sched))).
Proof. exact manifest_exact_tl. Qed.
Print Assumptions manifest_exact.

Theorem manifest_never_shrinks : forall d sched n k,
  incl (d_manifest d) (d_manifest (crash tool d sched n k)).
Proof. exact manifest_never_shrinks_l. Qed.
Print Assumptions manifest_never_shrinks.

(* re-running the command to completion after any history of interruptions
   leaves exactly the files of an uninterrupted run (same bytes: same symbolic
   feature, including the seed that drives dithering) *)
Theorem resumed_run_final_files : forall seed es wk d sched n k u,
  NoDup (map fst es) -> reach tool seed es d ->
  valid_sched tool seed es wk d sched -> (length sched <= n)%nat ->
  file_at (d_files (crash tool d sched n k)) u = option_map Complete (good_of seed es u).
Proof. exact resumed_run_final_files_l. Qed.
Print Assumptions resumed_run_final_files.

Theorem resume_identical_to_uninterrupted : forall seed es d wk sched n k wk' sched' n' k',
  NoDup (map fst es) -> reach tool seed es d ->
  valid_sched tool seed es wk d sched -> (length sched <= n)%nat ->
  valid_sched tool seed es wk' disk0 sched' -> (length sched' <= n')%nat ->
  same_dir (crash tool d sched n k) (crash tool disk0 sched' n' k').
Proof. exact resume_identical_to_uninterrupted_l. Qed.
Print Assumptions resume_identical_to_uninterrupted.

Theorem resumed_run_final_manifest : forall seed es wk d sched n k u,
  NoDup (map fst es) -> reach tool seed es d ->
  valid_sched tool seed es wk d sched -> (length sched <= n)%nat ->
  (In u (d_manifest (crash tool d sched n k)) <-> In u (map fst es)).
Proof. exact resumed_run_final_manifest_l. Qed.
Print Assumptions resumed_run_final_manifest.

(* once every utterance is listed, running the command again (killed or not)
   leaves directory and manifest exactly as they are *)
Theorem rerun_is_noop : forall seed es wk d sched n k,
  valid_sched tool seed es wk d sched ->
  (forall u, In u (map fst es) -> In u (d_manifest d)) ->
  crash tool d sched n k = d.
Proof. exact rerun_noop_tl. Qed.
Print Assumptions rerun_is_noop.

(* across ANY number of interrupted runs the manifest is a prefix of the map
   order and at most one existing file (torn or complete) is not listed *)
Theorem manifest_is_map_prefix : forall seed es d,
  NoDup (map fst es) -> reach tool seed es d ->
  exists j, d_manifest d = firstn j (map fst es).
Proof. exact manifest_is_map_prefix_tl. Qed.
Print Assumptions manifest_is_map_prefix.

Theorem at_most_one_unlisted : forall seed es d u v,
  NoDup (map fst es) -> reach tool seed es d ->
  file_at (d_files d) u <> None -> file_at (d_files d) v <> None ->
  ~ In u (d_manifest d) -> ~ In v (d_manifest d) -> u = v.
Proof. exact at_most_one_unlisted_tl. Qed.
Print Assumptions at_most_one_unlisted.

(* utterances listed in the manifest are neither recomputed (by any process) nor
   rewritten, and their files are untouched at every point of the run; from any
   state d whatsoever *)
Theorem listed_not_recomputed_nor_rewritten : forall seed es wk d sched n u,
  valid_sched tool seed es wk d sched -> In u (d_manifest d) ->
  ~ In u (s_computed (crash_state tool d sched n)) /\
  ~ In u (s_saved (crash_state tool d sched n)) /\
  file_at (d_files (s_disk (crash_state tool d sched n))) u = file_at (d_files d) u.
Proof. exact listed_not_recomputed_nor_rewritten_l. Qed.
Print Assumptions listed_not_recomputed_nor_rewritten.

(* the delivered (utterance, feature) sequence does not depend on the number of
   worker processes, on which process computes which item, or on the RNG state
   the processes start with (in-order delivery is part of the model) *)
Theorem workers_irrelevant : forall seed es wk1 wk2 d,
  delivered tool seed es wk1 d = delivered tool seed es wk2 d.
Proof. exact workers_irrelevant_l. Qed.
Print Assumptions workers_irrelevant.

Theorem workers_irrelevant_sched : forall seed es wk1 wk2 d sched,
  valid_sched tool seed es wk1 d sched -> valid_sched tool seed es wk2 d sched.
Proof. exact workers_irrelevant_sched_l. Qed.
Print Assumptions workers_irrelevant_sched.

Theorem workers_irrelevant_hist : forall seed es h1 h2 d,
  strip_workers h1 = strip_workers h2 ->
  after_hist tool seed es d h1 = after_hist tool seed es d h2.
Proof. exact workers_irrelevant_hist_l. Qed.
Print Assumptions workers_irrelevant_hist.

(* the function the correspondence evaluates only produces reachable states *)
Theorem evaluated_histories_reachable : forall seed es h,
  reach tool seed es (after_hist tool seed es disk0 h).
Proof. exact evaluated_histories_reachable_l. Qed.
Print Assumptions evaluated_histories_reachable.

Theorem observed_histories_reachable : forall seed es h,
  reach tool seed es (after_obs tool seed es disk0 h).
Proof. exact observed_histories_reachable_l. Qed.
Print Assumptions observed_histories_reachable.

Theorem parse_map_unique_ids : forall lines es, parse_map [] lines = Some es -> NoDup (map fst es).
Proof. exact parse_map_unique_ids_l. Qed.
Print Assumptions parse_map_unique_ids.

(* necessity of each ingredient (the shapes the tool had before its fixes) *)
Theorem seed_by_work_index_resume_differs_refuted :
  exists seed es h, NoDup (map fst es) /\
    ~ same_dir (full_run cfg_seed_work seed es wk0 (after_hist cfg_seed_work seed es disk0 h))
               (full_run cfg_seed_work seed es wk0 disk0).
Proof. exact seed_by_work_index_resume_differs_l. Qed.
Print Assumptions seed_by_work_index_resume_differs_refuted.

Theorem no_flush_hard_kill_loses_manifest_refuted :
  exists seed es n u,
    let sched := seq_ops cfg_no_flush (delivered cfg_no_flush seed es wk0 disk0) in
    In u (removelast (completed (firstn n sched))) /\
    ~ In u (d_manifest (crash cfg_no_flush disk0 sched n Hard)).
Proof. exact no_flush_hard_kill_loses_manifest_l. Qed.
Print Assumptions no_flush_hard_kill_loses_manifest_refuted.

Theorem print_before_save_lists_incomplete_refuted :
  exists seed es n k u,
    let d := crash_seq cfg_print_first seed es wk0 disk0 n k in
    In u (d_manifest d) /\ file_at (d_files d) u = Some Partial.
Proof. exact print_before_save_lists_incomplete_l. Qed.
Print Assumptions print_before_save_lists_incomplete_refuted.

Theorem no_reseed_workers_matter_refuted :
  exists seed es, delivered cfg_no_reseed seed es (wk_round_robin 0) disk0
               <> delivered cfg_no_reseed seed es (wk_round_robin 2) disk0.
Proof. exact no_reseed_workers_matter_l. Qed.
Print Assumptions no_reseed_workers_matter_refuted.

Theorem truncating_manifest_recomputes_refuted :
  exists seed es d n u,
    d = full_run cfg_truncate seed es wk0 disk0 /\ In u (d_manifest d) /\
    In u (s_computed (crash_state cfg_truncate d
                        (seq_ops cfg_truncate (delivered cfg_truncate seed es wk0 d)) n)).
Proof. exact truncating_manifest_recomputes_l. Qed.
Print Assumptions truncating_manifest_recomputes_refuted.

Theorem unfiltered_work_list_rewrites_refuted :
  exists seed es d n u,
    d = full_run cfg_no_filter seed es wk0 disk0 /\ In u (d_manifest d) /\
    In u (s_saved (crash_state cfg_no_filter d
                     (seq_ops cfg_no_filter (delivered cfg_no_filter seed es wk0 d)) n)).
Proof. exact unfiltered_work_list_rewrites_l. Qed.
Print Assumptions unfiltered_work_list_rewrites_refuted.

(* FINDING fixed by 7cfe6bc: while manifest lines were normalised with
   str.strip(), an id that ends in a whitespace character other than " " (encoded
   as a negative id) was read back as another id.  The theorems above hold for
   ALL ids because [tool] matches lines verbatim ([tool_stable]); with StripAll
   they need [ids_stable] and fail without it: *)
Theorem whitespace_id_resume_differs_refuted :
  exists seed es h, NoDup (map fst es) /\
    ~ same_dir (full_run cfg_strip_all seed es wk0 (after_hist cfg_strip_all seed es disk0 h))
               (full_run cfg_strip_all seed es wk0 disk0).
Proof. exact whitespace_id_resume_differs_l. Qed.
Print Assumptions whitespace_id_resume_differs_refuted.

Theorem whitespace_id_recomputed_refuted :
  exists seed es d n u,
    d = full_run cfg_strip_all seed es wk0 disk0 /\ In u (d_manifest d) /\
    In u (s_saved (crash_state cfg_strip_all d
                     (seq_ops cfg_strip_all (delivered cfg_strip_all seed es wk0 d)) n)).
Proof. exact whitespace_id_recomputed_l. Qed.
Print Assumptions whitespace_id_recomputed_refuted.

Theorem unstripped_lines_recompute_refuted :
  exists seed es d n u,
    d = full_run cfg_no_strip seed es wk0 disk0 /\ In u (d_manifest d) /\
    In u (s_saved (crash_state cfg_no_strip d
                     (seq_ops cfg_no_strip (delivered cfg_no_strip seed es wk0 d)) n)).
Proof. exact unstripped_lines_recompute_l. Qed.
Print Assumptions unstripped_lines_recompute_refuted.
