(* C10 - exact shape of the states reachable from an empty directory: the
   manifest is a PREFIX of the map order, and the only file that may exist
   without being listed is the one of the next utterance.  Hence across any
   number of interrupted runs at most one completed file is ever unlisted. *)
From Coq Require Import ZArith List Bool Lia.
From Verif Require Import C10.Model C10.Proofs.
Import ListNotations.
Open Scope Z_scope.

Lemma filter_skipn (l : list Z) : NoDup l -> forall j,
  filter (fun u => negb (memz u (firstn j l))) l = skipn j l.
Proof.
  induction 1 as [|x l NI ND IH]; intros j; [destruct j; reflexivity|].
  destruct j as [|j].
  - simpl. f_equal. clear. induction l as [|y l IH]; simpl; [reflexivity | f_equal; exact IH].
  - simpl. rewrite Z.eqb_refl. simpl. rewrite <- (IH j). apply filter_ext_in.
    intros u Hu. unfold memz. simpl. destruct (u =? x) eqn:E; [|reflexivity].
    apply Z.eqb_eq in E. subst. contradiction.
Qed.

Lemma firstn_skipn_app {A} (l a b : list A) j :
  skipn j l = a ++ b -> firstn j l ++ a = firstn (j + length a) l.
Proof.
  intros H. destruct (Nat.le_gt_cases j (length l)) as [L|L].
  - rewrite <- (firstn_skipn j l) at 2. rewrite H, app_assoc.
    replace (j + length a)%nat with (length (firstn j l ++ a) + 0)%nat.
    + rewrite firstn_app_2. simpl. rewrite app_nil_r. reflexivity.
    + rewrite app_length, firstn_length. lia.
  - rewrite skipn_all2 in H by lia. symmetry in H. apply app_eq_nil in H. destruct H; subst.
    rewrite app_nil_r. rewrite !firstn_all2 by (simpl; lia). reflexivity.
Qed.

Lemma firstn_incl_le {A} (l : list A) a b : (a <= b)%nat -> incl (firstn a l) (firstn b l).
Proof.
  revert a b. induction l as [|x l IH]; intros a b L; [rewrite !firstn_nil; apply incl_refl|].
  destruct a as [|a]; [intros y []|]. destruct b as [|b]; [lia|].
  simpl. intros y [->|H]; [left; reflexivity | right; apply (IH a b); [lia | exact H]].
Qed.

Lemma firstn_S_not_in {A} (l : list A) u : forall j,
  In u (firstn (S j) l) -> ~ In u (firstn j l) -> nth_error l j = Some u.
Proof.
  induction l as [|x l IH]; intros j H N; [destruct H|].
  destruct j as [|j].
  - simpl in H. destruct H as [->|[]]. reflexivity.
  - simpl in H, N. destruct H as [->|H]; [exfalso; apply N; left; reflexivity|].
    simpl. apply IH; [exact H | intros I; apply N; right; exact I].
Qed.

Lemma keys_exec ops u : forall s,
  file_at (d_files (s_disk (exec s ops))) u <> None ->
  file_at (d_files (s_disk s)) u <> None \/ exists o, In o ops /\ op_utt o = Some u.
Proof.
  induction ops as [|o r IH]; intros s H; [left; exact H|].
  simpl in H. destruct (IH _ H) as [K | [o' [I E]]].
  - destruct o; simpl in K; auto;
      rewrite file_at_set in K; (destruct (u =? u0) eqn:Eq;
        [apply Z.eqb_eq in Eq; subst; right; eexists; split; [left; reflexivity | reflexivity] | left; exact K]).
  - right. exists o'. split; [right; exact I | exact E].
Qed.

Section Shape.
Variable c : tool_cfg.
Variable seed : Z.
Variable es : list (uid * path).
Hypothesis c_ok : cfg_ok c = true.
Hypothesis es_nodup : NoDup (map fst es).
Hypothesis es_stable : ids_stable c es.

Let ids := map fst es.

Definition Shape (d : disk) : Prop :=
  exists j, d_manifest d = firstn j ids /\
            forall u, file_at (d_files d) u <> None -> In u (firstn (S j) ids).

Lemma item4_utts uf t o u : In o (firstn t (item4 uf)) -> op_utt o = Some u -> u = fst uf.
Proof.
  intros I E. apply in_firstn in I. simpl in I.
  destruct I as [<-|[<-|[<-|[<-|[]]]]]; simpl in E; congruence.
Qed.

Lemma main4_utts dl o u : In o (main4 dl) -> op_utt o = Some u -> In u (map fst dl).
Proof.
  intros I E. unfold main4 in I. apply in_flat_map in I. destruct I as [uf [Iu I]].
  rewrite <- (firstn_all (item4 uf)) in I. apply (item4_utts uf _ o u I) in E. subst. apply in_map. exact Iu.
Qed.

Lemma Shape_crash wk d sched n k :
  Shape d -> valid_sched c seed es wk d sched -> Shape (crash c d sched n k).
Proof.
  intros [j [Hm Hf]] V.
  destruct (crash_on_main c seed es c_ok wk d sched n k V) as [m [E _]]. rewrite E. clear E.
  set (dl := delivered c seed es wk d).
  assert (DU : map fst dl = skipn j ids).
  { unfold dl. rewrite (delivered_utts c seed es c_ok wk d), Hm.
    rewrite (listed_ids_id c es (firstn j ids)); [apply filter_skipn; exact es_nodup | | exact es_stable |].
    - exact (proj2 (proj2 (proj2 (proj2 (proj2 (cfg_ok_inv c c_ok)))))).
    - intros u Hu. apply in_firstn in Hu. exact Hu. }
  assert (B : s_mbuf (boot c d) = []) by reflexivity.
  assert (BD : s_disk (boot c d) = d) by (rewrite (boot_ok c c_ok d); reflexivity).
  destruct (firstn_flat_map_cases item4 dl m) as [A | [l1 [x [l2 [t [D [T A]]]]]]];
    fold (main4 dl) in A; rewrite A.
  - (* ran to the end *)
    destruct (exec_main4_manifest dl (boot c d) B) as [M Mb].
    exists (length ids). split.
    + replace (d_manifest (halt k (exec (boot c d) (main4 dl))))
        with (d_manifest (s_disk (exec (boot c d) (main4 dl))))
        by (destruct k; simpl; rewrite ?Mb, ?app_nil_r; reflexivity).
      rewrite M, BD, Hm, DU, firstn_skipn, firstn_all. reflexivity.
    + intros u H. rewrite firstn_all2 by lia.
      replace (d_files (halt k (exec (boot c d) (main4 dl))))
        with (d_files (s_disk (exec (boot c d) (main4 dl)))) in H by (destruct k; reflexivity).
      apply keys_exec in H. destruct H as [H | [o [I Eo]]].
      * rewrite BD in H. apply Hf in H. apply in_firstn in H. exact H.
      * apply (main4_utts dl o u I) in Eo. rewrite DU in Eo.
        rewrite <- (firstn_skipn j ids). apply in_or_app. right. exact Eo.
  - (* died inside item x *)
    fold (main4 l1). rewrite exec_app.
    destruct (exec_main4_manifest l1 (boot c d) B) as [M Mb].
    set (s1 := exec (boot c d) (main4 l1)) in *.
    assert (SK : skipn j ids = map fst l1 ++ fst x :: map fst l2).
    { rewrite <- DU, D, map_app. reflexivity. }
    assert (M1 : d_manifest (s_disk s1) = firstn (j + length l1) ids).
    { rewrite M, BD, Hm. rewrite <- (map_length fst l1). apply firstn_skipn_app with (b := fst x :: map fst l2). exact SK. }
    assert (M2 : firstn (j + length l1) ids ++ [fst x] = firstn (j + S (length l1)) ids).
    { rewrite <- M1, M, BD, Hm, <- app_assoc.
      replace (S (length l1)) with (length (map fst l1 ++ [fst x])) by (rewrite app_length, map_length; simpl; lia).
      apply firstn_skipn_app with (b := map fst l2). rewrite <- app_assoc. exact SK. }
    assert (KEYS : forall j', (j + length l1 <= j')%nat -> forall u,
               file_at (d_files (s_disk (exec s1 (firstn t (item4 x))))) u <> None ->
               In u (firstn (S j') ids)).
    { intros j' L u H. apply keys_exec in H. destruct H as [H | [o [I Eo]]].
      - unfold s1 in H. apply keys_exec in H. destruct H as [H | [o [I Eo]]].
        + rewrite BD in H. apply Hf in H. revert H. apply firstn_incl_le. lia.
        + apply (main4_utts l1 o u I) in Eo.
          apply (firstn_incl_le ids (j + length l1) (S j')); [lia|].
          rewrite <- M1, M. apply in_or_app. right. exact Eo.
      - apply (item4_utts x t o u I) in Eo. subst u.
        apply (firstn_incl_le ids (j + S (length l1)) (S j')); [lia|].
        rewrite <- M2. apply in_or_app. right. left. reflexivity. }
    simpl in T.
    assert (TT : (t = 0 \/ t = 1 \/ t = 2 \/ t = 3)%nat) by lia.
    destruct k.
    + (* hard: the manifest is what was flushed *)
      exists (j + length l1)%nat. split.
      * destruct TT as [ -> | [ -> | [ -> | -> ] ] ]; simpl; exact M1.
      * intros u H. apply (KEYS (j + length l1)%nat (le_n _) u).
        destruct TT as [ -> | [ -> | [ -> | -> ] ] ]; exact H.
    + (* soft: the buffered line, if any, is flushed *)
      destruct TT as [ -> | [ -> | [ -> | -> ] ] ].
      * exists (j + length l1)%nat. split; [simpl; rewrite Mb, app_nil_r; exact M1|].
        intros u H. apply (KEYS (j + length l1)%nat (le_n _) u). exact H.
      * exists (j + length l1)%nat. split; [simpl; rewrite Mb, app_nil_r; exact M1|].
        intros u H. apply (KEYS (j + length l1)%nat (le_n _) u). exact H.
      * exists (j + length l1)%nat. split; [simpl; rewrite Mb, app_nil_r; exact M1|].
        intros u H. apply (KEYS (j + length l1)%nat (le_n _) u). exact H.
      * exists (j + S (length l1))%nat. split; [simpl; rewrite Mb, M1; simpl; exact M2|].
        intros u H. apply (KEYS (j + S (length l1))%nat); [lia | exact H].
Qed.

Lemma reach_shape d : reach c seed es d -> Shape d.
Proof.
  induction 1 as [|d wk sched n k R IH V].
  - exists 0%nat. split; [reflexivity | intros u H; exfalso; apply H; reflexivity].
  - apply (Shape_crash wk); assumption.
Qed.

Lemma at_most_one_unlisted_l d u v :
  reach c seed es d ->
  file_at (d_files d) u <> None -> file_at (d_files d) v <> None ->
  ~ In u (d_manifest d) -> ~ In v (d_manifest d) -> u = v.
Proof.
  intros R Fu Fv Nu Nv. destruct (reach_shape d R) as [j [Hm Hf]]. rewrite Hm in *.
  pose proof (firstn_S_not_in ids u j (Hf u Fu) Nu) as Eu.
  pose proof (firstn_S_not_in ids v j (Hf v Fv) Nv) as Ev.
  congruence.
Qed.

Lemma manifest_is_map_prefix_l d :
  reach c seed es d -> exists j, d_manifest d = firstn j (map fst es).
Proof. intros R. destruct (reach_shape d R) as [j [Hm _]]. exists j. exact Hm. Qed.
End Shape.
