(* C10 - the generic lemmas of Proofs.v instantiated at [tool], the description
   of signals_to_torch_feat_dir that gen/c10tool.py regenerates from the current
   source.  [tool_ok] is the obligation that ties the theorems to the source: it
   stops checking as soon as the regenerated shape leaves the verified one. *)
From Coq Require Import ZArith List Bool Lia.
From Verif Require Import C10.Model C10.Proofs C10.Shape C10.Counter gen.C10Tool.
Import ListNotations.
Open Scope Z_scope.

Lemma tool_ok : cfg_ok tool = true.
Proof. reflexivity. Qed.

Lemma tool_append : c_append tool = true.
Proof. exact (proj1 (proj2 (proj2 (proj2 (cfg_ok_inv tool tool_ok))))). Qed.
Lemma tool_filter : c_filter_listed tool = true.
Proof. exact (proj1 (proj2 (cfg_ok_inv tool tool_ok))). Qed.
Lemma tool_reseed : c_reseed_each tool = true.
Proof. exact (proj1 (proj2 (proj2 (proj2 (proj2 (cfg_ok_inv tool tool_ok)))))). Qed.
(* manifest lines are matched verbatim (only the terminator is removed), so
   every id - also one that ends in a tab or another non-" " whitespace - is
   recognised: no hypothesis on the ids is needed *)
Lemma tool_stable : forall es, ids_stable tool es.
Proof. intros es. exact I. Qed.
Lemma tool_listed : forall m, listed_ids tool m = m.
Proof. reflexivity. Qed.
Lemma tool_norm : c_norm tool <> NoStrip.
Proof. exact (proj2 (proj2 (proj2 (proj2 (proj2 (cfg_ok_inv tool tool_ok)))))). Qed.

Lemma manifest_only_complete_l : forall seed es d u,
  NoDup (map fst es) -> reach tool seed es d -> In u (d_manifest d) ->
  exists f, good_of seed es u = Some f /\ file_at (d_files d) u = Some (Complete f).
Proof.
  intros seed es d u ND R I. pose proof (tool_stable es) as ST.
  destruct (reach_inv tool seed es tool_ok ND ST d R) as [_ [I1 _]]. apply I1. exact I.
Qed.

Lemma files_partial_or_right_l : forall seed es d u st,
  NoDup (map fst es) -> reach tool seed es d -> file_at (d_files d) u = Some st ->
  exists f, good_of seed es u = Some f /\ (st = Partial \/ st = Complete f).
Proof.
  intros seed es d u st ND R I. pose proof (tool_stable es) as ST.
  destruct (reach_inv tool seed es tool_ok ND ST d R) as [_ [_ I2]]. apply (I2 u st). exact I.
Qed.

Lemma manifest_no_duplicates_l : forall seed es d,
  NoDup (map fst es) -> reach tool seed es d -> NoDup (d_manifest d).
Proof. intros seed es d ND R. exact (proj1 (reach_inv tool seed es tool_ok ND (tool_stable es) d R)). Qed.

Lemma manifest_complete_but_in_flight_l : forall seed es wk d sched n k u,
  valid_sched tool seed es wk d sched ->
  In u (removelast (completed (firstn n sched))) ->
  In u (d_manifest (crash tool d sched n k)).
Proof. intros seed es wk d sched n k u V. apply (in_flight_l tool seed es tool_ok wk d sched n k u V). Qed.

Lemma manifest_never_shrinks_l : forall d sched n k,
  incl (d_manifest d) (d_manifest (crash tool d sched n k)).
Proof. intros. apply manifest_kept_l. exact tool_append. Qed.

Lemma resumed_run_final_files_l : forall seed es wk d sched n k u,
  NoDup (map fst es) -> reach tool seed es d ->
  valid_sched tool seed es wk d sched -> (length sched <= n)%nat ->
  file_at (d_files (crash tool d sched n k)) u = option_map Complete (good_of seed es u).
Proof.
  intros seed es wk d sched n k u ND R V L. pose proof (tool_stable es) as ST.
  apply (final_files_l tool seed es tool_ok ND ST wk d sched n k u); auto.
  apply (reach_inv tool seed es tool_ok ND ST d R).
Qed.

Lemma resume_identical_to_uninterrupted_l : forall seed es d wk sched n k wk' sched' n' k',
  NoDup (map fst es) -> reach tool seed es d ->
  valid_sched tool seed es wk d sched -> (length sched <= n)%nat ->
  valid_sched tool seed es wk' disk0 sched' -> (length sched' <= n')%nat ->
  same_dir (crash tool d sched n k) (crash tool disk0 sched' n' k').
Proof.
  intros seed es d wk sched n k wk' sched' n' k' ND R V L V' L' u.
  rewrite (resumed_run_final_files_l seed es wk d sched n k u ND R V L).
  rewrite (resumed_run_final_files_l seed es wk' disk0 sched' n' k' u ND (reach0 _ _ _) V' L').
  reflexivity.
Qed.

Lemma resumed_run_final_manifest_l : forall seed es wk d sched n k u,
  NoDup (map fst es) -> reach tool seed es d ->
  valid_sched tool seed es wk d sched -> (length sched <= n)%nat ->
  (In u (d_manifest (crash tool d sched n k)) <-> In u (map fst es)).
Proof.
  intros seed es wk d sched n k u ND R V L. pose proof (tool_stable es) as ST.
  apply (final_manifest_l tool seed es tool_ok ST wk d sched n k u); auto.
  apply (reach_inv tool seed es tool_ok ND ST d R).
Qed.

(* reachable states have the manifest equal to a prefix of the map order and at
   most one file that is not listed *)
Lemma manifest_is_map_prefix_tl : forall seed es d,
  NoDup (map fst es) -> reach tool seed es d ->
  exists j, d_manifest d = firstn j (map fst es).
Proof. intros seed es d ND R. apply (manifest_is_map_prefix_l tool seed es tool_ok ND (tool_stable es) d R). Qed.

Lemma at_most_one_unlisted_tl : forall seed es d u v,
  NoDup (map fst es) -> reach tool seed es d ->
  file_at (d_files d) u <> None -> file_at (d_files d) v <> None ->
  ~ In u (d_manifest d) -> ~ In v (d_manifest d) -> u = v.
Proof. intros seed es d u v ND R. apply (at_most_one_unlisted_l tool seed es tool_ok ND (tool_stable es) d u v R). Qed.

Lemma listed_not_recomputed_nor_rewritten_l : forall seed es wk d sched n u,
  valid_sched tool seed es wk d sched -> In u (d_manifest d) ->
  ~ In u (s_computed (crash_state tool d sched n)) /\
  ~ In u (s_saved (crash_state tool d sched n)) /\
  file_at (d_files (s_disk (crash_state tool d sched n))) u = file_at (d_files d) u.
Proof.
  intros seed es wk d sched n u V L.
  apply (listed_untouched_l tool seed es wk); [exact tool_filter | exact tool_append | exact V |].
  rewrite tool_listed. exact L.
Qed.

Lemma manifest_exact_tl : forall seed es wk d sched n k,
  valid_sched tool seed es wk d sched ->
  exists l, d_manifest (crash tool d sched n k) = d_manifest d ++ l /\
            (l = completed (firstn n sched) \/ l = removelast (completed (firstn n sched))).
Proof. intros seed es wk d sched n k. apply (manifest_exact_l tool seed es tool_ok). Qed.

Lemma rerun_noop_tl : forall seed es wk d sched n k,
  valid_sched tool seed es wk d sched ->
  (forall u, In u (map fst es) -> In u (d_manifest d)) ->
  crash tool d sched n k = d.
Proof.
  intros seed es wk d sched n k V H. apply (rerun_noop_l tool seed es tool_ok wk d sched n k V).
  intros u I. rewrite tool_listed. apply H. exact I.
Qed.

Lemma workers_irrelevant_l : forall seed es wk1 wk2 d,
  delivered tool seed es wk1 d = delivered tool seed es wk2 d.
Proof. intros. apply delivered_workers. exact tool_reseed. Qed.

Lemma workers_irrelevant_sched_l : forall seed es wk1 wk2 d sched,
  valid_sched tool seed es wk1 d sched -> valid_sched tool seed es wk2 d sched.
Proof. intros seed es wk1 wk2 d sched. apply valid_sched_workers. exact tool_reseed. Qed.

Lemma workers_irrelevant_hist_l : forall seed es h1 h2 d,
  strip_workers h1 = strip_workers h2 ->
  after_hist tool seed es d h1 = after_hist tool seed es d h2.
Proof. intros seed es. apply after_hist_workers. exact tool_reseed. Qed.

Lemma evaluated_histories_reachable_l : forall seed es h,
  reach tool seed es (after_hist tool seed es disk0 h).
Proof. intros. apply after_hist_reach. constructor. Qed.

Lemma observed_histories_reachable_l : forall seed es h,
  reach tool seed es (after_obs tool seed es disk0 h).
Proof. intros. apply after_obs_reach. constructor. Qed.

Lemma parse_map_unique_ids_l : forall lines es, parse_map [] lines = Some es -> NoDup (map fst es).
Proof. intros lines es H. exact (proj1 (parse_map_sound lines [] es H)). Qed.

(* the hypotheses are satisfiable by a non-trivial state: two utterances, the
   first run killed in the middle of the second file, the second run (two
   workers) interrupted between the write of that file and its manifest line *)
Example reach_example :
  let d := after_hist tool 7 es2 disk0 [(7%nat, Hard, 0%nat); (3%nat, Soft, 2%nat)] in
  reach tool 7 es2 d /\ NoDup (map fst es2) /\
  view [1; 2] (after_hist tool 7 es2 disk0 [(7%nat, Hard, 0%nat)]) = ([[1; 2; 7]; [2; 1]], [1]) /\
  view [1; 2] d = ([[1; 2; 7]; [2; 2; 8]], [1]) /\
  view [1; 2] (full_run tool 7 es2 (wk_round_robin 3) d) = ([[1; 2; 7]; [2; 2; 8]], [1; 2]).
Proof.
  split; [apply evaluated_histories_reachable_l|].
  split; [repeat constructor; simpl; intuition discriminate|].
  repeat split; vm_compute; reflexivity.
Qed.
