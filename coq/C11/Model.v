(* C11 - model of pydrobert.speech.util.read_signal / wds_read_signal.

   Definitions only.  The decision logic (suffix inference, pre-checks, dispatch,
   soundfile subtype table, the glue of the one-call readers, the shape of
   wds_read_signal) is NOT written here: it is generated from util.py by
   gen/readsig.py into gen/ReadSignal.v.  This file adds what the translator does
   not produce: the wave and HDF5 readers (hand-modelled from the source), the
   third-party codecs as a record of oracles, read_signal and wds_read_signal
   assembled from these parts, and a reference world used to evaluate the model. *)
From Coq Require Import ZArith List Bool.
From Verif Require Import lib.C11_Base gen.ReadSignal.
Import ListNotations.
Open Scope Z_scope.

(* ------------------------------------------------------------------------ *)
(* _wave_read_signal (util.py:216-235)                                       *)

(* what the wave module reports about an opened file *)
Record wave_file := mk_wave { wv_width : Z; wv_chans : Z; wv_frames : list Z (* bytes *) }.

(* unsigned little-endian value of a byte list *)
Fixpoint le_val (bs : list Z) : Z :=
  match bs with [] => 0 | b :: t => b + 256 * le_val t end.

(* the n low bytes of v, least significant first *)
Fixpoint le_bytes (n : nat) (v : Z) : list Z :=
  match n with O => [] | S n' => (v mod 256) :: le_bytes n' (v / 256) end.

Fixpoint chunks_fuel (fuel n : nat) (l : list Z) : list (list Z) :=
  match fuel with
  | O => []
  | S f => match l with [] => [] | _ => firstn n l :: chunks_fuel f n (skipn n l) end
  end.
Definition chunks (n : nat) (l : list Z) : list (list Z) := chunks_fuel (length l) n l.

(* np.dtype("<i{}".format(width)): only 1, 2, 4, 8 are NumPy integer widths *)
Definition width_dtype (w : Z) : option dtype :=
  if w =? 1 then Some I8 else if w =? 2 then Some I16
  else if w =? 4 then Some I32 else if w =? 8 then Some I64 else None.

(* np.frombuffer(bytes, dtype="<i{w}") when w divides the length *)
Definition frombuffer_le_signed (w : Z) (bytes : list Z) : list Z :=
  map (fun c => wrap_s (8 * w) (le_val c)) (chunks (Z.to_nat w) bytes).

Definition wave_read (wf : wave_file) (dtype : option dtype) : res arr :=
  let w := wv_width wf in
  let c := wv_chans wf in
  match width_dtype w with
  | None => Err EType                                    (* "<i3" is no dtype *)
  | Some d =>
    if negb (Z.of_nat (length (wv_frames wf)) mod w =? 0) then Err EValue
    else
      let data := frombuffer_le_signed w (wv_frames wf) in
      let n := Z.of_nat (length data) in
      if c =? 0 then Err EZeroDiv
      else if negb (n mod c =? 0) then Err EIO           (* raise IOError(...) *)
      else
        let shape := if 1 <? c then [n / c; c] else [n] in
        Ok (cast_opt dtype (mk_arr d shape data))
  end.

(* the writer side, for the round-trip theorem: samples interleaved by frame *)
Definition wave_encode (w : Z) (samples : list Z) : list Z :=
  flat_map (le_bytes (Z.to_nat w)) samples.

(* ------------------------------------------------------------------------ *)
(* _hdf5_read_signal (util.py:238-263)                                       *)

Inductive h5node :=
| H5Data (a : arr)
| H5Group (children : list (str * h5node)).

(* Python's str ordering (lexicographic on code points) *)
Fixpoint str_ltb (a b : str) : bool :=
  match a, b with
  | _, [] => false
  | [], _ :: _ => true
  | x :: a', y :: b' => (x <? y) || ((x =? y) && str_ltb a' b')
  end.

(* keys.sort(reverse=True): insertion sort, descending *)
Fixpoint insert_desc {A} (k : str) (v : A) (l : list (str * A)) : list (str * A) :=
  match l with
  | [] => [(k, v)]
  | (k', v') :: t => if str_ltb k k' then (k', v') :: insert_desc k v t else (k, v) :: l
  end.
Fixpoint sort_desc {A} (l : list (str * A)) : list (str * A) :=
  match l with [] => [] | (k, v) :: t => insert_desc k v (sort_desc t) end.

(* the order in which the children of a group come off the stack: they are
   appended in descending key order and popped from the end *)
Definition visit_order (ch : list (str * h5node)) : list h5node :=
  rev (map snd (sort_desc ch)).

(* the while loop; the head of the list is the top of group_stack.
   None = fuel exhausted, Some None = stack emptied without finding a dataset *)
Fixpoint h5_dfs (fuel : nat) (stack : list h5node) : option (option arr) :=
  match fuel with
  | O => None
  | S f =>
    match stack with
    | [] => Some None
    | H5Data a :: _ => Some (Some a)
    | H5Group ch :: rest => h5_dfs f (visit_order ch ++ rest)
    end
  end.

Fixpoint h5_size (n : h5node) : nat :=
  match n with
  | H5Data _ => 1
  | H5Group ch =>
    S ((fix sz (l : list (str * h5node)) : nat :=
          match l with [] => O | (_, c) :: t => (h5_size c + sz t)%nat end) ch)
  end.
Definition h5_stack_size (st : list h5node) : nat := fold_right (fun n s => (h5_size n + s)%nat) O st.

Definition h5_find (root : h5node) : option (option arr) := h5_dfs (S (h5_size root)) [root].

(* h5py's file[key] with '/'-separated paths (third-party behaviour, modelled so
   that the reference world can be evaluated; empty components are skipped) *)
Fixpoint split_on (sep : Z) (s : str) : list str :=
  match s with
  | [] => [[]]
  | c :: t =>
    if c =? sep then [] :: split_on sep t
    else match split_on sep t with
         | seg :: segs => (c :: seg) :: segs
         | [] => [[c]]
         end
  end.
Fixpoint h5_descend (fuel : nat) (n : h5node) (path : list str) : option h5node :=
  match path with
  | [] => Some n
  | [] :: rest => match fuel with O => None | S f => h5_descend f n rest end
  | seg :: rest =>
    match fuel, n with
    | S f, H5Group ch => match assoc seg ch with Some c => h5_descend f c rest | None => None end
    | _, _ => None
    end
  end.
Definition h5_getitem (root : h5node) (key : str) : res arr :=
  let path := split_on 47 key in
  match h5_descend (S (length path)) root path with
  | Some (H5Data a) => Ok a
  | Some (H5Group _) => Err ECodec       (* np.array(group): not a signal *)
  | None => Err EKey
  end.

(* "np.array(dataset, dtype=dtype)" is not ndarray.astype: the element type
   conversion is done by the HDF5 library while reading, and HDF5 saturates where
   astype wraps (observed: int32 -5 read as uint16 is 0, 70000 is 65535) *)
Definition dtype_bounds (d : dtype) : option (Z * Z) :=
  match d with
  | I8 => Some (-128, 127) | I16 => Some (-32768, 32767)
  | I32 => Some (-2147483648, 2147483647)
  | I64 => Some (-9223372036854775808, 9223372036854775807)
  | U8 => Some (0, 255) | U16 => Some (0, 65535) | U32 => Some (0, 4294967295)
  | U64 => Some (0, 18446744073709551615)
  | F32 | F64 => None
  end.
Definition sat1 (d : dtype) (v : Z) : Z :=
  match dtype_bounds d with
  | Some (lo, hi) => Z.max lo (Z.min hi v)
  | None => v
  end.
Definition h5_convert (d : option dtype) (a : arr) : arr :=
  match d with
  | Some d' => mk_arr d' (a_shape a) (map (sat1 d') (a_data a))
  | None => a
  end.

Definition hdf5_read (opened : res h5node) (dtype : option dtype) (key : option str) : res arr :=
  bind opened (fun root =>
  bind (if truthy_str key
        then h5_getitem root (match key with Some k => k | None => [] end)
        else match h5_find root with
             | Some (Some a) => Ok a
             | Some None => Err EIO       (* raise IOError("Could not find any dataset") *)
             | None => Err ECodec         (* fuel: unreachable, see h5_find_fuel_enough *)
             end)
       (fun data => Ok (h5_convert dtype data))).

(* ------------------------------------------------------------------------ *)
(* third-party codecs as oracles                                             *)

Record codecs (blob : Type) := mk_codecs {
  c_wave : blob -> res wave_file;                 (* wave.open + getsampwidth/getnchannels/readframes *)
  c_h5 : blob -> res h5node;                      (* h5py.File *)
  c_npy : blob -> res arr;                        (* np.load on a .npy *)
  c_npz : blob -> res (list (str * arr));         (* np.load on a .npz *)
  c_pt : blob -> res arr;                         (* torch.load(..).numpy() *)
  c_sph : blob -> option dtype -> res arr;        (* _sphere.sphere_read_signal: property C12/C13 *)
  c_raw : blob -> dtype -> res arr;               (* np.fromfile *)
  c_snd : blob -> res (str * (dtype -> res arr)); (* soundfile.SoundFile: subtype and read(dtype=) *)
  c_kaldi : reader -> str -> option str -> res arr (* pydrobert.kaldi, by rspecifier *)
}.
Arguments c_wave {blob}. Arguments c_h5 {blob}. Arguments c_npy {blob}. Arguments c_npz {blob}.
Arguments c_pt {blob}. Arguments c_sph {blob}. Arguments c_raw {blob}. Arguments c_snd {blob}.
Arguments c_kaldi {blob}.

Inductive source (blob : Type) :=
| Path (name : str)          (* rfilename is a str *)
| Stream (b : blob).         (* rfilename is an open binary file *)
Arguments Path {blob}. Arguments Stream {blob}.

Definition is_path {blob} (s : source blob) : bool := match s with Path _ => true | Stream _ => false end.
Definition name_of {blob} (s : source blob) : str := match s with Path n => n | Stream _ => [] end.

Section ReadSignal.
  Variable blob : Type.
  Variable C : codecs blob.
  Variable fs : str -> res blob.   (* what the file system holds under a name *)
  Variable w : Z -> bool.          (* \w *)
  Variable sf : list str.          (* config.SOUNDFILE_SUPPORTED_FILE_TYPES *)

  Definition open_src (src : source blob) : res blob :=
    match src with Path n => fs n | Stream b => Ok b end.

  Definition run_reader (rd : reader) (src : source blob) (dtype : option dtype) (key : option str) : res arr :=
    match rd with
    | RTable | RKaldi =>
      match src with
      | Path n => c_kaldi C rd n key
      | Stream _ => Err EValue       (* excluded by the pre-check; assert isinstance(rfilename, str) *)
      end
    | RWav => bind (open_src src) (fun b => bind (c_wave C b) (fun wf => wave_read wf dtype))
    | RHdf5 => bind (open_src src) (fun b => hdf5_read (c_h5 C b) dtype key)
    | RNpy => bind (open_src src) (fun b => glue_npy (c_npy C b) dtype key)
    | RNpz => bind (open_src src) (fun b => glue_npz (c_npz C b) dtype key)
    | RPt => bind (open_src src) (fun b => glue_pt (c_pt C b) dtype key)
    | RSph => bind (open_src src) (fun b => c_sph C b dtype)
    | RFile => bind (open_src src) (fun b => glue_file (c_raw C b) dtype key)
    | RSoundfile => bind (open_src src) (fun b => glue_soundfile (c_snd C b) dtype key)
    end.

  (* read_signal(rfilename, dtype, key, force_as) *)
  Definition read_signal (src : source blob) (dtype : option dtype) (key : option str)
      (force_as : option str) : res arr :=
    bind (resolve w sf (is_path src) (name_of src) force_as) (fun fa =>
    bind (dispatch sf fa) (fun rd => run_reader rd src dtype key)).

  (* wds_read_signal(key, data) *)
  Definition wds_read_signal (key : str) (data : blob) : option arr :=
    wds_glue w sf (fun fa => read_signal (Stream data) None None (Some fa)) key.
End ReadSignal.

(* specification of the suffix inference as a table look-up (proved equal to the
   generated chain in Proofs.v) *)
Fixpoint first_suffix (rules : list (str * str)) (name : str) : option str :=
  match rules with
  | [] => None
  | (suf, t) :: rest => if ends_with name suf then Some t else first_suffix rest name
  end.
Definition s_table : str := [116; 97; 98; 108; 101].
Definition infer_spec (w : Z -> bool) (sf : list str) (name : str) : res str :=
  if re_table w name then Ok s_table
  else if mem_str (last_seg 46 name) sf then Ok (last_seg 46 name)
  else match first_suffix infer_suffix_rules name with Some t => Ok t | None => Err EIO end.

(* ------------------------------------------------------------------------ *)
(* reference world: a "file" is its decoded content; each codec succeeds on    *)
(* the content of its own kind and fails on everything else                   *)

Inductive content :=
| CWave (width chans : Z) (frames : list Z)
| CNpy (a : arr)
| CNpz (entries : list (str * arr))
| CPt (a : arr)
| CH5 (root : list (str * h5node))
| CSnd (subtype : str) (chans : Z) (native : list Z)   (* interleaved samples at the subtype's own depth *)
| CSph (a : arr)                                      (* uncompressed PCM SPHERE *)
| CRaw (bytes : list Z)
| CBad.

Definition is_float (d : dtype) : bool := match d with F32 | F64 => true | _ => false end.
Definition is_signed (d : dtype) : bool := match d with I8 | I16 | I32 | I64 => true | _ => false end.

Definition s_PCM_S8 : str := [80; 67; 77; 95; 83; 56].
Definition s_PCM_U8 : str := [80; 67; 77; 95; 85; 56].
Definition s_PCM_16 : str := [80; 67; 77; 95; 49; 54].
Definition s_PCM_24 : str := [80; 67; 77; 95; 50; 52].
Definition s_PCM_32 : str := [80; 67; 77; 95; 51; 50].
Definition s_FLOAT : str := [70; 76; 79; 65; 84].
Definition s_DOUBLE : str := [68; 79; 85; 66; 76; 69].

Definition snd_bits (subtype : str) : option Z :=
  if eqb_str subtype s_PCM_S8 then Some 8 else if eqb_str subtype s_PCM_U8 then Some 8
  else if eqb_str subtype s_PCM_16 then Some 16 else if eqb_str subtype s_PCM_24 then Some 24
  else if eqb_str subtype s_PCM_32 then Some 32 else None.

(* libsndfile's integer read: samples are left-justified in the requested width;
   python-soundfile reads into int16, int32, float32 or float64 arrays only *)
Definition ref_snd_read (subtype : str) (chans : Z) (native : list Z) (d : dtype) : res arr :=
  let n := Z.of_nat (length native) in
  let shape := if 1 <? chans then [n / chans; chans] else [n] in
  match snd_bits subtype with
  | Some b =>
    if (dtype_eqb d I16 || dtype_eqb d I32) && (b <=? 8 * itemsize d)
    then Ok (mk_arr d shape (map (fun v => v * 2 ^ (8 * itemsize d - b)) native))
    else Err ECodec
  | None =>
    if (eqb_str subtype s_FLOAT || eqb_str subtype s_DOUBLE) && is_float d
    then Ok (mk_arr d shape native) else Err ECodec
  end.

(* np.fromfile on raw bytes: integer element types only (IEEE bit patterns are
   not modelled); a trailing partial element is dropped *)
Definition ref_raw (bytes : list Z) (d : dtype) : res arr :=
  if is_float d then Err ECodec
  else
    let sz := itemsize d in
    let k := Z.of_nat (length bytes) / sz in
    let whole := firstn (Z.to_nat (k * sz)) bytes in
    let vals := map (fun c => if is_signed d then wrap_s (8 * sz) (le_val c) else le_val c)
                    (chunks (Z.to_nat sz) whole) in
    Ok (mk_arr d [k] vals).

Definition ref_codecs : codecs content :=
  mk_codecs content
    (fun b => match b with CWave wd c f => Ok (mk_wave wd c f) | _ => Err ECodec end)
    (fun b => match b with CH5 r => Ok (H5Group r) | _ => Err ECodec end)
    (fun b => match b with CNpy a => Ok a | _ => Err ECodec end)
    (fun b => match b with CNpz e => Ok e | _ => Err ECodec end)
    (fun b => match b with CPt a => Ok a | _ => Err ECodec end)
    (fun b d => match b with CSph a => Ok (cast_opt d a) | _ => Err ECodec end)
    (fun b d => match b with CRaw bytes => ref_raw bytes d | _ => Err ECodec end)
    (fun b => match b with
              | CSnd st c nat => Ok (st, ref_snd_read st c nat)
              | _ => Err ECodec end)
    (fun _ _ _ => Err ECodec).

Definition ref_fs (files : list (str * content)) (name : str) : res content :=
  match assoc name files with Some c => Ok c | None => Err ECodec end.

(* comparison helpers for the generated case files *)
Fixpoint list_eqb (a b : list Z) : bool :=
  match a, b with
  | [], [] => true
  | x :: a', y :: b' => (x =? y) && list_eqb a' b'
  | _, _ => false
  end.
Definition arr_eqb (a b : arr) : bool :=
  dtype_eqb (a_dt a) (a_dt b) && list_eqb (a_shape a) (a_shape b) && list_eqb (a_data a) (a_data b).
Definition exn_eqb (a b : exn) : bool :=
  match a, b with
  | EIO, EIO | EValue, EValue | EKey, EKey | EType, EType | EZeroDiv, EZeroDiv | ECodec, ECodec => true
  | _, _ => false
  end.
(* the model's ECodec stands for "some exception of the decoder's choosing" *)
Definition res_agree (model observed : res arr) : bool :=
  match model, observed with
  | Ok a, Ok b => arr_eqb a b
  | Err ECodec, Err _ => true
  | Err e, Err e' => exn_eqb e e'
  | _, _ => false
  end.
Definition res_str_eqb (a b : res str) : bool :=
  match a, b with
  | Ok x, Ok y => eqb_str x y
  | Err e, Err e' => exn_eqb e e'
  | _, _ => false
  end.

Fixpoint mismatches_from {A} (i : Z) (f : A -> bool) (l : list A) : list Z :=
  match l with
  | [] => []
  | x :: t => if f x then mismatches_from (i + 1) f t else i :: mismatches_from (i + 1) f t
  end.

Record rcase := mk_case {
  k_files : list (str * content);
  k_src : source content;
  k_dtype : option dtype;
  k_key : option str;
  k_force : option str;
  k_sf : list str;
  k_obs : res arr
}.
Definition run_case (k : rcase) : res arr :=
  read_signal content ref_codecs (ref_fs (k_files k)) ascii_word (k_sf k) (k_src k) (k_dtype k) (k_key k) (k_force k).
Definition case_ok (k : rcase) : bool := res_agree (run_case k) (k_obs k).

Definition infer_case_ok (k : list str * str * res str) : bool :=
  let '(sf, name, obs) := k in res_str_eqb (infer ascii_word sf name) obs.

Definition opt_arr_eqb (a b : option arr) : bool :=
  match a, b with Some x, Some y => arr_eqb x y | None, None => true | _, _ => false end.
Definition wds_case_ok (k : list str * str * content * option arr) : bool :=
  let '(sf, key, data, obs) := k in
  opt_arr_eqb (wds_read_signal content ref_codecs (fun _ => Err EIO) ascii_word sf key data) obs.
