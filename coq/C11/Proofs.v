(* C11 - lemmas about the decision logic generated from util.py (gen/ReadSignal.v)
   and about read_signal / wds_read_signal assembled in Model.v. *)
From Coq Require Import ZArith List Bool Lia ZifyBool.
From Verif Require Import lib.C11_Base gen.ReadSignal C11.Model C11.ProofsStr C11.ProofsWave C11.ProofsH5.
Import ListNotations.
Open Scope Z_scope.

Definition res_map {A B} (f : A -> B) (r : res A) : res B :=
  match r with Ok a => Ok (f a) | Err e => Err e end.

(* ------------------------------------------------------------------------ *)
(* A. suffix inference                                                        *)

(* the generated if/elif chain is the table look-up of Model.infer_spec *)
Lemma infer_eq_spec_l : forall w sf n, infer w sf n = infer_spec w sf n.
Proof.
  intros w sf n. unfold infer, infer_spec, infer_suffix_rules.
  destruct (re_table w n); [reflexivity|].
  destruct (mem_str (last_seg 46 n) sf); [reflexivity|].
  cbn [first_suffix].
  repeat match goal with
         | |- context [ends_with n ?s] => destruct (ends_with n s); [reflexivity|]
         end.
  reflexivity.
Qed.

Lemma first_suffix_some : forall rules n t, first_suffix rules n = Some t ->
  exists suf p, In (suf, t) rules /\ n = p ++ suf.
Proof.
  induction rules as [|[suf t'] rest IH]; intros n t H; simpl in H; [discriminate|].
  destruct (ends_with n suf) eqn:E.
  - inversion H; subst. apply ends_with_spec in E. destruct E as [p Hp].
    exists suf, p. split; [left; reflexivity | exact Hp].
  - destruct (IH _ _ H) as [s [p [Hin Hp]]]. exists s, p. split; [right; exact Hin | exact Hp].
Qed.

Lemma first_suffix_none : forall rules n, first_suffix rules n = None <->
  forall suf t, In (suf, t) rules -> ~ exists p, n = p ++ suf.
Proof.
  induction rules as [|[suf t'] rest IH]; intros n; simpl.
  - split; [intros _ ? ? [] | reflexivity].
  - destruct (ends_with n suf) eqn:E.
    + split; [discriminate|]. intro H. exfalso. apply (H suf t'); [left; reflexivity|].
      apply ends_with_spec. exact E.
    + rewrite IH. split.
      * intros H s t [Hin|Hin]; [|apply (H s t Hin)].
        inversion Hin; subst. intro Hp. apply ends_with_spec in Hp. congruence.
      * intros H s t Hin. apply (H s t). right. exact Hin.
Qed.

Section Infer.
  Variable w : Z -> bool.
  Hypothesis w_comma : w ch_comma = false.
  Hypothesis w_colon : w ch_colon = false.
  Variable sf : list str.

  (* every answer is justified by the name *)
  Theorem infer_sound_l : forall n t, infer w sf n = Ok t ->
    (table_lang w n /\ t = s_table)
    \/ (In t sf /\ t = last_seg 46 n)
    \/ (exists suf p, In (suf, t) infer_suffix_rules /\ n = p ++ suf).
  Proof.
    intros n t H. rewrite infer_eq_spec_l in H. unfold infer_spec in H.
    destruct (re_table w n) eqn:E1.
    - left. inversion H. split; [|reflexivity].
      apply (re_table_spec_l w w_comma w_colon). exact E1.
    - destruct (mem_str (last_seg 46 n) sf) eqn:E2.
      + right. left. inversion H; subst. split; [|reflexivity]. apply mem_str_spec. exact E2.
      + right. right. destruct (first_suffix infer_suffix_rules n) eqn:E3; [|discriminate].
        inversion H; subst. apply first_suffix_some. exact E3.
  Qed.

  (* IOError exactly for the names nothing recognises; no other exception *)
  Theorem infer_ioerror_iff_l : forall n, infer w sf n = Err EIO <->
    ~ table_lang w n /\ ~ In (last_seg 46 n) sf
    /\ (forall suf t, In (suf, t) infer_suffix_rules -> ~ exists p, n = p ++ suf).
  Proof.
    intro n. rewrite infer_eq_spec_l. unfold infer_spec.
    rewrite <- (re_table_spec_l w w_comma w_colon), <- mem_str_spec, <- first_suffix_none.
    destruct (re_table w n); [split; [discriminate | intros [H _]; exfalso; apply H; reflexivity]|].
    destruct (mem_str (last_seg 46 n) sf);
      [split; [discriminate | intros [_ [H _]]; exfalso; apply H; reflexivity]|].
    destruct (first_suffix infer_suffix_rules n);
      [split; [discriminate | intros [_ [_ H]]; discriminate]|].
    split; [intros _; repeat split; discriminate | reflexivity].
  Qed.

  Theorem infer_only_ioerror_l : forall n e, infer w sf n = Err e -> e = EIO.
  Proof.
    intros n e H. rewrite infer_eq_spec_l in H. unfold infer_spec in H.
    destruct (re_table w n); [discriminate|].
    destruct (mem_str (last_seg 46 n) sf); [discriminate|].
    destruct (first_suffix infer_suffix_rules n); [discriminate|]. inversion H. reflexivity.
  Qed.

  Lemma existsb_sep_app : forall sep p t, existsb (Z.eqb sep) (p ++ sep :: t) = true.
  Proof.
    intros. apply existsb_exists. exists sep. split; [|apply Z.eqb_refl].
    apply in_or_app. right. left. reflexivity.
  Qed.

  (* completeness: stem + "." + type is recognised as that type, for the types
     of the suffix rules and for whatever libsndfile types are configured *)
  Theorem infer_complete_l : forall stem t,
    ~ table_lang w (stem ++ 46 :: t) -> ~ In 46 t ->
    In t sf \/ In (46 :: t, t) infer_suffix_rules ->
    infer w sf (stem ++ 46 :: t) = Ok t.
  Proof.
    intros stem t Hnt Hdot Hin. rewrite infer_eq_spec_l. unfold infer_spec.
    destruct (re_table w (stem ++ 46 :: t)) eqn:E1.
    { exfalso. apply Hnt. apply (re_table_spec_l w w_comma w_colon). exact E1. }
    rewrite last_seg_app by exact Hdot.
    destruct (mem_str t sf) eqn:E2; [reflexivity|].
    destruct Hin as [Hin|Hin]; [apply mem_str_spec in Hin; congruence|].
    unfold infer_suffix_rules in *. cbn [In] in Hin. cbn [first_suffix].
    repeat match goal with
           | |- context [ends_with ?s (46 :: ?u)] =>
             rewrite (ends_with_dotted 46 s u) by (cbn [In]; intuition discriminate);
             rewrite (last_seg_app 46 stem t Hdot), existsb_sep_app, andb_true_r
           end.
    repeat (destruct Hin as [Hin|Hin];
            [inversion Hin; subst; reflexivity|]).
    contradiction.
  Qed.
End Infer.

Example infer_ex :
  infer ascii_word [[102;108;97;99]] [100;47;117;46;98;46;102;108;97;99] = Ok [102;108;97;99]     (* "d/u.b.flac" *)
  /\ infer ascii_word [] [100;47;117;46;98;46;102;108;97;99] = Err EIO
  /\ infer ascii_word [] [97;114;107;44;116;58;120;46;110;112;121] = Ok s_table                (* "ark,t:x.npy" *)
  /\ infer ascii_word [] [97;114;107;44;58;120;46;110;112;121] = Ok [110;112;121].              (* "ark,:x.npy" *)
Proof. repeat split. Qed.

(* ------------------------------------------------------------------------ *)
(* B. dispatch                                                                *)

Theorem dispatch_unknown_l : forall sf fa,
  ~ In fa dispatch_literals -> ~ In fa sf -> dispatch sf fa = Err EValue.
Proof.
  intros sf fa H1 H2. apply mem_str_false in H1. apply mem_str_false in H2.
  unfold dispatch. rewrite H2.
  unfold mem_str, dispatch_literals in H1. cbn [existsb] in H1.
  repeat (apply orb_false_iff in H1; destruct H1 as [?E H1]).
  repeat match goal with E : eqb_str fa _ = false |- _ => rewrite E; clear E end.
  reflexivity.
Qed.

Theorem dispatch_known_l : forall sf fa,
  In fa dispatch_literals \/ In fa sf -> exists rd, dispatch sf fa = Ok rd.
Proof.
  intros sf fa H. unfold dispatch.
  repeat match goal with
         | |- context [eqb_str fa ?l] => destruct (eqb_str fa l) eqn:?E; [eexists; reflexivity|]
         end.
  destruct H as [H|H].
  - exfalso. apply mem_str_spec in H. unfold mem_str, dispatch_literals in H. cbn [existsb] in H.
    repeat match goal with E : eqb_str fa _ = false |- _ => rewrite E in H; clear E end.
    discriminate.
  - apply mem_str_spec in H. rewrite H. eexists. reflexivity.
Qed.

Theorem dispatch_only_valueerror_l : forall sf fa e, dispatch sf fa = Err e -> e = EValue.
Proof.
  intros sf fa e H. unfold dispatch in H.
  repeat match type of H with
         | context [eqb_str fa ?l] => destruct (eqb_str fa l); [cbn in H; discriminate H|]
         end.
  destruct (mem_str fa sf); cbn in H; [discriminate H|]. inversion H. reflexivity.
Qed.

(* which reader each documented force_as selects, whatever the configured type set *)
Theorem dispatch_table_l : forall sf,
  dispatch sf [116;97;98;108;101] = Ok RTable                          (* table *)
  /\ dispatch sf [119;97;118] = Ok RWav                                 (* wav *)
  /\ dispatch sf [104;100;102;53] = Ok RHdf5                            (* hdf5 *)
  /\ dispatch sf [110;112;121] = Ok RNpy                                (* npy *)
  /\ dispatch sf [110;112;122] = Ok RNpz                                (* npz *)
  /\ dispatch sf [112;116] = Ok RPt                                     (* pt *)
  /\ dispatch sf [115;112;104] = Ok RSph                                (* sph *)
  /\ dispatch sf [107;97;108;100;105] = Ok RKaldi                       (* kaldi *)
  /\ dispatch sf [102;105;108;101] = Ok RFile                           (* file *)
  /\ dispatch sf [115;111;117;110;100;102;105;108;101] = Ok RSoundfile. (* soundfile *)
Proof. intro sf. repeat split. Qed.

Theorem dispatch_soundfile_types_l : forall sf fa,
  In fa sf -> ~ In fa dispatch_literals -> dispatch sf fa = Ok RSoundfile.
Proof.
  intros sf fa H1 H2. apply mem_str_spec in H1. apply mem_str_false in H2.
  unfold dispatch. rewrite H1.
  unfold mem_str, dispatch_literals in H2. cbn [existsb] in H2.
  repeat (apply orb_false_iff in H2; destruct H2 as [?E H2]).
  repeat match goal with E : eqb_str fa _ = false |- _ => rewrite E; clear E end.
  reflexivity.
Qed.

Lemma dispatch_kaldi_inv : forall sf fa rd, dispatch sf fa = Ok rd ->
  rd = RTable \/ rd = RKaldi -> In fa stream_excluded.
Proof.
  intros sf fa rd H Hrd. unfold dispatch in H.
  repeat match type of H with
         | context [eqb_str fa ?l] =>
           destruct (eqb_str fa l) eqn:E;
           [ apply eqb_str_spec in E; cbn in H; inversion H; subst;
             first [ (left; reflexivity) | (right; left; reflexivity)
                   | (destruct Hrd; discriminate) ] | clear E]
         end.
  destruct (mem_str fa sf); cbn in H; inversion H; subst; destruct Hrd; discriminate.
Qed.

(* everything the inference can answer is accepted by the dispatch *)
Theorem infer_dispatch_total_l : forall w sf n t,
  infer w sf n = Ok t -> exists rd, dispatch sf t = Ok rd.
Proof.
  intros w sf n t H. rewrite infer_eq_spec_l in H. unfold infer_spec in H.
  destruct (re_table w n).
  { inversion H. eexists. reflexivity. }
  destruct (mem_str (last_seg 46 n) sf) eqn:E.
  { inversion H; subst. apply dispatch_known_l. right. apply mem_str_spec. exact E. }
  destruct (first_suffix infer_suffix_rules n) eqn:E3; [|discriminate]. inversion H; subst.
  apply first_suffix_some in E3. destruct E3 as [suf [p [Hin _]]].
  unfold infer_suffix_rules in Hin. cbn [In] in Hin.
  repeat (destruct Hin as [Hin|Hin]; [inversion Hin; subst; eexists; reflexivity|]).
  contradiction.
Qed.

(* ------------------------------------------------------------------------ *)
(* C. casts                                                                   *)

Lemma wrap_s_id : forall b v, 0 < b -> - 2 ^ (b - 1) <= v < 2 ^ (b - 1) -> wrap_s b v = v.
Proof.
  intros b v Hb Hv. unfold wrap_s.
  assert (E : 2 ^ b = 2 * 2 ^ (b - 1)).
  { replace b with (Z.succ (b - 1)) at 1 by lia. apply Z.pow_succ_r. lia. }
  rewrite Z.mod_small; lia.
Qed.

(* a value the target type can represent is not changed by the cast ... *)
Lemma cast1_in_range : forall d v, in_range d v = true -> cast1 d v = v.
Proof.
  intros d v H. destruct d; cbn [cast1 in_range] in *;
    try reflexivity;
    try (apply wrap_s_id; [lia|]; cbn; lia);
    try (unfold wrap_u; apply Z.mod_small; cbn; lia).
Qed.

(* ... nor by HDF5's saturating conversion *)
Lemma sat1_in_range : forall d v, in_range d v = true -> sat1 d v = v.
Proof.
  intros d v H. destruct d; cbn [sat1 dtype_bounds in_range] in *; try reflexivity; lia.
Qed.

Lemma map_id_in : forall (f : Z -> Z) l, (forall v, In v l -> f v = v) -> map f l = l.
Proof.
  intros f l H. rewrite <- (map_id l) at 2. apply map_ext_in. exact H.
Qed.

Theorem astype_representable_l : forall d a,
  Forall (fun v => in_range d v = true) (a_data a) ->
  astype d a = mk_arr d (a_shape a) (a_data a).
Proof.
  intros d a H. unfold astype. f_equal. apply map_id_in.
  rewrite Forall_forall in H. intros v Hin. apply cast1_in_range. apply H. exact Hin.
Qed.

Theorem h5_convert_representable_l : forall d a,
  Forall (fun v => in_range d v = true) (a_data a) ->
  h5_convert (Some d) a = astype d a.
Proof.
  intros d a H. rewrite astype_representable_l by exact H. unfold h5_convert. f_equal.
  apply map_id_in. rewrite Forall_forall in H. intros v Hin. apply sat1_in_range. apply H. exact Hin.
Qed.

Theorem astype_same_dtype_l : forall a, arr_wf a -> astype (a_dt a) a = a.
Proof.
  intros [d sh data] [_ H]. cbn [a_dt a_data] in *.
  rewrite astype_representable_l by exact H. reflexivity.
Qed.

(* the wave reader's dtype is a final cast *)
Lemma wave_read_cast : forall wf d,
  wave_read wf (Some d) = res_map (astype d) (wave_read wf None).
Proof.
  intros wf d. unfold wave_read.
  destruct (width_dtype (wv_width wf)); [|reflexivity].
  destruct (negb _); [reflexivity|].
  destruct (wv_chans wf =? 0); [reflexivity|].
  destruct (negb _); reflexivity.
Qed.

Lemma hdf5_read_cast : forall o d key,
  hdf5_read o (Some d) key = res_map (h5_convert (Some d)) (hdf5_read o None key).
Proof.
  intros o d key. unfold hdf5_read. destruct o as [root|e]; [|reflexivity]. cbn [bind].
  destruct (if truthy_str key then _ else _); reflexivity.
Qed.

(* HDF5's conversion is NOT ndarray.astype on values the target cannot hold:
   the stronger reading "dtype acts like astype for every container" is refuted *)
Lemma hdf5_cast_is_not_astype_refuted_l :
  exists root d,
    hdf5_read (Ok root) (Some d) None <> res_map (astype d) (hdf5_read (Ok root) None None).
Proof.
  exists (H5Group [([120], H5Data (mk_arr I32 [2] [-5; 70000]))]), U16.
  vm_compute. discriminate.
Qed.

(* ------------------------------------------------------------------------ *)
(* D. keys                                                                    *)

Lemma assoc_in : forall A k (l : list (str * A)) v, assoc k l = Some v -> In (k, v) l.
Proof.
  induction l as [|[k' v'] t IH]; intros v H; simpl in H; [discriminate|].
  destruct (eqb_str k k') eqn:E.
  - apply eqb_str_spec in E. inversion H; subst. left. reflexivity.
  - right. apply IH. exact H.
Qed.

Lemma assoc_nodup : forall A k (l : list (str * A)) v,
  NoDup (map fst l) -> In (k, v) l -> assoc k l = Some v.
Proof.
  induction l as [|[k' v'] t IH]; intros v Hnd Hin; simpl in *; [contradiction|].
  inversion Hnd; subst. destruct Hin as [Hin|Hin].
  - inversion Hin; subst. rewrite eqb_str_refl. reflexivity.
  - destruct (eqb_str k k') eqn:E.
    + apply eqb_str_spec in E. subst. exfalso. apply H1.
      change k' with (fst (k', v)). apply in_map. exact Hin.
    + apply IH; assumption.
Qed.

Theorem npz_key_selects_l : forall archive k a dtype,
  k <> [] -> NoDup (map fst archive) -> In (k, a) archive ->
  glue_npz (Ok archive) dtype (Some k) = Ok (cast_opt dtype a).
Proof.
  intros archive k a dtype Hk Hnd Hin. unfold glue_npz. cbn [bind].
  destruct k as [|c k]; [congruence|]. cbn [truthy_str].
  rewrite (assoc_nodup _ _ _ _ Hnd Hin). reflexivity.
Qed.

Theorem npz_default_key_l : forall archive dtype key,
  truthy_str key = false ->
  glue_npz (Ok archive) dtype key =
  match assoc npz_default_key archive with
  | Some a => Ok (cast_opt dtype a)
  | None => Err EKey
  end.
Proof. intros archive dtype key H. unfold glue_npz. cbn [bind]. rewrite H. reflexivity. Qed.

Theorem npz_missing_key_l : forall archive k dtype,
  k <> [] -> ~ In k (map fst archive) -> glue_npz (Ok archive) dtype (Some k) = Err EKey.
Proof.
  intros archive k dtype Hk Hno. unfold glue_npz. cbn [bind].
  destruct k as [|c k]; [congruence|]. cbn [truthy_str].
  destruct (assoc (c :: k) archive) eqn:E; [|reflexivity].
  exfalso. apply Hno. apply assoc_in in E.
  change (c :: k) with (fst (c :: k, a)). apply in_map. exact E.
Qed.

(* ------------------------------------------------------------------------ *)
(* E. read_signal                                                             *)

Definition two_stage (rd : reader) : bool :=
  match rd with RWav | RNpy | RNpz | RPt | RSoundfile => true | _ => false end.
Definition key_blind (rd : reader) : bool :=
  match rd with RWav | RNpy | RPt | RSph | RFile | RSoundfile => true | _ => false end.

Section Read.
  Variable blob : Type.
  Variable C : codecs blob.
  Variable fs : str -> res blob.
  Variable w : Z -> bool.
  Variable sf : list str.

  Notation read := (read_signal blob C fs w sf).
  Notation run := (run_reader blob C fs).

  Definition chosen_reader (src : source blob) (force_as : option str) : res reader :=
    bind (resolve w sf (is_path src) (name_of src) force_as) (dispatch sf).

  Lemma read_by_reader : forall src dtype key fa,
    read src dtype key fa = bind (chosen_reader src fa) (fun rd => run rd src dtype key).
  Proof.
    intros. unfold read_signal, chosen_reader.
    destruct (resolve w sf (is_path src) (name_of src) fa); reflexivity.
  Qed.

  (* -- error clauses -- *)
  Theorem stream_without_force_as_l : forall b dtype key,
    read (Stream b) dtype key None = Err EValue.
  Proof. reflexivity. Qed.

  Theorem stream_kaldi_force_as_l : forall b dtype key fa,
    In fa stream_excluded -> read (Stream b) dtype key (Some fa) = Err EValue.
  Proof.
    intros b dtype key fa H. apply mem_str_spec in H.
    unfold read_signal, resolve. cbn [is_path negb]. rewrite H. reflexivity.
  Qed.

  Theorem unknown_force_as_l : forall src dtype key fa,
    ~ In fa dispatch_literals -> ~ In fa sf -> read src dtype key (Some fa) = Err EValue.
  Proof.
    intros src dtype key fa H1 H2. unfold read_signal, resolve.
    destruct src as [n|b]; cbn [is_path negb].
    - cbn [bind]. rewrite (dispatch_unknown_l sf fa H1 H2). reflexivity.
    - destruct (mem_str fa stream_excluded); [reflexivity|].
      cbn [bind]. rewrite (dispatch_unknown_l sf fa H1 H2). reflexivity.
  Qed.

  Theorem no_suffix_ioerror_l : forall n dtype key,
    infer w sf n = Err EIO -> read (Path n) dtype key None = Err EIO.
  Proof.
    intros n dtype key H. unfold read_signal, resolve. cbn [is_path negb name_of]. rewrite H. reflexivity.
  Qed.

  (* -- a name and a stream over the same bytes give the same answer -- *)
  Lemma run_path_stream : forall rd n b dtype key,
    fs n = Ok b -> rd <> RTable -> rd <> RKaldi ->
    run rd (Path n) dtype key = run rd (Stream b) dtype key.
  Proof.
    intros rd n b dtype key Hfs H1 H2.
    destruct rd; try congruence; unfold run_reader, open_src; rewrite Hfs; reflexivity.
  Qed.

  Theorem path_stream_agree_l : forall n b t dtype key,
    fs n = Ok b -> infer w sf n = Ok t -> ~ In t stream_excluded ->
    read (Path n) dtype key None = read (Stream b) dtype key (Some t).
  Proof.
    intros n b t dtype key Hfs Hinf Hex. apply mem_str_false in Hex.
    unfold read_signal, resolve. cbn [is_path negb name_of]. rewrite Hinf, Hex. cbn [bind].
    destruct (dispatch sf t) as [rd|e] eqn:Ed; [|reflexivity]. cbn [bind].
    apply run_path_stream; [exact Hfs | |];
      intro; subst; apply mem_str_false in Hex; apply Hex;
      apply (dispatch_kaldi_inv sf t _ Ed); auto.
  Qed.

  Theorem force_as_path_stream_agree_l : forall n b fa dtype key,
    fs n = Ok b -> ~ In fa stream_excluded ->
    read (Path n) dtype key (Some fa) = read (Stream b) dtype key (Some fa).
  Proof.
    intros n b fa dtype key Hfs Hex. apply mem_str_false in Hex.
    unfold read_signal, resolve. cbn [is_path negb name_of]. rewrite Hex. cbn [bind].
    destruct (dispatch sf fa) as [rd|e] eqn:Ed; [|reflexivity]. cbn [bind].
    apply run_path_stream; [exact Hfs | |];
      intro; subst; apply mem_str_false in Hex; apply Hex;
      apply (dispatch_kaldi_inv sf fa _ Ed); auto.
  Qed.

  (* with force_as the name's suffix plays no role *)
  Theorem force_as_overrides_suffix_l : forall n n' b fa dtype key,
    fs n = Ok b -> fs n' = Ok b -> ~ In fa stream_excluded ->
    read (Path n) dtype key (Some fa) = read (Path n') dtype key (Some fa).
  Proof.
    intros. rewrite (force_as_path_stream_agree_l n b) by assumption.
    rewrite (force_as_path_stream_agree_l n' b) by assumption. reflexivity.
  Qed.

  (* -- dtype -- *)
  Lemma bind_res_map : forall A B (r : res A) (f : A -> res B) (g : B -> B) (f' : A -> res B),
    (forall a, f' a = res_map g (f a)) -> bind r f' = res_map g (bind r f).
  Proof. intros A B r f g f' H. destruct r; cbn; [apply H | reflexivity]. Qed.

  Lemma run_two_stage_cast : forall rd src d key, two_stage rd = true ->
    run rd src (Some d) key = res_map (astype d) (run rd src None key).
  Proof.
    intros rd src d key H. destruct rd; try discriminate; unfold run_reader;
      apply bind_res_map; intro b.
    - apply bind_res_map. intro wf. apply wave_read_cast.
    - unfold glue_npy. destruct (c_npy C b); reflexivity.
    - unfold glue_npz. destruct (c_npz C b) as [ar|]; [|reflexivity]. cbn [bind].
      destruct (assoc _ ar); reflexivity.
    - unfold glue_pt. destruct (c_pt C b); reflexivity.
    - unfold glue_soundfile. destruct (c_snd C b) as [[st rd]|]; [|reflexivity]. cbn [bind fst snd].
      destruct (rd (soundfile_dtype st)); reflexivity.
  Qed.

  (* wav, npy, npz, pt and the soundfile types: dtype is ndarray.astype applied
     to what would have been returned without it *)
  Theorem dtype_is_final_cast_l : forall src d key fa rd,
    chosen_reader src fa = Ok rd -> two_stage rd = true ->
    read src (Some d) key fa = res_map (astype d) (read src None key fa).
  Proof.
    intros src d key fa rd Hc Ht. rewrite !read_by_reader, Hc. cbn [bind].
    apply run_two_stage_cast. exact Ht.
  Qed.

  (* hdf5: the conversion HDF5 applies while reading *)
  Theorem dtype_hdf5_conversion_l : forall src d key fa,
    chosen_reader src fa = Ok RHdf5 ->
    read src (Some d) key fa = res_map (h5_convert (Some d)) (read src None key fa).
  Proof.
    intros src d key fa Hc. rewrite !read_by_reader, Hc. cbn [bind]. unfold run_reader.
    apply bind_res_map. intro b. apply hdf5_read_cast.
  Qed.

  (* when no reader is chosen the error does not depend on dtype or key *)
  Theorem choice_error_l : forall src dtype key fa e,
    chosen_reader src fa = Err e -> read src dtype key fa = Err e.
  Proof. intros src dtype key fa e H. rewrite read_by_reader, H. reflexivity. Qed.

  (* -- key -- *)
  Theorem key_ignored_l : forall src dtype k k' fa rd,
    chosen_reader src fa = Ok rd -> key_blind rd = true ->
    read src dtype k fa = read src dtype k' fa.
  Proof.
    intros src dtype k k' fa rd Hc Hb. rewrite !read_by_reader, Hc. cbn [bind].
    destruct rd; try discriminate; reflexivity.
  Qed.

  Definition s_npz : str := [110; 112; 122].
  Definition s_hdf5 : str := [104; 100; 102; 53].

  Theorem key_selects_npz_entry_l : forall b archive k a dtype,
    c_npz C b = Ok archive -> NoDup (map fst archive) -> In (k, a) archive -> k <> [] ->
    read (Stream b) dtype (Some k) (Some s_npz) = Ok (cast_opt dtype a).
  Proof.
    intros b archive k a dtype Hc Hnd Hin Hk.
    unfold read_signal, resolve. cbn. rewrite Hc.
    apply npz_key_selects_l; assumption.
  Qed.

  Theorem key_selects_hdf5_entry_l : forall b ch k a dtype,
    c_h5 C b = Ok (H5Group ch) -> k <> [] -> ~ In 47 k -> assoc k ch = Some (H5Data a) ->
    read (Stream b) dtype (Some k) (Some s_hdf5) = Ok (h5_convert dtype a).
  Proof.
    intros b ch k a dtype Hc Hk Hs Ha.
    unfold read_signal, resolve. cbn. rewrite Hc. unfold hdf5_read. cbn [bind].
    destruct k as [|c k]; [congruence|]. cbn [truthy_str].
    rewrite h5_getitem_name_l by assumption. rewrite Ha. reflexivity.
  Qed.

  (* hdf5 without a key: the first dataset in pre-order *)
  Theorem hdf5_default_first_dataset_l : forall b root dtype key,
    c_h5 C b = Ok root -> truthy_str key = false ->
    exists r, first_ds root r /\
      read (Stream b) dtype key (Some s_hdf5) =
      match r with Some a => Ok (h5_convert dtype a) | None => Err EIO end.
  Proof.
    intros b root dtype key Hc Hk. destruct (h5_find_spec_l root) as [r [Hf Hs]].
    exists r. split; [exact Hs|].
    unfold read_signal, resolve. cbn. rewrite Hc. unfold hdf5_read. cbn [bind].
    rewrite Hk, Hf. destruct r; reflexivity.
  Qed.

  (* -- without dtype the glue hands back the decoder's array untouched -- *)
  Lemma bind_ok : forall A (r : res A), bind r (fun a => Ok a) = r.
  Proof. destruct r; reflexivity. Qed.

  Theorem readers_return_decoded_l : forall b key,
    read (Stream b) None key (Some [110;112;121]) = c_npy C b                         (* npy *)
    /\ read (Stream b) None key (Some [112;116]) = c_pt C b                            (* pt *)
    /\ read (Stream b) None key (Some [115;112;104]) = c_sph C b None                  (* sph *)
    /\ read (Stream b) None key (Some [102;105;108;101]) = c_raw C b F64               (* file *)
    /\ read (Stream b) None key (Some [119;97;118])
       = bind (c_wave C b) (fun wf => wave_read wf None)                               (* wav *)
    /\ read (Stream b) None key (Some [115;111;117;110;100;102;105;108;101])
       = bind (c_snd C b) (fun o => snd o (soundfile_dtype (fst o))).                  (* soundfile *)
  Proof.
    intros b key. unfold read_signal, resolve. cbn.
    unfold glue_npy, glue_pt, glue_file, glue_soundfile, cast_opt.
    repeat split; try apply bind_ok.
    destruct (c_snd C b) as [[st rd]|]; [|reflexivity]. cbn. apply bind_ok.
  Qed.

  (* sph and file: dtype is handed to the decoder, it is not a second-stage cast
     (sph: element type of the output buffer, see C12; file: the type the raw
     bytes are read as, float64 when absent) *)
  Theorem dtype_passed_to_decoder_l : forall b dtype key d,
    read (Stream b) dtype key (Some [115;112;104]) = c_sph C b dtype
    /\ read (Stream b) (Some d) key (Some [102;105;108;101]) = c_raw C b d
    /\ read (Stream b) None key (Some [102;105;108;101]) = c_raw C b F64.
  Proof. intros. unfold read_signal, resolve. cbn. repeat split. Qed.

  (* wave files: header facts from the wave module, decoding proved *)
  Theorem wave_stream_roundtrip_l : forall b wd d c T samples dtype key,
    c_wave C b = Ok (mk_wave wd c (wave_encode wd samples)) ->
    width_dtype wd = Some d -> 1 <= c -> 0 <= T ->
    Z.of_nat (length samples) = T * c ->
    Forall (fun v => in_range d v = true) samples ->
    read (Stream b) dtype key (Some [119;97;118])
    = Ok (cast_opt dtype (mk_arr d (if 1 <? c then [T; c] else [T]) samples)).
  Proof.
    intros b wd d c T samples dtype key Hc Hw Hc1 HT Hlen Hall.
    unfold read_signal, resolve. cbn. rewrite Hc. cbn [bind].
    apply wave_roundtrip_l; assumption.
  Qed.

  (* -- wds_read_signal -- *)
  Notation wds := (wds_read_signal blob C fs w sf).

  Theorem wds_spec_l : forall key data,
    wds key data =
    match infer w sf key with
    | Err _ => None
    | Ok fa => match read (Stream data) None None (Some fa) with Ok a => Some a | Err _ => None end
    end.
  Proof. reflexivity. Qed.

  Theorem wds_total_l : forall key data, wds key data = None \/ exists a, wds key data = Some a.
  Proof. intros. destruct (wds key data) as [a|]; [right; exists a; reflexivity | left; reflexivity]. Qed.

  Theorem wds_unrecognised_none_l : forall key data e, infer w sf key = Err e -> wds key data = None.
  Proof. intros key data e H. rewrite wds_spec_l, H. reflexivity. Qed.

  Theorem wds_kaldi_none_l : forall key data t,
    infer w sf key = Ok t -> In t stream_excluded -> wds key data = None.
  Proof.
    intros key data t H Hex. rewrite wds_spec_l, H.
    rewrite (stream_kaldi_force_as_l data None None t Hex). reflexivity.
  Qed.

  Theorem wds_some_l : forall key data a, wds key data = Some a ->
    exists fa, infer w sf key = Ok fa /\ read (Stream data) None None (Some fa) = Ok a.
  Proof.
    intros key data a H. rewrite wds_spec_l in H.
    destruct (infer w sf key) as [fa|]; [|discriminate]. exists fa. split; [reflexivity|].
    destruct (read (Stream data) None None (Some fa)); [inversion H; reflexivity | discriminate].
  Qed.

  Theorem wds_decodes_l : forall key data fa a,
    infer w sf key = Ok fa -> read (Stream data) None None (Some fa) = Ok a -> wds key data = Some a.
  Proof. intros key data fa a H1 H2. rewrite wds_spec_l, H1, H2. reflexivity. Qed.
End Read.

(* ------------------------------------------------------------------------ *)
(* F. from a file name: inference, dispatch and glue composed                 *)

Section ByName.
  Variable blob : Type.
  Variable C : codecs blob.
  Variable fs : str -> res blob.
  Variable w : Z -> bool.
  Hypothesis w_comma : w ch_comma = false.
  Hypothesis w_colon : w ch_colon = false.
  Variable sf : list str.
  Notation read := (read_signal blob C fs w sf).

  (* stem + "." + t, not a Kaldi rspecifier, t a suffix rule or a configured
     libsndfile type: reading the name is reading its bytes with force_as = t *)
  Theorem name_is_stream_with_type_l : forall stem t b dtype key,
    ~ table_lang w (stem ++ 46 :: t) -> ~ In 46 t -> ~ In t stream_excluded ->
    In t sf \/ In (46 :: t, t) infer_suffix_rules ->
    fs (stem ++ 46 :: t) = Ok b ->
    read (Path (stem ++ 46 :: t)) dtype key None = read (Stream b) dtype key (Some t).
  Proof.
    intros stem t b dtype key Hnt Hdot Hex Hin Hfs.
    apply path_stream_agree_l; [exact Hfs | | exact Hex].
    apply infer_complete_l; assumption.
  Qed.

  (* the same, spelled out per container: the name alone selects the decoder and
     the decoded array comes back untouched *)
  Theorem by_name_returns_decoded_l : forall stem b key,
    (forall t, ~ table_lang w (stem ++ 46 :: t)) ->
    (forall t, fs (stem ++ 46 :: t) = Ok b) ->
    read (Path (stem ++ [46;110;112;121])) None key None = c_npy C b
    /\ read (Path (stem ++ [46;112;116])) None key None = c_pt C b
    /\ read (Path (stem ++ [46;115;112;104])) None key None = c_sph C b None
    /\ read (Path (stem ++ [46;119;97;118])) None key None
       = bind (c_wave C b) (fun wf => wave_read wf None).
  Proof.
    intros stem b key Hnt Hfs.
    destruct (readers_return_decoded_l blob C fs w sf b key) as [H1 [H2 [H3 [_ [H5 _]]]]].
    repeat split.
    - rewrite <- H1. apply (name_is_stream_with_type_l stem [110;112;121]);
        [apply Hnt | cbn; intuition discriminate | cbn; intuition discriminate
        | right; cbn; tauto | apply Hfs].
    - rewrite <- H2. apply (name_is_stream_with_type_l stem [112;116]);
        [apply Hnt | cbn; intuition discriminate | cbn; intuition discriminate
        | right; cbn; tauto | apply Hfs].
    - rewrite <- H3. apply (name_is_stream_with_type_l stem [115;112;104]);
        [apply Hnt | cbn; intuition discriminate | cbn; intuition discriminate
        | right; cbn; tauto | apply Hfs].
    - rewrite <- H5. apply (name_is_stream_with_type_l stem [119;97;118]);
        [apply Hnt | cbn; intuition discriminate | cbn; intuition discriminate
        | right; cbn; tauto | apply Hfs].
  Qed.

  (* a configured libsndfile type that is not one of the dispatch literals
     (flac, ogg, aiff; not wav) goes to the soundfile reader *)
  Theorem by_name_soundfile_l : forall stem t b key,
    ~ table_lang w (stem ++ 46 :: t) -> ~ In 46 t ->
    In t sf -> ~ In t dispatch_literals ->
    fs (stem ++ 46 :: t) = Ok b ->
    read (Path (stem ++ 46 :: t)) None key None
    = bind (c_snd C b) (fun o => snd o (soundfile_dtype (fst o))).
  Proof.
    intros stem t b key Hnt Hdot Hsf Hlit Hfs.
    assert (Hex : ~ In t stream_excluded).
    { intro H. apply Hlit. unfold stream_excluded in H. cbn [In] in H.
      destruct H as [H|[H|[]]]; subst; cbn; tauto. }
    rewrite (name_is_stream_with_type_l stem t b None key Hnt Hdot Hex (or_introl Hsf) Hfs).
    apply mem_str_false in Hex.
    unfold read_signal, resolve. cbn [is_path negb]. rewrite Hex. cbn [bind].
    rewrite (dispatch_soundfile_types_l sf t Hsf Hlit). cbn [bind].
    unfold run_reader, open_src. cbn [bind]. unfold glue_soundfile, cast_opt.
    destruct (c_snd C b) as [[st rd]|]; [|reflexivity]. cbn. apply bind_ok.
  Qed.
End ByName.

(* soundfile: element type of the first-stage read for the subtypes libsndfile
   offers for wav/flac/aiff.  PCM_U8 falls through to int16 because the source
   compares the subtype string with a set ("== {'PCM_U8'}"), which is never true. *)
Theorem soundfile_dtype_table_l :
  map soundfile_dtype [s_PCM_16; s_PCM_24; s_PCM_32; s_FLOAT; s_DOUBLE; s_PCM_S8; s_PCM_U8]
  = [I16; I32; I32; F32; F64; I8; I16].
Proof. reflexivity. Qed.

(* Examples: the hypotheses of the Section theorems are satisfiable in the
   reference world *)
Example ex_world :
  let a := mk_arr I16 [2; 2] [1; -2; 3; -4] in
  let name := [120; 46; 110; 112; 121] in   (* "x.npy" *)
  read_signal content ref_codecs (ref_fs [(name, CNpy a)]) ascii_word [] (Path name) None None None = Ok a
  /\ read_signal content ref_codecs (ref_fs []) ascii_word [] (Stream (CNpy a)) (Some U8) None (Some [110;112;121])
     = Ok (mk_arr U8 [2; 2] [1; 254; 3; 252])
  /\ chosen_reader content ascii_word [] (Stream (CNpy a)) (Some [110;112;121]) = Ok RNpy
  /\ wds_read_signal content ref_codecs (fun _ => Err EIO) ascii_word [] [46;110;112;121] (CNpy a) = Some a
  /\ wds_read_signal content ref_codecs (fun _ => Err EIO) ascii_word [] [46;110;112;121] CBad = None.
Proof. repeat split. Qed.
