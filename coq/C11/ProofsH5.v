(* C11 - the HDF5 reader without a key: the explicit-stack loop of
   _hdf5_read_signal returns the first dataset of the pre-order traversal that
   visits the children of every group by ascending name, and always terminates. *)
From Coq Require Import ZArith List Bool Lia Permutation Sorted.
From Verif Require Import lib.C11_Base gen.ReadSignal C11.Model C11.ProofsStr.
Import ListNotations.
Open Scope Z_scope.

(* declarative specification *)
Inductive first_ds : h5node -> option arr -> Prop :=
| FD_data : forall a, first_ds (H5Data a) (Some a)
| FD_group : forall ch r, first_ds_list (visit_order ch) r -> first_ds (H5Group ch) r
with first_ds_list : list h5node -> option arr -> Prop :=
| FL_nil : first_ds_list [] None
| FL_hit : forall n ns a, first_ds n (Some a) -> first_ds_list (n :: ns) (Some a)
| FL_miss : forall n ns r, first_ds n None -> first_ds_list ns r -> first_ds_list (n :: ns) r.

Scheme first_ds_ind2 := Induction for first_ds Sort Prop
  with first_ds_list_ind2 := Induction for first_ds_list Sort Prop.
Combined Scheme first_ds_mutind from first_ds_ind2, first_ds_list_ind2.

(* the specification is a function *)
Lemma first_ds_functional :
  (forall n r, first_ds n r -> forall r', first_ds n r' -> r = r')
  /\ (forall l r, first_ds_list l r -> forall r', first_ds_list l r' -> r = r').
Proof.
  apply first_ds_mutind.
  - intros a r' H. inversion H. reflexivity.
  - intros ch r Hl IH r' H. inversion H; subst. apply IH. assumption.
  - intros r' H. inversion H. reflexivity.
  - intros n ns a Hn IH r' H. inversion H; subst.
    + apply IH. assumption.
    + specialize (IH _ H2). discriminate.
  - intros n ns r Hn IHn Hl IHl r' H. inversion H; subst.
    + specialize (IHn _ H3). discriminate.
    + apply IHl. assumption.
Qed.

Lemma first_ds_list_app : forall l1 l2 r,
  first_ds_list (l1 ++ l2) r ->
  (exists a, r = Some a /\ first_ds_list l1 (Some a))
  \/ (first_ds_list l1 None /\ first_ds_list l2 r).
Proof.
  induction l1 as [|n l1 IH]; intros l2 r H; simpl in H.
  - right. split; [constructor | exact H].
  - inversion H; subst.
    + left. exists a. split; [reflexivity | apply FL_hit; assumption].
    + destruct (IH _ _ H4) as [[a [Ha Hl]]|[Hl1 Hl2]].
      * left. exists a. split; [exact Ha | apply FL_miss; assumption].
      * right. split; [apply FL_miss; assumption | exact Hl2].
Qed.

(* the loop is sound with respect to the specification, for any fuel *)
Lemma h5_dfs_sound : forall fuel stack r,
  h5_dfs fuel stack = Some r -> first_ds_list stack r.
Proof.
  induction fuel as [|fuel IH]; intros stack r H; simpl in H; [discriminate|].
  destruct stack as [|[a|ch] rest].
  - inversion H. constructor.
  - inversion H. apply FL_hit. constructor.
  - apply IH in H. apply first_ds_list_app in H.
    destruct H as [[a [Ha Hl]]|[Hl1 Hl2]].
    + subst. apply FL_hit. constructor. exact Hl.
    + apply FL_miss; [constructor; exact Hl1 | exact Hl2].
Qed.

(* ---- termination: the fuel h5_find passes is always enough --------------- *)

Definition children_size (l : list (str * h5node)) : nat :=
  fold_right (fun p s => (h5_size (snd p) + s)%nat) O l.

Lemma h5_size_group : forall ch, h5_size (H5Group ch) = S (children_size ch).
Proof.
  intro ch. simpl. f_equal. induction ch as [|[k c] t IH]; simpl; [reflexivity|].
  rewrite IH. reflexivity.
Qed.

Lemma stack_size_app : forall a b, h5_stack_size (a ++ b) = (h5_stack_size a + h5_stack_size b)%nat.
Proof.
  induction a as [|n a IH]; intros b; simpl; [reflexivity|]. rewrite IH. lia.
Qed.

Lemma stack_size_perm : forall a b, Permutation a b -> h5_stack_size a = h5_stack_size b.
Proof.
  induction 1; simpl; try lia.
Qed.

Lemma insert_desc_perm : forall A k (v : A) l, Permutation (insert_desc k v l) ((k, v) :: l).
Proof.
  induction l as [|[k' v'] t IH]; simpl.
  - apply Permutation_refl.
  - destruct (str_ltb k k').
    + eapply Permutation_trans; [apply perm_skip; exact IH | apply perm_swap].
    + apply Permutation_refl.
Qed.

Lemma sort_desc_perm : forall A (l : list (str * A)), Permutation (sort_desc l) l.
Proof.
  induction l as [|[k v] t IH]; simpl.
  - constructor.
  - eapply Permutation_trans; [apply insert_desc_perm | apply perm_skip; exact IH].
Qed.

Lemma visit_order_perm : forall ch, Permutation (visit_order ch) (map snd ch).
Proof.
  intro ch. unfold visit_order.
  eapply Permutation_trans; [apply Permutation_sym, Permutation_rev|].
  apply Permutation_map. apply sort_desc_perm.
Qed.

Lemma visit_order_size : forall ch, h5_stack_size (visit_order ch) = children_size ch.
Proof.
  intro ch. rewrite (stack_size_perm _ _ (visit_order_perm ch)).
  induction ch as [|[k c] t IH]; simpl; [reflexivity|]. rewrite IH. reflexivity.
Qed.

Lemma h5_size_pos : forall n, (0 < h5_size n)%nat.
Proof. destruct n; simpl; lia. Qed.

Lemma h5_dfs_fuel : forall fuel stack,
  (h5_stack_size stack < fuel)%nat -> h5_dfs fuel stack <> None.
Proof.
  induction fuel as [|fuel IH]; intros stack H; [lia|].
  simpl. destruct stack as [|[a|ch] rest]; try discriminate.
  apply IH. rewrite stack_size_app, visit_order_size.
  change (h5_stack_size (H5Group ch :: rest))
    with (h5_size (H5Group ch) + h5_stack_size rest)%nat in H.
  rewrite h5_size_group in H. lia.
Qed.

(* the result of the loop as _hdf5_read_signal runs it *)
Theorem h5_find_spec_l : forall root,
  exists r, h5_find root = Some r /\ first_ds root r.
Proof.
  intro root. unfold h5_find.
  destruct (h5_dfs (S (h5_size root)) [root]) as [r|] eqn:E.
  - exists r. split; [reflexivity|]. apply h5_dfs_sound in E.
    inversion E; subst.
    + assumption.
    + inversion H3; subst. assumption.
  - exfalso. revert E. apply h5_dfs_fuel. simpl. lia.
Qed.

Theorem h5_find_unique_l : forall root r r',
  h5_find root = Some r -> first_ds root r' -> r = r'.
Proof.
  intros root r r' H H'. destruct (h5_find_spec_l root) as [r0 [E Hs]].
  rewrite E in H. inversion H; subst.
  exact (proj1 first_ds_functional _ _ Hs _ H').
Qed.

(* ---- the children come off the stack by ascending name ------------------- *)

Lemma str_ltb_asym : forall a b, str_ltb a b = true -> str_ltb b a = false.
Proof.
  induction a as [|x a IH]; destruct b as [|y b]; simpl; intro H; try reflexivity; try discriminate.
  apply orb_true_iff in H. apply orb_false_iff.
  destruct H as [H|H].
  - apply Z.ltb_lt in H. split.
    + apply Z.ltb_ge. lia.
    + apply andb_false_iff. left. apply Z.eqb_neq. lia.
  - apply andb_true_iff in H. destruct H as [H1 H2]. apply Z.eqb_eq in H1. subst. split.
    + apply Z.ltb_irrefl.
    + rewrite Z.eqb_refl. simpl. apply IH. exact H2.
Qed.

(* not (x < y): x comes at or after y in Python's string order *)
Definition ge_key {A} (x y : str * A) : Prop := str_ltb (fst x) (fst y) = false.

Lemma insert_desc_hd : forall A k (v : A) l x,
  ge_key x (k, v) -> HdRel ge_key x l -> HdRel ge_key x (insert_desc k v l).
Proof.
  intros A k v l x Hx Hl. destruct l as [|[k' v'] t]; simpl.
  - constructor. exact Hx.
  - destruct (str_ltb k k'); constructor; [inversion Hl; assumption | exact Hx].
Qed.

Lemma insert_desc_sorted : forall A k (v : A) l,
  Sorted ge_key l -> Sorted ge_key (insert_desc k v l).
Proof.
  induction l as [|[k' v'] t IH]; intro Hs; simpl.
  - constructor; constructor.
  - destruct (str_ltb k k') eqn:E.
    + inversion Hs; subst. constructor.
      * apply IH. assumption.
      * apply insert_desc_hd; [|assumption]. unfold ge_key. simpl. apply str_ltb_asym. exact E.
    + constructor; [exact Hs|]. constructor. exact E.
Qed.

(* keys.sort(reverse=True) leaves the keys in non-increasing order *)
Lemma sort_desc_sorted : forall A (l : list (str * A)), Sorted ge_key (sort_desc l).
Proof.
  induction l as [|[k v] t IH]; simpl; [constructor|]. apply insert_desc_sorted. exact IH.
Qed.

Lemma hdf5_children_sorted_l : forall (l : list (str * h5node)),
  Sorted ge_key (sort_desc l) /\ Permutation (sort_desc l) l.
Proof. intro l. split; [apply sort_desc_sorted | apply sort_desc_perm]. Qed.

(* ---- file[key] for a key that is a plain name ----------------------------- *)

Lemma split_on_none : forall sep s, ~ In sep s -> split_on sep s = [s].
Proof.
  induction s as [|c t IH]; intro H; simpl; [reflexivity|].
  destruct (c =? sep) eqn:E.
  - apply Z.eqb_eq in E. subst. exfalso. apply H. left. reflexivity.
  - rewrite IH; [reflexivity|]. intro Hin. apply H. right. exact Hin.
Qed.

Theorem h5_getitem_name_l : forall ch k,
  k <> [] -> ~ In 47 k ->
  h5_getitem (H5Group ch) k =
  match assoc k ch with
  | Some (H5Data a) => Ok a
  | Some (H5Group _) => Err ECodec
  | None => Err EKey
  end.
Proof.
  intros ch k Hne Hno. unfold h5_getitem. rewrite split_on_none by exact Hno.
  destruct k as [|c k]; [congruence|]. simpl.
  destruct (assoc (c :: k) ch) as [[a|g]|]; reflexivity.
Qed.

(* Example: 'B' < 'a' < 'a1' in Python's order; the group 'a' holds the first dataset *)
Example h5_find_ex :
  let d1 := mk_arr I16 [1] [1] in
  let d2 := mk_arr I16 [1] [2] in
  let d3 := mk_arr I16 [1] [3] in
  h5_find (H5Group [([97;49], H5Data d1); ([97], H5Group [([122], H5Data d2)]); ([66], H5Group [])])
  = Some (Some d2)
  /\ h5_find (H5Group [([66], H5Group [])]) = Some None
  /\ h5_find (H5Group [([97], H5Data d1); ([66], H5Data d3)]) = Some (Some d3).
Proof. repeat split. Qed.
