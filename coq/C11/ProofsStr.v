(* C11 - specifications of the string primitives of lib/C11_Base.v:
   eqb_str, mem_str, endswith, rsplit(.., 1)[-1] and the table regular expression. *)
From Coq Require Import ZArith List Bool Lia.
From Verif Require Import lib.C11_Base.
Import ListNotations.
Open Scope Z_scope.

Lemma eqb_str_spec : forall a b, eqb_str a b = true <-> a = b.
Proof.
  induction a as [|x a IH]; destruct b as [|y b]; simpl; split; intro H;
    try reflexivity; try discriminate.
  - apply andb_true_iff in H. destruct H as [H1 H2]. apply Z.eqb_eq in H1.
    apply IH in H2. subst; reflexivity.
  - inversion H; subst. rewrite Z.eqb_refl. simpl. apply IH. reflexivity.
Qed.

Lemma eqb_str_refl : forall a, eqb_str a a = true.
Proof. intro a. apply eqb_str_spec. reflexivity. Qed.

Lemma eqb_str_neq : forall a b, eqb_str a b = false <-> a <> b.
Proof.
  intros a b. split; intro H.
  - intro E. apply eqb_str_spec in E. congruence.
  - destruct (eqb_str a b) eqn:E; [apply eqb_str_spec in E; contradiction | reflexivity].
Qed.

Lemma mem_str_spec : forall x l, mem_str x l = true <-> In x l.
Proof.
  intros x l. unfold mem_str. rewrite existsb_exists. split.
  - intros [y [Hin He]]. apply eqb_str_spec in He. subst. exact Hin.
  - intro H. exists x. split; [exact H | apply eqb_str_refl].
Qed.

Lemma mem_str_false : forall x l, mem_str x l = false <-> ~ In x l.
Proof.
  intros x l. split; intro H.
  - intro Hin. apply mem_str_spec in Hin. congruence.
  - destruct (mem_str x l) eqn:E; [apply mem_str_spec in E; contradiction | reflexivity].
Qed.

Lemma is_prefix_spec : forall p s, is_prefix p s = true <-> exists t, s = p ++ t.
Proof.
  induction p as [|x p IH]; intros s; simpl.
  - split; [intros _; exists s; reflexivity | reflexivity].
  - destruct s as [|y s].
    + split; [discriminate | intros [t Ht]; discriminate].
    + rewrite andb_true_iff, Z.eqb_eq, IH. split.
      * intros [E [t Ht]]. subst. exists t. reflexivity.
      * intros [t Ht]. inversion Ht; subst. split; [reflexivity | exists t; reflexivity].
Qed.

(* s.endswith(suf) *)
Lemma ends_with_spec : forall s suf, ends_with s suf = true <-> exists p, s = p ++ suf.
Proof.
  intros s suf. unfold ends_with. rewrite is_prefix_spec. split.
  - intros [t Ht]. exists (rev t).
    rewrite <- (rev_involutive s), Ht, rev_app_distr, rev_involutive. reflexivity.
  - intros [p Hp]. exists (rev p). subst. apply rev_app_distr.
Qed.

Lemma ends_with_app : forall p suf, ends_with (p ++ suf) suf = true.
Proof. intros. apply ends_with_spec. exists p. reflexivity. Qed.

(* ---- rsplit(sep, maxsplit=1)[-1] ---------------------------------------- *)

Lemma take_until_no_sep : forall sep s, ~ In sep (take_until sep s).
Proof.
  induction s as [|c t IH]; simpl; [tauto|].
  destruct (c =? sep) eqn:E; simpl; [tauto|].
  apply Z.eqb_neq in E. intros [H|H]; [congruence | tauto].
Qed.

Lemma take_until_decomp : forall sep s,
  (s = take_until sep s /\ ~ In sep s) \/ exists r, s = take_until sep s ++ sep :: r.
Proof.
  induction s as [|c t IH]; simpl.
  - left. tauto.
  - destruct (c =? sep) eqn:E.
    + apply Z.eqb_eq in E. subst. right. exists t. reflexivity.
    + apply Z.eqb_neq in E. destruct IH as [[H1 H2]|[r Hr]].
      * left. split; [f_equal; exact H1 | intros [H|H]; [congruence | tauto]].
      * right. exists r. simpl. f_equal. exact Hr.
Qed.

Lemma take_until_app : forall sep a r, ~ In sep a -> take_until sep (a ++ sep :: r) = a.
Proof.
  induction a as [|c a IH]; intros r H; simpl.
  - rewrite Z.eqb_refl. reflexivity.
  - destruct (c =? sep) eqn:E.
    + apply Z.eqb_eq in E. subst. exfalso. apply H. left. reflexivity.
    + f_equal. apply IH. intro Hin. apply H. right. exact Hin.
Qed.

Lemma take_until_none : forall sep a, ~ In sep a -> take_until sep a = a.
Proof.
  induction a as [|c a IH]; intros H; simpl; [reflexivity|].
  destruct (c =? sep) eqn:E.
  - apply Z.eqb_eq in E. subst. exfalso. apply H. left. reflexivity.
  - f_equal. apply IH. intro Hin. apply H. right. exact Hin.
Qed.

Lemma last_seg_no_sep : forall sep s, ~ In sep (last_seg sep s).
Proof.
  intros sep s H. unfold last_seg in H. apply in_rev in H.
  exact (take_until_no_sep _ _ H).
Qed.

(* either there is no separator and the segment is the whole string, or the
   string is  p ++ sep :: segment *)
Lemma last_seg_decomp : forall sep s,
  (s = last_seg sep s /\ ~ In sep s) \/ exists p, s = p ++ sep :: last_seg sep s.
Proof.
  intros sep s. unfold last_seg.
  destruct (take_until_decomp sep (rev s)) as [[H1 H2]|[r Hr]].
  - left. split.
    + rewrite <- H1. symmetry. apply rev_involutive.
    + intro Hin. apply H2. apply in_rev. rewrite rev_involutive. exact Hin.
  - right. exists (rev r).
    assert (H : s = rev (take_until sep (rev s) ++ sep :: r)).
    { rewrite <- Hr. symmetry. apply rev_involutive. }
    etransitivity; [exact H|].
    rewrite rev_app_distr. simpl. rewrite <- app_assoc. reflexivity.
Qed.

Lemma last_seg_app : forall sep p seg, ~ In sep seg -> last_seg sep (p ++ sep :: seg) = seg.
Proof.
  intros sep p seg H. unfold last_seg.
  rewrite rev_app_distr. simpl. rewrite <- app_assoc. simpl.
  rewrite take_until_app.
  - apply rev_involutive.
  - intro Hin. apply H. apply in_rev. exact Hin.
Qed.

Lemma last_seg_none : forall sep s, ~ In sep s -> last_seg sep s = s.
Proof.
  intros sep s H. unfold last_seg. rewrite take_until_none.
  - apply rev_involutive.
  - intro Hin. apply H. apply in_rev. exact Hin.
Qed.

Lemma rsplit_last_spec_l : forall sep s,
  ~ In sep (last_seg sep s)
  /\ ((s = last_seg sep s /\ ~ In sep s) \/ exists p, s = p ++ sep :: last_seg sep s).
Proof. intros sep s. split; [apply last_seg_no_sep | apply last_seg_decomp]. Qed.

(* two dotted suffixes without further dots: the name ends with ".u" iff its
   last segment is u *)
Lemma ends_with_dotted : forall sep s u, ~ In sep u ->
  ends_with s (sep :: u) = eqb_str (last_seg sep s) u && existsb (Z.eqb sep) s.
Proof.
  intros sep s u Hu.
  destruct (ends_with s (sep :: u)) eqn:E.
  - apply ends_with_spec in E. destruct E as [p Hp]. subst.
    rewrite last_seg_app by exact Hu. rewrite eqb_str_refl. simpl. symmetry.
    apply existsb_exists. exists sep. split; [|apply Z.eqb_refl].
    apply in_or_app. right. left. reflexivity.
  - symmetry. apply andb_false_iff.
    destruct (eqb_str (last_seg sep s) u) eqn:E1; [|left; reflexivity]. right.
    apply eqb_str_spec in E1.
    destruct (existsb (Z.eqb sep) s) eqn:E2; [|reflexivity]. exfalso.
    apply existsb_exists in E2. destruct E2 as [x [Hin Hx]]. apply Z.eqb_eq in Hx. subst x.
    destruct (last_seg_decomp sep s) as [[_ Hno]|[p Hp]]; [contradiction|].
    rewrite E1 in Hp. assert (ends_with s (sep :: u) = true).
    { apply ends_with_spec. exists p. exact Hp. }
    congruence.
Qed.

(* ---- the regular expression ^(ark|scp)(,\w+)*: --------------------------- *)

(* what the pattern denotes: a prefix of s is kind, then zero or more
   (',' followed by a non-empty run of word characters), then ':' *)
Definition word_ne (w : Z -> bool) (o : str) : Prop := o <> [] /\ forallb w o = true.

Definition opts_lang (w : Z -> bool) (s : str) : Prop :=
  exists (opts : list str) (rest : str),
    Forall (word_ne w) opts /\ s = concat (map (cons ch_comma) opts) ++ ch_colon :: rest.

Definition table_lang (w : Z -> bool) (s : str) : Prop :=
  exists kind t, (kind = s_ark \/ kind = s_scp) /\ s = kind ++ t /\ opts_lang w t.

Section Regex.
  Variable w : Z -> bool.
  Hypothesis w_comma : w ch_comma = false.
  Hypothesis w_colon : w ch_colon = false.

  (* inside \w+ : a (possibly empty) further run of word characters, then the rest *)
  Definition word_tail_lang (s : str) : Prop :=
    exists o t, forallb w o = true /\ s = o ++ t /\ opts_lang w t.

  Definition comma_lang (s : str) : Prop :=
    exists c t, w c = true /\ s = c :: t /\ word_tail_lang t.

  Lemma opts_lang_cases : forall s,
    opts_lang w s <->
    (exists rest, s = ch_colon :: rest) \/ (exists t, s = ch_comma :: t /\ comma_lang t).
  Proof.
    intro s. split.
    - intros [opts [rest [HF Hs]]]. destruct opts as [|o opts].
      + left. exists rest. exact Hs.
      + right. inversion HF as [|? ? [Hne Hw] HF']; subst.
        destruct o as [|c o]; [congruence|]. simpl in Hw. apply andb_true_iff in Hw.
        destruct Hw as [Hc Ho].
        exists (c :: o ++ concat (map (cons ch_comma) opts) ++ ch_colon :: rest). split.
        * simpl. rewrite <- app_assoc. reflexivity.
        * exists c, (o ++ concat (map (cons ch_comma) opts) ++ ch_colon :: rest).
          split; [exact Hc|]. split; [reflexivity|].
          exists o, (concat (map (cons ch_comma) opts) ++ ch_colon :: rest).
          split; [exact Ho|]. split; [reflexivity|]. exists opts, rest. split; [exact HF' | reflexivity].
    - intros [[rest Hs]|[t [Hs [c [t' [Hc [Ht [o [t'' [Ho [Ht' [opts [rest [HF Hr]]]]]]]]]]]]]].
      + exists [], rest. split; [constructor | exact Hs].
      + exists ((c :: o) :: opts), rest. split.
        * constructor; [|exact HF]. split; [discriminate|]. simpl. rewrite Hc, Ho. reflexivity.
        * subst. simpl. rewrite <- app_assoc. reflexivity.
  Qed.

  Lemma word_tail_cases : forall s,
    word_tail_lang s <->
    (exists c t, s = c :: t /\ w c = true /\ word_tail_lang t) \/ opts_lang w s.
  Proof.
    intro s. split.
    - intros [o [t [Ho [Hs Ht]]]]. destruct o as [|c o].
      + right. subst. exact Ht.
      + left. simpl in Ho. apply andb_true_iff in Ho. destruct Ho as [Hc Ho].
        exists c, (o ++ t). split; [subst; reflexivity|]. split; [exact Hc|].
        exists o, t. split; [exact Ho|]. split; [reflexivity | exact Ht].
    - intros [[c [t [Hs [Hc [o [t' [Ho [Ht Hl]]]]]]]]|H].
      + exists (c :: o), t'. split; [simpl; rewrite Hc, Ho; reflexivity|].
        split; [subst; reflexivity | exact Hl].
      + exists [], s. split; [reflexivity|]. split; [reflexivity | exact H].
  Qed.

  Lemma re_opts_spec : forall s,
    (re_opts w TSep s = true <-> opts_lang w s)
    /\ (re_opts w TComma s = true <-> comma_lang s)
    /\ (re_opts w TWord s = true <-> word_tail_lang s).
  Proof.
    induction s as [|c t [IHs [IHc IHw]]].
    - simpl. split; [|split]; (split; [discriminate|]).
      + intro H. apply opts_lang_cases in H.
        destruct H as [[r Hr]|[t [Ht _]]]; discriminate.
      + intros [c [t [_ [H _]]]]. discriminate.
      + intro H. apply word_tail_cases in H. destruct H as [[c [t [H _]]]|H]; [discriminate|].
        apply opts_lang_cases in H. destruct H as [[r Hr]|[t [Ht _]]]; discriminate.
    - assert (Hsep : re_opts w TSep (c :: t) = true <-> opts_lang w (c :: t)).
      { simpl. rewrite opts_lang_cases. destruct (c =? ch_colon) eqn:E1.
        - apply Z.eqb_eq in E1. subst. split; [intros _; left; exists t; reflexivity | reflexivity].
        - apply Z.eqb_neq in E1. destruct (c =? ch_comma) eqn:E2.
          + apply Z.eqb_eq in E2. subst. rewrite IHc. split.
            * intro H. right. exists t. split; [reflexivity | exact H].
            * intros [[r Hr]|[t' [Ht' H]]]; [inversion Hr; congruence|].
              inversion Ht'; subst. exact H.
          + apply Z.eqb_neq in E2. split; [discriminate|].
            intros [[r Hr]|[t' [Ht' _]]]; inversion Hr || inversion Ht'; congruence. }
      split; [exact Hsep|]. split.
      + simpl. destruct (w c) eqn:Ec.
        * rewrite IHw. split.
          -- intro H. exists c, t. split; [exact Ec|]. split; [reflexivity | exact H].
          -- intros [c' [t' [_ [Hs H]]]]. inversion Hs; subst. exact H.
        * split; [discriminate|]. intros [c' [t' [Hc' [Hs _]]]]. inversion Hs; subst. congruence.
      + rewrite word_tail_cases. rewrite <- Hsep. simpl. destruct (w c) eqn:Ec.
        * rewrite IHw. split.
          -- intro H. left. exists c, t. split; [reflexivity|]. split; [exact Ec | exact H].
          -- intros [[c' [t' [Hs [_ H]]]]|H].
             ++ inversion Hs; subst. exact H.
             ++ (* a word character cannot start the option list *)
                exfalso. destruct (c =? ch_colon) eqn:E1.
                ** apply Z.eqb_eq in E1. subst. congruence.
                ** destruct (c =? ch_comma) eqn:E2; [|discriminate].
                   apply Z.eqb_eq in E2. subst. congruence.
        * split.
          -- intro H. right. exact H.
          -- intros [[c' [t' [Hs [Hc' _]]]]|H]; [inversion Hs; subst; congruence | exact H].
  Qed.

  (* re.match(r"^(ark|scp)(,\w+)*:", s) succeeds iff a prefix of s is in the language *)
  Theorem re_table_spec_l : forall s, re_table w s = true <-> table_lang w s.
  Proof.
    intro s. unfold re_table, table_lang. split.
    - destruct s as [|a [|b [|c t]]]; try discriminate.
      intro H. apply andb_true_iff in H. destruct H as [Hk Ho].
      apply (proj1 (re_opts_spec t)) in Ho.
      apply orb_true_iff in Hk. destruct Hk as [Hk|Hk]; apply eqb_str_spec in Hk.
      + exists s_ark, t. split; [left; reflexivity|]. split; [rewrite <- Hk; reflexivity | exact Ho].
      + exists s_scp, t. split; [right; reflexivity|]. split; [rewrite <- Hk; reflexivity | exact Ho].
    - intros [kind [t [[Hk|Hk] [Hs Ho]]]]; subst; simpl;
        apply (proj1 (re_opts_spec t)); exact Ho.
  Qed.
End Regex.

Lemma ascii_word_comma : ascii_word ch_comma = false. Proof. reflexivity. Qed.
Lemma ascii_word_colon : ascii_word ch_colon = false. Proof. reflexivity. Qed.

(* the hypotheses are satisfiable and the language is neither empty nor everything *)
Example re_table_yes : re_table ascii_word [115;99;112;44;112;44;99;115;58;120] = true. (* "scp,p,cs:x" *)
Proof. reflexivity. Qed.
Example re_table_no : re_table ascii_word [97;114;107;44;58;120] = false. (* "ark,:x" *)
Proof. reflexivity. Qed.
