(* C11 - the wave reader: little-endian two's-complement decoding and the
   time x channels reshape undo the writer for every width, channel count and length. *)
From Coq Require Import ZArith List Bool Lia.
From Verif Require Import lib.C11_Base gen.ReadSignal C11.Model.
Import ListNotations.
Open Scope Z_scope.

Lemma le_bytes_length : forall n v, length (le_bytes n v) = n.
Proof. induction n; intros; simpl; [reflexivity | f_equal; apply IHn]. Qed.

Lemma le_val_le_bytes : forall n v, le_val (le_bytes n v) = v mod 256 ^ Z.of_nat n.
Proof.
  induction n as [|n IH]; intros v.
  - simpl. symmetry. apply Z.mod_1_r.
  - cbn [le_bytes le_val]. rewrite IH.
    replace (256 ^ Z.of_nat (S n)) with (256 * 256 ^ Z.of_nat n).
    + rewrite Z.rem_mul_r; [reflexivity | lia | apply Z.pow_pos_nonneg; lia].
    + rewrite Nat2Z.inj_succ, Z.pow_succ_r by lia. reflexivity.
Qed.

Lemma firstn_app_exact : forall (a b : list Z) n, length a = n -> firstn n (a ++ b) = a.
Proof.
  intros a b n H. subst. rewrite firstn_app, firstn_all, Nat.sub_diag. simpl. apply app_nil_r.
Qed.
Lemma skipn_app_exact : forall (a b : list Z) n, length a = n -> skipn n (a ++ b) = b.
Proof.
  intros a b n H. subst. rewrite skipn_app, skipn_all, Nat.sub_diag. reflexivity.
Qed.

Lemma chunks_fuel_flat_map : forall (f : Z -> list Z) n, (0 < n)%nat ->
  (forall x, length (f x) = n) ->
  forall xs fuel, (length xs <= fuel)%nat -> chunks_fuel fuel n (flat_map f xs) = map f xs.
Proof.
  intros f n Hn Hf. induction xs as [|x xs IH]; intros fuel Hfuel.
  - simpl. destruct fuel; reflexivity.
  - destruct fuel as [|fuel]; [simpl in Hfuel; lia|].
    cbn [flat_map map chunks_fuel].
    destruct (f x ++ flat_map f xs) eqn:E.
    + exfalso. assert (length (f x ++ flat_map f xs) = O) by (rewrite E; reflexivity).
      rewrite app_length, Hf in H. lia.
    + rewrite <- E. f_equal.
      * apply firstn_app_exact. apply Hf.
      * rewrite skipn_app_exact by apply Hf.
        apply IH. simpl in Hfuel. lia.
Qed.

Lemma flat_map_length_const : forall (f : Z -> list Z) n,
  (forall x, length (f x) = n) -> forall xs, length (flat_map f xs) = (n * length xs)%nat.
Proof.
  intros f n Hf. induction xs as [|x xs IH]; simpl; [lia|].
  rewrite app_length, Hf, IH. lia.
Qed.

Lemma chunks_flat_map : forall (f : Z -> list Z) n, (0 < n)%nat ->
  (forall x, length (f x) = n) -> forall xs, chunks n (flat_map f xs) = map f xs.
Proof.
  intros f n Hn Hf xs. unfold chunks. apply chunks_fuel_flat_map; try assumption.
  rewrite (flat_map_length_const f n Hf). nia.
Qed.

Lemma wrap_s_mod_id : forall b v, 0 < b ->
  - 2 ^ (b - 1) <= v < 2 ^ (b - 1) -> wrap_s b (v mod 2 ^ b) = v.
Proof.
  intros b v Hb Hv. unfold wrap_s.
  assert (E : 2 ^ b = 2 * 2 ^ (b - 1)).
  { replace b with (Z.succ (b - 1)) at 1 by lia. apply Z.pow_succ_r. lia. }
  rewrite Zplus_mod_idemp_l. rewrite Z.mod_small; lia.
Qed.

(* decoding undoes encoding for every width w >= 1 *)
Lemma frombuffer_encode : forall w samples, 0 < w ->
  Forall (fun v => - 2 ^ (8 * w - 1) <= v < 2 ^ (8 * w - 1)) samples ->
  frombuffer_le_signed w (wave_encode w samples) = samples.
Proof.
  intros w samples Hw Hall. unfold frombuffer_le_signed, wave_encode.
  rewrite chunks_flat_map; [| lia | intro; apply le_bytes_length].
  rewrite map_map. rewrite <- (map_id samples) at 2.
  apply map_ext_in. intros v Hin.
  rewrite le_val_le_bytes, Z2Nat.id by lia.
  replace (256 ^ w) with (2 ^ (8 * w)).
  - apply wrap_s_mod_id; [lia|]. rewrite Forall_forall in Hall. apply Hall. exact Hin.
  - rewrite Z.pow_mul_r by lia. reflexivity.
Qed.

Lemma encode_length : forall w samples, 0 < w ->
  Z.of_nat (length (wave_encode w samples)) = w * Z.of_nat (length samples).
Proof.
  intros w samples Hw. unfold wave_encode.
  rewrite (flat_map_length_const _ (Z.to_nat w)) by (intro; apply le_bytes_length). lia.
Qed.

Lemma width_dtype_range : forall w d, width_dtype w = Some d ->
  0 < w /\ forall v, in_range d v = true -> - 2 ^ (8 * w - 1) <= v < 2 ^ (8 * w - 1).
Proof.
  intros w d H. unfold width_dtype in H.
  destruct (w =? 1) eqn:E1; [apply Z.eqb_eq in E1; inversion H; subst; split; [lia|]; intros v Hv; simpl in *; lia|].
  destruct (w =? 2) eqn:E2; [apply Z.eqb_eq in E2; inversion H; subst; split; [lia|]; intros v Hv; simpl in *; lia|].
  destruct (w =? 4) eqn:E4; [apply Z.eqb_eq in E4; inversion H; subst; split; [lia|]; intros v Hv; simpl in *; lia|].
  destruct (w =? 8) eqn:E8; [apply Z.eqb_eq in E8; inversion H; subst; split; [lia|]; intros v Hv; simpl in *; lia|].
  discriminate.
Qed.

(* wave round trip: T frames of c channels, any NumPy integer width *)
Theorem wave_roundtrip_l : forall w d c T samples dtype,
  width_dtype w = Some d -> 1 <= c -> 0 <= T ->
  Z.of_nat (length samples) = T * c ->
  Forall (fun v => in_range d v = true) samples ->
  wave_read (mk_wave w c (wave_encode w samples)) dtype
  = Ok (cast_opt dtype (mk_arr d (if 1 <? c then [T; c] else [T]) samples)).
Proof.
  intros w d c T samples dtype Hw Hc HT Hlen Hall.
  destruct (width_dtype_range w d Hw) as [Hw0 Hr].
  unfold wave_read. cbn [wv_width wv_chans wv_frames]. rewrite Hw.
  rewrite encode_length by exact Hw0.
  replace (w * Z.of_nat (length samples)) with (Z.of_nat (length samples) * w) by lia.
  rewrite Z.mod_mul by lia. cbn [Z.eqb negb].
  rewrite frombuffer_encode; [| exact Hw0 |].
  - destruct (c =? 0) eqn:E0; [apply Z.eqb_eq in E0; lia|].
    rewrite Hlen, Z.mod_mul by lia. cbn [Z.eqb negb].
    destruct (1 <? c) eqn:E1.
    + rewrite Z.div_mul by lia. reflexivity.
    + apply Z.ltb_ge in E1. assert (c = 1) by lia. subst. rewrite Z.mul_1_r. reflexivity.
  - rewrite Forall_forall in *. intros v Hin. apply Hr. apply Hall. exact Hin.
Qed.

(* hypotheses are satisfiable: 3 frames x 2 channels of int16 *)
Example wave_roundtrip_ex :
  wave_read (mk_wave 2 2 (wave_encode 2 [-32768; 32767; -1; 0; 1; 258])) None
  = Ok (mk_arr I16 [3; 2] [-32768; 32767; -1; 0; 1; 258]).
Proof. reflexivity. Qed.

(* samples that do not fill whole frames: IOError *)
Theorem wave_ragged_ioerror_l : forall w d c samples dtype,
  width_dtype w = Some d -> 1 <= c ->
  Z.of_nat (length samples) mod c <> 0 ->
  Forall (fun v => in_range d v = true) samples ->
  wave_read (mk_wave w c (wave_encode w samples)) dtype = Err EIO.
Proof.
  intros w d c samples dtype Hw Hc Hrag Hall.
  destruct (width_dtype_range w d Hw) as [Hw0 Hr].
  unfold wave_read. cbn [wv_width wv_chans wv_frames]. rewrite Hw.
  rewrite encode_length by exact Hw0.
  replace (w * Z.of_nat (length samples)) with (Z.of_nat (length samples) * w) by lia.
  rewrite Z.mod_mul by lia. cbn [Z.eqb negb].
  rewrite frombuffer_encode; [| exact Hw0 |].
  - destruct (c =? 0) eqn:E0; [apply Z.eqb_eq in E0; lia|].
    destruct (Z.of_nat (length samples) mod c =? 0) eqn:E; [apply Z.eqb_eq in E; contradiction|].
    reflexivity.
  - rewrite Forall_forall in *. intros v Hin. apply Hr. apply Hall. exact Hin.
Qed.

Example wave_ragged_ex : wave_read (mk_wave 2 2 (wave_encode 2 [1; 2; 3])) None = Err EIO.
Proof. reflexivity. Qed.

(* a sample width NumPy has no integer type for: TypeError *)
Theorem wave_odd_width_typeerror_l : forall w c frames dtype,
  w <> 1 -> w <> 2 -> w <> 4 -> w <> 8 -> wave_read (mk_wave w c frames) dtype = Err EType.
Proof.
  intros. unfold wave_read, width_dtype. cbn [wv_width].
  repeat match goal with |- context [?a =? ?b] => destruct (Z.eqb_spec a b); [contradiction|] end.
  reflexivity.
Qed.
