(* C11 - the property theorems, and nothing else.  Each is closed by [exact] of a
   lemma of the Proofs*.v files; the axioms each depends on are printed beneath it.
   infer / resolve / dispatch / glue_* / soundfile_dtype / wds_glue are the
   definitions of gen/ReadSignal.v, regenerated from util.py on every run. *)
From Coq Require Import ZArith List Bool.
From Verif Require Import lib.C11_Base gen.ReadSignal C11.Model C11.ProofsStr C11.ProofsWave C11.ProofsH5 C11.Proofs.
Import ListNotations.
Open Scope Z_scope.

(* ---- string primitives mean what the Python expressions mean ---- *)
Theorem endswith_spec : forall s suf, ends_with s suf = true <-> exists p, s = p ++ suf.
Proof. exact ends_with_spec. Qed.
Print Assumptions endswith_spec.
Theorem rsplit_last_spec : forall sep s,
  ~ In sep (last_seg sep s)
  /\ ((s = last_seg sep s /\ ~ In sep s) \/ exists p, s = p ++ sep :: last_seg sep s).
Proof. exact rsplit_last_spec_l. Qed.
Print Assumptions rsplit_last_spec.
(* re.match(r"^(ark|scp)(,\w+)*:", s), for any word class that excludes ',' and ':' *)
Theorem table_regex_spec : forall w, w ch_comma = false -> w ch_colon = false ->
  forall s, re_table w s = true <-> table_lang w s.
Proof. exact re_table_spec_l. Qed.
Print Assumptions table_regex_spec.

(* ---- suffix -> type inference (clause: inferred from the suffix; no recognised suffix -> IOError) ---- *)
Theorem infer_suffix_table : forall w sf n, infer w sf n = infer_spec w sf n.
Proof. exact infer_eq_spec_l. Qed.
Print Assumptions infer_suffix_table.
Theorem infer_sound : forall w, w ch_comma = false -> w ch_colon = false ->
  forall sf n t, infer w sf n = Ok t ->
    (table_lang w n /\ t = s_table)
    \/ (In t sf /\ t = last_seg 46 n)
    \/ (exists suf p, In (suf, t) infer_suffix_rules /\ n = p ++ suf).
Proof. exact infer_sound_l. Qed.
Print Assumptions infer_sound.
Theorem infer_complete : forall w, w ch_comma = false -> w ch_colon = false ->
  forall sf stem t,
    ~ table_lang w (stem ++ 46 :: t) -> ~ In 46 t ->
    In t sf \/ In (46 :: t, t) infer_suffix_rules ->
    infer w sf (stem ++ 46 :: t) = Ok t.
Proof. exact infer_complete_l. Qed.
Print Assumptions infer_complete.
Theorem no_suffix_ioerror_iff : forall w, w ch_comma = false -> w ch_colon = false ->
  forall sf n, infer w sf n = Err EIO <->
    ~ table_lang w n /\ ~ In (last_seg 46 n) sf
    /\ (forall suf t, In (suf, t) infer_suffix_rules -> ~ exists p, n = p ++ suf).
Proof. exact infer_ioerror_iff_l. Qed.
Print Assumptions no_suffix_ioerror_iff.
Theorem infer_only_ioerror : forall w sf n e, infer w sf n = Err e -> e = EIO.
Proof. exact infer_only_ioerror_l. Qed.
Print Assumptions infer_only_ioerror.
Theorem no_suffix_ioerror : forall blob (C : codecs blob) fs w sf n dtype key,
  infer w sf n = Err EIO -> read_signal blob C fs w sf (Path n) dtype key None = Err EIO.
Proof. exact no_suffix_ioerror_l. Qed.
Print Assumptions no_suffix_ioerror.

(* ---- force_as (clauses: stream without / unknown force_as -> ValueError) ---- *)
Theorem stream_without_force_as_valueerror : forall blob (C : codecs blob) fs w sf b dtype key,
  read_signal blob C fs w sf (Stream b) dtype key None = Err EValue.
Proof. exact stream_without_force_as_l. Qed.
Print Assumptions stream_without_force_as_valueerror.
Theorem stream_kaldi_force_as_valueerror : forall blob (C : codecs blob) fs w sf b dtype key fa,
  In fa stream_excluded -> read_signal blob C fs w sf (Stream b) dtype key (Some fa) = Err EValue.
Proof. exact stream_kaldi_force_as_l. Qed.
Print Assumptions stream_kaldi_force_as_valueerror.
Theorem unknown_force_as_valueerror : forall blob (C : codecs blob) fs w sf src dtype key fa,
  ~ In fa dispatch_literals -> ~ In fa sf ->
  read_signal blob C fs w sf src dtype key (Some fa) = Err EValue.
Proof. exact unknown_force_as_l. Qed.
Print Assumptions unknown_force_as_valueerror.
Theorem dispatch_known : forall sf fa,
  In fa dispatch_literals \/ In fa sf -> exists rd, dispatch sf fa = Ok rd.
Proof. exact dispatch_known_l. Qed.
Print Assumptions dispatch_known.
Theorem dispatch_only_valueerror : forall sf fa e, dispatch sf fa = Err e -> e = EValue.
Proof. exact dispatch_only_valueerror_l. Qed.
Print Assumptions dispatch_only_valueerror.
Theorem dispatch_table : forall sf,
  dispatch sf [116;97;98;108;101] = Ok RTable                          (* table *)
  /\ dispatch sf [119;97;118] = Ok RWav                                 (* wav *)
  /\ dispatch sf [104;100;102;53] = Ok RHdf5                            (* hdf5 *)
  /\ dispatch sf [110;112;121] = Ok RNpy                                (* npy *)
  /\ dispatch sf [110;112;122] = Ok RNpz                                (* npz *)
  /\ dispatch sf [112;116] = Ok RPt                                     (* pt *)
  /\ dispatch sf [115;112;104] = Ok RSph                                (* sph *)
  /\ dispatch sf [107;97;108;100;105] = Ok RKaldi                       (* kaldi *)
  /\ dispatch sf [102;105;108;101] = Ok RFile                           (* file *)
  /\ dispatch sf [115;111;117;110;100;102;105;108;101] = Ok RSoundfile. (* soundfile *)
Proof. exact dispatch_table_l. Qed.
Print Assumptions dispatch_table.
Theorem dispatch_soundfile_types : forall sf fa,
  In fa sf -> ~ In fa dispatch_literals -> dispatch sf fa = Ok RSoundfile.
Proof. exact dispatch_soundfile_types_l. Qed.
Print Assumptions dispatch_soundfile_types.
(* whatever the inference answers, the dispatch accepts *)
Theorem infer_dispatch_total : forall w sf n t,
  infer w sf n = Ok t -> exists rd, dispatch sf t = Ok rd.
Proof. exact infer_dispatch_total_l. Qed.
Print Assumptions infer_dispatch_total.

(* ---- both access paths (clause: from a file name and from an open stream with force_as) ---- *)
Theorem path_stream_agree : forall blob (C : codecs blob) fs w sf n b t dtype key,
  fs n = Ok b -> infer w sf n = Ok t -> ~ In t stream_excluded ->
  read_signal blob C fs w sf (Path n) dtype key None
  = read_signal blob C fs w sf (Stream b) dtype key (Some t).
Proof. exact path_stream_agree_l. Qed.
Print Assumptions path_stream_agree.
Theorem force_as_overrides_suffix : forall blob (C : codecs blob) fs w sf n n' b fa dtype key,
  fs n = Ok b -> fs n' = Ok b -> ~ In fa stream_excluded ->
  read_signal blob C fs w sf (Path n) dtype key (Some fa)
  = read_signal blob C fs w sf (Path n') dtype key (Some fa).
Proof. exact force_as_overrides_suffix_l. Qed.
Print Assumptions force_as_overrides_suffix.

Theorem name_is_stream_with_type : forall blob (C : codecs blob) fs w,
  w ch_comma = false -> w ch_colon = false ->
  forall sf stem t b dtype key,
    ~ table_lang w (stem ++ 46 :: t) -> ~ In 46 t -> ~ In t stream_excluded ->
    In t sf \/ In (46 :: t, t) infer_suffix_rules ->
    fs (stem ++ 46 :: t) = Ok b ->
    read_signal blob C fs w sf (Path (stem ++ 46 :: t)) dtype key None
    = read_signal blob C fs w sf (Stream b) dtype key (Some t).
Proof. exact name_is_stream_with_type_l. Qed.
Print Assumptions name_is_stream_with_type.
Theorem by_name_returns_decoded : forall blob (C : codecs blob) fs w,
  w ch_comma = false -> w ch_colon = false ->
  forall sf stem b key,
    (forall t, ~ table_lang w (stem ++ 46 :: t)) ->
    (forall t, fs (stem ++ 46 :: t) = Ok b) ->
    read_signal blob C fs w sf (Path (stem ++ [46;110;112;121])) None key None = c_npy C b
    /\ read_signal blob C fs w sf (Path (stem ++ [46;112;116])) None key None = c_pt C b
    /\ read_signal blob C fs w sf (Path (stem ++ [46;115;112;104])) None key None = c_sph C b None
    /\ read_signal blob C fs w sf (Path (stem ++ [46;119;97;118])) None key None
       = bind (c_wave C b) (fun wf => wave_read wf None).
Proof. exact by_name_returns_decoded_l. Qed.
Print Assumptions by_name_returns_decoded.
Theorem by_name_soundfile : forall blob (C : codecs blob) fs w,
  w ch_comma = false -> w ch_colon = false ->
  forall sf stem t b key,
    ~ table_lang w (stem ++ 46 :: t) -> ~ In 46 t ->
    In t sf -> ~ In t dispatch_literals ->
    fs (stem ++ 46 :: t) = Ok b ->
    read_signal blob C fs w sf (Path (stem ++ 46 :: t)) None key None
    = bind (c_snd C b) (fun o => snd o (soundfile_dtype (fst o))).
Proof. exact by_name_soundfile_l. Qed.
Print Assumptions by_name_soundfile.

(* ---- dtype (clause: a given dtype is applied as a final cast) ---- *)
Theorem dtype_is_final_cast : forall blob (C : codecs blob) fs w sf src d key fa rd,
  chosen_reader blob w sf src fa = Ok rd -> two_stage rd = true ->
  read_signal blob C fs w sf src (Some d) key fa
  = res_map (astype d) (read_signal blob C fs w sf src None key fa).
Proof. exact dtype_is_final_cast_l. Qed.
Print Assumptions dtype_is_final_cast.
Theorem dtype_hdf5_conversion : forall blob (C : codecs blob) fs w sf src d key fa,
  chosen_reader blob w sf src fa = Ok RHdf5 ->
  read_signal blob C fs w sf src (Some d) key fa
  = res_map (h5_convert (Some d)) (read_signal blob C fs w sf src None key fa).
Proof. exact dtype_hdf5_conversion_l. Qed.
Print Assumptions dtype_hdf5_conversion.
Theorem h5_convert_representable : forall d a,
  Forall (fun v => in_range d v = true) (a_data a) -> h5_convert (Some d) a = astype d a.
Proof. exact h5_convert_representable_l. Qed.
Print Assumptions h5_convert_representable.
(* full statement "for every container dtype acts as ndarray.astype" does not hold for hdf5: *)
Theorem hdf5_cast_is_not_astype_refuted :
  exists root d,
    hdf5_read (Ok root) (Some d) None <> res_map (astype d) (hdf5_read (Ok root) None None).
Proof. exact hdf5_cast_is_not_astype_refuted_l. Qed.
Print Assumptions hdf5_cast_is_not_astype_refuted.
Theorem astype_representable : forall d a,
  Forall (fun v => in_range d v = true) (a_data a) -> astype d a = mk_arr d (a_shape a) (a_data a).
Proof. exact astype_representable_l. Qed.
Print Assumptions astype_representable.
Theorem dtype_passed_to_decoder : forall blob (C : codecs blob) fs w sf b dtype key d,
  read_signal blob C fs w sf (Stream b) dtype key (Some [115;112;104]) = c_sph C b dtype
  /\ read_signal blob C fs w sf (Stream b) (Some d) key (Some [102;105;108;101]) = c_raw C b d
  /\ read_signal blob C fs w sf (Stream b) None key (Some [102;105;108;101]) = c_raw C b F64.
Proof. exact dtype_passed_to_decoder_l. Qed.
Print Assumptions dtype_passed_to_decoder.
Theorem choice_error_independent : forall blob (C : codecs blob) fs w sf src dtype key fa e,
  chosen_reader blob w sf src fa = Err e -> read_signal blob C fs w sf src dtype key fa = Err e.
Proof. exact choice_error_l. Qed.
Print Assumptions choice_error_independent.

(* ---- key (clause: key selects the named entry) ---- *)
Theorem key_selects_npz_entry : forall blob (C : codecs blob) fs w sf b archive k a dtype,
  c_npz C b = Ok archive -> NoDup (map fst archive) -> In (k, a) archive -> k <> [] ->
  read_signal blob C fs w sf (Stream b) dtype (Some k) (Some s_npz) = Ok (cast_opt dtype a).
Proof. exact key_selects_npz_entry_l. Qed.
Print Assumptions key_selects_npz_entry.
Theorem npz_default_key : forall archive dtype key,
  truthy_str key = false ->
  glue_npz (Ok archive) dtype key =
  match assoc npz_default_key archive with
  | Some a => Ok (cast_opt dtype a)
  | None => Err EKey
  end.
Proof. exact npz_default_key_l. Qed.
Print Assumptions npz_default_key.
Theorem npz_missing_key : forall archive k dtype,
  k <> [] -> ~ In k (map fst archive) -> glue_npz (Ok archive) dtype (Some k) = Err EKey.
Proof. exact npz_missing_key_l. Qed.
Print Assumptions npz_missing_key.
Theorem key_selects_hdf5_entry : forall blob (C : codecs blob) fs w sf b ch k a dtype,
  c_h5 C b = Ok (H5Group ch) -> k <> [] -> ~ In 47 k -> assoc k ch = Some (H5Data a) ->
  read_signal blob C fs w sf (Stream b) dtype (Some k) (Some s_hdf5) = Ok (h5_convert dtype a).
Proof. exact key_selects_hdf5_entry_l. Qed.
Print Assumptions key_selects_hdf5_entry.
Theorem hdf5_default_first_dataset : forall blob (C : codecs blob) fs w sf b root dtype key,
  c_h5 C b = Ok root -> truthy_str key = false ->
  exists r, first_ds root r /\
    read_signal blob C fs w sf (Stream b) dtype key (Some s_hdf5) =
    match r with Some a => Ok (h5_convert dtype a) | None => Err EIO end.
Proof. exact hdf5_default_first_dataset_l. Qed.
Print Assumptions hdf5_default_first_dataset.
Theorem hdf5_search_terminates_and_is_first : forall root,
  exists r, h5_find root = Some r /\ first_ds root r.
Proof. exact h5_find_spec_l. Qed.
Print Assumptions hdf5_search_terminates_and_is_first.
Theorem hdf5_first_dataset_unique : forall root r r',
  h5_find root = Some r -> first_ds root r' -> r = r'.
Proof. exact h5_find_unique_l. Qed.
Print Assumptions hdf5_first_dataset_unique.
Theorem hdf5_children_sorted : forall (l : list (str * h5node)),
  Sorted.Sorted ge_key (sort_desc l) /\ Permutation.Permutation (sort_desc l) l.
Proof. exact hdf5_children_sorted_l. Qed.
Print Assumptions hdf5_children_sorted.
Theorem key_ignored_elsewhere : forall blob (C : codecs blob) fs w sf src dtype k k' fa rd,
  chosen_reader blob w sf src fa = Ok rd -> key_blind rd = true ->
  read_signal blob C fs w sf src dtype k fa = read_signal blob C fs w sf src dtype k' fa.
Proof. exact key_ignored_l. Qed.
Print Assumptions key_ignored_elsewhere.

(* ---- round trips: what util.py itself contributes (codecs are hypotheses) ---- *)
Theorem readers_return_decoded : forall blob (C : codecs blob) fs w sf b key,
  read_signal blob C fs w sf (Stream b) None key (Some [110;112;121]) = c_npy C b
  /\ read_signal blob C fs w sf (Stream b) None key (Some [112;116]) = c_pt C b
  /\ read_signal blob C fs w sf (Stream b) None key (Some [115;112;104]) = c_sph C b None
  /\ read_signal blob C fs w sf (Stream b) None key (Some [102;105;108;101]) = c_raw C b F64
  /\ read_signal blob C fs w sf (Stream b) None key (Some [119;97;118])
     = bind (c_wave C b) (fun wf => wave_read wf None)
  /\ read_signal blob C fs w sf (Stream b) None key (Some [115;111;117;110;100;102;105;108;101])
     = bind (c_snd C b) (fun o => snd o (soundfile_dtype (fst o))).
Proof. exact readers_return_decoded_l. Qed.
Print Assumptions readers_return_decoded.
Theorem wave_roundtrip : forall w d c T samples dtype,
  width_dtype w = Some d -> 1 <= c -> 0 <= T ->
  Z.of_nat (length samples) = T * c ->
  Forall (fun v => in_range d v = true) samples ->
  wave_read (mk_wave w c (wave_encode w samples)) dtype
  = Ok (cast_opt dtype (mk_arr d (if 1 <? c then [T; c] else [T]) samples)).
Proof. exact wave_roundtrip_l. Qed.
Print Assumptions wave_roundtrip.
Theorem wave_stream_roundtrip : forall blob (C : codecs blob) fs w sf b wd d c T samples dtype key,
  c_wave C b = Ok (mk_wave wd c (wave_encode wd samples)) ->
  width_dtype wd = Some d -> 1 <= c -> 0 <= T ->
  Z.of_nat (length samples) = T * c ->
  Forall (fun v => in_range d v = true) samples ->
  read_signal blob C fs w sf (Stream b) dtype key (Some [119;97;118])
  = Ok (cast_opt dtype (mk_arr d (if 1 <? c then [T; c] else [T]) samples)).
Proof. exact wave_stream_roundtrip_l. Qed.
Print Assumptions wave_stream_roundtrip.
Theorem wave_ragged_ioerror : forall w d c samples dtype,
  width_dtype w = Some d -> 1 <= c ->
  Z.of_nat (length samples) mod c <> 0 ->
  Forall (fun v => in_range d v = true) samples ->
  wave_read (mk_wave w c (wave_encode w samples)) dtype = Err EIO.
Proof. exact wave_ragged_ioerror_l. Qed.
Print Assumptions wave_ragged_ioerror.
Theorem soundfile_dtype_table :
  map soundfile_dtype [s_PCM_16; s_PCM_24; s_PCM_32; s_FLOAT; s_DOUBLE; s_PCM_S8; s_PCM_U8]
  = [I16; I32; I32; F32; F64; I8; I16].
Proof. exact soundfile_dtype_table_l. Qed.
Print Assumptions soundfile_dtype_table.

(* ---- wds_read_signal (clause: never raises, None for what it cannot decode) ---- *)
Theorem wds_spec : forall blob (C : codecs blob) fs w sf key data,
  wds_read_signal blob C fs w sf key data =
  match infer w sf key with
  | Err _ => None
  | Ok fa => match read_signal blob C fs w sf (Stream data) None None (Some fa) with
             | Ok a => Some a | Err _ => None end
  end.
Proof. exact wds_spec_l. Qed.
Print Assumptions wds_spec.
Theorem wds_total : forall blob (C : codecs blob) fs w sf key data,
  wds_read_signal blob C fs w sf key data = None
  \/ exists a, wds_read_signal blob C fs w sf key data = Some a.
Proof. exact wds_total_l. Qed.
Print Assumptions wds_total.
Theorem wds_unrecognised_none : forall blob (C : codecs blob) fs w sf key data e,
  infer w sf key = Err e -> wds_read_signal blob C fs w sf key data = None.
Proof. exact wds_unrecognised_none_l. Qed.
Print Assumptions wds_unrecognised_none.
Theorem wds_kaldi_none : forall blob (C : codecs blob) fs w sf key data t,
  infer w sf key = Ok t -> In t stream_excluded -> wds_read_signal blob C fs w sf key data = None.
Proof. exact wds_kaldi_none_l. Qed.
Print Assumptions wds_kaldi_none.
Theorem wds_some_is_read : forall blob (C : codecs blob) fs w sf key data a,
  wds_read_signal blob C fs w sf key data = Some a ->
  exists fa, infer w sf key = Ok fa
             /\ read_signal blob C fs w sf (Stream data) None None (Some fa) = Ok a.
Proof. exact wds_some_l. Qed.
Print Assumptions wds_some_is_read.
Theorem wds_decodes : forall blob (C : codecs blob) fs w sf key data fa a,
  infer w sf key = Ok fa ->
  read_signal blob C fs w sf (Stream data) None None (Some fa) = Ok a ->
  wds_read_signal blob C fs w sf key data = Some a.
Proof. exact wds_decodes_l. Qed.
Print Assumptions wds_decodes.
