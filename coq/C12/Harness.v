(* C12 - definitions used only by the generated correspondence files
   (build/C12/*.v): file construction from segments, a digest of an outcome and
   the comparison loop.  No theorem depends on this file. *)
From Coq Require Import ZArith List Bool.
From Verif Require Import lib.C12_Py lib.C12_ZList gen.Sphere C12.Model.
Import ListNotations.
Open Scope Z_scope.

(* pseudo-random bytes, reproduced identically by harness/c12.py *)
(* 16-bit xorshift (7, 9, 8): period 65535 on non-zero states *)
Definition lcg_next (x : Z) : Z :=
  let a := Z.land (Z.lxor x (Z.shiftl x 7)) 65535 in
  let b := Z.lxor a (Z.shiftr a 9) in
  Z.land (Z.lxor b (Z.shiftl b 8)) 65535.
Fixpoint lcg_bytes (n : nat) (x : Z) (acc : bytes) : bytes :=
  match n with
  | O => rev' acc
  | S k => let x' := lcg_next x in lcg_bytes k x' (Z.land x' 255 :: acc)
  end.

Inductive seg := Lit (l : bytes) | Rep (c n : Z) | Lcg (n seed : Z).

Definition seg_bytes (s : seg) : bytes :=
  match s with
  | Lit l => l
  | Rep c n => zrepeat c n
  | Lcg n seed => lcg_bytes (Z.to_nat n) seed []
  end.
Definition file_of (ss : list seg) : bytes := flat_map seg_bytes ss.

Definition cell (o : option Z) : Z := match o with Some v => v | None => 1000000007 end.
Fixpoint wsum (l : list (option Z)) (i h1 h2 : Z) : list Z :=
  match l with
  | [] => [h1; h2]
  | o :: r =>
      let v := cell o in
      wsum r (i + 1) (h1 + v * (i + 1)) (h2 + v * (i * i + 7))
  end.

Definition err_code (e : err) : Z :=
  match e with EIO => 0 | EValue => 1 | EType => 2 | EIndex => 3 end.

Definition dtype_code (d : dtype) : Z :=
  16 * (match dk d with KInt => 0 | KUint => 1 | KFloat => 2 end) + dsize d.

(* a short description of an outcome; for up to [full] cells the values
   themselves are listed as well *)
Definition digest (full : Z) (o : outcome) : list Z :=
  match o with
  | Decoded w dt shape flat =>
      [0; if w then 1 else 0; dtype_code dt; len shape] ++ shape ++ [len flat] ++ wsum flat 0 0 0
        ++ (if len flat <=? full then map cell flat else [])
  | Shorten => [1]
  | Error e => [2; err_code e]
  | Unmodelled => [3]
  end.

Fixpoint zlist_eqb (a b : list Z) : bool :=
  match a, b with
  | [], [] => true
  | x :: a', y :: b' => (x =? y) && zlist_eqb a' b'
  | _, _ => false
  end.

(* successive reads of a stream that returns at most sizes[k] bytes at its k-th
   data read (then whole reads of n bytes) *)
Fixpoint chunks_by (fuel : nat) (sizes : list Z) (n : Z) (l : bytes) : list bytes :=
  match fuel with
  | O => []
  | S f =>
      match l with
      | [] => []
      | _ => let k := match sizes with s :: _ => Z.min s n | [] => n end in
             take k l :: chunks_by f (tl sizes) n (drop k l)
      end
  end.

Definition sphere_read_sched (file : bytes) (dt : option dtype) (sizes : list Z) : outcome :=
  match read_header file with
  | HErr e => Error e
  | HUnmodelled => Unmodelled
  | HOk h data => copy_samples_chunks h dt (chunks_by (length data) sizes copy_buf_size data)
  end.

(* a case: file segments, requested dtype, read schedule ([] = plain file),
   expected digest observed on the implementation *)
Definition case := (list seg * option dtype * list Z * list Z)%type.

Definition run_case (full : Z) (c : case) : list Z :=
  let '(ss, dt, sizes, _) := c in
  let f := file_of ss in
  digest full (match sizes with [] => sphere_read f dt | _ => sphere_read_sched f dt sizes end).

(* indices of disagreeing cases, and of cases outside the modelled grammar *)
Fixpoint compare_cases (full : Z) (cs : list case) (i : Z) (bad unm : list Z) : list Z * list Z :=
  match cs with
  | [] => (rev bad, rev unm)
  | c :: r =>
      let d := run_case full c in
      let '(_, _, _, expected) := c in
      if zlist_eqb d [3] then compare_cases full r (i + 1) bad (i :: unm)
      else if zlist_eqb d expected then compare_cases full r (i + 1) bad unm
      else compare_cases full r (i + 1) (i :: bad) unm
  end.
