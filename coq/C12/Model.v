(* C12 - executable model of the uncompressed-SPHERE reader
   (src/pydrobert/speech/_sphere.py: read_header, copy_samples,
   sphere_read_signal, as dispatched by util.read_signal(force_as="sph")).

   Definitions only.  A file is the list of its bytes (Z in 0..255); file_.read(n)
   on a regular file / BytesIO returns the next min(n, remaining) bytes.  The
   literal parts (tables, constants, key dispatch, the two header guards, the
   sampsize -> in_type chain) come from gen/Sphere.v, regenerated from the source. *)
From Coq Require Import ZArith List Bool.
From Verif Require Import lib.C12_Py lib.C12_ZList gen.Sphere.
Import ListNotations.
Open Scope Z_scope.

(* ------------------------------------------------------------------ *)
(** * Byte strings *)

Fixpoint bytes_eqb (a b : bytes) : bool :=
  match a, b with
  | [], [] => true
  | x :: a', y :: b' => (x =? y) && bytes_eqb a' b'
  | _, _ => false
  end.

(* value.startswith(p) *)
Fixpoint starts_with (p l : bytes) : bool :=
  match p, l with
  | [], _ => true
  | x :: p', y :: l' => (x =? y) && starts_with p' l'
  | _ :: _, [] => false
  end.

(* p in value  (substring) *)
Fixpoint contains (p l : bytes) : bool :=
  starts_with p l || match l with [] => false | _ :: l' => contains p l' end.

(* bytes.split(b"\n"): always at least one piece *)
Fixpoint split_nl (l cur : bytes) : list bytes :=
  match l with
  | [] => [rev cur]
  | c :: r => if c =? 10 then rev cur :: split_nl r [] else split_nl r (c :: cur)
  end.

Definition is_digit (c : Z) : bool := (48 <=? c) && (c <=? 57).
(* C isspace(), used by int(bytes) and bytes.strip() *)
Definition is_space_b (c : Z) : bool := (c =? 32) || ((9 <=? c) && (c <=? 13)).
(* str.isspace() restricted to code points < 128, used by str.split() *)
Definition is_space_s (c : Z) : bool := is_space_b c || ((28 <=? c) && (c <=? 31)).

(* str.split(): maximal runs of non-whitespace *)
Fixpoint tokens (l cur : bytes) : list bytes :=
  match l with
  | [] => match cur with [] => [] | _ => [rev cur] end
  | c :: r =>
      if is_space_s c
      then match cur with [] => tokens r [] | _ => rev cur :: tokens r [] end
      else tokens r (c :: cur)
  end.

(* " ".join(toks) *)
Fixpoint join_sp (toks : list bytes) : bytes :=
  match toks with
  | [] => []
  | [t] => t
  | t :: r => t ++ 32 :: join_sp r
  end.

Fixpoint lstrip (f : Z -> bool) (l : bytes) : bytes :=
  match l with
  | c :: r => if f c then lstrip f r else l
  | [] => []
  end.
Definition strip (f : Z -> bool) (l : bytes) : bytes := rev (lstrip f (rev (lstrip f l))).

(* Python int() of an already stripped ASCII string:  [+-]? digit (_? digit)*  ;
   None = ValueError *)
Fixpoint digits_value (l : bytes) (acc : Z) (prev_us : bool) : option Z :=
  match l with
  | [] => if prev_us then None else Some acc
  | c :: r =>
      if is_digit c then digits_value r (10 * acc + (c - 48)) false
      else if (c =? 95) && negb prev_us then digits_value r acc true
      else None
  end.
Definition unsigned_int (l : bytes) : option Z :=
  match l with
  | c :: _ => if is_digit c then digits_value l 0 false else None
  | [] => None
  end.
Definition py_int (l : bytes) : option Z :=
  match l with
  | 45 :: r => option_map Z.opp (unsigned_int r)
  | 43 :: r => unsigned_int r
  | _ => unsigned_int l
  end.

(* ------------------------------------------------------------------ *)
(** * read_header *)

Inductive err := EIO | EValue | EType | EIndex.

Inductive pyval := VInt (z : Z) | VStr (s : bytes).

(* the local variables of read_header after (part of) the field loop *)
Record hvars := {
  v_chans : option Z; v_count : option Z; v_rate : option Z; v_size : option Z;
  v_order : option bytes; v_coding : option coding; v_short : bool }.

Definition hvars0 : hvars :=
  {| v_chans := None; v_count := None; v_rate := None; v_size := None;
     v_order := None; v_coding := None; v_short := false |}.

Fixpoint assoc {B} (k : bytes) (l : list (bytes * B)) : option B :=
  match l with
  | [] => None
  | (k', b) :: r => if bytes_eqb k k' then Some b else assoc k r
  end.

Fixpoint assoc_z {B} (k : Z) (l : list (Z * B)) : option B :=
  match l with
  | [] => None
  | (k', b) :: r => if k =? k' then Some b else assoc_z k r
  end.

(* for prefix in {...}: if value.startswith(prefix): samptype = prefix
   (the prefixes do not overlap - checked by the translator - so the set's
   iteration order is immaterial) *)
Fixpoint coding_of (value : bytes) (ps : list (bytes * coding)) (old : option coding) : option coding :=
  match ps with
  | [] => old
  | (p, c) :: r => coding_of value r (if starts_with p value then Some c else old)
  end.

Inductive sres := SOk (v : hvars) | SErr | SUnmodelled.

(* numeric keys are modelled for "-i" values, the two string keys for string
   values; the other combinations (a TypeError/AttributeError later on) are
   outside the modelled header grammar *)
Definition assign (key : bytes) (val : pyval) (v : hvars) : sres :=
  match assoc key hdr_keys, val with
  | None, _ => SOk v
  | Some FChans, VInt z => SOk {| v_chans := Some z; v_count := v_count v; v_rate := v_rate v; v_size := v_size v; v_order := v_order v; v_coding := v_coding v; v_short := v_short v |}
  | Some FCount, VInt z => SOk {| v_chans := v_chans v; v_count := Some z; v_rate := v_rate v; v_size := v_size v; v_order := v_order v; v_coding := v_coding v; v_short := v_short v |}
  | Some FRate, VInt z => SOk {| v_chans := v_chans v; v_count := v_count v; v_rate := Some z; v_size := v_size v; v_order := v_order v; v_coding := v_coding v; v_short := v_short v |}
  | Some FSize, VInt z => SOk {| v_chans := v_chans v; v_count := v_count v; v_rate := v_rate v; v_size := Some z; v_order := v_order v; v_coding := v_coding v; v_short := v_short v |}
  | Some FOrder, VStr s => SOk {| v_chans := v_chans v; v_count := v_count v; v_rate := v_rate v; v_size := v_size v; v_order := Some s; v_coding := v_coding v; v_short := v_short v |}
  | Some FCoding, VStr s => SOk {| v_chans := v_chans v; v_count := v_count v; v_rate := v_rate v; v_size := v_size v; v_order := v_order v; v_coding := coding_of s coding_prefixes (v_coding v); v_short := contains shorten_marker s |}
  | Some _, _ => SUnmodelled
  end.

(* one iteration of the field loop (the line is not end_head) *)
Definition field_step (v : hvars) (line : bytes) : sres :=
  if existsb (fun c => 128 <=? c) line then SUnmodelled   (* non-ASCII: not modelled *)
  else
    match tokens line [] with
    | key :: fmt :: rest =>
        let value := join_sp rest in
        if bytes_eqb fmt int_fmt
        then match py_int value with
             | Some z => assign key (VInt z) v
             | None => SErr                    (* ValueError -> error *)
             end
        else assign key (VStr value) v
    | _ => SErr                                (* key, fmt = field[:2] fails -> error *)
    end.

Inductive fres := FEnd (v : hvars) | FErr | FUnmodelled.

Fixpoint field_loop (lines : list bytes) (v : hvars) : fres :=
  match lines with
  | [] => FErr                                  (* no end_head: field != b"end_head" *)
  | l :: r =>
      if bytes_eqb l end_marker then FEnd v
      else match field_step v l with
           | SOk v' => field_loop r v'
           | SErr => FErr
           | SUnmodelled => FUnmodelled
           end
  end.

(* the tuple returned by read_header.  sample_rate is not used by the reader
   (only validated), so it stays optional; samptype None would behave like pcm in
   copy_samples (only membership in {"alaw", "ulaw"} is tested there) *)
Record header := {
  h_coding : coding; h_size : Z; h_count : Z; h_rate : option Z; h_chans : Z;
  h_order : option bytes; h_short : bool }.

Inductive hres := HOk (h : header) (data : bytes) | HErr (e : err) | HUnmodelled.

(* statements after the field loop.  With the guard of the current source the
   last two error branches are unreachable (the guard rejects a missing count
   or channel count); were the guard relaxed, np.empty(None * n) would raise
   TypeError in copy_samples, which is what they stand for *)
Definition finish_header (v : hvars) (data : bytes) : hres :=
  let samptype := if hdr_infer_pcm (v_coding v) (v_size v) (v_count v) (v_rate v) (v_chans v) (v_order v)
                  then Some Pcm else v_coding v in
  if hdr_reject samptype (v_size v) (v_count v) (v_rate v) (v_chans v) (v_order v) then HErr EIO
  else if negb (truthy_z (v_size v)) then HErr EType      (* sampsize = samptype & 3 : str & int *)
  else
    match v_count v, v_chans v with
    | Some n, Some ch =>
        HOk {| h_coding := match samptype with Some c => c | None => Pcm end;
               h_size := match v_size v with Some s => s | None => 0 end;
               h_count := n; h_rate := v_rate v; h_chans := ch; h_order := v_order v;
               h_short := v_short v |} data
    | _, _ => HErr EType
    end.

Definition read_header (file : bytes) : hres :=
  let inp := take hdr_first_read file in
  if negb (len inp =? hdr_first_read) || negb (bytes_eqb (take (len nist_magic) inp) nist_magic)
  then HErr EIO
  else
    match nth_error (split_nl inp []) 1 with
    | None => HErr EIO                          (* IndexError -> error *)
    | Some l =>
        match py_int (strip is_space_b l) with
        | None => HErr EIO                      (* ValueError -> error *)
        | Some hdrsize =>
            if hdrsize <? hdr_min_size then HErr EIO
            else
              let rest := drop hdr_first_read file in
              let more := take (hdrsize - len inp) rest in
              let inpbuf := inp ++ more in
              let data := drop (hdrsize - len inp) rest in
              match field_loop (skipn 2 (split_nl inpbuf [])) hvars0 with
              | FEnd v => finish_header v data
              | FErr => HErr EIO
              | FUnmodelled => HUnmodelled
              end
        end
    end.

(* ------------------------------------------------------------------ *)
(** * copy_samples *)

Inductive dkind := KInt | KUint | KFloat.
Record dtype := { dk : dkind; dsize : Z }.      (* itemsize in bytes *)

Definition wrap_unsigned (bits v : Z) : Z := v mod 2 ^ bits.
Definition wrap_signed (bits v : Z) : Z :=
  let u := v mod 2 ^ bits in if u <? 2 ^ (bits - 1) then u else u - 2 ^ bits.

(* assignment into an array of dtype d ("unsafe" C cast); float dtypes hold
   the integers that occur here exactly (|v| < 2^24 for float32: every 8/16-bit
   sample and every G.711 value) *)
Definition cast (d : dtype) (v : Z) : Z :=
  match dk d with
  | KInt => wrap_signed (8 * dsize d) v
  | KUint => wrap_unsigned (8 * dsize d) v
  | KFloat => v
  end.

(* little-endian value of a byte string *)
Fixpoint le_value (l : bytes) : Z :=
  match l with
  | [] => 0
  | b :: r => b + 256 * le_value r
  end.

(* one item of np.frombuffer(..., dtype=in_type) *)
Definition decode_item (bits : Z) (signed big_endian : bool) (bs : bytes) : Z :=
  let u := le_value (if big_endian then rev bs else bs) in
  if signed && (2 ^ (bits - 1) <=? u) then u - 2 ^ bits else u.

(* np.frombuffer(buf, dtype, count): the first count items of size bytes each *)
Fixpoint decode_items_n (n : nat) (size bits : Z) (signed be : bool) (buf : bytes) : list Z :=
  match n with
  | O => []
  | S k => decode_item bits signed be (take size buf) :: decode_items_n k size bits signed be (drop size buf)
  end.
Definition decode_items (count size bits : Z) (signed be : bool) (buf : bytes) : list Z :=
  decode_items_n (Z.to_nat count) size bits signed be buf.

(* TABLE[idx] for an integer index array: negative indices wrap once,
   anything else out of range is an IndexError (None) *)
Definition table_get (tbl : list Z) (i : Z) : option Z :=
  let n := len tbl in
  if (0 <=? i) && (i <? n) then nth_error tbl (Z.to_nat i)
  else if (- n <=? i) && (i <? 0) then nth_error tbl (Z.to_nat (i + n))
  else None.

Fixpoint table_take (tbl : list Z) (idx : list Z) : option (list Z) :=
  match idx with
  | [] => Some []
  | i :: r =>
      match table_get tbl i, table_take tbl r with
      | Some v, Some vs => Some (v :: vs)
      | _, _ => None
      end
  end.

Record params := {
  p_coding : coding; p_size : Z; p_count : Z; p_chans : Z;
  p_bits : Z; p_signed : bool; p_be : bool; p_convert : bool; p_short : bool;
  p_dtype : dtype }.

Definition frame (P : params) : Z := p_chans P * p_size P.

Definition convert_items (P : params) (items : list Z) : option (list Z) :=
  if p_convert P then table_take (convert_table (p_coding P)) items else Some items.

(* data[a : a + len vals] = vals on the pre-allocated array; None = a cell of
   np.empty that was never written *)
Definition assign_slice (data : list (option Z)) (a : Z) (vals : list Z) : list (option Z) :=
  take a data ++ map Some vals ++ drop (a + len vals) data.

Record lstate := { sdone : Z; leftover : bytes; arr : list (option Z) }.

Inductive lres := LDone (sampsdone : Z) (data : list (option Z)) | LShorten | LErr (e : err).

(* the while loop; [chunks] are the successive results of file_.read(buf_size)
   (an empty list of chunks, or an empty chunk, is the b"" that ends the file) *)
Fixpoint copy_loop (P : params) (chunks : list bytes) (st : lstate) : lres :=
  if negb (sdone st <? p_count P) then LDone (sdone st) (arr st)
  else
    match chunks with
    | [] => LDone (sdone st) (arr st)
    | [] :: _ => LDone (sdone st) (arr st)
    | c :: cs =>
        if p_short P && (sdone st =? 0) && bytes_eqb (take (len shorten_magic) c) shorten_magic
        then LShorten
        else
          let inpbuf := leftover st ++ c in
          let nb := len inpbuf in
          let ns0 := nb / (p_chans P * p_size P) in
          let ns := if sdone st + ns0 >? p_count P then p_count P - sdone st else ns0 in
          let nb' := ns * p_chans P * p_size P in
          let items := decode_items (ns * p_chans P) (p_size P) (p_bits P) (p_signed P) (p_be P) inpbuf in
          match convert_items P items with
          | None => LErr EIndex
          | Some vals =>
              let a := sdone st * p_chans P in
              let b := (sdone st + ns) * p_chans P in
              if negb (len vals =? Z.min b (len (arr st)) - a) then LErr EValue   (* shape mismatch *)
              else
                copy_loop P cs
                  {| sdone := sdone st + ns; leftover := drop nb' inpbuf;
                     arr := assign_slice (arr st) a (map (cast (p_dtype P)) vals) |}
          end
    end.

(* successive file_.read(n) results on a regular file *)
Fixpoint chunk_fuel (fuel : nat) (n : Z) (l : bytes) : list bytes :=
  match fuel with
  | O => []
  | S f => match l with
           | [] => []
           | _ => take n l :: chunk_fuel f n (drop n l)
           end
  end.
Definition chunk (n : Z) (l : bytes) : list bytes := chunk_fuel (length l) n l.

Inductive outcome :=
| Decoded (warned : bool) (dt : dtype) (shape : list Z) (flat : list (option Z))
| Shorten                      (* handed to the shorten decoder (property C13) *)
| Error (e : err)
| Unmodelled.

(* samptype in {"alaw", "ulaw"} *)
Definition is_law (c : coding) : bool := existsb (coding_eqb c) law_codings.

Definition int16 : dtype := {| dk := KInt; dsize := 2 |}.
(* the dtype chosen for the laws when none is requested (np.int16 in the source) *)
Definition law_dtype : dtype :=
  {| dk := if snd law_default_type then KInt else KUint; dsize := fst law_default_type / 8 |}.

Definition params_of (h : header) (dt : option dtype) : option params :=
  match assoc_z (h_size h) in_types with
  | None => None
  | Some (bits, signed) =>
      let d := match dt with
               | Some d => d
               | None => if is_law (h_coding h) then law_dtype
                         else {| dk := if signed then KInt else KUint; dsize := h_size h |}
               end in
      Some {| p_coding := h_coding h; p_size := h_size h; p_count := h_count h; p_chans := h_chans h;
              p_bits := bits; p_signed := signed;
              p_be := match h_order h with Some o => bytes_eqb o big_endian_tag | None => false end;
              p_convert := convert_rule (h_size h) (dsize d) (is_law (h_coding h));
              p_short := h_short h; p_dtype := d |}
  end.

Definition init_state (P : params) : lstate :=
  {| sdone := 0; leftover := []; arr := zrepeat None (p_count P * p_chans P) |}.

Definition finish_copy (P : params) (r : lres) : outcome :=
  match r with
  | LShorten => Shorten
  | LErr e => Error e
  | LDone n data =>
      let flat := take (n * p_chans P) data in
      Decoded (negb (n =? p_count P)) (p_dtype P)
              (if p_chans P >? 1 then [n; p_chans P] else [len flat]) flat
  end.

(* copy_samples with the reads given explicitly *)
Definition copy_samples_chunks (h : header) (dt : option dtype) (chunks : list bytes) : outcome :=
  match params_of h dt with
  | None => Error EIO                                   (* sampsize not 1, 2, 4 *)
  | Some P =>
      if p_count P * p_chans P <? 0 then Error EValue   (* np.empty(negative) *)
      else finish_copy P (copy_loop P chunks (init_state P))
  end.

Definition copy_samples (buf_size : Z) (h : header) (dt : option dtype) (data : bytes) : outcome :=
  copy_samples_chunks h dt (chunk buf_size data).

(* sphere_read_signal / read_signal(..., force_as="sph") on a file's bytes *)
Definition sphere_read_bs (buf_size : Z) (file : bytes) (dt : option dtype) : outcome :=
  match read_header file with
  | HErr e => Error e
  | HUnmodelled => Unmodelled
  | HOk h data => copy_samples buf_size h dt data
  end.

Definition sphere_read (file : bytes) (dt : option dtype) : outcome :=
  sphere_read_bs copy_buf_size file dt.

(* ------------------------------------------------------------------ *)
(** * ITU-T G.711 expansion (bit formulas of the reference decoder) *)

Definition ulaw_expand (c : Z) : Z :=
  let u := Z.lxor c 255 in                                    (* ~c, 8 bits *)
  let t := Z.shiftl (Z.shiftl (Z.land u 15) 3 + 132) (Z.shiftr (Z.land u 112) 4) in
  if Z.land u 128 =? 0 then t - 132 else 132 - t.

Definition alaw_expand (c : Z) : Z :=
  let a := Z.lxor c 85 in
  let q := Z.shiftl (Z.land a 15) 4 in
  let seg := Z.shiftr (Z.land a 112) 4 in
  let t := if seg =? 0 then q + 8
           else if seg =? 1 then q + 264
           else Z.shiftl (q + 264) (seg - 1) in
  if Z.land a 128 =? 0 then - t else t.

(* the same laws in arithmetic form: sign, 3-bit segment e, 4-bit mantissa m.
   mu-law: 14-bit magnitude (2m+33)*2^e - 33, scaled by 4 to 16 bits;
   A-law : 13-bit magnitude 2m+1 (e=0) or (2m+33)*2^(e-1), scaled by 8 *)
Definition ulaw_arith (c : Z) : Z :=
  let u := 255 - c in
  let m := u mod 16 in let e := (u / 16) mod 8 in
  let mag := 4 * ((2 * m + 33) * 2 ^ e - 33) in
  if u <? 128 then mag else - mag.

Definition alaw_arith (c : Z) : Z :=
  let a := Z.lxor c 85 in
  let m := a mod 16 in let e := (a / 16) mod 8 in
  let mag := 8 * (if e =? 0 then 2 * m + 1 else (2 * m + 33) * 2 ^ (e - 1)) in
  if a <? 128 then - mag else mag.

(* ------------------------------------------------------------------ *)
(** * A writer, used to state the round-trip theorems *)

Fixpoint le_bytes (n : nat) (u : Z) : bytes :=
  match n with
  | O => []
  | S k => u mod 256 :: le_bytes k (u / 256)
  end.

(* the size-byte representation of v (two's complement) in the given order *)
Definition encode_item (size : Z) (be : bool) (v : Z) : bytes :=
  let l := le_bytes (Z.to_nat size) (v mod 2 ^ (8 * size)) in
  if be then rev l else l.

Definition encode_items (size : Z) (be : bool) (vs : list Z) : bytes :=
  flat_map (encode_item size be) vs.

(* decimal digits of a non-negative number, most significant first *)
Fixpoint dec_digits (fuel : nat) (n : Z) (acc : bytes) : bytes :=
  match fuel with
  | O => acc
  | S f => if n <? 10 then (48 + n) :: acc else dec_digits f (n / 10) ((48 + n mod 10) :: acc)
  end.
Definition dec (n : Z) : bytes := dec_digits (S (Z.to_nat (Z.log2 n))) n [].

Definition field_line (key fmt : bytes) (value : list bytes) : bytes :=
  join_sp (key :: fmt :: value).

(* header text: magic line, size line, field lines, end_head, filler *)
Definition render_lines (lines : list bytes) : bytes :=
  flat_map (fun l => l ++ [10]) lines.

(* ------------------------------------------------------------------ *)
(** * What the read loop is meant to compute (used to state the theorems) *)

(* complete frames that are both promised by the header and present in the data *)
Definition nframes (P : params) (d : bytes) : Z := Z.min (p_count P) (len d / frame P).

Definition decoded_prefix (P : params) (d : bytes) (n : Z) : list Z :=
  decode_items (n * p_chans P) (p_size P) (p_bits P) (p_signed P) (p_be P) d.

(* one conversion of the first nframes frames of the whole data section *)
Definition loop_spec (P : params) (d : bytes) : lres :=
  let n := nframes P d in
  match convert_items P (decoded_prefix P d n) with
  | Some vals => LDone n (map Some (map (cast (p_dtype P)) vals) ++ zrepeat None ((p_count P - n) * p_chans P))
  | None => LErr EIndex
  end.

(* a read that starts with the shorten magic while no frame is complete yet *)
Fixpoint magic_hit_aux (P : params) (seen : Z) (chunks : list bytes) : bool :=
  match chunks with
  | [] => false
  | c :: cs =>
      if seen <? frame P
      then bytes_eqb (take (len shorten_magic) c) shorten_magic || magic_hit_aux P (seen + len c) cs
      else false
  end.
Definition magic_hit (P : params) (chunks : list bytes) : bool :=
  p_short P && (0 <? p_count P) && magic_hit_aux P 0 chunks.

(* ------------------------------------------------------------------ *)
(** * A header writer (used to state the whole-file theorems) *)

From Coq Require Import String Ascii.

(* ASCII text as bytes *)
Definition asc (s : string) : bytes := map (fun a => Z.of_N (N_of_ascii a)) (list_ascii_of_string s).

(* "%7d" % n *)
Definition size_line (hdrsize : Z) : bytes :=
  let d := dec hdrsize in zrepeat 32 (7 - len d) ++ d.

Definition fieldspec := (bytes * bytes * list bytes)%type.      (* key, format tag, value tokens *)

Definition header_lines (hdrsize : Z) (fields : list fieldspec) : list bytes :=
  [nist_magic; size_line hdrsize]
    ++ map (fun f : fieldspec => let '(k, fmt, v) := f in field_line k fmt v) fields
    ++ [end_marker].

Definition header_text (hdrsize : Z) (fields : list fieldspec) : bytes :=
  render_lines (header_lines hdrsize fields).

(* what the field loop makes of a field, at the level of tokens *)
Definition field_sem (v : hvars) (f : fieldspec) : sres :=
  let '(k, fmt, vals) := f in
  if bytes_eqb fmt int_fmt
  then match py_int (join_sp vals) with
       | Some z => assign k (VInt z) v
       | None => SErr
       end
  else assign k (VStr (join_sp vals)) v.

Fixpoint fields_sem (fields : list fieldspec) (v : hvars) : fres :=
  match fields with
  | [] => FEnd v
  | f :: r =>
      match field_sem v f with
      | SOk v' => fields_sem r v'
      | SErr => FErr
      | SUnmodelled => FUnmodelled
      end
  end.

(* a token of a header line: non-empty, ASCII, no white space *)
Definition good_token (t : bytes) : Prop :=
  t <> [] /\ Forall (fun c => 0 <= c < 128 /\ is_space_s c = false) t.
Definition good_field (f : fieldspec) : Prop :=
  let '(k, fmt, vals) := f in good_token k /\ good_token fmt /\ Forall good_token vals.

(* the six standard fields; [order] may be absent (legal for the 8-bit laws) *)
Definition coding_name (c : coding) : bytes :=
  match c with Pcm => asc "pcm" | Ulaw => asc "ulaw" | Alaw => asc "alaw" end.

Definition std_fields (c : coding) (size : Z) (order : option bytes) (chans count rate : Z) : list fieldspec :=
  [ (asc "channel_count", asc "-i", [dec chans]);
    (asc "sample_count", asc "-i", [dec count]);
    (asc "sample_rate", asc "-i", [dec rate]);
    (asc "sample_n_bytes", asc "-i", [dec size]) ]
  ++ match order with
     | Some o => [ (asc "sample_byte_format", asc "-s" ++ dec (len o), [o]) ]
     | None => []
     end
  ++ [ (asc "sample_coding", asc "-s" ++ dec (len (coding_name c)), [coding_name c]) ].

(* a field the reader ignores: unknown key, and a parsable value if tagged -i *)
Definition inert_field (f : fieldspec) : Prop :=
  let '(k, fmt, vals) := f in
  assoc k hdr_keys = None /\ (bytes_eqb fmt int_fmt = true -> py_int (join_sp vals) <> None).

(* a complete file: header text, filler up to the declared size, data section *)
Definition sphere_file (hdrsize : Z) (fields : list fieldspec) (filler data : bytes) : bytes :=
  header_text hdrsize fields ++ filler ++ data.
