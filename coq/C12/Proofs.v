(* C12 - from the loop theorem to the clauses of the property, at the level of
   copy_samples (header already parsed).  The whole-file versions are in
   ProofsFile.v. *)
From Coq Require Import ZArith List Bool Lia.
From Verif Require Import lib.C12_Py lib.C12_ZList gen.Sphere C12.Model C12.Spec C12.ProofsBytes C12.ProofsG711 C12.ProofsLoop.
Import ListNotations.
Open Scope Z_scope.

(* ---- the loop, started from the initial state *)

Lemma copy_loop_correct_l P chunks :
  wf_params P -> Forall (fun c => c <> []) chunks ->
  copy_loop P chunks (init_state P) =
  if magic_hit P chunks then LShorten else loop_spec P (concat chunks).
Proof.
  intros W Hne. rewrite (copy_loop_inv P W chunks [] (init_state P) [] Hne (inv_init P W)).
  reflexivity.
Qed.

Lemma magic_hit_plain P chunks : p_short P = false -> magic_hit P chunks = false.
Proof. intros H. unfold magic_hit. now rewrite H. Qed.

(* the same for the reads of a regular file *)
Lemma copy_loop_file_l P bs data :
  wf_params P -> 0 < bs -> p_short P = false ->
  copy_loop P (chunk bs data) (init_state P) = loop_spec P data.
Proof.
  intros W Hbs Hs. rewrite copy_loop_correct_l by (auto using chunk_nonempty).
  rewrite magic_hit_plain by assumption. now rewrite chunk_concat.
Qed.

(* ---- the generated sampsize -> in_type chain *)

Lemma in_types_sound : forall size bits signed,
  assoc_z size in_types = Some (bits, signed) -> 0 < size /\ bits = 8 * size.
Proof.
  assert (H : forallb (fun e => (0 <? fst e) && (fst (snd e) =? 8 * fst e)) in_types = true) by (vm_compute; reflexivity).
  revert H. generalize in_types. induction l as [|[k [b s]] l IH]; intros H size bits signed E; [discriminate|].
  cbn [forallb fst snd] in H. apply andb_prop in H. destruct H as [H1 H2].
  cbn [assoc_z] in E. destruct (Z.eqb_spec size k).
  - inversion E; subst. lia.
  - eapply IH; eauto.
Qed.

Example in_types_values :
  assoc_z 1 in_types = Some (8, false) /\ assoc_z 2 in_types = Some (16, true) /\
  assoc_z 4 in_types = Some (32, true) /\ assoc_z 3 in_types = None.
Proof. vm_compute. repeat split. Qed.

(* ---- copy_samples in terms of its specification *)


Lemma finish_copy_spec P d : wf_params P -> finish_copy P (loop_spec P d) = decoded_outcome P d.
Proof.
  intros W. pose proof (nframes_bounds P d W) as [B1 B2]. destruct W as (Wc & Ws & Wn).
  unfold loop_spec, decoded_outcome. cbv zeta.
  destruct (convert_items P (decoded_prefix P d (nframes P d))) as [vals|] eqn:E; [|reflexivity].
  cbn [finish_copy].
  assert (L : len (map Some (map (cast (p_dtype P)) vals)) = nframes P d * p_chans P).
  { rewrite !len_map, (convert_items_length _ _ _ E). unfold decoded_prefix. apply decode_items_length. nia. }
  rewrite (take_app_len _ _ _ L). rewrite L.
  destruct (Z.gtb_spec (p_chans P) 1); [reflexivity|].
  replace (p_chans P) with 1 by lia. now rewrite Z.mul_1_r.
Qed.

Lemma copy_samples_chunks_spec_l h dt P chunks :
  params_of h dt = Some P -> wf_params P ->
  Forall (fun c => c <> []) chunks -> magic_hit P chunks = false ->
  copy_samples_chunks h dt chunks = decoded_outcome P (concat chunks).
Proof.
  intros HP W Hne Hm. unfold copy_samples_chunks. rewrite HP.
  destruct W as (Wc & Ws & Wn).
  destruct (Z.ltb_spec (p_count P * p_chans P) 0); [nia|].
  rewrite copy_loop_correct_l by (auto; repeat split; assumption). rewrite Hm.
  apply finish_copy_spec. repeat split; assumption.
Qed.

Lemma copy_samples_spec_l bs h dt P data :
  params_of h dt = Some P -> wf_params P -> 0 < bs -> p_short P = false ->
  copy_samples bs h dt data = decoded_outcome P data.
Proof.
  intros. unfold copy_samples.
  rewrite (copy_samples_chunks_spec_l h dt P) by (auto using chunk_nonempty, magic_hit_plain).
  now rewrite chunk_concat.
Qed.

(* a file declared as shorten whose data starts with the magic goes to the shorten decoder *)
Lemma shorten_dispatch_l h dt P c cs :
  params_of h dt = Some P -> wf_params P -> 0 < p_count P -> p_short P = true ->
  Forall (fun c => c <> []) (c :: cs) -> take (len shorten_magic) c = shorten_magic ->
  copy_samples_chunks h dt (c :: cs) = Shorten.
Proof.
  intros HP W Hc Hs Hne Hmag. unfold copy_samples_chunks. rewrite HP.
  pose proof (frame_pos P W). destruct W as (Wc & Ws & Wn).
  destruct (Z.ltb_spec (p_count P * p_chans P) 0); [nia|].
  rewrite copy_loop_correct_l by (auto; repeat split; assumption).
  unfold magic_hit. rewrite Hs. replace (0 <? p_count P) with true by (symmetry; apply Z.ltb_lt; lia).
  cbn [magic_hit_aux andb]. replace (0 <? frame P) with true by (symmetry; apply Z.ltb_lt; lia).
  rewrite Hmag.
  assert (E : forall l, bytes_eqb l l = true).
  { induction l; simpl; [reflexivity | now rewrite Z.eqb_refl]. }
  rewrite E. reflexivity.
Qed.

(* ---- frames present *)

Lemma nframes_all P d : wf_params P -> p_count P * frame P <= len d -> nframes P d = p_count P.
Proof.
  intros W H. pose proof (frame_pos P W). unfold nframes.
  assert (p_count P <= len d / frame P) by (apply Z.div_le_lower_bound; lia). lia.
Qed.

Lemma nframes_short P d n r :
  wf_params P -> len d = n * frame P + r -> 0 <= r < frame P -> 0 <= n <= p_count P -> nframes P d = n.
Proof.
  intros W H Hr Hn. pose proof (frame_pos P W). unfold nframes.
  assert (len d / frame P = n) by (symmetry; apply Z.div_unique with (r := r); lia). lia.
Qed.

(* ---- conversion *)

Lemma table_take_bytes tbl l :
  length tbl = 256%nat -> Forall (fun b => 0 <= b < 256) l ->
  table_take tbl l = Some (map (nthz tbl) l).
Proof.
  intros Ht. induction l as [|b l IH]; intros HF; [reflexivity|].
  inversion HF; subst. cbn [table_take map]. rewrite IH by assumption.
  unfold table_get, len. rewrite Ht.
  replace ((0 <=? b) && (b <? Z.of_nat 256)) with true by (symmetry; apply andb_true_intro; split; [apply Z.leb_le | apply Z.ltb_lt]; lia).
  unfold nthz. rewrite (nth_error_nth' tbl 0) by lia. reflexivity.
Qed.


Lemma convert_law P l :
  p_convert P = true -> p_coding P <> Pcm -> Forall (fun b => 0 <= b < 256) l ->
  convert_items P l = Some (map (expand (p_coding P)) l).
Proof.
  intros Hc Hl HF. unfold convert_items. rewrite Hc.
  destruct (p_coding P) eqn:E; [congruence | |]; unfold convert_table; cbn [coding_eqb].
  - rewrite table_take_bytes by (auto; apply ulaw_table_l). f_equal.
    apply map_ext_in. intros b Hb. rewrite Forall_forall in HF. apply ulaw_table_l. auto.
  - rewrite table_take_bytes by (auto; apply alaw_table_l). f_equal.
    apply map_ext_in. intros b Hb. rewrite Forall_forall in HF. apply alaw_table_l. auto.
Qed.

Lemma convert_plain P l : p_convert P = false -> convert_items P l = Some l.
Proof. intros H. unfold convert_items. now rewrite H. Qed.

(* ---- shapes *)


(* ================================================================== *)
(** * The clauses, for a parsed header [h] and any delivery of the data as reads *)

Section Clauses.
  Variables (h : header) (dt : option dtype) (P : params).
  Hypothesis HP : params_of h dt = Some P.
  Hypothesis Hchans : 1 <= h_chans h.
  Hypothesis Hcount : 1 <= h_count h.
  Hypothesis Hplain : h_short h = false.          (* sample_coding does not mention shorten *)

  Lemma params_fields :
    p_coding P = h_coding h /\ p_size P = h_size h /\ p_count P = h_count h /\ p_chans P = h_chans h /\
    p_short P = h_short h /\ p_bits P = 8 * h_size h /\ 0 < h_size h /\
    p_convert P = convert_rule (h_size h) (dsize (p_dtype P)) (is_law (h_coding h)) /\
    p_be P = (match h_order h with Some o => bytes_eqb o big_endian_tag | None => false end) /\
    assoc_z (h_size h) in_types = Some (p_bits P, p_signed P) /\
    p_dtype P = match dt with
                | Some d => d
                | None => if is_law (h_coding h) then law_dtype
                          else {| dk := if p_signed P then KInt else KUint; dsize := h_size h |}
                end.
  Proof.
    unfold params_of in HP. destruct (assoc_z (h_size h) in_types) as [[bits signed]|] eqn:E; [|discriminate].
    destruct (in_types_sound _ _ _ E) as [? ?]. inversion HP; subst P; cbn. repeat split; auto.
  Qed.

  Lemma params_wf : wf_params P.
  Proof. destruct params_fields as (?&E2&E3&E4&?&?&?&?). unfold wf_params. rewrite E2, E3, E4. lia. Qed.

  Lemma params_plain : p_short P = false.
  Proof. destruct params_fields as (?&?&?&?&E&?). now rewrite E. Qed.

  (* the general statement: any chunking, any data *)
  Lemma copy_any_chunking_l chunks :
    Forall (fun c => c <> []) chunks ->
    copy_samples_chunks h dt chunks = decoded_outcome P (concat chunks).
  Proof.
    intros. apply copy_samples_chunks_spec_l; auto using params_wf, magic_hit_plain, params_plain.
  Qed.

  (* ---- PCM and raw codes: the stored items come back, cast to the requested dtype *)
  Lemma stored_items_decode samples tail n :
    len samples = n * h_chans h -> 0 <= n ->
    Forall (in_range (8 * h_size h) (p_signed P)) samples ->
    decoded_prefix P (encode_items (h_size h) (p_be P) samples ++ tail) n = samples.
  Proof.
    intros L Hn HR. destruct params_fields as (E1&E2&E3&E4&E5&E6&E7&_).
    unfold decoded_prefix. rewrite E4, E2, E6, <- L.
    apply decode_encode_items; assumption.
  Qed.

  Lemma pcm_roundtrip_l samples extra chunks :
    p_convert P = false ->
    len samples = h_count h * h_chans h ->
    Forall (in_range (8 * h_size h) (p_signed P)) samples ->
    Forall (fun c => c <> []) chunks ->
    concat chunks = encode_items (h_size h) (p_be P) samples ++ extra ->
    copy_samples_chunks h dt chunks =
    Decoded false (p_dtype P) (shape_of (h_count h) (h_chans h)) (map Some (map (cast (p_dtype P)) samples)).
  Proof.
    intros Hconv L HR Hne Hcat. rewrite copy_any_chunking_l by assumption. rewrite Hcat.
    destruct params_fields as (E1&E2&E3&E4&E5&E6&E7&_). pose proof params_wf as W.
    unfold decoded_outcome. cbv zeta.
    rewrite nframes_all.
    - rewrite E3, stored_items_decode by (auto; lia).
      rewrite convert_plain by assumption. rewrite Z.eqb_refl, E4. reflexivity.
    - exact W.
    - rewrite len_app, encode_items_length, L by lia. unfold frame. rewrite E3, E4, E2.
      pose proof (len_nonneg extra). nia.
  Qed.

  (* ---- truncated data: warning, and exactly the complete frames that are present *)
  Lemma truncated_l samples partial n chunks :
    p_convert P = false ->
    0 <= n < h_count h ->
    len samples = n * h_chans h ->
    len partial < h_chans h * h_size h ->
    Forall (in_range (8 * h_size h) (p_signed P)) samples ->
    Forall (fun c => c <> []) chunks ->
    concat chunks = encode_items (h_size h) (p_be P) samples ++ partial ->
    copy_samples_chunks h dt chunks =
    Decoded true (p_dtype P) (shape_of n (h_chans h)) (map Some (map (cast (p_dtype P)) samples)).
  Proof.
    intros Hconv Hn L Lp HR Hne Hcat. rewrite copy_any_chunking_l by assumption. rewrite Hcat.
    destruct params_fields as (E1&E2&E3&E4&E5&E6&E7&_). pose proof params_wf as W.
    unfold decoded_outcome. cbv zeta.
    rewrite (nframes_short P _ n (len partial)).
    - rewrite stored_items_decode by (auto; lia).
      rewrite convert_plain by assumption. rewrite E3, E4.
      replace (n =? h_count h) with false by (symmetry; apply Z.eqb_neq; lia). reflexivity.
    - exact W.
    - rewrite len_app, encode_items_length, L by lia. unfold frame. rewrite E4, E2. ring.
    - unfold frame. rewrite E4, E2. pose proof (len_nonneg partial). lia.
    - rewrite E3. lia.
  Qed.

  (* ---- mu-law / A-law *)
  Hypothesis Hlaw : h_coding h <> Pcm.
  Hypothesis Hsize1 : h_size h = 1.

  Lemma law_items_decode (codes tail : bytes) n :
    len codes = n * h_chans h -> Forall (fun b => 0 <= b < 256) codes ->
    decoded_prefix P (codes ++ tail) n = codes.
  Proof.
    intros L HF. destruct params_fields as (E1&E2&E3&E4&E5&E6&E7&E8&E9&E10&_).
    unfold decoded_prefix. rewrite E4, E2, E6, Hsize1, <- L.
    assert (p_signed P = false).
    { rewrite Hsize1 in E10. pose proof in_types_values as (V1 & _). rewrite V1 in E10. now inversion E10. }
    rewrite H. apply decode_items_bytes. assumption.
  Qed.

  Lemma law_outcome codes tail n chunks :
    0 <= n <= h_count h ->
    len codes = n * h_chans h ->
    (n = h_count h \/ len tail < h_chans h) ->
    Forall (fun b => 0 <= b < 256) codes ->
    Forall (fun c => c <> []) chunks ->
    concat chunks = codes ++ tail ->
    copy_samples_chunks h dt chunks =
    Decoded (negb (n =? h_count h)) (p_dtype P) (shape_of n (h_chans h))
      (map Some (map (cast (p_dtype P))
                     (if 1 <? dsize (p_dtype P) then map (expand (h_coding h)) codes else codes))).
  Proof.
    intros Hn L Htail HF Hne Hcat. rewrite copy_any_chunking_l by assumption. rewrite Hcat.
    destruct params_fields as (E1&E2&E3&E4&E5&E6&E7&E8&_). pose proof params_wf as W.
    unfold decoded_outcome. cbv zeta.
    assert (N : nframes P (codes ++ tail) = n).
    { destruct Htail as [-> | Ht].
      - rewrite <- E3. apply nframes_all; [exact W|].
        rewrite len_app, L. unfold frame. rewrite E3, E4, E2, Hsize1. pose proof (len_nonneg tail). lia.
      - apply (nframes_short P _ n (len tail)); [exact W | | | rewrite E3; lia].
        + rewrite len_app, L. unfold frame. rewrite E4, E2, Hsize1. ring.
        + unfold frame. rewrite E4, E2, Hsize1. pose proof (len_nonneg tail). lia. }
    rewrite N, law_items_decode by assumption. rewrite E3, E4.
    rewrite Hsize1 in E8.
    assert (IL : is_law (h_coding h) = true) by (destruct (h_coding h); [congruence | reflexivity | reflexivity]).
    unfold convert_rule in E8. rewrite IL, andb_true_r in E8.
    destruct (1 <? dsize (p_dtype P)) eqn:D.
    - rewrite convert_law; [rewrite E1; reflexivity | assumption | now rewrite E1 | assumption].
    - rewrite convert_plain by assumption. reflexivity.
  Qed.
End Clauses.
