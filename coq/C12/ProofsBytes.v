(* C12 - byte-level lemmas: little-endian values, one item of np.frombuffer
   against the writer's encoding, and how decode_items behaves under appending
   and splitting of the buffer. *)
From Coq Require Import ZArith List Bool Lia.
From Verif Require Import lib.C12_Py lib.C12_ZList gen.Sphere C12.Model C12.Spec.
Import ListNotations.
Open Scope Z_scope.

(* ---- little endian *)

Lemma le_value_le_bytes : forall n u, 0 <= u -> le_value (le_bytes n u) = u mod 256 ^ Z.of_nat n.
Proof.
  induction n as [|n IH]; intros u Hu.
  - simpl. now rewrite Z.mod_1_r.
  - cbn [le_bytes le_value]. rewrite IH by (apply Z.div_pos; lia).
    rewrite Nat2Z.inj_succ, Z.pow_succ_r by lia.
    rewrite (Z.mul_comm 256), Z.rem_mul_r by lia. lia.
Qed.

Lemma length_le_bytes : forall n u, length (le_bytes n u) = n.
Proof. induction n; intros; simpl; [reflexivity | now rewrite IHn]. Qed.

Lemma le_bytes_range : forall n u, Forall (fun b => 0 <= b < 256) (le_bytes n u).
Proof.
  induction n; intros; simpl; constructor; [apply Z.mod_pos_bound; lia | apply IHn].
Qed.

Lemma pow256 : forall n, 0 <= n -> 256 ^ n = 2 ^ (8 * n).
Proof. intros. rewrite Z.pow_mul_r by lia. reflexivity. Qed.

Lemma le_value_order (be : bool) (l : bytes) :
  le_value (if be then rev (if be then rev l else l) else (if be then rev l else l)) = le_value l.
Proof. destruct be; [now rewrite rev_involutive | reflexivity]. Qed.

(* ---- one item *)


Lemma encode_item_length size be v : 0 <= size -> len (encode_item size be v) = size.
Proof.
  intros. unfold encode_item, len. destruct be; [rewrite rev_length|]; rewrite length_le_bytes; lia.
Qed.

Lemma encode_item_bytes size be v : Forall (fun b => 0 <= b < 256) (encode_item size be v).
Proof.
  unfold encode_item. destruct be; [|apply le_bytes_range].
  apply Forall_rev. apply le_bytes_range.
Qed.

Lemma decode_encode_item size signed be v :
  0 < size -> in_range (8 * size) signed v ->
  decode_item (8 * size) signed be (encode_item size be v) = v.
Proof.
  intros Hs Hr. unfold decode_item, encode_item.
  set (M := 2 ^ (8 * size)).
  assert (HM : 0 < M) by (apply Z.pow_pos_nonneg; lia).
  assert (Hhalf : M = 2 * 2 ^ (8 * size - 1)).
  { unfold M. rewrite <- Z.pow_succ_r by lia. f_equal. lia. }
  assert (Hle : le_value (le_bytes (Z.to_nat size) (v mod M)) = v mod M).
  { rewrite le_value_le_bytes by (apply Z.mod_pos_bound; lia).
    rewrite Z2Nat.id by lia. rewrite pow256 by lia. fold M.
    apply Z.mod_small. apply Z.mod_pos_bound; lia. }
  cbv zeta. rewrite !le_value_order, !Hle.
  unfold in_range in Hr. destruct signed; cbn [andb]; fold M.
  - destruct (Z.leb_spec (2 ^ (8 * size - 1)) (v mod M)) as [Hge|Hlt].
    + assert (v < 0).
      { destruct (Z.lt_ge_cases v 0); [assumption|]. rewrite Z.mod_small in Hge by lia. lia. }
      assert (v mod M = v + M).
      { symmetry. apply Z.mod_unique with (q := -1); lia. }
      lia.
    + assert (0 <= v).
      { destruct (Z.lt_ge_cases v 0); [|assumption].
        assert (v mod M = v + M) by (symmetry; apply Z.mod_unique with (q := -1); lia). lia. }
      rewrite Z.mod_small by lia. reflexivity.
  - apply Z.mod_small. lia.
Qed.

(* ---- several items *)

Section Items.
  Variables (size bits : Z) (signed be : bool).
  Hypothesis Hsize : 0 < size.

  Notation dn := (fun n buf => decode_items_n n size bits signed be buf).
  Notation dz := (fun k buf => decode_items k size bits signed be buf).

  Lemma decode_items_n_length n buf : length (dn n buf) = n.
  Proof. revert buf; induction n; intros; simpl; [reflexivity | now rewrite IHn]. Qed.

  Lemma decode_items_length k buf : 0 <= k -> len (dz k buf) = k.
  Proof. intros. unfold decode_items, len. rewrite decode_items_n_length. lia. Qed.

  Lemma decode_items_n_app n buf x :
    Z.of_nat n * size <= len buf -> dn n (buf ++ x) = dn n buf.
  Proof.
    revert buf; induction n as [|n IH]; intros buf H; [reflexivity|].
    cbn [decode_items_n]. rewrite Nat2Z.inj_succ in H.
    rewrite take_app_le by lia. rewrite drop_app_le by lia. f_equal.
    apply IH. rewrite len_drop by lia. lia.
  Qed.

  Lemma decode_items_app k buf x :
    0 <= k -> k * size <= len buf -> dz k (buf ++ x) = dz k buf.
  Proof.
    intros. unfold decode_items. apply decode_items_n_app. rewrite Z2Nat.id by lia. assumption.
  Qed.

  Lemma decode_items_n_split (n m : nat) buf :
    dn (n + m)%nat buf = dn n buf ++ dn m (drop (Z.of_nat n * size) buf).
  Proof.
    revert buf; induction n as [|n IH]; intros buf.
    - simpl. now rewrite drop_neg by lia.
    - cbn [decode_items_n Nat.add app]. f_equal. rewrite IH. f_equal. f_equal.
      rewrite drop_drop by lia. f_equal. lia.
  Qed.

  Lemma decode_items_split k m buf :
    0 <= k -> 0 <= m -> dz (k + m) buf = dz k buf ++ dz m (drop (k * size) buf).
  Proof.
    intros. unfold decode_items. rewrite Z2Nat.inj_add by lia.
    rewrite decode_items_n_split. rewrite Z2Nat.id by lia. reflexivity.
  Qed.

  Lemma decode_items_zero buf : dz 0 buf = [].
  Proof. reflexivity. Qed.
End Items.

(* the reader inverts the writer, item by item *)
Lemma decode_encode_items size signed be vs rest :
  0 < size -> Forall (in_range (8 * size) signed) vs ->
  decode_items (len vs) size (8 * size) signed be (encode_items size be vs ++ rest) = vs.
Proof.
  intros Hs. unfold decode_items, len. rewrite Nat2Z.id.
  induction vs as [|v vs IH]; intros HF; [reflexivity|].
  inversion HF; subst. cbn [length decode_items_n encode_items flat_map].
  fold (encode_items size be vs). rewrite <- app_assoc.
  assert (L : len (encode_item size be v) = size) by (apply encode_item_length; lia).
  rewrite (take_app_len size _ _ L), (drop_app_len size _ _ L).
  rewrite decode_encode_item by assumption. f_equal. now apply IH.
Qed.

Lemma encode_items_length size be vs : 0 <= size -> len (encode_items size be vs) = len vs * size.
Proof.
  intros. induction vs as [|v vs IH]; [reflexivity|].
  cbn [encode_items flat_map]. fold (encode_items size be vs).
  rewrite len_app, len_cons, IH, encode_item_length by lia. lia.
Qed.

Lemma encode_items_bytes size be vs : Forall (fun b => 0 <= b < 256) (encode_items size be vs).
Proof.
  induction vs as [|v vs IH]; [constructor|].
  cbn [encode_items flat_map]. apply Forall_app. split; [apply encode_item_bytes | exact IH].
Qed.

(* one unsigned byte per item decodes to the byte itself *)
Lemma decode_items_bytes be (l rest : bytes) :
  Forall (fun b => 0 <= b < 256) l ->
  decode_items (len l) 1 8 false be (l ++ rest) = l.
Proof.
  unfold decode_items, len. rewrite Nat2Z.id.
  induction l as [|b l IH]; intros HF; [reflexivity|].
  inversion HF; subst. cbn [length decode_items_n app].
  replace (take 1 (b :: l ++ rest)) with [b] by reflexivity.
  replace (drop 1 (b :: l ++ rest)) with (l ++ rest) by reflexivity.
  rewrite IH by assumption. f_equal.
  unfold decode_item. destruct be; simpl; lia.
Qed.
