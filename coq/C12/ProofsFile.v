(* C12 - whole files: a standard header (any inert extra fields before the six
   standard ones, any declared header size, any filler) followed by the data. *)
From Coq Require Import String ZArith List Bool Lia.
From Verif Require Import lib.C12_Py lib.C12_ZList gen.Sphere C12.Model C12.Spec
  C12.ProofsBytes C12.ProofsG711 C12.ProofsLoop C12.Proofs C12.ProofsHeader.
Import ListNotations.
Open Scope Z_scope.

(* ---- tokens of the standard fields *)

Definition good_tokenb (t : bytes) : bool :=
  match t with [] => false | _ => forallb (fun c => (0 <=? c) && (c <? 128) && negb (is_space_s c)) t end.

Lemma good_tokenb_ok t : good_tokenb t = true -> good_token t.
Proof.
  unfold good_tokenb, good_token. destruct t as [|c r]; [discriminate|]. intros H.
  split; [discriminate|]. rewrite forallb_forall in H. apply Forall_forall. intros x Hx.
  specialize (H x Hx). apply andb_prop in H. destruct H as [H1 H3]. apply andb_prop in H1. destruct H1 as [H1 H2].
  split; [lia|]. now destruct (is_space_s x).
Qed.

Lemma good_token_app t u : good_token t -> good_token u -> good_token (t ++ u).
Proof.
  intros [N1 F1] [N2 F2]. split; [destruct t; [contradiction | discriminate]|]. apply Forall_app. auto.
Qed.

Lemma fmt_s_not_int x : bytes_eqb (asc "-s" ++ x) int_fmt = false.
Proof. reflexivity. Qed.

Lemma std_fields_good c size order chans count rate :
  0 <= size -> 0 <= chans -> 0 <= count -> 0 <= rate ->
  match order with Some o => good_token o | None => True end ->
  Forall good_field (std_fields c size order chans count rate).
Proof.
  intros. unfold std_fields.
  assert (G : forall s, good_tokenb (asc s) = true -> good_token (asc s)) by (intros; now apply good_tokenb_ok).
  assert (I : forall k n, good_tokenb (asc k) = true -> 0 <= n -> good_field (asc k, asc "-i", [dec n])).
  { intros k n Hk Hn. split; [now apply G | split; [apply G; reflexivity|]].
    constructor; [now apply dec_good_token | constructor]. }
  assert (S : forall k t, good_tokenb (asc k) = true -> good_token t -> good_field (asc k, asc "-s" ++ dec (len t), [t])).
  { intros k t Hk Ht. split; [now apply G | split].
    - apply good_token_app; [apply G; reflexivity | apply dec_good_token; apply len_nonneg].
    - constructor; [assumption | constructor]. }
  apply Forall_app; split; [|apply Forall_app; split].
  - repeat (constructor; [apply I; [reflexivity | assumption]|]). constructor.
  - destruct order as [o|]; [|constructor]. constructor; [|constructor]. apply S; [reflexivity | assumption].
  - constructor; [|constructor]. apply S; [reflexivity|]. destruct c; apply good_tokenb_ok; reflexivity.
Qed.

(* ---- what the field loop makes of them *)

Lemma fields_sem_inert pre r v :
  Forall inert_field pre -> fields_sem (pre ++ r) v = fields_sem r v.
Proof.
  induction pre as [|f pre IH]; intros H; [reflexivity|].
  inversion H as [|? ? Hf Hp]; subst. cbn [app fields_sem].
  destruct f as [[k fmt] vals]. destruct Hf as [Hk Hi]. unfold field_sem.
  destruct (bytes_eqb fmt int_fmt) eqn:E.
  - destruct (py_int (join_sp vals)) eqn:E2; [|exfalso; now apply Hi].
    unfold assign. rewrite Hk. now apply IH.
  - unfold assign. rewrite Hk. now apply IH.
Qed.

Lemma key_lookups :
  assoc (asc "channel_count") hdr_keys = Some FChans /\
  assoc (asc "sample_count") hdr_keys = Some FCount /\
  assoc (asc "sample_rate") hdr_keys = Some FRate /\
  assoc (asc "sample_n_bytes") hdr_keys = Some FSize /\
  assoc (asc "sample_byte_format") hdr_keys = Some FOrder /\
  assoc (asc "sample_coding") hdr_keys = Some FCoding.
Proof. vm_compute. repeat split. Qed.

Lemma coding_name_parsed c old :
  coding_of (coding_name c) coding_prefixes old = Some c /\ contains shorten_marker (coding_name c) = false.
Proof. destruct c; vm_compute; split; reflexivity. Qed.


Lemma std_fields_sem c size order chans count rate :
  0 <= size -> 0 <= chans -> 0 <= count -> 0 <= rate ->
  fields_sem (std_fields c size order chans count rate) hvars0 =
  FEnd {| v_chans := Some chans; v_count := Some count; v_rate := Some rate; v_size := Some size;
          v_order := order; v_coding := Some c; v_short := false |}.
Proof.
  intros. destruct key_lookups as (K1 & K2 & K3 & K4 & K5 & K6).
  unfold std_fields. cbn [app fields_sem field_sem join_sp].
  change (bytes_eqb (asc "-i") int_fmt) with true. cbv iota.
  rewrite !py_int_dec by assumption.
  unfold assign at 1. rewrite K1.
  unfold assign at 1. rewrite K2.
  unfold assign at 1. rewrite K3.
  unfold assign at 1. rewrite K4.
  cbn [v_chans v_count v_rate v_size v_order v_coding v_short hvars0].
  destruct order as [o|]; cbn [app fields_sem field_sem join_sp]; rewrite ?fmt_s_not_int.
  - unfold assign at 1. rewrite K5.
    unfold assign. rewrite K6. cbn [v_chans v_count v_rate v_size v_order v_coding v_short hvars0].
    destruct (coding_name_parsed c None) as [-> ->]. reflexivity.
  - unfold assign. rewrite K6. cbn [v_chans v_count v_rate v_size v_order v_coding v_short hvars0].
    destruct (coding_name_parsed c None) as [-> ->]. reflexivity.
Qed.

Lemma std_finish c size order chans count rate data :
  0 < size -> 0 < chans -> 0 < count -> 0 < rate ->
  match order with Some o => o <> [] | None => c <> Pcm end ->
  finish_header {| v_chans := Some chans; v_count := Some count; v_rate := Some rate; v_size := Some size;
                   v_order := order; v_coding := Some c; v_short := false |} data
  = HOk (std_header c size order chans count rate) data.
Proof.
  intros Hs Hc Hn Hr Ho. unfold finish_header, hdr_infer_pcm, hdr_reject.
  cbn [v_chans v_count v_rate v_size v_order v_coding v_short truthy_c truthy_z negb andb orb].
  replace (count =? 0) with false by (symmetry; apply Z.eqb_neq; lia).
  replace (rate =? 0) with false by (symmetry; apply Z.eqb_neq; lia).
  replace (chans =? 0) with false by (symmetry; apply Z.eqb_neq; lia).
  replace (size =? 0) with false by (symmetry; apply Z.eqb_neq; lia).
  cbn [negb andb orb].
  assert (R : (oc_eqb (Some c) Pcm && negb (truthy_s order)) = false).
  { destruct order as [[|x o]|]; cbn; try (now rewrite andb_false_r); try contradiction.
    destruct c; [contradiction | reflexivity | reflexivity]. }
  rewrite R. reflexivity.
Qed.

(* ---- the standard file *)


(* side conditions on the header layout *)

Lemma std_file_header hs pre c size order chans count rate filler data :
  layout hs pre c size order chans count rate filler ->
  read_header (std_file hs pre c size order chans count rate filler data)
  = HOk (std_header c size order chans count rate) data.
Proof.
  intros [L1 L2 L3 L4 L5 L6 L7 L8 L9 L10 L11]. unfold std_file.
  rewrite read_header_written; try assumption.
  - rewrite fields_sem_inert by assumption.
    rewrite std_fields_sem by lia.
    apply std_finish; try assumption.
    destruct order as [o|]; [destruct L7; assumption | assumption].
  - apply Forall_app. split; [assumption|].
    apply std_fields_good; try lia. destruct order; [assumption | exact I].
Qed.

Lemma std_file_read bs hs pre c size order chans count rate filler data dt :
  layout hs pre c size order chans count rate filler ->
  sphere_read_bs bs (std_file hs pre c size order chans count rate filler data) dt
  = copy_samples bs (std_header c size order chans count rate) dt data.
Proof. intros L. unfold sphere_read_bs. now rewrite std_file_header. Qed.

(* the layout conditions are satisfiable: a 1024-byte header with one extra field *)
Example layout_example :
  let pre := [(asc "database_id", asc "-s5", [asc "TIMIT"])] in
  let txt := header_text 1024 (pre ++ std_fields Pcm 2 (Some (asc "01")) 3 2731 16000) in
  layout 1024 pre Pcm 2 (Some (asc "01")) 3 2731 16000 (zrepeat 32 (1024 - len txt)).
Proof.
  cbv zeta. constructor; try (vm_compute; (reflexivity || discriminate)); try lia.
  - constructor; [|constructor]. split; [|split; [|constructor; [|constructor]]]; apply good_tokenb_ok; reflexivity.
  - constructor; [|constructor]. split; [vm_compute; reflexivity | intros H; vm_compute in H; discriminate].
  - apply good_tokenb_ok. reflexivity.
Qed.

(* ================================================================== *)
(** * The property's clauses on whole files read with any positive read size *)

Section WholeFile.
  Variables (bs hs : Z) (pre : list fieldspec) (chans count rate : Z) (filler : bytes).
  Hypothesis Hbs : 0 < bs.


  Lemma order_name_be be : bytes_eqb (order_name be) big_endian_tag = be.
  Proof. destruct be; reflexivity. Qed.

  Lemma order_name_good be : good_token (order_name be).
  Proof. destruct be; apply good_tokenb_ok; reflexivity. Qed.


  Lemma cast_int16_id v : int16_range v -> cast int16 v = v.
  Proof.
    unfold int16_range, cast, int16, wrap_signed. cbn [dk dsize]. intros H.
    change (2 ^ (8 * 2)) with 65536. change (2 ^ (8 * 2 - 1)) with 32768.
    destruct (Z.lt_ge_cases v 0).
    - replace (v mod 65536) with (v + 65536) by (apply Z.mod_unique with (q := -1); lia).
      destruct (Z.ltb_spec (v + 65536) 32768); lia.
    - rewrite Z.mod_small by lia. destruct (Z.ltb_spec v 32768); lia.
  Qed.

  Lemma map_cast_int16_id l : Forall int16_range l -> map (cast int16) l = l.
  Proof. induction 1; simpl; [reflexivity|]. now rewrite cast_int16_id, IHForall. Qed.

  (* ---- 16-bit PCM, either byte order, default dtype *)
  Lemma pcm16_file_roundtrip_l be samples extra :
    layout hs pre Pcm 2 (Some (order_name be)) chans count rate filler ->
    len samples = count * chans -> Forall int16_range samples ->
    sphere_read_bs bs
      (std_file hs pre Pcm 2 (Some (order_name be)) chans count rate filler
                (encode_items 2 be samples ++ extra)) None
    = Decoded false int16 (shape_of count chans) (map Some samples).
  Proof.
    intros L Ls HR. rewrite std_file_read by assumption. destruct L.
    set (h := std_header Pcm 2 (Some (order_name be)) chans count rate).
    assert (HP : params_of h None = Some
              {| p_coding := Pcm; p_size := 2; p_count := count; p_chans := chans; p_bits := 16; p_signed := true;
                 p_be := be; p_convert := false; p_short := false; p_dtype := int16 |}).
    { unfold params_of, h, std_header. cbn [h_size h_coding h_count h_chans h_order h_short].
      destruct in_types_values as (_ & V2 & _). rewrite V2. cbn [is_law]. rewrite order_name_be.
      reflexivity. }
    unfold copy_samples.
    rewrite (pcm_roundtrip_l h None _ HP) with (samples := samples) (extra := extra);
      cbn [h_chans h_count h_short h_size h std_header p_convert p_signed p_be p_dtype]; try lia; try reflexivity.
    all: try (apply chunk_nonempty; assumption); try (apply chunk_concat; assumption); try assumption.
    - now rewrite map_cast_int16_id.
    - eapply Forall_impl; [|exact HR]. unfold in_range, int16_range. cbn. lia.
  Qed.

  (* ---- 16-bit PCM into any requested dtype: the stored samples, cast *)
  Lemma pcm16_file_any_dtype_l be d samples extra :
    layout hs pre Pcm 2 (Some (order_name be)) chans count rate filler ->
    len samples = count * chans -> Forall int16_range samples ->
    sphere_read_bs bs
      (std_file hs pre Pcm 2 (Some (order_name be)) chans count rate filler
                (encode_items 2 be samples ++ extra)) (Some d)
    = Decoded false d (shape_of count chans) (map Some (map (cast d) samples)).
  Proof.
    intros L Ls HR. rewrite std_file_read by assumption. destruct L.
    set (h := std_header Pcm 2 (Some (order_name be)) chans count rate).
    assert (HP : params_of h (Some d) = Some
              {| p_coding := Pcm; p_size := 2; p_count := count; p_chans := chans; p_bits := 16; p_signed := true;
                 p_be := be; p_convert := false; p_short := false; p_dtype := d |}).
    { unfold params_of, h, std_header. cbn [h_size h_coding h_count h_chans h_order h_short].
      destruct in_types_values as (_ & V2 & _). rewrite V2. rewrite order_name_be.
      unfold convert_rule. change (is_law Pcm) with false. rewrite andb_false_r. reflexivity. }
    unfold copy_samples.
    rewrite (pcm_roundtrip_l h (Some d) _ HP) with (samples := samples) (extra := extra);
      cbn [h_chans h_count h_short h_size h std_header p_convert p_signed p_be p_dtype]; try lia; try reflexivity.
    all: try (apply chunk_nonempty; assumption); try (apply chunk_concat; assumption); try assumption.
    eapply Forall_impl; [|exact HR]. unfold in_range, int16_range. cbn. lia.
  Qed.

  (* ---- truncated 16-bit PCM: warning, only the complete frames present *)
  Lemma pcm16_file_truncated_l be samples partial n :
    layout hs pre Pcm 2 (Some (order_name be)) chans count rate filler ->
    0 <= n < count -> len samples = n * chans -> len partial < chans * 2 -> Forall int16_range samples ->
    sphere_read_bs bs
      (std_file hs pre Pcm 2 (Some (order_name be)) chans count rate filler
                (encode_items 2 be samples ++ partial)) None
    = Decoded true int16 (shape_of n chans) (map Some samples).
  Proof.
    intros L Hn Ls Lp HR. rewrite std_file_read by assumption. destruct L.
    set (h := std_header Pcm 2 (Some (order_name be)) chans count rate).
    assert (HP : params_of h None = Some
              {| p_coding := Pcm; p_size := 2; p_count := count; p_chans := chans; p_bits := 16; p_signed := true;
                 p_be := be; p_convert := false; p_short := false; p_dtype := int16 |}).
    { unfold params_of, h, std_header. cbn [h_size h_coding h_count h_chans h_order h_short].
      destruct in_types_values as (_ & V2 & _). rewrite V2. cbn [is_law]. rewrite order_name_be.
      reflexivity. }
    unfold copy_samples.
    rewrite (truncated_l h None _ HP) with (samples := samples) (partial := partial) (n := n);
      cbn [h_chans h_count h_short h_size h std_header p_convert p_signed p_be p_dtype]; try lia; try reflexivity.
    all: try (apply chunk_nonempty; assumption); try (apply chunk_concat; assumption); try assumption.
    - now rewrite map_cast_int16_id.
    - eapply Forall_impl; [|exact HR]. unfold in_range, int16_range. cbn. lia.
  Qed.

  (* ---- mu-law / A-law *)

  Lemma law_params c order d :
    c <> Pcm ->
    params_of (std_header c 1 order chans count rate) d = Some
      {| p_coding := c; p_size := 1; p_count := count; p_chans := chans; p_bits := 8; p_signed := false;
         p_be := match order with Some o => bytes_eqb o big_endian_tag | None => false end;
         p_convert := 1 <? dsize (match d with Some x => x | None => int16 end);
         p_short := false; p_dtype := match d with Some x => x | None => int16 end |}.
  Proof.
    intros Hc. unfold params_of, std_header. cbn [h_size h_coding h_count h_chans h_order h_short].
    destruct in_types_values as (V1 & _). rewrite V1.
    assert (IL : is_law c = true) by (destruct c; [contradiction | reflexivity | reflexivity]).
    unfold convert_rule. rewrite IL, andb_true_r. destruct d; reflexivity.
  Qed.

  Lemma law_file_l c order d codes tail n :
    c <> Pcm ->
    layout hs pre c 1 order chans count rate filler ->
    0 <= n <= count -> len codes = n * chans -> (n = count \/ len tail < chans) ->
    Forall byte_range codes ->
    let dty := match d with Some x => x | None => int16 end in
    sphere_read_bs bs (std_file hs pre c 1 order chans count rate filler (codes ++ tail)) d
    = Decoded (negb (n =? count)) dty (shape_of n chans)
        (map Some (map (cast dty) (if 1 <? dsize dty then map (expand c) codes else codes))).
  Proof.
    intros Hc L Hn Lc Ht HR dty. rewrite std_file_read by assumption. destruct L.
    unfold copy_samples.
    rewrite (law_outcome _ d _ (law_params c order d Hc)) with (codes := codes) (tail := tail) (n := n);
      cbn [h_chans h_count h_short h_size h_coding std_header p_dtype]; try lia; try reflexivity; try assumption.
    all: try (apply chunk_nonempty; assumption); try (apply chunk_concat; assumption).
  Qed.

  Lemma expand_int16 c v : c <> Pcm -> byte_range v -> int16_range (expand c v).
  Proof.
    intros Hc Hv. destruct (g711_range_l v Hv) as [U A]. unfold int16_range.
    destruct c; [contradiction | exact U | exact A].
  Qed.

  (* default dtype: expanded to 16-bit PCM by the G.711 formulas *)
  Lemma law_file_expanded_l c order codes extra :
    c <> Pcm ->
    layout hs pre c 1 order chans count rate filler ->
    len codes = count * chans -> Forall byte_range codes ->
    sphere_read_bs bs (std_file hs pre c 1 order chans count rate filler (codes ++ extra)) None
    = Decoded false int16 (shape_of count chans) (map Some (map (expand c) codes)).
  Proof.
    intros Hc L Lc HR. destruct L as [? ? ? ? ? ? ? ? ? Hcount ?] eqn:EL.
    rewrite (law_file_l c order None codes extra count Hc) by (auto; lia).
    cbv zeta. rewrite Z.eqb_refl. cbn [negb int16 dsize]. change (1 <? 2) with true. cbv iota.
    rewrite map_cast_int16_id; [reflexivity|].
    apply Forall_map. eapply Forall_impl; [|exact HR]. intros v Hv. now apply expand_int16.
  Qed.

  (* a 1-byte dtype: the raw codes *)

  Lemma law_file_raw_l c order codes extra :
    c <> Pcm ->
    layout hs pre c 1 order chans count rate filler ->
    len codes = count * chans -> Forall byte_range codes ->
    sphere_read_bs bs (std_file hs pre c 1 order chans count rate filler (codes ++ extra)) (Some uint8)
    = Decoded false uint8 (shape_of count chans) (map Some codes).
  Proof.
    intros Hc L Lc HR. destruct L as [? ? ? ? ? ? ? ? ? Hcount ?] eqn:EL.
    rewrite (law_file_l c order (Some uint8) codes extra count Hc) by (auto; lia).
    cbv zeta. rewrite Z.eqb_refl. cbn [negb uint8 dsize]. change (1 <? 1) with false. cbv iota.
    f_equal. f_equal. rewrite <- (map_id codes) at 2. apply map_ext_in. intros v Hv.
    rewrite Forall_forall in HR. specialize (HR v Hv). unfold byte_range in HR.
    unfold cast, wrap_unsigned, uint8. cbn [dk dsize]. change (2 ^ (8 * 1)) with 256. apply Z.mod_small. lia.
  Qed.

  (* truncated law data *)
  Lemma law_file_truncated_l c order codes partial n :
    c <> Pcm ->
    layout hs pre c 1 order chans count rate filler ->
    0 <= n < count -> len codes = n * chans -> len partial < chans -> Forall byte_range codes ->
    sphere_read_bs bs (std_file hs pre c 1 order chans count rate filler (codes ++ partial)) None
    = Decoded true int16 (shape_of n chans) (map Some (map (expand c) codes)).
  Proof.
    intros Hc L Hn Lc Lp HR.
    rewrite (law_file_l c order None codes partial n Hc) by (auto; lia).
    cbv zeta. replace (n =? count) with false by (symmetry; apply Z.eqb_neq; lia).
    cbn [negb int16 dsize]. change (1 <? 2) with true. cbv iota.
    rewrite map_cast_int16_id; [reflexivity|].
    apply Forall_map. eapply Forall_impl; [|exact HR]. intros v Hv. now apply expand_int16.
  Qed.
End WholeFile.

(* ---- the last clause: no NIST_1A header of at least 1024 bytes *)

Lemma short_file_ioerror_l file dt bs : len file < hdr_first_read -> sphere_read_bs bs file dt = Error EIO.
Proof.
  intros H. unfold sphere_read_bs, read_header. cbv zeta.
  assert (Hfr : 0 <= hdr_first_read) by (vm_compute; discriminate).
  rewrite len_take by assumption.
  replace (Z.min hdr_first_read (len file) =? hdr_first_read) with false by (symmetry; apply Z.eqb_neq; lia).
  reflexivity.
Qed.

Lemma bad_magic_ioerror_l file dt bs :
  take (len nist_magic) file <> nist_magic -> sphere_read_bs bs file dt = Error EIO.
Proof.
  intros H. unfold sphere_read_bs, read_header. cbv zeta.
  assert (T : take (len nist_magic) (take hdr_first_read file) = take (len nist_magic) file).
  { apply take_take; vm_compute; discriminate. }
  rewrite T, (bytes_eqb_neq _ _ H). now rewrite orb_true_r.
Qed.

Lemma small_header_size_ioerror_l file dt bs l z :
  nth_error (split_nl (take hdr_first_read file) []) 1 = Some l ->
  py_int (strip is_space_b l) = Some z -> z < hdr_min_size ->
  sphere_read_bs bs file dt = Error EIO.
Proof.
  intros H1 H2 H3. unfold sphere_read_bs, read_header. cbv zeta.
  destruct (negb _ || negb _); [reflexivity|].
  rewrite H1, H2. destruct (Z.ltb_spec z hdr_min_size); [reflexivity | lia].
Qed.

Lemma unparsable_header_size_ioerror_l file dt bs :
  (nth_error (split_nl (take hdr_first_read file) []) 1 = None \/
   exists l, nth_error (split_nl (take hdr_first_read file) []) 1 = Some l /\ py_int (strip is_space_b l) = None) ->
  sphere_read_bs bs file dt = Error EIO.
Proof.
  intros H. unfold sphere_read_bs, read_header. cbv zeta.
  destruct (negb _ || negb _); [reflexivity|].
  destruct H as [-> | (l & -> & ->)]; reflexivity.
Qed.

(* whatever the file, read_header never lets a ValueError / IndexError escape:
   the only error it produces is the reader's IOError, or TypeError for a header
   that lacks sample_n_bytes *)
Lemma read_header_errors_l file e : read_header file = HErr e -> e = EIO \/ e = EType.
Proof.
  unfold read_header. cbv zeta.
  destruct (negb _ || negb _); [intros H; inversion H; auto|].
  destruct (nth_error _ 1); [|intros H; inversion H; auto].
  destruct (py_int _); [|intros H; inversion H; auto].
  destruct (_ <? _); [intros H; inversion H; auto|].
  destruct (field_loop _ _); [|intros H; inversion H; auto | discriminate].
  unfold finish_header.
  destruct (hdr_reject _ _ _ _ _ _); [intros H; inversion H; auto|].
  destruct (negb _); [intros H; inversion H; auto|].
  destruct (v_count v); [|intros H; inversion H; auto].
  destruct (v_chans v); [discriminate | intros H; inversion H; auto].
Qed.

(* a declared sample count of zero is rejected *)
Lemma zero_count_ioerror_l v data : v_count v = Some 0 -> finish_header v data = HErr EIO.
Proof.
  intros H. unfold finish_header, hdr_reject.
  rewrite H; cbn [truthy_z Z.eqb negb]; rewrite ?orb_true_r; reflexivity.
Qed.

(* the read size is immaterial for a file that is not declared as shorten *)
Lemma read_size_irrelevant_l h dt data bs1 bs2 :
  0 < bs1 -> 0 < bs2 -> 1 <= h_chans h -> 0 <= h_count h -> h_short h = false ->
  copy_samples bs1 h dt data = copy_samples bs2 h dt data.
Proof.
  intros H1 H2 Hc Hn Hs. unfold copy_samples, copy_samples_chunks.
  destruct (params_of h dt) as [P|] eqn:HP; [|reflexivity].
  destruct (_ <? 0); [reflexivity|].
  assert (E : p_chans P = h_chans h /\ p_count P = h_count h /\ p_short P = h_short h /\ 0 < p_size P).
  { unfold params_of in HP. destruct (assoc_z (h_size h) in_types) as [[bits signed]|] eqn:E; [|discriminate].
    destruct (in_types_sound _ _ _ E). inversion HP; subst P; cbn. auto. }
  destruct E as (E1 & E2 & E3 & E4).
  assert (W : wf_params P) by (unfold wf_params; rewrite E1, E2; lia).
  rewrite !copy_loop_file_l by (auto; congruence). reflexivity.
Qed.

Lemma actual_read_size_l file dt : sphere_read file dt = sphere_read_bs copy_buf_size file dt /\ 0 < copy_buf_size.
Proof. split; [reflexivity | vm_compute; reflexivity]. Qed.

(* the witnesses of the two defects found while building this check now decode / fail as they should *)
Example magic_collision_decodes :
  let txt := header_text 1024 (std_fields Pcm 2 (Some (asc "01")) 1 6 16000) in
  sphere_read (std_file 1024 [] Pcm 2 (Some (asc "01")) 1 6 16000 (zrepeat 32 (1024 - len txt))
                        (encode_items 2 false [27233; 26475; 1; 2; 3; 4])) None
  = Decoded false int16 [6] (map Some [27233; 26475; 1; 2; 3; 4])
  /\ take 4 (encode_items 2 false [27233; 26475; 1; 2; 3; 4]) = shorten_magic.
Proof. vm_compute. split; reflexivity. Qed.

Example size_line_not_integer_ioerror :
  sphere_read (asc "NIST_1A" ++ [10] ++ asc "   abc" ++ [10] ++ zrepeat 32 1100) None = Error EIO /\
  sphere_read (asc "NIST_1A" ++ zrepeat 32 1100) None = Error EIO.
Proof. vm_compute. split; reflexivity. Qed.

(* the witness of defect D10 (3 channels, 2731 frames = 16386 bytes: the first
   16 KiB read ends inside a frame), evaluated on the model at the source's read size *)
Example three_channels_across_a_read_boundary :
  let samples := map (fun i => (Z.of_nat i * 7919) mod 65536 - 32768) (seq 0 (Z.to_nat (3 * 2731))) in
  let txt := header_text 1024 (std_fields Pcm 2 (Some (asc "01")) 3 2731 16000) in
  sphere_read (std_file 1024 [] Pcm 2 (Some (asc "01")) 3 2731 16000 (zrepeat 32 (1024 - len txt))
                        (encode_items 2 false samples)) None
  = Decoded false int16 [2731; 3] (map Some samples).
Proof. vm_compute. reflexivity. Qed.
