(* C12 - the G.711 tables of _sphere.py (regenerated into gen/Sphere.v) against
   the ITU-T expansion formulas: exhaustive over all 256 codes. *)
From Coq Require Import ZArith List Bool Lia.
From Verif Require Import lib.C12_Py lib.C12_ZList gen.Sphere C12.Model C12.Spec.
Import ListNotations.
Open Scope Z_scope.

Definition codes : list Z := map Z.of_nat (seq 0 256).

Lemma codes_complete : forall c, 0 <= c < 256 -> In c codes.
Proof.
  intros c H. unfold codes. apply in_map_iff. exists (Z.to_nat c). split; [lia|].
  apply in_seq. lia.
Qed.

Lemma forall_codes (P : Z -> bool) :
  forallb P codes = true -> forall c, 0 <= c < 256 -> P c = true.
Proof.
  intros H c Hc. rewrite forallb_forall in H. apply H. now apply codes_complete.
Qed.


Lemma ulaw_table_l : length ULAW2PCM = 256%nat /\ forall c, 0 <= c < 256 -> nthz ULAW2PCM c = ulaw_expand c.
Proof.
  split; [vm_compute; reflexivity|].
  intros c Hc. apply Z.eqb_eq.
  apply (forall_codes (fun c => nthz ULAW2PCM c =? ulaw_expand c)); [vm_compute; reflexivity | exact Hc].
Qed.

Lemma alaw_table_l : length ALAW2PCM = 256%nat /\ forall c, 0 <= c < 256 -> nthz ALAW2PCM c = alaw_expand c.
Proof.
  split; [vm_compute; reflexivity|].
  intros c Hc. apply Z.eqb_eq.
  apply (forall_codes (fun c => nthz ALAW2PCM c =? alaw_expand c)); [vm_compute; reflexivity | exact Hc].
Qed.

(* bit formulas = arithmetic form of the Recommendation *)
Lemma ulaw_arith_l : forall c, 0 <= c < 256 -> ulaw_expand c = ulaw_arith c.
Proof.
  intros c Hc. apply Z.eqb_eq.
  apply (forall_codes (fun c => ulaw_expand c =? ulaw_arith c)); [vm_compute; reflexivity | exact Hc].
Qed.

Lemma alaw_arith_l : forall c, 0 <= c < 256 -> alaw_expand c = alaw_arith c.
Proof.
  intros c Hc. apply Z.eqb_eq.
  apply (forall_codes (fun c => alaw_expand c =? alaw_arith c)); [vm_compute; reflexivity | exact Hc].
Qed.

(* every expanded value is a 16-bit PCM sample; the laws are odd-symmetric in
   the sign bit (mu-law has two zeros), and strictly monotone in the magnitude
   code *)
Lemma g711_range_l : forall c, 0 <= c < 256 ->
  -32768 <= ulaw_expand c <= 32767 /\ -32768 <= alaw_expand c <= 32767.
Proof.
  intros c Hc.
  assert (H : ((-32768 <=? ulaw_expand c) && (ulaw_expand c <=? 32767) &&
               (-32768 <=? alaw_expand c) && (alaw_expand c <=? 32767)) = true).
  { apply (forall_codes (fun c => (-32768 <=? ulaw_expand c) && (ulaw_expand c <=? 32767) &&
               (-32768 <=? alaw_expand c) && (alaw_expand c <=? 32767))); [vm_compute; reflexivity | exact Hc]. }
  lia.
Qed.

Lemma g711_sign_symmetry_l : forall c, 0 <= c < 128 ->
  ulaw_expand (c + 128) = - ulaw_expand c /\ alaw_expand (c + 128) = - alaw_expand c.
Proof.
  intros c Hc.
  assert (H : ((ulaw_expand (c + 128) =? - ulaw_expand c) && (alaw_expand (c + 128) =? - alaw_expand c)) = true).
  {
    assert (G := forall_codes (fun c => (128 <=? c) || ((ulaw_expand (c + 128) =? - ulaw_expand c) && (alaw_expand (c + 128) =? - alaw_expand c)))).
    specialize (G ltac:(vm_compute; reflexivity) c ltac:(lia)).
    cbv beta in G. replace (128 <=? c) with false in G by (symmetry; apply Z.leb_gt; lia). exact G. }
  lia.
Qed.

(* mu-law: codes 128..255 decode to strictly decreasing non-negative values
   (255 -> 0); A-law magnitudes increase with (code xor 0x55) *)
Lemma ulaw_monotone_l : forall c, 128 <= c < 255 -> ulaw_expand (c + 1) < ulaw_expand c.
Proof.
  intros c Hc. apply Z.ltb_lt.
  assert (G := forall_codes (fun c => negb ((128 <=? c) && (c <? 255)) || (ulaw_expand (c + 1) <? ulaw_expand c))).
  specialize (G ltac:(vm_compute; reflexivity) c ltac:(lia)).
  cbv beta in G. replace (128 <=? c) with true in G by (symmetry; apply Z.leb_le; lia).
  replace (c <? 255) with true in G by (symmetry; apply Z.ltb_lt; lia). exact G.
Qed.

Lemma alaw_monotone_l : forall a, 128 <= a < 255 ->
  alaw_expand (Z.lxor a 85) < alaw_expand (Z.lxor (a + 1) 85).
Proof.
  intros c Hc. apply Z.ltb_lt.
  assert (G := forall_codes (fun c => negb ((128 <=? c) && (c <? 255)) || (alaw_expand (Z.lxor c 85) <? alaw_expand (Z.lxor (c + 1) 85)))).
  specialize (G ltac:(vm_compute; reflexivity) c ltac:(lia)).
  cbv beta in G. replace (128 <=? c) with true in G by (symmetry; apply Z.leb_le; lia).
  replace (c <? 255) with true in G by (symmetry; apply Z.ltb_lt; lia). exact G.
Qed.

Example g711_anchor_values :
  ulaw_expand 0 = -32124 /\ ulaw_expand 127 = 0 /\ ulaw_expand 128 = 32124 /\ ulaw_expand 255 = 0 /\
  alaw_expand 42 = -32256 /\ alaw_expand 170 = 32256 /\ alaw_expand 85 = -8 /\ alaw_expand 213 = 8.
Proof. vm_compute. repeat split. Qed.
