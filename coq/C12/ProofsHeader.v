(* C12 - read_header on the bytes produced by the header writer: line splitting,
   tokenising, decimal integers, the size line, the reads of the declared header
   size, and the field loop. *)
From Coq Require Import ZArith List Bool Lia.
From Verif Require Import lib.C12_Py lib.C12_ZList gen.Sphere C12.Model C12.Spec.
Import ListNotations.
Open Scope Z_scope.

(* ---- byte-string equality *)

Lemma bytes_eqb_refl l : bytes_eqb l l = true.
Proof. induction l; simpl; [reflexivity | now rewrite Z.eqb_refl]. Qed.

Lemma bytes_eqb_eq a c : bytes_eqb a c = true -> a = c.
Proof.
  revert c; induction a as [|x a IH]; destruct c as [|y c]; simpl; intros H; try discriminate; [reflexivity|].
  apply andb_prop in H. destruct H as [H1 H2]. apply Z.eqb_eq in H1. f_equal; auto.
Qed.

Lemma bytes_eqb_neq a c : a <> c -> bytes_eqb a c = false.
Proof. intros H. destruct (bytes_eqb a c) eqn:E; [apply bytes_eqb_eq in E; contradiction | reflexivity]. Qed.

(* ---- bytes.split(b"\n") *)

Lemma split_nl_app l rest cur :
  Forall (fun c => c <> 10) l -> split_nl (l ++ rest) cur = split_nl rest (rev l ++ cur).
Proof.
  revert cur; induction l as [|c l IH]; intros cur H; [reflexivity|].
  inversion H; subst. cbn [app split_nl].
  destruct (Z.eqb_spec c 10); [contradiction|].
  rewrite IH by assumption. cbn [rev]. now rewrite <- app_assoc.
Qed.

Lemma split_nl_lines lines rest :
  Forall (Forall (fun c => c <> 10)) lines ->
  split_nl (render_lines lines ++ rest) [] = lines ++ split_nl rest [].
Proof.
  induction lines as [|l ls IH]; intros H; [reflexivity|].
  inversion H; subst. unfold render_lines in *. cbn [flat_map]. rewrite <- !app_assoc.
  rewrite split_nl_app by assumption. cbn [app split_nl]. rewrite Z.eqb_refl.
  rewrite app_nil_r, rev_involutive. cbn [app]. f_equal. now apply IH.
Qed.

(* ---- str.split() *)

Definition nospace (t : bytes) : Prop := Forall (fun c => is_space_s c = false) t.

Lemma tokens_app t rest cur : nospace t -> tokens (t ++ rest) cur = tokens rest (rev t ++ cur).
Proof.
  revert cur; induction t as [|c t IH]; intros cur H; [reflexivity|].
  inversion H as [|? ? Hc Ht]; subst. cbn [app tokens]. rewrite Hc.
  rewrite IH by assumption. cbn [rev]. now rewrite <- app_assoc.
Qed.

Lemma tokens_join toks :
  Forall (fun t => t <> [] /\ nospace t) toks -> tokens (join_sp toks) [] = toks.
Proof.
  induction toks as [|t r IH]; intros H; [reflexivity|].
  inversion H as [|? ? [Hne Hns] Hr]; subst.
  destruct r as [|t' r'].
  - cbn [join_sp]. rewrite <- (app_nil_r t) at 1. rewrite tokens_app by assumption.
    cbn [tokens]. rewrite app_nil_r.
    destruct (rev t) eqn:E; [apply (f_equal (@rev Z)) in E; rewrite rev_involutive in E; simpl in E; contradiction|].
    rewrite <- E, rev_involutive. reflexivity.
  - change (join_sp (t :: t' :: r')) with (t ++ 32 :: join_sp (t' :: r')).
    rewrite tokens_app by assumption. cbn [tokens].
    change (is_space_s 32) with true. cbv iota. rewrite app_nil_r.
    destruct (rev t) eqn:E; [apply (f_equal (@rev Z)) in E; rewrite rev_involutive in E; simpl in E; contradiction|].
    rewrite <- E, rev_involutive. f_equal. now apply IH.
Qed.

(* ---- decimal numbers *)

Definition dstep (a c : Z) : Z := 10 * a + (c - 48).
Definition dval (l : bytes) (a : Z) : Z := fold_left dstep l a.

Lemma digits_value_digits l a :
  Forall (fun c => is_digit c = true) l -> digits_value l a false = Some (dval l a).
Proof.
  revert a; induction l as [|c l IH]; intros a H; [reflexivity|].
  inversion H; subst. cbn [digits_value dval fold_left]. rewrite H2. apply IH. assumption.
Qed.

Lemma dec_digits_S f n acc :
  dec_digits (S f) n acc = if n <? 10 then (48 + n) :: acc else dec_digits f (n / 10) ((48 + n mod 10) :: acc).
Proof. reflexivity. Qed.

Lemma dec_digits_spec fuel : forall n acc,
  0 <= n < 10 ^ Z.of_nat (S fuel) ->
  Forall (fun c => is_digit c = true) acc ->
  let r := dec_digits (S fuel) n acc in
  Forall (fun c => is_digit c = true) r /\ dval r 0 = dval acc n /\ r <> [].
Proof.
  assert (Small : forall f n acc, 0 <= n < 10 -> Forall (fun c => is_digit c = true) acc ->
            let r := dec_digits (S f) n acc in
            Forall (fun c => is_digit c = true) r /\ dval r 0 = dval acc n /\ r <> []).
  { intros f n acc Hs Hacc. rewrite dec_digits_S. destruct (Z.ltb_spec n 10) as [_|]; [|lia].
    cbv zeta. split; [|split; [|discriminate]].
    - constructor; [|assumption]. unfold is_digit. apply andb_true_intro. split; apply Z.leb_le; lia.
    - unfold dval. cbn [fold_left]. replace (dstep 0 (48 + n)) with n by (unfold dstep; lia). reflexivity. }
  induction fuel as [|f IH]; intros n acc Hn Hacc.
  - apply Small; [|assumption]. change (10 ^ Z.of_nat 1) with 10 in Hn. exact Hn.
  - destruct (Z.ltb_spec n 10) as [Hs|Hb]; [apply Small; [lia | assumption]|].
    rewrite dec_digits_S. destruct (Z.ltb_spec n 10) as [|_]; [lia|].
    rewrite Nat2Z.inj_succ, Z.pow_succ_r in Hn by lia.
    assert (Hq : 0 <= n / 10 < 10 ^ Z.of_nat (S f)).
    { split; [apply Z.div_pos; lia | apply Z.div_lt_upper_bound; lia]. }
    assert (Hd : Forall (fun c => is_digit c = true) ((48 + n mod 10) :: acc)).
    { constructor; [|assumption]. pose proof (Z.mod_pos_bound n 10 ltac:(lia)).
      unfold is_digit. apply andb_true_intro. split; apply Z.leb_le; lia. }
    destruct (IH (n / 10) ((48 + n mod 10) :: acc) Hq Hd) as (R1 & R2 & R3).
    cbv zeta. split; [exact R1 | split; [|exact R3]].
    rewrite R2. unfold dval. cbn [fold_left].
    replace (dstep (n / 10) (48 + n mod 10)) with n; [reflexivity|].
    unfold dstep. pose proof (Z.div_mod n 10 ltac:(lia)). lia.
Qed.

Lemma dec_spec n : 0 <= n ->
  Forall (fun c => is_digit c = true) (dec n) /\ dval (dec n) 0 = n /\ dec n <> [].
Proof.
  intros Hn. unfold dec.
  assert (Hb : 0 <= n < 10 ^ Z.of_nat (S (Z.to_nat (Z.log2 n)))).
  { split; [assumption|]. rewrite Nat2Z.inj_succ, Z2Nat.id by apply Z.log2_nonneg.
    destruct (Z.eq_dec n 0) as [->|]; [simpl; lia|].
    pose proof (Z.log2_spec n ltac:(lia)) as [_ H].
    eapply Z.lt_le_trans; [exact H|].
    apply Z.pow_le_mono_l. pose proof (Z.log2_nonneg n). lia. }
  destruct (dec_digits_spec (Z.to_nat (Z.log2 n)) n [] Hb (Forall_nil _)) as (R1 & R2 & R3).
  auto.
Qed.

Lemma digit_not_sign c : is_digit c = true -> c <> 45 /\ c <> 43 /\ c <> 95 /\ is_space_s c = false /\ 0 <= c < 128 /\ c <> 10.
Proof.
  unfold is_digit, is_space_s, is_space_b. intros H. apply andb_prop in H. destruct H as [H1 H2].
  apply Z.leb_le in H1. apply Z.leb_le in H2.
  repeat split; lia.
Qed.

Lemma py_int_dec n : 0 <= n -> py_int (dec n) = Some n.
Proof.
  intros Hn. destruct (dec_spec n Hn) as (D1 & D2 & D3).
  destruct (dec n) as [|c r] eqn:E; [contradiction|].
  pose proof (Forall_inv D1) as H1. cbv beta in H1.
  destruct (digit_not_sign c H1) as (N1 & N2 & _).
  unfold py_int.
  assert (U : unsigned_int (c :: r) = Some n).
  { unfold unsigned_int. rewrite H1. rewrite digits_value_digits by assumption. now rewrite D2. }
  destruct c as [|p|p]; try exact U.
  repeat (destruct p as [p|p|]; try exact U; try contradiction).
Qed.

Lemma dec_good_token n : 0 <= n -> good_token (dec n).
Proof.
  intros Hn. destruct (dec_spec n Hn) as (D1 & _ & D3). split; [assumption|].
  eapply Forall_impl; [|exact D1]. intros c Hc. destruct (digit_not_sign c Hc) as (_&_&_&S&R&_). auto.
Qed.

(* ---- the size line: int() of a space-padded decimal *)

Lemma lstrip_stop f l c r : l = c :: r -> f c = false -> lstrip f l = l.
Proof. intros -> H. simpl. now rewrite H. Qed.

Lemma lstrip_spaces k l : 0 <= k -> lstrip is_space_b (zrepeat 32 k ++ l) = lstrip is_space_b l.
Proof.
  intros Hk. unfold zrepeat. induction (Z.to_nat k) as [|m IH]; [reflexivity|].
  cbn [repeat app lstrip]. change (is_space_b 32) with true. cbv iota. exact IH.
Qed.

Lemma digit_not_space_b c : is_digit c = true -> is_space_b c = false.
Proof.
  intros H. destruct (digit_not_sign c H) as (_&_&_&S&_). unfold is_space_s in S.
  apply orb_false_elim in S. tauto.
Qed.

Lemma strip_digits l : l <> [] -> Forall (fun c => is_digit c = true) l -> strip is_space_b l = l.
Proof.
  intros Hne HF. unfold strip.
  assert (L1 : forall m, m <> [] -> Forall (fun c => is_digit c = true) m -> lstrip is_space_b m = m).
  { intros m Hm Hd. destruct m as [|c r]; [contradiction|].
    eapply lstrip_stop; [reflexivity|]. apply digit_not_space_b. exact (Forall_inv Hd). }
  rewrite (L1 l Hne HF).
  rewrite L1; [apply rev_involutive | | apply Forall_rev; assumption].
  intros E. apply (f_equal (@rev Z)) in E. rewrite rev_involutive in E. simpl in E. contradiction.
Qed.

Lemma size_line_int n : 0 <= n -> py_int (strip is_space_b (size_line n)) = Some n.
Proof.
  intros Hn. destruct (dec_spec n Hn) as (D1 & D2 & D3).
  unfold size_line. cbv zeta.
  assert (S1 : strip is_space_b (zrepeat 32 (7 - len (dec n)) ++ dec n) = dec n).
  { unfold strip.
    destruct (Z.le_gt_cases 0 (7 - len (dec n))) as [Hk|Hk].
    - rewrite lstrip_spaces by assumption. apply strip_digits; assumption.
    - unfold zrepeat. replace (Z.to_nat (7 - len (dec n))) with 0%nat by lia. cbn [repeat app].
      apply strip_digits; assumption. }
  rewrite S1. now apply py_int_dec.
Qed.

Lemma size_line_no_nl n : 0 <= n -> Forall (fun c => c <> 10) (size_line n).
Proof.
  intros Hn. destruct (dec_spec n Hn) as (D1 & _). unfold size_line. cbv zeta.
  apply Forall_app. split.
  - unfold zrepeat. induction (Z.to_nat (7 - len (dec n))); simpl; constructor; [lia | assumption].
  - eapply Forall_impl; [|exact D1]. intros c Hc. now destruct (digit_not_sign c Hc) as (_&_&_&_&_&?).
Qed.

(* ---- one field line *)

Lemma good_token_nospace t : good_token t -> t <> [] /\ nospace t.
Proof. intros [H1 H2]. split; [assumption|]. eapply Forall_impl; [|exact H2]. now intros c [_ ?]. Qed.

Lemma join_sp_ascii toks :
  Forall good_token toks -> Forall (fun c => 0 <= c < 128 /\ c <> 10) (join_sp toks).
Proof.
  assert (G : forall t, good_token t -> Forall (fun c => 0 <= c < 128 /\ c <> 10) t).
  { intros t [_ H]. eapply Forall_impl; [|exact H]. intros c [R S]. split; [assumption|].
    intros ->. discriminate. }
  induction toks as [|t r IH]; intros H; [constructor|].
  inversion H; subst. destruct r as [|t' r'].
  - cbn [join_sp]. auto.
  - change (join_sp (t :: t' :: r')) with (t ++ 32 :: join_sp (t' :: r')).
    apply Forall_app. split; [auto|]. constructor; [lia|]. now apply IH.
Qed.

Lemma existsb_high_false l : Forall (fun c => 0 <= c < 128 /\ c <> 10) l -> existsb (fun c => 128 <=? c) l = false.
Proof.
  induction 1 as [|c l [Hc _] _ IH]; [reflexivity|]. cbn [existsb]. rewrite IH.
  destruct (Z.leb_spec 128 c); [lia | reflexivity].
Qed.

Lemma field_step_line v (f : fieldspec) :
  good_field f ->
  field_step v (let '(k, fmt, vals) := f in field_line k fmt vals) = field_sem v f.
Proof.
  destruct f as [[k fmt] vals]. intros (Gk & Gf & Gv). unfold field_step, field_line, field_sem.
  assert (GA : Forall good_token (k :: fmt :: vals)) by (constructor; [exact Gk | constructor; [exact Gf | exact Gv]]).
  rewrite existsb_high_false by (apply join_sp_ascii; assumption).
  rewrite tokens_join by (eapply Forall_impl; [|exact GA]; apply good_token_nospace).
  reflexivity.
Qed.

Lemma field_line_not_end (f : fieldspec) :
  bytes_eqb (let '(k, fmt, vals) := f in field_line k fmt vals) end_marker = false.
Proof.
  destruct f as [[k fmt] vals]. apply bytes_eqb_neq. intros E.
  assert (H : In 32 (field_line k fmt vals)).
  { unfold field_line. change (join_sp (k :: fmt :: vals)) with (k ++ 32 :: join_sp (fmt :: vals)).
    apply in_or_app. right. left. reflexivity. }
  rewrite E in H. revert H. vm_compute. intuition discriminate.
Qed.

Lemma field_loop_fields fields more v :
  Forall good_field fields ->
  field_loop (map (fun f : fieldspec => let '(k, fmt, vals) := f in field_line k fmt vals) fields ++ end_marker :: more) v
  = fields_sem fields v.
Proof.
  revert v; induction fields as [|f r IH]; intros v H.
  - cbn [map app field_loop fields_sem]. now rewrite bytes_eqb_refl.
  - inversion H; subst. cbn [map app field_loop fields_sem].
    rewrite field_line_not_end, field_step_line by assumption.
    destruct (field_sem v f); [now apply IH | reflexivity | reflexivity].
Qed.

(* ---- the whole header *)

Lemma field_line_no_nl (f : fieldspec) :
  good_field f -> Forall (fun c => c <> 10) (let '(k, fmt, vals) := f in field_line k fmt vals).
Proof.
  destruct f as [[k fmt] vals]. intros (Gk & Gf & Gv). unfold field_line.
  assert (GA : Forall good_token (k :: fmt :: vals)) by (constructor; [exact Gk | constructor; [exact Gf | exact Gv]]).
  eapply Forall_impl; [|apply join_sp_ascii; exact GA]. now intros c [_ ?].
Qed.

Lemma header_lines_no_nl hs fields :
  0 <= hs -> Forall good_field fields -> Forall (Forall (fun c => c <> 10)) (header_lines hs fields).
Proof.
  intros Hh HF. unfold header_lines.
  apply Forall_app; split; [|apply Forall_app; split].
  - constructor; [vm_compute; repeat constructor; discriminate|].
    constructor; [now apply size_line_no_nl | constructor].
  - apply Forall_map. eapply Forall_impl; [|exact HF]. intros f. apply field_line_no_nl.
  - constructor; [vm_compute; repeat constructor; discriminate | constructor].
Qed.

Theorem read_header_written hs fields filler data :
  hdr_first_read <= hs -> hdr_min_size <= hs ->
  Forall good_field fields ->
  len (size_line hs) + len nist_magic + 2 <= hdr_first_read ->
  len (header_text hs fields ++ filler) = hs ->
  read_header (sphere_file hs fields filler data) =
  match fields_sem fields hvars0 with
  | FEnd v => finish_header v data
  | FErr => HErr EIO
  | FUnmodelled => HUnmodelled
  end.
Proof.
  intros H1 H2 HF Hsl Hlen.
  assert (Hfr : 0 < hdr_first_read) by (vm_compute; reflexivity).
  assert (Hhs : 0 <= hs) by lia.
  unfold read_header, sphere_file. cbv zeta.
  set (file := header_text hs fields ++ filler ++ data).
  set (hdr := header_text hs fields ++ filler) in *.
  assert (Efile : file = hdr ++ data) by (unfold file, hdr; now rewrite app_assoc).
  (* the first read *)
  assert (T1 : take hdr_first_read file = take hdr_first_read hdr).
  { rewrite Efile. apply take_app_le. lia. }
  assert (L1 : len (take hdr_first_read file) = hdr_first_read).
  { rewrite T1, len_take by lia. lia. }
  rewrite L1, Z.eqb_refl. cbn [negb orb].
  (* the text starts with the two fixed lines *)
  set (rest_lines := map (fun f : fieldspec => let '(k, fmt, vals) := f in field_line k fmt vals) fields ++ [end_marker]).
  assert (Etext : header_text hs fields = (nist_magic ++ [10]) ++ (size_line hs ++ [10]) ++ render_lines rest_lines).
  { unfold header_text, header_lines, render_lines. cbn [flat_map app]. fold rest_lines.
    now rewrite <- !app_assoc. }
  set (two := (nist_magic ++ [10]) ++ (size_line hs ++ [10])).
  assert (Ltwo : len two = len nist_magic + len (size_line hs) + 2).
  { unfold two. rewrite !len_app. change (len [10]) with 1. ring. }
  assert (Ehdr : hdr = two ++ (render_lines rest_lines ++ filler)).
  { unfold hdr, two. rewrite Etext. now rewrite <- !app_assoc. }
  assert (T2 : take hdr_first_read hdr = two ++ take (hdr_first_read - len two) (render_lines rest_lines ++ filler)).
  { rewrite Ehdr. apply take_app_ge. lia. }
  (* magic *)
  assert (M : take (len nist_magic) (take hdr_first_read file) = nist_magic).
  { rewrite T1, T2. unfold two. rewrite <- !app_assoc. apply take_app_exact. }
  rewrite M, bytes_eqb_refl. cbn [negb].
  (* the size line *)
  assert (S2 : nth_error (split_nl (take hdr_first_read file) []) 1 = Some (size_line hs)).
  { assert (R2 : two = render_lines [nist_magic; size_line hs]).
    { unfold two, render_lines. cbn [flat_map]. now rewrite app_nil_r. }
    rewrite T1, T2, R2.
    - rewrite split_nl_lines; [reflexivity|].
      constructor; [vm_compute; repeat constructor; discriminate|].
      constructor; [now apply size_line_no_nl | constructor]. }
  rewrite S2, size_line_int by assumption.
  destruct (Z.ltb_spec hs hdr_min_size); [lia|].
  (* the second read completes the declared header *)
  assert (Ebuf : take hdr_first_read file ++ take (hs - hdr_first_read) (drop hdr_first_read file) = hdr).
  { rewrite <- take_drop_split by lia. replace (hdr_first_read + (hs - hdr_first_read)) with hs by ring.
    rewrite Efile, <- Hlen. apply take_app_exact. }
  rewrite Ebuf.
  assert (Edata : drop (hs - hdr_first_read) (drop hdr_first_read file) = data).
  { rewrite drop_drop by lia. replace (hdr_first_read + (hs - hdr_first_read)) with hs by ring.
    rewrite Efile, <- Hlen. apply drop_app_exact. }
  rewrite Edata.
  (* lines of the header *)
  unfold hdr at 1. unfold header_text.
  rewrite split_nl_lines by (apply header_lines_no_nl; assumption).
  unfold header_lines. cbn [app skipn]. rewrite <- app_assoc. cbn [app].
  rewrite field_loop_fields by assumption.
  destruct (fields_sem fields hvars0); reflexivity.
Qed.
