(* C12 - the read loop of copy_samples computes, for EVERY way the data section
   is delivered as a sequence of non-empty reads, the conversion of the first
   min(sample_count, complete frames present) frames - nothing dropped at a read
   boundary, nothing uninitialised.  Induction over the list of reads with the
   invariant "frames done = min(count, bytes seen / frame size), leftover = the
   bytes seen beyond those frames, array = converted frames ++ unwritten cells". *)
From Coq Require Import ZArith List Bool Lia.
From Verif Require Import lib.C12_Py lib.C12_ZList gen.Sphere C12.Model C12.Spec C12.ProofsBytes.
Import ListNotations.
Open Scope Z_scope.

(* ---- successive fixed-size reads *)

Lemma chunk_fuel_concat fuel n l :
  0 < n -> (length l <= fuel)%nat -> concat (chunk_fuel fuel n l) = l.
Proof.
  intros Hn. revert l. induction fuel as [|f IH]; intros l Hl.
  - destruct l; [reflexivity | simpl in Hl; lia].
  - destruct l as [|x r]; [reflexivity|].
    cbn [chunk_fuel concat]. rewrite IH.
    + apply take_drop.
    + pose proof (len_drop n (x :: r) ltac:(lia)) as H. unfold len in H. simpl length in *. lia.
Qed.

Lemma chunk_concat n l : 0 < n -> concat (chunk n l) = l.
Proof. intros. apply chunk_fuel_concat; [assumption | lia]. Qed.

Lemma chunk_fuel_nonempty fuel n l : 0 < n -> Forall (fun c => c <> []) (chunk_fuel fuel n l).
Proof.
  intros Hn. revert l. induction fuel as [|f IH]; intros l; [constructor|].
  destruct l as [|x r]; [constructor|]. cbn [chunk_fuel]. constructor; [|apply IH].
  unfold take. destruct (Z.to_nat n) eqn:E; [lia|]. simpl. discriminate.
Qed.

Lemma chunk_nonempty n l : 0 < n -> Forall (fun c => c <> []) (chunk n l).
Proof. intros. now apply chunk_fuel_nonempty. Qed.

(* ---- conversion through the tables distributes over concatenation *)

Lemma table_take_app tbl a b :
  table_take tbl (a ++ b) =
  match table_take tbl a, table_take tbl b with
  | Some x, Some y => Some (x ++ y)
  | _, _ => None
  end.
Proof.
  induction a as [|i a IH]; simpl.
  - destruct (table_take tbl b); reflexivity.
  - rewrite IH. destruct (table_get tbl i); [|reflexivity].
    destruct (table_take tbl a); [|reflexivity].
    destruct (table_take tbl b); reflexivity.
Qed.

Lemma table_take_length tbl a x : table_take tbl a = Some x -> length x = length a.
Proof.
  revert x; induction a as [|i a IH]; simpl; intros x H.
  - now inversion H.
  - destruct (table_get tbl i); [|discriminate].
    destruct (table_take tbl a) eqn:E; [|discriminate].
    inversion H; subst. simpl. f_equal. now apply IH.
Qed.

Lemma convert_items_app P a b :
  convert_items P (a ++ b) =
  match convert_items P a, convert_items P b with
  | Some x, Some y => Some (x ++ y)
  | _, _ => None
  end.
Proof.
  unfold convert_items. destruct (p_convert P); [|reflexivity].
  apply table_take_app.
Qed.

Lemma convert_items_length P a x : convert_items P a = Some x -> len x = len a.
Proof.
  unfold convert_items, len. destruct (p_convert P).
  - intros H; apply table_take_length in H; lia.
  - intros H; inversion H; reflexivity.
Qed.

Lemma convert_items_nil P : convert_items P [] = Some [].
Proof. unfold convert_items. destruct (p_convert P); reflexivity. Qed.

(* ---- the invariant *)


Record inv (P : params) (p : bytes) (st : lstate) (vals : list Z) : Prop := {
  inv_done : sdone st = nframes P p;
  inv_left : leftover st = drop (sdone st * frame P) p;
  inv_conv : convert_items P (decoded_prefix P p (sdone st)) = Some vals;
  inv_arr : arr st = map Some (map (cast (p_dtype P)) vals)
                     ++ zrepeat None ((p_count P - sdone st) * p_chans P) }.

Lemma frame_pos P : wf_params P -> 0 < frame P.
Proof. intros (?&?&?). unfold frame. lia. Qed.

Lemma nframes_bounds P p : wf_params P -> 0 <= nframes P p <= p_count P /\ nframes P p * frame P <= len p.
Proof.
  intros W. pose proof (frame_pos P W) as F. destruct W as (?&?&?).
  unfold nframes. pose proof (len_nonneg p).
  assert (0 <= len p / frame P) by (apply Z.div_pos; lia).
  assert (len p / frame P * frame P <= len p) by (rewrite Z.mul_comm; apply Z.mul_div_le; lia).
  split; [lia|].
  destruct (Z.min_spec (p_count P) (len p / frame P)) as [[? ->]|[? ->]]; [|lia].
  nia.
Qed.

Lemma nframes_app_full P p x : wf_params P -> nframes P p = p_count P -> nframes P (p ++ x) = p_count P.
Proof.
  intros W H. pose proof (frame_pos P W). unfold nframes in *.
  assert (len p / frame P <= len (p ++ x) / frame P).
  { apply Z.div_le_mono; [lia|]. rewrite len_app. pose proof (len_nonneg x). lia. }
  lia.
Qed.

Lemma magic_hit_aux_ge P seen cs : frame P <= seen -> magic_hit_aux P seen cs = false.
Proof.
  intros. destruct cs; [reflexivity|]. cbn [magic_hit_aux].
  destruct (Z.ltb_spec seen (frame P)); [lia | reflexivity].
Qed.

(* the initial state *)
Lemma inv_init P : wf_params P -> inv P [] (init_state P) [].
Proof.
  intros W. pose proof (frame_pos P W). destruct W as (?&?&?).
  assert (N : nframes P [] = 0).
  { unfold nframes. change (len (@nil Z)) with 0. rewrite Z.div_0_l by lia. lia. }
  constructor; cbn [init_state sdone leftover arr].
  - now rewrite N.
  - reflexivity.
  - unfold decoded_prefix. rewrite Z.mul_0_l, decode_items_zero. apply convert_items_nil.
  - simpl. f_equal. lia.
Qed.

(* when the loop stops, the invariant gives the specification *)
Lemma inv_final P p st vals rest :
  wf_params P -> inv P p st vals ->
  (rest = [] \/ sdone st = p_count P) ->
  LDone (sdone st) (arr st) = loop_spec P (p ++ rest).
Proof.
  intros W [Hd Hl Hc Ha] Hstop. pose proof (frame_pos P W) as F.
  pose proof (nframes_bounds P p W) as [B1 B2].
  assert (N : nframes P (p ++ rest) = sdone st).
  { destruct Hstop as [-> | E]; [now rewrite app_nil_r|].
    rewrite E. apply nframes_app_full; [assumption | congruence]. }
  unfold loop_spec. cbv zeta. rewrite N.
  assert (D : decoded_prefix P (p ++ rest) (sdone st) = decoded_prefix P p (sdone st)).
  { unfold decoded_prefix. destruct W as (?&?&?). apply decode_items_app; [lia | nia |].
    rewrite Hd. unfold frame in B2. lia. }
  rewrite D, Hc, Ha. reflexivity.
Qed.

(* one iteration *)
Lemma inv_step P p st vals c :
  wf_params P -> inv P p st vals -> sdone st < p_count P ->
  let inpbuf := leftover st ++ c in
  let ns0 := len inpbuf / (p_chans P * p_size P) in
  let ns := if sdone st + ns0 >? p_count P then p_count P - sdone st else ns0 in
  let items := decode_items (ns * p_chans P) (p_size P) (p_bits P) (p_signed P) (p_be P) inpbuf in
  0 <= ns /\ sdone st + ns = nframes P (p ++ c) /\
  decoded_prefix P (p ++ c) (sdone st + ns) = decoded_prefix P p (sdone st) ++ items /\
  drop (ns * p_chans P * p_size P) inpbuf = drop ((sdone st + ns) * frame P) (p ++ c).
Proof.
  intros W [Hd Hl Hc Ha] Hlt. cbv zeta.
  pose proof (frame_pos P W) as F. pose proof (nframes_bounds P p W) as [B1 B2].
  destruct W as (Wc & Ws & Wn).
  set (s := sdone st) in *. set (f := frame P) in *.
  assert (Ef : p_chans P * p_size P = f) by reflexivity. rewrite Ef.
  (* s is exactly the number of complete frames in p *)
  assert (Hs : s = len p / f) by (unfold nframes in Hd; fold f in Hd; lia).
  assert (Hsf : s * f <= len p) by (rewrite Hd; exact B2).
  assert (Hinp : leftover st ++ c = drop (s * f) (p ++ c)).
  { rewrite Hl. symmetry. apply drop_app_le. exact Hsf. }
  rewrite Hinp.
  assert (Hlen : len (drop (s * f) (p ++ c)) = len (p ++ c) - s * f).
  { rewrite len_drop by nia. rewrite len_app. pose proof (len_nonneg c). lia. }
  rewrite Hlen.
  assert (Hdiv : (len (p ++ c) - s * f) / f = len (p ++ c) / f - s).
  { replace (len (p ++ c) - s * f) with (len (p ++ c) + (- s) * f) by ring.
    rewrite Z.div_add by lia. ring. }
  rewrite Hdiv.
  set (t := len (p ++ c) / f) in *.
  assert (Hts : s <= t).
  { unfold t. rewrite Hs. apply Z.div_le_mono; [lia|]. rewrite len_app. pose proof (len_nonneg c). lia. }
  set (ns := if s + (t - s) >? p_count P then p_count P - s else t - s).
  assert (Hns : 0 <= ns /\ s + ns = nframes P (p ++ c)).
  { unfold ns, nframes. fold f. fold t. destruct (Z.gtb_spec (s + (t - s)) (p_count P)); lia. }
  destruct Hns as [Hns0 Hns1].
  assert (Htf : t * f <= len (p ++ c)) by (unfold t; rewrite Z.mul_comm; apply Z.mul_div_le; lia).
  assert (Hfit : (s + ns) * f <= len (p ++ c)).
  { assert (s + ns <= t) by (rewrite Hns1; unfold nframes; fold f; fold t; lia). nia. }
  split; [exact Hns0|]. split; [exact Hns1|]. split.
  - unfold decoded_prefix.
    replace ((s + ns) * p_chans P) with (s * p_chans P + ns * p_chans P) by ring.
    rewrite decode_items_split by nia.
    f_equal.
    + apply decode_items_app; [lia | nia |]. unfold f, frame in Hsf. lia.
    + replace (s * p_chans P * p_size P) with (s * f) by (unfold f, frame; ring). reflexivity.
  - replace (ns * p_chans P * p_size P) with (ns * f) by (unfold f, frame; ring).
    rewrite drop_drop by nia. f_equal. ring.
Qed.

(* assignment of the converted frames into the pre-allocated array *)
Lemma assign_slice_inv (A new : list Z) (g : Z -> Z) (a k m : Z) :
  len A = a -> len new = k -> 0 <= k <= m ->
  assign_slice (map Some (map g A) ++ zrepeat None m) a (map g new)
  = map Some (map g (A ++ new)) ++ zrepeat None (m - k).
Proof.
  intros HA Hnew Hk. unfold assign_slice.
  assert (L : len (map Some (map g A)) = a) by (now rewrite !len_map).
  rewrite (take_app_len a _ _ L).
  rewrite len_map, Hnew.
  rewrite drop_app_ge by (rewrite L; lia). rewrite L.
  replace (a + k - a) with k by ring.
  rewrite drop_zrepeat by lia.
  rewrite !map_app, <- app_assoc. reflexivity.
Qed.

(* ---- the loop *)

Lemma copy_loop_inv P : wf_params P ->
  forall chunks p st vals,
    Forall (fun c => c <> []) chunks ->
    inv P p st vals ->
    copy_loop P chunks st =
    if p_short P && (0 <? p_count P) && magic_hit_aux P (len p) chunks
    then LShorten else loop_spec P (p ++ concat chunks).
Proof.
  intros W. pose proof (frame_pos P W) as F.
  induction chunks as [|c cs IH]; intros p st vals Hne I.
  - (* end of file *)
    pose proof (nframes_bounds P p W) as [B1 B2].
    cbn [magic_hit_aux]. rewrite !andb_false_r.
    cbn [copy_loop concat]. destruct (sdone st <? p_count P); cbn [negb];
      apply inv_final with (vals := vals); auto.
  - inversion Hne as [|? ? Hc Hcs]; subst.
    pose proof (nframes_bounds P p W) as [B1 B2].
    cbn [copy_loop].
    destruct (Z.ltb_spec (sdone st) (p_count P)) as [Hlt|Hge]; cbn [negb].
    + (* another read *)
      destruct c as [|b c']; [congruence|].
      set (c := b :: c') in *.
      pose proof (inv_step P p st vals c W I Hlt) as S. cbv zeta in S.
      destruct S as (Hns0 & Hns1 & Hdec & Hdrop).
      assert (Hcount : (0 <? p_count P) = true) by (apply Z.ltb_lt; destruct I; lia).
      assert (Hs0 : 0 <= sdone st) by (destruct I; lia).
      rewrite Hcount, andb_true_r.
      cbn [magic_hit_aux concat].
      (* sdone = 0 exactly when fewer than a frame of bytes has been seen *)
      assert (Hzero : (sdone st =? 0) = (len p <? frame P)).
      { destruct I as [Hd _ _ _]. unfold nframes in Hd.
        assert (0 <= len p / frame P) by (apply Z.div_pos; [apply len_nonneg | lia]).
        destruct (Z.ltb_spec (len p) (frame P)) as [Hl|Hl].
        - rewrite Z.div_small in Hd by (pose proof (len_nonneg p); lia). apply Z.eqb_eq. lia.
        - assert (1 <= len p / frame P).
          { apply Z.div_le_lower_bound; lia. }
          apply Z.eqb_neq. lia. }
      rewrite Hzero.
      destruct (p_short P && (len p <? frame P) && bytes_eqb (take (len shorten_magic) c) shorten_magic) eqn:Hm.
      * (* handed to the shorten decoder *)
        apply andb_prop in Hm. destruct Hm as [Hm1 Hm3]. apply andb_prop in Hm1. destruct Hm1 as [Hm1 Hm2].
        rewrite Hm1, Hm2, Hm3. reflexivity.
      * set (ns := if sdone st + len (leftover st ++ c) / (p_chans P * p_size P) >? p_count P
                   then p_count P - sdone st
                   else len (leftover st ++ c) / (p_chans P * p_size P)) in *.
        set (items := decode_items (ns * p_chans P) (p_size P) (p_bits P) (p_signed P) (p_be P) (leftover st ++ c)) in *.
        destruct (convert_items P items) as [new|] eqn:Hconv.
        -- (* converted: write and continue *)
           destruct I as [Hd Hl Hc' Ha].
           assert (Lvals : len vals = sdone st * p_chans P).
           { rewrite (convert_items_length _ _ _ Hc'). unfold decoded_prefix.
             apply decode_items_length. destruct W; nia. }
           assert (Lnew : len new = ns * p_chans P).
           { rewrite (convert_items_length _ _ _ Hconv). unfold items.
             apply decode_items_length. destruct W; nia. }
           assert (Hle : sdone st + ns <= p_count P).
           { rewrite Hns1. unfold nframes. lia. }
           assert (Larr : len (arr st) = p_count P * p_chans P).
           { rewrite Ha, len_app, !len_map, Lvals, len_zrepeat by (destruct W; nia). ring. }
           rewrite Larr.
           replace (len new =? Z.min ((sdone st + ns) * p_chans P) (p_count P * p_chans P) - sdone st * p_chans P) with true
             by (symmetry; apply Z.eqb_eq; rewrite Lnew; destruct W as (Wc & _); rewrite Z.min_l by nia; ring).
           cbn [negb].
           rewrite (IH (p ++ c) _ (vals ++ new)); [| assumption |].
           ++ rewrite <- app_assoc, len_app.
              (* the two descriptions of "a later read starts with the magic" agree *)
              destruct (Z.ltb_spec (len p) (frame P)) as [Hl1|Hl1].
              ** rewrite andb_true_r in Hm.
                 destruct (p_short P) eqn:Hs; [|reflexivity].
                 cbn [andb] in Hm. rewrite Hm, Hcount. reflexivity.
              ** rewrite magic_hit_aux_ge by (pose proof (len_nonneg c); lia).
                 rewrite !andb_false_r. reflexivity.
           ++ constructor; cbn [sdone leftover arr].
              ** exact Hns1.
              ** exact Hdrop.
              ** rewrite Hdec, convert_items_app, Hc'. fold items. rewrite Hconv. reflexivity.
              ** rewrite Ha. rewrite (assign_slice_inv vals new (cast (p_dtype P)) (sdone st * p_chans P) (ns * p_chans P));
                   [ f_equal; f_equal; ring | exact Lvals | exact Lnew | destruct W; nia ].
        -- (* a table index out of range: so is it in the whole prefix *)
           assert (Hspec : loop_spec P (p ++ c ++ concat cs) = LErr EIndex).
           { unfold loop_spec. cbv zeta.
             set (n := nframes P (p ++ c ++ concat cs)).
             assert (Hn : sdone st + ns <= n).
             { unfold n. rewrite Hns1. unfold nframes. rewrite app_assoc.
               assert (len (p ++ c) / frame P <= len ((p ++ c) ++ concat cs) / frame P).
               { apply Z.div_le_mono; [lia|]. rewrite (len_app (p ++ c)). pose proof (len_nonneg (concat cs)). lia. }
               lia. }
             unfold decoded_prefix.
             replace (n * p_chans P) with ((sdone st + ns) * p_chans P + (n - (sdone st + ns)) * p_chans P) by ring.
             destruct W as (Wc & Ws & Wn).
             rewrite decode_items_split by nia.
             rewrite convert_items_app.
             rewrite app_assoc.
             pose proof (nframes_bounds P (p ++ c) (conj Wc (conj Ws Wn))) as [_ B3].
             rewrite decode_items_app; [| lia | nia | rewrite <- Hns1 in B3; unfold frame in B3; lia].
             fold (decoded_prefix P (p ++ c) (sdone st + ns)).
             rewrite Hdec, convert_items_app. fold items. rewrite Hconv.
             destruct (convert_items P (decoded_prefix P p (sdone st))); reflexivity. }
           rewrite Hspec.
           (* and no magic hit is reported for this split: the failing read completed a frame *)
           assert (Hpos : 0 < ns).
           { destruct (Z.eq_dec ns 0) as [Z0|]; [|lia].
             exfalso. unfold items in Hconv. rewrite Z0, Z.mul_0_l, decode_items_zero, convert_items_nil in Hconv.
             discriminate. }
           assert (Hseen : frame P <= len p + len c).
           { pose proof (nframes_bounds P (p ++ c) W) as [_ B3]. rewrite <- Hns1, len_app in B3.
             destruct I as [Hd _ _ _]. nia. }
           rewrite (magic_hit_aux_ge P (len p + len c) cs Hseen), orb_false_r.
           destruct (Z.ltb_spec (len p) (frame P)) as [Hl1|Hl1].
           ++ rewrite andb_true_r in Hm. rewrite Hm. reflexivity.
           ++ rewrite andb_false_r. reflexivity.
    + (* all promised samples are there: the loop stops before reading more *)
      assert (E : sdone st = p_count P) by (destruct I; lia).
      rewrite (inv_final P p st vals (concat (c :: cs)) W I (or_intror E)).
      replace (p_short P && (0 <? p_count P) && magic_hit_aux P (len p) (c :: cs)) with false; [reflexivity|].
      symmetry. destruct (Z.ltb_spec 0 (p_count P)); [|now rewrite andb_false_r].
      rewrite magic_hit_aux_ge; [now rewrite andb_false_r|].
      destruct I as [Hd _ _ _]. rewrite E in Hd. rewrite <- Hd in B2. nia.
Qed.
