(* C12 - the property theorems, and nothing else.  Each is closed by [exact] of a
   lemma of the Proofs*.v files; the axioms each depends on are printed beneath
   it.  All are statements about C12/Model.v over the parts regenerated from
   _sphere.py into gen/Sphere.v (tables, constants, key dispatch, header guards,
   in_type chain); the vocabulary of the statements is C12/Spec.v. *)
From Coq Require Import String ZArith List Bool.
From Verif Require Import lib.C12_Py lib.C12_ZList gen.Sphere C12.Model C12.Spec
  C12.ProofsBytes C12.ProofsG711 C12.ProofsLoop C12.Proofs C12.ProofsHeader C12.ProofsFile.
Import ListNotations.
Open Scope Z_scope.

(* ---- G.711: the literal tables of the source are the ITU-T expansion, all 256 codes *)
Theorem g711_ulaw_table :
  length ULAW2PCM = 256%nat /\ forall c, 0 <= c < 256 -> nthz ULAW2PCM c = ulaw_expand c.
Proof. exact ulaw_table_l. Qed.
Print Assumptions g711_ulaw_table.
Theorem g711_alaw_table :
  length ALAW2PCM = 256%nat /\ forall c, 0 <= c < 256 -> nthz ALAW2PCM c = alaw_expand c.
Proof. exact alaw_table_l. Qed.
Print Assumptions g711_alaw_table.
(* the bit formulas are the Recommendation's sign / segment / mantissa arithmetic *)
Theorem g711_ulaw_arith : forall c, 0 <= c < 256 -> ulaw_expand c = ulaw_arith c.
Proof. exact ulaw_arith_l. Qed.
Print Assumptions g711_ulaw_arith.
Theorem g711_alaw_arith : forall c, 0 <= c < 256 -> alaw_expand c = alaw_arith c.
Proof. exact alaw_arith_l. Qed.
Print Assumptions g711_alaw_arith.
Theorem g711_range : forall c, 0 <= c < 256 ->
  -32768 <= ulaw_expand c <= 32767 /\ -32768 <= alaw_expand c <= 32767.
Proof. exact g711_range_l. Qed.
Print Assumptions g711_range.
Theorem g711_sign_symmetry : forall c, 0 <= c < 128 ->
  ulaw_expand (c + 128) = - ulaw_expand c /\ alaw_expand (c + 128) = - alaw_expand c.
Proof. exact g711_sign_symmetry_l. Qed.
Print Assumptions g711_sign_symmetry.
Theorem g711_ulaw_monotone : forall c, 128 <= c < 255 -> ulaw_expand (c + 1) < ulaw_expand c.
Proof. exact ulaw_monotone_l. Qed.
Print Assumptions g711_ulaw_monotone.
Theorem g711_alaw_monotone : forall a, 128 <= a < 255 ->
  alaw_expand (Z.lxor a 85) < alaw_expand (Z.lxor (a + 1) 85).
Proof. exact alaw_monotone_l. Qed.
Print Assumptions g711_alaw_monotone.

(* ---- the read loop, for EVERY way the data section arrives as non-empty reads
   (all buffer sizes, short reads of pipes, any channel count / frame size):
   either the declared-shorten hand-off, or one conversion of the first
   min(sample_count, complete frames present) frames; unwritten cells stay apart *)
Theorem read_loop_any_chunking : forall P chunks,
  wf_params P -> Forall (fun c => c <> []) chunks ->
  copy_loop P chunks (init_state P) =
  if magic_hit P chunks then LShorten else loop_spec P (concat chunks).
Proof. exact copy_loop_correct_l. Qed.
Print Assumptions read_loop_any_chunking.

Theorem copy_samples_any_chunking : forall h dt P,
  params_of h dt = Some P -> 1 <= h_chans h -> 1 <= h_count h -> h_short h = false ->
  forall chunks, Forall (fun c => c <> []) chunks ->
  copy_samples_chunks h dt chunks = decoded_outcome P (concat chunks).
Proof. exact copy_any_chunking_l. Qed.
Print Assumptions copy_samples_any_chunking.

Theorem read_size_irrelevant : forall h dt data bs1 bs2,
  0 < bs1 -> 0 < bs2 -> 1 <= h_chans h -> 0 <= h_count h -> h_short h = false ->
  copy_samples bs1 h dt data = copy_samples bs2 h dt data.
Proof. exact read_size_irrelevant_l. Qed.
Print Assumptions read_size_irrelevant.

(* PCM of any supported width (1, 2, 4 bytes), either byte order, any requested
   dtype, any chunking, trailing bytes allowed: exactly the stored samples *)
Theorem pcm_roundtrip : forall h dt P,
  params_of h dt = Some P -> 1 <= h_chans h -> 1 <= h_count h -> h_short h = false ->
  forall samples extra chunks,
  p_convert P = false ->
  len samples = h_count h * h_chans h ->
  Forall (in_range (8 * h_size h) (p_signed P)) samples ->
  Forall (fun c => c <> []) chunks ->
  concat chunks = encode_items (h_size h) (p_be P) samples ++ extra ->
  copy_samples_chunks h dt chunks =
  Decoded false (p_dtype P) (shape_of (h_count h) (h_chans h)) (map Some (map (cast (p_dtype P)) samples)).
Proof. exact pcm_roundtrip_l. Qed.
Print Assumptions pcm_roundtrip.

(* fewer complete frames than promised: warning, exactly the frames present
   (a trailing partial frame is ignored, no uninitialised cell is returned) *)
Theorem truncated_returns_present : forall h dt P,
  params_of h dt = Some P -> 1 <= h_chans h -> 1 <= h_count h -> h_short h = false ->
  forall samples partial n chunks,
  p_convert P = false ->
  0 <= n < h_count h ->
  len samples = n * h_chans h ->
  len partial < h_chans h * h_size h ->
  Forall (in_range (8 * h_size h) (p_signed P)) samples ->
  Forall (fun c => c <> []) chunks ->
  concat chunks = encode_items (h_size h) (p_be P) samples ++ partial ->
  copy_samples_chunks h dt chunks =
  Decoded true (p_dtype P) (shape_of n (h_chans h)) (map Some (map (cast (p_dtype P)) samples)).
Proof. exact truncated_l. Qed.
Print Assumptions truncated_returns_present.

(* mu-law / A-law, complete or truncated, any requested dtype: expanded by the
   G.711 formulas when the dtype is wider than one byte, raw codes otherwise *)
Theorem law_roundtrip : forall h dt P,
  params_of h dt = Some P -> 1 <= h_chans h -> 1 <= h_count h -> h_short h = false ->
  h_coding h <> Pcm -> h_size h = 1 ->
  forall codes tail n chunks,
  0 <= n <= h_count h ->
  len codes = n * h_chans h ->
  (n = h_count h \/ len tail < h_chans h) ->
  Forall (fun b => 0 <= b < 256) codes ->
  Forall (fun c => c <> []) chunks ->
  concat chunks = codes ++ tail ->
  copy_samples_chunks h dt chunks =
  Decoded (negb (n =? h_count h)) (p_dtype P) (shape_of n (h_chans h))
    (map Some (map (cast (p_dtype P))
                   (if 1 <? dsize (p_dtype P) then map (expand (h_coding h)) codes else codes))).
Proof. exact law_outcome. Qed.
Print Assumptions law_roundtrip.

(* only a header that declares shorten sends data starting with the shorten
   magic to the shorten decoder (property C13) *)
Theorem shorten_dispatch : forall h dt P c cs,
  params_of h dt = Some P -> wf_params P -> 0 < p_count P -> p_short P = true ->
  Forall (fun c => c <> []) (c :: cs) -> take (len shorten_magic) c = shorten_magic ->
  copy_samples_chunks h dt (c :: cs) = Shorten.
Proof. exact shorten_dispatch_l. Qed.
Print Assumptions shorten_dispatch.

(* ---- the header: the reader recovers exactly the written fields *)
Theorem header_written_parses : forall hs fields filler data,
  hdr_first_read <= hs -> hdr_min_size <= hs ->
  Forall good_field fields ->
  len (size_line hs) + len nist_magic + 2 <= hdr_first_read ->
  len (header_text hs fields ++ filler) = hs ->
  read_header (sphere_file hs fields filler data) =
  match fields_sem fields hvars0 with
  | FEnd v => finish_header v data
  | FErr => HErr EIO
  | FUnmodelled => HUnmodelled
  end.
Proof. exact read_header_written. Qed.
Print Assumptions header_written_parses.

Theorem std_header_parses : forall hs pre c size order chans count rate filler data,
  layout hs pre c size order chans count rate filler ->
  read_header (std_file hs pre c size order chans count rate filler data)
  = HOk (std_header c size order chans count rate) data.
Proof. exact std_file_header. Qed.
Print Assumptions std_header_parses.

(* read_header raises nothing but the reader's IOError - except TypeError for a
   header without sample_n_bytes (sampsize = samptype & 3) *)
Theorem header_errors : forall file e, read_header file = HErr e -> e = EIO \/ e = EType.
Proof. exact read_header_errors_l. Qed.
Print Assumptions header_errors.

(* boundary of "any sample count": a declared count of 0 is rejected *)
Theorem zero_count_ioerror : forall v data, v_count v = Some 0 -> finish_header v data = HErr EIO.
Proof. exact zero_count_ioerror_l. Qed.
Print Assumptions zero_count_ioerror.

(* ---- whole files, any positive read size [bs], any header size [hs] >= 1024,
   any ignored extra fields, any channel and sample count >= 1 *)
Theorem pcm16_file_roundtrip : forall bs hs pre chans count rate filler,
  0 < bs -> forall be samples extra,
  layout hs pre Pcm 2 (Some (order_name be)) chans count rate filler ->
  len samples = count * chans -> Forall int16_range samples ->
  sphere_read_bs bs (std_file hs pre Pcm 2 (Some (order_name be)) chans count rate filler
                              (encode_items 2 be samples ++ extra)) None
  = Decoded false int16 (shape_of count chans) (map Some samples).
Proof. exact pcm16_file_roundtrip_l. Qed.
Print Assumptions pcm16_file_roundtrip.

Theorem pcm16_file_any_dtype : forall bs hs pre chans count rate filler,
  0 < bs -> forall be d samples extra,
  layout hs pre Pcm 2 (Some (order_name be)) chans count rate filler ->
  len samples = count * chans -> Forall int16_range samples ->
  sphere_read_bs bs (std_file hs pre Pcm 2 (Some (order_name be)) chans count rate filler
                              (encode_items 2 be samples ++ extra)) (Some d)
  = Decoded false d (shape_of count chans) (map Some (map (cast d) samples)).
Proof. exact pcm16_file_any_dtype_l. Qed.
Print Assumptions pcm16_file_any_dtype.

Theorem pcm16_file_truncated : forall bs hs pre chans count rate filler,
  0 < bs -> forall be samples partial n,
  layout hs pre Pcm 2 (Some (order_name be)) chans count rate filler ->
  0 <= n < count -> len samples = n * chans -> len partial < chans * 2 -> Forall int16_range samples ->
  sphere_read_bs bs (std_file hs pre Pcm 2 (Some (order_name be)) chans count rate filler
                              (encode_items 2 be samples ++ partial)) None
  = Decoded true int16 (shape_of n chans) (map Some samples).
Proof. exact pcm16_file_truncated_l. Qed.
Print Assumptions pcm16_file_truncated.

Theorem law_file_expanded : forall bs hs pre chans count rate filler,
  0 < bs -> forall c order codes extra,
  c <> Pcm -> layout hs pre c 1 order chans count rate filler ->
  len codes = count * chans -> Forall byte_range codes ->
  sphere_read_bs bs (std_file hs pre c 1 order chans count rate filler (codes ++ extra)) None
  = Decoded false int16 (shape_of count chans) (map Some (map (expand c) codes)).
Proof. exact law_file_expanded_l. Qed.
Print Assumptions law_file_expanded.

Theorem law_file_raw : forall bs hs pre chans count rate filler,
  0 < bs -> forall c order codes extra,
  c <> Pcm -> layout hs pre c 1 order chans count rate filler ->
  len codes = count * chans -> Forall byte_range codes ->
  sphere_read_bs bs (std_file hs pre c 1 order chans count rate filler (codes ++ extra)) (Some uint8)
  = Decoded false uint8 (shape_of count chans) (map Some codes).
Proof. exact law_file_raw_l. Qed.
Print Assumptions law_file_raw.

Theorem law_file_truncated : forall bs hs pre chans count rate filler,
  0 < bs -> forall c order codes partial n,
  c <> Pcm -> layout hs pre c 1 order chans count rate filler ->
  0 <= n < count -> len codes = n * chans -> len partial < chans -> Forall byte_range codes ->
  sphere_read_bs bs (std_file hs pre c 1 order chans count rate filler (codes ++ partial)) None
  = Decoded true int16 (shape_of n chans) (map Some (map (expand c) codes)).
Proof. exact law_file_truncated_l. Qed.
Print Assumptions law_file_truncated.

Theorem law_file_any_dtype : forall bs hs pre chans count rate filler,
  0 < bs -> forall c order d codes tail n,
  c <> Pcm -> layout hs pre c 1 order chans count rate filler ->
  0 <= n <= count -> len codes = n * chans -> (n = count \/ len tail < chans) ->
  Forall byte_range codes ->
  let dty := match d with Some x => x | None => int16 end in
  sphere_read_bs bs (std_file hs pre c 1 order chans count rate filler (codes ++ tail)) d
  = Decoded (negb (n =? count)) dty (shape_of n chans)
      (map Some (map (cast dty) (if 1 <? dsize dty then map (expand c) codes else codes))).
Proof. exact law_file_l. Qed.
Print Assumptions law_file_any_dtype.

(* the reader itself uses the read size found in the source, which is positive *)
Theorem actual_read_size : forall file dt,
  sphere_read file dt = sphere_read_bs copy_buf_size file dt /\ 0 < copy_buf_size.
Proof. exact actual_read_size_l. Qed.
Print Assumptions actual_read_size.

(* ---- no NIST_1A header of at least 1024 bytes -> IOError *)
Theorem bad_header_short_file : forall file dt bs,
  len file < hdr_first_read -> sphere_read_bs bs file dt = Error EIO.
Proof. exact short_file_ioerror_l. Qed.
Print Assumptions bad_header_short_file.
Theorem bad_header_magic : forall file dt bs,
  take (len nist_magic) file <> nist_magic -> sphere_read_bs bs file dt = Error EIO.
Proof. exact bad_magic_ioerror_l. Qed.
Print Assumptions bad_header_magic.
Theorem bad_header_small_size : forall file dt bs l z,
  nth_error (split_nl (take hdr_first_read file) []) 1 = Some l ->
  py_int (strip is_space_b l) = Some z -> z < hdr_min_size ->
  sphere_read_bs bs file dt = Error EIO.
Proof. exact small_header_size_ioerror_l. Qed.
Print Assumptions bad_header_small_size.
Theorem bad_header_unparsable_size : forall file dt bs,
  (nth_error (split_nl (take hdr_first_read file) []) 1 = None \/
   exists l, nth_error (split_nl (take hdr_first_read file) []) 1 = Some l /\ py_int (strip is_space_b l) = None) ->
  sphere_read_bs bs file dt = Error EIO.
Proof. exact unparsable_header_size_ioerror_l. Qed.
Print Assumptions bad_header_unparsable_size.
