From Coq Require Import ZArith List Bool.
From Verif Require Import lib.C12_Py lib.C12_ZList gen.Sphere C12.Model C12.ProofsG711 C12.Proofs.
Import ListNotations.
Open Scope Z_scope.

Theorem g711_ulaw_table : length ULAW2PCM = 256%nat /\ forall c, 0 <= c < 256 -> nthz ULAW2PCM c = ulaw_expand c.
Proof. exact ulaw_table_l. Qed.
Print Assumptions g711_ulaw_table.
