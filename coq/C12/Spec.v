(* C12 - vocabulary of the theorem statements (definitions only): what a
   well-formed standard file is, and what the reader is expected to return. *)
From Coq Require Import String ZArith List Bool.
From Verif Require Import lib.C12_Py lib.C12_ZList gen.Sphere C12.Model.
Import ListNotations.
Open Scope Z_scope.

(* ---- the read loop *)

Definition wf_params (P : params) : Prop := 0 < p_chans P /\ 0 < p_size P /\ 0 <= p_count P.

(* values representable in the file's sample type *)
Definition in_range (bits : Z) (signed : bool) (v : Z) : Prop :=
  if signed then - 2 ^ (bits - 1) <= v < 2 ^ (bits - 1) else 0 <= v < 2 ^ bits.
Definition int16_range (v : Z) : Prop := -32768 <= v <= 32767.
Definition byte_range (v : Z) : Prop := 0 <= v < 256.

(* (samples,) for mono, (samples, channels) otherwise *)
Definition shape_of (n chans : Z) : list Z := if chans >? 1 then [n; chans] else [n].

(* G.711 expansion of a code under the file's coding *)
Definition expand (c : coding) (v : Z) : Z :=
  match c with Pcm => v | Ulaw => ulaw_expand v | Alaw => alaw_expand v end.

(* table entry number c *)
Definition nthz (l : list Z) (c : Z) : Z := nth (Z.to_nat c) l 0.

(* the result for a data section d: the first nframes frames, converted once *)
Definition decoded_outcome (P : params) (d : bytes) : outcome :=
  let n := nframes P d in
  match convert_items P (decoded_prefix P d n) with
  | Some vals =>
      Decoded (negb (n =? p_count P)) (p_dtype P)
              (if p_chans P >? 1 then [n; p_chans P] else [n])
              (map Some (map (cast (p_dtype P)) vals))
  | None => Error EIndex
  end.

Definition uint8 : dtype := {| dk := KUint; dsize := 1 |}.

(* ---- standard files *)

Definition std_header (c : coding) (size : Z) (order : option bytes) (chans count rate : Z) : header :=
  {| h_coding := c; h_size := size; h_count := count; h_rate := Some rate; h_chans := chans;
     h_order := order; h_short := false |}.

(* header text with arbitrary ignored fields [pre] before the six standard ones,
   filler up to the declared header size [hs], then the data section *)
Definition std_file (hs : Z) (pre : list fieldspec) (c : coding) (size : Z) (order : option bytes)
           (chans count rate : Z) (filler data : bytes) : bytes :=
  sphere_file hs (pre ++ std_fields c size order chans count rate) filler data.

Definition order_name (be : bool) : bytes := if be then asc "10" else asc "01".

(* side conditions on the header layout: declared size at least 1024 and equal
   to the length of text + filler; the size line fits the first read; extra
   fields are well-formed and ignored by the reader; a byte order is given
   (mandatory for pcm); positive counts *)
Record layout (hs : Z) (pre : list fieldspec) (c : coding) (size : Z) (order : option bytes)
       (chans count rate : Z) (filler : bytes) : Prop := {
  lay_first : hdr_first_read <= hs;
  lay_min : hdr_min_size <= hs;
  lay_size_line : len (size_line hs) + len nist_magic + 2 <= hdr_first_read;
  lay_len : len (header_text hs (pre ++ std_fields c size order chans count rate) ++ filler) = hs;
  lay_pre_good : Forall good_field pre;
  lay_pre_inert : Forall inert_field pre;
  lay_order : match order with Some o => good_token o | None => c <> Pcm end;
  lay_size : 0 < size; lay_chans : 0 < chans; lay_count : 0 < count; lay_rate : 0 < rate }.
