(* C13 - the bit-level codec: every reader of Model.v is the inverse of the
   corresponding writer, for every continuation of the stream, and fails with
   EIO (IOError) on every proper prefix of what the writer produced. *)
From Coq Require Import ZArith List Bool Lia.
From Verif Require Import gen.Shorten C13.Model.
Import ListNotations.
Open Scope Z_scope.

(* ------------------------------------------------------------------ *)
(** * Parsers that invert an encoding *)

(* p is a proper prefix of e *)
Definition sprefix (p e : bits) : Prop := exists s, s <> [] /\ e = p ++ s.

(* [f] reads exactly [e], yields [v], and raises IOError on a truncated [e] *)
Definition parses {A} (f : bits -> res (A * bits)) (e : bits) (v : A) : Prop :=
  (forall t, f (e ++ t) = Ok (v, t)) /\ (forall p, sprefix p e -> f p = Err EIO).

Lemma sprefix_nil_r p : ~ sprefix p [].
Proof. intros (s & Hs & H). symmetry in H. apply app_eq_nil in H. tauto. Qed.

Lemma sprefix_app p e1 e2 :
  sprefix p (e1 ++ e2) ->
  sprefix p e1 \/ exists p2, p = e1 ++ p2 /\ sprefix p2 e2.
Proof.
  intros (s & Hs & H).
  symmetry in H. apply app_eq_app in H. destruct H as (l & [[H1 H2] | [H1 H2]]).
  - right. exists l. split; [exact H1|]. exists s. split; assumption.
  - destruct l as [|x l].
    + rewrite app_nil_r in H1. simpl in H2. subst. right. exists []. split; [now rewrite app_nil_r|].
      exists e2. split; [exact Hs|reflexivity].
    + left. exists (x :: l). split; [discriminate|]. exact H1.
Qed.

Lemma sprefix_app_l p e1 e2 : sprefix p e1 -> sprefix p (e1 ++ e2).
Proof.
  intros (s & Hs & H). exists (s ++ e2). split.
  - destruct s; [congruence|discriminate].
  - subst. now rewrite app_assoc.
Qed.

Lemma sprefix_app_r e1 p2 e2 : sprefix p2 e2 -> sprefix (e1 ++ p2) (e1 ++ e2).
Proof.
  intros (s & Hs & H). exists s. split; [exact Hs|]. subst. now rewrite app_assoc.
Qed.

Lemma sprefix_length p e : sprefix p e -> (length p < length e)%nat.
Proof.
  intros (s & Hs & ->). rewrite app_length. destruct s; [congruence|]. simpl. lia.
Qed.

Lemma parses_ret {A} (v : A) : parses (fun bs => Ok (v, bs)) [] v.
Proof.
  split; [reflexivity|]. intros p H. now apply sprefix_nil_r in H.
Qed.

Lemma parses_bind {A B} (f : bits -> res (A * bits)) (g : A -> bits -> res (B * bits))
      e1 e2 v1 v2 :
  parses f e1 v1 -> parses (g v1) e2 v2 ->
  parses (fun bs => do '(x, r) <- f bs ;; g x r) (e1 ++ e2) v2.
Proof.
  intros [F1 F2] [G1 G2]. split.
  - intros t. rewrite <- app_assoc, F1. simpl. apply G1.
  - intros p Hp. apply sprefix_app in Hp. destruct Hp as [Hp | (p2 & -> & Hp)].
    + now rewrite (F2 _ Hp).
    + rewrite F1. simpl. now apply G2.
Qed.

Lemma parses_ext {A} (f g : bits -> res (A * bits)) e v :
  (forall bs, f bs = g bs) -> parses g e v -> parses f e v.
Proof.
  intros E [G1 G2]. split; intros; rewrite E; auto.
Qed.

Lemma parses_map {A B} (f : bits -> res (A * bits)) (k : A -> B) e v :
  parses f e v -> parses (fun bs => do '(x, r) <- f bs ;; Ok (k x, r)) e (k v).
Proof.
  intros H. rewrite <- (app_nil_r e).
  apply (parses_bind f (fun x r => Ok (k x, r)) e [] v (k v) H).
  apply (parses_ret (k v)).
Qed.

Lemma parses_nonempty_fails {A} (f : bits -> res (A * bits)) e v :
  parses f e v -> e <> [] -> f [] = Err EIO.
Proof.
  intros [_ F] He. apply F. exists e. split; [exact He|reflexivity].
Qed.

(* ------------------------------------------------------------------ *)
(** * Unary part and fixed-width part *)

Lemma get_unary_spec n acc :
  parses (fun bs => get_unary bs acc) (repeat false n ++ [true]) (acc + Z.of_nat n).
Proof.
  revert acc. induction n as [|n IH]; intros acc.
  - split.
    + intros t. simpl. f_equal. f_equal. lia.
    + intros p (s & Hs & H). destruct p as [|b p].
      * reflexivity.
      * simpl in H. injection H as H1 H2. symmetry in H2. apply app_eq_nil in H2.
        destruct H2; subst; congruence.
  - destruct (IH (acc + 1)) as [I1 I2]. split.
    + intros t. simpl. rewrite I1. f_equal. f_equal. lia.
    + intros p (s & Hs & H). destruct p as [|b p]; [reflexivity|].
      simpl in H. injection H as H1 H2. subst b. simpl. apply I2.
      exists s. split; assumption.
Qed.

Lemma put_bits_length n v : length (put_bits n v) = n.
Proof.
  revert v. induction n as [|n IH]; intros v; simpl; [reflexivity|].
  rewrite app_length, IH. simpl. lia.
Qed.

Lemma get_bits_app n : forall l1 l2 acc v,
  get_bits n l1 acc = Ok (v, []) -> length l1 = n ->
  forall m acc', (forall t, get_bits m (l2 ++ t) v = Ok (acc', t)) ->
  forall t, get_bits (n + m) (l1 ++ l2 ++ t) acc = Ok (acc', t).
Proof.
  induction n as [|n IH]; intros l1 l2 acc v H L m acc' G t.
  - destruct l1; [|discriminate]. simpl in H. injection H as ->. simpl. apply G.
  - destruct l1 as [|b l1]; [discriminate|]. simpl in *. eapply IH; eauto.
Qed.

Lemma get_bits_put n : forall v acc t,
  get_bits n (put_bits n v ++ t) acc = Ok (acc * 2 ^ Z.of_nat n + v mod 2 ^ Z.of_nat n, t).
Proof.
  induction n as [|n IH]; intros v acc t.
  - simpl. rewrite Z.mod_1_r. f_equal. f_equal. lia.
  - change (put_bits (S n) v) with (put_bits n (v / 2) ++ [Z.odd v]).
    rewrite <- app_assoc.
    replace (S n) with (n + 1)%nat by lia.
    assert (H0 : get_bits n (put_bits n (v / 2)) acc
                 = Ok (acc * 2 ^ Z.of_nat n + (v / 2) mod 2 ^ Z.of_nat n, [])).
    { specialize (IH (v / 2) acc []). now rewrite app_nil_r in IH. }
    erewrite (get_bits_app n _ [Z.odd v] acc _ H0 (put_bits_length n _) 1%nat).
    + reflexivity.
    + intros t'. cbn [get_bits app]. f_equal. f_equal.
      replace (Z.of_nat (n + 1)) with (Z.of_nat n + 1) by lia.
      rewrite Z.pow_add_r by lia. change (2 ^ 1) with 2.
      set (P := 2 ^ Z.of_nat n). assert (0 < P) by (apply Z.pow_pos_nonneg; lia).
      rewrite (Z.mul_comm P 2), Z.rem_mul_r by lia.
      rewrite Zmod_odd. destruct (Z.odd v); cbn [Z.b2z]; lia.
Qed.

Lemma get_bits_short n : forall p acc, (length p < n)%nat -> get_bits n p acc = Err EIO.
Proof.
  induction n as [|n IH]; intros p acc L; [lia|].
  destruct p as [|b p]; [reflexivity|]. simpl in *. apply IH. lia.
Qed.

Lemma get_bits_spec n v acc :
  parses (fun bs => get_bits n bs acc) (put_bits n v)
         (acc * 2 ^ Z.of_nat n + v mod 2 ^ Z.of_nat n).
Proof.
  split.
  - intros t. apply get_bits_put.
  - intros p Hp. apply get_bits_short.
    apply sprefix_length in Hp. now rewrite put_bits_length in Hp.
Qed.

(* ------------------------------------------------------------------ *)
(** * uvar, var, ulong *)

Lemma uvar_roundtrip_l nbin v :
  0 <= nbin -> 0 <= v -> parses (uvar_get nbin) (uvar_put nbin v) v.
Proof.
  intros Hn Hv. unfold uvar_put, put_unary.
  assert (P : 0 < 2 ^ nbin) by (apply Z.pow_pos_nonneg; lia).
  assert (Hq : 0 <= v / 2 ^ nbin) by (apply Z.div_pos; lia).
  pose proof (parses_bind (fun bs => get_unary bs 0)
                (fun hi r => get_bits (Z.to_nat nbin) r hi)
                (repeat false (Z.to_nat (v / 2 ^ nbin)) ++ [true])
                (put_bits (Z.to_nat nbin) v)
                (0 + Z.of_nat (Z.to_nat (v / 2 ^ nbin))) v
                (get_unary_spec _ 0)) as H.
  apply H. clear H.
  pose proof (get_bits_spec (Z.to_nat nbin) v (0 + Z.of_nat (Z.to_nat (v / 2 ^ nbin)))) as G.
  replace ((0 + Z.of_nat (Z.to_nat (v / 2 ^ nbin))) * 2 ^ Z.of_nat (Z.to_nat nbin)
           + v mod 2 ^ Z.of_nat (Z.to_nat nbin)) with v in G; [exact G|].
  rewrite !Z2Nat.id by lia. rewrite Z.add_0_l, Z.mul_comm. apply Z.div_mod. lia.
Qed.

Lemma uvar_put_nonempty nbin v : uvar_put nbin v <> [].
Proof.
  unfold uvar_put, put_unary. intros H. apply app_eq_nil in H. destruct H as [H _].
  apply app_eq_nil in H. destruct H; discriminate.
Qed.

Lemma unzig_zig v : unzig (zig v) = v.
Proof.
  unfold unzig, zig. rewrite Z.shiftr_div_pow2 by lia. change (2 ^ 1) with 2.
  destruct (v <? 0) eqn:E.
  - assert (O : Z.odd (2 * (- v - 1) + 1) = true).
    { rewrite Z.add_comm, Z.odd_add_mul_2. reflexivity. }
    rewrite O. unfold Z.lnot.
    assert ((2 * (- v - 1) + 1) / 2 = - v - 1)
      by (symmetry; apply Z.div_unique with (r := 1); lia).
    lia.
  - assert (O : Z.odd (2 * v) = false) by (rewrite Z.odd_mul; reflexivity).
    rewrite O. rewrite Z.mul_comm, Z.div_mul; lia.
Qed.

Lemma zig_nonneg v : 0 <= zig v.
Proof. unfold zig. destruct (v <? 0) eqn:E; lia. Qed.

Lemma var_roundtrip_l nbin v : 0 <= nbin -> parses (var_get nbin) (var_put nbin v) v.
Proof.
  intros Hn. unfold var_put.
  pose proof (parses_map (uvar_get (nbin + 1)) unzig (uvar_put (nbin + 1) (zig v)) (zig v)) as H.
  rewrite unzig_zig in H. apply H. apply uvar_roundtrip_l; [lia|apply zig_nonneg].
Qed.

Lemma var_put_nonempty nbin v : var_put nbin v <> [].
Proof. apply uvar_put_nonempty. Qed.

Lemma nbits_of_bound v : 0 <= v -> 0 <= nbits_of v /\ v < 2 ^ nbits_of v.
Proof.
  intros Hv. unfold nbits_of. destruct (v <=? 0) eqn:E.
  - assert (v = 0) by lia. subst. simpl. lia.
  - assert (0 < v) by lia. pose proof (Z.log2_nonneg v).
    split; [lia|]. replace (Z.log2 v + 1) with (Z.succ (Z.log2 v)) by lia.
    apply Z.log2_spec. lia.
Qed.

Lemma ulong_roundtrip_l v : 0 <= v -> parses ulong_get (ulong_put v) v.
Proof.
  intros Hv. destruct (nbits_of_bound v Hv) as [Hn _].
  unfold ulong_put.
  apply (parses_bind (uvar_get c_ULONGSIZE) (fun nbit r => uvar_get nbit r)
           (uvar_put c_ULONGSIZE (nbits_of v)) (uvar_put (nbits_of v) v) (nbits_of v) v).
  - apply uvar_roundtrip_l; [unfold c_ULONGSIZE; lia|exact Hn].
  - apply uvar_roundtrip_l; assumption.
Qed.

Lemma ulong_put_nonempty v : ulong_put v <> [].
Proof.
  unfold ulong_put. intros H. apply app_eq_nil in H. destruct H as [H _].
  now apply uvar_put_nonempty in H.
Qed.

(* ------------------------------------------------------------------ *)
(** * Sequences of values *)

Lemma var_get_n_roundtrip nbin vs :
  0 <= nbin -> forallb fits32 vs = true ->
  parses (var_get_n_chk (length vs) nbin) (flat_map (var_put nbin) vs) vs.
Proof.
  intros Hn. induction vs as [|v vs IH]; intros Hf.
  - apply (parses_ret []).
  - cbn [forallb] in Hf. apply andb_true_iff in Hf. destruct Hf as [Hv Hf].
    simpl flat_map. simpl length.
    apply (parses_bind (var_get nbin)
             (fun v r => if fits32 v then
                           do '(vs, r') <- var_get_n_chk (length vs) nbin r ;; Ok (v :: vs, r')
                         else Err EUnspec)
             (var_put nbin v) (flat_map (var_put nbin) vs) v (v :: vs)).
    + now apply var_roundtrip_l.
    + eapply parses_ext; [intros bs; rewrite Hv; reflexivity|].
      apply (parses_map (var_get_n_chk (length vs) nbin) (cons v)). now apply IH.
Qed.

Lemma skip_n_roundtrip xs :
  Forall (fun x => 0 <= x) xs ->
  parses (skip_n (length xs)) (flat_map (uvar_put c_XBITESIZE) xs) tt.
Proof.
  induction 1 as [|x xs Hx _ IH].
  - apply (parses_ret tt).
  - simpl flat_map. simpl length.
    apply (parses_bind (uvar_get c_XBITESIZE) (fun _ r => skip_n (length xs) r)
             (uvar_put c_XBITESIZE x) (flat_map (uvar_put c_XBITESIZE) xs) x tt).
    + apply uvar_roundtrip_l; [unfold c_XBITESIZE; lia|exact Hx].
    + exact IH.
Qed.

(* hypotheses are satisfiable: a Rice-coded negative value with a two-bit mantissa,
   followed by arbitrary data *)
Example var_roundtrip_example :
  var_put 2 (-11) = [false; false; true; true; false; true]
  /\ var_get 2 (var_put 2 (-11) ++ [true; false]) = Ok (-11, [true; false])
  /\ var_get 2 [false; false; true; true; false] = Err EIO.
Proof. repeat split. Qed.
