(* C13 - one command of the stream: what the encoder writes for an item is read
   back by [step], which moves the decoder to the state that mirrors the
   encoder's, and [step] raises IOError on every truncation of the command. *)
From Coq Require Import ZArith List Bool Lia.
From Verif Require Import gen.Shorten C13.Model C13.Bits.
Import ListNotations.
Open Scope Z_scope.

(* ------------------------------------------------------------------ *)
(** * List facts *)

Lemma map_opt_length {A B} (f : A -> option B) l l' : map_opt f l = Some l' -> length l' = length l.
Proof.
  revert l'. induction l as [|x l IH]; intros l' H; simpl in H.
  - now injection H as <-.
  - destruct (f x); [|discriminate]. destruct (map_opt f l); [|discriminate].
    injection H as <-. simpl. f_equal. now apply IH.
Qed.

Lemma list_eqb_eq a b : list_eqb a b = true -> a = b.
Proof.
  revert b. induction a as [|x a IH]; intros [|y b] H; simpl in H; try discriminate; [reflexivity|].
  apply andb_true_iff in H. destruct H as [H1 H2]. apply Z.eqb_eq in H1. f_equal; auto.
Qed.

Lemma forallb_rev {A} (f : A -> bool) l : forallb f (rev l) = forallb f l.
Proof.
  induction l as [|x l IH]; [reflexivity|]. simpl.
  rewrite forallb_app, IH. simpl. rewrite andb_true_r. apply andb_comm.
Qed.

Lemma all_zero_repeat vs : forallb (Z.eqb 0) vs = true -> vs = repeat 0 (length vs).
Proof.
  induction vs as [|v vs IH]; [reflexivity|]. cbn [forallb length repeat]. intros H.
  apply andb_true_iff in H. destruct H as [H1 H2]. apply Z.eqb_eq in H1. subst v.
  f_equal. now apply IH.
Qed.

Lemma rev_repeat {A} (x : A) n : rev (repeat x n) = repeat x n.
Proof.
  induction n as [|n IH]; [reflexivity|]. simpl. rewrite IH.
  clear IH. induction n as [|n IH]; [reflexivity|]. simpl. now rewrite IH.
Qed.

Lemma firstn_app_exact {A} (l1 l2 : list A) n : n = length l1 -> firstn n (l1 ++ l2) = l1.
Proof.
  intros ->. rewrite firstn_app, Nat.sub_diag, firstn_all. simpl. apply app_nil_r.
Qed.

Lemma skipn_app_exact {A} (l1 l2 : list A) n : n = length l1 -> skipn n (l1 ++ l2) = l2.
Proof.
  intros ->. rewrite skipn_app, Nat.sub_diag, skipn_all. reflexivity.
Qed.

(* ------------------------------------------------------------------ *)
(** * Prediction: filling with the residuals of a sequence gives the sequence *)

Lemma resid_length pred vs : forall buf rs, resid pred buf vs = Some rs -> length rs = length vs.
Proof.
  induction vs as [|v vs IH]; intros buf rs H; simpl in H.
  - now injection H as <-.
  - destruct (pred buf); [|discriminate].
    destruct (resid pred (v :: buf) vs) eqn:E; [|discriminate].
    injection H as <-. simpl. f_equal. eapply IH; eauto.
Qed.

(* [predA] may look at a buffer whose old part differs from the encoder's, as long
   as it predicts the same thing.  Reading the residuals of a sequence rebuilds
   the sequence. *)
Lemma read_loop_parses (predA predB : list Z -> option Z) (A B : list Z) resn :
  0 <= resn ->
  (forall X, predA (X ++ A) = predB (X ++ B)) ->
  forall vs X rs, resid predB (X ++ B) vs = Some rs ->
                  forallb fits32 rs = true -> forallb fits32 vs = true ->
                  parses (read_loop (length vs) predA resn (X ++ A))
                         (flat_map (var_put resn) rs) (rev vs ++ X ++ A).
Proof.
  intros Hr HP. induction vs as [|v vs IH]; intros X rs H Hfr Hfv; simpl in H.
  - injection H as <-. apply (parses_ret (X ++ A)).
  - destruct (predB (X ++ B)) as [p|] eqn:Ep; [|discriminate].
    destruct (resid predB (v :: X ++ B) vs) as [rs'|] eqn:E; [|discriminate].
    injection H as <-.
    cbn [forallb] in Hfr, Hfv. apply andb_true_iff in Hfr, Hfv.
    destruct Hfr as [Hr1 Hr2]. destruct Hfv as [Hv1 Hv2].
    cbn [flat_map length].
    apply (parses_bind (var_get resn)
             (fun r b => if fits32 r then
                           match predA (X ++ A) with
                           | Some p => if fits32 (r + p)
                                       then read_loop (length vs) predA resn ((r + p) :: X ++ A) b
                                       else Err EUnspec
                           | None => Err EUnspec
                           end
                         else Err EUnspec)
             (var_put resn (v - p)) (flat_map (var_put resn) rs') (v - p) (rev (v :: vs) ++ X ++ A)).
    + now apply var_roundtrip_l.
    + eapply parses_ext.
      { intros b. rewrite Hr1, HP, Ep. replace (v - p + p) with v by lia. rewrite Hv1. reflexivity. }
      cbn [rev]. rewrite <- app_assoc. cbn [app].
      exact (IH (v :: X) rs' E Hr2 Hv2).
Qed.

Lemma read_loop_resid pred resn vs buf rs :
  0 <= resn -> resid pred buf vs = Some rs ->
  forallb fits32 rs = true -> forallb fits32 vs = true ->
  parses (read_loop (length vs) pred resn buf) (flat_map (var_put resn) rs) (rev vs ++ buf).
Proof.
  intros Hr H Hfr Hfv.
  pose proof (read_loop_parses pred pred [] [] resn Hr (fun X => eq_refl) vs buf rs) as G.
  rewrite !app_nil_r in G. now apply G.
Qed.

Lemma dot_app qs : forall X A, (length qs <= length X)%nat -> dot qs (X ++ A) = dot qs X.
Proof.
  induction qs as [|q qs IH]; intros X A L; [reflexivity|].
  destruct X as [|x X]; [simpl in L; lia|]. simpl. rewrite IH; [reflexivity|simpl in L; lia].
Qed.

Lemma pred_qlpc_app o qs X A B :
  (length qs <= length X)%nat -> pred_qlpc o qs (X ++ A) = pred_qlpc o qs (X ++ B).
Proof.
  intros L. unfold pred_qlpc. now rewrite !dot_app.
Qed.

(* the decoder subtracts coffset from the nlpc latest history samples only *)
Lemma read_loop_qlpc_partial o qs c hist vs rs resn :
  0 <= resn ->
  resid (pred_qlpc o qs) (map (fun x => x - c) hist) vs = Some rs ->
  forallb fits32 rs = true -> forallb fits32 vs = true ->
  let k := length qs in
  let hist' := map (fun x => x - c) (firstn k hist) ++ skipn k hist in
  parses (read_loop (length vs) (pred_qlpc o qs) resn hist')
         (flat_map (var_put resn) rs) (rev vs ++ hist').
Proof.
  intros Hr H Hfr Hfv k hist'. subst hist'.
  destruct (Nat.le_gt_cases k (length hist)) as [L | L].
  - rewrite <- (firstn_skipn k hist) in H at 1. rewrite map_app in H.
    set (P := map (fun x => x - c) (firstn k hist)) in *.
    assert (LP : length P = k) by (unfold P; rewrite map_length, firstn_length; lia).
    assert (HP : forall X, pred_qlpc o qs (X ++ P ++ skipn k hist)
                           = pred_qlpc o qs (X ++ P ++ map (fun x => x - c) (skipn k hist))).
    { intros X. rewrite !app_assoc. apply pred_qlpc_app. rewrite app_length. unfold k in LP. lia. }
    pose proof (read_loop_parses (fun b => pred_qlpc o qs b) (fun b => pred_qlpc o qs b)
                  (P ++ skipn k hist) (P ++ map (fun x => x - c) (skipn k hist)) resn Hr HP vs [] rs) as G.
    simpl in G. apply G; assumption.
  - rewrite firstn_all2 by lia. rewrite skipn_all2 by lia. rewrite app_nil_r.
    now apply read_loop_resid.
Qed.

Lemma map_add_sub c l : map (fun x => x + c) (map (fun x => x - c) l) = l.
Proof.
  rewrite map_map. rewrite <- (map_id l) at 2. apply map_ext. intros; lia.
Qed.

(* ------------------------------------------------------------------ *)
(** * The command codes (facts about the generated constants) *)

Lemma diff_cases k : (k <? 0) || (3 <? k) = false -> k = 0 \/ k = 1 \/ k = 2 \/ k = 3.
Proof. intros H. apply orb_false_iff in H. lia. Qed.

Lemma diff_codes k : k = 0 \/ k = 1 \/ k = 2 \/ k = 3 ->
  0 <= cmd_of_diff k
  /\ (cmd_of_diff k =? c_FN_QUIT) = false
  /\ mem (cmd_of_diff k) g_block_cmds = true
  /\ (cmd_of_diff k =? c_FN_ZERO) = false
  /\ is_diff (cmd_of_diff k) = true.
Proof. intros [-> | [-> | [-> | ->]]]; repeat split; discriminate. Qed.

Lemma qlpc_codes :
  0 <= c_FN_QLPC
  /\ (c_FN_QLPC =? c_FN_QUIT) = false
  /\ mem c_FN_QLPC g_block_cmds = true
  /\ (c_FN_QLPC =? c_FN_ZERO) = false
  /\ is_diff c_FN_QLPC = false.
Proof. repeat split; discriminate. Qed.

Lemma zero_codes :
  0 <= c_FN_ZERO
  /\ (c_FN_ZERO =? c_FN_QUIT) = false
  /\ mem c_FN_ZERO g_block_cmds = true.
Proof. repeat split; discriminate. Qed.

Lemma ctl_codes :
  0 <= c_FN_BLOCKSIZE /\ (c_FN_BLOCKSIZE =? c_FN_QUIT) = false /\ mem c_FN_BLOCKSIZE g_block_cmds = false
  /\ 0 <= c_FN_BITSHIFT /\ (c_FN_BITSHIFT =? c_FN_QUIT) = false /\ mem c_FN_BITSHIFT g_block_cmds = false
  /\ (c_FN_BITSHIFT =? c_FN_BLOCKSIZE) = false
  /\ 0 <= c_FN_QUIT.
Proof. repeat split; discriminate. Qed.

Lemma width_nonneg :
  0 <= c_FNSIZE /\ 0 <= c_ENERGYSIZE /\ 0 <= c_LPCQSIZE /\ 0 <= c_LPCQUANT
  /\ 0 <= c_BITSHIFTSIZE /\ 0 <= c_ULONGSIZE /\ 0 <= c_XBITESIZE.
Proof. repeat split; discriminate. Qed.

(* ------------------------------------------------------------------ *)
(** * Encoder and decoder states that mirror each other *)

Definition sim (es : estate) (st : dstate) : Prop :=
  d_bs st = e_bs es /\ d_shift st = e_shift es /\ d_chans st = e_chans es
  /\ length (d_pend st) = e_chan es.

(* the decoder state after the block whose samples are [samples] *)
Definition next_st (dt : dtype) (h : hdr) (st : dstate) (chans' : list chan_st) (samples : list Z)
  : dstate :=
  let pend' := d_pend st ++ [samples] in
  if Z.of_nat (length (d_pend st)) =? h_nchan h - 1 then
    mkD (d_bs st) (d_shift st) chans' []
        (d_out st ++ map (out_item dt h) (interleave (length samples) pend'))
  else mkD (d_bs st) (d_shift st) chans' pend' (d_out st).

Lemma parses_pure {A B} (m : res A) (a : A) (k : A -> B) :
  m = Ok a -> parses (fun bs => do x <- m ;; Ok (k x, bs)) [] (k a).
Proof. intros ->. apply (parses_ret (k a)). Qed.

Section Block.
Variables (dt : dtype) (h : hdr).

(* what the encoder's checks establish, and what the decoder needs, for one block *)
Lemma finish_block_ok st c vs samples hist' off' :
  nth_error (d_chans st) (length (d_pend st)) = Some c ->
  Z.of_nat (length samples) = d_bs st ->
  length vs = length samples ->
  forallb fits32 vs = true ->
  mean_update h (d_bs st) (d_shift st) (c_off c) (rev vs) = Some off' ->
  map_opt (fix_sample (h_ftype h) (d_shift st)) vs = Some samples ->
  finish_block dt h st c (rev vs ++ hist')
  = Ok (next_st dt h st
          (upd_nth (length (d_pend st))
                   (mkChan (firstn (Z.to_nat (nwrap_of h)) (rev vs ++ hist')) off') (d_chans st))
          samples).
Proof.
  intros Hc Hn Hl Hf Hm Hx. unfold finish_block, next_st.
  assert (N : Z.to_nat (d_bs st) = length (rev vs)) by (rewrite rev_length, Hl; lia).
  rewrite (firstn_app_exact (rev vs) hist' _ N).
  rewrite forallb_rev, Hf. simpl negb. cbv iota.
  rewrite Hm. simpl of_option. unfold bind at 1.
  rewrite rev_involutive, Hx. simpl of_option. unfold bind at 1.
  rewrite rev_length in N. rewrite N, Hl.
  destruct (Z.of_nat (length (d_pend st)) =? h_nchan h - 1); reflexivity.
Qed.

End Block.

(* ------------------------------------------------------------------ *)
(** * Reading one block *)

Section Read.
Variables (dt : dtype) (h : hdr).

Lemma read_resn_zero : parses (read_resn c_FN_ZERO) [] 0.
Proof.
  apply parses_ext with (g := fun bs => Ok (0, bs)); [|apply (parses_ret 0)].
  intros bs. unfold read_resn. now rewrite Z.eqb_refl.
Qed.

Lemma read_resn_other cmd resn :
  (cmd =? c_FN_ZERO) = false -> 0 <= resn ->
  parses (read_resn cmd) (uvar_put c_ENERGYSIZE resn) resn.
Proof.
  intros E Hr.
  apply parses_ext with (g := uvar_get c_ENERGYSIZE).
  - intros bs. unfold read_resn. now rewrite E.
  - apply uvar_roundtrip_l; [apply width_nonneg|exact Hr].
Qed.

Lemma read_fill_zero c n resn co :
  parses (read_fill h c n c_FN_ZERO resn co) [] (repeat 0 n ++ c_hist c).
Proof.
  apply parses_ext with (g := fun bs => Ok (repeat 0 n ++ c_hist c, bs)); [|apply parses_ret].
  intros bs. unfold read_fill. now rewrite Z.eqb_refl.
Qed.

Lemma read_fill_diff c k resn co vs rs :
  k = 0 \/ k = 1 \/ k = 2 \/ k = 3 -> 0 <= resn ->
  resid (fun bf => Some (pred_diff (cmd_of_diff k) co bf)) (c_hist c) vs = Some rs ->
  forallb fits32 rs = true -> forallb fits32 vs = true ->
  parses (read_fill h c (length vs) (cmd_of_diff k) resn co)
         (flat_map (var_put resn) rs) (rev vs ++ c_hist c).
Proof.
  intros Hk Hr Hres Hf Hfv.
  destruct (diff_codes k Hk) as (_ & _ & _ & Ez & Ed).
  eapply parses_ext.
  { intros bs. unfold read_fill. rewrite Ez, Ed. reflexivity. }
  now apply read_loop_resid.
Qed.

Lemma read_fill_qlpc c resn co qs vs rs :
  0 <= resn ->
  (h_maxnlpc h <? Z.of_nat (length qs)) = false ->
  forallb fits32 qs = true ->
  forallb fits32 (map (fun x => x - co) (firstn (length qs) (c_hist c))) = true ->
  resid (pred_qlpc (lpcqoffset_of h) qs) (map (fun x => x - co) (c_hist c))
        (map (fun x => x - co) vs) = Some rs ->
  forallb fits32 rs = true -> forallb fits32 (map (fun x => x - co) vs) = true ->
  let k := length qs in
  let hist' := map (fun x => x - co) (firstn k (c_hist c)) ++ skipn k (c_hist c) in
  parses (read_fill h c (length vs) c_FN_QLPC resn co)
         (uvar_put c_LPCQSIZE (Z.of_nat (length qs)) ++ flat_map (var_put c_LPCQUANT) qs
          ++ flat_map (var_put resn) rs)
         (rev vs ++ hist').
Proof.
  intros Hr Hm Hq Hsh Hres Hf Hfv k hist'.
  destruct qlpc_codes as (_ & _ & _ & Ez & Ed).
  eapply parses_ext.
  { intros bs. unfold read_fill. rewrite Ez, Ed. reflexivity. }
  eapply (parses_bind (uvar_get c_LPCQSIZE)).
  { apply uvar_roundtrip_l; [apply width_nonneg|lia]. }
  cbv beta. rewrite Hm, Nat2Z.id.
  eapply (parses_bind (var_get_n_chk (length qs) c_LPCQUANT)).
  { apply var_get_n_roundtrip; [apply width_nonneg|exact Hq]. }
  cbv beta zeta. rewrite Hsh.
  pose proof (read_loop_qlpc_partial (lpcqoffset_of h) qs co (c_hist c) _ rs resn Hr Hres Hf Hfv) as HF.
  cbv zeta in HF. rewrite map_length in HF.
  set (F := fun buf : list Z => map (fun x => x + co) (firstn (length vs) buf) ++ skipn (length vs) buf).
  assert (EV : F (rev (map (fun x => x - co) vs) ++ hist') = rev vs ++ hist').
  { unfold F.
    rewrite (firstn_app_exact (rev (map (fun x => x - co) vs))) by (now rewrite rev_length, map_length).
    rewrite (skipn_app_exact (rev (map (fun x => x - co) vs))) by (now rewrite rev_length, map_length).
    now rewrite <- map_rev, map_add_sub. }
  rewrite <- EV.
  exact (parses_map _ F _ _ HF).
Qed.

Lemma dec_block_parses st c cmd enc_resn resn enc_body buf st' :
  nth_error (d_chans st) (length (d_pend st)) = Some c ->
  parses (read_resn cmd) enc_resn resn ->
  parses (read_fill h c (Z.to_nat (d_bs st)) cmd resn (coffset_of h (d_shift st) (c_off c)))
         enc_body buf ->
  finish_block dt h st c buf = Ok st' ->
  parses (dec_block dt h st cmd) (enc_resn ++ enc_body) st'.
Proof.
  intros Hc H1 H2 H3.
  eapply parses_ext.
  { intros bs. unfold dec_block. rewrite Hc. reflexivity. }
  eapply (parses_bind (read_resn cmd)); [exact H1|].
  cbv beta zeta.
  rewrite <- (app_nil_r enc_body).
  eapply (parses_bind (read_fill _ _ _ _ _ _)); [exact H2|].
  cbv beta. rewrite H3. simpl. apply (parses_ret st').
Qed.

Lemma step_block st cmd enc st' :
  0 <= cmd -> (cmd =? c_FN_QUIT) = false -> mem cmd g_block_cmds = true ->
  parses (dec_block dt h st cmd) enc st' ->
  parses (step dt h st) (uvar_put c_FNSIZE cmd ++ enc) (SCont st').
Proof.
  intros H0 Hq Hm H.
  eapply (parses_bind (uvar_get c_FNSIZE)).
  { apply uvar_roundtrip_l; [apply width_nonneg|exact H0]. }
  cbv beta. rewrite Hq, Hm.
  apply (parses_map (dec_block dt h st cmd) SCont). exact H.
Qed.

Lemma step_quit st : parses (step dt h st) (uvar_put c_FNSIZE c_FN_QUIT) SQuit.
Proof.
  rewrite <- (app_nil_r (uvar_put _ _)).
  eapply (parses_bind (uvar_get c_FNSIZE)).
  { apply uvar_roundtrip_l; [apply width_nonneg|apply ctl_codes]. }
  cbv beta. rewrite Z.eqb_refl. apply (parses_ret SQuit).
Qed.

Lemma step_blocksize st n :
  0 <= n -> (h_cap h <? n) = false -> d_pend st = [] ->
  parses (step dt h st) (uvar_put c_FNSIZE c_FN_BLOCKSIZE ++ ulong_put n)
         (SCont (mkD n (d_shift st) (d_chans st) (d_pend st) (d_out st))).
Proof.
  intros Hn Hc Hp.
  destruct ctl_codes as (B0 & Bq & Bm & _).
  eapply (parses_bind (uvar_get c_FNSIZE)).
  { apply uvar_roundtrip_l; [apply width_nonneg|exact B0]. }
  cbv beta. rewrite Bq, Bm, Z.eqb_refl.
  rewrite <- (app_nil_r (ulong_put n)).
  eapply (parses_bind ulong_get); [now apply ulong_roundtrip_l|].
  cbv beta. rewrite Hc, Hp. simpl. apply parses_ret.
Qed.

Lemma step_bitshift st s :
  0 <= s ->
  parses (step dt h st) (uvar_put c_FNSIZE c_FN_BITSHIFT ++ uvar_put c_BITSHIFTSIZE s)
         (SCont (mkD (d_bs st) s (d_chans st) (d_pend st) (d_out st))).
Proof.
  intros Hs.
  destruct ctl_codes as (_ & _ & _ & B0 & Bq & Bm & Bb & _).
  eapply (parses_bind (uvar_get c_FNSIZE)).
  { apply uvar_roundtrip_l; [apply width_nonneg|exact B0]. }
  cbv beta. rewrite Bq, Bm, Bb, Z.eqb_refl.
  rewrite <- (app_nil_r (uvar_put c_BITSHIFTSIZE s)).
  eapply (parses_bind (uvar_get c_BITSHIFTSIZE)).
  { apply uvar_roundtrip_l; [apply width_nonneg|exact Hs]. }
  cbv beta. apply parses_ret.
Qed.

End Read.

(* ------------------------------------------------------------------ *)
(** * One item of the encoder's script against one step of the decoder *)

Lemma qlpc_hist_eq (nwrap k : nat) co (vs hist : list Z) :
  (nwrap <= length vs)%nat \/ k = O \/ co = 0 ->
  firstn nwrap (rev vs ++ (map (fun x => x - co) (firstn k hist) ++ skipn k hist))
  = firstn nwrap (rev vs ++ hist).
Proof.
  intros [H | [-> | ->]].
  - rewrite !firstn_app. rewrite rev_length.
    replace (nwrap - length vs)%nat with O by lia. reflexivity.
  - reflexivity.
  - replace (map (fun x => x - 0) (firstn k hist)) with (firstn k hist).
    + now rewrite firstn_skipn.
    + rewrite <- (map_id (firstn k hist)) at 1. apply map_ext. intros; lia.
Qed.

Lemma sim_next dt h es st chan' chans' samples :
  sim es st ->
  chan' = (if Z.of_nat (e_chan es) =? h_nchan h - 1 then O else S (e_chan es)) ->
  sim (mkE (e_bs es) (e_shift es) chan' chans') (next_st dt h st chans' samples).
Proof.
  intros (Sb & Ss & Sc & Sp) ->. unfold next_st. rewrite Sp.
  destruct (Z.of_nat (e_chan es) =? h_nchan h - 1); repeat split; simpl; auto.
  rewrite app_length, Sp. simpl. lia.
Qed.

Lemma enc_block_step dt h es st p resn samples code es' :
  sim es st ->
  enc_block h es p resn samples = Some (code, es') ->
  parses (step dt h st) code (SCont (next_st dt h st (e_chans es') samples))
  /\ sim es' (next_st dt h st (e_chans es') samples).
Proof.
  intros S H. pose proof S as (Sb & Ss & Sc & Sp).
  unfold enc_block in H.
  destruct (nth_error (e_chans es) (e_chan es)) as [c|] eqn:Hc; [|discriminate].
  destruct (negb (Z.of_nat (length samples) =? e_bs es) || (resn <? 0)) eqn:Hchk; [discriminate|].
  apply orb_false_iff in Hchk. destruct Hchk as [Hlen Hresn].
  apply negb_false_iff, Z.eqb_eq in Hlen. apply Z.ltb_ge in Hresn.
  destruct (map_opt (unfix_sample (h_ftype h) (e_shift es)) samples) as [vs|] eqn:Hun; [|discriminate].
  destruct (map_opt (fix_sample (h_ftype h) (e_shift es)) vs) as [back|] eqn:Hfix; [|discriminate].
  destruct (negb (list_eqb back samples) || negb (forallb fits32 vs)) eqn:Hchk2; [discriminate|].
  apply orb_false_iff in Hchk2. destruct Hchk2 as [Hback Hfits].
  apply negb_false_iff in Hback, Hfits. apply list_eqb_eq in Hback. subst back.
  pose proof (map_opt_length _ _ _ Hun) as Lvs.
  cbv zeta in H.
  set (co := coffset_of h (e_shift es) (c_off c)) in *.
  assert (Hc' : nth_error (d_chans st) (length (d_pend st)) = Some c) by (now rewrite Sc, Sp).
  assert (Hn : Z.of_nat (length samples) = d_bs st) by congruence.
  assert (Nvs : Z.to_nat (d_bs st) = length vs) by lia.
  assert (FB : forall hist' off',
             mean_update h (e_bs es) (e_shift es) (c_off c) (rev vs) = Some off' ->
             finish_block dt h st c (rev vs ++ hist')
             = Ok (next_st dt h st
                     (upd_nth (e_chan es)
                        (mkChan (firstn (Z.to_nat (nwrap_of h)) (rev vs ++ hist')) off') (e_chans es))
                     samples)).
  { intros hist' off' Hm. rewrite <- Sp, <- Sc.
    apply finish_block_ok; auto; rewrite ?Sb, ?Ss; auto. }
  destruct p as [|k|qs].
  - (* FN_ZERO *)
    destruct (forallb (Z.eqb 0) vs) eqn:Hz; [|discriminate].
    destruct (mean_update h (e_bs es) (e_shift es) (c_off c) (rev vs)) as [off'|] eqn:Hm; [|discriminate].
    injection H as <- <-. cbn [e_chans].
    destruct zero_codes as (Z0 & Zq & Zm).
    split; [|now apply sim_next].
    rewrite <- (app_nil_r (uvar_put c_FNSIZE c_FN_ZERO)).
    apply step_block; auto.
    change (@nil bool) with (@nil bool ++ @nil bool).
    eapply dec_block_parses; [exact Hc'|apply read_resn_zero|apply read_fill_zero|].
    rewrite Nvs. rewrite <- (rev_repeat 0 (length vs)), <- (all_zero_repeat vs Hz).
    apply FB; reflexivity.
  - (* FN_DIFFk *)
    destruct ((k <? 0) || (3 <? k)) eqn:Hk; [discriminate|]. apply diff_cases in Hk.
    destruct (resid (fun bf => Some (pred_diff (cmd_of_diff k) co bf)) (c_hist c) vs) as [rs|] eqn:Hres;
      [|discriminate].
    destruct (forallb fits32 rs) eqn:Hfr; [|discriminate].
    destruct (mean_update h (e_bs es) (e_shift es) (c_off c) (rev vs)) as [off'|] eqn:Hm; [|discriminate].
    injection H as <- <-. cbn [e_chans].
    destruct (diff_codes k Hk) as (D0 & Dq & Dm & Dz & Dd).
    split; [|now apply sim_next].
    apply step_block; auto.
    eapply dec_block_parses; [exact Hc'|apply read_resn_other; auto| |].
    + rewrite Nvs, Ss. apply read_fill_diff; auto.
    + apply FB; reflexivity.
  - (* FN_QLPC *)
    destruct ((h_maxnlpc h <? Z.of_nat (length qs)) || negb (forallb fits32 qs)
              || negb ((Z.of_nat (Z.to_nat (nwrap_of h)) <=? e_bs es)
                       || (Z.of_nat (length qs) =? 0) || (co =? 0))
              || negb (forallb fits32 (map (fun x => x - co) (firstn (length qs) (c_hist c))))
              || negb (forallb fits32 (map (fun x => x - co) vs))) eqn:Hq; [discriminate|].
    apply orb_false_iff in Hq. destruct Hq as [Hq Hq5].
    apply orb_false_iff in Hq. destruct Hq as [Hq Hq4].
    apply orb_false_iff in Hq. destruct Hq as [Hq Hq3].
    apply orb_false_iff in Hq. destruct Hq as [Hq1 Hq2].
    apply negb_false_iff in Hq2, Hq3, Hq4, Hq5.
    destruct (resid (pred_qlpc (lpcqoffset_of h) qs) (map (fun x => x - co) (c_hist c))
                    (map (fun x => x - co) vs)) as [rs|] eqn:Hres; [|discriminate].
    destruct (forallb fits32 rs) eqn:Hfr; [|discriminate].
    destruct (mean_update h (e_bs es) (e_shift es) (c_off c) (rev vs)) as [off'|] eqn:Hm; [|discriminate].
    injection H as <- <-. cbn [e_chans].
    destruct qlpc_codes as (Q0 & Qq & Qm & Qz & Qd).
    assert (HH : firstn (Z.to_nat (nwrap_of h))
                   (rev vs ++ (map (fun x => x - co) (firstn (length qs) (c_hist c))
                               ++ skipn (length qs) (c_hist c)))
                 = firstn (Z.to_nat (nwrap_of h)) (rev vs ++ c_hist c)).
    { apply qlpc_hist_eq.
      apply orb_true_iff in Hq3. destruct Hq3 as [Hq3 | Hq3];
        [apply orb_true_iff in Hq3; destruct Hq3 as [Hq3 | Hq3]|].
      - left. apply Z.leb_le in Hq3. lia.
      - right. left. apply Z.eqb_eq in Hq3. lia.
      - right. right. now apply Z.eqb_eq in Hq3. }
    split; [|now apply sim_next].
    rewrite <- HH.
    match goal with |- parses _ ?e _ =>
      change e with (uvar_put c_FNSIZE c_FN_QLPC
                     ++ (uvar_put c_ENERGYSIZE resn
                         ++ (uvar_put c_LPCQSIZE (Z.of_nat (length qs))
                             ++ flat_map (var_put c_LPCQUANT) qs ++ flat_map (var_put resn) rs)))
    end.
    apply step_block; auto.
    eapply dec_block_parses; [exact Hc'|apply read_resn_other; auto| |].
    + rewrite Nvs, Ss. apply read_fill_qlpc; auto.
    + apply FB; reflexivity.
Qed.
