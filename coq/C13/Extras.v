(* C13 - facts about the format that complete the picture: the polynomial
   predictors are the finite differences of orders 0-3, the mu-law tables let the
   encoder represent every byte at every bit shift, and why the property excludes
   LPC blocks shorter than the decoder's history. *)
From Coq Require Import ZArith List Bool Lia.
From Verif Require Import gen.Shorten C13.Model C13.Bits C13.Block.
Import ListNotations.
Open Scope Z_scope.

(* ------------------------------------------------------------------ *)
(** * DIFF1..3 store the 1st..3rd finite difference of the signal *)

Definition delta1 (x0 x1 : Z) : Z := x0 - x1.
Definition delta2 (x0 x1 x2 : Z) : Z := delta1 x0 x1 - delta1 x1 x2.
Definition delta3 (x0 x1 x2 x3 : Z) : Z := delta2 x0 x1 x2 - delta2 x1 x2 x3.

(* v follows the buffer b0 :: b1 :: b2 :: _ (most recent first) *)
Lemma diff_is_finite_difference co v b0 b1 b2 rest :
  let buf := b0 :: b1 :: b2 :: rest in
  v - pred_diff c_FN_DIFF0 co buf = v - co
  /\ v - pred_diff c_FN_DIFF1 co buf = delta1 v b0
  /\ v - pred_diff c_FN_DIFF2 co buf = delta2 v b0 b1
  /\ v - pred_diff c_FN_DIFF3 co buf = delta3 v b0 b1 b2.
Proof.
  cbv zeta. unfold delta3, delta2, delta1.
  change (pred_diff c_FN_DIFF0 co (b0 :: b1 :: b2 :: rest)) with co.
  change (pred_diff c_FN_DIFF1 co (b0 :: b1 :: b2 :: rest)) with b0.
  change (pred_diff c_FN_DIFF2 co (b0 :: b1 :: b2 :: rest)) with (2 * b0 - b1).
  change (pred_diff c_FN_DIFF3 co (b0 :: b1 :: b2 :: rest)) with (3 * (b0 - b1) + b2).
  repeat split; lia.
Qed.

(* ------------------------------------------------------------------ *)
(** * Every mu-law byte has a code at every bit shift (AU1 and AU2) *)

Definition zrange (n : nat) : list Z := map Z.of_nat (seq 0 n).

Definition au_total_check (ftype : Z) : bool :=
  forallb (fun b =>
    forallb (fun u =>
      match unfix_sample ftype b u with
      | Some v => (match fix_sample ftype b v with Some u' => u' =? u | None => false end)
                  && (-129 <=? v) && (v <=? 127)
      | None => false
      end) (zrange 256)) (zrange 13).

Lemma au_total_computed : au_total_check c_TYPE_AU1 = true /\ au_total_check c_TYPE_AU2 = true.
Proof. split; vm_compute; reflexivity. Qed.

Lemma in_zrange n x : 0 <= x < Z.of_nat n -> In x (zrange n).
Proof.
  intros H. unfold zrange. apply in_map_iff. exists (Z.to_nat x). split; [lia|].
  apply in_seq. lia.
Qed.

Lemma au_unfix_total_l ftype b u :
  ftype = c_TYPE_AU1 \/ ftype = c_TYPE_AU2 ->
  0 <= b < 13 -> 0 <= u < 256 ->
  exists v, unfix_sample ftype b u = Some v /\ fix_sample ftype b v = Some u /\ -129 <= v <= 127.
Proof.
  intros Hf Hb Hu.
  assert (C : au_total_check ftype = true) by (destruct Hf as [-> | ->]; apply au_total_computed).
  unfold au_total_check in C. rewrite forallb_forall in C.
  specialize (C b (in_zrange 13 b ltac:(lia))). rewrite forallb_forall in C.
  specialize (C u (in_zrange 256 u ltac:(lia))).
  destruct (unfix_sample ftype b u) as [v|]; [|discriminate]. exists v.
  apply andb_true_iff in C. destruct C as [C C3]. apply andb_true_iff in C. destruct C as [C1 C2].
  destruct (fix_sample ftype b v) as [u'|]; [|discriminate]. apply Z.eqb_eq in C1. subst u'.
  repeat split; lia.
Qed.

(* ------------------------------------------------------------------ *)
(** * Why LPC blocks must not be shorter than the history *)

(* One channel, version 2, block size 2, maxnlpc 4 (so the history is 4 samples),
   running mean over 4 blocks.  The blocks: DIFF0 [100;120], QLPC [130;90], DIFF3
   [50;60], written by an encoder that predicts from the true signal.  The decoder
   subtracts coffset (28) from the four history samples before the LPC block and
   never adds it back to the two that stay in the history, so the next block is
   decoded from a shifted history. *)
Definition short_lpc_stream : list Z :=
  [97; 106; 107; 103; 2; 251; 125; 190; 124; 153; 64; 0; 0; 8; 0; 0; 0; 2; 30; 147; 68; 152;
   208; 128; 0; 230; 122; 0; 12; 0; 12; 64; 0].

Lemma short_lpc_block_breaks_history :
  shn_decode DT_I16 short_lpc_stream = Ok [100; 120; 130; 90; 22; -24]
  /\ [100; 120; 130; 90; 22; -24] <> [100; 120; 130; 90; 50; 60].
Proof. split; [vm_compute; reflexivity|discriminate]. Qed.

(* and the encoder of Model.v refuses exactly that block *)
Lemma short_lpc_block_rejected :
  shn_encode false (mkParams 2 5 1 2 4 4 [])
    [IBlock (PDiff 0) 2 [100; 120]; IBlock (PQlpc [20; -5; 3; 1]) 2 [130; 90]; IBlock (PDiff 3) 2 [50; 60]]
  = None.
Proof. vm_compute. reflexivity. Qed.
