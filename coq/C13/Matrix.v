(* C13 - from a multi-channel signal and per-round choices to a script, and the
   fact that what the script is expected to decode to is the signal itself,
   interleaved sample by sample (the layout of the array read_signal returns). *)
From Coq Require Import ZArith List Bool Lia.
From Verif Require Import gen.Shorten C13.Model C13.Bits C13.Block C13.Stream C13.Total.
Import ListNotations.
Open Scope Z_scope.

(* ------------------------------------------------------------------ *)
(** * interleave *)

Lemma nth_firstn_lt {A} (d : A) : forall n l i, (i < n)%nat -> nth i (firstn n l) d = nth i l d.
Proof.
  induction n as [|n IH]; intros l i H; [lia|].
  destruct l as [|x l]; [now destruct i|]. destruct i as [|i]; [reflexivity|].
  simpl. apply IH. lia.
Qed.

Lemma nth_skipn_add {A} (d : A) : forall n l i, nth i (skipn n l) d = nth (n + i) l d.
Proof.
  induction n as [|n IH]; intros l i; [reflexivity|].
  destruct l as [|x l]; [now destruct i|]. simpl. apply IH.
Qed.

Lemma flat_map_ext_in {A B} (f g : A -> list B) l :
  (forall x, In x l -> f x = g x) -> flat_map f l = flat_map g l.
Proof.
  induction l as [|x l IH]; intros H; [reflexivity|]. simpl.
  rewrite (H x (or_introl eq_refl)), IH; [reflexivity|]. intros y Hy. apply H. now right.
Qed.

Lemma seq_add a : forall b, seq a b = map (Nat.add a) (seq 0 b).
Proof.
  intros b. revert a. induction b as [|b IH]; intros a; [reflexivity|].
  simpl. f_equal; [lia|]. rewrite (IH (S a)), <- (seq_shift b 0), map_map.
  apply map_ext. intros; lia.
Qed.

Lemma interleave_split a b (chans : list (list Z)) :
  interleave (a + b) chans
  = interleave a (map (firstn a) chans) ++ interleave b (map (skipn a) chans).
Proof.
  unfold interleave. rewrite seq_app, flat_map_app. f_equal.
  - apply flat_map_ext_in. intros t Ht. apply in_seq in Ht.
    rewrite map_map. apply map_ext. intros ch. symmetry. apply nth_firstn_lt. lia.
  - simpl. rewrite (seq_add a b).
    rewrite (flat_map_concat_map _ (map _ _)), map_map, <- flat_map_concat_map.
    apply flat_map_ext_in. intros t _. rewrite map_map. apply map_ext. intros ch.
    symmetry. apply nth_skipn_add.
Qed.

(* ------------------------------------------------------------------ *)
(** * The script of a signal decodes to the signal *)

Section Signal.
Variables (dt : dtype) (h : hdr).

Lemma out_of_app_ctl pend pre rest :
  (forall it, In it pre -> match it with IBlock _ _ _ => False | _ => True end) ->
  out_of dt h pend (pre ++ rest) = out_of dt h pend rest.
Proof.
  induction pre as [|it pre IH]; intros H; [reflexivity|].
  simpl. pose proof (H it (or_introl eq_refl)) as Hit.
  destruct it; try contradiction; apply IH; intros x Hx; apply H; now right.
Qed.

Lemma out_of_round n : forall chans cs pend rest,
  chans <> [] -> length cs = length chans ->
  Z.of_nat (length pend + length chans) = h_nchan h ->
  Forall (fun ch => (n <= length ch)%nat) chans ->
  out_of dt h pend (zip_blocks cs chans n ++ rest)
  = map (out_item dt h) (interleave n (pend ++ map (firstn n) chans)) ++ out_of dt h [] rest.
Proof.
  induction chans as [|ch chans IH]; intros cs pend rest Hne Hl Hn Hlen; [congruence|].
  destruct cs as [|[p resn] cs]; [discriminate|]. simpl in Hl.
  inversion Hlen as [|? ? Hch Hrest]; subst.
  cbn [zip_blocks app out_of].
  destruct chans as [|ch2 chans].
  - destruct cs; [|discriminate]. cbn [zip_blocks app map].
    replace (Z.of_nat (length pend) =? h_nchan h - 1) with true
      by (symmetry; apply Z.eqb_eq; simpl in Hn; lia).
    rewrite firstn_length. replace (Nat.min n (length ch)) with n by lia. reflexivity.
  - replace (Z.of_nat (length pend) =? h_nchan h - 1) with false
      by (symmetry; apply Z.eqb_neq; simpl in Hn; lia).
    rewrite (IH cs (pend ++ [firstn n ch]) rest); try discriminate; auto.
    + rewrite <- app_assoc. reflexivity.
    + rewrite app_length. simpl in *. lia.
Qed.

(* the expected output of the script of a signal is the signal, interleaved *)
Lemma out_of_script : forall rs bs chans,
  chans <> [] -> Z.of_nat (length chans) = h_nchan h ->
  Forall (fun r => length (r_blocks r) = length chans) rs ->
  Forall (fun ch => length ch = total_len bs rs) chans ->
  out_of dt h [] (script_of bs rs chans)
  = map (out_item dt h) (interleave (total_len bs rs) chans).
Proof.
  induction rs as [|r rs IH]; intros bs chans Hne Hn Hr Hlen; [reflexivity|].
  inversion Hr as [|? ? Hr1 Hr2]; subst.
  { cbn [script_of total_len]. cbv zeta.
    set (n := Z.to_nat (round_bs bs r)).
    rewrite out_of_app_ctl by (intros it Hi; destruct (r_shift r); simpl in Hi; [destruct Hi as [<- | []]|destruct Hi]; exact I).
    rewrite out_of_app_ctl by (intros it Hi; destruct (r_bs r); simpl in Hi; [destruct Hi as [<- | []]|destruct Hi]; exact I).
    assert (L1 : Forall (fun ch => (n <= length ch)%nat) chans).
    { eapply Forall_impl; [|exact Hlen]. intros ch Hch. rewrite Hch. cbn [total_len]. fold n. lia. }
    rewrite (out_of_round n chans (r_blocks r) [] _ Hne Hr1 ltac:(simpl; lia) L1).
    rewrite (IH (round_bs bs r) (map (skipn n) chans)).
    - cbn [app]. rewrite interleave_split, map_app. reflexivity.
    - destruct chans; [congruence|discriminate].
    - now rewrite map_length.
    - eapply Forall_impl; [|exact Hr2]. intros r' Hr'. now rewrite map_length.
    - apply Forall_map. eapply Forall_impl; [|exact Hlen]. intros ch Hch.
      rewrite skipn_length, Hch. cbn [total_len]. fold n. lia. }
Qed.

End Signal.

(* decoding the stream written for a signal returns the signal: samples of all
   channels at time 0, then at time 1, ... (cast to the requested dtype) *)
Lemma decode_encode_signal_l dt pad p rs chans bytes :
  chans <> [] -> Z.of_nat (length chans) = p_nchan p ->
  Forall (fun r => length (r_blocks r) = length chans) rs ->
  Forall (fun ch => length ch = total_len (p_bs p) rs) chans ->
  shn_encode pad p (script_of (p_bs p) rs chans) = Some bytes ->
  shn_decode dt bytes
  = Ok (map (out_item dt (hdr_of p)) (interleave (total_len (p_bs p) rs) chans)).
Proof.
  intros Hne Hn Hr Hl E.
  rewrite (decode_encode_l dt pad p _ bytes E). unfold expected.
  now rewrite out_of_script.
Qed.

(* with the valid choices spelled out: a stream exists and decodes to the signal *)
Lemma decode_encode_signal_valid_l dt pad p rs chans :
  valid_params p = true -> mem (p_ftype p) g_au_types = false ->
  chans <> [] -> Z.of_nat (length chans) = p_nchan p ->
  Forall (fun r => length (r_blocks r) = length chans) rs ->
  Forall (fun ch => length ch = total_len (p_bs p) rs) chans ->
  valid_items p (p_bs p) 0 O (script_of (p_bs p) rs chans) ->
  exists bytes,
    shn_encode pad p (script_of (p_bs p) rs chans) = Some bytes
    /\ shn_decode dt bytes
       = Ok (map (out_item dt (hdr_of p)) (interleave (total_len (p_bs p) rs) chans)).
Proof.
  intros V Hau Hne Hn Hr Hl VI.
  destruct (encode_total_l pad p _ V Hau VI) as (bytes & E).
  exists bytes. split; [exact E|]. now apply (decode_encode_signal_l dt pad).
Qed.

(* the output cast leaves 16-bit samples alone *)
Lemma out_item_exact_l dt p v :
  mem (p_ftype p) g_au_types = false ->
  (dt = DT_I32 \/ (dt = DT_I16 /\ -32768 <= v < 32768)) ->
  out_item dt (hdr_of p) v = v.
Proof.
  intros Hau H. unfold out_item, converts. cbn [h_ftype hdr_of]. rewrite Hau.
  destruct H as [-> | [-> Hv]]; cbn [cast]; [reflexivity|].
  unfold wrap16. rewrite Z.mod_small by lia. lia.
Qed.

(* hypotheses are satisfiable: a 2-channel signal of 6 samples, blocks of 4 then 2 *)
Example signal_example :
  let p := mkParams 2 c_TYPE_S16HL 2 4 0 4 [] in
  let rs := [mkRound None None [(PDiff 1, 3); (PDiff 0, 4)];
             mkRound (Some 1) (Some 2) [(PDiff 2, 2); (PZero, 0)]] in
  let chans := [[10; 12; 15; 11; 8; -6]; [-3; 4; 0; 9; 0; 0]] in
  valid_params p = true /\ total_len (p_bs p) rs = 6%nat
  /\ valid_items p (p_bs p) 0 O (script_of (p_bs p) rs chans)
  /\ interleave 6 chans = [10; -3; 12; 4; 15; 0; 11; 9; 8; 0; -6; 0].
Proof.
  cbv zeta. split; [reflexivity|]. split; [reflexivity|]. split; [|reflexivity].
  unfold valid_items, gvalid_items, gpred_ok, sample_ok, bnd, B16, next_chan, sumabs; simpl.
  repeat split; try lia; repeat constructor; try lia; try reflexivity.
Qed.
