(* C13 - from a multi-channel signal and per-round choices to a script, and the
   fact that what the script is expected to decode to is the signal itself,
   interleaved sample by sample (the layout of the array read_signal returns). *)
From Coq Require Import ZArith List Bool Lia.
From Verif Require Import gen.Shorten C13.Model C13.Bits C13.Block C13.Stream.
Import ListNotations.
Open Scope Z_scope.

(* ------------------------------------------------------------------ *)
(** * interleave *)

Lemma nth_firstn_lt {A} (d : A) : forall n l i, (i < n)%nat -> nth i (firstn n l) d = nth i l d.
Proof.
  induction n as [|n IH]; intros l i H; [lia|].
  destruct l as [|x l]; [now destruct i|]. destruct i as [|i]; [reflexivity|].
  simpl. apply IH. lia.
Qed.

Lemma nth_skipn_add {A} (d : A) : forall n l i, nth i (skipn n l) d = nth (n + i) l d.
Proof.
  induction n as [|n IH]; intros l i; [reflexivity|].
  destruct l as [|x l]; [now destruct i|]. simpl. apply IH.
Qed.

Lemma flat_map_ext_in {A B} (f g : A -> list B) l :
  (forall x, In x l -> f x = g x) -> flat_map f l = flat_map g l.
Proof.
  induction l as [|x l IH]; intros H; [reflexivity|]. simpl.
  rewrite (H x (or_introl eq_refl)), IH; [reflexivity|]. intros y Hy. apply H. now right.
Qed.

Lemma seq_add a : forall b, seq a b = map (Nat.add a) (seq 0 b).
Proof.
  intros b. revert a. induction b as [|b IH]; intros a; [reflexivity|].
  simpl. f_equal; [lia|]. rewrite (IH (S a)), <- (seq_shift b 0), map_map.
  apply map_ext. intros; lia.
Qed.

Lemma interleave_split a b (chans : list (list Z)) :
  interleave (a + b) chans
  = interleave a (map (firstn a) chans) ++ interleave b (map (skipn a) chans).
Proof.
  unfold interleave. rewrite seq_app, flat_map_app. f_equal.
  - apply flat_map_ext_in. intros t Ht. apply in_seq in Ht.
    rewrite map_map. apply map_ext. intros ch. symmetry. apply nth_firstn_lt. lia.
  - simpl. rewrite (seq_add a b).
    rewrite (flat_map_concat_map _ (map _ _)), map_map, <- flat_map_concat_map.
    apply flat_map_ext_in. intros t _. rewrite map_map. apply map_ext. intros ch.
    symmetry. apply nth_skipn_add.
Qed.
