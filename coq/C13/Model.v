(* C13 - model of the shorten (v1-2) decoder of pydrobert/speech/_sphere.py
   (copy_shortened_samples, fix_bitshift, and the output stage of copy_samples),
   and of an independent ENCODER for the same format.  DEFINITIONS ONLY.

   All constants (FN_*, TYPE_*, field widths, the set of block commands, the
   per-type initial mean, the accepted versions) and the tables ULAW_OUTWARD /
   ULAW2PCM come from gen/Shorten.v, which is regenerated from the source on
   every run.

   Level of the model.  The input is the data area of the SPHERE file as a list
   of byte values.  The bit reader works on the list of bits of the complete
   big-endian 32-bit words that follow the version byte (C13/WordReader.v
   models the word-level reader - gbuffer, nbitget, masks - and proves that it
   refines this one).  Integers are unbounded; wherever NumPy's int32 arithmetic
   could wrap or raise OverflowError, or an index could leave its array, the
   model answers [Err EUnspec] ("outside the modelled domain: no claim").
   [Err EIO] is the IOError of the implementation. *)
From Coq Require Import ZArith List Bool.
From Verif Require Import gen.Shorten.
Import ListNotations.
Open Scope Z_scope.

(* ------------------------------------------------------------------ *)
(** * Results *)

Inductive err := EIO | EUnspec | EFuel.
Inductive res (A : Type) : Type := Ok (a : A) | Err (e : err).
Arguments Ok {A} a.
Arguments Err {A} e.

Definition bind {A B} (m : res A) (f : A -> res B) : res B :=
  match m with Ok a => f a | Err e => Err e end.

Notation "'do' x <- m ;; f" := (bind m (fun x => f))
  (at level 200, x name, m at level 100, f at level 200).
Notation "'do' ' ( x , y ) <- m ;; f" := (bind m (fun p => let '(x, y) := p in f))
  (at level 200, x name, y name, m at level 100, f at level 200).

Definition of_option {A} (o : option A) : res A :=
  match o with Some a => Ok a | None => Err EUnspec end.

Definition bits := list bool.

Definition mem (x : Z) (l : list Z) : bool := existsb (Z.eqb x) l.
Definition sumZ (l : list Z) : Z := fold_right Z.add 0 l.
Definition fits32 (v : Z) : bool := (- 2147483648 <=? v) && (v <? 2147483648).
Fixpoint list_eqb (a b : list Z) : bool :=
  match a, b with
  | [], [] => true
  | x :: a', y :: b' => (x =? y) && list_eqb a' b'
  | _, _ => false
  end.

(* ------------------------------------------------------------------ *)
(** * Bytes to bits: complete big-endian words only (word_get raises on < 4 bytes) *)

Definition bits8 (b : Z) : bits :=
  [Z.testbit b 7; Z.testbit b 6; Z.testbit b 5; Z.testbit b 4;
   Z.testbit b 3; Z.testbit b 2; Z.testbit b 1; Z.testbit b 0].

Fixpoint words_bits (bytes : list Z) : bits :=
  match bytes with
  | b0 :: b1 :: b2 :: b3 :: r => bits8 b0 ++ bits8 b1 ++ bits8 b2 ++ bits8 b3 ++ words_bits r
  | _ => []
  end.

(* ------------------------------------------------------------------ *)
(** * The variable-length integer reader (uvar_get, var_get, ulong_get) *)

(* number of 0 bits before the first 1 bit *)
Fixpoint get_unary (bs : bits) (acc : Z) : res (Z * bits) :=
  match bs with
  | [] => Err EIO
  | true :: r => Ok (acc, r)
  | false :: r => get_unary r (acc + 1)
  end.

(* result = (result << 1) | bit, n times *)
Fixpoint get_bits (n : nat) (bs : bits) (acc : Z) : res (Z * bits) :=
  match n with
  | O => Ok (acc, bs)
  | S n' => match bs with
            | [] => Err EIO
            | b :: r => get_bits n' r (2 * acc + Z.b2z b)
            end
  end.

Definition uvar_get (nbin : Z) (bs : bits) : res (Z * bits) :=
  do '(hi, r) <- get_unary bs 0 ;; get_bits (Z.to_nat nbin) r hi.

Definition ulong_get (bs : bits) : res (Z * bits) :=
  do '(nbit, r) <- uvar_get c_ULONGSIZE bs ;; uvar_get nbit r.

(* uvar & 1 ? ~(uvar >> 1) : uvar >> 1 *)
Definition unzig (u : Z) : Z :=
  if Z.odd u then Z.lnot (Z.shiftr u 1) else Z.shiftr u 1.

Definition var_get (nbin : Z) (bs : bits) : res (Z * bits) :=
  do '(u, r) <- uvar_get (nbin + 1) bs ;; Ok (unzig u, r).

(* n values, each stored into an int32 array as soon as it is read *)
Fixpoint var_get_n_chk (n : nat) (nbin : Z) (bs : bits) : res (list Z * bits) :=
  match n with
  | O => Ok ([], bs)
  | S n' => do '(v, r) <- var_get nbin bs ;;
            if fits32 v then
              do '(vs, r') <- var_get_n_chk n' nbin r ;;
              Ok (v :: vs, r')
            else Err EUnspec
  end.

Fixpoint skip_n (n : nat) (bs : bits) : res (unit * bits) :=
  match n with
  | O => Ok (tt, bs)
  | S n' => do '(_x, r) <- uvar_get c_XBITESIZE bs ;; skip_n n' r
  end.

(* ------------------------------------------------------------------ *)
(** * Stream header *)

Record hdr := mkHdr {
  h_version : Z; h_ftype : Z; h_nchan : Z;
  h_cap : Z;       (* the block size of the header: the buffers are allocated for it *)
  h_maxnlpc : Z; h_nmean : Z }.

Definition nwrap_of (h : hdr) : Z := Z.max (h_maxnlpc h) c_NWRAP.
Definition lpcqoffset_of (h : hdr) : Z := if 1 <? h_version h then c_V2LPCQOFFSET else 0.

(* per channel: the nwrap samples before the block, MOST RECENT FIRST
   (cbuffer[nwrap-1], cbuffer[nwrap-2], ...), and the row of running means *)
Record chan_st := mkChan { c_hist : list Z; c_off : list Z }.

Record dstate := mkD {
  d_bs : Z;                  (* blocksize *)
  d_shift : Z;               (* bitshift *)
  d_chans : list chan_st;
  d_pend : list (list Z);    (* fixed blocks of channels 0..chan-1 of the current round; chan = length d_pend *)
  d_out : list Z }.          (* data written so far *)

Fixpoint mean_init_of (chain : list (list Z * Z)) (ftype : Z) : option Z :=
  match chain with
  | [] => None
  | (s, v) :: r => if mem ftype s then Some v else mean_init_of r ftype
  end.

Definition init_chan (h : hdr) (mean : Z) : chan_st :=
  mkChan (repeat 0 (Z.to_nat (nwrap_of h))) (repeat mean (Z.to_nat (Z.max 1 (h_nmean h)))).

Definition init_state (h : hdr) (mean : Z) : dstate :=
  mkD (h_cap h) 0 (repeat (init_chan h mean) (Z.to_nat (h_nchan h))) [] [].

Definition read_header (version : Z) (bs : bits) : res (hdr * dstate * bits) :=
  do '(ftype, b1) <- ulong_get bs ;;
  if g_ftype_bound <=? ftype then Err EIO else
  do '(nchan, b2) <- ulong_get b1 ;;
  do '(blocksize, b3) <- ulong_get b2 ;;
  do '(maxnlpc, b4) <- ulong_get b3 ;;
  do '(nmean, b5) <- ulong_get b4 ;;
  do '(nskip, b6) <- ulong_get b5 ;;
  do '(_x, b7) <- skip_n (Z.to_nat nskip) b6 ;;
  let h := mkHdr version ftype nchan blocksize maxnlpc nmean in
  match mean_init_of g_mean_init ftype with
  | None => Err EIO
  | Some mean => Ok (h, init_state h mean, b7)
  end.

(* ------------------------------------------------------------------ *)
(** * Block commands *)

(* coffset: the (rounded, for version 2) mean of the running block means *)
Definition coffset_of (h : hdr) (shift : Z) (off : list Z) : Z :=
  let nmean := h_nmean h in
  if 0 <? nmean then
    let s := (if h_version h <? 2 then 0 else nmean / 2) + sumZ (firstn (Z.to_nat nmean) off) in
    if h_version h <? 2 then Z.quot s nmean else Z.shiftr (Z.quot s nmean) shift
  else nth 0 off 0.

(* predictions; [buf] is the buffer before position i, most recent first *)
Definition pred_diff (cmd coffset : Z) (buf : list Z) : Z :=
  if cmd =? c_FN_DIFF0 then coffset
  else if cmd =? c_FN_DIFF1 then nth 0 buf 0
  else if cmd =? c_FN_DIFF2 then 2 * nth 0 buf 0 - nth 1 buf 0
  else 3 * (nth 0 buf 0 - nth 1 buf 0) + nth 2 buf 0.

Fixpoint dot (qs buf : list Z) : Z :=
  match qs, buf with
  | q :: qs', b :: buf' => q * b + dot qs' buf'
  | _, _ => 0
  end.

(* (lpcqoffset + sum_j qlpc[j] * cbuffer[i-j-1]) >> LPCQUANT; the sum is int32 *)
Definition pred_qlpc (lpcqoffset : Z) (qs : list Z) (buf : list Z) : option Z :=
  let s := lpcqoffset + dot qs buf in
  if fits32 s then Some (Z.shiftr s c_LPCQUANT) else None.

(* for i in range(nwrap, nwrap + blocksize): cbuffer[i] = var_get(resn) + prediction.
   The buffer grows at its head.  The first value that leaves int32 (residual,
   LPC sum, stored sample) ends the modelled domain, in program order: before any
   later end of the stream is noticed *)
Fixpoint read_loop (n : nat) (pred : list Z -> option Z) (resn : Z) (buf : list Z) (bs : bits)
  : res (list Z * bits) :=
  match n with
  | O => Ok (buf, bs)
  | S n' =>
    do '(r, b) <- var_get resn bs ;;
    if fits32 r then
      match pred buf with
      | Some p => if fits32 (r + p) then read_loop n' pred resn ((r + p) :: buf) b else Err EUnspec
      | None => Err EUnspec
      end
    else Err EUnspec
  end.

Definition is_diff (cmd : Z) : bool :=
  (cmd =? c_FN_DIFF0) || (cmd =? c_FN_DIFF1) || (cmd =? c_FN_DIFF2) || (cmd =? c_FN_DIFF3).

(* the running-mean row after a block whose samples are [blk] *)
Definition mean_update (h : hdr) (bs shift : Z) (off blk : list Z) : option (list Z) :=
  if 0 <? h_nmean h then
    if bs =? 0 then None (* division by zero *)
    else
      let s := (if h_version h <? 2 then 0 else bs / 2) + sumZ blk in
      let m := Z.quot s bs in
      let m' := if 2 <=? h_version h then m * 2 ^ shift else m in
      if fits32 m' then Some (skipn 1 off ++ [m']) else None
  else Some off.

(* fix_bitshift, one sample *)
Definition lookup_outward (shift idx : Z) : option Z :=
  if (0 <=? idx) && (idx <? 256) then
    match nth_error t_ULAW_OUTWARD (Z.to_nat shift) with
    | Some row => nth_error row (Z.to_nat idx)
    | None => None
    end
  else None.

Definition fix_sample (ftype shift v : Z) : option Z :=
  if ftype =? c_TYPE_AU1 then lookup_outward shift (v + nth 0 g_fix_offsets 0)
  else if ftype =? c_TYPE_AU2 then
    if 0 <=? v then lookup_outward shift (v + nth 1 g_fix_offsets 0)
    else if v =? -1 then Some c_NEGATIVE_ULAW_ZERO
    else lookup_outward shift (v + nth 2 g_fix_offsets 0)
  else if shift =? 0 then Some v
  else let w := v * 2 ^ shift in
       if (shift <? 32) && fits32 w then Some w else None.

Fixpoint map_opt {A B} (f : A -> option B) (l : list A) : option (list B) :=
  match l with
  | [] => Some []
  | x :: r => match f x, map_opt f r with
              | Some y, Some ys => Some (y :: ys)
              | _, _ => None
              end
  end.

(* the output stage: data[:nitem] = buffer[:, nwrap:nwrap+bs].T.flat, cast to the
   requested dtype, then ULAW2PCM when mu-law codes are expanded *)
Inductive dtype := DT_U8 | DT_I16 | DT_I32.
Definition wrap16 (v : Z) : Z := (v + 32768) mod 65536 - 32768.
Definition cast (dt : dtype) (v : Z) : Z :=
  match dt with DT_U8 => v mod 256 | DT_I16 => wrap16 v | DT_I32 => v end.
Definition converts (dt : dtype) (h : hdr) : bool :=
  match dt with DT_U8 => false | _ => mem (h_ftype h) g_au_types end.
Definition out_item (dt : dtype) (h : hdr) (v : Z) : Z :=
  let w := cast dt v in
  if converts dt h then nth (Z.to_nat w) t_ULAW2PCM 0 else w.

Definition interleave (n : nat) (blks : list (list Z)) : list Z :=
  flat_map (fun t => map (fun b => nth t b 0) blks) (seq 0 n).

Definition upd_nth {A} (k : nat) (v : A) (l : list A) : list A :=
  firstn k l ++ match skipn k l with [] => [] | _ :: r => v :: r end.

(* resn = uvar_get(ENERGYSIZE) unless the command is FN_ZERO *)
Definition read_resn (cmd : Z) (bs1 : bits) : res (Z * bits) :=
  if cmd =? c_FN_ZERO then Ok (0, bs1) else uvar_get c_ENERGYSIZE bs1.

(* the command-specific part: reads the residuals (and LPC coefficients) and
   returns the channel buffer up to the end of the block, most recent first *)
Definition read_fill (h : hdr) (c : chan_st) (n : nat) (cmd resn coffset : Z) (bs2 : bits)
  : res (list Z * bits) :=
  if cmd =? c_FN_ZERO then Ok (repeat 0 n ++ c_hist c, bs2)
  else if is_diff cmd then
    read_loop n (fun bf => Some (pred_diff cmd coffset bf)) resn (c_hist c) bs2
  else (* FN_QLPC *)
    do '(nlpc, b) <- uvar_get c_LPCQSIZE bs2 ;;
    if h_maxnlpc h <? nlpc then Err EUnspec else
    do '(qs, b') <- var_get_n_chk (Z.to_nat nlpc) c_LPCQUANT b ;;
    let k := Z.to_nat nlpc in
    (* cbuffer[nwrap - nlpc : nwrap] -= coffset *)
    let shifted := map (fun x => x - coffset) (firstn k (c_hist c)) in
    if forallb fits32 shifted then
      do '(buf, b'') <- read_loop n (pred_qlpc (lpcqoffset_of h) qs) resn (shifted ++ skipn k (c_hist c)) b' ;;
      (* if coffset: cbuffer[nwrap : blocksize + nwrap] += coffset *)
      Ok (map (fun x => x + coffset) (firstn n buf) ++ skipn n buf, b'')
    else Err EUnspec.

(* running mean, wrap, fix_bitshift, and the output when the round is complete *)
Definition finish_block (dt : dtype) (h : hdr) (st : dstate) (c : chan_st) (buf : list Z)
  : res dstate :=
  let nwrap := Z.to_nat (nwrap_of h) in
  let chan := length (d_pend st) in
  let n := Z.to_nat (d_bs st) in
  let blk_rev := firstn n buf in
  if negb (forallb fits32 blk_rev) then Err EUnspec else
  do off' <- of_option (mean_update h (d_bs st) (d_shift st) (c_off c) blk_rev) ;;
  let c' := mkChan (firstn nwrap buf) off' in     (* wrap *)
  do fixed <- of_option (map_opt (fix_sample (h_ftype h) (d_shift st)) (rev blk_rev)) ;;
  let chans' := upd_nth chan c' (d_chans st) in
  let pend' := d_pend st ++ [fixed] in
  if Z.of_nat chan =? h_nchan h - 1 then
    Ok (mkD (d_bs st) (d_shift st) chans' []
            (d_out st ++ map (out_item dt h) (interleave n pend')))
  else
    Ok (mkD (d_bs st) (d_shift st) chans' pend' (d_out st)).

Definition dec_block (dt : dtype) (h : hdr) (st : dstate) (cmd : Z) (bs1 : bits)
  : res (dstate * bits) :=
  match nth_error (d_chans st) (length (d_pend st)) with
  | None => Err EUnspec
  | Some c =>
    do '(resn, bs2) <- read_resn cmd bs1 ;;
    let coffset := coffset_of h (d_shift st) (c_off c) in
    do '(buf, bs3) <- read_fill h c (Z.to_nat (d_bs st)) cmd resn coffset bs2 ;;
    do st' <- finish_block dt h st c buf ;;
    Ok (st', bs3)
  end.

Inductive step_res := SQuit | SCont (st : dstate).

Definition step (dt : dtype) (h : hdr) (st : dstate) (bs : bits) : res (step_res * bits) :=
  do '(cmd, b1) <- uvar_get c_FNSIZE bs ;;
  if cmd =? c_FN_QUIT then Ok (SQuit, b1)
  else if mem cmd g_block_cmds then
    do '(st', b2) <- dec_block dt h st cmd b1 ;; Ok (SCont st', b2)
  else if cmd =? c_FN_BLOCKSIZE then
    do '(n, b2) <- ulong_get b1 ;;
    (* the buffers keep their initial size, and a change inside a round would
       mix block lengths in the output: both are outside the modelled domain *)
    if (h_cap h <? n) || negb (Nat.eqb (length (d_pend st)) 0) then Err EUnspec
    else Ok (SCont (mkD n (d_shift st) (d_chans st) (d_pend st) (d_out st)), b2)
  else if cmd =? c_FN_BITSHIFT then
    do '(s, b2) <- uvar_get c_BITSHIFTSIZE b1 ;;
    Ok (SCont (mkD (d_bs st) s (d_chans st) (d_pend st) (d_out st)), b2)
  else Err EIO.

Fixpoint run (fuel : nat) (dt : dtype) (h : hdr) (st : dstate) (bs : bits) : res (list Z) :=
  match fuel with
  | O => Err EFuel
  | S f => do '(r, b) <- step dt h st bs ;;
           match r with
           | SQuit => Ok (d_out st)
           | SCont st' => run f dt h st' b
           end
  end.

Definition decode_bits (dt : dtype) (version : Z) (bs : bits) : res (list Z) :=
  do '(hs, b) <- read_header version bs ;;
  let '(h, st) := hs in
  run (S (length b)) dt h st b.

(* the data area of the file: magic, version byte, words *)
Definition shn_decode (dt : dtype) (payload : list Z) : res (list Z) :=
  match payload with
  | m0 :: m1 :: m2 :: m3 :: rest =>
    if negb (list_eqb [m0; m1; m2; m3] c_MAGIC) then Err EUnspec (* not dispatched to this decoder *)
    else match rest with
         | [] => Err EIO
         | vb :: body =>
           let version := if vb <? 128 then vb else vb - 256 in
           if negb (mem version g_versions) then Err EIO
           else decode_bits dt version (words_bits body)
         end
  | _ => Err EUnspec
  end.

(* ------------------------------------------------------------------ *)
(** * An independent encoder *)

Definition put_unary (n : Z) : bits := repeat false (Z.to_nat n) ++ [true].

(* the n low bits of v, most significant first *)
Fixpoint put_bits (n : nat) (v : Z) : bits :=
  match n with
  | O => []
  | S n' => put_bits n' (v / 2) ++ [Z.odd v]
  end.

Definition uvar_put (nbin v : Z) : bits :=
  put_unary (v / 2 ^ nbin) ++ put_bits (Z.to_nat nbin) v.

Definition zig (v : Z) : Z := if v <? 0 then 2 * (- v - 1) + 1 else 2 * v.
Definition var_put (nbin v : Z) : bits := uvar_put (nbin + 1) (zig v).

Definition nbits_of (v : Z) : Z := if v <=? 0 then 0 else Z.log2 v + 1.
Definition ulong_put (v : Z) : bits :=
  uvar_put c_ULONGSIZE (nbits_of v) ++ uvar_put (nbits_of v) v.

(* what the encoder is asked to do *)
Inductive predictor := PZero | PDiff (k : Z) | PQlpc (qs : list Z).
Inductive item :=
| IBlockSize (n : Z)
| IBitShift (s : Z)
| IBlock (p : predictor) (resn : Z) (samples : list Z).  (* the samples of one channel, as they are to be decoded *)

Record params := mkParams {
  p_version : Z; p_ftype : Z; p_nchan : Z; p_bs : Z; p_maxnlpc : Z; p_nmean : Z;
  p_skip : list Z }.
Definition hdr_of (p : params) : hdr :=
  mkHdr (p_version p) (p_ftype p) (p_nchan p) (p_bs p) (p_maxnlpc p) (p_nmean p).

(* encoder state: block size, bit shift, next channel, and per channel the TRUE
   last nwrap values (most recent first) and the running means *)
Record estate := mkE { e_bs : Z; e_shift : Z; e_chan : nat; e_chans : list chan_st }.

(* the value v with fix_sample ftype shift v = s, if there is one *)
Fixpoint find_idx (s : Z) (row : list Z) (i : Z) : option Z :=
  match row with
  | [] => None
  | x :: r => if x =? s then Some i else find_idx s r (i + 1)
  end.
Definition unfix_sample (ftype shift s : Z) : option Z :=
  if mem ftype g_au_types then
    match nth_error t_ULAW_OUTWARD (Z.to_nat shift) with
    | None => None
    | Some row =>
      if ftype =? c_TYPE_AU1 then
        match find_idx s row 0 with Some i => Some (i - nth 0 g_fix_offsets 0) | None => None end
      else if s =? c_NEGATIVE_ULAW_ZERO then Some (-1)
      else match find_idx s row 0 with
           | Some i => if nth 1 g_fix_offsets 0 <=? i then Some (i - nth 1 g_fix_offsets 0)
                       else Some (i - nth 2 g_fix_offsets 0)
           | None => None
           end
    end
  else if s mod 2 ^ shift =? 0 then Some (s / 2 ^ shift) else None.

(* residuals of the values [vs] that follow the buffer [buf] *)
Fixpoint resid (pred : list Z -> option Z) (buf : list Z) (vs : list Z) : option (list Z) :=
  match vs with
  | [] => Some []
  | v :: vs' => match pred buf, resid pred (v :: buf) vs' with
                | Some p, Some rs => Some ((v - p) :: rs)
                | _, _ => None
                end
  end.

Definition cmd_of_diff (k : Z) : Z :=
  if k =? 0 then c_FN_DIFF0 else if k =? 1 then c_FN_DIFF1 else if k =? 2 then c_FN_DIFF2 else c_FN_DIFF3.

Definition enc_block (h : hdr) (es : estate) (p : predictor) (resn : Z) (samples : list Z)
  : option (bits * estate) :=
  let nwrap := Z.to_nat (nwrap_of h) in
  match nth_error (e_chans es) (e_chan es) with
  | None => None
  | Some c =>
    if negb (Z.of_nat (length samples) =? e_bs es) || (resn <? 0) then None else
    match map_opt (unfix_sample (h_ftype h) (e_shift es)) samples with
    | None => None
    | Some vs =>
      (* the decoder must give the samples back *)
      match map_opt (fix_sample (h_ftype h) (e_shift es)) vs with
      | None => None
      | Some back =>
      if negb (list_eqb back samples) || negb (forallb fits32 vs) then None else
      let coffset := coffset_of h (e_shift es) (c_off c) in
      let code : option bits :=
        match p with
        | PZero =>
          if forallb (Z.eqb 0) vs then Some (uvar_put c_FNSIZE c_FN_ZERO) else None
        | PDiff k =>
          if (k <? 0) || (3 <? k) then None else
          match resid (fun bf => Some (pred_diff (cmd_of_diff k) coffset bf)) (c_hist c) vs with
          | Some rs =>
            if forallb fits32 rs then
              Some (uvar_put c_FNSIZE (cmd_of_diff k) ++ uvar_put c_ENERGYSIZE resn
                    ++ flat_map (var_put resn) rs)
            else None
          | None => None
          end
        | PQlpc qs =>
          let nlpc := Z.of_nat (length qs) in
          (* a block shorter than the history would leave shifted samples in it *)
          if (h_maxnlpc h <? nlpc) || negb (forallb fits32 qs)
             || negb ((Z.of_nat nwrap <=? e_bs es) || (nlpc =? 0) || (coffset =? 0))
             || negb (forallb fits32 (map (fun x => x - coffset) (firstn (length qs) (c_hist c))))
             || negb (forallb fits32 (map (fun x => x - coffset) vs)) then None else
          match resid (pred_qlpc (lpcqoffset_of h) qs)
                      (map (fun x => x - coffset) (c_hist c)) (map (fun x => x - coffset) vs) with
          | Some rs =>
            if forallb fits32 rs then
              Some (uvar_put c_FNSIZE c_FN_QLPC ++ uvar_put c_ENERGYSIZE resn
                    ++ uvar_put c_LPCQSIZE nlpc ++ flat_map (var_put c_LPCQUANT) qs
                    ++ flat_map (var_put resn) rs)
            else None
          | None => None
          end
        end in
      match code, mean_update h (e_bs es) (e_shift es) (c_off c) (rev vs) with
      | Some code, Some off' =>
        let c' := mkChan (firstn nwrap (rev vs ++ c_hist c)) off' in
        let chan' := if Z.of_nat (e_chan es) =? h_nchan h - 1 then O else S (e_chan es) in
        Some (code, mkE (e_bs es) (e_shift es) chan' (upd_nth (e_chan es) c' (e_chans es)))
      | _, _ => None
      end
      end
    end
  end.

Definition enc_item (h : hdr) (es : estate) (it : item) : option (bits * estate) :=
  match it with
  | IBlockSize n =>
    if (0 <? n) && (n <=? h_cap h) && Nat.eqb (e_chan es) 0 then
      Some (uvar_put c_FNSIZE c_FN_BLOCKSIZE ++ ulong_put n, mkE n (e_shift es) (e_chan es) (e_chans es))
    else None
  | IBitShift s =>
    if 0 <=? s then
      Some (uvar_put c_FNSIZE c_FN_BITSHIFT ++ uvar_put c_BITSHIFTSIZE s,
            mkE (e_bs es) s (e_chan es) (e_chans es))
    else None
  | IBlock p resn samples => enc_block h es p resn samples
  end.

(* the items in order; no FN_QUIT yet *)
Fixpoint enc_items (h : hdr) (es : estate) (its : list item) : option (bits * estate) :=
  match its with
  | [] => Some ([], es)
  | it :: r => match enc_item h es it with
               | Some (b, es') => match enc_items h es' r with
                                  | Some (b', es'') => Some (b ++ b', es'')
                                  | None => None
                                  end
               | None => None
               end
  end.

Definition enc_header (p : params) : bits :=
  ulong_put (p_ftype p) ++ ulong_put (p_nchan p) ++ ulong_put (p_bs p)
  ++ ulong_put (p_maxnlpc p) ++ ulong_put (p_nmean p) ++ ulong_put (Z.of_nat (length (p_skip p)))
  ++ flat_map (uvar_put c_XBITESIZE) (p_skip p).

Definition valid_params (p : params) : bool :=
  mem (p_version p) g_versions && (0 <=? p_ftype p) && (p_ftype p <? g_ftype_bound)
  && (1 <=? p_nchan p) && (1 <=? p_bs p) && (0 <=? p_maxnlpc p) && (0 <=? p_nmean p)
  && forallb (fun x => 0 <=? x) (p_skip p).

Definition init_estate (p : params) (mean : Z) : estate :=
  mkE (p_bs p) 0 O (repeat (init_chan (hdr_of p) mean) (Z.to_nat (p_nchan p))).

(* header and items, without the final FN_QUIT: a stream that is still open *)
Definition encode_open (p : params) (its : list item) : option (bits * estate) :=
  if negb (valid_params p) then None else
  match mean_init_of g_mean_init (p_ftype p) with
  | None => None
  | Some mean =>
    match enc_items (hdr_of p) (init_estate p mean) its with
    | Some (b, es) => Some (enc_header p ++ b, es)
    | None => None
    end
  end.

Definition encode_bits (p : params) (its : list item) : option bits :=
  if negb (valid_params p) then None else
  match mean_init_of g_mean_init (p_ftype p) with
  | None => None
  | Some mean =>
    let h := hdr_of p in
    let es := init_estate p mean in
    match enc_items h es its with
    | Some (b, _) => Some (enc_header p ++ b ++ uvar_put c_FNSIZE c_FN_QUIT)
    | None => None
    end
  end.

(* bits to bytes, the last word padded with [pad] *)
Fixpoint byte_of (bs : bits) (acc : Z) : Z :=
  match bs with [] => acc | b :: r => byte_of r (2 * acc + Z.b2z b) end.
Fixpoint bytes_of (n : nat) (bs : bits) : list Z :=   (* n bytes *)
  match n with
  | O => []
  | S n' => byte_of (firstn 8 bs) 0 :: bytes_of n' (skipn 8 bs)
  end.
Definition pack (pad : bool) (bs : bits) : list Z :=
  let nw := ((length bs + 31) / 32)%nat in
  bytes_of (4 * nw) (bs ++ repeat pad (32 * nw - length bs)).

Definition version_byte (v : Z) : Z := if v <? 0 then v + 256 else v.

Definition shn_encode (pad : bool) (p : params) (its : list item) : option (list Z) :=
  match encode_bits p its with
  | Some b => Some (c_MAGIC ++ [version_byte (p_version p)] ++ pack pad b)
  | None => None
  end.

(* what the decoder is expected to return for a script: the blocks, grouped
   into rounds of nchan, each round interleaved (sample t of every channel, then
   sample t+1, ...) and passed through the output cast *)

(* [pend]: the blocks of the current round seen so far *)
Fixpoint out_of (dt : dtype) (h : hdr) (pend : list (list Z)) (its : list item) : list Z :=
  match its with
  | [] => []
  | IBlock _ _ s :: r =>
    if Z.of_nat (length pend) =? h_nchan h - 1 then
      map (out_item dt h) (interleave (length s) (pend ++ [s])) ++ out_of dt h [] r
    else out_of dt h (pend ++ [s]) r
  | _ :: r => out_of dt h pend r
  end.

Definition expected (dt : dtype) (p : params) (its : list item) : list Z :=
  out_of dt (hdr_of p) [] its.

(* ------------------------------------------------------------------ *)
(** * The valid choices, spelled out *)

Definition B16 : Z := 32768.
Definition bnd (M x : Z) : Prop := - M <= x <= M.

(* a sample of a 16-bit signal that the current bit shift can represent *)
Definition sample_ok (shift s : Z) : Prop := bnd B16 s /\ s mod 2 ^ shift = 0.

Definition sumabs (qs : list Z) : Z := fold_right (fun q a => Z.abs q + a) 0 qs.

Definition next_chan (p : params) (chan : nat) : nat :=
  if Z.of_nat chan =? p_nchan p - 1 then O else S chan.

(* valid scripts, generic in: which samples a block may hold at a bit shift
   ([sok]), which samples make a FN_ZERO block ([zok]), the bound [Q] on the total
   magnitude of LPC coefficients, and the bound [SH] on bit shifts *)
Section GValid.
Variables (sok zok : Z -> Z -> Prop) (Q SH : Z).

Definition gpred_ok (p : params) (bs shift : Z) (pr : predictor) (smp : list Z) : Prop :=
  match pr with
  | PZero => Forall (zok shift) smp
  | PDiff k => 0 <= k <= 3
  | PQlpc qs => Z.of_nat (length qs) <= p_maxnlpc p /\ Z.max (p_maxnlpc p) c_NWRAP <= bs
                /\ sumabs qs <= Q
  end.

(* [bs], [shift], [chan]: block size, bit shift and channel in force *)
Fixpoint gvalid_items (p : params) (bs shift : Z) (chan : nat) (its : list item) : Prop :=
  match its with
  | [] => True
  | IBlockSize n :: r => chan = O /\ 0 < n <= p_bs p /\ gvalid_items p n shift chan r
  | IBitShift s :: r => 0 <= s < SH /\ gvalid_items p bs s chan r
  | IBlock pr resn smp :: r =>
    Z.of_nat (length smp) = bs /\ 0 <= resn /\ Forall (sok shift) smp /\ gpred_ok p bs shift pr smp
    /\ gvalid_items p bs shift (next_chan p chan) r
  end.
End GValid.

(* 16-bit (and narrower) samples: multiples of 2^shift within 16 bits, FN_ZERO for
   zero samples, LPC coefficients of total magnitude <= 2^14, bit shifts < 32 *)
Definition valid_items : params -> Z -> Z -> nat -> list item -> Prop :=
  gvalid_items sample_ok (fun _ s => s = 0) 16384 32.

(* mu-law codes (TYPE_AU1 / TYPE_AU2): any byte, FN_ZERO for the byte whose code is
   0 (ULAW_OUTWARD[shift][128]), LPC coefficients of total magnitude <= 2^11, bit
   shifts < 13 (the rows of ULAW_OUTWARD) *)
Definition valid_items_au (p : params) : Z -> Z -> nat -> list item -> Prop :=
  gvalid_items (fun _ s => 0 <= s < 256)
               (fun shift s => unfix_sample (p_ftype p) shift s = Some 0) 2048 13 p.

(* ------------------------------------------------------------------ *)
(** * From a signal and per-round choices to a script *)

(* the choices of one round: an optional new bit shift, an optional new block
   size, and for every channel a predictor and a residual width *)
Record round := mkRound { r_shift : option Z; r_bs : option Z; r_blocks : list (predictor * Z) }.

Fixpoint zip_blocks (cs : list (predictor * Z)) (chans : list (list Z)) (n : nat) : list item :=
  match cs, chans with
  | (p, resn) :: cs', ch :: chans' => IBlock p resn (firstn n ch) :: zip_blocks cs' chans' n
  | _, _ => []
  end.

Definition round_bs (bs : Z) (r : round) : Z := match r_bs r with Some n => n | None => bs end.

(* [chans]: what is left of every channel *)
Fixpoint script_of (bs : Z) (rs : list round) (chans : list (list Z)) : list item :=
  match rs with
  | [] => []
  | r :: rs' =>
    let n := Z.to_nat (round_bs bs r) in
    (match r_shift r with Some s => [IBitShift s] | None => [] end)
    ++ (match r_bs r with Some n => [IBlockSize n] | None => [] end)
    ++ zip_blocks (r_blocks r) chans n
    ++ script_of (round_bs bs r) rs' (map (skipn n) chans)
  end.

(* the samples consumed by the rounds *)
Fixpoint total_len (bs : Z) (rs : list round) : nat :=
  match rs with
  | [] => O
  | r :: rs' => (Z.to_nat (round_bs bs r) + total_len (round_bs bs r) rs')%nat
  end.


(* ------------------------------------------------------------------ *)
(** * The word-level bit reader (word_get, uvar_get with gbuffer / nbitget) *)

Definition byte_ok (b : Z) : Prop := 0 <= b < 256.

(* struct.unpack(">l", four bytes) *)
Definition word_of (b0 b1 b2 b3 : Z) : Z :=
  let u := ((b0 * 256 + b1) * 256 + b2) * 256 + b3 in
  if u <? 2147483648 then u else u - 4294967296.

Fixpoint words_of (bytes : list Z) : list Z :=
  match bytes with
  | b0 :: b1 :: b2 :: b3 :: r => word_of b0 b1 b2 b3 :: words_of r
  | _ => []
  end.

(* gbuffer, nbitget, and the words not yet fetched *)
Record wst := mkW { w_g : Z; w_n : Z; w_ws : list Z }.

Definition masktab (k : Z) : Z := Z.shiftl 1 k - 1.

(* while True: nbitget -= 1; if gbuffer & (1 << nbitget): break;
               if not nbitget: gbuffer = word_get(); nbitget = 32;  result += 1 *)
Fixpoint unary_w (fuel : nat) (g n : Z) (ws : list Z) (result : Z) : res (Z * wst) :=
  match fuel with
  | O => Err EFuel
  | S f =>
    let n1 := n - 1 in
    if negb (Z.land g (Z.shiftl 1 n1) =? 0) then Ok (result, mkW g n1 ws)
    else if n1 =? 0 then
      match ws with
      | [] => Err EIO
      | w :: r => unary_w f w c_NBITPERLONG r (result + 1)
      end
    else unary_w f g n1 ws (result + 1)
  end.

(* while nbin: ... *)
Fixpoint low_w (fuel : nat) (nbin : Z) (g n : Z) (ws : list Z) (result : Z) : res (Z * wst) :=
  match fuel with
  | O => Err EFuel
  | S f =>
    if nbin =? 0 then Ok (result, mkW g n ws)
    else if nbin <=? n then
      Ok (Z.lor (Z.shiftl result nbin) (Z.land (Z.shiftr g (n - nbin)) (masktab nbin)),
          mkW g (n - nbin) ws)
    else
      match ws with
      | [] => Err EIO
      | w :: r => low_w f (nbin - n) w c_NBITPERLONG r
                        (Z.lor (Z.shiftl result n) (Z.land g (masktab n)))
      end
  end.

Definition uvar_get_w (nbin : Z) (w : wst) : res (Z * wst) :=
  do w0 <- (if w_n w =? 0 then
              match w_ws w with
              | [] => Err EIO
              | x :: r => Ok (mkW x c_NBITPERLONG r)
              end
            else Ok w) ;;
  do '(result, w1) <- unary_w (Z.to_nat (w_n w0) + 32 * length (w_ws w0) + 1) (w_g w0) (w_n w0) (w_ws w0) 0 ;;
  low_w (length (w_ws w1) + 2) nbin (w_g w1) (w_n w1) (w_ws w1) result.

(* the bits a reader state still has to deliver *)
Fixpoint bits_lo (g : Z) (k : nat) : bits :=
  match k with
  | O => []
  | S k' => Z.testbit g (Z.of_nat k') :: bits_lo g k'
  end.

Definition abs_w (w : wst) : bits :=
  bits_lo (w_g w) (Z.to_nat (w_n w)) ++ flat_map (fun x => bits_lo x 32) (w_ws w).
