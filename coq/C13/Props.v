(* C13 - the property theorems, and nothing else.  Each is closed by [exact] of a
   lemma of the proof files; the axioms each depends on are printed beneath it.
   All are statements about C13/Model.v over the constants and tables of
   gen/Shorten.v, which is regenerated from _sphere.py on every run. *)
From Coq Require Import ZArith List Bool.
From Verif Require Import gen.Shorten C13.Model C13.Bits C13.Block C13.Stream C13.Total C13.Matrix C13.Extras C13.WordReader.
Import ListNotations.
Open Scope Z_scope.

(* the variable-length integer codes: the reader inverts the writer for every
   continuation of the stream, and raises IOError on every truncation *)
Theorem uvar_roundtrip : forall nbin v, 0 <= nbin -> 0 <= v ->
  (forall t, uvar_get nbin (uvar_put nbin v ++ t) = Ok (v, t))
  /\ (forall p, sprefix p (uvar_put nbin v) -> uvar_get nbin p = Err EIO).
Proof. exact uvar_roundtrip_l. Qed.
Print Assumptions uvar_roundtrip.

Theorem var_roundtrip : forall nbin v, 0 <= nbin ->
  (forall t, var_get nbin (var_put nbin v ++ t) = Ok (v, t))
  /\ (forall p, sprefix p (var_put nbin v) -> var_get nbin p = Err EIO).
Proof. exact var_roundtrip_l. Qed.
Print Assumptions var_roundtrip.

Theorem ulong_roundtrip : forall v, 0 <= v ->
  (forall t, ulong_get (ulong_put v ++ t) = Ok (v, t))
  /\ (forall p, sprefix p (ulong_put v) -> ulong_get p = Err EIO).
Proof. exact ulong_roundtrip_l. Qed.
Print Assumptions ulong_roundtrip.

(* one block command of any kind (DIFF0-3, QLPC, ZERO) written by the encoder in
   state [es] is read back by the decoder in any state [st] that mirrors [es];
   the decoder then holds the block's samples and mirrors the encoder again *)
Theorem block_roundtrip : forall dt h es st p resn samples code es',
  sim es st -> enc_block h es p resn samples = Some (code, es') ->
  parses (step dt h st) code (SCont (next_st dt h st (e_chans es') samples))
  /\ sim es' (next_st dt h st (e_chans es') samples).
Proof. exact enc_block_step. Qed.
Print Assumptions block_roundtrip.

(* every stream the encoder can produce - any version, type, channel count,
   block sizes, bit shifts, running-mean length, any sequence of commands with
   any residual width and LPC coefficients - decodes to exactly its samples,
   whatever bits pad the last word *)
Theorem decode_encode : forall dt pad p its bytes,
  shn_encode pad p its = Some bytes -> shn_decode dt bytes = Ok (expected dt p its).
Proof. exact decode_encode_l. Qed.
Print Assumptions decode_encode.

(* cut anywhere before the last bit of FN_QUIT has been delivered in a complete
   32-bit word (k counts the bytes kept, magic and version included): IOError *)
Theorem early_eof_error : forall dt pad p its b k,
  encode_bits p its = Some b ->
  (4 <= k)%nat -> (32 * ((k - 5) / 4) < length b)%nat ->
  shn_decode dt (firstn k (c_MAGIC ++ [version_byte (p_version p)] ++ pack pad b)) = Err EIO.
Proof. exact early_eof_l. Qed.
Print Assumptions early_eof_error.

(* a command code other than the nine known ones, after any valid open stream *)
Theorem unknown_cmd_error : forall dt pad p its b es cmd rest,
  encode_open p its = Some (b, es) ->
  0 <= cmd -> (cmd =? c_FN_QUIT) = false -> mem cmd g_block_cmds = false ->
  (cmd =? c_FN_BLOCKSIZE) = false -> (cmd =? c_FN_BITSHIFT) = false ->
  shn_decode dt (c_MAGIC ++ [version_byte (p_version p)]
                 ++ pack pad (b ++ uvar_put c_FNSIZE cmd ++ rest)) = Err EIO.
Proof. exact unknown_cmd_l. Qed.
Print Assumptions unknown_cmd_error.

Theorem bad_version_error : forall dt vb body,
  mem (if vb <? 128 then vb else vb - 256) g_versions = false ->
  shn_decode dt (c_MAGIC ++ vb :: body) = Err EIO.
Proof. exact bad_version_l. Qed.
Print Assumptions bad_version_error.

(* the valid choices spelled out (16-bit and narrower sample types that are not
   mu-law codes): every block has the size in force, every sample fits 16 bits and
   is a multiple of 2^bitshift, FN_BLOCKSIZE only between rounds and not above the
   header's block size, bit shifts below 32, residual widths >= 0, DIFF orders 0-3,
   FN_ZERO for all-zero blocks, LPC orders up to maxnlpc with coefficients of total
   magnitude <= 2^14 in blocks no shorter than the history.  The encoder accepts
   every such script - so decode_encode is about all of them - and none of the
   decoder's int32 computations leaves its range (the model would answer EUnspec) *)
Theorem encode_total : forall pad p its,
  valid_params p = true -> mem (p_ftype p) g_au_types = false ->
  valid_items p (p_bs p) 0 O its ->
  exists bytes, shn_encode pad p its = Some bytes.
Proof. exact encode_total_l. Qed.
Print Assumptions encode_total.

Theorem decode_encode_valid : forall dt pad p its,
  valid_params p = true -> mem (p_ftype p) g_au_types = false ->
  valid_items p (p_bs p) 0 O its ->
  exists bytes, shn_encode pad p its = Some bytes
                /\ shn_decode dt bytes = Ok (expected dt p its).
Proof. exact decode_encode_valid_l. Qed.
Print Assumptions decode_encode_valid.

(* the same for mu-law codes (TYPE_AU1, TYPE_AU2): any bytes, bit shifts 0..12 that
   may change between blocks, LPC coefficients of total magnitude <= 2^11 *)
Theorem encode_total_au : forall pad p its,
  valid_params p = true -> p_ftype p = c_TYPE_AU1 \/ p_ftype p = c_TYPE_AU2 ->
  valid_items_au p (p_bs p) 0 O its ->
  exists bytes, shn_encode pad p its = Some bytes.
Proof. exact encode_total_au_l. Qed.
Print Assumptions encode_total_au.

Theorem decode_encode_valid_au : forall dt pad p its,
  valid_params p = true -> p_ftype p = c_TYPE_AU1 \/ p_ftype p = c_TYPE_AU2 ->
  valid_items_au p (p_bs p) 0 O its ->
  exists bytes, shn_encode pad p its = Some bytes
                /\ shn_decode dt bytes = Ok (expected dt p its).
Proof. exact decode_encode_valid_au_l. Qed.
Print Assumptions decode_encode_valid_au.

(* from a multi-channel signal and per-round choices: the decoded array is the
   signal, channels interleaved sample by sample *)
Theorem decode_encode_signal : forall dt pad p rs chans,
  valid_params p = true -> mem (p_ftype p) g_au_types = false ->
  chans <> [] -> Z.of_nat (length chans) = p_nchan p ->
  Forall (fun r => length (r_blocks r) = length chans) rs ->
  Forall (fun ch => length ch = total_len (p_bs p) rs) chans ->
  valid_items p (p_bs p) 0 O (script_of (p_bs p) rs chans) ->
  exists bytes,
    shn_encode pad p (script_of (p_bs p) rs chans) = Some bytes
    /\ shn_decode dt bytes
       = Ok (map (out_item dt (hdr_of p)) (interleave (total_len (p_bs p) rs) chans)).
Proof. exact decode_encode_signal_valid_l. Qed.
Print Assumptions decode_encode_signal.

Theorem output_cast_exact : forall dt p v,
  mem (p_ftype p) g_au_types = false ->
  (dt = DT_I32 \/ (dt = DT_I16 /\ -32768 <= v < 32768)) ->
  out_item dt (hdr_of p) v = v.
Proof. exact out_item_exact_l. Qed.
Print Assumptions output_cast_exact.

(* mu-law (TYPE_AU1, TYPE_AU2): every byte has a code at every bit shift 0..12, and
   fix_bitshift maps the code back to the byte (exhaustive over the generated table) *)
Theorem au_unfix_total : forall ftype b u,
  ftype = c_TYPE_AU1 \/ ftype = c_TYPE_AU2 -> 0 <= b < 13 -> 0 <= u < 256 ->
  exists v, unfix_sample ftype b u = Some v /\ fix_sample ftype b v = Some u /\ -129 <= v <= 127.
Proof. exact au_unfix_total_l. Qed.
Print Assumptions au_unfix_total.

(* the polynomial predictors: DIFFk stores the k-th finite difference *)
Theorem diff_residual_is_finite_difference : forall co v b0 b1 b2 rest,
  let buf := b0 :: b1 :: b2 :: rest in
  v - pred_diff c_FN_DIFF0 co buf = v - co
  /\ v - pred_diff c_FN_DIFF1 co buf = delta1 v b0
  /\ v - pred_diff c_FN_DIFF2 co buf = delta2 v b0 b1
  /\ v - pred_diff c_FN_DIFF3 co buf = delta3 v b0 b1 b2.
Proof. exact diff_is_finite_difference. Qed.
Print Assumptions diff_residual_is_finite_difference.

(* the word-level reader of the source (gbuffer, nbitget, signed big-endian words,
   mask table) against the bit-list reader all other theorems are about: from any
   reader state, uvar_get returns the same value, leaves the same bits, and raises
   IOError exactly when the bits run out *)
Theorem uvar_get_w_refines : forall nbin w,
  0 <= nbin -> 0 <= w_n w <= 32 ->
  match uvar_get nbin (abs_w w) with
  | Ok (v, rest) => exists w', uvar_get_w nbin w = Ok (v, w') /\ abs_w w' = rest /\ 0 <= w_n w' <= 32
  | Err _ => uvar_get_w nbin w = Err EIO
  end.
Proof. exact uvar_get_w_refines_l. Qed.
Print Assumptions uvar_get_w_refines.

(* and the state before the first call (gbuffer = nbitget = 0, all words unread)
   stands for the bit list the decoder model starts from *)
Theorem word_reader_initial_state : forall bytes,
  Forall byte_ok bytes -> abs_w (mkW 0 0 (words_of bytes)) = words_bits bytes.
Proof. exact initial_state_l. Qed.
Print Assumptions word_reader_initial_state.
