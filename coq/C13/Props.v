(* C13 - the property theorems, and nothing else.  Each is closed by [exact] of a
   lemma of the proof files; the axioms each depends on are printed beneath it.
   All are statements about C13/Model.v over the constants and tables of
   gen/Shorten.v, which is regenerated from _sphere.py on every run. *)
From Coq Require Import ZArith List Bool.
From Verif Require Import gen.Shorten C13.Model C13.Bits C13.Block C13.Stream.
Import ListNotations.
Open Scope Z_scope.

(* the variable-length integer codes: the reader inverts the writer for every
   continuation of the stream, and raises IOError on every truncation *)
Theorem uvar_roundtrip : forall nbin v, 0 <= nbin -> 0 <= v ->
  (forall t, uvar_get nbin (uvar_put nbin v ++ t) = Ok (v, t))
  /\ (forall p, sprefix p (uvar_put nbin v) -> uvar_get nbin p = Err EIO).
Proof. exact uvar_roundtrip_l. Qed.
Print Assumptions uvar_roundtrip.

Theorem var_roundtrip : forall nbin v, 0 <= nbin ->
  (forall t, var_get nbin (var_put nbin v ++ t) = Ok (v, t))
  /\ (forall p, sprefix p (var_put nbin v) -> var_get nbin p = Err EIO).
Proof. exact var_roundtrip_l. Qed.
Print Assumptions var_roundtrip.

Theorem ulong_roundtrip : forall v, 0 <= v ->
  (forall t, ulong_get (ulong_put v ++ t) = Ok (v, t))
  /\ (forall p, sprefix p (ulong_put v) -> ulong_get p = Err EIO).
Proof. exact ulong_roundtrip_l. Qed.
Print Assumptions ulong_roundtrip.

(* one block command of any kind (DIFF0-3, QLPC, ZERO) written by the encoder in
   state [es] is read back by the decoder in any state [st] that mirrors [es];
   the decoder then holds the block's samples and mirrors the encoder again *)
Theorem block_roundtrip : forall dt h es st p resn samples code es',
  sim es st -> enc_block h es p resn samples = Some (code, es') ->
  parses (step dt h st) code (SCont (next_st dt h st (e_chans es') samples))
  /\ sim es' (next_st dt h st (e_chans es') samples).
Proof. exact enc_block_step. Qed.
Print Assumptions block_roundtrip.

(* every stream the encoder can produce - any version, type, channel count,
   block sizes, bit shifts, running-mean length, any sequence of commands with
   any residual width and LPC coefficients - decodes to exactly its samples,
   whatever bits pad the last word *)
Theorem decode_encode : forall dt pad p its bytes,
  shn_encode pad p its = Some bytes -> shn_decode dt bytes = Ok (expected dt p its).
Proof. exact decode_encode_l. Qed.
Print Assumptions decode_encode.

(* cut anywhere before the last bit of FN_QUIT has been delivered in a complete
   32-bit word (k counts the bytes kept, magic and version included): IOError *)
Theorem early_eof_error : forall dt pad p its b k,
  encode_bits p its = Some b ->
  (4 <= k)%nat -> (32 * ((k - 5) / 4) < length b)%nat ->
  shn_decode dt (firstn k (c_MAGIC ++ [version_byte (p_version p)] ++ pack pad b)) = Err EIO.
Proof. exact early_eof_l. Qed.
Print Assumptions early_eof_error.

(* a command code other than the nine known ones, after any valid open stream *)
Theorem unknown_cmd_error : forall dt pad p its b es cmd rest,
  encode_open p its = Some (b, es) ->
  0 <= cmd -> (cmd =? c_FN_QUIT) = false -> mem cmd g_block_cmds = false ->
  (cmd =? c_FN_BLOCKSIZE) = false -> (cmd =? c_FN_BITSHIFT) = false ->
  shn_decode dt (c_MAGIC ++ [version_byte (p_version p)]
                 ++ pack pad (b ++ uvar_put c_FNSIZE cmd ++ rest)) = Err EIO.
Proof. exact unknown_cmd_l. Qed.
Print Assumptions unknown_cmd_error.

Theorem bad_version_error : forall dt vb body,
  mem (if vb <? 128 then vb else vb - 256) g_versions = false ->
  shn_decode dt (c_MAGIC ++ vb :: body) = Err EIO.
Proof. exact bad_version_l. Qed.
Print Assumptions bad_version_error.
