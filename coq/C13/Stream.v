(* C13 - whole streams: script of items, header, packing into bytes, and the
   top-level statements about [shn_decode]. *)
From Coq Require Import ZArith List Bool Lia.
From Verif Require Import gen.Shorten C13.Model C13.Bits C13.Block.
Import ListNotations.
Open Scope Z_scope.

(* ------------------------------------------------------------------ *)
(** * One item *)

Lemma step_nil dt h st : step dt h st [] = Err EIO.
Proof. reflexivity. Qed.

Lemma parses_step_nonempty dt h st e v : parses (step dt h st) e v -> e <> [].
Proof.
  intros [P _] ->. specialize (P []). simpl in P. rewrite step_nil in P. discriminate.
Qed.

Lemma enc_item_step dt h es st it code es' :
  sim es st -> enc_item h es it = Some (code, es') ->
  exists st', parses (step dt h st) code (SCont st') /\ sim es' st'
    /\ forall r, d_out st' ++ out_of dt h (d_pend st') r
                 = d_out st ++ out_of dt h (d_pend st) (it :: r).
Proof.
  intros S H. pose proof S as (Sb & Ss & Sc & Sp). destruct it as [n|s|p resn samples]; simpl in H.
  - destruct ((0 <? n) && (n <=? h_cap h) && Nat.eqb (e_chan es) 0) eqn:E; [|discriminate].
    injection H as <- <-.
    apply andb_true_iff in E. destruct E as [E E3]. apply andb_true_iff in E. destruct E as [E1 E2].
    apply Nat.eqb_eq in E3.
    assert (Hp : d_pend st = []) by (destruct (d_pend st); [reflexivity|simpl in Sp; lia]).
    eexists. split; [apply step_blocksize; [lia|lia|exact Hp]|]. split.
    + repeat split; simpl; auto.
    + intros r. reflexivity.
  - destruct (0 <=? s) eqn:E; [|discriminate]. injection H as <- <-.
    eexists. split; [apply step_bitshift; lia|]. split.
    + repeat split; simpl; auto.
    + intros r. reflexivity.
  - destruct (enc_block_step dt h es st p resn samples code es' S H) as [P S'].
    eexists. split; [exact P|]. split; [exact S'|].
    intros r. unfold next_st. cbn [out_of].
    destruct (Z.of_nat (length (d_pend st)) =? h_nchan h - 1); cbn [d_out d_pend].
    + now rewrite <- app_assoc.
    + reflexivity.
Qed.

(* ------------------------------------------------------------------ *)
(** * A script of items *)

Lemma run_items dt h : forall its es st b es',
  sim es st -> enc_items h es its = Some (b, es') ->
  exists st', sim es' st'
    /\ (forall r, d_out st' ++ out_of dt h (d_pend st') r
                  = d_out st ++ out_of dt h (d_pend st) (its ++ r))
    /\ (forall fuel rest, (length (b ++ rest) < fuel)%nat ->
          exists fuel', (length rest < fuel')%nat
                        /\ run fuel dt h st (b ++ rest) = run fuel' dt h st' rest)
    /\ (forall fuel q, sprefix q b -> (length q < fuel)%nat -> run fuel dt h st q = Err EIO).
Proof.
  induction its as [|it its IH]; intros es st b es' S H; simpl in H.
  - injection H as <- <-. exists st. split; [exact S|]. split; [reflexivity|]. split.
    + intros fuel rest L. exists fuel. split; [exact L|reflexivity].
    + intros fuel q Hq. now apply sprefix_nil_r in Hq.
  - destruct (enc_item h es it) as [[c1 es1]|] eqn:E1; [|discriminate].
    destruct (enc_items h es1 its) as [[b' es2]|] eqn:E2; [|discriminate].
    injection H as <- <-.
    destruct (enc_item_step dt h es st it c1 es1 S E1) as (st1 & P1 & S1 & O1).
    destruct (IH es1 st1 b' es2 S1 E2) as (st' & S' & O' & R1 & R2).
    pose proof (parses_step_nonempty _ _ _ _ _ P1) as Hne.
    destruct P1 as [P1a P1b].
    exists st'. split; [exact S'|]. split; [|split].
    + intros r. rewrite O'. rewrite O1. reflexivity.
    + intros fuel rest L. destruct fuel as [|f]; [lia|].
      rewrite <- app_assoc. cbn [run]. rewrite P1a. cbn [bind].
      apply R1. rewrite <- app_assoc, app_length in L.
      destruct c1; [congruence|]. simpl in L. lia.
    + intros fuel q Hq L. destruct fuel as [|f]; [lia|]. cbn [run].
      apply sprefix_app in Hq. destruct Hq as [Hq | (q2 & -> & Hq)].
      * now rewrite (P1b _ Hq).
      * rewrite P1a. cbn [bind]. apply R2; [exact Hq|].
        rewrite app_length in L. destruct c1; [congruence|]. simpl in L. lia.
Qed.

(* ------------------------------------------------------------------ *)
(** * Header *)

Lemma valid_params_inv p : valid_params p = true ->
  mem (p_version p) g_versions = true /\ 0 <= p_ftype p /\ (g_ftype_bound <=? p_ftype p) = false
  /\ 1 <= p_nchan p /\ 1 <= p_bs p /\ 0 <= p_maxnlpc p /\ 0 <= p_nmean p
  /\ Forall (fun x => 0 <= x) (p_skip p).
Proof.
  unfold valid_params. intros H.
  repeat (apply andb_true_iff in H; destruct H as [H ?]).
  repeat split; try lia; auto.
  apply Forall_forall. intros x Hx. rewrite forallb_forall in H0. specialize (H0 x Hx). lia.
Qed.

Lemma read_header_parses p mean :
  valid_params p = true -> mean_init_of g_mean_init (p_ftype p) = Some mean ->
  parses (read_header (p_version p)) (enc_header p)
         (hdr_of p, init_state (hdr_of p) mean).
Proof.
  intros V M. destruct (valid_params_inv p V) as (_ & F0 & Fb & C1 & B1 & L0 & N0 & Sk).
  unfold enc_header.
  eapply (parses_bind ulong_get); [apply ulong_roundtrip_l; lia|]. cbv beta. rewrite Fb.
  eapply (parses_bind ulong_get); [apply ulong_roundtrip_l; lia|]. cbv beta.
  eapply (parses_bind ulong_get); [apply ulong_roundtrip_l; lia|]. cbv beta.
  eapply (parses_bind ulong_get); [apply ulong_roundtrip_l; lia|]. cbv beta.
  eapply (parses_bind ulong_get); [apply ulong_roundtrip_l; lia|]. cbv beta.
  eapply (parses_bind ulong_get); [apply ulong_roundtrip_l; lia|]. cbv beta.
  rewrite Nat2Z.id.
  rewrite <- (app_nil_r (flat_map _ _)).
  eapply (parses_bind (skip_n (length (p_skip p)))); [now apply skip_n_roundtrip|].
  cbv beta zeta. rewrite M. apply parses_ret.
Qed.

Lemma init_sim p mean : sim (init_estate p mean) (init_state (hdr_of p) mean).
Proof. repeat split. Qed.

(* ------------------------------------------------------------------ *)
(** * The bit level *)

Lemma encode_open_inv p its b es :
  encode_open p its = Some (b, es) ->
  exists mean b',
    valid_params p = true /\ mean_init_of g_mean_init (p_ftype p) = Some mean
    /\ enc_items (hdr_of p) (init_estate p mean) its = Some (b', es) /\ b = enc_header p ++ b'.
Proof.
  unfold encode_open. intros H.
  destruct (valid_params p) eqn:V; [|discriminate]. cbn [negb] in H.
  destruct (mean_init_of g_mean_init (p_ftype p)) as [mean|] eqn:M; [|discriminate].
  destruct (enc_items _ _ its) as [[b' es']|] eqn:E; [|discriminate].
  injection H as <- <-. exists mean, b'. auto.
Qed.

Lemma encode_bits_open p its b :
  encode_bits p its = Some b <->
  exists b0 es, encode_open p its = Some (b0, es) /\ b = b0 ++ uvar_put c_FNSIZE c_FN_QUIT.
Proof.
  unfold encode_bits, encode_open.
  destruct (valid_params p); cbn [negb]; [|split; [discriminate|intros (? & ? & HH & _); discriminate HH]].
  destruct (mean_init_of g_mean_init (p_ftype p)) as [mean|];
    [|split; [discriminate|intros (? & ? & HH & _); discriminate HH]].
  destruct (enc_items _ _ its) as [[b' es']|];
    [|split; [discriminate|intros (? & ? & HH & _); discriminate HH]].
  split.
  - intros H. injection H as <-. exists (enc_header p ++ b'), es'. split; [reflexivity|].
    now rewrite app_assoc.
  - intros (b0 & es & H & ->). injection H as <- <-. now rewrite app_assoc.
Qed.

(* an open stream brings the decoder to a state from which the rest is run *)
Lemma decode_open dt p its b es :
  encode_open p its = Some (b, es) ->
  exists st,
    sim es st
    /\ d_out st ++ out_of dt (hdr_of p) (d_pend st) [] = expected dt p its
    /\ (forall rest, exists fuel, (length rest < fuel)%nat
          /\ decode_bits dt (p_version p) (b ++ rest) = run fuel dt (hdr_of p) st rest)
    /\ (forall q, sprefix q b -> decode_bits dt (p_version p) q = Err EIO).
Proof.
  intros H. destruct (encode_open_inv _ _ _ _ H) as (mean & b' & V & M & E & ->).
  destruct (run_items dt (hdr_of p) its _ _ b' es (init_sim p mean) E) as (st & S & O & R1 & R2).
  destruct (read_header_parses p mean V M) as [H1 H2].
  exists st. split; [exact S|]. split; [|split].
  - rewrite O. rewrite app_nil_r. reflexivity.
  - intros rest. unfold decode_bits. rewrite <- app_assoc, H1. cbn [bind].
    apply R1. lia.
  - intros q Hq. unfold decode_bits.
    apply sprefix_app in Hq. destruct Hq as [Hq | (q2 & -> & Hq)].
    + now rewrite (H2 _ Hq).
    + rewrite H1. cbn [bind]. apply R2; [exact Hq|lia].
Qed.

Lemma decode_encode_bits dt p its b :
  encode_bits p its = Some b ->
  (forall t, decode_bits dt (p_version p) (b ++ t) = Ok (expected dt p its))
  /\ (forall q, sprefix q b -> decode_bits dt (p_version p) q = Err EIO).
Proof.
  intros H. apply encode_bits_open in H. destruct H as (b0 & es & H & ->).
  destruct (decode_open dt p its b0 es H) as (st & S & O & R1 & R2).
  destruct (step_quit dt (hdr_of p) st) as [Q1 Q2].
  split.
  - intros t. rewrite <- app_assoc.
    destruct (R1 (uvar_put c_FNSIZE c_FN_QUIT ++ t)) as (fuel & L & ->).
    destruct fuel as [|f]; [lia|]. cbn [run]. rewrite Q1. cbn [bind].
    rewrite <- O. cbn [out_of]. now rewrite app_nil_r.
  - intros q Hq. apply sprefix_app in Hq. destruct Hq as [Hq | (q2 & -> & Hq)].
    + now apply R2.
    + destruct (R1 q2) as (fuel & L & ->).
      destruct fuel as [|f]; [lia|]. cbn [run]. now rewrite (Q2 _ Hq).
Qed.

(* an unknown command after any valid open stream *)
Lemma step_unknown dt h st cmd rest :
  0 <= cmd -> (cmd =? c_FN_QUIT) = false -> mem cmd g_block_cmds = false ->
  (cmd =? c_FN_BLOCKSIZE) = false -> (cmd =? c_FN_BITSHIFT) = false ->
  step dt h st (uvar_put c_FNSIZE cmd ++ rest) = Err EIO.
Proof.
  intros H0 H1 H2 H3 H4. unfold step.
  destruct (uvar_roundtrip_l c_FNSIZE cmd) as [U _]; [apply width_nonneg|exact H0|].
  rewrite U. cbn [bind]. now rewrite H1, H2, H3, H4.
Qed.

Lemma unknown_cmd_bits dt p its b es cmd rest :
  encode_open p its = Some (b, es) ->
  0 <= cmd -> (cmd =? c_FN_QUIT) = false -> mem cmd g_block_cmds = false ->
  (cmd =? c_FN_BLOCKSIZE) = false -> (cmd =? c_FN_BITSHIFT) = false ->
  decode_bits dt (p_version p) (b ++ uvar_put c_FNSIZE cmd ++ rest) = Err EIO.
Proof.
  intros H H0 H1 H2 H3 H4.
  destruct (decode_open dt p its b es H) as (st & S & O & R1 & R2).
  destruct (R1 (uvar_put c_FNSIZE cmd ++ rest)) as (fuel & L & ->).
  destruct fuel as [|f]; [lia|]. cbn [run]. now rewrite step_unknown.
Qed.

(* ------------------------------------------------------------------ *)
(** * Bytes *)

Lemma bits8_byte_of w : length w = 8%nat -> bits8 (byte_of w 0) = w.
Proof.
  intros L.
  do 8 (destruct w as [|? w]; [discriminate|]). destruct w; [|discriminate].
  repeat match goal with b : bool |- _ => destruct b end; reflexivity.
Qed.

Lemma bits8_length b : length (bits8 b) = 8%nat.
Proof. reflexivity. Qed.

Lemma words_bits_bytes_of nw : forall l, length l = (32 * nw)%nat -> words_bits (bytes_of (4 * nw) l) = l.
Proof.
  induction nw as [|nw IH]; intros l L.
  - destruct l; [reflexivity|discriminate].
  - replace (4 * S nw)%nat with (S (S (S (S (4 * nw))))) by lia.
    cbn [bytes_of words_bits].
    rewrite !bits8_byte_of by (rewrite firstn_length, ?skipn_length; lia).
    rewrite IH by (rewrite !skipn_length; lia).
    rewrite (firstn_skipn 8 (skipn 8 (skipn 8 (skipn 8 l)))).
    rewrite (firstn_skipn 8 (skipn 8 (skipn 8 l))).
    rewrite (firstn_skipn 8 (skipn 8 l)).
    apply firstn_skipn.
Qed.

Lemma words_bits_pack pad b : exists tail, words_bits (pack pad b) = b ++ tail.
Proof.
  unfold pack. set (nw := ((length b + 31) / 32)%nat).
  exists (repeat pad (32 * nw - length b)).
  apply words_bits_bytes_of.
  rewrite app_length, repeat_length.
  assert (length b <= 32 * nw)%nat; [|lia].
  unfold nw. pose proof (Nat.div_mod (length b + 31) 32).
  pose proof (Nat.mod_upper_bound (length b + 31) 32). lia.
Qed.

Lemma words_bits_short l : (length l < 4)%nat -> words_bits l = [].
Proof.
  intros L. do 4 (destruct l as [|? l]; [reflexivity|]). simpl in L. lia.
Qed.

Lemma words_bits_firstn : forall k bytes,
  exists tail, words_bits bytes = words_bits (firstn k bytes) ++ tail
               /\ (length (words_bits (firstn k bytes)) <= 32 * (k / 4))%nat.
Proof.
  induction k as [k IH] using lt_wf_ind. intros bytes.
  destruct (Nat.lt_ge_cases (length bytes) 4) as [Hb | Hb].
  { exists []. rewrite (words_bits_short bytes Hb).
    rewrite words_bits_short by (rewrite firstn_length; lia). split; [reflexivity|simpl; lia]. }
  destruct (Nat.lt_ge_cases k 4) as [Hk | Hk].
  { exists (words_bits bytes).
    rewrite (words_bits_short (firstn k bytes)) by (rewrite firstn_length; lia).
    split; [reflexivity|simpl; lia]. }
  destruct bytes as [|b0 [|b1 [|b2 [|b3 r]]]]; try (simpl in Hb; lia).
  destruct (IH (k - 4)%nat ltac:(lia) r) as (tail & E & L).
  exists tail. replace k with (S (S (S (S (k - 4))))) at 1 2 by lia.
  cbn [firstn words_bits]. split.
  - rewrite E at 1. now rewrite <- !app_assoc.
  - rewrite !app_length, !bits8_length.
    assert (k / 4 = S ((k - 4) / 4))%nat.
    { replace k with ((k - 4) + 1 * 4)%nat at 1 by lia. rewrite Nat.div_add by lia. lia. }
    lia.
Qed.

Lemma versions_small v : mem v g_versions = true -> 0 <= v < 128.
Proof.
  unfold mem, g_versions. simpl. intros H.
  repeat (apply orb_true_iff in H; destruct H as [H | H]; [apply Z.eqb_eq in H; lia|]).
  discriminate.
Qed.

Lemma shn_decode_unfold dt v body :
  mem v g_versions = true ->
  shn_decode dt (c_MAGIC ++ [version_byte v] ++ body) = decode_bits dt v (words_bits body).
Proof.
  intros M. pose proof (versions_small v M) as Hv.
  unfold version_byte. replace (v <? 0) with false by (symmetry; apply Z.ltb_ge; lia).
  cbn -[decode_bits words_bits mem g_versions].
  replace (v <? 128) with true by (symmetry; apply Z.ltb_lt; lia).
  now rewrite M.
Qed.

(* ------------------------------------------------------------------ *)
(** * Top level *)

Lemma encode_bits_version p its b : encode_bits p its = Some b -> mem (p_version p) g_versions = true.
Proof.
  unfold encode_bits. destruct (valid_params p) eqn:V; [|discriminate]. intros _.
  now apply valid_params_inv in V.
Qed.

Lemma decode_encode_l dt pad p its bytes :
  shn_encode pad p its = Some bytes -> shn_decode dt bytes = Ok (expected dt p its).
Proof.
  unfold shn_encode. destruct (encode_bits p its) as [b|] eqn:E; [|discriminate].
  intros H.
  assert (bytes = c_MAGIC ++ [version_byte (p_version p)] ++ pack pad b) by congruence.
  subst bytes. clear H.
  rewrite shn_decode_unfold by (eapply encode_bits_version; eauto).
  destruct (words_bits_pack pad b) as (tail & ->).
  now apply decode_encode_bits.
Qed.

(* the stream cut after k bytes, while some bit of the encoding is still missing *)
Lemma early_eof_l dt pad p its b k :
  encode_bits p its = Some b ->
  (4 <= k)%nat -> (32 * ((k - 5) / 4) < length b)%nat ->
  shn_decode dt (firstn k (c_MAGIC ++ [version_byte (p_version p)] ++ pack pad b)) = Err EIO.
Proof.
  intros E K4 K.
  pose proof (encode_bits_version _ _ _ E) as M.
  destruct (Nat.eq_dec k 4) as [-> | Hk].
  - reflexivity.
  - assert (F : firstn k (c_MAGIC ++ [version_byte (p_version p)] ++ pack pad b)
                 = c_MAGIC ++ [version_byte (p_version p)] ++ firstn (k - 5) (pack pad b)).
    { replace k with (S (S (S (S (S (k - 5)))))) at 1 by lia. reflexivity. }
    rewrite F.
    rewrite shn_decode_unfold by exact M.
    destruct (words_bits_firstn (k - 5) (pack pad b)) as (tail & E1 & L).
    destruct (words_bits_pack pad b) as (tail2 & E2).
    apply (decode_encode_bits dt p its b E).
    (* words_bits (firstn ..) is a prefix of b ++ tail2 shorter than b *)
    rewrite E2 in E1.
    set (w := words_bits (firstn (k - 5) (pack pad b))) in *.
    assert (Lw : (length w < length b)%nat) by lia.
    exists (skipn (length w) b). split.
    + intros C. apply (f_equal (@length bool)) in C. rewrite skipn_length in C. simpl in C. lia.
    + rewrite <- (firstn_skipn (length w) b) at 1. f_equal.
      apply (f_equal (firstn (length w))) in E1.
      rewrite firstn_app in E1. replace (length w - length b)%nat with O in E1 by lia.
      rewrite firstn_O, app_nil_r in E1. rewrite E1.
      rewrite firstn_app, Nat.sub_diag, firstn_O, app_nil_r. now rewrite firstn_all.
Qed.

Lemma bad_version_l dt vb body :
  mem (if vb <? 128 then vb else vb - 256) g_versions = false ->
  shn_decode dt (c_MAGIC ++ vb :: body) = Err EIO.
Proof.
  intros H. cbn -[decode_bits words_bits mem g_versions]. now rewrite H.
Qed.

Lemma unknown_cmd_l dt pad p its b es cmd rest :
  encode_open p its = Some (b, es) ->
  0 <= cmd -> (cmd =? c_FN_QUIT) = false -> mem cmd g_block_cmds = false ->
  (cmd =? c_FN_BLOCKSIZE) = false -> (cmd =? c_FN_BITSHIFT) = false ->
  shn_decode dt (c_MAGIC ++ [version_byte (p_version p)]
                 ++ pack pad (b ++ uvar_put c_FNSIZE cmd ++ rest)) = Err EIO.
Proof.
  intros H H0 H1 H2 H3 H4.
  assert (M : mem (p_version p) g_versions = true).
  { destruct (encode_open_inv _ _ _ _ H) as (? & ? & V & _). now apply valid_params_inv in V. }
  rewrite shn_decode_unfold by exact M.
  destruct (words_bits_pack pad (b ++ uvar_put c_FNSIZE cmd ++ rest)) as (tail & ->).
  rewrite <- !app_assoc.
  eapply unknown_cmd_bits; eauto.
Qed.
