(* C13 - the encoder accepts every script a conforming encoder may emit for
   16-bit (and narrower) sample types: an explicit, readable description of the
   "valid choices" of the round-trip theorem, and with it the fact that none of
   the decoder's int32 computations can overflow on such a stream. *)
From Coq Require Import ZArith List Bool Lia.
From Verif Require Import gen.Shorten C13.Model C13.Bits C13.Block C13.Stream C13.Extras.
Import ListNotations.
Open Scope Z_scope.

Ltac Zify.zify_post_hook ::= Z.to_euclidean_division_equations.

(* ------------------------------------------------------------------ *)
(** * Arithmetic *)

Lemma bnd_fits32 M x : M < 2147483648 -> bnd M x -> fits32 x = true.
Proof. unfold bnd, fits32. intros. apply andb_true_iff. split; [apply Z.leb_le|apply Z.ltb_lt]; lia. Qed.

Lemma Forall_bnd_fits32 M l : M < 2147483648 -> Forall (bnd M) l -> forallb fits32 l = true.
Proof.
  intros HM H. apply forallb_forall. intros x Hx. rewrite Forall_forall in H.
  eapply bnd_fits32; eauto.
Qed.

Lemma bnd_weaken M N x : M <= N -> bnd M x -> bnd N x.
Proof. unfold bnd. lia. Qed.

Lemma Forall_bnd_weaken M N l : M <= N -> Forall (bnd M) l -> Forall (bnd N) l.
Proof. intros H. apply Forall_impl. intros x. now apply bnd_weaken. Qed.

Lemma sumZ_bnd X l : 0 <= X -> Forall (bnd X) l -> bnd (Z.of_nat (length l) * X) (sumZ l).
Proof.
  intros HX. induction 1 as [|x l Hx _ IH]; simpl sumZ; simpl length.
  - unfold bnd. lia.
  - unfold bnd in *. lia.
Qed.

(* the (possibly rounded) truncating mean of n values bounded by X is bounded by X *)
Lemma quot_mean_bnd n X a r :
  0 < n -> 0 <= X -> bnd (n * X) a -> 0 <= r < n -> bnd X (Z.quot (r + a) n).
Proof.
  unfold bnd. intros Hn HX Ha Hr.
  assert (H1 : r + a < n * (X + 1)) by lia.
  assert (H2 : - (n * (X + 1)) < r + a) by lia.
  destruct (Z_le_gt_dec 0 (r + a)) as [P | N].
  - pose proof (Z.quot_pos (r + a) n P Hn).
    assert (Z.quot (r + a) n < X + 1) by (apply Z.quot_lt_upper_bound; lia). lia.
  - replace (r + a) with (- (- (r + a))) by lia. rewrite Z.quot_opp_l by lia.
    assert (0 <= - (r + a)) by lia.
    pose proof (Z.quot_pos (- (r + a)) n H Hn).
    assert (Z.quot (- (r + a)) n < X + 1) by (apply Z.quot_lt_upper_bound; lia). lia.
Qed.

Lemma shiftr_bnd M x k : 0 <= k -> 0 <= M -> bnd M x -> bnd M (Z.shiftr x k).
Proof.
  unfold bnd. intros Hk HM H. rewrite Z.shiftr_div_pow2 by lia.
  assert (0 < 2 ^ k) by (apply Z.pow_pos_nonneg; lia).
  split.
  - apply Z.div_le_lower_bound; [lia|]. nia.
  - assert (x / 2 ^ k <= x \/ x < 0).
    { destruct (Z_le_gt_dec 0 x); [left; apply Z.div_le_upper_bound; nia|right; lia]. }
    destruct H1; [lia|].
    assert (x / 2 ^ k < 0) by (apply Z.div_lt_upper_bound; lia). lia.
Qed.

Lemma nth_bnd M l k : 0 <= M -> Forall (bnd M) l -> bnd M (nth k l 0).
Proof.
  intros HM H. destruct (nth_in_or_default k l 0) as [Hin | ->].
  - rewrite Forall_forall in H. now apply H.
  - unfold bnd. lia.
Qed.

Lemma dot_bnd M qs : forall buf, 0 <= M -> Forall (bnd M) buf -> bnd (sumabs qs * M) (dot qs buf).
Proof.
  induction qs as [|q qs IH]; intros buf HM H.
  - simpl. unfold bnd. lia.
  - destruct buf as [|b buf]; simpl dot; simpl sumabs.
    + unfold bnd. assert (0 <= sumabs qs) by (clear; induction qs; simpl; lia). nia.
    + inversion H as [|? ? Hb Hr]; subst. specialize (IH buf HM Hr). unfold bnd in *.
      assert (- (Z.abs q * M) <= q * b <= Z.abs q * M) by nia. lia.
Qed.

Lemma sumabs_nonneg qs : 0 <= sumabs qs.
Proof. induction qs; simpl; lia. Qed.

Lemma sumabs_each qs : Forall (bnd (sumabs qs)) qs.
Proof.
  induction qs as [|q qs IH]; constructor.
  - unfold bnd. simpl. pose proof (sumabs_nonneg qs). lia.
  - eapply Forall_impl; [|exact IH]. intros x. unfold bnd. simpl. lia.
Qed.

(* ------------------------------------------------------------------ *)
(** * Residuals exist and are small *)

Lemma resid_total pred M P :
  (forall buf, Forall (bnd M) buf -> exists p, pred buf = Some p /\ bnd P p) ->
  forall vs buf, Forall (bnd M) vs -> Forall (bnd M) buf ->
  exists rs, resid pred buf vs = Some rs /\ Forall (bnd (M + P)) rs.
Proof.
  intros HP. induction vs as [|v vs IH]; intros buf Hv Hb.
  - exists []. split; [reflexivity|constructor].
  - inversion Hv as [|? ? Hv1 Hv2]; subst.
    destruct (HP buf Hb) as (p & Ep & Bp).
    destruct (IH (v :: buf) Hv2 (Forall_cons _ Hv1 Hb)) as (rs & Er & Br).
    exists ((v - p) :: rs). simpl. rewrite Ep, Er. split; [reflexivity|].
    constructor; [|exact Br]. unfold bnd in *. lia.
Qed.

Lemma pred_diff_bnd cmd co M buf :
  0 <= M -> bnd M co -> Forall (bnd M) buf -> bnd (7 * M) (pred_diff cmd co buf).
Proof.
  intros HM Hc Hb. unfold pred_diff.
  pose proof (nth_bnd M buf 0 HM Hb). pose proof (nth_bnd M buf 1 HM Hb).
  pose proof (nth_bnd M buf 2 HM Hb).
  destruct (cmd =? c_FN_DIFF0); [unfold bnd in *; lia|].
  destruct (cmd =? c_FN_DIFF1); [unfold bnd in *; lia|].
  destruct (cmd =? c_FN_DIFF2); unfold bnd in *; lia.
Qed.

Lemma lpcqoffset_bnd h : 0 <= lpcqoffset_of h <= 32.
Proof. unfold lpcqoffset_of. destruct (1 <? h_version h); unfold c_V2LPCQOFFSET; lia. Qed.

Lemma pred_qlpc_total h qs M buf :
  0 <= M -> sumabs qs * M + 32 < 2147483648 -> Forall (bnd M) buf ->
  exists p, pred_qlpc (lpcqoffset_of h) qs buf = Some p /\ bnd (sumabs qs * M + 32) p.
Proof.
  intros HM HS Hb. unfold pred_qlpc.
  pose proof (dot_bnd M qs buf HM Hb) as D. pose proof (lpcqoffset_bnd h) as O.
  assert (Bs : bnd (sumabs qs * M + 32) (lpcqoffset_of h + dot qs buf)) by (unfold bnd in *; lia).
  rewrite (bnd_fits32 _ _ HS Bs). eexists. split; [reflexivity|].
  apply shiftr_bnd; [unfold c_LPCQUANT; lia| |exact Bs].
  pose proof (sumabs_nonneg qs). nia.
Qed.

(* ------------------------------------------------------------------ *)
(** * Samples, fix and unfix (types that are not mu-law codes) *)

Lemma not_au ftype : mem ftype g_au_types = false ->
  (ftype =? c_TYPE_AU1) = false /\ (ftype =? c_TYPE_AU2) = false.
Proof.
  unfold mem, g_au_types. simpl. intros H.
  apply orb_false_iff in H. destruct H as [H1 H]. apply orb_false_iff in H. destruct H as [H2 _].
  split; assumption.
Qed.

Lemma map_opt_map {A B} (f : A -> option B) (g : A -> B) l :
  Forall (fun x => f x = Some (g x)) l -> map_opt f l = Some (map g l).
Proof.
  induction 1 as [|x l Hx _ IH]; [reflexivity|]. simpl. now rewrite Hx, IH.
Qed.

Lemma list_eqb_refl l : list_eqb l l = true.
Proof. induction l as [|x l IH]; [reflexivity|]. simpl. now rewrite Z.eqb_refl. Qed.

Lemma sample_unfix ftype shift s :
  mem ftype g_au_types = false -> 0 <= shift < 32 -> sample_ok shift s ->
  unfix_sample ftype shift s = Some (s / 2 ^ shift)
  /\ fix_sample ftype shift (s / 2 ^ shift) = Some s
  /\ bnd (B16 / 2 ^ shift) (s / 2 ^ shift).
Proof.
  intros Hau Hs [Hb Hm]. destruct (not_au _ Hau) as [A1 A2].
  assert (P : 0 < 2 ^ shift) by (apply Z.pow_pos_nonneg; lia).
  assert (E : s / 2 ^ shift * 2 ^ shift = s).
  { pose proof (Z.div_mod s (2 ^ shift)). lia. }
  split; [|split].
  - unfold unfix_sample. rewrite Hau. apply Z.eqb_eq in Hm. now rewrite Hm.
  - unfold fix_sample. rewrite A1, A2. destruct (shift =? 0) eqn:S0.
    + apply Z.eqb_eq in S0. subst shift. now rewrite Z.div_1_r.
    + rewrite E. replace (shift <? 32) with true by (symmetry; apply Z.ltb_lt; lia).
      rewrite (bnd_fits32 B16 s); [reflexivity|unfold B16; lia|exact Hb].
  - unfold bnd in *.
    assert (s / 2 ^ shift <= B16 / 2 ^ shift) by (apply Z.div_le_lower_bound; lia).
    assert (- (s / 2 ^ shift) <= B16 / 2 ^ shift) by (apply Z.div_le_lower_bound; lia).
    lia.
Qed.

Lemma map_opt_map_inv {A B} (f : B -> option A) (g : A -> B) l :
  Forall (fun s => f (g s) = Some s) l -> map_opt f (map g l) = Some l.
Proof.
  induction 1 as [|x l Hx _ IH]; [reflexivity|]. simpl. now rewrite Hx, IH.
Qed.

Lemma Forall_firstn {A} (P : A -> Prop) n l : Forall P l -> Forall P (firstn n l).
Proof.
  intros H. apply Forall_forall. intros x Hx. rewrite Forall_forall in H.
  apply H. rewrite <- (firstn_skipn n l). apply in_or_app. now left.
Qed.

Lemma Forall_skipn {A} (P : A -> Prop) n l : Forall P l -> Forall P (skipn n l).
Proof.
  intros H. apply Forall_forall. intros x Hx. rewrite Forall_forall in H.
  apply H. rewrite <- (firstn_skipn n l). apply in_or_app. now right.
Qed.

Lemma Forall_repeat {A} (P : A -> Prop) x n : P x -> Forall P (repeat x n).
Proof. intros H. apply Forall_forall. intros y Hy. apply repeat_spec in Hy. now subst. Qed.

Lemma upd_nth_length {A} k (v : A) l : (k < length l)%nat -> length (upd_nth k v l) = length l.
Proof.
  intros L. unfold upd_nth. rewrite app_length, firstn_length.
  destruct (skipn k l) as [|x r] eqn:E.
  - apply (f_equal (@length A)) in E. rewrite skipn_length in E. simpl in E. lia.
  - apply (f_equal (@length A)) in E. rewrite skipn_length in E. simpl in *. lia.
Qed.

Lemma Forall_upd_nth {A} (P : A -> Prop) k v l : P v -> Forall P l -> Forall P (upd_nth k v l).
Proof.
  intros Hv H. unfold upd_nth. apply Forall_app. split; [now apply Forall_firstn|].
  pose proof (Forall_skipn P k l H) as Hs. destruct (skipn k l); [constructor|].
  inversion Hs; subst. now constructor.
Qed.

(* ------------------------------------------------------------------ *)
(** * The encoder accepts valid items: generic in the bounds *)

Section Gen.
(* Bv bounds the unfixed samples and the history, Bo the running means and
   coffset, Q the total magnitude of the LPC coefficients, X shift the unfixed
   samples at a given bit shift *)
Variables (Bv Bo Q SH : Z) (X : Z -> Z).
Variables (sok zok : Z -> Z -> Prop).
Variable p : params.
Let h := hdr_of p.

Hypothesis HBv : 0 <= Bv <= Bo.
Hypothesis H8 : 8 * Bo < 2147483648.
Hypothesis HQ0 : 0 <= Q < 2147483648.
Hypothesis HQ : Q * (Bv + Bo) + 32 + (Bv + Bo) < 2147483648.
Hypothesis HSH : 0 <= SH <= 32.
Hypothesis HX : forall shift, 0 <= shift < SH -> 0 <= X shift <= Bv /\ X shift * 2 ^ shift <= Bo.
Hypothesis Hsok : forall shift s, 0 <= shift < SH -> sok shift s ->
  exists v, unfix_sample (p_ftype p) shift s = Some v /\ fix_sample (p_ftype p) shift v = Some s
            /\ bnd (X shift) v.
Hypothesis Hzok : forall shift s, zok shift s -> unfix_sample (p_ftype p) shift s = Some 0.

Lemma coffset_bnd shift off :
  0 <= shift -> Forall (bnd Bo) off -> bnd Bo (coffset_of h shift off).
Proof.
  intros Hs Ho. unfold coffset_of. destruct (0 <? h_nmean h) eqn:En.
  - apply Z.ltb_lt in En.
    set (l := firstn (Z.to_nat (h_nmean h)) off).
    assert (Hl : Forall (bnd Bo) l) by (now apply Forall_firstn).
    pose proof (sumZ_bnd Bo l ltac:(lia) Hl) as Hsum.
    assert (Ll : Z.of_nat (length l) <= h_nmean h).
    { unfold l. rewrite firstn_length. lia. }
    assert (Ha : bnd (h_nmean h * Bo) (sumZ l)).
    { eapply bnd_weaken; [|exact Hsum]. nia. }
    assert (Qm : forall r, 0 <= r < h_nmean h -> bnd Bo (Z.quot (r + sumZ l) (h_nmean h))).
    { intros r Hr. apply quot_mean_bnd; auto. lia. }
    destruct (h_version h <? 2).
    + apply (Qm 0). lia.
    + apply shiftr_bnd; [lia|lia|]. apply Qm. lia.
  - apply nth_bnd; [lia|exact Ho].
Qed.

Lemma mean_update_total bs shift off blk :
  0 < bs -> 0 <= shift < SH -> Z.of_nat (length blk) = bs ->
  Forall (bnd (X shift)) blk -> Forall (bnd Bo) off ->
  exists off', mean_update h bs shift off blk = Some off' /\ Forall (bnd Bo) off'.
Proof.
  intros Hb Hs Hl Hblk Ho. unfold mean_update.
  destruct (0 <? h_nmean h); [|exists off; auto].
  replace (bs =? 0) with false by (symmetry; apply Z.eqb_neq; lia).
  assert (P : 0 < 2 ^ shift) by (apply Z.pow_pos_nonneg; lia).
  destruct (HX shift Hs) as [[HX0 HXv] HXB].
  set (Xs := X shift) in *.
  assert (HXB' : Xs <= Bo) by lia.
  pose proof (sumZ_bnd Xs blk HX0 Hblk) as Hsum. rewrite Hl in Hsum.
  assert (Qm : forall r, 0 <= r < bs -> bnd Xs (Z.quot (r + sumZ blk) bs)).
  { intros r Hr. apply quot_mean_bnd; auto. }
  set (r := if h_version h <? 2 then 0 else bs / 2).
  assert (Hr : 0 <= r < bs) by (unfold r; destruct (h_version h <? 2); lia).
  specialize (Qm r Hr). set (m := Z.quot (r + sumZ blk) bs) in *.
  assert (Bm : bnd Bo (if 2 <=? h_version h then m * 2 ^ shift else m)).
  { unfold bnd in *. destruct (2 <=? h_version h); nia. }
  rewrite (bnd_fits32 Bo _ ltac:(lia) Bm).
  eexists. split; [reflexivity|]. apply Forall_app. split; [now apply Forall_skipn|].
  constructor; [exact Bm|constructor].
Qed.

Definition chan_ok (c : chan_st) : Prop := Forall (bnd Bv) (c_hist c) /\ Forall (bnd Bo) (c_off c).

Definition inv (bs shift : Z) (chan : nat) (es : estate) : Prop :=
  e_bs es = bs /\ e_shift es = shift /\ e_chan es = chan /\ Z.of_nat chan < p_nchan p
  /\ Z.of_nat (length (e_chans es)) = p_nchan p /\ Forall chan_ok (e_chans es).

Lemma unfix_all shift smp :
  0 <= shift < SH -> Forall (sok shift) smp ->
  exists vs, map_opt (unfix_sample (p_ftype p) shift) smp = Some vs
             /\ map_opt (fix_sample (p_ftype p) shift) vs = Some smp
             /\ Forall (bnd (X shift)) vs.
Proof.
  intros Hs. induction 1 as [|s smp Hs1 _ IH].
  - exists []. repeat split; constructor.
  - destruct IH as (vs & E1 & E2 & E3). destruct (Hsok shift s Hs Hs1) as (v & U & F & Bn).
    exists (v :: vs). simpl. rewrite U, E1, F, E2. repeat split. now constructor.
Qed.

Lemma unfix_all_zero shift smp vs :
  Forall (zok shift) smp -> map_opt (unfix_sample (p_ftype p) shift) smp = Some vs ->
  forallb (Z.eqb 0) vs = true.
Proof.
  intros H. revert vs. induction H as [|s smp Hs _ IH]; intros vs E; simpl in E.
  - now injection E as <-.
  - rewrite (Hzok _ _ Hs) in E. destruct (map_opt _ smp) as [vs'|]; [|discriminate].
    injection E as <-. simpl. now apply IH.
Qed.

Lemma enc_block_total es bs shift chan pr resn smp :
  inv bs shift chan es -> 0 <= shift < SH -> 0 < bs ->
  Z.of_nat (length smp) = bs -> 0 <= resn -> Forall (sok shift) smp -> gpred_ok zok Q p bs shift pr smp ->
  exists code es', enc_block h es pr resn smp = Some (code, es')
                   /\ inv bs shift (next_chan p chan) es'.
Proof.
  intros (Ib & Is & Ic & Icn & Il & Ich) Hs Hbs Hlen Hresn Hsmp Hpr.
  assert (Lc : (chan < length (e_chans es))%nat) by lia.
  destruct (nth_error (e_chans es) chan) as [c|] eqn:Hc; [|apply nth_error_None in Hc; lia].
  assert (Hcok : chan_ok c).
  { rewrite Forall_forall in Ich. apply Ich. eapply nth_error_In; eauto. }
  destruct Hcok as [Hh Ho].
  destruct (unfix_all shift smp Hs Hsmp) as (vs & Hun & Hfix & Hvx).
  destruct (HX shift Hs) as [[HX0 HXv] HXB].
  assert (Hvb : Forall (bnd Bv) vs) by (eapply Forall_bnd_weaken; eauto).
  assert (Hvf : forallb fits32 vs = true) by (eapply Forall_bnd_fits32; [|exact Hvb]; lia).
  assert (Lvs : length vs = length smp) by (eapply map_opt_length; eauto).
  set (co := coffset_of h shift (c_off c)).
  assert (Hco : bnd Bo co) by (apply coffset_bnd; [lia|exact Ho]).
  destruct (mean_update_total bs shift (c_off c) (rev vs)) as (off' & Hm & Hoff');
    [lia|lia|rewrite rev_length; lia|now apply Forall_rev|exact Ho|].
  assert (CODE : exists code,
             match pr with
             | PZero => if forallb (Z.eqb 0) vs then Some (uvar_put c_FNSIZE c_FN_ZERO) else None
             | PDiff k =>
               if (k <? 0) || (3 <? k) then None else
               match resid (fun bf => Some (pred_diff (cmd_of_diff k) co bf)) (c_hist c) vs with
               | Some rs => if forallb fits32 rs then
                              Some (uvar_put c_FNSIZE (cmd_of_diff k) ++ uvar_put c_ENERGYSIZE resn
                                    ++ flat_map (var_put resn) rs) else None
               | None => None
               end
             | PQlpc qs =>
               if (h_maxnlpc h <? Z.of_nat (length qs)) || negb (forallb fits32 qs)
                  || negb ((Z.of_nat (Z.to_nat (nwrap_of h)) <=? bs) || (Z.of_nat (length qs) =? 0) || (co =? 0))
                  || negb (forallb fits32 (map (fun x => x - co) (firstn (length qs) (c_hist c))))
                  || negb (forallb fits32 (map (fun x => x - co) vs)) then None else
               match resid (pred_qlpc (lpcqoffset_of h) qs)
                           (map (fun x => x - co) (c_hist c)) (map (fun x => x - co) vs) with
               | Some rs => if forallb fits32 rs then
                              Some (uvar_put c_FNSIZE c_FN_QLPC ++ uvar_put c_ENERGYSIZE resn
                                    ++ uvar_put c_LPCQSIZE (Z.of_nat (length qs)) ++ flat_map (var_put c_LPCQUANT) qs
                                    ++ flat_map (var_put resn) rs) else None
               | None => None
               end
             end = Some code).
  { destruct pr as [|k|qs]; simpl in Hpr.
    - rewrite (unfix_all_zero shift smp vs Hpr Hun). eauto.
    - replace ((k <? 0) || (3 <? k)) with false by (symmetry; apply orb_false_iff; lia).
      destruct (resid_total (fun bf => Some (pred_diff (cmd_of_diff k) co bf)) Bo (7 * Bo)) with (vs := vs) (buf := c_hist c)
        as (rs & Er & Br); auto.
      { intros buf Hb. eexists. split; [reflexivity|]. apply pred_diff_bnd; auto. lia. }
      { eapply Forall_bnd_weaken; [|exact Hvb]. lia. }
      { eapply Forall_bnd_weaken; [|exact Hh]. lia. }
      rewrite Er. rewrite (Forall_bnd_fits32 (Bo + 7 * Bo) rs); [eauto|lia|exact Br].
    - destruct Hpr as (Hq1 & Hq2 & Hq3).
      replace (h_maxnlpc h <? Z.of_nat (length qs)) with false by (symmetry; apply Z.ltb_ge; exact Hq1).
      pose proof (sumabs_nonneg qs) as Hsn.
      rewrite (Forall_bnd_fits32 (sumabs qs) qs); [|lia|apply sumabs_each].
      assert (NW : (Z.of_nat (Z.to_nat (nwrap_of h)) <=? bs) = true).
      { apply Z.leb_le. unfold nwrap_of, h. simpl. lia. }
      rewrite NW. cbn [negb orb].
      assert (M2 : 0 <= Bv + Bo) by lia.
      assert (HS : sumabs qs * (Bv + Bo) + 32 < 2147483648) by nia.
      assert (Hvs' : Forall (bnd (Bv + Bo)) (map (fun x => x - co) vs)).
      { apply Forall_map. eapply Forall_impl; [|exact Hvb]. unfold bnd in *. intros; lia. }
      assert (Hh' : Forall (bnd (Bv + Bo)) (map (fun x => x - co) (c_hist c))).
      { apply Forall_map. eapply Forall_impl; [|exact Hh]. unfold bnd in *. intros; lia. }
      rewrite (Forall_bnd_fits32 (Bv + Bo) (map (fun x => x - co) vs)); [|lia|exact Hvs'].
      rewrite (Forall_bnd_fits32 (Bv + Bo) (map (fun x => x - co) (firstn (length qs) (c_hist c)))); [|lia|].
      2:{ apply Forall_map. apply Forall_firstn. eapply Forall_impl; [|exact Hh]. unfold bnd in *. intros; lia. }
      cbn [negb orb].
      destruct (resid_total (pred_qlpc (lpcqoffset_of h) qs) (Bv + Bo) (sumabs qs * (Bv + Bo) + 32))
        with (vs := map (fun x => x - co) vs) (buf := map (fun x => x - co) (c_hist c)) as (rs & Er & Br).
      { intros buf Hb. now apply pred_qlpc_total. }
      { exact Hvs'. }
      { exact Hh'. }
      rewrite Er. rewrite (Forall_bnd_fits32 (Bv + Bo + (sumabs qs * (Bv + Bo) + 32)) rs);
        [eexists; reflexivity| |exact Br]. nia. }
  destruct CODE as (code & CODE).
  exists code. eexists. split.
  - unfold enc_block. rewrite Ic, Hc, Ib, Is.
    replace (Z.of_nat (length smp) =? bs) with true by (symmetry; apply Z.eqb_eq; exact Hlen).
    replace (resn <? 0) with false by (symmetry; apply Z.ltb_ge; lia).
    cbn [negb orb]. unfold h at 1 2. cbn [h_ftype hdr_of].
    rewrite Hun, Hfix, list_eqb_refl, Hvf. cbn [negb orb]. cbv zeta. fold h. fold co.
    rewrite CODE, Hm. reflexivity.
  - assert (N1 : Z.of_nat (next_chan p chan) < p_nchan p).
    { unfold next_chan. destruct (Z.of_nat chan =? p_nchan p - 1) eqn:E; [lia|].
      apply Z.eqb_neq in E. lia. }
    unfold inv. cbn [e_bs e_shift e_chan e_chans].
    refine (conj eq_refl (conj eq_refl (conj _ (conj N1 (conj _ _))))).
    + unfold next_chan, h. cbn [h_nchan hdr_of]. reflexivity.
    + rewrite upd_nth_length by lia. exact Il.
    + apply Forall_upd_nth; [|exact Ich]. split; cbn [c_hist c_off]; [|exact Hoff'].
      apply Forall_firstn. apply Forall_app. split; [now apply Forall_rev|exact Hh].
Qed.

Lemma enc_items_total : forall its es bs shift chan,
  inv bs shift chan es -> 0 <= shift < SH -> 0 < bs ->
  gvalid_items sok zok Q SH p bs shift chan its ->
  exists b es', enc_items h es its = Some (b, es').
Proof.
  induction its as [|it its IH]; intros es bs shift chan I Hs Hbs V.
  - simpl. eauto.
  - destruct it as [n|s|pr resn smp]; simpl in V.
    + destruct V as (Vc & Vn & V).
      pose proof I as (Ib & Is & Ic & Icn & Il & Ich).
      assert (E : enc_item h es (IBlockSize n)
                  = Some (uvar_put c_FNSIZE c_FN_BLOCKSIZE ++ ulong_put n,
                          mkE n (e_shift es) (e_chan es) (e_chans es))).
      { simpl. replace (0 <? n) with true by (symmetry; apply Z.ltb_lt; lia).
        replace (n <=? p_bs p) with true by (symmetry; apply Z.leb_le; lia).
        rewrite Ic, Vc. reflexivity. }
      assert (I' : inv n shift chan (mkE n (e_shift es) (e_chan es) (e_chans es))).
      { unfold inv. cbn [e_bs e_shift e_chan e_chans].
        exact (conj eq_refl (conj Is (conj Ic (conj Icn (conj Il Ich))))). }
      destruct (IH _ n shift chan I' Hs ltac:(lia) V) as (b & es' & E').
      cbn [enc_items]. rewrite E, E'. eauto.
    + destruct V as (Vs & V).
      pose proof I as (Ib & Is & Ic & Icn & Il & Ich).
      assert (E : enc_item h es (IBitShift s)
                  = Some (uvar_put c_FNSIZE c_FN_BITSHIFT ++ uvar_put c_BITSHIFTSIZE s,
                          mkE (e_bs es) s (e_chan es) (e_chans es))).
      { simpl. replace (0 <=? s) with true by (symmetry; apply Z.leb_le; lia). reflexivity. }
      assert (I' : inv bs s chan (mkE (e_bs es) s (e_chan es) (e_chans es))).
      { unfold inv. cbn [e_bs e_shift e_chan e_chans].
        exact (conj Ib (conj eq_refl (conj Ic (conj Icn (conj Il Ich))))). }
      destruct (IH _ bs s chan I' Vs Hbs V) as (b & es' & E').
      cbn [enc_items]. rewrite E, E'. eauto.
    + destruct V as (Vl & Vr & Vs & Vp & V).
      destruct (enc_block_total es bs shift chan pr resn smp I Hs Hbs Vl Vr Vs Vp)
        as (code & es1 & E & I1).
      destruct (IH es1 bs shift (next_chan p chan) I1 Hs Hbs V) as (b & es' & E').
      cbn [enc_items enc_item]. rewrite E, E'. eauto.
Qed.

Lemma init_inv mean :
  valid_params p = true -> bnd Bo mean -> inv (p_bs p) 0 O (init_estate p mean).
Proof.
  intros V Hm. destruct (valid_params_inv p V) as (_ & _ & _ & C1 & _).
  unfold inv, init_estate. cbn [e_bs e_shift e_chan e_chans].
  refine (conj eq_refl (conj eq_refl (conj eq_refl (conj _ (conj _ _))))).
  - simpl. lia.
  - rewrite repeat_length. lia.
  - apply Forall_repeat. split; cbn [init_chan c_hist c_off].
    + apply Forall_repeat. unfold bnd. lia.
    + now apply Forall_repeat.
Qed.

Lemma encode_total_gen pad its mean :
  valid_params p = true -> 0 < SH ->
  mean_init_of g_mean_init (p_ftype p) = Some mean -> bnd Bo mean ->
  gvalid_items sok zok Q SH p (p_bs p) 0 O its ->
  exists bytes, shn_encode pad p its = Some bytes.
Proof.
  intros V HS0 M Bm VI. destruct (valid_params_inv p V) as (_ & F0 & Fb & _ & B1 & _).
  destruct (enc_items_total its (init_estate p mean) (p_bs p) 0 O (init_inv mean V Bm))
    as (b & es' & E); try lia; auto.
  unfold shn_encode, encode_bits. rewrite V, M. cbn [negb]. cbv zeta. fold h. rewrite E. eauto.
Qed.

End Gen.

(* ------------------------------------------------------------------ *)
(** * 16-bit (and narrower) samples *)

Lemma mean_init_small ftype :
  0 <= ftype -> (g_ftype_bound <=? ftype) = false ->
  exists m, mean_init_of g_mean_init ftype = Some m /\ bnd B16 m.
Proof.
  intros H0 H1. apply Z.leb_gt in H1. unfold g_ftype_bound in H1.
  assert (C : ftype = 0 \/ ftype = 1 \/ ftype = 2 \/ ftype = 3 \/ ftype = 4 \/ ftype = 5
              \/ ftype = 6 \/ ftype = 7 \/ ftype = 8) by lia.
  unfold bnd, B16.
  repeat (destruct C as [-> | C]; [eexists; split; [reflexivity|lia]|]).
  subst. eexists; split; [reflexivity|lia].
Qed.

Lemma pcm_X shift : 0 <= shift < 32 ->
  0 <= B16 / 2 ^ shift <= B16 /\ B16 / 2 ^ shift * 2 ^ shift <= B16.
Proof.
  intros Hs. assert (P : 0 < 2 ^ shift) by (apply Z.pow_pos_nonneg; lia).
  split; [split|].
  - apply Z.div_pos; unfold B16; lia.
  - apply Z.div_le_upper_bound; [lia|]. unfold B16. nia.
  - pose proof (Z.mul_div_le B16 (2 ^ shift) P). lia.
Qed.

(* every valid script is accepted: the round-trip theorem is about all of them *)
Lemma encode_total_l pad p its :
  valid_params p = true -> mem (p_ftype p) g_au_types = false ->
  valid_items p (p_bs p) 0 O its ->
  exists bytes, shn_encode pad p its = Some bytes.
Proof.
  intros V Hau VI. destruct (valid_params_inv p V) as (_ & F0 & Fb & _).
  destruct (mean_init_small _ F0 Fb) as (mean & M & Bm).
  apply (encode_total_gen B16 B16 16384 32 (fun shift => B16 / 2 ^ shift)
           sample_ok (fun _ s => s = 0) p) with (mean := mean); auto; unfold B16; try lia.
  - exact pcm_X.
  - intros shift s Hs Hok. exists (s / 2 ^ shift). now apply sample_unfix.
  - intros shift s ->. unfold unfix_sample. rewrite Hau.
    rewrite Zmod_0_l. cbn [Z.eqb]. now rewrite Zdiv_0_l.
Qed.

Lemma decode_encode_valid_l dt pad p its :
  valid_params p = true -> mem (p_ftype p) g_au_types = false ->
  valid_items p (p_bs p) 0 O its ->
  exists bytes, shn_encode pad p its = Some bytes
                /\ shn_decode dt bytes = Ok (expected dt p its).
Proof.
  intros V Hau VI. destruct (encode_total_l pad p its V Hau VI) as (bytes & E).
  exists bytes. split; [exact E|]. eapply decode_encode_l; eauto.
Qed.

(* ------------------------------------------------------------------ *)
(** * mu-law codes (TYPE_AU1, TYPE_AU2) *)

Lemma encode_total_au_l pad p its :
  valid_params p = true -> p_ftype p = c_TYPE_AU1 \/ p_ftype p = c_TYPE_AU2 ->
  valid_items_au p (p_bs p) 0 O its ->
  exists bytes, shn_encode pad p its = Some bytes.
Proof.
  intros V Hau VI.
  assert (M : mean_init_of g_mean_init (p_ftype p) = Some 0) by (destruct Hau as [-> | ->]; reflexivity).
  apply (encode_total_gen 129 528384 2048 13 (fun _ => 129)
           (fun _ s => 0 <= s < 256) (fun shift s => unfix_sample (p_ftype p) shift s = Some 0) p)
    with (mean := 0); auto; unfold bnd; try lia.
  - intros shift Hs. split; [lia|].
    assert (2 ^ shift <= 2 ^ 12) by (apply Z.pow_le_mono_r; lia). change (2 ^ 12) with 4096 in H. lia.
  - intros shift s Hs Hok. destruct (au_unfix_total_l (p_ftype p) shift s Hau Hs Hok) as (v & U & F & Bn).
    exists v. repeat split; auto; lia.
Qed.

Lemma decode_encode_valid_au_l dt pad p its :
  valid_params p = true -> p_ftype p = c_TYPE_AU1 \/ p_ftype p = c_TYPE_AU2 ->
  valid_items_au p (p_bs p) 0 O its ->
  exists bytes, shn_encode pad p its = Some bytes
                /\ shn_decode dt bytes = Ok (expected dt p its).
Proof.
  intros V Hau VI. destruct (encode_total_au_l pad p its V Hau VI) as (bytes & E).
  exists bytes. split; [exact E|]. eapply decode_encode_l; eauto.
Qed.

(* the hypotheses are satisfiable: two channels, a bit shift, a shorter last
   block, every kind of block command *)
Example valid_example :
  let p := mkParams 2 c_TYPE_S16LH 2 4 4 4 [] in
  let its := [IBlock (PDiff 0) 2 [100; 120; 130; 90]; IBlock (PDiff 3) 3 [5; -6; 7; -8];
              IBitShift 1; IBlock (PQlpc [20; -5; 3]) 2 [50; 60; -70; 80]; IBlock (PDiff 2) 1 [2; 4; 6; -8];
              IBlockSize 2; IBlock PZero 0 [0; 0]; IBlock (PDiff 1) 4 [1000; -1000]] in
  valid_params p = true /\ valid_items p (p_bs p) 0 O its
  /\ expected DT_I16 p its
     = [100; 5; 120; -6; 130; 7; 90; -8; 50; 2; 60; 4; -70; 6; 80; -8; 0; 1000; 0; -1000].
Proof.
  cbv zeta. split; [reflexivity|]. split; [|reflexivity].
  unfold valid_items, gvalid_items, gpred_ok, sample_ok, bnd, B16, next_chan, sumabs; simpl.
  repeat split; try lia; repeat constructor; try lia; try reflexivity.
Qed.

(* mu-law: one channel of AU2 bytes at bit shift 2, then a block of the byte whose code is 0 *)
Example valid_au_example :
  let p := mkParams 2 c_TYPE_AU2 1 3 2 4 [] in
  let its := [IBitShift 2; IBlock (PDiff 1) 1 [200; 17; 255]; IBlock (PQlpc [30; -3]) 2 [0; 127; 128];
              IBlock PZero 0 [255; 255; 255]] in
  valid_params p = true /\ valid_items_au p (p_bs p) 0 O its
  /\ shn_encode false p its <> None.
Proof.
  cbv zeta. split; [reflexivity|]. split; [|vm_compute; discriminate].
  unfold valid_items_au, gvalid_items, gpred_ok, next_chan, sumabs; simpl.
  repeat split; try lia; repeat constructor; try lia; try reflexivity.
Qed.
