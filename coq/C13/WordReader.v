(* C13 - the word-level bit reader of copy_shortened_samples (gbuffer, nbitget,
   big-endian signed 32-bit words, masks) refines the bit-list reader the rest of
   the model is written over: every uvar_get call returns the same value and
   leaves the same bits to be read, and fails with IOError exactly when the bits
   run out. *)
From Coq Require Import ZArith List Bool Lia.
From Verif Require Import gen.Shorten C13.Model C13.Bits.
Import ListNotations.
Open Scope Z_scope.

(* ------------------------------------------------------------------ *)
(** * Bit facts *)

Lemma testbit_1 i : Z.testbit 1 i = (i =? 0).
Proof.
  destruct i as [|p|p]; reflexivity.
Qed.

(* gbuffer & (1 << k) is non-zero exactly when bit k of gbuffer is set *)
Lemma land_bit g k : 0 <= k -> (Z.land g (Z.shiftl 1 k) =? 0) = negb (Z.testbit g k).
Proof.
  intros Hk. destruct (Z.testbit g k) eqn:E; simpl.
  - apply Z.eqb_neq. intros H. apply (f_equal (fun x => Z.testbit x k)) in H.
    rewrite Z.land_spec, E, Z.shiftl_spec, Z.sub_diag, Z.bits_0 in H by lia. discriminate.
  - apply Z.eqb_eq. apply Z.bits_inj'. intros i Hi.
    rewrite Z.land_spec, Z.shiftl_spec, Z.bits_0, testbit_1 by lia.
    destruct (i - k =? 0) eqn:F; [|apply andb_false_r].
    apply Z.eqb_eq in F. replace i with k by lia. now rewrite E.
Qed.

Lemma masktab_ones k : 0 <= k -> masktab k = Z.ones k.
Proof. intros Hk. unfold masktab. rewrite Z.shiftl_1_l, Z.ones_equiv. lia. Qed.

Lemma small_high_bits y k i : 0 <= y < 2 ^ k -> k <= i -> Z.testbit y i = false.
Proof.
  intros Hy Hi. destruct (Z.eq_dec y 0) as [-> | Ny]; [apply Z.bits_0|].
  assert (0 <= k) by (destruct (Z_lt_ge_dec k 0); [rewrite Z.pow_neg_r in Hy; lia|lia]).
  apply Z.bits_above_log2; [lia|]. apply Z.log2_lt_pow2; [lia|].
  apply Z.lt_le_trans with (2 ^ k); [lia|]. apply Z.pow_le_mono_r; lia.
Qed.

Lemma land_shiftl_small acc k y : 0 <= k -> 0 <= y < 2 ^ k -> Z.land (Z.shiftl acc k) y = 0.
Proof.
  intros Hk Hy. apply Z.bits_inj'. intros i Hi. rewrite Z.land_spec, Z.bits_0.
  destruct (Z_lt_ge_dec i k) as [L | G].
  - rewrite Z.shiftl_spec_low by lia. reflexivity.
  - rewrite (small_high_bits y k i) by lia. apply andb_false_r.
Qed.

(* (acc << k) | y  for 0 <= y < 2^k *)
Lemma lor_shiftl_small acc k y : 0 <= k -> 0 <= y < 2 ^ k -> Z.lor (Z.shiftl acc k) y = acc * 2 ^ k + y.
Proof.
  intros Hk Hy. pose proof (land_shiftl_small acc k y Hk Hy) as L.
  rewrite <- (Z.lxor_lor _ _ L), <- (Z.add_nocarry_lxor _ _ L), Z.shiftl_mul_pow2 by lia.
  reflexivity.
Qed.

(* the k low bits above position m, as the code computes them *)
Lemma extract_spec acc g m k :
  0 <= m -> 0 <= k ->
  Z.lor (Z.shiftl acc k) (Z.land (Z.shiftr g m) (masktab k)) = acc * 2 ^ k + (g / 2 ^ m) mod 2 ^ k.
Proof.
  intros Hm Hk. rewrite masktab_ones, Z.land_ones, Z.shiftr_div_pow2 by lia.
  apply lor_shiftl_small; [lia|]. apply Z.mod_pos_bound. apply Z.pow_pos_nonneg; lia.
Qed.

Lemma mod_pow2_succ x k :
  0 <= k -> x mod 2 ^ (k + 1) = Z.b2z (Z.testbit x k) * 2 ^ k + x mod 2 ^ k.
Proof.
  intros Hk. rewrite Z.pow_add_r by lia. change (2 ^ 1) with 2.
  assert (P : 0 < 2 ^ k) by (apply Z.pow_pos_nonneg; lia).
  rewrite Z.rem_mul_r by lia.
  rewrite Z.testbit_odd, Z.shiftr_div_pow2 by lia.
  unfold Z.b2z. rewrite <- Zmod_odd. lia.
Qed.

(* ------------------------------------------------------------------ *)
(** * Reading k bits out of the current word *)

(* bits n-1 .. n-k of g *)
Lemma get_bits_lo g : forall k n X acc, (k <= n)%nat ->
  get_bits k (bits_lo g n ++ X) acc
  = Ok (acc * 2 ^ Z.of_nat k + (g / 2 ^ Z.of_nat (n - k)) mod 2 ^ Z.of_nat k, bits_lo g (n - k) ++ X).
Proof.
  induction k as [|k IH]; intros n X acc L.
  - simpl. rewrite Z.mod_1_r, Nat.sub_0_r. f_equal. f_equal. lia.
  - destruct n as [|n]; [lia|]. cbn [bits_lo app get_bits].
    rewrite IH by lia. replace (S n - S k)%nat with (n - k)%nat by lia. f_equal. f_equal.
    set (m := Z.of_nat (n - k)).
    replace (Z.of_nat (S k)) with (Z.of_nat k + 1) by lia.
    rewrite (mod_pow2_succ (g / 2 ^ m) (Z.of_nat k)) by lia.
    assert (T : Z.testbit (g / 2 ^ m) (Z.of_nat k) = Z.testbit g (Z.of_nat n)).
    { rewrite <- Z.shiftr_div_pow2 by (unfold m; lia). rewrite Z.shiftr_spec by lia.
      f_equal. unfold m. lia. }
    rewrite T. rewrite Z.pow_add_r by lia. change (2 ^ 1) with 2. ring.
Qed.

Definition wbits (ws : list Z) : bits := flat_map (fun x => bits_lo x 32) ws.

Lemma bits_lo_length g k : length (bits_lo g k) = k.
Proof. induction k as [|k IH]; simpl; [reflexivity|now rewrite IH]. Qed.

(* ------------------------------------------------------------------ *)
(** * The unary part *)

Lemma unary_w_spec : forall fuel g k ws acc,
  (1 <= k <= 32)%nat -> (k + 32 * length ws < fuel)%nat ->
  match get_unary (bits_lo g k ++ wbits ws) acc with
  | Ok (v, rest) => exists w', unary_w fuel g (Z.of_nat k) ws acc = Ok (v, w')
                               /\ abs_w w' = rest /\ 0 <= w_n w' <= 32
  | Err _ => unary_w fuel g (Z.of_nat k) ws acc = Err EIO
  end.
Proof.
  induction fuel as [|f IH]; intros g k ws acc Hk Hf; [lia|].
  destruct k as [|k]; [lia|].
  cbn [bits_lo app get_unary unary_w].
  replace (Z.of_nat (S k) - 1) with (Z.of_nat k) by lia.
  rewrite land_bit by lia.
  destruct (Z.testbit g (Z.of_nat k)) eqn:B; cbn [negb].
  - eexists. split; [reflexivity|]. split; [|cbn [w_n]; lia].
    unfold abs_w. cbn [w_g w_n w_ws]. now rewrite Nat2Z.id.
  - destruct k as [|k].
    + (* the word is used up: fetch the next one *)
      cbn [Z.of_nat Z.eqb bits_lo app].
      destruct ws as [|w r]; [reflexivity|].
      change (wbits (w :: r)) with (bits_lo w 32 ++ wbits r).
      specialize (IH w 32%nat r (acc + 1) ltac:(lia) ltac:(simpl in Hf; lia)).
      exact IH.
    + replace (Z.of_nat (S k) =? 0) with false by (symmetry; apply Z.eqb_neq; lia).
      apply IH; [lia|lia].
Qed.

(* ------------------------------------------------------------------ *)
(** * The fixed-width part *)

Lemma get_bits_split : forall a b l1 rest acc v,
  length l1 = a -> get_bits a (l1 ++ []) acc = Ok (v, []) ->
  get_bits (a + b) (l1 ++ rest) acc = get_bits b rest v.
Proof.
  induction a as [|a IH]; intros b l1 rest acc v L H.
  - destruct l1; [|discriminate]. simpl in *. now injection H as ->.
  - destruct l1 as [|x l1]; [discriminate|]. simpl in *. eapply IH; eauto.
Qed.

Lemma get_bits_short_app : forall a b l1 acc,
  length l1 = a -> (0 < b)%nat -> get_bits (a + b) (l1 ++ []) acc = Err EIO.
Proof.
  intros a b l1 acc L Hb. rewrite app_nil_r. apply get_bits_short. lia.
Qed.

Lemma low_w_spec : forall ws fuel nbin g n acc,
  (n <= 32)%nat -> (length ws + 1 < fuel)%nat ->
  match get_bits nbin (bits_lo g n ++ wbits ws) acc with
  | Ok (v, rest) => exists w', low_w fuel (Z.of_nat nbin) g (Z.of_nat n) ws acc = Ok (v, w')
                               /\ abs_w w' = rest /\ 0 <= w_n w' <= 32
  | Err _ => low_w fuel (Z.of_nat nbin) g (Z.of_nat n) ws acc = Err EIO
  end.
Proof.
  induction ws as [|w r IH]; intros fuel nbin g n acc Hn Hf;
    (destruct fuel as [|f]; [simpl in Hf; lia|]); cbn [low_w].
  - (* no further word *)
    destruct (Z.of_nat nbin =? 0) eqn:E0.
    + apply Z.eqb_eq in E0. assert (nbin = O) by lia. subst nbin. cbn [get_bits].
      eexists. split; [reflexivity|]. split; [|cbn [w_n]; lia].
      unfold abs_w. cbn [w_g w_n w_ws]. now rewrite Nat2Z.id.
    + apply Z.eqb_neq in E0.
      destruct (Z.of_nat nbin <=? Z.of_nat n) eqn:E1.
      * apply Z.leb_le in E1. rewrite get_bits_lo by lia.
        rewrite extract_spec by lia.
        replace (Z.of_nat n - Z.of_nat nbin) with (Z.of_nat (n - nbin)) by lia.
        eexists. split; [reflexivity|]. split; [|cbn [w_n]; lia].
        unfold abs_w. cbn [w_g w_n w_ws]. now rewrite Nat2Z.id.
      * apply Z.leb_gt in E1. cbn [wbits flat_map].
        replace nbin with (n + (nbin - n))%nat by lia.
        rewrite get_bits_short_app; [reflexivity|apply bits_lo_length|lia].
  - destruct (Z.of_nat nbin =? 0) eqn:E0.
    + apply Z.eqb_eq in E0. assert (nbin = O) by lia. subst nbin. cbn [get_bits].
      eexists. split; [reflexivity|]. split; [|cbn [w_n]; lia].
      unfold abs_w. cbn [w_g w_n w_ws]. now rewrite Nat2Z.id.
    + apply Z.eqb_neq in E0.
      destruct (Z.of_nat nbin <=? Z.of_nat n) eqn:E1.
      * apply Z.leb_le in E1. rewrite get_bits_lo by lia.
        rewrite extract_spec by lia.
        replace (Z.of_nat n - Z.of_nat nbin) with (Z.of_nat (n - nbin)) by lia.
        eexists. split; [reflexivity|]. split; [|cbn [w_n]; lia].
        unfold abs_w. cbn [w_g w_n w_ws]. now rewrite Nat2Z.id.
      * apply Z.leb_gt in E1.
        change (wbits (w :: r)) with (bits_lo w 32 ++ wbits r).
        (* all n remaining bits of g, then the rest from the next word *)
        pose proof (get_bits_lo g n n [] acc (le_n n)) as G.
        rewrite Nat.sub_diag in G. cbn [bits_lo app] in G. rewrite Z.pow_0_r, Z.div_1_r in G.
        assert (GB : get_bits nbin (bits_lo g n ++ bits_lo w 32 ++ wbits r) acc
                     = get_bits (nbin - n) (bits_lo w 32 ++ wbits r)
                                (acc * 2 ^ Z.of_nat n + g mod 2 ^ Z.of_nat n)).
        { replace nbin with (n + (nbin - n))%nat at 1 by lia.
          apply get_bits_split; [apply bits_lo_length|exact G]. }
        rewrite GB.
        assert (EX : Z.lor (Z.shiftl acc (Z.of_nat n)) (Z.land g (masktab (Z.of_nat n)))
                     = acc * 2 ^ Z.of_nat n + g mod 2 ^ Z.of_nat n).
        { pose proof (extract_spec acc g 0 (Z.of_nat n) ltac:(lia) ltac:(lia)) as X.
          rewrite Z.shiftr_0_r, Z.pow_0_r, Z.div_1_r in X. exact X. }
        rewrite EX.
        replace (Z.of_nat nbin - Z.of_nat n) with (Z.of_nat (nbin - n)) by lia.
        specialize (IH f (nbin - n)%nat w 32%nat (acc * 2 ^ Z.of_nat n + g mod 2 ^ Z.of_nat n)
                       ltac:(lia) ltac:(simpl in Hf; lia)).
        exact IH.
Qed.

(* ------------------------------------------------------------------ *)
(** * uvar_get *)

Lemma uvar_get_w_refines_l nbin w :
  0 <= nbin -> 0 <= w_n w <= 32 ->
  match uvar_get nbin (abs_w w) with
  | Ok (v, rest) => exists w', uvar_get_w nbin w = Ok (v, w') /\ abs_w w' = rest /\ 0 <= w_n w' <= 32
  | Err _ => uvar_get_w nbin w = Err EIO
  end.
Proof.
  intros Hb Hn. unfold uvar_get, uvar_get_w.
  (* the word fetched up front when nbitget = 0 *)
  assert (W0 : (exists g k ws,
             (1 <= k <= 32)%nat /\ abs_w w = bits_lo g k ++ wbits ws
             /\ (if w_n w =? 0 then match w_ws w with [] => Err EIO | x :: r => Ok (mkW x c_NBITPERLONG r) end
                 else Ok w) = Ok (mkW g (Z.of_nat k) ws))
           \/ (abs_w w = [] /\ w_n w = 0 /\ w_ws w = [])).
  { destruct (w_n w =? 0) eqn:E.
    - apply Z.eqb_eq in E. destruct (w_ws w) as [|x r] eqn:Ew.
      + right. unfold abs_w. rewrite E, Ew. auto.
      + left. exists x, 32%nat, r. split; [lia|]. split; [|reflexivity].
        unfold abs_w. rewrite E, Ew. reflexivity.
    - apply Z.eqb_neq in E. left. exists (w_g w), (Z.to_nat (w_n w)), (w_ws w).
      split; [lia|]. split; [reflexivity|]. rewrite Z2Nat.id by lia. now destruct w. }
  destruct W0 as [(g & k & ws & Hk & Ea & E0) | (Ea & En & Ew)].
  - rewrite Ea, E0. cbn [bind w_g w_n w_ws]. rewrite Nat2Z.id.
    pose proof (unary_w_spec (k + 32 * length ws + 1) g k ws 0 Hk ltac:(lia)) as U.
    destruct (get_unary (bits_lo g k ++ wbits ws) 0) as [[hi rest]|e]; cbn [bind].
    + destruct U as (w1 & U1 & U2 & U3). rewrite U1. cbn [bind].
      pose proof (low_w_spec (w_ws w1) (length (w_ws w1) + 2) (Z.to_nat nbin) (w_g w1)
                    (Z.to_nat (w_n w1)) hi ltac:(lia) ltac:(lia)) as L.
      rewrite !Z2Nat.id in L by lia.
      unfold abs_w in U2. fold (wbits (w_ws w1)) in U2. rewrite U2 in L. exact L.
    + rewrite U. reflexivity.
  - rewrite Ea, En, Ew. reflexivity.
Qed.

(* ------------------------------------------------------------------ *)
(** * Words from bytes *)

Lemma testbit_cat a b k :
  0 <= b < 256 -> 0 <= k ->
  Z.testbit (a * 256 + b) k = if k <? 8 then Z.testbit b k else Z.testbit a (k - 8).
Proof.
  intros Hb Hk. destruct (k <? 8) eqn:E.
  - apply Z.ltb_lt in E. rewrite !Z.testbit_odd, !Z.shiftr_div_pow2 by lia.
    replace (a * 256) with (a * 2 ^ (8 - k) * 2 ^ k)
      by (rewrite <- Z.mul_assoc, <- Z.pow_add_r by lia; replace (8 - k + k) with 8 by lia; reflexivity).
    rewrite Z.div_add_l by (apply Z.pow_nonzero; lia).
    replace (2 ^ (8 - k)) with (2 * 2 ^ (7 - k))
      by (rewrite <- Z.pow_succ_r by lia; f_equal; lia).
    rewrite Z.add_comm. replace (a * (2 * 2 ^ (7 - k))) with (2 * (a * 2 ^ (7 - k))) by ring.
    apply Z.odd_add_mul_2.
  - apply Z.ltb_ge in E. rewrite !Z.testbit_odd, !Z.shiftr_div_pow2 by lia.
    replace (2 ^ k) with (256 * 2 ^ (k - 8))
      by (change 256 with (2 ^ 8); rewrite <- Z.pow_add_r by lia; f_equal; lia).
    rewrite <- Z.div_div by (try apply Z.pow_pos_nonneg; lia).
    rewrite Z.div_add_l by lia. rewrite (Z.div_small b 256) by lia. now rewrite Z.add_0_r.
Qed.

Lemma testbit_word_of b0 b1 b2 b3 k :
  0 <= k < 32 ->
  Z.testbit (word_of b0 b1 b2 b3) k = Z.testbit (((b0 * 256 + b1) * 256 + b2) * 256 + b3) k.
Proof.
  intros Hk. unfold word_of. cbv zeta.
  destruct (_ <? 2147483648); [reflexivity|].
  rewrite <- (Z.mod_pow2_bits_low _ 32 k) by lia.
  rewrite <- (Z.mod_pow2_bits_low (((b0 * 256 + b1) * 256 + b2) * 256 + b3) 32 k) by lia.
  f_equal. change 4294967296 with (1 * 2 ^ 32).
  rewrite <- (Z.mod_add (_ - _) 1 (2 ^ 32)) by lia. f_equal. lia.
Qed.

Lemma bits_lo_word b0 b1 b2 b3 :
  byte_ok b0 -> byte_ok b1 -> byte_ok b2 -> byte_ok b3 ->
  bits_lo (word_of b0 b1 b2 b3) 32 = bits8 b0 ++ bits8 b1 ++ bits8 b2 ++ bits8 b3.
Proof.
  unfold byte_ok. intros H0 H1 H2 H3.
  cbn [bits_lo bits8 app]. cbn [Z.of_nat Pos.of_succ_nat Pos.succ].
  rewrite !testbit_word_of by lia.
  repeat (rewrite testbit_cat by lia; cbn [Z.ltb Z.compare Pos.compare Pos.compare_cont Z.sub Z.add Z.opp Z.pos_sub Pos.pred_double Z.double Z.succ_double Z.pred_double]).
  reflexivity.
Qed.

Lemma words_bits_words_of : forall bytes,
  Forall byte_ok bytes -> words_bits bytes = wbits (words_of bytes).
Proof.
  fix IH 1. intros bytes H.
  destruct bytes as [|b0 [|b1 [|b2 [|b3 r]]]]; try reflexivity.
  inversion H as [|? ? H0 H']; subst. inversion H' as [|? ? H1 H'']; subst.
  inversion H'' as [|? ? H2 H''']; subst. inversion H''' as [|? ? H3 Hr]; subst.
  cbn [words_bits words_of wbits flat_map].
  rewrite bits_lo_word by assumption. rewrite (IH r Hr). unfold wbits.
  now rewrite <- !app_assoc.
Qed.

(* the reader state before the first call: uvar_get.gbuffer = uvar_get.nbitget = 0 *)
Lemma initial_state_l bytes :
  Forall byte_ok bytes -> abs_w (mkW 0 0 (words_of bytes)) = words_bits bytes.
Proof. intros H. unfold abs_w. cbn [w_g w_n w_ws Z.to_nat bits_lo app]. now rewrite words_bits_words_of. Qed.

(* hypotheses are satisfiable: a negative word (first byte 0xF7), read across the word end *)
Example word_reader_example :
  let w := mkW 0 0 (words_of [247; 1; 2; 131; 128; 0; 0; 0]) in
  abs_w w = words_bits [247; 1; 2; 131; 128; 0; 0; 0]
  /\ uvar_get_w 30 w = uvar_get_w 30 w
  /\ (match uvar_get_w 30 w with Ok (v, w') => Some (v, abs_w w') | Err _ => None end)
     = (match uvar_get 30 (abs_w w) with Ok (v, r) => Some (v, r) | Err _ => None end).
Proof. cbv zeta. repeat split; vm_compute; reflexivity. Qed.
