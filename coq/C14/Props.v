(* C14 - PyTorch modules compute what their NumPy counterparts compute.
   Framing of pytorch_stft_frame_computer (coq/Stft/Torch.v) against compute_full's
   (coq/Stft/Model.v); its segment walk is the one of coq/Stft/Walk.v (probed on both
   implementations); energy coefficient over R; pre-emphasis as a list identity. *)
From Coq Require Import ZArith List Bool Reals.
From Verif Require Import lib.ZList Stft.Model Stft.Walk Stft.Torch Stft.TorchEnergy.
Import ListNotations.
Open Scope Z_scope.

(* the flip-based padding + strided framing of the torch port hands the filtering stage
   exactly compute_full's frames, for EVERY signal length (also shorter than a frame,
   where the right pad reflects back and forth) *)
Theorem torch_frames_eq_full :
  forall (A : Type) (c : cfg) (x : list A), 0 < S c -> S c <= L c ->
  torch_frames c x = full_frames c x.
Proof. exact @torch_frames_eq_full_l. Qed.
Print Assumptions torch_frames_eq_full.

(* ... and for ANY positive frame shift (frame_shift > frame_length included, where the frame count
   may round to zero although the signal is longer than a frame), unless the kaldi left pad is negative *)
Theorem torch_frames_eq_full_any_shift :
  forall (A : Type) (c : cfg) (x : list A), 0 < S c -> 0 < L c -> 0 <= pad_left c ->
  torch_frames c x = full_frames c x.
Proof. exact @torch_frames_eq_full_any_shift_l. Qed.
Print Assumptions torch_frames_eq_full_any_shift.

Theorem torch_pad_is_symmetric_pad :
  forall (A : Type) (x : list A) (pl pr : Z),
  1 <= len x -> 0 <= pl <= len x -> 0 <= pr -> torch_pad x pl pr = sympad x pl pr.
Proof. exact @torch_pad_eq_sympad. Qed.
Print Assumptions torch_pad_is_symmetric_pad.

(* the walk used by both implementations (same model, see C02) *)
Theorem torch_walk_correct :
  forall D start len : Z, 0 < D -> 0 <= start -> 0 <= len ->
  exists l, walk D start len = Some l /\
    map (fullbin D) l = map (fun j => (start + j) mod D) (range 0 len) /\
    Forall (in_half D) l.
Proof. exact walk_correct_l. Qed.
Print Assumptions torch_walk_correct.

(* too-short signals: both return an empty matrix with the same number of columns *)
Theorem empty_shape_eq :
  forall (n : Z) (e : bool), torch_empty_cols n e = np_empty_cols n e.
Proof. reflexivity. Qed.
Print Assumptions empty_shape_eq.

(* energy coefficient *)
Theorem torch_energy_power :
  forall s Lr : R, (0 <= s -> 0 < Lr -> (sqrt s / sqrt Lr) ^ 2 = s / Lr)%R.
Proof. exact torch_energy_power_l. Qed.
Print Assumptions torch_energy_power.
Theorem torch_energy_mag :
  forall s Lr : R, (0 <= s -> 0 < Lr -> sqrt (s / Lr) = sqrt s / sqrt Lr)%R.
Proof. exact torch_energy_mag_l. Qed.
Print Assumptions torch_energy_mag.

(* pre-emphasis: the torch formulation equals the numpy one, which is the documented
   recurrence y0 = x0, y_i = x_i - c x_(i-1) *)
Theorem torch_preemph_eq : forall (c : Z) (x : list Z), torch_preemph c x = np_preemph c x.
Proof. exact torch_preemph_eq_l. Qed.
Print Assumptions torch_preemph_eq.
Theorem np_preemph_spec :
  forall (c : Z) (x : list Z) (d i : Z), 0 <= i < len x ->
  nth (Z.to_nat i) (np_preemph c x) d =
  if i =? 0 then nth 0 x d else nth (Z.to_nat i) x d - c * nth (Z.to_nat (i - 1)) x d.
Proof. exact np_preemph_spec_l. Qed.
Print Assumptions np_preemph_spec.

(* ---- tie to the source: the torch port's bookkeeping is what gen/stft.py extracts from torch.py ---- *)
From Verif Require Import Stft.Tie.
Theorem torch_model_is_source :
  forall (A : Type) (c : cfg) (x : list A), torch_frames_src c x = torch_frames c x.
Proof. exact @torch_frames_tie. Qed.
Print Assumptions torch_model_is_source.

(* the torch energy coefficient (all flag combinations, incl. the log floor) equals numpy's *)
From Verif Require Import Stft.Energy.
Theorem torch_energy_eq_np :
  forall (xs : list R) (Lr floor : R) (use_power use_log : bool),
  (0 < Lr)%R -> torch_energy xs Lr floor use_power use_log = np_energy xs Lr floor use_power use_log.
Proof. exact torch_energy_eq_np_l. Qed.
Print Assumptions torch_energy_eq_np.

(* ---- tie to the source: the torch port's energy block, per-segment doubling, final log floor and
   default DFT size, symbolically executed from torch.py by gen/stft_scalar.py (coq/gen/StftR.v) ---- *)
From Verif Require Import Stft.ScalarTie gen.StftR.
Theorem torch_energy_model_is_source :
  forall (xs : list R) (Lr floor : R) (use_power use_log : bool),
  g_torch_log (g_torch_energy (sumsq xs) Lr use_power) floor use_log = torch_energy xs Lr floor use_power use_log.
Proof. exact torch_energy_tie_l. Qed.
Print Assumptions torch_energy_model_is_source.
(* torch doubles every segment of a real bank's walk and log-floors the stacked result; numpy doubles
   and log-floors the accumulated sum: the same value for every list of segment sums *)
Theorem torch_post_eq_numpy :
  forall (vs : list R) (floor : R) (is_real use_log : bool),
  g_torch_log (rsum (map (fun v => g_torch_seg v is_real) vs)) floor use_log = g_frame_post (rsum vs) floor is_real use_log.
Proof. exact torch_post_eq_numpy_l. Qed.
Print Assumptions torch_post_eq_numpy.
Theorem torch_dft_size_eq_numpy : forall L : Z, g_torch_dft L = g_init_dft L true.
Proof. exact torch_dft_eq_numpy_l. Qed.
Print Assumptions torch_dft_size_eq_numpy.
