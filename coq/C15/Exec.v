(* C15 - evaluation helpers for the correspondence check (definitions only):
   compare what the implementation returned with what the model computes. *)
From Coq Require Import ZArith List Bool Lia.
From Verif Require Import C15.Model.
Import ListNotations.
Open Scope Z_scope.

(* what the implementation did: Ok dtype shape flat-values | raised an error *)
Inductive observed := OOk (dt : dtype) (shape : list Z) (vals : list Z) | OErr (e : error).

Definition error_eqb (a b : error) : bool :=
  match a, b with
  | EValue, EValue | EAxis, EAxis | ERuntime, ERuntime | EZeroDiv, EZeroDiv => true
  | _, _ => false
  end.

(* a fraction whose denominator divides L, as an integer multiple of 1/L *)
Definition common (L : Z) (q : frac) : Z := fst q * (L / snd q).

Fixpoint all2 {A B} (p : A -> B -> bool) (a : list A) (b : list B) : bool :=
  match a, b with
  | [], [] => true
  | x :: a', y :: b' => p x y && all2 p a' b'
  | _, _ => false
  end.

(* float dtypes: observed values were multiplied by L and rounded by the harness
   (after checking they are integers up to 1e-6 for float64); tol = 0 for float64 *)
Definition close (L tol : Z) (q : frac) (got : Z) : bool := Z.abs (common L q - got) <=? tol.

(* integer dtypes: astype truncates the float64 value toward zero.  When the
   exact value is an integer the float may sit one ulp below it, so either
   neighbour is accepted in that case only. *)
Definition close_int (L : Z) (raw : frac) (got : Z) : bool :=
  let '(num, den) := raw in
  let q := Z.quot num den in
  (got =? q * L) || ((Z.rem num den =? 0) && (Z.abs (got - q * L) <=? L)).

Record dcase := mkD {
  d_cfg : deltas_cfg; d_dt : dtype; d_shape : list Z; d_data : list Z; d_axis : Z;
  d_L : Z; d_tol : Z; d_obs : observed }.

Definition check_deltas (k : dcase) : bool :=
  match run_deltas (d_cfg k) (d_dt k) (d_shape k) (d_data k) (d_axis k), d_obs k with
  | Err e, OErr e' => error_eqb e e'
  | Ok (dt, sh, vals), OOk dt' sh' vals' =>
    dtype_eqb dt dt' && list_eqb sh sh' &&
    (if is_int dt then
       match run_deltas (d_cfg k) F64 (d_shape k) (d_data k) (d_axis k) with
       | Ok (_, _, raw) => all2 (close_int (d_L k)) raw vals'
       | Err _ => false
       end
     else all2 (close (d_L k) (d_tol k)) vals vals')
  | _, _ => false
  end.

Record scase := mkS {
  s_cfg : stack_cfg; s_dt : dtype; s_shape : list Z; s_data : list Z; s_axis : Z;
  s_obs : observed }.

Definition check_stack (k : scase) : bool :=
  match run_stack (s_cfg k) (s_dt k) (s_shape k) (s_data k) (s_axis k), s_obs k with
  | Err e, OErr e' => error_eqb e e'
  | Ok (dt, sh, vals), OOk dt' sh' vals' => dtype_eqb dt dt' && list_eqb sh sh' && list_eqb vals vals'
  | _, _ => false
  end.

Fixpoint bad_from {A} (p : A -> bool) (i : Z) (l : list A) : list Z :=
  match l with
  | [] => []
  | a :: r => if p a then bad_from p (i + 1) r else i :: bad_from p (i + 1) r
  end.
Definition mismatches {A} (p : A -> bool) (l : list A) : list Z := bad_from p 0 l.

(* the delta filter tables themselves: _filts[d] * den^d *)
Definition filt_table (W : Z) (n : nat) : list (list Z) := map (filt W) (seq 0 (S n)).
