(* C15 - model of pydrobert.speech.post.Deltas / Stack  (post.py:441-563).
   DEFINITIONS ONLY.  Values are exact integers (filters are kept as integer
   numerators together with their common denominator); tensors are a dtype tag,
   a shape and an index function, with row-major flattening for input/output.

   NumPy primitives are modelled by their documented meaning (np.pad modes,
   np.convolve / np.correlate 'full', basic slicing with negative bounds and a
   step, np.concatenate, np.stack, .T and C-order reshape of 2-D arrays,
   np.ndindex); the Python code around them is modelled statement by statement.
   The integer expressions of that code (filter length and shift, axis
   normalisation, padding widths, crop bounds, Stack's remainder / frame counts /
   slice arguments, constructor guard) are NOT written here: they are the g_*
   functions of gen/PostC15.v, regenerated from post.py on every run. *)
From Coq Require Import ZArith List Bool Lia.
From Verif Require Import gen.PostC15.
Import ListNotations.
Open Scope Z_scope.

(* ------------------------------------------------------------------ *)
(** * Integers, lists, finite sums *)

Definition zlen {A} (l : list A) : Z := Z.of_nat (length l).
Definition zrange (n : Z) : list Z := map Z.of_nat (seq 0 (Z.to_nat n)).
(* l[i] with a default outside 0 <= i < len l *)
Definition nthZ {A} (d : A) (l : list A) (i : Z) : A :=
  if i <? 0 then d else nth (Z.to_nat i) l d.

Fixpoint sumn (n : nat) (f : Z -> Z) : Z :=
  match n with O => 0 | S k => sumn k f + f (Z.of_nat k) end.
(* sum_{0 <= i < n} f i *)
Definition zsum (n : Z) (f : Z -> Z) : Z := sumn (Z.to_nat n) f.

Fixpoint list_eqb (a b : list Z) : bool :=
  match a, b with
  | [], [] => true
  | x :: a', y :: b' => (x =? y) && list_eqb a' b'
  | _, _ => false
  end.

(* positions in an index tuple / a shape *)
Fixpoint ins {A} (k : nat) (v : A) (l : list A) : list A :=
  match k, l with
  | O, _ => v :: l
  | S k', h :: t => h :: ins k' v t
  | S _, [] => [v]
  end.
Fixpoint del {A} (k : nat) (l : list A) : list A :=
  match k, l with
  | O, _ :: t => t
  | S k', h :: t => h :: del k' t
  | _, [] => []
  end.
Fixpoint upd {A} (k : nat) (v : A) (l : list A) : list A :=
  match k, l with
  | O, _ :: t => v :: t
  | S k', h :: t => h :: upd k' v t
  | _, [] => []
  end.
Definition zprod (l : list Z) : Z := fold_right Z.mul 1 l.

(* ------------------------------------------------------------------ *)
(** * Errors, dtypes, tensors *)

Inductive error :=
| EValue      (* ValueError: np.pad on an empty axis, reshape/concatenate mismatch, broadcast *)
| EAxis       (* numpy AxisError *)
| ERuntime    (* Stack: feature and time axes are the same *)
| EZeroDiv.   (* axis % 0 on a 0-d array *)
Inductive result (A : Type) := Ok (a : A) | Err (e : error).
Arguments Ok {A} _.
Arguments Err {A} _.
Definition bind {A B} (r : result A) (f : A -> result B) : result B :=
  match r with Ok a => f a | Err e => Err e end.

Inductive dtype := F64 | F32 | F16 | I64 | I32 | I16 | I8.
Definition is_int (d : dtype) : bool :=
  match d with F64 | F32 | F16 => false | _ => true end.
Definition dtype_eqb (a b : dtype) : bool :=
  match a, b with
  | F64, F64 | F32, F32 | F16, F16 | I64, I64 | I32, I32 | I16, I16 | I8, I8 => true
  | _, _ => false
  end.
(* np.result_type of the arrays handed to concatenate / stack; they always
   share one dtype here, the other branch is never reached *)
Definition promote (a b : dtype) : dtype := if dtype_eqb a b then a else F64.

Record tensor (V : Type) := mkT { tdt : dtype; tsh : list Z; tat : list Z -> V }.
Arguments mkT {V} _ _ _.
Arguments tdt {V} _.
Arguments tsh {V} _.
Arguments tat {V} _ _.

Definition inb (shape idx : list Z) : Prop := Forall2 (fun i s => 0 <= i < s) idx shape.
Fixpoint inbb (shape idx : list Z) : bool :=
  match shape, idx with
  | [], [] => true
  | s :: sr, i :: ir => (0 <=? i) && (i <? s) && inbb sr ir
  | _, _ => false
  end.

(* np.ndindex of the shape: all index tuples in row-major order *)
Fixpoint ndindex (shape : list Z) : list (list Z) :=
  match shape with
  | [] => [[]]
  | s :: r => flat_map (fun i => map (cons i) (ndindex r)) (zrange s)
  end.

(* row-major (C-order) offset and its inverse *)
Fixpoint ravel (shape idx : list Z) : Z :=
  match shape, idx with
  | s :: sr, i :: ir => i * zprod sr + ravel sr ir
  | _, _ => 0
  end.
Fixpoint unravel (shape : list Z) (k : Z) : list Z :=
  match shape with
  | [] => []
  | _ :: sr => k / zprod sr :: unravel sr (k mod zprod sr)
  end.

Definition of_flat (dt : dtype) (shape : list Z) (data : list Z) : tensor Z :=
  mkT dt shape (fun idx => nthZ 0 data (ravel shape idx)).
Definition to_flat {V} (t : tensor V) : list V := map (tat t) (ndindex (tsh t)).

Definition tmap {V W} (f : V -> W) (t : tensor V) : tensor W :=
  mkT (tdt t) (tsh t) (fun idx => f (tat t idx)).

(* numpy's normalize_axis_index *)
Definition norm_axis (a : Z) (nd : nat) : option nat :=
  let n := Z.of_nat nd in
  if (- n <=? a) && (a <? n) then Some (Z.to_nat (if a <? 0 then a + n else a)) else None.
(* Python's  a % nd  for nd > 0 *)
Definition mod_axis (a : Z) (nd : nat) : nat := Z.to_nat (a mod Z.of_nat nd).
(* the same as written in the code (generated) *)
Definition deltas_axis (a : Z) (nd : nat) : nat := Z.to_nat (g_axis_mod a (Z.of_nat nd)).
Definition stack_axis (a : Z) (nd : nat) : nat := Z.to_nat (g_stack_axis_mod a (Z.of_nat nd)).
Definition stack_time (a : Z) (nd : nat) : nat := Z.to_nat (g_stack_time_mod a (Z.of_nat nd)).

(* ------------------------------------------------------------------ *)
(** * np.pad *)

Inductive pad_mode := Edge | Constant (c : Z) | Reflect | Symmetric | Wrap.
Definition is_constant (m : pad_mode) : bool := match m with Constant _ => true | _ => false end.

(* which element of an axis of length n >= 1 a position i (any integer) of the
   extended axis shows; None = the constant *)
Definition ext_index (m : pad_mode) (n i : Z) : option Z :=
  if (0 <=? i) && (i <? n) then Some i else
  match m with
  | Edge => Some (Z.max 0 (Z.min i (n - 1)))
  | Constant _ => None
  | Symmetric => let r := i mod (2 * n) in Some (if r <? n then r else 2 * n - 1 - r)
  | Reflect => if n =? 1 then Some 0 else
               let p := 2 * (n - 1) in let r := i mod p in Some (if r <? n then r else p - r)
  | Wrap => Some (i mod n)
  end.
Definition pad_const (m : pad_mode) : Z := match m with Constant c => c | _ => 0 end.
(* value shown at extended position i of the signal  x  of length n *)
Definition ext_val (m : pad_mode) (n : Z) (x : Z -> Z) (i : Z) : Z :=
  match ext_index m n i with Some j => x j | None => pad_const m end.

(* np.pad(x, (before, after), mode) of a 1-D array; ValueError when an empty
   axis is to be extended by a mode other than 'constant' *)
Definition pad1d (m : pad_mode) (before after : Z) (x : list Z) : result (list Z) :=
  let n := zlen x in
  if (n =? 0) && negb (is_constant m) && ((0 <? before) || (0 <? after)) then Err EValue
  else Ok (map (fun i => ext_val m n (nthZ 0 x) (i - before)) (zrange (before + n + after))).

(* np.pad(X, [(0,0).. (before, after) ..(0,0)], mode): one axis only *)
Definition pad_axis (m : pad_mode) (ax : nat) (before after : Z) (X : tensor Z) : result (tensor Z) :=
  let n := nth ax (tsh X) 0 in
  if (zprod (tsh X) =? 0) && (n =? 0) && negb (is_constant m) && ((0 <? before) || (0 <? after))
  then Err EValue
  else Ok (mkT (tdt X) (upd ax (before + n + after) (tsh X))
             (fun idx => ext_val m n (fun j => tat X (upd ax j idx)) (nth ax idx 0 - before))).

(* ------------------------------------------------------------------ *)
(** * np.convolve, np.correlate ('full'), slicing *)

Definition conv (a b : list Z) : list Z :=
  map (fun m => zsum (zlen a) (fun k => nthZ 0 a k * nthZ 0 b (m - k)))
      (zrange (zlen a + zlen b - 1)).

(* c[j] = sum_n a[n + j - (M-1)] * v[n],  j = 0 .. N+M-2 *)
Definition correlate_full (a v : list Z) : list Z :=
  map (fun j => zsum (zlen v) (fun n => nthZ 0 a (n + j - (zlen v - 1)) * nthZ 0 v n))
      (zrange (zlen a + zlen v - 1)).

(* Python's normalisation of one slice bound (step > 0) *)
Definition norm_bound (len b : Z) : Z := if b <? 0 then Z.max 0 (b + len) else Z.min b len.
(* l[lo:hi] *)
Definition pyslice {A} (lo hi : Z) (l : list A) : list A :=
  let n := zlen l in
  let s := norm_bound n lo in
  let e := norm_bound n hi in
  firstn (Z.to_nat (e - s)) (skipn (Z.to_nat s) l).
(* len(range(start, stop, step)) for normalised bounds and step > 0 *)
Definition range_len (start stop step : Z) : Z :=
  if stop <=? start then 0 else (stop - start + step - 1) / step.

(* X[..., start:stop:step, ...] along one axis (step > 0) *)
Definition slice_axis {V} (ax : nat) (start stop step : Z) (X : tensor V) : tensor V :=
  let n := nth ax (tsh X) 0 in
  let s := norm_bound n start in
  let e := norm_bound n stop in
  mkT (tdt X) (upd ax (range_len s e step) (tsh X))
      (fun idx => tat X (upd ax (s + nth ax idx 0 * step) idx)).

(* ------------------------------------------------------------------ *)
(** * np.concatenate, np.stack, .T, reshape *)

Fixpoint concat_at {V} (d : V) (ax : nat) (ts : list (tensor V)) (idx : list Z) : V :=
  match ts with
  | [] => d
  | t :: r =>
    let s := nth ax (tsh t) 0 in
    let i := nth ax idx 0 in
    if i <? s then tat t idx else concat_at d ax r (upd ax (i - s) idx)
  end.
Definition sum_axis {V} (ax : nat) (ts : list (tensor V)) : Z :=
  fold_right (fun t acc => nth ax (tsh t) 0 + acc) 0 ts.
Definition join_dtype {V} (t0 : tensor V) (ts : list (tensor V)) : dtype :=
  fold_left (fun d t => promote d (tdt t)) ts (tdt t0).

(* np.concatenate(ts, axis): ValueError for an empty list or shapes that differ
   off the axis, AxisError for an axis outside [-nd, nd) *)
Definition concatenate {V} (d : V) (ts : list (tensor V)) (axis : Z) : result (tensor V) :=
  match ts with
  | [] => Err EValue
  | t0 :: r =>
    match norm_axis axis (length (tsh t0)) with
    | None => Err EAxis
    | Some ax =>
      if forallb (fun t => list_eqb (del ax (tsh t)) (del ax (tsh t0))
                           && Nat.eqb (length (tsh t)) (length (tsh t0))) r
      then Ok (mkT (join_dtype t0 r) (upd ax (sum_axis ax ts) (tsh t0)) (concat_at d ax ts))
      else Err EValue
    end
  end.

(* np.stack(ts, axis): new axis of length len(ts) at position axis in [-(nd+1), nd+1) *)
Definition stack_new {V} (d : V) (ts : list (tensor V)) (axis : Z) : result (tensor V) :=
  match ts with
  | [] => Err EValue
  | t0 :: r =>
    if forallb (fun t => list_eqb (tsh t) (tsh t0)) r then
      match norm_axis axis (S (length (tsh t0))) with
      | None => Err EAxis
      | Some ax =>
        Ok (mkT (join_dtype t0 r) (ins ax (zlen ts) (tsh t0))
              (fun idx => match nth_error ts (Z.to_nat (nth ax idx 0)) with
                          | Some t => if nth ax idx 0 <? 0 then d else tat t (del ax idx)
                          | None => d
                          end))
      end
    else Err EValue
  end.

(* X.T (all axes reversed) *)
Definition transpose {V} (X : tensor V) : tensor V :=
  mkT (tdt X) (rev (tsh X)) (fun idx => tat X (rev idx)).
(* X.reshape(shape): the logical C-order element sequence is kept *)
Definition reshape {V} (shape : list Z) (X : tensor V) : result (tensor V) :=
  if zprod shape =? zprod (tsh X)
  then Ok (mkT (tdt X) shape (fun idx => tat X (unravel (tsh X) (ravel shape idx))))
  else Err EValue.

(* ------------------------------------------------------------------ *)
(** * Deltas  (post.py:441-491) *)

(* __init__: delta_filter = arange(1 + 2W) - W, divided by sum(delta_filter**2);
   kept here as integer numerators  base  over the denominator  den *)
Definition delta_base (W : Z) : list Z := map (fun i => i - g_base_shift W) (zrange (g_base_len W)).
Definition delta_den (W : Z) : Z :=
  zsum (g_base_len W) (fun i => (i - g_base_shift W) * (i - g_base_shift W)).
(* _filts[d]: _filts[0] = [1], _filts[d+1] = np.convolve(_filts[d], delta_filter);
   the float filter is  filt W d / (delta_den W)^d  *)
Fixpoint filt_of (base : list Z) (d : nat) : list Z :=
  match d with O => [1] | S k => conv (filt_of base k) base end.
Definition filt (W : Z) (d : nat) : list Z := filt_of (delta_base W) d.

(* output element: an exact fraction (numerator, denominator) *)
Definition frac := (Z * Z)%type.
(* .astype(features.dtype) of the float64 value num/den: integer dtypes truncate
   toward zero, float dtypes keep the value (rounding is not modelled) *)
Definition cast_out (dt : dtype) (den num : Z) : frac :=
  if is_int dt then (Z.quot num den, 1) else (num, den).

(* the body of the inner loop for one 1-D slice x:
   np.correlate(np.pad(x, (mo, mo), mode), filt, 'full')[len(filt)-1 : -len(filt)+1] *)
Definition delta_lane (m : pad_mode) (f : list Z) (x : list Z) : result (list Z) :=
  let lf := zlen f in
  bind (pad1d m (g_pad_before lf) (g_pad_after lf) x) (fun xp =>
  Ok (pyslice (g_crop_lo lf) (g_crop_hi lf) (correlate_full xp f))).

(* features[feat_slice]: the 1-D slice along axis ax at the other indices oi *)
Definition lane (X : tensor Z) (ax : nat) (oi : list Z) : list Z :=
  map (fun t => tat X (ins ax t oi)) (zrange (nth ax (tsh X) 0)).
(* delta_feat[feat_slice] = vec *)
Definition write_lane {V} (d : V) (ax : nat) (oi : list Z) (vec : list V) (T : list Z -> V)
  : list Z -> V :=
  fun idx => if list_eqb (del ax idx) oi then nthZ d vec (nth ax idx 0) else T idx.

(* for other_indices in np.ndindex(other_shapes): ... ; assigning a vector of
   another length than the axis is a broadcast ValueError *)
Fixpoint lanes_loop (m : pad_mode) (f : list Z) (X : tensor Z) (ax : nat)
         (post : Z -> frac) (ois : list (list Z)) (acc : list Z -> frac)
  : result (list Z -> frac) :=
  match ois with
  | [] => Ok acc
  | oi :: r =>
    bind (delta_lane m f (lane X ax oi)) (fun vec =>
    if zlen vec =? nth ax (tsh X) 0
    then lanes_loop m f X ax post r (write_lane (0, 1) ax oi (map post vec) acc)
    else Err EValue)
  end.

(* one iteration of  for filt in self._filts[1:]  -> delta_feat *)
Definition delta_block (m : pad_mode) (X : tensor Z) (ax : nat) (f : list Z) (den : Z)
  : result (tensor frac) :=
  bind (lanes_loop m f X ax (cast_out (tdt X) den) (ndindex (del ax (tsh X))) (fun _ => (0, 1)))
       (fun g => Ok (mkT (tdt X) (tsh X) g)).

Fixpoint mapM {A B} (f : A -> result B) (l : list A) : result (list B) :=
  match l with
  | [] => Ok []
  | a :: r => bind (f a) (fun b => bind (mapM f r) (fun bs => Ok (b :: bs)))
  end.

Record deltas_cfg := mkDeltas {
  num_deltas : nat; target_axis : Z; concat : bool; context_window : Z; dpad : pad_mode }.

(* Deltas(cfg).apply(X, axis); in_place is ignored by the code.
   A 0-d input fails inside np.pad; it is outside the property's domain and
   reported as EValue. *)
Definition deltas_apply (c : deltas_cfg) (X : tensor Z) (axis : Z) : result (tensor frac) :=
  let nd := length (tsh X) in
  if Nat.eqb nd 0 then Err EValue else
  let ax := deltas_axis axis nd in
  let W := context_window c in
  bind (mapM (fun d => delta_block (dpad c) X ax (filt W d) (delta_den W ^ Z.of_nat d))
             (seq 1 (num_deltas c))) (fun blocks =>
  let feats := tmap (fun x => (x, 1)) X :: blocks in
  if concat c then concatenate (0, 1) feats (target_axis c)
  else stack_new (0, 1) feats (target_axis c)).

(* ------------------------------------------------------------------ *)
(** * Stack  (post.py:528-563) *)

Record stack_cfg := mkStack { num_vectors : Z; time_axis : Z; spad : option pad_mode }.

(* the 2-D branch:  [.T] [:T] .reshape(nT, nF) [.T]  (the copy is not observable) *)
Definition stack_2d (ta : nat) (T nT nF : Z) (X : tensor Z) : result (tensor Z) :=
  let X1 := if Nat.eqb ta 0 then X else transpose X in
  let X2 := slice_axis 0 0 T 1 X1 in
  bind (reshape [nT; nF] X2) (fun X3 =>
  Ok (if Nat.eqb ta 0 then X3 else transpose X3)).

(* the N-D branch: concatenate([X[.., i:T:n, ..] for i in range(n)], axis) *)
Definition stack_nd (ax ta : nat) (T n : Z) (X : tensor Z) : result (tensor Z) :=
  concatenate 0 (map (fun i => slice_axis ta (g_stack_slice_start i T n) (g_stack_slice_stop i T n)
                                          (g_stack_slice_step i T n) X)
                     (zrange (g_stack_count n))) (Z.of_nat ax).

(* if self._pad_mode is not None: rem = T % n; if rem: np.pad(..., (0, n - rem)); T += n - rem *)
Definition stack_pad (c : stack_cfg) (X : tensor Z) (ta : nat) (T : Z) : result (tensor Z * Z) :=
  let n := num_vectors c in
  match spad c with
  | Some m => let rem := g_stack_rem T n in
              if rem =? 0 then Ok (X, T)
              else bind (pad_axis m ta (g_stack_pad_before n rem) (g_stack_pad_after n rem) X)
                        (fun X' => Ok (X', g_stack_T_padded T n rem))
  | None => Ok (X, T)
  end.

(* Stack(cfg).apply(X, axis); the constructor has rejected num_vectors < 1 *)
Definition stack_apply (c : stack_cfg) (X : tensor Z) (axis : Z) : result (tensor Z) :=
  let nd := length (tsh X) in
  if Nat.eqb nd 0 then Err EZeroDiv else
  let ax := stack_axis axis nd in
  let ta := stack_time (time_axis c) nd in
  if Nat.eqb ax ta then Err ERuntime else
  let n := num_vectors c in
  let T := nth ta (tsh X) 0 in
  let F := nth ax (tsh X) 0 in
  bind (stack_pad c X ta T) (fun XT =>
  let '(X1, T1) := XT in
  let nT := g_stack_nT T1 n in
  let nF := g_stack_nF F n in
  let T2 := g_stack_T2 nT n in
  if Nat.eqb nd 2 then stack_2d ta T2 nT nF X1 else stack_nd ax ta T2 n X1).
(* Stack.__init__ raises ValueError when this is false *)
Definition stack_ctor_ok (c : stack_cfg) : bool := negb (g_stack_reject (num_vectors c)).

(* ------------------------------------------------------------------ *)
(** * Flat input/output for evaluation *)

Definition run_result {V} (r : result (tensor V)) : result (dtype * list Z * list V) :=
  match r with Ok t => Ok (tdt t, tsh t, to_flat t) | Err e => Err e end.
Definition run_deltas (c : deltas_cfg) (dt : dtype) (shape data : list Z) (axis : Z) :=
  run_result (deltas_apply c (of_flat dt shape data) axis).
Definition run_stack (c : stack_cfg) (dt : dtype) (shape data : list Z) (axis : Z) :=
  run_result (stack_apply c (of_flat dt shape data) axis).
