(* C15 - collects the lemmas Props.v exports, with examples showing that the
   hypotheses of the main statements are satisfiable (and evaluating the model
   on the hand-written examples of the test-suite / docstrings). *)
From Coq Require Import ZArith List Bool Lia ZifyBool.
From Verif Require Export C15.Model C15.ProofsBase C15.ProofsTensor C15.ProofsDeltas1
  C15.ProofsDeltasND C15.ProofsValues C15.ProofsStack C15.ProofsFlat.
Import ListNotations.
Open Scope Z_scope.

(* ---------------- filters ---------------- *)
Lemma delta_filter_recursion_l W d : 0 <= W ->
  filt W 0 = [1] /\ filt W (S d) = conv (filt W d) (delta_base W) /\
  zlen (filt W d) = 2 * (Z.of_nat d * W) + 1 /\
  (zlen (filt W d) - 1) / 2 = Z.of_nat d * W.
Proof.
  intros. split; [reflexivity|]. split; [reflexivity|]. split.
  - now apply filt_length.
  - now apply filt_max_offset.
Qed.
(* the tables of Deltas(2) used by the Kaldi comparison in the test-suite: W = 2 *)
Example filt_table_w2 :
  map (filt 2) [0; 1; 2]%nat = [[1]; [-2; -1; 0; 1; 2]; [4; 4; 1; -4; -10; -4; 1; 4; 4]]
  /\ delta_den 2 = 10.
Proof. vm_compute. split; reflexivity. Qed.

(* ---------------- one lane ---------------- *)
Example delta_lane_example :
  delta_lane Edge (filt 2 1) [0; 16; 64] = Ok [144; 192; 176].
Proof. vm_compute. reflexivity. Qed.

(* ---------------- Deltas.apply ---------------- *)
(* x = arange(12).reshape(3,4)**2, Deltas(2).apply(x, axis=0): numerators over 10 and 100 *)
Example deltas_example :
  run_deltas (mkDeltas 2 (-1) true 2 Edge) F64 [3; 4]
             [0; 1; 4; 9; 16; 25; 36; 49; 64; 81; 100; 121] 0
  = Ok (F64, [3; 12],
        [(0,1); (1,1); (4,1); (9,1); (144,10); (184,10); (224,10); (264,10); (512,100); (624,100); (736,100); (848,100);
         (16,1); (25,1); (36,1); (49,1); (192,10); (240,10); (288,10); (336,10); (160,100); (160,100); (160,100); (160,100);
         (64,1); (81,1); (100,1); (121,1); (176,10); (216,10); (256,10); (296,10); (-384,100); (-496,100); (-608,100); (-720,100)]).
Proof. vm_compute. reflexivity. Qed.
Example deltas_hyps_satisfiable :
  let c := mkDeltas 2 (-1) true 2 Edge in
  let X := of_flat F64 [3; 4] [0; 1; 4; 9; 16; 25; 36; 49; 64; 81; 100; 121] in
  length (tsh X) <> O /\ shape_ok (tsh X) /\ 1 <= context_window c /\
  deltas_pad_ok c X (mod_axis 0 2) /\ norm_axis (target_axis c) 2 = Some 1%nat.
Proof.
  cbv zeta. split; [discriminate|]. split; [repeat constructor; lia|]. split; [simpl; lia|].
  split; [right; right; left; simpl; lia|reflexivity].
Qed.

(* ---------------- Stack.apply ---------------- *)
(* the two hand-written examples of the test-suite style: 7 frames of 2, num_vectors 3 *)
Example stack_example_drop :
  run_stack (mkStack 3 0 None) I64 [7; 2] [0;1;2;3;4;5;6;7;8;9;10;11;12;13] (-1)
  = Ok (I64, [2; 6], [0;1;2;3;4;5; 6;7;8;9;10;11]).
Proof. vm_compute. reflexivity. Qed.
Example stack_example_pad :
  run_stack (mkStack 3 0 (Some Reflect)) I64 [4; 2] [0;1;2;3;4;5;6;7] (-1)
  = Ok (I64, [2; 6], [0;1;2;3;4;5; 6;7;4;5;2;3]).
Proof. vm_compute. reflexivity. Qed.
Example stack_example_nd :
  run_stack (mkStack 2 1 None) F64 [2; 3; 1] [1;2;3;4;5;6] 0
  = Ok (F64, [4; 1; 1], [1; 4; 2; 5]).
Proof. vm_compute. reflexivity. Qed.
Example stack_hyps_satisfiable :
  let c := mkStack 3 0 None in
  let X := of_flat I64 [7; 2] [0;1;2;3;4;5;6;7;8;9;10;11;12;13] in
  length (tsh X) <> O /\ mod_axis (-1) 2 <> mod_axis (time_axis c) 2 /\ shape_ok (tsh X)
  /\ 1 <= num_vectors c.
Proof.
  cbv zeta. split; [discriminate|]. split; [vm_compute; discriminate|].
  split; [repeat constructor; lia|simpl; lia].
Qed.

(* without padding: floor(T/n) frames, none when T < n *)
Lemma stack_drop_count_l c T : spad c = None -> 1 <= num_vectors c -> 0 <= T ->
  stack_T1 c T / num_vectors c = T / num_vectors c /\
  (T < num_vectors c -> stack_T1 c T / num_vectors c = 0).
Proof.
  intros Hp Hn HT. unfold stack_T1. rewrite Hp. split; [reflexivity|].
  intros. apply Z.div_small. lia.
Qed.
Lemma stack_src_nopad_l c X ta idx : spad c = None -> stack_src c X ta idx = tat X idx.
Proof. intros H. unfold stack_src. now rewrite H. Qed.
Lemma stack_src_pad_l c X ta idx m : spad c = Some m ->
  stack_src c X ta idx = ext_val m (nth ta (tsh X) 0) (fun j => tat X (upd ta j idx)) (nth ta idx 0).
Proof. intros H. unfold stack_src. now rewrite H. Qed.
Lemma stack_zero_dim_error_l c X axis : tsh X = [] -> stack_apply c X axis = Err EZeroDiv.
Proof. intros H. unfold stack_apply. now rewrite H. Qed.
