(* C15 - basic lemmas: ranges, indexed access, finite sums, index tuples, ndindex *)
From Coq Require Import ZArith List Bool Lia ZifyBool.
From Verif Require Import C15.Model.
Import ListNotations.
Open Scope Z_scope.

(* ------------------------------------------------------------------ *)
(** * zlen, zrange, nthZ *)

Lemma zlen_nonneg {A} (l : list A) : 0 <= zlen l.
Proof. unfold zlen; lia. Qed.
Lemma zlen_nil {A} : zlen (@nil A) = 0.
Proof. reflexivity. Qed.
Lemma zlen_cons {A} (a : A) l : zlen (a :: l) = 1 + zlen l.
Proof. unfold zlen; simpl length; lia. Qed.
Lemma zlen_map {A B} (f : A -> B) l : zlen (map f l) = zlen l.
Proof. unfold zlen; now rewrite map_length. Qed.
Lemma zlen_app {A} (l m : list A) : zlen (l ++ m) = zlen l + zlen m.
Proof. unfold zlen; rewrite app_length; lia. Qed.

Lemma zrange_length n : length (zrange n) = Z.to_nat n.
Proof. unfold zrange; now rewrite map_length, seq_length. Qed.
Lemma zlen_zrange n : 0 <= n -> zlen (zrange n) = n.
Proof. intros; unfold zlen; rewrite zrange_length; lia. Qed.
Lemma zlen_zrange' n : zlen (zrange n) = Z.max 0 n.
Proof. unfold zlen; rewrite zrange_length; lia. Qed.
Lemma zrange_nonpos n : n <= 0 -> zrange n = [].
Proof. intros; unfold zrange. replace (Z.to_nat n) with O by lia. reflexivity. Qed.
Lemma in_zrange n i : In i (zrange n) <-> 0 <= i < n.
Proof.
  unfold zrange; rewrite in_map_iff; split.
  - intros (k & <- & Hk). apply in_seq in Hk. lia.
  - intros H. exists (Z.to_nat i). split; [lia|]. apply in_seq. lia.
Qed.
Lemma zrange_succ n : 0 <= n -> zrange (n + 1) = zrange n ++ [n].
Proof.
  intros; unfold zrange. replace (Z.to_nat (n + 1)) with (Z.to_nat n + 1)%nat by lia.
  rewrite seq_app, map_app; simpl. now rewrite Z2Nat.id.
Qed.
Lemma seq_of_nat_shift n s t :
  map Z.of_nat (seq (s + t) n) = map (fun i => Z.of_nat s + i) (map Z.of_nat (seq t n)).
Proof.
  revert t; induction n; simpl; intros; [reflexivity|]. f_equal; [lia|].
  replace (S (s + t)) with (s + S t)%nat by lia. apply IHn.
Qed.
Lemma zrange_app a b : 0 <= a -> 0 <= b ->
  zrange (a + b) = zrange a ++ map (fun i => a + i) (zrange b).
Proof.
  intros; unfold zrange. rewrite Z2Nat.inj_add by lia. rewrite seq_app, map_app. f_equal.
  simpl. rewrite <- (Nat.add_0_r (Z.to_nat a)) at 1. rewrite seq_of_nat_shift.
  now rewrite Z2Nat.id.
Qed.

Lemma nth_zrange n k d : (k < Z.to_nat n)%nat -> nth k (zrange n) d = Z.of_nat k.
Proof.
  intros; unfold zrange.
  rewrite nth_indep with (d' := Z.of_nat 0) by (rewrite map_length, seq_length; lia).
  rewrite map_nth, seq_nth by lia. reflexivity.
Qed.

Lemma nthZ_neg {A} (d : A) l i : i < 0 -> nthZ d l i = d.
Proof. unfold nthZ; intros. destruct (i <? 0) eqn:E; [reflexivity|lia]. Qed.
Lemma nthZ_high {A} (d : A) l i : zlen l <= i -> nthZ d l i = d.
Proof.
  unfold nthZ, zlen; intros. destruct (i <? 0); [reflexivity|]. apply nth_overflow. lia.
Qed.
Lemma nthZ_out {A} (d : A) l i : ~ (0 <= i < zlen l) -> nthZ d l i = d.
Proof. intros. destruct (Z_lt_dec i 0); [now apply nthZ_neg|apply nthZ_high; lia]. Qed.
Lemma nthZ_nth {A} (d : A) l i : 0 <= i -> nthZ d l i = nth (Z.to_nat i) l d.
Proof. unfold nthZ; intros. destruct (i <? 0) eqn:E; [lia|reflexivity]. Qed.
Lemma nthZ_map {A B} (f : A -> B) da db l i :
  0 <= i < zlen l -> nthZ db (map f l) i = f (nthZ da l i).
Proof.
  unfold zlen; intros. rewrite !nthZ_nth by lia.
  rewrite nth_indep with (d' := f da) by (rewrite map_length; lia). apply map_nth.
Qed.
Lemma nthZ_zrange n i d : 0 <= i < n -> nthZ d (zrange n) i = i.
Proof. intros. rewrite nthZ_nth by lia. rewrite nth_zrange by lia. lia. Qed.
Lemma nthZ_map_zrange {B} (f : Z -> B) d n i :
  0 <= i < n -> nthZ d (map f (zrange n)) i = f i.
Proof.
  intros. rewrite nthZ_map with (da := 0) by (rewrite zlen_zrange; lia).
  now rewrite nthZ_zrange.
Qed.
Lemma nthZ_0 {A} (d : A) a l : nthZ d (a :: l) 0 = a.
Proof. reflexivity. Qed.
Lemma nthZ_cons {A} (d : A) a l i : 0 < i -> nthZ d (a :: l) i = nthZ d l (i - 1).
Proof.
  intros. rewrite !nthZ_nth by lia. replace (Z.to_nat i) with (S (Z.to_nat (i - 1))) by lia.
  reflexivity.
Qed.

(* a list is the table of its own elements *)
Lemma list_as_map {A} (d : A) l : l = map (nthZ d l) (zrange (zlen l)).
Proof.
  apply nth_ext with (d := d) (d' := d).
  - rewrite map_length, zrange_length. unfold zlen. lia.
  - intros k Hk.
    assert (Hk' : 0 <= Z.of_nat k < zlen l) by (unfold zlen; lia).
    pose proof (nthZ_map_zrange (nthZ d l) d (zlen l) (Z.of_nat k) Hk') as E.
    rewrite !nthZ_nth in E by lia. rewrite Nat2Z.id in E. now rewrite E.
Qed.

Lemma map_zrange_ext {B} (f g : Z -> B) n :
  (forall i, 0 <= i < n -> f i = g i) -> map f (zrange n) = map g (zrange n).
Proof. intros H. apply map_ext_in. intros i Hi. apply H. now apply in_zrange. Qed.

Lemma list_eq_nthZ {A} (d : A) (l m : list A) :
  zlen l = zlen m -> (forall i, 0 <= i < zlen l -> nthZ d l i = nthZ d m i) -> l = m.
Proof.
  intros Hl H. rewrite (list_as_map d l), (list_as_map d m). rewrite <- Hl.
  now apply map_zrange_ext.
Qed.

(* firstn / skipn of a table *)
Lemma skipn_map_zrange {B} (f : Z -> B) n s : 0 <= s <= n ->
  skipn (Z.to_nat s) (map f (zrange n)) = map (fun t => f (s + t)) (zrange (n - s)).
Proof.
  intros. replace n with (s + (n - s)) at 1 by lia. rewrite zrange_app by lia.
  rewrite map_app, skipn_app.
  rewrite skipn_all2 by (rewrite map_length, zrange_length; lia).
  rewrite map_length, zrange_length. replace (Z.to_nat s - Z.to_nat s)%nat with O by lia.
  simpl. now rewrite map_map.
Qed.
Lemma firstn_map_zrange {B} (f : Z -> B) n e : 0 <= e <= n ->
  firstn (Z.to_nat e) (map f (zrange n)) = map f (zrange e).
Proof.
  intros. replace n with (e + (n - e)) by lia. rewrite zrange_app by lia.
  rewrite map_app, firstn_app. rewrite map_length, zrange_length.
  replace (Z.to_nat e - Z.to_nat e)%nat with O by lia. simpl. rewrite app_nil_r.
  apply firstn_all2. rewrite map_length, zrange_length. lia.
Qed.

Lemma pyslice_table {B} (f : Z -> B) n lo hi :
  0 <= n ->
  let s := norm_bound n lo in let e := norm_bound n hi in
  s <= e ->
  pyslice lo hi (map f (zrange n)) = map (fun t => f (s + t)) (zrange (e - s)).
Proof.
  intros Hn s e Hse. unfold pyslice. rewrite zlen_map, zlen_zrange by lia. fold s e.
  assert (0 <= s <= n /\ 0 <= e <= n) as [Hs He].
  { unfold s, e, norm_bound. destruct (lo <? 0) eqn:E1, (hi <? 0) eqn:E2; lia. }
  rewrite skipn_map_zrange by lia.
  rewrite (firstn_map_zrange (fun t => f (s + t))) by lia. reflexivity.
Qed.

(* ------------------------------------------------------------------ *)
(** * finite sums *)

Lemma zsum_nonpos n f : n <= 0 -> zsum n f = 0.
Proof. intros; unfold zsum. replace (Z.to_nat n) with O by lia. reflexivity. Qed.
Lemma zsum_succ n f : 0 <= n -> zsum (n + 1) f = zsum n f + f n.
Proof.
  intros; unfold zsum. replace (Z.to_nat (n + 1)) with (S (Z.to_nat n)) by lia.
  simpl. now rewrite Z2Nat.id.
Qed.
Lemma sumn_ext n f g : (forall i, 0 <= i < Z.of_nat n -> f i = g i) -> sumn n f = sumn n g.
Proof.
  induction n; intros H; simpl; [reflexivity|].
  rewrite IHn by (intros; apply H; lia). rewrite H by lia. reflexivity.
Qed.
Lemma zsum_ext n f g : (forall i, 0 <= i < n -> f i = g i) -> zsum n f = zsum n g.
Proof. intros H; unfold zsum. apply sumn_ext. intros; apply H; lia. Qed.
Lemma zsum_zero n f : (forall i, 0 <= i < n -> f i = 0) -> zsum n f = 0.
Proof.
  intros H. rewrite (zsum_ext n f (fun _ => 0)) by assumption.
  unfold zsum. induction (Z.to_nat n); simpl; lia.
Qed.
Lemma sumn_add n f g : sumn n (fun i => f i + g i) = sumn n f + sumn n g.
Proof. induction n; simpl; lia. Qed.
Lemma zsum_add n f g : zsum n (fun i => f i + g i) = zsum n f + zsum n g.
Proof. apply sumn_add. Qed.
Lemma sumn_scale n c f : sumn n (fun i => c * f i) = c * sumn n f.
Proof. induction n; simpl; lia. Qed.
Lemma zsum_scale n c f : zsum n (fun i => c * f i) = c * zsum n f.
Proof. apply sumn_scale. Qed.
Lemma zsum_scale_r n c f : zsum n (fun i => f i * c) = zsum n f * c.
Proof.
  rewrite (zsum_ext n _ (fun i => c * f i)) by (intros; lia). rewrite zsum_scale. lia.
Qed.
Lemma sumn_split a b f :
  sumn (a + b) f = sumn a f + sumn b (fun i => f (Z.of_nat a + i)).
Proof.
  induction b.
  - rewrite Nat.add_0_r. simpl. lia.
  - replace (a + S b)%nat with (S (a + b)) by lia. simpl. rewrite IHb.
    replace (Z.of_nat (a + b)) with (Z.of_nat a + Z.of_nat b) by lia. lia.
Qed.
Lemma zsum_split n a f : 0 <= a <= n -> zsum n f = zsum a f + zsum (n - a) (fun i => f (a + i)).
Proof.
  intros; unfold zsum. replace (Z.to_nat n) with (Z.to_nat a + Z.to_nat (n - a))%nat by lia.
  rewrite sumn_split. now rewrite Z2Nat.id by lia.
Qed.
Lemma sumn_swap n m (f : Z -> Z -> Z) :
  sumn n (fun i => sumn m (fun j => f i j)) = sumn m (fun j => sumn n (fun i => f i j)).
Proof.
  induction n; simpl.
  - induction m; simpl; lia.
  - rewrite IHn. now rewrite sumn_add.
Qed.
Lemma zsum_swap n m (f : Z -> Z -> Z) :
  zsum n (fun i => zsum m (fun j => f i j)) = zsum m (fun j => zsum n (fun i => f i j)).
Proof. apply sumn_swap. Qed.
Lemma zsum_single n f k : 0 <= k < n -> (forall i, 0 <= i < n -> i <> k -> f i = 0) ->
  zsum n f = f k.
Proof.
  intros Hk H. rewrite (zsum_split n k) by lia.
  rewrite (zsum_zero k) by (intros; apply H; lia).
  rewrite (zsum_split (n - k) 1) by lia.
  rewrite (zsum_zero (n - k - 1)) by (intros; apply H; lia).
  unfold zsum; simpl. replace (k + 0) with k by lia. lia.
Qed.

(* sum of g[m - k] h(m) over a window that contains the support of g *)
Lemma zsum_shift_support (g : list Z) (h : Z -> Z) N k :
  0 <= k -> k + zlen g <= N ->
  zsum N (fun m => nthZ 0 g (m - k) * h m) = zsum (zlen g) (fun j => nthZ 0 g j * h (j + k)).
Proof.
  intros Hk HN. pose proof (zlen_nonneg g).
  rewrite (zsum_split N k) by lia.
  rewrite (zsum_zero k) by (intros; rewrite nthZ_neg by lia; lia).
  rewrite (zsum_split (N - k) (zlen g)) by lia.
  rewrite (zsum_zero (N - k - zlen g)) by (intros; rewrite nthZ_high by lia; lia).
  rewrite Z.add_0_l, Z.add_0_r. apply zsum_ext. intros. f_equal; f_equal; lia.
Qed.

(* ------------------------------------------------------------------ *)
(** * list_eqb, ins / del / upd *)

Lemma list_eqb_eq a b : list_eqb a b = true <-> a = b.
Proof.
  revert b; induction a; destruct b; simpl; split; intros H; try congruence; try discriminate.
  - apply andb_true_iff in H as [H1 H2]. apply Z.eqb_eq in H1. apply IHa in H2. congruence.
  - inversion H; subst. apply andb_true_iff. split; [apply Z.eqb_refl|now apply IHa].
Qed.
Lemma list_eqb_refl a : list_eqb a a = true.
Proof. now apply list_eqb_eq. Qed.
Lemma list_eqb_neq a b : list_eqb a b = false <-> a <> b.
Proof.
  split; intros H.
  - intros E. apply list_eqb_eq in E. congruence.
  - destruct (list_eqb a b) eqn:E; [|reflexivity]. apply list_eqb_eq in E. contradiction.
Qed.

Section PosOps.
Context {A : Type}.
Implicit Types (l : list A) (k : nat).

Lemma ins_length k v l : length (ins k v l) = S (length l).
Proof. revert l; induction k; destruct l; simpl; auto. Qed.
Lemma del_length k l : (k < length l)%nat -> length (del k l) = pred (length l).
Proof.
  revert l; induction k; destruct l; simpl; intros; try lia.
  rewrite IHk by lia. lia.
Qed.
Lemma upd_length k v l : length (upd k v l) = length l.
Proof. revert l; induction k; destruct l; simpl; auto. Qed.
Lemma nth_ins k v l d : (k <= length l)%nat -> nth k (ins k v l) d = v.
Proof. revert l; induction k; destruct l; simpl; intros; try lia; auto. apply IHk; lia. Qed.
Lemma del_ins k v l : (k <= length l)%nat -> del k (ins k v l) = l.
Proof.
  revert l; induction k; destruct l; simpl; intros; try lia; auto. f_equal; apply IHk; lia.
Qed.
Lemma ins_del k l d : (k < length l)%nat -> ins k (nth k l d) (del k l) = l.
Proof.
  revert l; induction k; destruct l; simpl; intros; try lia; auto. f_equal; apply IHk; lia.
Qed.
Lemma ins_del_upd k v l : (k < length l)%nat -> ins k v (del k l) = upd k v l.
Proof.
  revert l; induction k; destruct l; simpl; intros; try lia; auto. f_equal; apply IHk; lia.
Qed.
Lemma nth_upd_same k v l d : (k < length l)%nat -> nth k (upd k v l) d = v.
Proof. revert l; induction k; destruct l; simpl; intros; try lia; auto. apply IHk; lia. Qed.
Lemma nth_upd_other k j v l d : k <> j -> nth j (upd k v l) d = nth j l d.
Proof.
  revert j l; induction k; destruct l, j; simpl; intros; try lia; auto.
Qed.
Lemma del_upd k v l : del k (upd k v l) = del k l.
Proof. revert l; induction k; destruct l; simpl; auto. f_equal; apply IHk. Qed.
Lemma upd_upd k v w l : upd k v (upd k w l) = upd k v l.
Proof. revert l; induction k; destruct l; simpl; auto. f_equal; apply IHk. Qed.
Lemma upd_same k l d : upd k (nth k l d) l = l.
Proof. revert l; induction k; destruct l; simpl; auto. f_equal; apply IHk. Qed.
Lemma upd_comm k j v w l : k <> j -> upd k v (upd j w l) = upd j w (upd k v l).
Proof.
  revert j l; induction k; destruct l, j; simpl; intros; try lia; auto.
  f_equal. apply IHk. lia.
Qed.
Lemma upd_ins k v w l : (k <= length l)%nat -> upd k v (ins k w l) = ins k v l.
Proof.
  revert l; induction k; destruct l; simpl; intros; try lia; auto. f_equal; apply IHk; lia.
Qed.
End PosOps.

(* ------------------------------------------------------------------ *)
(** * in-bounds index tuples and ndindex *)

Lemma inb_length shape idx : inb shape idx -> length idx = length shape.
Proof. unfold inb. induction 1; simpl; congruence. Qed.
Lemma inbb_inb shape idx : inbb shape idx = true <-> inb shape idx.
Proof.
  unfold inb. revert idx; induction shape; destruct idx; simpl; split; intros H;
    try discriminate; try (now inversion H); try constructor.
  - apply andb_true_iff in H as [H1 H2]. apply andb_true_iff in H1. lia.
  - apply andb_true_iff in H as [_ H2]. now apply IHshape.
  - inversion H; subst. apply andb_true_iff; split; [|now apply IHshape].
    apply andb_true_iff; lia.
Qed.
Lemma inb_nth shape idx k : inb shape idx -> (k < length shape)%nat ->
  0 <= nth k idx 0 < nth k shape 0.
Proof.
  unfold inb. intros H; revert k; induction H; intros k Hk; simpl in *; [lia|].
  destruct k; [assumption|]. apply IHForall2; lia.
Qed.
Lemma inb_del shape idx k : inb shape idx -> inb (del k shape) (del k idx).
Proof.
  unfold inb. intros H; revert k; induction H; intros k; destruct k; simpl; try constructor; auto.
Qed.
Lemma inb_ins shape idx k s i : inb shape idx -> 0 <= i < s -> inb (ins k s shape) (ins k i idx).
Proof.
  unfold inb. intros H; revert k; induction H; intros k Hi; destruct k; simpl;
    repeat constructor; auto; lia.
Qed.
Lemma inb_upd shape idx k s i : inb shape idx -> 0 <= i < s -> inb (upd k s shape) (upd k i idx).
Proof.
  unfold inb. intros H; revert k; induction H; intros k Hi; destruct k; simpl;
    repeat constructor; auto; lia.
Qed.
Lemma inb_upd_idx shape idx k i : inb shape idx -> 0 <= i < nth k shape 0 -> inb shape (upd k i idx).
Proof.
  intros H Hi. destruct (Nat.lt_ge_cases k (length shape)).
  - rewrite <- (upd_same k shape 0). now apply inb_upd.
  - rewrite nth_overflow in Hi by lia. lia.
Qed.
Lemma inb_rev shape idx : inb shape idx -> inb (rev shape) (rev idx).
Proof.
  unfold inb. induction 1; simpl; [constructor|].
  apply Forall2_app; [assumption|]. constructor; [assumption|constructor].
Qed.
Lemma inb_of_ins shape idx k s i : (k <= length shape)%nat ->
  inb (ins k s shape) (ins k i idx) -> length idx = length shape -> inb shape idx /\ 0 <= i < s.
Proof.
  unfold inb. revert shape idx. induction k; intros shape idx Hk H Hl.
  - simpl in H. inversion H; subst. auto.
  - destruct shape, idx; simpl in *; try lia; try discriminate.
    inversion H; subst. destruct (IHk shape idx) as [H1 H2]; try lia; auto.
Qed.

Lemma ndindex_inb shape idx : In idx (ndindex shape) <-> inb shape idx.
Proof.
  unfold inb. revert idx; induction shape; intros idx; simpl.
  - split; [intros [<-|[]]; constructor|]. intros H; inversion H; auto.
  - rewrite in_flat_map. split.
    + intros (i & Hi & H). apply in_map_iff in H as (r & <- & Hr).
      constructor; [now apply in_zrange|now apply IHshape].
    + intros H. inversion H; subst. exists x. split; [now apply in_zrange|].
      apply in_map_iff. eexists; split; [reflexivity|]. now apply IHshape.
Qed.

Lemma to_flat_ext {V} (t u : tensor V) :
  tsh t = tsh u -> (forall idx, inb (tsh t) idx -> tat t idx = tat u idx) -> to_flat t = to_flat u.
Proof.
  intros Hs H. unfold to_flat. rewrite <- Hs. apply map_ext_in. intros idx Hi.
  apply H. now apply ndindex_inb.
Qed.

(* ------------------------------------------------------------------ *)
(** * result monad *)

Lemma bind_ok {A B} (r : result A) (f : A -> result B) b :
  bind r f = Ok b -> exists a, r = Ok a /\ f a = Ok b.
Proof. destruct r; simpl; intros; [eauto|discriminate]. Qed.

Lemma mapM_ok {A B} (f : A -> result B) l bs :
  mapM f l = Ok bs ->
  length bs = length l /\ forall k a, nth_error l k = Some a -> exists b, nth_error bs k = Some b /\ f a = Ok b.
Proof.
  revert bs; induction l; simpl; intros bs H.
  - inversion H; subst. split; [reflexivity|]. intros [|k] a0 E; discriminate.
  - apply bind_ok in H as (b & Hb & H). apply bind_ok in H as (bs' & Hbs & H). inversion H; subst.
    destruct (IHl _ Hbs) as [Hl Hn]. split; [simpl; lia|].
    intros [|k] a0 E; simpl in *.
    + inversion E; subst. eauto.
    + now apply Hn.
Qed.
Lemma mapM_all_ok {A B} (f : A -> result B) l :
  (forall a, In a l -> exists b, f a = Ok b) -> exists bs, mapM f l = Ok bs.
Proof.
  induction l; simpl; intros H; [eauto|].
  destruct (H a) as [b Hb]; auto. rewrite Hb; simpl.
  destruct IHl as [bs Hbs]; auto. rewrite Hbs; simpl. eauto.
Qed.
