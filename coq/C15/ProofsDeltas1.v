(* C15 - Deltas, one-dimensional part: filters, padding, correlate + crop *)
From Coq Require Import ZArith List Bool Lia ZifyBool.
From Verif Require Import C15.Model C15.ProofsBase C15.ProofsGen.
Import ListNotations.
Open Scope Z_scope.

(* the documented value: sum_k f[k] * s(t + k - mo) for a signal s on all of Z *)
Definition corr_at (f : list Z) (s : Z -> Z) (mo t : Z) : Z :=
  zsum (zlen f) (fun k => nthZ 0 f k * s (t + k - mo)).
Definition lsum (l : list Z) : Z := zsum (zlen l) (nthZ 0 l).

(* ------------------------------------------------------------------ *)
(** * np.convolve / np.correlate *)

Lemma conv_length a b : zlen (conv a b) = Z.max 0 (zlen a + zlen b - 1).
Proof. unfold conv. now rewrite zlen_map, zlen_zrange'. Qed.
Lemma nthZ_conv a b m : 0 <= m < zlen a + zlen b - 1 ->
  nthZ 0 (conv a b) m = zsum (zlen a) (fun k => nthZ 0 a k * nthZ 0 b (m - k)).
Proof. intros. unfold conv. now rewrite nthZ_map_zrange. Qed.

Lemma zsum_1 f : zsum 1 f = f 0.
Proof. unfold zsum. simpl. lia. Qed.
Lemma conv_one_l b : conv [1] b = b.
Proof.
  apply list_eq_nthZ with (d := 0).
  - rewrite conv_length. change (zlen [1]) with 1. pose proof (zlen_nonneg b). lia.
  - intros i Hi. rewrite conv_length in Hi. change (zlen [1]) with 1 in Hi.
    rewrite nthZ_conv by (change (zlen [1]) with 1; lia).
    change (zlen [1]) with 1. rewrite zsum_1. rewrite Z.sub_0_r.
    change (nthZ 0 [1] 0) with 1. lia.
Qed.

(* correlating with a convolution = correlating twice (signals on all of Z) *)
Lemma corr_conv f g s mf mg t : 1 <= zlen f -> 1 <= zlen g ->
  corr_at (conv f g) s (mf + mg) t = corr_at g (corr_at f s mf) mg t.
Proof.
  intros Hf Hg. unfold corr_at at 1. rewrite conv_length.
  replace (Z.max 0 (zlen f + zlen g - 1)) with (zlen f + zlen g - 1) by lia.
  rewrite (zsum_ext _ _ (fun m => zsum (zlen f)
     (fun k => nthZ 0 g (m - k) * (nthZ 0 f k * s (t + m - (mf + mg)))))).
  2:{ intros m Hm. rewrite nthZ_conv by lia. rewrite <- zsum_scale_r.
      apply zsum_ext. intros; lia. }
  rewrite zsum_swap.
  rewrite (zsum_ext _ _ (fun k => zsum (zlen g)
     (fun j => nthZ 0 g j * (nthZ 0 f k * s (t + (j + k) - (mf + mg)))))).
  2:{ intros k Hk.
      apply (zsum_shift_support g (fun m => nthZ 0 f k * s (t + m - (mf + mg)))); lia. }
  rewrite zsum_swap. unfold corr_at. apply zsum_ext. intros j Hj.
  rewrite <- zsum_scale. apply zsum_ext. intros k Hk. f_equal. f_equal. f_equal. lia.
Qed.

Lemma lsum_conv a b : 1 <= zlen a -> 1 <= zlen b -> lsum (conv a b) = lsum a * lsum b.
Proof.
  intros Ha Hb.
  pose proof (corr_conv a b (fun _ => 1) 0 0 0 Ha Hb) as H.
  unfold corr_at in H.
  assert (E : forall l, zsum (zlen l) (fun k => nthZ 0 l k * 1) = lsum l).
  { intros l. unfold lsum. apply zsum_ext. intros; lia. }
  rewrite E in H. rewrite H.
  rewrite (zsum_ext _ _ (fun k => lsum a * nthZ 0 b k)).
  2:{ intros. rewrite E. lia. }
  rewrite zsum_scale. reflexivity.
Qed.

(* ------------------------------------------------------------------ *)
(** * the delta filters *)

Lemma delta_base_length W : 0 <= W -> zlen (delta_base W) = 1 + 2 * W.
Proof. intros. rewrite delta_base_eq. rewrite zlen_map, zlen_zrange; lia. Qed.
Lemma nthZ_delta_base W k : 0 <= k < 1 + 2 * W -> nthZ 0 (delta_base W) k = k - W.
Proof. intros. rewrite delta_base_eq. now rewrite nthZ_map_zrange. Qed.

Lemma filt_of_length base d : 1 <= zlen base ->
  zlen (filt_of base d) = Z.of_nat d * (zlen base - 1) + 1.
Proof.
  intros Hb. induction d.
  - reflexivity.
  - cbn [filt_of]. rewrite conv_length, IHd.
    assert (0 <= Z.of_nat d * (zlen base - 1)) by (apply Z.mul_nonneg_nonneg; lia). lia.
Qed.
Lemma filt_length W d : 0 <= W -> zlen (filt W d) = 2 * (Z.of_nat d * W) + 1.
Proof.
  intros. unfold filt. rewrite filt_of_length; rewrite delta_base_length by lia; lia.
Qed.
(* max_offset = (len(filt) - 1) // 2 = d * W *)
Lemma filt_max_offset W d : 0 <= W -> (zlen (filt W d) - 1) / 2 = Z.of_nat d * W.
Proof. intros. rewrite filt_length by lia. replace (2 * (Z.of_nat d * W) + 1 - 1) with (Z.of_nat d * W * 2) by lia. apply Z.div_mul. lia. Qed.

Lemma filt_succ W d : filt W (S d) = conv (filt W d) (delta_base W).
Proof. reflexivity. Qed.
Lemma filt_one W : filt W 1 = delta_base W.
Proof. unfold filt. cbn [filt_of]. apply conv_one_l. Qed.

(* sum_{k<n} k and sum_{k<n} k^2 *)
Lemma sum_id n : 0 <= n -> 2 * zsum n (fun k => k) = n * (n - 1).
Proof.
  intros Hn. pattern n. apply natlike_ind; [reflexivity| |assumption].
  intros x Hx IH. unfold Z.succ. rewrite zsum_succ by lia. lia.
Qed.
Lemma sum_sq n : 0 <= n -> 6 * zsum n (fun k => k * k) = (n - 1) * n * (2 * n - 1).
Proof.
  intros Hn. pattern n. apply natlike_ind; [reflexivity| |assumption].
  intros x Hx IH. unfold Z.succ. rewrite zsum_succ by lia. lia.
Qed.
Lemma sum_centered W : 0 <= W -> zsum (1 + 2 * W) (fun k => k - W) = 0.
Proof.
  intros. rewrite (zsum_ext _ _ (fun k => k + (- W) * 1)) by (intros; lia).
  rewrite zsum_add, zsum_scale.
  pose proof (sum_id (1 + 2 * W) ltac:(lia)).
  assert (zsum (1 + 2 * W) (fun _ => 1) = 1 + 2 * W).
  { pattern W. apply natlike_ind; [reflexivity| |assumption].
    intros x Hx IH. replace (1 + 2 * Z.succ x) with (1 + 2 * x + 1 + 1) by lia.
    rewrite !zsum_succ by lia. lia. }
  lia.
Qed.
(* Z = sum_t f(t)^2 = W (W+1) (2W+1) / 3 *)
Lemma delta_den_closed W : 0 <= W -> 3 * delta_den W = W * (W + 1) * (2 * W + 1).
Proof.
  intros. rewrite delta_den_eq.
  rewrite (zsum_ext _ _ (fun k => k * k + ((- 2 * W) * k + (W * W) * 1))) by (intros; lia).
  rewrite !zsum_add, !zsum_scale.
  pose proof (sum_id (1 + 2 * W) ltac:(lia)).
  pose proof (sum_sq (1 + 2 * W) ltac:(lia)).
  assert (zsum (1 + 2 * W) (fun _ => 1) = 1 + 2 * W).
  { pattern W. apply natlike_ind; [reflexivity| |assumption].
    intros x Hx IH. replace (1 + 2 * Z.succ x) with (1 + 2 * x + 1 + 1) by lia.
    rewrite !zsum_succ by lia. lia. }
  nia.
Qed.
Lemma delta_den_pos W : 1 <= W -> 0 < delta_den W.
Proof. intros. pose proof (delta_den_closed W ltac:(lia)). nia. Qed.

Lemma lsum_delta_base W : 0 <= W -> lsum (delta_base W) = 0.
Proof.
  intros. unfold lsum. rewrite delta_base_length by lia.
  rewrite (zsum_ext _ _ (fun k => k - W)) by (intros; now rewrite nthZ_delta_base).
  now apply sum_centered.
Qed.
(* every delta filter of order >= 1 sums to zero *)
Lemma lsum_filt W d : 0 <= W -> lsum (filt W (S d)) = 0.
Proof.
  intros. rewrite filt_succ. rewrite lsum_conv.
  - rewrite lsum_delta_base by lia. lia.
  - rewrite filt_length by lia. lia.
  - rewrite delta_base_length by lia. lia.
Qed.

(* order d+1 = first-order regression of the order-d sequence *)
Lemma corr_filt_succ W d s t : 0 <= W ->
  corr_at (filt W (S d)) s (Z.of_nat (S d) * W) t =
  zsum (1 + 2 * W) (fun j => (j - W) * corr_at (filt W d) s (Z.of_nat d * W) (t + j - W)).
Proof.
  intros. rewrite filt_succ.
  replace (Z.of_nat (S d) * W) with (Z.of_nat d * W + W) by lia.
  rewrite corr_conv.
  - unfold corr_at at 1. rewrite delta_base_length by lia.
    apply zsum_ext. intros j Hj. now rewrite nthZ_delta_base.
  - rewrite filt_length by lia. lia.
  - rewrite delta_base_length by lia. lia.
Qed.

(* ------------------------------------------------------------------ *)
(** * np.pad *)

Lemma Some_inj {A} (a b : A) : Some a = Some b -> a = b.
Proof. congruence. Qed.
Lemma ext_index_range m n i j : 1 <= n -> ext_index m n i = Some j -> 0 <= j < n.
Proof.
  intros Hn. unfold ext_index.
  destruct ((0 <=? i) && (i <? n)) eqn:E.
  - intros H; apply Some_inj in H; subst j. lia.
  - destruct m; intros H; try discriminate.
    + apply Some_inj in H; subst j. lia.
    + destruct (n =? 1) eqn:E1; [apply Some_inj in H; subst j; lia|].
      assert (Hp : 0 < 2 * (n - 1)) by lia. pose proof (Z.mod_pos_bound i (2 * (n - 1)) Hp).
      destruct (i mod (2 * (n - 1)) <? n) eqn:E2; apply Some_inj in H; subst j; lia.
    + assert (Hp : 0 < 2 * n) by lia. pose proof (Z.mod_pos_bound i (2 * n) Hp).
      destruct (i mod (2 * n) <? n) eqn:E2; apply Some_inj in H; subst j; lia.
    + assert (Hp : 0 < n) by lia. pose proof (Z.mod_pos_bound i n Hp).
      apply Some_inj in H; subst j; lia.
Qed.
Lemma ext_index_inside m n i : 0 <= i < n -> ext_index m n i = Some i.
Proof. intros. unfold ext_index. replace ((0 <=? i) && (i <? n)) with true by lia. reflexivity. Qed.
Lemma ext_val_inside m n x i : 0 <= i < n -> ext_val m n x i = x i.
Proof. intros. unfold ext_val. now rewrite ext_index_inside. Qed.
(* edge padding is clamping, as in Kaldi *)
Lemma ext_val_edge n x i : 1 <= n -> ext_val Edge n x i = x (Z.max 0 (Z.min i (n - 1))).
Proof.
  intros. unfold ext_val, ext_index.
  destruct ((0 <=? i) && (i <? n)) eqn:E; [f_equal; lia|reflexivity].
Qed.
Lemma ext_val_const m n x c i : 1 <= n -> (forall j, 0 <= j < n -> x j = c) ->
  pad_const m = c \/ is_constant m = false -> ext_val m n x i = c.
Proof.
  intros Hn Hx Hm. unfold ext_val. destruct (ext_index m n i) eqn:E.
  - apply Hx. eapply ext_index_range; eauto.
  - destruct Hm as [Hm|Hm]; [assumption|].
    unfold ext_index in E. destruct ((0 <=? i) && (i <? n)); [discriminate|].
    destruct m; try discriminate. destruct (n =? 1); discriminate.
Qed.

Lemma pad1d_ok m b a x : 0 <= b -> 0 <= a -> (1 <= zlen x \/ is_constant m = true \/ (b = 0 /\ a = 0)) ->
  pad1d m b a x = Ok (map (fun i => ext_val m (zlen x) (nthZ 0 x) (i - b)) (zrange (b + zlen x + a))).
Proof.
  intros Hb Ha H. unfold pad1d.
  destruct ((zlen x =? 0) && negb (is_constant m) && ((0 <? b) || (0 <? a))) eqn:E; [|reflexivity].
  exfalso. destruct H as [H|[H|H]].
  - lia.
  - rewrite H in E. simpl in E. rewrite andb_false_r in E. discriminate.
  - lia.
Qed.
Lemma pad1d_err m b a x : zlen x = 0 -> is_constant m = false -> 0 < b \/ 0 < a ->
  pad1d m b a x = Err EValue.
Proof.
  intros Hx Hm H. unfold pad1d. rewrite Hx, Hm. simpl.
  replace ((0 <? b) || (0 <? a)) with true by lia. reflexivity.
Qed.

(* ------------------------------------------------------------------ *)
(** * one lane: pad + correlate('full') + crop = the documented sum *)

Lemma delta_lane_spec m f x mo :
  zlen f = 2 * mo + 1 -> 1 <= mo -> 1 <= zlen x \/ is_constant m = true ->
  delta_lane m f x =
  Ok (map (corr_at f (ext_val m (zlen x) (nthZ 0 x)) mo) (zrange (zlen x))).
Proof.
  intros Hf Hmo Hx. rewrite (delta_lane_eq m f x mo Hf) by lia.
  pose proof (zlen_nonneg x) as Hn.
  rewrite pad1d_ok by lia. cbn [bind]. f_equal.
  set (n := zlen x) in *. set (g := fun i => ext_val m n (nthZ 0 x) (i - mo)).
  unfold correlate_full. rewrite zlen_map, zlen_zrange by lia.
  rewrite Hf.
  rewrite pyslice_table; cbv zeta.
  2: lia.
  2:{ unfold norm_bound.
      destruct (2 * mo <? 0) eqn:E1; destruct (- (2 * mo) <? 0) eqn:E2; lia. }
  assert (Es : norm_bound (mo + n + mo + (2 * mo + 1) - 1) (2 * mo) = 2 * mo).
  { unfold norm_bound. destruct (2 * mo <? 0) eqn:E1; lia. }
  assert (Ee : norm_bound (mo + n + mo + (2 * mo + 1) - 1) (- (2 * mo)) = n + 2 * mo).
  { unfold norm_bound. destruct (- (2 * mo) <? 0) eqn:E1; lia. }
  rewrite Es, Ee. replace (n + 2 * mo - 2 * mo) with n by lia.
  apply map_zrange_ext. intros t Ht. unfold corr_at. rewrite Hf.
  apply zsum_ext. intros k Hk.
  rewrite nthZ_map_zrange by lia. unfold g. rewrite Z.mul_comm. f_equal. f_equal. lia.
Qed.

Lemma delta_lane_err m f x mo :
  zlen f = 2 * mo + 1 -> 1 <= mo -> zlen x = 0 -> is_constant m = false ->
  delta_lane m f x = Err EValue.
Proof.
  intros Hf Hmo Hx Hm. rewrite (delta_lane_eq m f x mo Hf) by lia.
  rewrite pad1d_err by (auto; lia). reflexivity.
Qed.

(* the quirk behind the precondition 1 <= mo: a one-tap filter is cropped by [0:0] *)
Lemma delta_lane_one_tap m x c : 1 <= zlen x -> delta_lane m [c] x = Ok [].
Proof.
  intros. rewrite (delta_lane_eq m [c] x 0) by (reflexivity || lia).
  rewrite pad1d_ok by lia. cbn [bind]. f_equal.
  unfold pyslice. change (2 * 0) with 0. change (- 0) with 0. rewrite Z.sub_diag. reflexivity.
Qed.
