(* C15 - Deltas on tensors: the lane loop, and the layout of the result *)
From Coq Require Import ZArith List Bool Lia ZifyBool.
From Verif Require Import C15.Model C15.ProofsBase C15.ProofsGen C15.ProofsTensor C15.ProofsDeltas1.
Import ListNotations.
Open Scope Z_scope.

Definition shape_ok (sh : list Z) : Prop := Forall (fun s => 0 <= s) sh.
Lemma shape_ok_nth sh k : shape_ok sh -> 0 <= nth k sh 0.
Proof.
  intros H. destruct (Nat.lt_ge_cases k (length sh)).
  - unfold shape_ok in H. rewrite Forall_forall in H. apply H. now apply nth_In.
  - rewrite nth_overflow by lia. lia.
Qed.

(* the 1-D signal through idx along axis ax *)
Definition lane_sig (X : tensor Z) (ax : nat) (idx : list Z) : Z -> Z :=
  fun j => tat X (upd ax j idx).

(* documented numerator of the order-given filter at idx *)
Definition delta_num (m : pad_mode) (f : list Z) (mo : Z) (X : tensor Z) (ax : nat) (idx : list Z) : Z :=
  corr_at f (ext_val m (nth ax (tsh X) 0) (lane_sig X ax idx)) mo (nth ax idx 0).

Lemma ext_val_ext m n x y i : 1 <= n -> (forall j, 0 <= j < n -> x j = y j) ->
  ext_val m n x i = ext_val m n y i.
Proof.
  intros Hn H. unfold ext_val. destruct (ext_index m n i) eqn:E; [|reflexivity].
  apply H. eapply ext_index_range; eauto.
Qed.

Lemma lane_length X ax oi : 0 <= nth ax (tsh X) 0 -> zlen (lane X ax oi) = nth ax (tsh X) 0.
Proof. intros. unfold lane. now rewrite zlen_map, zlen_zrange. Qed.
Lemma nthZ_lane X ax idx j : (ax < length idx)%nat -> 0 <= j < nth ax (tsh X) 0 ->
  nthZ 0 (lane X ax (del ax idx)) j = lane_sig X ax idx j.
Proof.
  intros. unfold lane, lane_sig. rewrite nthZ_map_zrange by assumption.
  now rewrite ins_del_upd.
Qed.

Lemma list_Z_in_dec (a : list Z) (l : list (list Z)) : {In a l} + {~ In a l}.
Proof. apply in_dec. apply list_eq_dec. apply Z.eq_dec. Qed.

(* the loop  for other_indices in np.ndindex(other_shapes)  *)
Lemma lanes_loop_spec m f mo X ax post :
  zlen f = 2 * mo + 1 -> 1 <= mo -> 0 <= nth ax (tsh X) 0 ->
  forall ois acc,
  ois = [] \/ 1 <= nth ax (tsh X) 0 \/ is_constant m = true ->
  exists g, lanes_loop m f X ax post ois acc = Ok g /\
    forall idx, (ax < length idx)%nat ->
      (In (del ax idx) ois -> 0 <= nth ax idx 0 < nth ax (tsh X) 0 ->
         g idx = post (delta_num m f mo X ax idx)) /\
      (~ In (del ax idx) ois -> g idx = acc idx).
Proof.
  intros Hf Hmo Hn0. set (n := nth ax (tsh X) 0) in *.
  induction ois as [|oi r IH]; intros acc Hpre.
  - exists acc. split; [reflexivity|]. intros idx Hax. split; [intros []|reflexivity].
  - assert (Hpre' : 1 <= n \/ is_constant m = true) by (destruct Hpre as [H|H]; [discriminate|exact H]).
    cbn [lanes_loop].
    rewrite (delta_lane_spec m f (lane X ax oi) mo Hf Hmo)
      by (rewrite lane_length by assumption; exact Hpre').
    cbn [bind]. rewrite zlen_map, lane_length by assumption. fold n. rewrite zlen_zrange by lia.
    rewrite Z.eqb_refl.
    destruct (IH (write_lane (0, 1) ax oi
                   (map post (map (corr_at f (ext_val m n (nthZ 0 (lane X ax oi))) mo) (zrange n))) acc))
      as (g & Hg & Hspec).
    { right. exact Hpre'. }
    exists g. split; [exact Hg|]. intros idx Hax. destruct (Hspec idx Hax) as [H1 H2].
    split.
    + intros Hin Ht. destruct (list_Z_in_dec (del ax idx) r) as [Hr|Hr]; [now apply H1|].
      destruct Hin as [Heq|Hin]; [|contradiction].
      rewrite H2 by assumption. unfold write_lane.
      replace (list_eqb (del ax idx) oi) with true by (symmetry; apply list_eqb_eq; congruence).
      rewrite map_map. rewrite nthZ_map_zrange by assumption.
      f_equal. unfold delta_num. fold n. unfold corr_at. apply zsum_ext. intros k Hk. f_equal.
      subst oi. apply ext_val_ext; [lia|].
      intros j Hj. now apply nthZ_lane.
    + intros Hnin. rewrite H2 by (intros Hr; apply Hnin; now right).
      unfold write_lane.
      replace (list_eqb (del ax idx) oi) with false; [reflexivity|].
      symmetry. apply list_eqb_neq. intros E. apply Hnin. now left.
Qed.

Lemma lanes_loop_err m f mo X ax post oi r acc :
  zlen f = 2 * mo + 1 -> 1 <= mo -> nth ax (tsh X) 0 = 0 -> is_constant m = false ->
  lanes_loop m f X ax post (oi :: r) acc = Err EValue.
Proof.
  intros Hf Hmo Hn Hm. cbn [lanes_loop].
  rewrite (delta_lane_err m f (lane X ax oi) mo); auto.
  rewrite lane_length by lia. assumption.
Qed.

(* one delta_feat tensor *)
Lemma delta_block_spec m X ax f mo den :
  zlen f = 2 * mo + 1 -> 1 <= mo -> shape_ok (tsh X) -> (ax < length (tsh X))%nat ->
  ndindex (del ax (tsh X)) = [] \/ 1 <= nth ax (tsh X) 0 \/ is_constant m = true ->
  exists B, delta_block m X ax f den = Ok B /\ tdt B = tdt X /\ tsh B = tsh X /\
    forall idx, inb (tsh X) idx ->
      tat B idx = cast_out (tdt X) den (delta_num m f mo X ax idx).
Proof.
  intros Hf Hmo Hsh Hax Hpre. unfold delta_block.
  destruct (lanes_loop_spec m f mo X ax (cast_out (tdt X) den) Hf Hmo (shape_ok_nth _ ax Hsh)
              (ndindex (del ax (tsh X))) (fun _ => (0, 1)) Hpre) as (g & Hg & Hspec).
  rewrite Hg. cbn [bind]. eexists. split; [reflexivity|]. cbn [tdt tsh tat].
  split; [reflexivity|]. split; [reflexivity|].
  intros idx Hin. pose proof (inb_length _ _ Hin) as Hl.
  destruct (Hspec idx ltac:(lia)) as [H1 _]. apply H1.
  - apply ndindex_inb. now apply inb_del.
  - now apply inb_nth.
Qed.

Lemma delta_block_err m X ax f mo den oi :
  zlen f = 2 * mo + 1 -> 1 <= mo -> nth ax (tsh X) 0 = 0 -> is_constant m = false ->
  inb (del ax (tsh X)) oi ->
  delta_block m X ax f den = Err EValue.
Proof.
  intros Hf Hmo Hn Hm Hoi. unfold delta_block.
  apply ndindex_inb in Hoi. destruct (ndindex (del ax (tsh X))) as [|o r]; [contradiction|].
  rewrite (lanes_loop_err m f mo); auto.
Qed.

(* ------------------------------------------------------------------ *)
(** * Deltas.apply *)

(* the documented value of block d (0 = the input) at input position idx *)
Definition deltas_value (c : deltas_cfg) (X : tensor Z) (ax : nat) (d : nat) (idx : list Z) : frac :=
  match d with
  | O => (tat X idx, 1)
  | S _ => cast_out (tdt X) (delta_den (context_window c) ^ Z.of_nat d)
             (delta_num (dpad c) (filt (context_window c) d) (Z.of_nat d * context_window c) X ax idx)
  end.

(* no padding error can occur: some lane is non-empty, or padding is constant,
   or there is nothing to filter *)
Definition deltas_pad_ok (c : deltas_cfg) (X : tensor Z) (ax : nat) : Prop :=
  num_deltas c = O \/ ndindex (del ax (tsh X)) = [] \/ 1 <= nth ax (tsh X) 0 \/ is_constant (dpad c) = true.

Lemma deltas_blocks c X ax :
  1 <= context_window c -> shape_ok (tsh X) -> (ax < length (tsh X))%nat -> deltas_pad_ok c X ax ->
  exists blocks,
    mapM (fun d => delta_block (dpad c) X ax (filt (context_window c) d)
                     (delta_den (context_window c) ^ Z.of_nat d)) (seq 1 (num_deltas c)) = Ok blocks /\
    length blocks = num_deltas c /\
    uniform (tdt X) (tsh X) (tmap (fun x => (x, 1)) X :: blocks) /\
    forall d B, nth_error (tmap (fun x => (x, 1)) X :: blocks) d = Some B ->
      forall idx, inb (tsh X) idx -> tat B idx = deltas_value c X ax d idx.
Proof.
  intros HW Hsh Hax Hpre. set (W := context_window c) in *.
  set (fb := fun d => delta_block (dpad c) X ax (filt W d) (delta_den W ^ Z.of_nat d)).
  assert (Hblk : forall d, (1 <= d)%nat -> num_deltas c <> O ->
     exists B, fb d = Ok B /\ tdt B = tdt X /\ tsh B = tsh X /\
       forall idx, inb (tsh X) idx -> tat B idx = deltas_value c X ax d idx).
  { intros d Hd HD. unfold fb.
    destruct (delta_block_spec (dpad c) X ax (filt W d) (Z.of_nat d * W) (delta_den W ^ Z.of_nat d))
      as (B & HB & H1 & H2 & H3); auto.
    - rewrite filt_length by lia. lia.
    - nia.
    - destruct Hpre as [H|H]; [contradiction|exact H].
    - exists B. repeat split; auto. intros idx Hi. rewrite (H3 idx Hi).
      destruct d; [lia|]. reflexivity. }
  destruct (mapM_all_ok fb (seq 1 (num_deltas c))) as [blocks Hm].
  { intros d Hd. apply in_seq in Hd. destruct (Hblk d) as (B & HB & _); [lia|lia|eauto]. }
  exists blocks. split; [exact Hm|].
  destruct (mapM_ok fb _ _ Hm) as [Hlen Hnth]. rewrite seq_length in Hlen.
  split; [exact Hlen|].
  assert (Hall : forall k B, nth_error blocks k = Some B ->
     tdt B = tdt X /\ tsh B = tsh X /\
     forall idx, inb (tsh X) idx -> tat B idx = deltas_value c X ax (S k) idx).
  { intros k B HkB.
    assert (Hk : (k < num_deltas c)%nat).
    { rewrite <- Hlen. apply nth_error_Some. congruence. }
    destruct (Hnth k (S k)) as (B' & HB' & HfB').
    { rewrite nth_error_nth' with (d := O) by (rewrite seq_length; lia).
      rewrite seq_nth by lia. reflexivity. }
    rewrite HkB in HB'. inversion HB'; subst B'.
    destruct (Hblk (S k)) as (B2 & HB2 & H1 & H2 & H3); [lia|lia|].
    rewrite HfB' in HB2. inversion HB2; subst B2. auto. }
  split.
  - intros t [<-|Ht]; [split; reflexivity|].
    apply In_nth_error in Ht as [k Hk]. destruct (Hall k t Hk) as (H1 & H2 & _). auto.
  - intros d B Hd idx Hi. destruct d.
    + simpl in Hd. inversion Hd; subst B. reflexivity.
    + simpl in Hd. destruct (Hall d B Hd) as (_ & _ & H3). now apply H3.
Qed.

Lemma deltas_apply_unfold c X axis blocks :
  length (tsh X) <> O ->
  mapM (fun d => delta_block (dpad c) X (mod_axis axis (length (tsh X))) (filt (context_window c) d)
                   (delta_den (context_window c) ^ Z.of_nat d)) (seq 1 (num_deltas c)) = Ok blocks ->
  deltas_apply c X axis =
  if concat c then concatenate (0, 1) (tmap (fun x => (x, 1)) X :: blocks) (target_axis c)
  else stack_new (0, 1) (tmap (fun x => (x, 1)) X :: blocks) (target_axis c).
Proof.
  intros Hnd Hm. unfold deltas_apply.
  destruct (Nat.eqb (length (tsh X)) 0) eqn:E; [apply Nat.eqb_eq in E; contradiction|].
  cbv zeta.
  replace (deltas_axis axis (length (tsh X))) with (mod_axis axis (length (tsh X)))
    by (symmetry; now apply deltas_axis_eq).
  rewrite Hm. reflexivity.
Qed.

(* concatenate=True: the input followed by num_deltas filtered copies along target_axis *)
Lemma deltas_concat_layout_l c X axis ta :
  let nd := length (tsh X) in
  let ax := mod_axis axis nd in
  nd <> O -> shape_ok (tsh X) -> 1 <= context_window c -> deltas_pad_ok c X ax ->
  concat c = true -> norm_axis (target_axis c) nd = Some ta ->
  exists R, deltas_apply c X axis = Ok R /\
    tdt R = tdt X /\
    tsh R = upd ta ((Z.of_nat (num_deltas c) + 1) * nth ta (tsh X) 0) (tsh X) /\
    forall d idx, (d <= num_deltas c)%nat -> inb (tsh X) idx ->
      tat R (upd ta (Z.of_nat d * nth ta (tsh X) 0 + nth ta idx 0) idx) = deltas_value c X ax d idx.
Proof.
  intros nd ax Hnd Hsh HW Hpre Hc Hta.
  assert (Hax : (ax < nd)%nat) by (apply mod_axis_lt; lia).
  destruct (deltas_blocks c X ax HW Hsh Hax Hpre) as (blocks & Hm & Hlen & Hu & Hval).
  rewrite (deltas_apply_unfold c X axis blocks Hnd Hm), Hc.
  assert (Hne : tmap (fun x => (x, 1)) X :: blocks <> []) by discriminate.
  destruct (@concatenate_uniform frac (0, 1) (tdt X) (tsh X) _ (target_axis c) ta
              Hne Hu Hta) as (R & HR & Hdt & Hshape & Hat).
  exists R. split; [exact HR|]. split; [exact Hdt|]. split.
  - apply (eq_trans Hshape). rewrite zlen_cons. unfold zlen. rewrite Hlen. f_equal. lia.
  - intros d idx Hd Hi.
    destruct (nth_error (tmap (fun x => (x, 1)) X :: blocks) d) as [B|] eqn:EB.
    2:{ apply nth_error_None in EB. simpl in EB. unfold frac in *. lia. }
    pose proof (inb_length _ _ Hi) as Hl.
    pose proof (norm_axis_lt _ _ _ Hta) as Hta'.
    transitivity (tat B (upd ta (nth ta idx 0) idx)).
    + apply (Hat d B idx (nth ta idx 0) EB Hl). apply inb_nth; auto.
    + rewrite upd_same. now apply (Hval d B EB).
Qed.

(* concatenate=False: stacked on a new axis at target_axis *)
Lemma deltas_stack_layout_l c X axis ta :
  let nd := length (tsh X) in
  let ax := mod_axis axis nd in
  nd <> O -> shape_ok (tsh X) -> 1 <= context_window c -> deltas_pad_ok c X ax ->
  concat c = false -> norm_axis (target_axis c) (S nd) = Some ta ->
  exists R, deltas_apply c X axis = Ok R /\
    tdt R = tdt X /\
    tsh R = ins ta (Z.of_nat (num_deltas c) + 1) (tsh X) /\
    forall d idx, (d <= num_deltas c)%nat -> inb (tsh X) idx ->
      tat R (ins ta (Z.of_nat d) idx) = deltas_value c X ax d idx.
Proof.
  intros nd ax Hnd Hsh HW Hpre Hc Hta.
  assert (Hax : (ax < nd)%nat) by (apply mod_axis_lt; lia).
  destruct (deltas_blocks c X ax HW Hsh Hax Hpre) as (blocks & Hm & Hlen & Hu & Hval).
  rewrite (deltas_apply_unfold c X axis blocks Hnd Hm), Hc.
  assert (Hne : tmap (fun x => (x, 1)) X :: blocks <> []) by discriminate.
  destruct (@stack_new_uniform frac (0, 1) (tdt X) (tsh X) _ (target_axis c) ta
              Hne Hu Hta) as (R & HR & Hdt & Hshape & Hat).
  exists R. split; [exact HR|]. split; [exact Hdt|]. split.
  - apply (eq_trans Hshape). rewrite zlen_cons. unfold zlen. rewrite Hlen. f_equal. lia.
  - intros d idx Hd Hi.
    destruct (nth_error (tmap (fun x => (x, 1)) X :: blocks) d) as [B|] eqn:EB.
    2:{ apply nth_error_None in EB. simpl in EB. unfold frac in *. lia. }
    pose proof (inb_length _ _ Hi) as Hl.
    transitivity (tat B idx); [apply (Hat d B idx EB Hl)|now apply (Hval d B EB)].
Qed.

(* an out-of-range target axis is an AxisError (after the filtering succeeded) *)
Lemma deltas_axis_error_l c X axis :
  let nd := length (tsh X) in
  let ax := mod_axis axis nd in
  nd <> O -> shape_ok (tsh X) -> 1 <= context_window c -> deltas_pad_ok c X ax ->
  norm_axis (target_axis c) (if concat c then nd else S nd) = None ->
  deltas_apply c X axis = Err EAxis.
Proof.
  intros nd ax Hnd Hsh HW Hpre Hta.
  assert (Hax : (ax < nd)%nat) by (apply mod_axis_lt; lia).
  destruct (deltas_blocks c X ax HW Hsh Hax Hpre) as (blocks & Hm & Hlen & Hu & Hval).
  rewrite (deltas_apply_unfold c X axis blocks Hnd Hm).
  destruct (concat c).
  - apply concatenate_axis_error. exact Hta.
  - eapply stack_new_axis_error; eauto. discriminate.
Qed.

(* an empty filtered axis cannot be padded by a non-constant mode: ValueError *)
Lemma deltas_empty_axis_error_l c X axis oi :
  let nd := length (tsh X) in
  let ax := mod_axis axis nd in
  nd <> O -> 1 <= context_window c -> num_deltas c <> O ->
  nth ax (tsh X) 0 = 0 -> is_constant (dpad c) = false -> inb (del ax (tsh X)) oi ->
  deltas_apply c X axis = Err EValue.
Proof.
  intros nd ax Hnd HW HD Hn Hm Hoi. unfold deltas_apply.
  destruct (Nat.eqb (length (tsh X)) 0) eqn:E; [apply Nat.eqb_eq in E; contradiction|].
  cbv zeta.
  replace (deltas_axis axis (length (tsh X))) with ax by (symmetry; now apply deltas_axis_eq).
  destruct (num_deltas c) as [|D]; [contradiction|].
  cbn [seq mapM].
  rewrite (delta_block_err (dpad c) X ax (filt (context_window c) 1) (Z.of_nat 1 * context_window c) _ oi); auto.
  - rewrite filt_length by lia. lia.
  - lia.
Qed.

(* every element of the result is one of the documented ones *)
Lemma deltas_concat_cover sh ta D idx' : (ta < length sh)%nat ->
  inb (upd ta ((Z.of_nat D + 1) * nth ta sh 0) sh) idx' ->
  exists d idx, (d <= D)%nat /\ inb sh idx /\
    idx' = upd ta (Z.of_nat d * nth ta sh 0 + nth ta idx 0) idx.
Proof.
  intros Hta H. destruct (concat_cover sh ta (Z.of_nat D + 1) idx' Hta ltac:(lia) H)
    as (k & idx & Hk & Hi & E).
  exists (Z.to_nat k), idx. split; [lia|]. split; [assumption|].
  rewrite Z2Nat.id by lia. exact E.
Qed.
Lemma deltas_stack_cover sh ta D idx' : (ta <= length sh)%nat ->
  inb (ins ta (Z.of_nat D + 1) sh) idx' ->
  exists d idx, (d <= D)%nat /\ inb sh idx /\ idx' = ins ta (Z.of_nat d) idx.
Proof.
  intros Hta H. destruct (stack_cover sh ta (Z.of_nat D + 1) idx' Hta H) as (k & idx & Hk & Hi & E).
  exists (Z.to_nat k), idx. split; [lia|]. split; [assumption|].
  rewrite Z2Nat.id by lia. exact E.
Qed.
