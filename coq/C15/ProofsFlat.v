(* C15 - the flat (row-major) view used for input/output agrees with indexing *)
From Coq Require Import ZArith List Bool Lia ZifyBool.
From Verif Require Import C15.Model C15.ProofsBase C15.ProofsDeltasND.
Import ListNotations.
Open Scope Z_scope.

Lemma zprod_nonneg sh : shape_ok sh -> 0 <= zprod sh.
Proof.
  unfold shape_ok. induction 1; unfold zprod in *; simpl; [lia|].
  apply Z.mul_nonneg_nonneg; assumption.
Qed.

Lemma ravel_bound sh idx : inb sh idx -> 0 <= ravel sh idx < zprod sh.
Proof.
  unfold inb. intros H. induction H.
  - simpl. unfold zprod; simpl. lia.
  - cbn [ravel]. change (zprod (y :: l')) with (y * zprod l'). nia.
Qed.

Lemma ndindex_length sh : shape_ok sh -> zlen (ndindex sh) = zprod sh.
Proof.
  unfold shape_ok. induction 1.
  - reflexivity.
  - cbn [ndindex]. change (zprod (x :: l)) with (x * zprod l).
    rewrite <- IHForall. clear IHForall.
    unfold zrange. assert (Ex : x = Z.of_nat (Z.to_nat x)) by lia.
    rewrite Ex at 2. generalize (Z.to_nat x) as k. clear. intros k. generalize 0%nat as s.
    induction k as [|k IH]; intros s.
    + reflexivity.
    + cbn [seq map flat_map]. rewrite zlen_app, zlen_map, IH. lia.
Qed.

(* nth of a flat_map whose blocks all have length P *)
Lemma nth_flat_map_uniform {A B} (f : A -> list B) (l : list A) (P : nat) (j k : nat) da db :
  (forall a, length (f a) = P) -> (j < length l)%nat -> (k < P)%nat ->
  nth (j * P + k) (flat_map f l) db = nth k (f (nth j l da)) db.
Proof.
  intros HP. revert j. induction l as [|a l IH]; intros j Hj Hk; simpl in Hj; [lia|].
  cbn [flat_map]. destruct j.
  - simpl. rewrite app_nth1 by (rewrite HP; lia). reflexivity.
  - rewrite app_nth2 by (rewrite HP; lia). rewrite HP.
    replace (S j * P + k - P)%nat with (j * P + k)%nat by lia.
    cbn [nth]. apply IH; lia.
Qed.

(* the k-th tuple of np.ndindex is the one with row-major offset k *)
Lemma nth_ndindex_ravel sh idx : shape_ok sh -> inb sh idx ->
  nth (Z.to_nat (ravel sh idx)) (ndindex sh) [] = idx.
Proof.
  intros Hsh H. revert Hsh. unfold inb in H. induction H; intros Hsh.
  - reflexivity.
  - inversion Hsh as [|? ? Hy Hl']; subst.
    cbn [ravel ndindex].
    pose proof (ravel_bound l' l H0) as Hb.
    pose proof (zprod_nonneg l' Hl') as Hp.
    pose proof (ndindex_length l' Hl') as Hlen. unfold zlen in Hlen.
    replace (Z.to_nat (x * zprod l' + ravel l' l))
      with (Z.to_nat x * length (ndindex l') + Z.to_nat (ravel l' l))%nat by nia.
    rewrite (nth_flat_map_uniform (fun i => map (cons i) (ndindex l')) (zrange y)
               (length (ndindex l')) _ _ 0).
    + rewrite nth_zrange by lia. rewrite Z2Nat.id by lia.
      rewrite nth_indep with (d' := x :: []) by (rewrite map_length; lia).
      rewrite (map_nth (cons x)). f_equal. apply IHForall2. assumption.
    + intros a. apply map_length.
    + rewrite zrange_length. lia.
    + lia.
Qed.

(* reading the flat output at the row-major offset gives the indexed element *)
Lemma to_flat_ravel_l {V} (d : V) (t : tensor V) idx : shape_ok (tsh t) -> inb (tsh t) idx ->
  nthZ d (to_flat t) (ravel (tsh t) idx) = tat t idx.
Proof.
  intros Hsh Hi. pose proof (ravel_bound _ _ Hi) as Hb.
  rewrite nthZ_nth by lia. unfold to_flat.
  rewrite nth_indep with (d' := tat t []).
  - rewrite map_nth. now rewrite nth_ndindex_ravel.
  - rewrite map_length. pose proof (ndindex_length _ Hsh). unfold zlen in *. lia.
Qed.
Lemma to_flat_length_l {V} (t : tensor V) : shape_ok (tsh t) -> zlen (to_flat t) = zprod (tsh t).
Proof. intros. unfold to_flat. rewrite zlen_map. now apply ndindex_length. Qed.
Lemma flat_map_uniform_length {A B} (f : A -> list B) (l : list A) (P : nat) :
  (forall a, length (f a) = P) -> length (flat_map f l) = (length l * P)%nat.
Proof. intros HP. induction l; simpl; [reflexivity|]. rewrite app_length, HP, IHl. lia. Qed.

(* conversely the tuple at position k has offset k *)
Lemma ravel_nth_ndindex sh : shape_ok sh -> forall k, (k < length (ndindex sh))%nat ->
  ravel sh (nth k (ndindex sh) []) = Z.of_nat k.
Proof.
  unfold shape_ok. induction 1 as [|s r Hs Hr IH]; intros k Hk.
  - simpl in Hk. destruct k; [reflexivity|lia].
  - cbn [ndindex] in *.
    set (P := length (ndindex r)) in *.
    assert (HP : forall a : Z, length (map (cons a) (ndindex r)) = P) by (intros; apply map_length).
    rewrite (flat_map_uniform_length _ _ P HP) in Hk. rewrite zrange_length in Hk.
    assert (P <> 0)%nat by lia.
    pose proof (Nat.div_mod k P ltac:(assumption)) as Hdm.
    pose proof (Nat.mod_upper_bound k P ltac:(assumption)) as Hq.
    assert (Hj : (k / P < Z.to_nat s)%nat) by (apply Nat.div_lt_upper_bound; lia).
    rewrite Hdm at 1. rewrite (Nat.mul_comm P).
    rewrite (nth_flat_map_uniform (fun i => map (cons i) (ndindex r)) (zrange s) P _ _ 0)
      by (auto; rewrite zrange_length; lia).
    rewrite nth_zrange by lia.
    rewrite nth_indep with (d' := Z.of_nat (k / P) :: []) by (rewrite map_length; fold P; lia).
    rewrite (map_nth (cons (Z.of_nat (k / P)))). cbn [ravel].
    rewrite IH by (fold P; lia).
    pose proof (ndindex_length r Hr) as Hl. unfold zlen in Hl. fold P in Hl. rewrite <- Hl.
    rewrite Hdm at 3. lia.
Qed.

(* flat input -> tensor -> flat output is the identity *)
Lemma of_flat_to_flat_l dt sh data : shape_ok sh -> zlen data = zprod sh ->
  to_flat (of_flat dt sh data) = data.
Proof.
  intros Hsh Hl. apply list_eq_nthZ with (d := 0).
  - rewrite to_flat_length_l by assumption. cbn [tsh of_flat]. lia.
  - intros i Hi. rewrite to_flat_length_l in Hi by assumption. cbn [tsh of_flat] in Hi.
    unfold to_flat, of_flat; cbn [tsh tat].
    pose proof (ndindex_length sh Hsh) as Hn.
    rewrite nthZ_map with (da := []) by lia.
    f_equal. rewrite nthZ_nth by lia. rewrite ravel_nth_ndindex; [lia|assumption|unfold zlen in Hn; lia].
Qed.
