(* C15 - what the theorems need to know about the integer expressions that
   gen/post_c15.py regenerates from post.py (coq/gen/PostC15.v).  Every lemma
   here is closed by arithmetic automation only, so a harmless rewrite of an
   expression in the source is re-proved and a change of meaning is refuted. *)
From Coq Require Import ZArith List Bool Lia ZifyBool.
From Verif Require Import gen.PostC15 C15.Model.
Import ListNotations.
Open Scope Z_scope.

Ltac Zify.zify_post_hook ::= Z.to_euclidean_division_equations; ZifyBool.elim_bool_cstr.
Ltac gen_arith := intros; cbv delta [g_base_len g_base_shift g_axis_mod g_pad_before g_pad_after
  g_crop_lo g_crop_hi g_stack_reject g_stack_axis_mod g_stack_time_mod g_stack_rem
  g_stack_pad_before g_stack_pad_after g_stack_T_padded g_stack_nT g_stack_nF g_stack_T2
  g_stack_count g_stack_slice_start g_stack_slice_stop g_stack_slice_step] beta;
  first [reflexivity | lia | nia].

(* Deltas.__init__: delta_filter = arange(1 + 2W) - W *)
Lemma g_base_len_spec W : g_base_len W = 1 + 2 * W.
Proof. gen_arith. Qed.
Lemma g_base_shift_spec W : g_base_shift W = W.
Proof. gen_arith. Qed.
(* Deltas.apply: the filter axis is axis % ndim *)
Lemma g_axis_mod_spec a nd : 0 < nd -> g_axis_mod a nd = a mod nd.
Proof. gen_arith. Qed.
(* an odd filter of length 2 mo + 1 is padded by mo on both sides and the
   'full' correlation is cropped by [2 mo : -2 mo] *)
Lemma g_pad_before_spec mo : 0 <= mo -> g_pad_before (2 * mo + 1) = mo.
Proof. gen_arith. Qed.
Lemma g_pad_after_spec mo : 0 <= mo -> g_pad_after (2 * mo + 1) = mo.
Proof. gen_arith. Qed.
Lemma g_crop_lo_spec mo : 0 <= mo -> g_crop_lo (2 * mo + 1) = 2 * mo.
Proof. gen_arith. Qed.
Lemma g_crop_hi_spec mo : 0 <= mo -> g_crop_hi (2 * mo + 1) = - (2 * mo).
Proof. gen_arith. Qed.
(* Stack *)
Lemma g_stack_reject_spec n : g_stack_reject n = (n <? 1).
Proof. gen_arith. Qed.
Lemma g_stack_axis_mod_spec a nd : 0 < nd -> g_stack_axis_mod a nd = a mod nd.
Proof. gen_arith. Qed.
Lemma g_stack_time_mod_spec a nd : 0 < nd -> g_stack_time_mod a nd = a mod nd.
Proof. gen_arith. Qed.
Lemma g_stack_rem_spec T n : 1 <= n -> g_stack_rem T n = T mod n.
Proof. gen_arith. Qed.
Lemma g_stack_pad_before_spec n r : g_stack_pad_before n r = 0.
Proof. gen_arith. Qed.
Lemma g_stack_pad_after_spec n r : g_stack_pad_after n r = n - r.
Proof. gen_arith. Qed.
Lemma g_stack_T_padded_spec T n r : g_stack_T_padded T n r = T + (n - r).
Proof. gen_arith. Qed.
Lemma g_stack_nT_spec T n : 1 <= n -> g_stack_nT T n = T / n.
Proof. gen_arith. Qed.
Lemma g_stack_nF_spec F n : g_stack_nF F n = F * n.
Proof. gen_arith. Qed.
Lemma g_stack_T2_spec nT n : g_stack_T2 nT n = nT * n.
Proof. gen_arith. Qed.
Lemma g_stack_count_spec n : g_stack_count n = n.
Proof. gen_arith. Qed.
Lemma g_stack_slice_spec i T n :
  g_stack_slice_start i T n = i /\ g_stack_slice_stop i T n = T /\ g_stack_slice_step i T n = n.
Proof. repeat split; gen_arith. Qed.

(* ---- the model functions, restated with the expressions spelled out ---- *)
Lemma delta_base_eq W : delta_base W = map (fun i => i - W) (zrange (1 + 2 * W)).
Proof.
  unfold delta_base. rewrite g_base_len_spec. apply map_ext. intros i. now rewrite g_base_shift_spec.
Qed.
Lemma sumn_ext' n f g : (forall i, f i = g i) -> sumn n f = sumn n g.
Proof. intros H. induction n; simpl; [reflexivity|]. now rewrite IHn, H. Qed.
Lemma delta_den_eq W : delta_den W = zsum (1 + 2 * W) (fun i => (i - W) * (i - W)).
Proof.
  unfold delta_den. rewrite g_base_len_spec. unfold zsum. apply sumn_ext'.
  intros i. now rewrite g_base_shift_spec.
Qed.
Lemma delta_lane_eq m f x mo : zlen f = 2 * mo + 1 -> 0 <= mo ->
  delta_lane m f x =
  bind (pad1d m mo mo x) (fun xp => Ok (pyslice (2 * mo) (- (2 * mo)) (correlate_full xp f))).
Proof.
  intros Hf Hmo. unfold delta_lane. cbv zeta. rewrite Hf.
  now rewrite g_pad_before_spec, g_pad_after_spec, g_crop_lo_spec, g_crop_hi_spec.
Qed.
Lemma deltas_axis_eq a nd : nd <> O -> deltas_axis a nd = mod_axis a nd.
Proof. intros. unfold deltas_axis, mod_axis. now rewrite g_axis_mod_spec by lia. Qed.
Lemma stack_axis_eq a nd : nd <> O -> stack_axis a nd = mod_axis a nd.
Proof. intros. unfold stack_axis, mod_axis. now rewrite g_stack_axis_mod_spec by lia. Qed.
Lemma stack_time_eq a nd : nd <> O -> stack_time a nd = mod_axis a nd.
Proof. intros. unfold stack_time, mod_axis. now rewrite g_stack_time_mod_spec by lia. Qed.
Lemma stack_nd_eq ax ta T n X :
  stack_nd ax ta T n X = concatenate 0 (map (fun i => slice_axis ta i T n X) (zrange n)) (Z.of_nat ax).
Proof.
  unfold stack_nd. rewrite g_stack_count_spec.
  replace (map (fun i => slice_axis ta (g_stack_slice_start i T n) (g_stack_slice_stop i T n)
                                     (g_stack_slice_step i T n) X) (zrange n))
    with (map (fun i => slice_axis ta i T n X) (zrange n)); [reflexivity|].
  apply map_ext. intros i. destruct (g_stack_slice_spec i T n) as (E1 & E2 & E3).
  now rewrite E1, E2, E3.
Qed.
Lemma stack_pad_eq c X ta T : 1 <= num_vectors c ->
  stack_pad c X ta T =
  match spad c with
  | Some m => let rem := T mod num_vectors c in
              if rem =? 0 then Ok (X, T)
              else bind (pad_axis m ta 0 (num_vectors c - rem) X)
                        (fun X' => Ok (X', T + (num_vectors c - rem)))
  | None => Ok (X, T)
  end.
Proof.
  intros Hn. unfold stack_pad. cbv zeta. destruct (spad c); [|reflexivity].
  rewrite g_stack_rem_spec by assumption.
  now rewrite g_stack_pad_before_spec, g_stack_pad_after_spec, g_stack_T_padded_spec.
Qed.
Lemma stack_apply_eq c X axis : 1 <= num_vectors c ->
  stack_apply c X axis =
  let nd := length (tsh X) in
  if Nat.eqb nd 0 then Err EZeroDiv else
  let ax := mod_axis axis nd in
  let ta := mod_axis (time_axis c) nd in
  if Nat.eqb ax ta then Err ERuntime else
  let n := num_vectors c in
  let T := nth ta (tsh X) 0 in
  let F := nth ax (tsh X) 0 in
  bind (stack_pad c X ta T) (fun XT =>
  let '(X1, T1) := XT in
  if Nat.eqb nd 2 then stack_2d ta (T1 / n * n) (T1 / n) (F * n) X1
  else stack_nd ax ta (T1 / n * n) n X1).
Proof.
  intros Hn. unfold stack_apply. cbv zeta.
  destruct (Nat.eqb (length (tsh X)) 0) eqn:E; [reflexivity|].
  apply Nat.eqb_neq in E.
  replace (stack_axis axis (length (tsh X))) with (mod_axis axis (length (tsh X)))
    by (symmetry; now apply stack_axis_eq).
  replace (stack_time (time_axis c) (length (tsh X))) with (mod_axis (time_axis c) (length (tsh X)))
    by (symmetry; now apply stack_time_eq).
  destruct (Nat.eqb _ _); [reflexivity|].
  destruct (stack_pad _ _ _ _) as [[X1 T1]|e]; [|reflexivity]. cbn [bind].
  replace (g_stack_nT T1 (num_vectors c)) with (T1 / num_vectors c)
    by (symmetry; now apply g_stack_nT_spec).
  replace (g_stack_nF (nth (mod_axis axis (length (tsh X))) (tsh X) 0) (num_vectors c))
    with (nth (mod_axis axis (length (tsh X))) (tsh X) 0 * num_vectors c)
    by (symmetry; apply g_stack_nF_spec).
  replace (g_stack_T2 (T1 / num_vectors c) (num_vectors c)) with (T1 / num_vectors c * num_vectors c)
    by (symmetry; apply g_stack_T2_spec).
  reflexivity.
Qed.
Lemma stack_ctor_ok_eq c : stack_ctor_ok c = (1 <=? num_vectors c).
Proof. unfold stack_ctor_ok. rewrite g_stack_reject_spec. lia. Qed.

(* the division hook is only meant for this file: back to ZifyBool's own hook *)
Ltac Zify.zify_post_hook ::= ZifyBool.elim_bool_cstr.
