(* C15 - Stack: both code paths produce the documented layout *)
From Coq Require Import ZArith List Bool Lia ZifyBool.
From Verif Require Import C15.Model C15.ProofsBase C15.ProofsGen C15.ProofsTensor C15.ProofsDeltas1 C15.ProofsDeltasND.
Import ListNotations.
Open Scope Z_scope.

Lemma nth_error_map_zrange {B} (f : Z -> B) n i : 0 <= i < n ->
  nth_error (map f (zrange n)) (Z.to_nat i) = Some (f i).
Proof.
  intros. rewrite nth_error_nth' with (d := f 0) by (rewrite map_length, zrange_length; lia).
  f_equal. rewrite map_nth. f_equal. rewrite nth_zrange by lia. lia.
Qed.

Lemma shape_ok_upd sh k v : shape_ok sh -> 0 <= v -> shape_ok (upd k v sh).
Proof.
  unfold shape_ok. intros H; revert k; induction H; intros k Hv; destruct k; simpl;
    constructor; auto.
Qed.

(* ------------------------------------------------------------------ *)
(** * the N-D path *)

Lemma stack_nd_layout ax ta nT n (X1 : tensor Z) :
  let sh1 := tsh X1 in
  let F := nth ax sh1 0 in
  ax <> ta -> (ax < length sh1)%nat -> (ta < length sh1)%nat ->
  1 <= n -> 0 <= nT -> nT * n <= nth ta sh1 0 ->
  exists R, stack_nd ax ta (nT * n) n X1 = Ok R /\ tdt R = tdt X1 /\
    tsh R = upd ax (n * F) (upd ta nT sh1) /\
    forall idx t i f, length idx = length sh1 -> 0 <= t < nT -> 0 <= i < n -> 0 <= f < F ->
      tat R (upd ta t (upd ax (i * F + f) idx)) = tat X1 (upd ta (t * n + i) (upd ax f idx)).
Proof.
  intros sh1 F Hne Hax Hta Hn HnT HT. set (T1 := nth ta sh1 0) in *.
  rewrite stack_nd_eq. set (ts := map (fun i => slice_axis ta i (nT * n) n X1) (zrange n)).
  assert (Hu : uniform (tdt X1) (upd ta nT sh1) ts).
  { intros t Ht. unfold ts in Ht. apply in_map_iff in Ht as (i & <- & Hi). apply in_zrange in Hi.
    split; [reflexivity|]. unfold slice_axis; cbn [tsh]. fold sh1. fold T1.
    now rewrite range_len_strided by lia. }
  assert (Hnn : ts <> []).
  { unfold ts. intros E. apply (f_equal (@length _)) in E. rewrite map_length, zrange_length in E.
    simpl in E. lia. }
  assert (Hna : norm_axis (Z.of_nat ax) (length (upd ta nT sh1)) = Some ax).
  { rewrite upd_length. rewrite norm_axis_some by lia.
    replace (Z.of_nat ax <? 0) with false by lia. now rewrite Nat2Z.id. }
  destruct (concatenate_uniform 0 (tdt X1) (upd ta nT sh1) ts (Z.of_nat ax) ax Hnn Hu Hna)
    as (R & HR & Hdt & Hshape & Hat).
  assert (HF : nth ax (upd ta nT sh1) 0 = F) by (apply nth_upd_other; congruence).
  exists R. split; [exact HR|]. split; [exact Hdt|]. split.
  - rewrite Hshape, HF. unfold ts. rewrite zlen_map, zlen_zrange by lia. reflexivity.
  - intros idx t i f Hl Ht Hi Hf. rewrite HF in Hat.
    assert (1 <= nT) by lia. assert (n <= nT * n) by nia.
    rewrite upd_comm by congruence.
    rewrite <- (Z2Nat.id i) at 1 by lia.
    rewrite (Hat (Z.to_nat i) (slice_axis ta i (nT * n) n X1) (upd ta t idx) f).
    + unfold slice_axis; cbn [tat]. fold sh1. fold T1.
      rewrite norm_bound_nonneg by lia. rewrite (Z.min_l i) by lia.
      rewrite nth_upd_other by congruence. rewrite nth_upd_same by lia.
      rewrite (upd_comm ta ax) by congruence. rewrite upd_upd.
      rewrite (upd_comm ax ta) by congruence.
      f_equal. f_equal. lia.
    + unfold ts. now apply (nth_error_map_zrange (fun i => slice_axis ta i (nT * n) n X1)).
    + now rewrite !upd_length.
    + assumption.
Qed.

(* ------------------------------------------------------------------ *)
(** * the 2-D path *)

(* [:T] then reshape(nT, nF) of a (T1, F) array *)
Lemma core_2d (Y : tensor Z) T1 F nT n :
  tsh Y = [T1; F] -> 1 <= n -> 0 <= nT -> nT * n <= T1 -> 0 <= F ->
  exists X3, reshape [nT; F * n] (slice_axis 0 0 (nT * n) 1 Y) = Ok X3 /\
    tdt X3 = tdt Y /\ tsh X3 = [nT; F * n] /\
    forall t i f, 0 <= t < nT -> 0 <= i < n -> 0 <= f < F ->
      tat X3 [t; i * F + f] = tat Y [t * n + i; f].
Proof.
  intros HY Hn HnT HT HF.
  assert (H0 : 0 <= nT * n) by (apply Z.mul_nonneg_nonneg; lia).
  assert (Hs : tsh (slice_axis 0 0 (nT * n) 1 Y) = [nT * n; F]).
  { unfold slice_axis; cbn [tsh]. rewrite HY. cbn [nth upd].
    rewrite !norm_bound_nonneg by lia. rewrite Z.min_l by lia. rewrite Z.min_l by lia.
    now rewrite range_len_unit. }
  unfold reshape. rewrite Hs.
  replace (zprod [nT; F * n] =? zprod [nT * n; F]) with true.
  2:{ symmetry. apply Z.eqb_eq. unfold zprod; cbn [fold_right]. ring. }
  eexists. split; [reflexivity|]. cbn [tdt tsh tat]. split; [reflexivity|]. split; [reflexivity|].
  intros t i f Ht Hi Hf.
  cbn [ravel unravel]. unfold zprod; cbn [fold_right].
  rewrite !Z.mul_1_r, Z.add_0_r.
  set (k := t * (F * n) + (i * F + f)).
  assert (Hk : k = (t * n + i) * F + f) by (unfold k; ring).
  assert (Hq : k / F = t * n + i) by (symmetry; apply (Z.div_unique_pos k F (t * n + i) f); lia).
  assert (Hr : k mod F = f) by (symmetry; apply (Z.mod_unique_pos k F (t * n + i) f); lia).
  rewrite Hq, Hr, Z.div_1_r.
  unfold slice_axis; cbn [tat nth upd]. rewrite HY. cbn [nth].
  rewrite norm_bound_nonneg by lia. rewrite Z.min_l by nia.
  f_equal. f_equal. lia.
Qed.

Lemma stack_2d_layout ax ta nT n (X1 : tensor Z) :
  let sh1 := tsh X1 in
  let F := nth ax sh1 0 in
  ax <> ta -> length sh1 = 2%nat -> (ax < 2)%nat -> (ta < 2)%nat -> shape_ok sh1 ->
  1 <= n -> 0 <= nT -> nT * n <= nth ta sh1 0 ->
  exists R, stack_2d ta (nT * n) nT (F * n) X1 = Ok R /\ tdt R = tdt X1 /\
    tsh R = upd ax (n * F) (upd ta nT sh1) /\
    forall idx t i f, length idx = length sh1 -> 0 <= t < nT -> 0 <= i < n -> 0 <= f < F ->
      tat R (upd ta t (upd ax (i * F + f) idx)) = tat X1 (upd ta (t * n + i) (upd ax f idx)).
Proof.
  intros sh1 F Hne Hl Hax Hta Hsh Hn HnT HT.
  destruct (tsh X1) as [|a [|b [|? ?]]] eqn:Esh; try discriminate. subst sh1.
  assert (Ha : 0 <= a) by (apply (shape_ok_nth [a; b] 0 Hsh)).
  assert (Hb : 0 <= b) by (apply (shape_ok_nth [a; b] 1 Hsh)).
  unfold stack_2d.
  destruct ta as [|[|?]]; try lia; destruct ax as [|[|?]]; try lia; try congruence.
  - (* time axis 0, feature axis 1 *)
    cbn [nth] in F, HT. cbn [Nat.eqb].
    destruct (core_2d X1 a b nT n Esh Hn HnT HT Hb) as (X3 & HX3 & Hdt & Hs3 & Hv).
    subst F. rewrite HX3. cbn [bind]. exists X3. split; [reflexivity|]. split; [exact Hdt|].
    split; [rewrite Hs3; cbn [upd]; f_equal; f_equal; ring|].
    intros idx t i f Hli Ht Hi Hf. destruct idx as [|u [|v [|? ?]]]; try discriminate.
    cbn [upd]. now apply Hv.
  - (* time axis 1, feature axis 0 *)
    cbn [nth] in F, HT. cbn [Nat.eqb].
    assert (EY : tsh (transpose X1) = [b; a]) by (unfold transpose; cbn [tsh]; now rewrite Esh).
    destruct (core_2d (transpose X1) b a nT n EY Hn HnT HT Ha) as (X3 & HX3 & Hdt & Hs3 & Hv).
    subst F. rewrite HX3. cbn [bind]. eexists. split; [reflexivity|].
    unfold transpose at 1 2 3; cbn [tdt tsh tat]. split; [exact Hdt|].
    split; [rewrite Hs3; cbn [upd rev app]; f_equal; ring|].
    intros idx t i f Hli Ht Hi Hf. destruct idx as [|u [|v [|? ?]]]; try discriminate.
    cbn [upd rev app]. rewrite (Hv t i f Ht Hi Hf). reflexivity.
Qed.

(* ------------------------------------------------------------------ *)
(** * Stack.apply *)

(* number of frames after the optional padding *)
Definition stack_T1 (c : stack_cfg) (T : Z) : Z :=
  match spad c with
  | Some _ => if T mod num_vectors c =? 0 then T else T + (num_vectors c - T mod num_vectors c)
  | None => T
  end.
(* the (conceptually padded) input at idx *)
Definition stack_src (c : stack_cfg) (X : tensor Z) (ta : nat) (idx : list Z) : Z :=
  match spad c with
  | Some m => ext_val m (nth ta (tsh X) 0) (fun j => tat X (upd ta j idx)) (nth ta idx 0)
  | None => tat X idx
  end.

Lemma stack_T1_bounds c T : 1 <= num_vectors c -> 0 <= T ->
  T <= stack_T1 c T /\ (spad c <> None -> stack_T1 c T mod num_vectors c = 0).
Proof.
  intros Hn HT. unfold stack_T1. set (n := num_vectors c) in *.
  pose proof (Z.mod_pos_bound T n ltac:(lia)) as Hm.
  destruct (spad c); [|split; [lia|congruence]].
  destruct (T mod n =? 0) eqn:E; split; try lia; intros _.
  pose proof (Z.div_mod T n ltac:(lia)) as Hd.
  symmetry. apply Z.mod_unique with (q := T / n + 1); lia.
Qed.
(* with padding the number of output frames is ceil(T / n) *)
Lemma stack_T1_ceil c T : 1 <= num_vectors c -> 0 <= T -> spad c <> None ->
  stack_T1 c T / num_vectors c = (T + num_vectors c - 1) / num_vectors c.
Proof.
  intros Hn HT Hp. unfold stack_T1. set (n := num_vectors c) in *.
  pose proof (Z.mod_pos_bound T n ltac:(lia)) as Hm.
  pose proof (Z.div_mod T n ltac:(lia)) as Hd.
  destruct (spad c); [|congruence].
  destruct (T mod n =? 0) eqn:E.
  - transitivity (T / n).
    + reflexivity.
    + apply Z.div_unique with (r := n - 1); lia.
  - transitivity (T / n + 1).
    + symmetry. apply Z.div_unique with (r := 0); lia.
    + apply Z.div_unique with (r := T mod n - 1); lia.
Qed.

Lemma stack_pad_step c X ta :
  let sh := tsh X in
  let T := nth ta sh 0 in
  let n := num_vectors c in
  (ta < length sh)%nat -> 1 <= n -> 0 <= T ->
  exists X1,
    stack_pad c X ta T = Ok (X1, stack_T1 c T) /\
    tdt X1 = tdt X /\ tsh X1 = upd ta (stack_T1 c T) sh /\
    forall idx, (ta < length idx)%nat -> 0 <= nth ta idx 0 < stack_T1 c T ->
      tat X1 idx = stack_src c X ta idx.
Proof.
  intros sh T n Hta Hn HT. rewrite stack_pad_eq by assumption. unfold stack_T1, stack_src. fold n. fold sh. fold T.
  pose proof (Z.mod_pos_bound T n ltac:(lia)) as Hm.
  destruct (spad c) as [m|].
  - destruct (T mod n =? 0) eqn:E.
    + exists X. split; [reflexivity|]. split; [reflexivity|].
      split; [unfold T; now rewrite upd_same|].
      intros idx Hl Hi. rewrite ext_val_inside by assumption. now rewrite upd_same.
    + unfold pad_axis. fold sh. fold T.
      assert (HT0 : T <> 0).
      { intros E0. rewrite E0 in E. rewrite Z.mod_0_l in E by lia. discriminate. }
      replace (T =? 0) with false by lia. rewrite andb_false_r. cbn [andb bind].
      eexists. split; [reflexivity|]. cbn [tdt tsh tat]. split; [reflexivity|].
      split; [f_equal; lia|].
      intros idx Hl Hi. now rewrite Z.sub_0_r.
  - exists X. split; [reflexivity|]. split; [reflexivity|].
    split; [unfold T; now rewrite upd_same|]. reflexivity.
Qed.

(* the full statement: both paths, any number of dimensions >= 2 *)
Lemma stack_layout_l c X axis :
  let sh := tsh X in
  let nd := length sh in
  let ax := mod_axis axis nd in
  let ta := mod_axis (time_axis c) nd in
  let n := num_vectors c in
  let T := nth ta sh 0 in
  let F := nth ax sh 0 in
  let nT := stack_T1 c T / n in
  nd <> O -> ax <> ta -> shape_ok sh -> 1 <= n ->
  exists R, stack_apply c X axis = Ok R /\ tdt R = tdt X /\
    tsh R = upd ax (n * F) (upd ta nT sh) /\
    forall idx t i f, length idx = nd -> 0 <= t < nT -> 0 <= i < n -> 0 <= f < F ->
      tat R (upd ta t (upd ax (i * F + f) idx)) =
      stack_src c X ta (upd ta (t * n + i) (upd ax f idx)).
Proof.
  intros sh nd ax ta n T F nT Hnd Hne Hsh Hn.
  assert (Hax : (ax < nd)%nat) by (apply mod_axis_lt; lia).
  assert (Hta : (ta < nd)%nat) by (apply mod_axis_lt; lia).
  assert (HT : 0 <= T) by (apply shape_ok_nth; assumption).
  destruct (stack_pad_step c X ta Hta Hn HT) as (X1 & Hstep & Hdt1 & Hsh1 & Hv1).
  fold sh in Hsh1. fold T in Hstep, Hsh1, Hv1.
  destruct (stack_T1_bounds c T Hn HT) as [HT1 _]. set (T1 := stack_T1 c T) in *.
  assert (HnT : 0 <= nT) by (apply Z.div_pos; lia).
  assert (HT2 : nT * n <= T1) by (unfold nT; rewrite Z.mul_comm; apply Z.mul_div_le; lia).
  rewrite stack_apply_eq by assumption. cbv zeta. fold sh. fold nd.
  destruct (Nat.eqb nd 0) eqn:E0; [apply Nat.eqb_eq in E0; contradiction|].
  fold ax. fold ta.
  destruct (Nat.eqb ax ta) eqn:E1; [apply Nat.eqb_eq in E1; contradiction|].
  assert (Hstep' : stack_pad c X ta (nth ta sh 0) = Ok (X1, T1)) by exact Hstep.
  rewrite Hstep'. cbn [bind].
  match goal with |- exists R, ?e = Ok R /\ _ =>
    change e with (if Nat.eqb nd 2 then stack_2d ta (nT * n) nT (F * n) X1
                   else stack_nd ax ta (nT * n) n X1) end.
  assert (HF1 : nth ax (tsh X1) 0 = F) by (rewrite Hsh1; apply nth_upd_other; congruence).
  assert (HT1' : nth ta (tsh X1) 0 = T1) by (rewrite Hsh1; now apply nth_upd_same).
  assert (Hl1 : length (tsh X1) = nd) by (rewrite Hsh1; apply upd_length).
  assert (Hfin : forall R,
     tdt R = tdt X1 -> tsh R = upd ax (n * nth ax (tsh X1) 0) (upd ta nT (tsh X1)) ->
     (forall idx t i f, length idx = length (tsh X1) -> 0 <= t < nT -> 0 <= i < n ->
        0 <= f < nth ax (tsh X1) 0 ->
        tat R (upd ta t (upd ax (i * nth ax (tsh X1) 0 + f) idx)) =
        tat X1 (upd ta (t * n + i) (upd ax f idx))) ->
     tdt R = tdt X /\ tsh R = upd ax (n * F) (upd ta nT sh) /\
     forall idx t i f, length idx = nd -> 0 <= t < nT -> 0 <= i < n -> 0 <= f < F ->
       tat R (upd ta t (upd ax (i * F + f) idx)) =
       stack_src c X ta (upd ta (t * n + i) (upd ax f idx))).
  { intros R Hd Hs Hv. rewrite HF1 in *. split; [congruence|]. split.
    - rewrite Hs, Hsh1. now rewrite upd_upd.
    - intros idx t i f Hl Ht Hi Hf. rewrite Hv by (auto; lia).
      apply Hv1.
      + rewrite !upd_length. lia.
      + rewrite nth_upd_same by (rewrite upd_length; lia).
        change (0 <= t * n + i < T1).
        assert (t * n + i < nT * n) by nia. nia. }
  destruct (Nat.eqb nd 2) eqn:E2.
  - apply Nat.eqb_eq in E2.
    destruct (stack_2d_layout ax ta nT n X1) as (R & HR & Hd & Hs & Hv); auto; try lia.
    + rewrite Hsh1. apply shape_ok_upd; [assumption|lia].
    + rewrite HF1 in HR. rewrite HR. exists R. split; [reflexivity|]. now apply Hfin.
  - destruct (stack_nd_layout ax ta nT n X1) as (R & HR & Hd & Hs & Hv); auto; try lia.
    rewrite HR. exists R. split; [reflexivity|]. now apply Hfin.
Qed.

Lemma stack_same_axes_error_l c X axis :
  let nd := length (tsh X) in
  nd <> O -> mod_axis axis nd = mod_axis (time_axis c) nd ->
  stack_apply c X axis = Err ERuntime.
Proof.
  intros nd Hnd H. unfold stack_apply. cbv zeta. fold nd.
  destruct (Nat.eqb nd 0) eqn:E0; [apply Nat.eqb_eq in E0; contradiction|].
  replace (stack_axis axis nd) with (mod_axis axis nd) by (symmetry; now apply stack_axis_eq).
  replace (stack_time (time_axis c) nd) with (mod_axis (time_axis c) nd)
    by (symmetry; now apply stack_time_eq).
  rewrite H, Nat.eqb_refl. reflexivity.
Qed.

(* every element of the result is one of the documented ones *)
Lemma stack_cover_l sh ax ta n nT idx' :
  let F := nth ax sh 0 in
  ax <> ta -> (ax < length sh)%nat -> (ta < length sh)%nat -> 1 <= n ->
  inb (upd ax (n * F) (upd ta nT sh)) idx' ->
  exists t i f, 0 <= t < nT /\ 0 <= i < n /\ 0 <= f < F /\
    idx' = upd ta t (upd ax (i * F + f) idx') /\ length idx' = length sh.
Proof.
  intros F Hne Hax Hta Hn H.
  assert (Hl : length idx' = length sh) by (apply inb_length in H; now rewrite !upd_length in H).
  pose proof (inb_nth _ _ ax H ltac:(now rewrite !upd_length)) as Hc.
  rewrite nth_upd_same in Hc by (now rewrite upd_length).
  pose proof (inb_nth _ _ ta H ltac:(now rewrite !upd_length)) as Ht.
  rewrite nth_upd_other in Ht by congruence. rewrite nth_upd_same in Ht by assumption.
  set (v := nth ax idx' 0) in *.
  assert (HF : 0 < F) by nia.
  pose proof (Z.div_mod v F ltac:(lia)) as Hdm. pose proof (Z.mod_pos_bound v F HF) as Hm.
  exists (nth ta idx' 0), (v / F), (v mod F).
  split; [exact Ht|]. split.
  - split; [apply Z.div_pos; lia|]. apply Z.div_lt_upper_bound; lia.
  - split; [exact Hm|]. split; [|exact Hl].
    replace (v / F * F + v mod F) with v by lia. unfold v. now rewrite !upd_same.
Qed.

(* the 2-D fast path and the N-D path agree on every 2-D input *)
Lemma stack_paths_agree_l ax ta nT n (X1 : tensor Z) :
  let sh1 := tsh X1 in
  let F := nth ax sh1 0 in
  ax <> ta -> length sh1 = 2%nat -> (ax < 2)%nat -> (ta < 2)%nat -> shape_ok sh1 ->
  1 <= n -> 0 <= nT -> nT * n <= nth ta sh1 0 ->
  exists R2 Rn, stack_2d ta (nT * n) nT (F * n) X1 = Ok R2 /\ stack_nd ax ta (nT * n) n X1 = Ok Rn /\
    tdt R2 = tdt Rn /\ tsh R2 = tsh Rn /\
    (forall idx, inb (tsh R2) idx -> tat R2 idx = tat Rn idx) /\
    to_flat R2 = to_flat Rn.
Proof.
  intros sh1 F Hne Hl Hax Hta Hsh Hn HnT HT.
  destruct (stack_2d_layout ax ta nT n X1) as (R2 & H2 & Hd2 & Hs2 & Hv2); auto.
  destruct (stack_nd_layout ax ta nT n X1) as (Rn & Hn' & Hdn & Hsn & Hvn); auto; try (fold sh1; lia).
  exists R2, Rn. split; [exact H2|]. split; [exact Hn'|]. split; [congruence|].
  split; [congruence|].
  assert (Hpt : forall idx, inb (tsh R2) idx -> tat R2 idx = tat Rn idx).
  { intros idx Hi. rewrite Hs2 in Hi.
    destruct (stack_cover_l (tsh X1) ax ta n nT idx) as (t & i & f & Ht & Hi' & Hf & E & Hli);
      auto; try (fold sh1; lia).
    rewrite E. rewrite Hv2 by auto. rewrite Hvn by auto. reflexivity. }
  split; [exact Hpt|]. apply to_flat_ext; [congruence|exact Hpt].
Qed.
