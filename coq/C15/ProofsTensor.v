(* C15 - lemmas about the tensor operations: concatenate, stack, slices, covers *)
From Coq Require Import ZArith List Bool Lia ZifyBool.
From Verif Require Import C15.Model C15.ProofsBase.
Import ListNotations.
Open Scope Z_scope.

Definition uniform {V} (dt : dtype) (sh : list Z) (ts : list (tensor V)) : Prop :=
  forall t, In t ts -> tdt t = dt /\ tsh t = sh.

Lemma uniform_cons {V} dt sh (t : tensor V) ts :
  uniform dt sh (t :: ts) <-> (tdt t = dt /\ tsh t = sh) /\ uniform dt sh ts.
Proof.
  unfold uniform; split.
  - intros H. split; [apply H; now left|]. intros u Hu. apply H. now right.
  - intros [H1 H2] u [<-|Hu]; auto.
Qed.

Lemma promote_same d : promote d d = d.
Proof. unfold promote. destruct d; reflexivity. Qed.
Lemma join_dtype_uniform {V} (t0 : tensor V) ts dt sh :
  tdt t0 = dt -> uniform dt sh ts -> join_dtype t0 ts = dt.
Proof.
  unfold join_dtype. revert t0. generalize dependent dt.
  induction ts; intros dt t0 H0 Hu; simpl; [assumption|].
  apply uniform_cons in Hu as [[Ha _] Hu].
  assert (E : forall d, fold_left (fun d0 (t : tensor V) => promote d0 (tdt t)) ts d = d ->
                        True) by auto.
  clear E. rewrite H0, Ha, promote_same.
  specialize (IHts dt (mkT dt [] (fun _ => tat t0 [])) eq_refl Hu). simpl in IHts. exact IHts.
Qed.

Lemma sum_axis_uniform {V} ax dt sh (ts : list (tensor V)) :
  uniform dt sh ts -> sum_axis ax ts = zlen ts * nth ax sh 0.
Proof.
  induction ts; intros Hu.
  - reflexivity.
  - apply uniform_cons in Hu as [[_ Ha] Hu]. rewrite zlen_cons. unfold sum_axis in *.
    cbn [fold_right]. rewrite IHts by assumption. rewrite Ha. lia.
Qed.

(* element k*S + i of a concatenation of blocks of size S along ax *)
Lemma concat_at_uniform {V} (d : V) ax dt sh (ts : list (tensor V)) :
  uniform dt sh ts ->
  forall k t idx i, nth_error ts k = Some t -> (ax < length idx)%nat ->
  0 <= i < nth ax sh 0 ->
  concat_at d ax ts (upd ax (Z.of_nat k * nth ax sh 0 + i) idx) = tat t (upd ax i idx).
Proof.
  set (S := nth ax sh 0).
  induction ts; intros Hu k t idx i Hk Hax Hi.
  - destruct k; discriminate.
  - apply uniform_cons in Hu as [[_ Ha] Hu]. cbn [concat_at]. rewrite Ha. fold S.
    rewrite nth_upd_same by assumption.
    destruct k.
    + simpl in Hk. inversion Hk; subst t.
      replace (Z.of_nat 0 * S + i) with i by lia.
      replace (i <? S) with true by lia. reflexivity.
    + simpl in Hk.
      assert (0 <= Z.of_nat k * S) by (apply Z.mul_nonneg_nonneg; lia).
      replace (Z.of_nat (Datatypes.S k) * S + i <? S) with false by lia.
      rewrite upd_upd.
      replace (Z.of_nat (Datatypes.S k) * S + i - S) with (Z.of_nat k * S + i) by lia.
      now apply IHts.
Qed.

Lemma norm_axis_lt a nd ax : norm_axis a nd = Some ax -> (ax < nd)%nat.
Proof.
  unfold norm_axis. destruct ((- Z.of_nat nd <=? a) && (a <? Z.of_nat nd)) eqn:E; [|discriminate].
  intros H; inversion H. destruct (a <? 0) eqn:E2; lia.
Qed.
Lemma norm_axis_none a nd : ~ (- Z.of_nat nd <= a < Z.of_nat nd) -> norm_axis a nd = None.
Proof.
  intros. unfold norm_axis.
  destruct ((- Z.of_nat nd <=? a) && (a <? Z.of_nat nd)) eqn:E; [lia|reflexivity].
Qed.
Lemma norm_axis_some a nd : - Z.of_nat nd <= a < Z.of_nat nd ->
  norm_axis a nd = Some (Z.to_nat (if a <? 0 then a + Z.of_nat nd else a)).
Proof.
  intros. unfold norm_axis.
  destruct ((- Z.of_nat nd <=? a) && (a <? Z.of_nat nd)) eqn:E; [reflexivity|lia].
Qed.
Lemma mod_axis_lt a nd : (0 < nd)%nat -> (mod_axis a nd < nd)%nat.
Proof.
  intros. unfold mod_axis. pose proof (Z.mod_pos_bound a (Z.of_nat nd)). lia.
Qed.
(* a % nd agrees with numpy's normalisation on the valid range *)
Lemma mod_axis_norm a nd ax : norm_axis a nd = Some ax -> mod_axis a nd = ax.
Proof.
  unfold norm_axis, mod_axis.
  destruct ((- Z.of_nat nd <=? a) && (a <? Z.of_nat nd)) eqn:E; [|discriminate].
  intros H; inversion H; clear H. f_equal.
  destruct (a <? 0) eqn:E2.
  - symmetry. apply Z.mod_unique with (q := -1); lia.
  - apply Z.mod_small. lia.
Qed.

Lemma forallb_uniform_concat {V} ax (t0 : tensor V) dt sh r :
  tsh t0 = sh -> uniform dt sh r ->
  forallb (fun t : tensor V => list_eqb (del ax (tsh t)) (del ax (tsh t0))
                    && Nat.eqb (length (tsh t)) (length (tsh t0))) r = true.
Proof.
  intros H0 Hu. apply forallb_forall. intros t Ht. destruct (Hu t Ht) as [_ Hs].
  rewrite Hs, H0. rewrite list_eqb_refl, Nat.eqb_refl. reflexivity.
Qed.

(* np.concatenate of equally shaped blocks *)
Lemma concatenate_uniform {V} (d : V) dt sh (ts : list (tensor V)) axis ax :
  ts <> [] -> uniform dt sh ts -> norm_axis axis (length sh) = Some ax ->
  exists R, concatenate d ts axis = Ok R /\ tdt R = dt /\
    tsh R = upd ax (zlen ts * nth ax sh 0) sh /\
    forall k t idx i, nth_error ts k = Some t -> length idx = length sh ->
      0 <= i < nth ax sh 0 ->
      tat R (upd ax (Z.of_nat k * nth ax sh 0 + i) idx) = tat t (upd ax i idx).
Proof.
  intros Hne Hu Hax. destruct ts as [|t0 r]; [contradiction|].
  pose proof Hu as Hu'. apply uniform_cons in Hu' as [[Hd0 Hs0] Hur].
  subst sh. unfold concatenate. rewrite Hax.
  rewrite (forallb_uniform_concat ax t0 dt (tsh t0) r eq_refl Hur).
  eexists. split; [reflexivity|]. cbn [tdt tsh tat].
  split; [now apply (join_dtype_uniform t0 r dt (tsh t0))|].
  split; [now rewrite (sum_axis_uniform ax dt (tsh t0)) by assumption|].
  intros k t idx i Hk Hl Hi.
  apply (concat_at_uniform d ax dt (tsh t0) (t0 :: r) Hu k t idx i Hk); [|assumption].
  rewrite Hl. eapply norm_axis_lt; eauto.
Qed.
Lemma concatenate_axis_error {V} (d : V) (t0 : tensor V) r axis :
  norm_axis axis (length (tsh t0)) = None -> concatenate d (t0 :: r) axis = Err EAxis.
Proof. intros H. unfold concatenate. now rewrite H. Qed.

(* np.stack of equally shaped blocks *)
Lemma stack_new_uniform {V} (d : V) dt sh (ts : list (tensor V)) axis ax :
  ts <> [] -> uniform dt sh ts -> norm_axis axis (S (length sh)) = Some ax ->
  exists R, stack_new d ts axis = Ok R /\ tdt R = dt /\
    tsh R = ins ax (zlen ts) sh /\
    forall k t idx, nth_error ts k = Some t -> length idx = length sh ->
      tat R (ins ax (Z.of_nat k) idx) = tat t idx.
Proof.
  intros Hne Hu Hax. destruct ts as [|t0 r]; [contradiction|].
  pose proof Hu as Hu'. apply uniform_cons in Hu' as [[Hd0 Hs0] Hur].
  unfold stack_new.
  assert (E : forallb (fun t : tensor V => list_eqb (tsh t) (tsh t0)) r = true).
  { apply forallb_forall. intros t Ht. destruct (Hur t Ht) as [_ Hs]. rewrite Hs, Hs0.
    apply list_eqb_refl. }
  rewrite E, Hs0, Hax.
  eexists. split; [reflexivity|]. cbn [tdt tsh tat].
  split; [now apply (join_dtype_uniform t0 r dt sh)|]. split; [reflexivity|].
  intros k t idx Hk Hl.
  apply norm_axis_lt in Hax.
  rewrite nth_ins by lia. rewrite Nat2Z.id, Hk.
  replace (Z.of_nat k <? 0) with false by lia. rewrite del_ins by lia. reflexivity.
Qed.
Lemma stack_new_axis_error {V} (d : V) dt sh (ts : list (tensor V)) axis :
  ts <> [] -> uniform dt sh ts -> norm_axis axis (S (length sh)) = None ->
  stack_new d ts axis = Err EAxis.
Proof.
  intros Hne Hu Hax. destruct ts as [|t0 r]; [contradiction|].
  apply uniform_cons in Hu as [[Hd0 Hs0] Hur]. unfold stack_new.
  assert (E : forallb (fun t : tensor V => list_eqb (tsh t) (tsh t0)) r = true).
  { apply forallb_forall. intros t Ht. destruct (Hur t Ht) as [_ Hs]. rewrite Hs, Hs0.
    apply list_eqb_refl. }
  now rewrite E, Hs0, Hax.
Qed.

(* every index of a concatenation lies in exactly one block *)
Lemma concat_cover sh ax n idx' : (ax < length sh)%nat -> 0 <= n ->
  inb (upd ax (n * nth ax sh 0) sh) idx' ->
  exists k idx, 0 <= k < n /\ inb sh idx /\ idx' = upd ax (k * nth ax sh 0 + nth ax idx 0) idx.
Proof.
  intros Hax Hn H. set (S := nth ax sh 0) in *.
  pose proof (inb_nth _ _ ax H ltac:(now rewrite upd_length)) as Hi.
  rewrite nth_upd_same in Hi by assumption.
  assert (HS : 0 < S) by nia.
  set (v := nth ax idx' 0) in *.
  pose proof (Z.div_mod v S ltac:(lia)) as Hdm.
  pose proof (Z.mod_pos_bound v S HS) as Hm.
  exists (v / S), (upd ax (v mod S) idx').
  assert (Hl : length idx' = length sh) by (apply inb_length in H; now rewrite upd_length in H).
  split; [|split].
  - split; [apply Z.div_pos; lia|]. apply Z.div_lt_upper_bound; lia.
  - replace sh with (upd ax S (upd ax (n * S) sh)).
    + apply inb_upd; [assumption|lia].
    + rewrite upd_upd. apply upd_same.
  - rewrite nth_upd_same by lia. rewrite upd_upd.
    replace (v / S * S + v mod S) with v by lia. unfold v. now rewrite upd_same.
Qed.
Lemma stack_cover sh ax n idx' : (ax <= length sh)%nat ->
  inb (ins ax n sh) idx' ->
  exists k idx, 0 <= k < n /\ inb sh idx /\ idx' = ins ax k idx.
Proof.
  intros Hax H.
  assert (Hl : length idx' = S (length sh)) by (apply inb_length in H; now rewrite ins_length in H).
  exists (nth ax idx' 0), (del ax idx').
  assert (E : idx' = ins ax (nth ax idx' 0) (del ax idx')) by (symmetry; apply ins_del; lia).
  rewrite E in H. apply inb_of_ins in H; [|assumption|rewrite del_length; lia].
  destruct H as [H1 H2]. auto.
Qed.

(* ------------------------------------------------------------------ *)
(** * slices *)

Lemma norm_bound_nonneg len b : 0 <= len -> 0 <= b -> norm_bound len b = Z.min b len.
Proof. intros. unfold norm_bound. destruct (b <? 0) eqn:E; lia. Qed.

(* the n slices i::n of a length nT*n axis all have nT elements *)
Lemma range_len_strided nT n T1 i : 1 <= n -> 0 <= nT -> nT * n <= T1 -> 0 <= i < n ->
  range_len (norm_bound T1 i) (norm_bound T1 (nT * n)) n = nT.
Proof.
  intros Hn HnT HT Hi.
  assert (0 <= nT * n) by (apply Z.mul_nonneg_nonneg; lia).
  rewrite !norm_bound_nonneg by lia.
  unfold range_len. rewrite (Z.min_l (nT * n)) by lia.
  destruct (nT * n <=? Z.min i T1) eqn:E.
  - assert (nT = 0) by nia. lia.
  - assert (1 <= nT) by nia. assert (n <= nT * n) by nia.
    rewrite Z.min_l by lia.
    replace (nT * n - i + n - 1) with (nT * n + (n - 1 - i)) by lia.
    rewrite Z.div_add_l by lia. rewrite Z.div_small by lia. lia.
Qed.
Lemma range_len_unit T : 0 <= T -> range_len 0 T 1 = T.
Proof.
  intros. unfold range_len. destruct (T <=? 0) eqn:E; [lia|].
  replace (T - 0 + 1 - 1) with T by lia. apply Z.div_1_r.
Qed.
