(* C15 - what the delta values mean: regression slope, zero on constants, Kaldi's clamping *)
From Coq Require Import ZArith List Bool Lia ZifyBool.
From Verif Require Import C15.Model C15.ProofsBase C15.ProofsGen C15.ProofsTensor C15.ProofsDeltas1 C15.ProofsDeltasND.
Import ListNotations.
Open Scope Z_scope.

Lemma corr_at_const f v mo t : corr_at f (fun _ => v) mo t = lsum f * v.
Proof. unfold corr_at, lsum. now rewrite zsum_scale_r. Qed.

Lemma corr_at_ext f s s' mo t :
  (forall k, 0 <= k < zlen f -> s (t + k - mo) = s' (t + k - mo)) ->
  corr_at f s mo t = corr_at f s' mo t.
Proof. intros H. unfold corr_at. apply zsum_ext. intros k Hk. now rewrite H. Qed.

(* a constant lane has zero deltas of every order >= 1 (padding that repeats
   signal values, or the same constant) *)
Lemma delta_num_constant_l m W d mo X ax idx v :
  0 <= W -> 1 <= nth ax (tsh X) 0 ->
  (forall j, 0 <= j < nth ax (tsh X) 0 -> lane_sig X ax idx j = v) ->
  pad_const m = v \/ is_constant m = false ->
  delta_num m (filt W (S d)) mo X ax idx = 0.
Proof.
  intros HW Hn Hc Hm. unfold delta_num.
  rewrite (corr_at_ext _ _ (fun _ => v)).
  - rewrite corr_at_const, lsum_filt by lia. lia.
  - intros k Hk. now apply ext_val_const.
Qed.

(* first order: sum_{j=-W..W} j * x(t+j), over the denominator sum j^2 *)
Lemma delta_num_first_order_l m W X ax idx : 0 <= W ->
  delta_num m (filt W 1) (Z.of_nat 1 * W) X ax idx =
  zsum (1 + 2 * W) (fun k => (k - W) *
     ext_val m (nth ax (tsh X) 0) (lane_sig X ax idx) (nth ax idx 0 + (k - W))).
Proof.
  intros HW. unfold delta_num, corr_at. rewrite filt_one, delta_base_length by lia.
  apply zsum_ext. intros k Hk. rewrite nthZ_delta_base by lia. f_equal. f_equal. lia.
Qed.

(* on a ramp a + b*j the first-order delta is exactly the slope b (times the
   denominator), wherever the window fits inside the signal *)
Lemma delta_num_ramp_l m W X ax idx a b :
  0 <= W ->
  (forall j, 0 <= j < nth ax (tsh X) 0 -> lane_sig X ax idx j = a + b * j) ->
  W <= nth ax idx 0 < nth ax (tsh X) 0 - W ->
  delta_num m (filt W 1) (Z.of_nat 1 * W) X ax idx = b * delta_den W.
Proof.
  intros HW Hr Ht. rewrite delta_num_first_order_l by lia.
  set (t := nth ax idx 0) in *. set (n := nth ax (tsh X) 0) in *.
  rewrite (zsum_ext _ _ (fun k => (a + b * t) * (k - W) + b * ((k - W) * (k - W)))).
  2:{ intros k Hk. rewrite ext_val_inside by lia. rewrite Hr by lia. ring. }
  rewrite zsum_add, !zsum_scale. rewrite sum_centered by lia. rewrite delta_den_eq. lia.
Qed.

(* edge padding = Kaldi's clamping of the frame index *)
Lemma delta_num_edge_l f mo X ax idx : 1 <= nth ax (tsh X) 0 ->
  delta_num Edge f mo X ax idx =
  zsum (zlen f) (fun k => nthZ 0 f k *
     lane_sig X ax idx (Z.max 0 (Z.min (nth ax idx 0 + k - mo) (nth ax (tsh X) 0 - 1)))).
Proof.
  intros Hn. unfold delta_num, corr_at. apply zsum_ext. intros k Hk.
  now rewrite ext_val_edge.
Qed.

(* integer dtypes truncate toward zero, float dtypes keep the exact fraction *)
Lemma cast_out_int_l dt den num : is_int dt = true -> cast_out dt den num = (Z.quot num den, 1).
Proof. intros H. unfold cast_out. now rewrite H. Qed.
Lemma cast_out_float_l dt den num : is_int dt = false -> cast_out dt den num = (num, den).
Proof. intros H. unfold cast_out. now rewrite H. Qed.
