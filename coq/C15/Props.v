(* C15 - the property theorems, and nothing else.  Each is closed by [exact] of a
   lemma of the Proofs files; the axioms each depends on are printed beneath it.
   All are statements about coq/C15/Model.v (model of post.py Deltas / Stack). *)
From Coq Require Import ZArith List Bool.
From Verif Require Import C15.Proofs.
Import ListNotations.
Open Scope Z_scope.

(* ---- the delta filters: _filts[0] = [1], _filts[d+1] = convolve(_filts[d], base),
        length 2dW+1, so max_offset = (len-1)//2 = dW;  Z = W(W+1)(2W+1)/3 ---- *)
Theorem delta_filter_recursion : forall W d, 0 <= W ->
  filt W 0 = [1] /\ filt W (S d) = conv (filt W d) (delta_base W) /\
  zlen (filt W d) = 2 * (Z.of_nat d * W) + 1 /\
  (zlen (filt W d) - 1) / 2 = Z.of_nat d * W.
Proof. exact delta_filter_recursion_l. Qed.
Print Assumptions delta_filter_recursion.
Theorem delta_denominator_closed_form : forall W, 0 <= W ->
  3 * delta_den W = W * (W + 1) * (2 * W + 1).
Proof. exact delta_den_closed. Qed.
Print Assumptions delta_denominator_closed_form.
Theorem delta_filters_sum_to_zero : forall W d, 0 <= W -> lsum (filt W (S d)) = 0.
Proof. exact lsum_filt. Qed.
Print Assumptions delta_filters_sum_to_zero.

(* ---- np.pad: every padding mode shows an element of the signal (or the constant) ---- *)
Theorem pad_index_in_range : forall m n i j, 1 <= n -> ext_index m n i = Some j -> 0 <= j < n.
Proof. exact ext_index_range. Qed.
Print Assumptions pad_index_in_range.

(* ---- one slice: pad + correlate('full') + crop [len-1 : -len+1] is the
        "same"-size correlation  out[t] = sum_k f[k] * xpad(t + k - mo), of the input's length ---- *)
Theorem correlate_crop_is_same_conv : forall m f x mo,
  zlen f = 2 * mo + 1 -> 1 <= mo -> 1 <= zlen x \/ is_constant m = true ->
  delta_lane m f x = Ok (map (corr_at f (ext_val m (zlen x) (nthZ 0 x)) mo) (zrange (zlen x))).
Proof. exact delta_lane_spec. Qed.
Print Assumptions correlate_crop_is_same_conv.
Theorem delta_lane_empty_axis_error : forall m f x mo,
  zlen f = 2 * mo + 1 -> 1 <= mo -> zlen x = 0 -> is_constant m = false ->
  delta_lane m f x = Err EValue.
Proof. exact delta_lane_err. Qed.
Print Assumptions delta_lane_empty_axis_error.

(* ---- the Kaldi recursion: order d+1 is the first-order regression filter
        applied to the order-d sequence of the (infinitely) extended signal ---- *)
Theorem deltas_successive : forall W d s t, 0 <= W ->
  corr_at (filt W (S d)) s (Z.of_nat (S d) * W) t =
  zsum (1 + 2 * W) (fun j => (j - W) * corr_at (filt W d) s (Z.of_nat d * W) (t + j - W)).
Proof. exact corr_filt_succ. Qed.
Print Assumptions deltas_successive.
Theorem correlate_with_convolution : forall f g s mf mg t, 1 <= zlen f -> 1 <= zlen g ->
  corr_at (conv f g) s (mf + mg) t = corr_at g (corr_at f s mf) mg t.
Proof. exact corr_conv. Qed.
Print Assumptions correlate_with_convolution.

(* ---- Deltas.apply, concatenate=True: any number of dimensions, any axis /
        target_axis (negative too): dtype kept, target axis (D+1) times as long,
        block d holds the order-d values computed along the filter axis ---- *)
Theorem deltas_concat_layout : forall c X axis ta,
  let nd := length (tsh X) in
  let ax := mod_axis axis nd in
  nd <> O -> shape_ok (tsh X) -> 1 <= context_window c -> deltas_pad_ok c X ax ->
  concat c = true -> norm_axis (target_axis c) nd = Some ta ->
  exists R, deltas_apply c X axis = Ok R /\
    tdt R = tdt X /\
    tsh R = upd ta ((Z.of_nat (num_deltas c) + 1) * nth ta (tsh X) 0) (tsh X) /\
    forall d idx, (d <= num_deltas c)%nat -> inb (tsh X) idx ->
      tat R (upd ta (Z.of_nat d * nth ta (tsh X) 0 + nth ta idx 0) idx) = deltas_value c X ax d idx.
Proof. exact deltas_concat_layout_l. Qed.
Print Assumptions deltas_concat_layout.
Theorem deltas_concat_cover : forall sh ta D idx', (ta < length sh)%nat ->
  inb (upd ta ((Z.of_nat D + 1) * nth ta sh 0) sh) idx' ->
  exists d idx, (d <= D)%nat /\ inb sh idx /\
    idx' = upd ta (Z.of_nat d * nth ta sh 0 + nth ta idx 0) idx.
Proof. exact ProofsDeltasND.deltas_concat_cover. Qed.
Print Assumptions deltas_concat_cover.

(* ---- Deltas.apply, concatenate=False: a new axis of length D+1 at target_axis ---- *)
Theorem deltas_stack_layout : forall c X axis ta,
  let nd := length (tsh X) in
  let ax := mod_axis axis nd in
  nd <> O -> shape_ok (tsh X) -> 1 <= context_window c -> deltas_pad_ok c X ax ->
  concat c = false -> norm_axis (target_axis c) (S nd) = Some ta ->
  exists R, deltas_apply c X axis = Ok R /\
    tdt R = tdt X /\
    tsh R = ins ta (Z.of_nat (num_deltas c) + 1) (tsh X) /\
    forall d idx, (d <= num_deltas c)%nat -> inb (tsh X) idx ->
      tat R (ins ta (Z.of_nat d) idx) = deltas_value c X ax d idx.
Proof. exact deltas_stack_layout_l. Qed.
Print Assumptions deltas_stack_layout.
Theorem deltas_stack_cover : forall sh ta D idx', (ta <= length sh)%nat ->
  inb (ins ta (Z.of_nat D + 1) sh) idx' ->
  exists d idx, (d <= D)%nat /\ inb sh idx /\ idx' = ins ta (Z.of_nat d) idx.
Proof. exact ProofsDeltasND.deltas_stack_cover. Qed.
Print Assumptions deltas_stack_cover.

(* ---- the two ways Deltas.apply fails ---- *)
Theorem deltas_axis_error : forall c X axis,
  let nd := length (tsh X) in
  let ax := mod_axis axis nd in
  nd <> O -> shape_ok (tsh X) -> 1 <= context_window c -> deltas_pad_ok c X ax ->
  norm_axis (target_axis c) (if concat c then nd else S nd) = None ->
  deltas_apply c X axis = Err EAxis.
Proof. exact deltas_axis_error_l. Qed.
Print Assumptions deltas_axis_error.
Theorem deltas_empty_axis_error : forall c X axis oi,
  let nd := length (tsh X) in
  let ax := mod_axis axis nd in
  nd <> O -> 1 <= context_window c -> num_deltas c <> O ->
  nth ax (tsh X) 0 = 0 -> is_constant (dpad c) = false -> inb (del ax (tsh X)) oi ->
  deltas_apply c X axis = Err EValue.
Proof. exact deltas_empty_axis_error_l. Qed.
Print Assumptions deltas_empty_axis_error.

(* ---- what the values are ---- *)
Theorem delta_first_order_formula : forall m W X ax idx, 0 <= W ->
  delta_num m (filt W 1) (Z.of_nat 1 * W) X ax idx =
  zsum (1 + 2 * W) (fun k => (k - W) *
     ext_val m (nth ax (tsh X) 0) (lane_sig X ax idx) (nth ax idx 0 + (k - W))).
Proof. exact delta_num_first_order_l. Qed.
Print Assumptions delta_first_order_formula.
Theorem delta_of_ramp_is_slope : forall m W X ax idx a b, 0 <= W ->
  (forall j, 0 <= j < nth ax (tsh X) 0 -> lane_sig X ax idx j = a + b * j) ->
  W <= nth ax idx 0 < nth ax (tsh X) 0 - W ->
  delta_num m (filt W 1) (Z.of_nat 1 * W) X ax idx = b * delta_den W.
Proof. exact delta_num_ramp_l. Qed.
Print Assumptions delta_of_ramp_is_slope.
Theorem delta_of_constant_is_zero : forall m W d mo X ax idx v,
  0 <= W -> 1 <= nth ax (tsh X) 0 ->
  (forall j, 0 <= j < nth ax (tsh X) 0 -> lane_sig X ax idx j = v) ->
  pad_const m = v \/ is_constant m = false ->
  delta_num m (filt W (S d)) mo X ax idx = 0.
Proof. exact delta_num_constant_l. Qed.
Print Assumptions delta_of_constant_is_zero.
Theorem delta_edge_is_kaldi_clamping : forall f mo X ax idx, 1 <= nth ax (tsh X) 0 ->
  delta_num Edge f mo X ax idx =
  zsum (zlen f) (fun k => nthZ 0 f k *
     lane_sig X ax idx (Z.max 0 (Z.min (nth ax idx 0 + k - mo) (nth ax (tsh X) 0 - 1)))).
Proof. exact delta_num_edge_l. Qed.
Print Assumptions delta_edge_is_kaldi_clamping.
Theorem deltas_integer_dtype_truncates : forall dt den num, is_int dt = true ->
  cast_out dt den num = (Z.quot num den, 1).
Proof. exact cast_out_int_l. Qed.
Print Assumptions deltas_integer_dtype_truncates.

(* ---- Stack.apply: for every number of dimensions >= 2 (2-D reshape path and
        N-D strided path alike), out[t, i*F + f] = padded_x[t*n + i, f] ---- *)
Theorem stack_layout : forall c X axis,
  let sh := tsh X in
  let nd := length sh in
  let ax := mod_axis axis nd in
  let ta := mod_axis (time_axis c) nd in
  let n := num_vectors c in
  let T := nth ta sh 0 in
  let F := nth ax sh 0 in
  let nT := stack_T1 c T / n in
  nd <> O -> ax <> ta -> shape_ok sh -> 1 <= n ->
  exists R, stack_apply c X axis = Ok R /\ tdt R = tdt X /\
    tsh R = upd ax (n * F) (upd ta nT sh) /\
    forall idx t i f, length idx = nd -> 0 <= t < nT -> 0 <= i < n -> 0 <= f < F ->
      tat R (upd ta t (upd ax (i * F + f) idx)) =
      stack_src c X ta (upd ta (t * n + i) (upd ax f idx)).
Proof. exact stack_layout_l. Qed.
Print Assumptions stack_layout.
Theorem stack_cover : forall sh ax ta n nT idx',
  let F := nth ax sh 0 in
  ax <> ta -> (ax < length sh)%nat -> (ta < length sh)%nat -> 1 <= n ->
  inb (upd ax (n * F) (upd ta nT sh)) idx' ->
  exists t i f, 0 <= t < nT /\ 0 <= i < n /\ 0 <= f < F /\
    idx' = upd ta t (upd ax (i * F + f) idx') /\ length idx' = length sh.
Proof. exact stack_cover_l. Qed.
Print Assumptions stack_cover.
(* the incomplete final run: dropped (floor) without pad_mode, no frame at all
   when T < num_vectors; padded (ceil) with pad_mode *)
Theorem stack_drop : forall c T, spad c = None -> 1 <= num_vectors c -> 0 <= T ->
  stack_T1 c T / num_vectors c = T / num_vectors c /\
  (T < num_vectors c -> stack_T1 c T / num_vectors c = 0).
Proof. exact stack_drop_count_l. Qed.
Print Assumptions stack_drop.
Theorem stack_drop_source : forall c X ta idx, spad c = None -> stack_src c X ta idx = tat X idx.
Proof. exact stack_src_nopad_l. Qed.
Print Assumptions stack_drop_source.
Theorem stack_pad : forall c T, 1 <= num_vectors c -> 0 <= T -> spad c <> None ->
  stack_T1 c T / num_vectors c = (T + num_vectors c - 1) / num_vectors c.
Proof. exact stack_T1_ceil. Qed.
Print Assumptions stack_pad.
Theorem stack_pad_source : forall c X ta idx m, spad c = Some m ->
  stack_src c X ta idx = ext_val m (nth ta (tsh X) 0) (fun j => tat X (upd ta j idx)) (nth ta idx 0).
Proof. exact stack_src_pad_l. Qed.
Print Assumptions stack_pad_source.
(* the separate 2-D fast path and the N-D path agree on every 2-D input *)
Theorem stack_paths_agree : forall ax ta nT n (X1 : tensor Z),
  let sh1 := tsh X1 in
  let F := nth ax sh1 0 in
  ax <> ta -> length sh1 = 2%nat -> (ax < 2)%nat -> (ta < 2)%nat -> shape_ok sh1 ->
  1 <= n -> 0 <= nT -> nT * n <= nth ta sh1 0 ->
  exists R2 Rn, stack_2d ta (nT * n) nT (F * n) X1 = Ok R2 /\ stack_nd ax ta (nT * n) n X1 = Ok Rn /\
    tdt R2 = tdt Rn /\ tsh R2 = tsh Rn /\
    (forall idx, inb (tsh R2) idx -> tat R2 idx = tat Rn idx) /\
    to_flat R2 = to_flat Rn.
Proof. exact stack_paths_agree_l. Qed.
Print Assumptions stack_paths_agree.
Theorem stack_same_axes_error : forall c X axis,
  let nd := length (tsh X) in
  nd <> O -> mod_axis axis nd = mod_axis (time_axis c) nd ->
  stack_apply c X axis = Err ERuntime.
Proof. exact stack_same_axes_error_l. Qed.
Print Assumptions stack_same_axes_error.

(* ---- the flat row-major view used for input and output ---- *)
Theorem to_flat_ravel : forall (t : tensor Z) idx, shape_ok (tsh t) -> inb (tsh t) idx ->
  nthZ 0 (to_flat t) (ravel (tsh t) idx) = tat t idx.
Proof. exact (@to_flat_ravel_l Z 0). Qed.
Print Assumptions to_flat_ravel.
Theorem of_flat_to_flat : forall dt sh data, shape_ok sh -> zlen data = zprod sh ->
  to_flat (of_flat dt sh data) = data.
Proof. exact of_flat_to_flat_l. Qed.
Print Assumptions of_flat_to_flat.
