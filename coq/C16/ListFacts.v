(* C16 - list lemmas about the NumPy plumbing of Model.v (no numbers involved):
   zipw, chunks, the outer x F x inner view and its C-order indexing. *)
From Coq Require Import ZArith List Bool Lia Arith.
From Verif Require Import C16.Model.
Import ListNotations.

Section Zipw.
Context {A B C : Type}.

Lemma zipw_length (f : A -> B -> C) a b : length (zipw f a b) = Nat.min (length a) (length b).
Proof. revert b; induction a as [|x a IH]; intros [|y b]; simpl; auto. Qed.

Lemma zipw_length_eq (f : A -> B -> C) a b n :
  length a = n -> length b = n -> length (zipw f a b) = n.
Proof. intros; rewrite zipw_length; lia. Qed.

Lemma zipw_nth (f : A -> B -> C) a b i da db dc :
  (i < length a)%nat -> (i < length b)%nat ->
  nth i (zipw f a b) dc = f (nth i a da) (nth i b db).
Proof.
  revert b i; induction a as [|x a IH]; intros [|y b] [|i]; simpl; intros; try lia; auto.
  apply IH; lia.
Qed.

Lemma zipw_nil_r (f : A -> B -> C) a : zipw f a [] = [].
Proof. destruct a; reflexivity. Qed.
End Zipw.

Lemma zipw_map_r {A B B' C} (f : A -> B' -> C) (g : B -> B') a b :
  zipw f a (map g b) = zipw (fun x y => f x (g y)) a b.
Proof. revert b; induction a as [|x a IH]; intros [|y b]; simpl; auto. f_equal; auto. Qed.

Lemma zipw_ext {A B C} (f g : A -> B -> C) a b :
  (forall x y, f x y = g x y) -> zipw f a b = zipw g a b.
Proof. intros E; revert b; induction a as [|x a IH]; intros [|y b]; simpl; auto. f_equal; auto. Qed.

Lemma map_zipw {A B C D} (h : C -> D) (f : A -> B -> C) a b :
  map h (zipw f a b) = zipw (fun x y => h (f x y)) a b.
Proof. revert b; induction a as [|x a IH]; intros [|y b]; simpl; auto. f_equal; auto. Qed.

Lemma zipw_map_l {A A' B C} (f : A' -> B -> C) (g : A -> A') a b :
  zipw f (map g a) b = zipw (fun x y => f (g x) y) a b.
Proof. revert b; induction a as [|x a IH]; intros [|y b]; simpl; auto. f_equal; auto. Qed.

Lemma zipw_ext_in {A B C} (f g : A -> B -> C) a b :
  (forall x y, In x a -> f x y = g x y) -> zipw f a b = zipw g a b.
Proof.
  revert b; induction a as [|x a IH]; intros [|y b] E; simpl; auto.
  f_equal; [apply E; left; auto | apply IH; intros; apply E; right; auto].
Qed.

(* ---------------- nth / seq ---------------- *)
Lemma map_nth_seq {A} (l : list A) d : map (fun i => nth i l d) (seq 0 (length l)) = l.
Proof.
  induction l as [|x l IH]; simpl; auto.
  f_equal. rewrite <- seq_shift, map_map. exact IH.
Qed.

(* ---------------- chunks ---------------- *)
Section Chunks.
Context {A : Type}.

Lemma chunks_length k n (l : list A) : length (chunks k n l) = k.
Proof. revert l; induction k; simpl; auto. Qed.

Lemma chunks_Forall_length k n (l : list A) :
  length l = (k * n)%nat -> Forall (fun c => length c = n) (chunks k n l).
Proof.
  revert l; induction k; intros l H; simpl; constructor.
  - rewrite firstn_length. simpl in H. lia.
  - apply IHk. rewrite skipn_length. simpl in H. lia.
Qed.

Lemma concat_chunks k n (l : list A) : length l = (k * n)%nat -> concat (chunks k n l) = l.
Proof.
  revert l; induction k; intros l H; simpl.
  - simpl in H. destruct l; simpl in *; auto; lia.
  - rewrite IHk. apply firstn_skipn. rewrite skipn_length. simpl in H. lia.
Qed.

Lemma chunks_concat k n (ls : list (list A)) :
  length ls = k -> Forall (fun c => length c = n) ls -> chunks k n (concat ls) = ls.
Proof.
  revert ls; induction k; intros [|c ls] H F; simpl in *; try lia; auto.
  inversion F; subst.
  rewrite firstn_app, firstn_all, Nat.sub_diag, firstn_O, app_nil_r.
  rewrite skipn_app, skipn_all, Nat.sub_diag, skipn_O. simpl.
  f_equal. apply IHk; auto.
Qed.

Lemma nth_firstn_lt n (l : list A) j d : (j < n)%nat -> nth j (firstn n l) d = nth j l d.
Proof. revert l j; induction n; intros [|x l] [|j] H; simpl; auto; try lia. apply IHn; lia. Qed.

Lemma nth_skipn_add n (l : list A) j d : nth j (skipn n l) d = nth (n + j) l d.
Proof. revert l; induction n; intros [|x l]; simpl; auto. destruct j; auto. Qed.

Lemma nth_chunks k n (l : list A) i j d :
  (i < k)%nat -> (j < n)%nat -> nth j (nth i (chunks k n l) []) d = nth (i * n + j) l d.
Proof.
  revert l i; induction k; intros l i Hi Hj; [lia|].
  destruct i; simpl.
  - apply nth_firstn_lt; auto.
  - rewrite IHk by lia. rewrite nth_skipn_add. f_equal. lia.
Qed.

Lemma length_concat_uniform n (ls : list (list A)) :
  Forall (fun c => length c = n) ls -> length (concat ls) = (length ls * n)%nat.
Proof. induction 1; simpl; auto. rewrite app_length. lia. Qed.
End Chunks.

(* ---------------- the 3-d view ---------------- *)
Section View3.
Context {A : Type}.

(* blocks is an outer x F x inner nested list *)
Definition shaped (outer F inner : nat) (blocks : list (list (list A))) : Prop :=
  length blocks = outer /\
  Forall (fun b => length b = F /\ Forall (fun row => length row = inner) b) blocks.

Lemma view3_shaped outer F inner (d : list A) :
  length d = (outer * F * inner)%nat -> shaped outer F inner (view3 outer F inner d).
Proof.
  intros H. unfold view3, shaped. split.
  - rewrite map_length. apply chunks_length.
  - rewrite Forall_map.
    assert (HF : Forall (fun c : list A => length c = (F * inner)%nat) (chunks outer (F * inner) d)).
    { apply chunks_Forall_length. lia. }
    eapply Forall_impl; [|exact HF]. intros c Hc. split.
    + apply chunks_length.
    + apply chunks_Forall_length. exact Hc.
Qed.

Lemma flatten3_view3 outer F inner (d : list A) :
  length d = (outer * F * inner)%nat -> flatten3 (view3 outer F inner d) = d.
Proof.
  intros H. unfold flatten3, view3. rewrite map_map.
  assert (HF : Forall (fun c : list A => length c = (F * inner)%nat) (chunks outer (F * inner) d)).
  { apply chunks_Forall_length. lia. }
  transitivity (concat (chunks outer (F * inner) d)).
  - f_equal. rewrite <- (map_id (chunks outer (F * inner) d)) at 2.
    apply map_ext_Forall. eapply Forall_impl; [|exact HF].
    intros c Hc. apply concat_chunks. exact Hc.
  - apply concat_chunks. lia.
Qed.

Lemma view3_flatten3 outer F inner (blocks : list (list (list A))) :
  shaped outer F inner blocks -> view3 outer F inner (flatten3 blocks) = blocks.
Proof.
  intros [Hl HF]. unfold view3, flatten3.
  rewrite chunks_concat with (ls := map (@concat A) blocks).
  - rewrite map_map. rewrite <- (map_id blocks) at 2.
    apply map_ext_Forall. eapply Forall_impl; [|exact HF].
    intros b [Hb Hr]. apply chunks_concat; auto.
  - rewrite map_length. exact Hl.
  - rewrite Forall_map. eapply Forall_impl; [|exact HF].
    intros b [Hb Hr]. rewrite (length_concat_uniform inner) by exact Hr. rewrite Hb. reflexivity.
Qed.

Lemma flatten3_length outer F inner (blocks : list (list (list A))) :
  shaped outer F inner blocks -> length (flatten3 blocks) = (outer * F * inner)%nat.
Proof.
  intros [Hl HF]. unfold flatten3.
  rewrite (length_concat_uniform (F * inner)).
  - rewrite map_length, Hl. lia.
  - rewrite Forall_map. eapply Forall_impl; [|exact HF].
    intros b [Hb Hr]. rewrite (length_concat_uniform inner) by exact Hr. rewrite Hb. reflexivity.
Qed.

(* C-order indexing: element (o, f, r) of the view is element (o*F + f)*inner + r of the data *)
Lemma nth_view3 outer F inner (d : list A) o f r x :
  (o < outer)%nat -> (f < F)%nat -> (r < inner)%nat ->
  nth r (nth f (nth o (view3 outer F inner d) []) []) x = nth ((o * F + f) * inner + r) d x.
Proof.
  intros Ho Hf Hr. unfold view3.
  rewrite (nth_indep _ [] (chunks F inner [])) by (rewrite map_length, chunks_length; lia).
  rewrite map_nth.
  rewrite nth_chunks by assumption.
  assert (Hlt : (f * inner + r < F * inner)%nat) by nia.
  rewrite nth_chunks by assumption.
  f_equal. nia.
Qed.
End View3.

(* every flat index is the C-order index of exactly one (o, f, r):
   r = i mod inner, f = (i / inner) mod F, o = i / inner / F *)
Lemma flat_index_decompose outer F inner i :
  (i < outer * F * inner)%nat ->
  let r := (i mod inner)%nat in
  let f := ((i / inner) mod F)%nat in
  let o := (i / inner / F)%nat in
  (o < outer /\ f < F /\ r < inner /\ i = (o * F + f) * inner + r)%nat.
Proof.
  intros H r f o.
  assert (Hi : inner <> 0%nat) by (intros ->; lia).
  assert (HF : F <> 0%nat) by (intros ->; lia).
  pose proof (Nat.div_mod i inner Hi) as E1.
  pose proof (Nat.div_mod (i / inner) F HF) as E2.
  pose proof (Nat.mod_upper_bound i inner Hi).
  pose proof (Nat.mod_upper_bound (i / inner) F HF).
  fold r in E1. fold f o in E2.
  assert (Hj : (i / inner < outer * F)%nat).
  { apply Nat.div_lt_upper_bound; auto. lia. }
  assert (Ho : (o < outer)%nat).
  { apply Nat.div_lt_upper_bound; auto. lia. }
  repeat split; auto. unfold r, f, o in *. nia.
Qed.

(* ---------------- shapes ---------------- *)
Lemma prodZ_cons x l : prodZ (x :: l) = (x * prodZ l)%Z.
Proof. reflexivity. Qed.

Lemma prodZ_app a b : prodZ (a ++ b) = (prodZ a * prodZ b)%Z.
Proof.
  induction a as [|x a IH]; simpl app.
  - change (prodZ []) with 1%Z. lia.
  - rewrite !prodZ_cons, IH. lia.
Qed.

Lemma prodZ_pos l : Forall (fun d => 0 < d)%Z l -> (0 < prodZ l)%Z.
Proof.
  induction 1 as [|x l Hx Hl IH].
  - change (prodZ []) with 1%Z. lia.
  - rewrite prodZ_cons. nia.
Qed.

Lemma prodZ_split (sh : list Z) (a : nat) :
  (a < length sh)%nat ->
  prodZ sh = (prodZ (firstn a sh) * nth a sh 0 * prodZ (skipn (S a) sh))%Z.
Proof.
  revert sh; induction a; intros [|d sh] H; simpl in H; try lia.
  - simpl firstn. simpl nth. simpl skipn. rewrite prodZ_cons. change (prodZ []) with 1%Z. lia.
  - simpl firstn. simpl nth. change (skipn (S (S a)) (d :: sh)) with (skipn (S a) sh).
    rewrite !prodZ_cons. rewrite (IHa sh) by lia. lia.
Qed.

Lemma prodZ_other_dims (sh : list Z) (a : nat) :
  prodZ (other_dims sh a) = (prodZ (firstn a sh) * prodZ (skipn (S a) sh))%Z.
Proof. unfold other_dims. apply prodZ_app. Qed.

Lemma sumZ_cons x l : sumZ (x :: l) = (x + sumZ l)%Z.
Proof. reflexivity. Qed.

Lemma sumZ_ge_len l : Forall (fun d => 0 < d)%Z l -> (Z.of_nat (length l) <= sumZ l)%Z.
Proof.
  induction 1 as [|x l Hx Hl IH].
  - simpl. lia.
  - rewrite sumZ_cons. simpl length. lia.
Qed.

(* all other dimensions are 1  <->  the tensor holds a single feature vector *)
Lemma sum_len_iff_prod_one l :
  Forall (fun d => 0 < d)%Z l -> (sumZ l = Z.of_nat (length l) <-> prodZ l = 1%Z).
Proof.
  induction 1 as [|x l Hx Hl IH].
  - simpl. change (prodZ []) with 1%Z. tauto.
  - rewrite sumZ_cons, prodZ_cons. simpl length.
    pose proof (sumZ_ge_len l Hl). pose proof (prodZ_pos l Hl). split; intros E.
    + assert (x = 1%Z) by lia. subst x. assert (E' : sumZ l = Z.of_nat (length l)) by lia.
      apply IH in E'. lia.
    + assert (x = 1%Z) by nia. subst x. assert (E' : prodZ l = 1%Z) by lia.
      apply IH in E'. lia.
Qed.

Lemma Forall_firstn {A} (P : A -> Prop) n l : Forall P l -> Forall P (firstn n l).
Proof. revert l; induction n; intros [|x l] H; simpl; auto. inversion H; subst; auto. Qed.

Lemma Forall_skipn {A} (P : A -> Prop) n l : Forall P l -> Forall P (skipn n l).
Proof. revert l; induction n; intros [|x l] H; simpl; auto. inversion H; subst; auto. Qed.
