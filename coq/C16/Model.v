(* C16 - model of pydrobert.speech.post.Standardize (post.py:100-306: have_stats,
   accumulate, apply), definitions only.

   Numbers.  All arithmetic of the class is float64 arithmetic on the
   statistics matrix and on the feature tensor.  The model is written once,
   over a record [NumOps] of field operations without laws (lib/C16_Num.v), and
   is used at two instances: [QcNum] (canonical rationals; executable by
   vm_compute: the instance the correspondence check runs) and [RNum] (Coq's
   reals, where the square root exists).  The theorems of Proofs.v hold for
   every instance satisfying [Lawful] (a field of characteristic 0 with Leibniz
   equality); both instances are proved lawful.  float64 rounding is not
   modelled.

   Tensors.  A NumPy array is (shape, C-order flat data, "dtype is float64").
   For a chosen axis a every array is viewed as outer x F x inner
   (outer = prod shape[:a], F = shape[a], inner = prod shape[a+1:]): NumPy's
   own C-order layout.  A feature vector of the tensor is a fibre (o, -, r).

   The scalar formulas (dimension checks, per-element updates of the sufficient
   statistics, mean, variance, closeness test, replacement value, final affine
   map) are not written here: they are the k*_ definitions of
   gen/StandardizeK.v, which gen/standardize.py regenerates from post.py on
   every run. *)
From Coq Require Import ZArith List Bool QArith Qcanon Reals.
From Verif Require Export lib.C16_Num.
From Verif Require Export gen.StandardizeK.
Import ListNotations.
Open Scope Z_scope.

(* ------------------------------------------------------------------ *)
(** * Python / NumPy plumbing *)

Inductive err := ValueError | TypeError | IndexError.
Inductive res (A : Type) := Ok (a : A) | Err (e : err).
Arguments Ok {A} a.
Arguments Err {A} e.

Record tensor (A : Type) := mkT { shape : list Z; data : list A; is_f64 : bool }.
Arguments mkT {A} shape data is_f64.
Arguments shape {A} t.
Arguments data {A} t.
Arguments is_f64 {A} t.

Definition prodZ (l : list Z) : Z := fold_right Z.mul 1 l.
Definition sumZ (l : list Z) : Z := fold_right Z.add 0 l.
Definition is_nil {A} (l : list A) : bool := match l with [] => true | _ => false end.

(* tuple[i] of Python: negative indices count from the end, otherwise IndexError *)
Definition py_index (l : list Z) (i : Z) : option Z :=
  let n := Z.of_nat (length l) in
  if (- n <=? i) && (i <? n) then Some (nth (Z.to_nat (i mod n)) l 0) else None.

(* position of the chosen axis: axis % len(tensor.shape) *)
Definition axis_pos (sh : list Z) (axis : Z) : nat := Z.to_nat (axis mod Z.of_nat (length sh)).

(* tuple(shape[idx] for idx in other_axes) *)
Definition other_dims (sh : list Z) (a : nat) : list Z := firstn a sh ++ skipn (S a) sh.

(* the guard opening accumulate and apply:
     (features.shape and not np.prod(features.shape)) or not len(features)
   len() of a 0-d array raises TypeError. *)
Definition empty_guard (sh : list Z) : option err :=
  if negb (is_nil sh) && (prodZ sh =? 0) then Some ValueError
  else match sh with
       | [] => Some TypeError
       | d0 :: _ => if d0 =? 0 then Some ValueError else None
       end.

(* features.shape and features.ndim > 1 *)
Definition takes_tensor_path (sh : list Z) : bool :=
  negb (is_nil sh) && (1 <? Z.of_nat (length sh)).

(* k chunks of n consecutive elements *)
Fixpoint chunks {A} (k n : nat) (l : list A) : list (list A) :=
  match k with
  | O => []
  | S k' => firstn n l :: chunks k' n (skipn n l)
  end.

(* the outer x F x inner view of C-order data, and back *)
Definition view3 {A} (outer F inner : nat) (d : list A) : list (list (list A)) :=
  map (chunks F inner) (chunks outer (F * inner) d).

Definition flatten3 {A} (v : list (list (list A))) : list A := concat (map (@concat A) v).

Definition map3 {A B} (f : A -> B) (v : list (list (list A))) : list (list (list B)) :=
  map (map (map f)) v.

(* element-wise combination of two equally long lists (stops at the shorter) *)
Fixpoint zipw {A B C} (f : A -> B -> C) (a : list A) (b : list B) : list C :=
  match a, b with
  | x :: a', y :: b' => f x y :: zipw f a' b'
  | _, _ => []
  end.

Record view (A : Type) := mkView {
  v_outer : nat; v_F : nat; v_inner : nat; v_blocks : list (list (list A)) }.
Arguments mkView {A} v_outer v_F v_inner v_blocks.
Arguments v_outer {A} v.
Arguments v_F {A} v.
Arguments v_inner {A} v.
Arguments v_blocks {A} v.

(* the view of tensor t along a (valid) axis *)
Definition view_of {A} (t : tensor A) (axis : Z) : view A :=
  let a := axis_pos (shape t) axis in
  let outer := Z.to_nat (prodZ (firstn a (shape t))) in
  let F := Z.to_nat (nth a (shape t) 0) in
  let inner := Z.to_nat (prodZ (skipn (S a) (shape t))) in
  mkView outer F inner (view3 outer F inner (data t)).

(* well-formed array: non-negative dimensions, data of the right length *)
Definition wf_tensor {A} (t : tensor A) : Prop :=
  Forall (fun d => 0 <= d) (shape t) /\ length (data t) = Z.to_nat (prodZ (shape t)).

(* ------------------------------------------------------------------ *)
(** * The model proper, over an arbitrary number structure *)
Section Model.
Variable N : NumOps.
Notation K := (T N).

Definition ksum (l : list K) : K := fold_right (nadd N) (n0 N) l.

(* sum of a list of rows of length F, coefficient by coefficient *)
Definition vsum (F : nat) (vs : list (list K)) : list K :=
  fold_right (zipw (nadd N)) (repeat (n0 N) F) vs.

(* X.sum(axis=other_axes) of the view: for each coefficient, the sum over o and r *)
Definition sum_other (F : nat) (blocks : list (list (list K))) : list K :=
  vsum F (map (map ksum) blocks).

(* the feature vectors of a view: fibre (o, -, r) *)
Definition col (r : nat) (block : list (list K)) : list K :=
  map (fun row => nth r row (n0 N)) block.
Definition cols (inner : nat) (block : list (list K)) : list (list K) :=
  map (fun r => col r block) (seq 0 inner).
Definition fibres (v : view K) : list (list K) := flat_map (cols (v_inner v)) (v_blocks v).

(** ** The statistics matrix, 2 x (F+1):
       row 0 = sums ++ [count], row 1 = sums of squares ++ [spare cell] *)
Record stats := mkS { s_sum : list K; s_cnt : K; s_sq : list K; s_spare : K }.

(* self._stats.shape[1] *)
Definition ncols (s : stats) : Z := Z.of_nat (length (s_sum s)) + 1.

(* np.zeros((2, c)) *)
Definition zero_stats (c : Z) : stats :=
  mkS (repeat (n0 N) (Z.to_nat (c - 1))) (n0 N) (repeat (n0 N) (Z.to_nat (c - 1))) (n0 N).

(* have_stats:  self._stats is not None and self._stats[0, -1]   (truthiness) *)
Definition have_stats (st : option stats) : bool :=
  match st with None => false | Some s => negb (nis0 N (s_cnt s)) end.

(** ** accumulate (post.py:161-213) *)
Definition acc_vector (st : option stats) (vec : list K) : res (option stats) :=
  let num_coeffs := Z.of_nat (length vec) in
  match (match st with
         | None => Ok (zero_stats (kav_newcols num_coeffs))
         | Some s => if kav_mismatch (ncols s) num_coeffs then Err ValueError else Ok s
         end) with
  | Err e => Err e
  | Ok s =>
    Ok (Some (mkS (zipw (kav_sum N) (s_sum s) vec)
                  (kav_cnt N (s_cnt s))
                  (zipw (kav_sq N) (s_sq s) vec)
                  (s_spare s)))
  end.

Definition acc_tensor (st : option stats) (t : tensor K) (axis : Z) : res (option stats) :=
  match py_index (shape t) axis with
  | None => Err IndexError
  | Some num_coeffs =>
    match (match st with
           | None => Ok (zero_stats (kat_newcols num_coeffs))
           | Some s => if kat_mismatch (ncols s) num_coeffs then Err ValueError else Ok s
           end) with
    | Err e => Err e
    | Ok s =>
      let v := view_of t axis in
      let others := other_dims (shape t) (axis_pos (shape t) axis) in
      Ok (Some (mkS (zipw (kat_sum N) (s_sum s)
                          (sum_other (v_F v) (map3 (kat_sum_elem N) (v_blocks v))))
                    (kat_cnt N (s_cnt s) (nofZ N (prodZ others)))
                    (zipw (kat_sq N) (s_sq s)
                          (sum_other (v_F v) (map3 (kat_sq_elem N) (v_blocks v))))
                    (s_spare s)))
    end
  end.

Definition accumulate (st : option stats) (t : tensor K) (axis : Z) : res (option stats) :=
  match empty_guard (shape t) with
  | Some e => Err e
  | None => if takes_tensor_path (shape t) then acc_tensor st t axis else acc_vector st (data t)
  end.

(** ** apply (post.py:215-306)
    The value of an output element is produced by a "finisher"
    [fin x mean ov]: the code computes  x * scales - mean * scales  with
    scales = 1 / v ** 0.5 when ov = Some v (v is the variance, or the replacement
    value when the variance is close to zero) and scales = 1 when ov = None
    (norm_var off).  The executable instance uses [fin_pair]: the pair
    (x - mean, v) stands for (x - mean) / sqrt v;  the R instance uses the
    generated expressions ([fin_R_vec], [fin_R_ten]). *)
Section Apply.
Context {O : Type}.
Variable finv : K -> K -> option K -> O.   (* vector route *)
Variable fint : K -> K -> option K -> O.   (* tensor route *)
Variable zero : O.                         (* x[...] = 0 *)
Variable norm_var : bool.

Record applied := mkA {
  a_shape : list Z;
  a_vals : list O;
  a_f64 : bool;            (* dtype of the returned array is float64 *)
  a_aliases_input : bool   (* the returned array is the input object, modified in place *)
}.

(* if not in_place or x.dtype != np.float64: x = x.astype(np.float64) *)
Definition copies (in_place f64 : bool) : bool := negb in_place || negb f64.
Definition out_f64 (in_place f64 : bool) : bool := if copies in_place f64 then true else f64.

(* per-coefficient (mean, Some effective variance | None) *)
Definition params (mean_k : K -> K -> K) (var_k : K -> K -> K -> K) (close_k : K -> bool) (repl : K)
           (sums sqs : list K) (cnt : K) : list (K * option K) :=
  zipw (fun s q =>
          let m := mean_k s cnt in
          (m, if norm_var
              then (let v := var_k q cnt m in Some (if close_k v then repl else v))
              else None))
       sums sqs.

Definition apply_vector (st : option stats) (t : tensor K) (in_place : bool) : res applied :=
  let vec := data t in
  let num_coeffs := Z.of_nat (length vec) in
  let no_stats : res applied :=
      if norm_var then Err ValueError
      else Ok (mkA (shape t) (map (fun _ => zero) vec)
                   (out_f64 in_place (is_f64 t)) (negb (copies in_place (is_f64 t)))) in
  match st with
  | None => no_stats
  | Some s =>
    if kpv_mismatch (ncols s) num_coeffs then Err ValueError
    else if have_stats st then
      let ps := params (kpv_mean N) (kpv_var N) (kpv_close N) (kpv_repl N)
                       (s_sum s) (s_sq s) (s_cnt s) in
      Ok (mkA (shape t) (zipw (fun x p => finv x (fst p) (snd p)) vec ps)
              (out_f64 in_place (is_f64 t)) (negb (copies in_place (is_f64 t))))
    else no_stats
  end.

Definition apply_blocks (ps : list (K * option K)) (blocks : list (list (list K))) : list O :=
  flatten3 (map (fun block => zipw (fun row p => map (fun x => fint x (fst p) (snd p)) row) block ps)
                blocks).

Definition apply_tensor (st : option stats) (t : tensor K) (axis : Z) (in_place : bool)
  : res applied :=
  match py_index (shape t) axis with
  | None => Err IndexError
  | Some num_coeffs =>
    if (match st with Some s => kpt_mismatch (ncols s) num_coeffs | None => false end)
    then Err ValueError
    else
      let others := other_dims (shape t) (axis_pos (shape t) axis) in
      let v := view_of t axis in
      let finish (ps : list (K * option K)) : res applied :=
          Ok (mkA (shape t) (apply_blocks ps (v_blocks v))
                  (out_f64 in_place (is_f64 t)) (negb (copies in_place (is_f64 t)))) in
      match (if have_stats st then st else None) with
      | Some s =>
        finish (params (kpt_mean N) (kpt_var N) (kpt_close N) (kpt_repl N)
                       (s_sum s) (s_sq s) (s_cnt s))
      | None =>
        if sumZ others =? Z.of_nat (length others) then
          (if norm_var then Err ValueError
           else Ok (mkA (shape t) (map (fun _ => zero) (data t))
                        (out_f64 in_place (is_f64 t)) (negb (copies in_place (is_f64 t)))))
        else
          finish (params (kpl_mean N) (kpl_var N) (kpt_close N) (kpt_repl N)
                         (sum_other (v_F v) (v_blocks v))
                         (sum_other (v_F v) (map3 (kpl_sq_elem N) (v_blocks v)))
                         (nofZ N (prodZ others)))
      end
  end.

Definition apply (st : option stats) (t : tensor K) (axis : Z) (in_place : bool) : res applied :=
  match empty_guard (shape t) with
  | Some e => Err e
  | None =>
    if takes_tensor_path (shape t) then apply_tensor st t axis in_place
    else apply_vector st t in_place
  end.

(** ** Histories: any interleaving of accumulate, apply and have_stats on one instance *)
Inductive op :=
| OpAcc (t : tensor K) (axis : Z)
| OpApp (t : tensor K) (axis : Z) (in_place : bool)
| OpHave.

Inductive obs :=
| ObAcc (e : option err)
| ObApp (r : res applied)
| ObHave (b : bool).

Definition step (st : option stats) (o : op) : obs * option stats :=
  match o with
  | OpAcc t axis =>
    match accumulate st t axis with
    | Ok st' => (ObAcc None, st')
    | Err e => (ObAcc (Some e), st)
    end
  | OpApp t axis ip => (ObApp (apply st t axis ip), st)
  | OpHave => (ObHave (have_stats st), st)
  end.

Fixpoint run (st : option stats) (ops : list op) : list obs * option stats :=
  match ops with
  | [] => ([], st)
  | o :: rest =>
    let '(ob, st') := step st o in
    let '(obs, st'') := run st' rest in
    (ob :: obs, st'')
  end.

End Apply.

(* the executable finisher: (x - mean, v) stands for (x - mean) / sqrt v *)
Definition fin_pair (x m : K) (ov : option K) : K * K :=
  (nsub N x m, match ov with Some v => v | None => n1 N end).
Definition zero_pair : K * K := (n0 N, n1 N).

(* only accumulate calls: the state after a history *)
Fixpoint acc_all (st : option stats) (calls : list (tensor K * Z)) : option stats :=
  match calls with
  | [] => st
  | (t, axis) :: rest =>
    match accumulate st t axis with
    | Ok st' => acc_all st' rest
    | Err _ => acc_all st rest
    end
  end.

(** ** Specification vocabulary (used by the theorems) *)
Definition vadd (a b : list K) : list K := zipw (nadd N) a b.
Definition sq (x : K) : K := nmul N x x.

(* accumulate a list of feature vectors one at a time *)
Fixpoint acc_vectors (st : option stats) (vs : list (list K)) : res (option stats) :=
  match vs with
  | [] => Ok st
  | v :: rest =>
    match acc_vector st v with
    | Ok st' => acc_vectors st' rest
    | Err e => Err e
    end
  end.

(* the statistics s plus count / sums / sums of squares of the vectors vs (all of length F) *)
Definition add_vectors (s : stats) (F : nat) (vs : list (list K)) : stats :=
  mkS (vadd (s_sum s) (vsum F vs))
      (nadd N (s_cnt s) (nofZ N (Z.of_nat (length vs))))
      (vadd (s_sq s) (vsum F (map (map sq) vs)))
      (s_spare s).

Definition start_stats (st : option stats) (F : nat) : stats :=
  match st with Some s => s | None => zero_stats (Z.of_nat F + 1) end.

(* the statistics matrix, if any, has F + 1 columns *)
Definition fits (st : option stats) (F : nat) : Prop :=
  match st with None => True | Some s => length (s_sum s) = F /\ length (s_sq s) = F end.

(* an accumulate / apply argument the property speaks about: a well-formed, non-empty
   array of at least one dimension whose chosen axis exists and has length F *)
Definition good_arg (F : nat) (t : tensor K) (axis : Z) : Prop :=
  wf_tensor t /\ shape t <> [] /\ Forall (fun d => 0 < d) (shape t) /\
  if takes_tensor_path (shape t)
  then (- Z.of_nat (length (shape t)) <= axis < Z.of_nat (length (shape t))) /\
       nth (axis_pos (shape t) axis) (shape t) 0 = Z.of_nat F
  else length (data t) = F.

(* coefficient f of each vector; exact mean and variance of coefficient f over vectors vs *)
Definition comp (f : nat) (vs : list (list K)) : list K := map (fun v => nth f v (n0 N)) vs.
Definition col_mean (vs : list (list K)) (f : nat) : K :=
  ndiv N (ksum (comp f vs)) (nofZ N (Z.of_nat (length vs))).
Definition col_var (vs : list (list K)) (f : nat) : K :=
  nsub N (ndiv N (ksum (map sq (comp f vs))) (nofZ N (Z.of_nat (length vs)))) (sq (col_mean vs f)).
(* the variance the transform divides by: None = no variance normalisation;
   a variance within 1e-8 of zero is replaced by 1 *)
Definition veff (norm_var : bool) (v : K) : option K :=
  if norm_var then Some (if nisclose N v (n0 N) then n1 N else v) else None.

(* the feature vectors one accumulate call contributes *)
Definition vectors_of_call (c : tensor K * Z) : list (list K) :=
  let '(t, axis) := c in
  if takes_tensor_path (shape t) then fibres (view_of t axis) else [data t].

End Model.

Arguments mkS {N} s_sum s_cnt s_sq s_spare.
Arguments s_sum {N} s.
Arguments s_cnt {N} s.
Arguments s_sq {N} s.
Arguments s_spare {N} s.
Arguments mkA {O} a_shape a_vals a_f64 a_aliases_input.
Arguments a_shape {O} a.
Arguments a_vals {O} a.
Arguments a_f64 {O} a.
Arguments a_aliases_input {O} a.
Arguments OpAcc {N} t axis.
Arguments OpApp {N} t axis in_place.
Arguments OpHave {N}.
Arguments ObAcc {O} e.
Arguments ObApp {O} r.
Arguments ObHave {O} b.

(* ------------------------------------------------------------------ *)
(** * The two instances *)

(* the code's own final expression, over R *)
Definition fin_R_vec (x m : R) (ov : option R) : R :=
  match ov with Some v => kpv_out_norm x m v | None => kpv_out_plain x m end.
Definition fin_R_ten (x m : R) (ov : option R) : R :=
  match ov with Some v => kpt_out_norm x m v | None => kpt_out_plain x m end.

Definition apply_R := @apply RNum R fin_R_vec fin_R_ten 0%R.

(* what the pair of the executable model means *)
Definition pair_value (p : R * R) : R := (fst p / sqrt (snd p))%R.

(* executable: histories over Qc, observations printed with integers only *)
Definition qc_of (num : Z) (den : positive) : Qc := Q2Qc (num # den).
Definition qc_show (q : Qc) : Z * Z := (Qnum q, Zpos (Qden q)).

Definition run_qc (norm_var : bool) (ops : list (@op QcNum)) :=
  fst (@run QcNum _ (fin_pair QcNum) (fin_pair QcNum) (zero_pair QcNum) norm_var None ops).

Inductive shown :=
| ShAcc (e : option err)
| ShErr (e : err)
| ShApp (sh : list Z) (vals : list ((Z * Z) * (Z * Z))) (f64 aliases : bool)
| ShHave (b : bool).

Definition show_obs (o : @obs (Qc * Qc)) : shown :=
  match o with
  | ObAcc e => ShAcc e
  | ObApp (Err e) => ShErr e
  | ObApp (Ok a) =>
    ShApp (a_shape a) (map (fun p => (qc_show (fst p), qc_show (snd p))) (a_vals a))
          (a_f64 a) (a_aliases_input a)
  | ObHave b => ShHave b
  end.

(* a tensor of the harness: integer numerators over one common power-of-two denominator *)
Definition mk_tensor (sh : list Z) (den : positive) (nums : list Z) (f64 : bool) : tensor (T QcNum) :=
  mkT sh (map (fun z => qc_of z den) nums) f64.
Definition AccQ : tensor (T QcNum) -> Z -> @op QcNum := @OpAcc QcNum.
Definition AppQ : tensor (T QcNum) -> Z -> bool -> @op QcNum := @OpApp QcNum.
Definition HaveQ : @op QcNum := @OpHave QcNum.
