(* C16 - lemmas about the Standardize model (Model.v), for any lawful number
   structure (a field of characteristic 0 with Leibniz equality). *)
From Coq Require Import ZArith List Bool Lia Arith Permutation Field Ring.
From Verif Require Import C16.Model C16.ListFacts.
Import ListNotations.

Section Generic.
Variable N : NumOps.
Hypothesis L : Lawful N.
Notation K := (T N).
Notation "0" := (n0 N).
Notation "1" := (n1 N).
Infix "+" := (nadd N).
Infix "*" := (nmul N).
Infix "-" := (nsub N).
Infix "/" := (ndiv N).
Notation "- x" := (nopp N x).
Notation vadd := (vadd N).
Notation vsum := (vsum N).
Notation ksum := (ksum N).
Notation sq := (sq N).
Notation stats := (stats N).

Lemma Fth : field_theory 0 1 (nadd N) (nmul N) (nsub N) (nopp N) (ndiv N) (ninv N) eq.
Proof. exact (law_field N L). Qed.
Add Field Kfield : Fth.

Lemma ofZ_0 : nofZ N 0%Z = 0. Proof. exact (law_ofZ_0 N L). Qed.
Lemma ofZ_1 : nofZ N 1%Z = 1. Proof. exact (law_ofZ_1 N L). Qed.
Lemma ofZ_add a b : nofZ N (a + b)%Z = nofZ N a + nofZ N b. Proof. exact (law_ofZ_add N L a b). Qed.
Lemma ofZ_neq0 z : z <> 0%Z -> nofZ N z <> 0. Proof. exact (law_ofZ_neq0 N L z). Qed.
Lemma ofZ_S n : nofZ N (Z.of_nat (S n)) = nofZ N (Z.of_nat n) + 1.
Proof. rewrite Nat2Z.inj_succ. unfold Z.succ. rewrite ofZ_add, ofZ_1. reflexivity. Qed.

(** * Vectors: element-wise sums *)
Lemma vadd_length a b n : length a = n -> length b = n -> length (vadd a b) = n.
Proof. apply zipw_length_eq. Qed.

Lemma vadd_comm a b : vadd a b = vadd b a.
Proof.
  unfold Model.vadd. revert b; induction a as [|x a IH]; intros [|y b]; simpl; auto.
  f_equal; [ring | apply IH].
Qed.

Lemma vadd_assoc a b c : vadd a (vadd b c) = vadd (vadd a b) c.
Proof.
  unfold Model.vadd. revert b c; induction a as [|x a IH]; intros [|y b] [|z c]; simpl; auto.
  f_equal; [ring | apply IH].
Qed.

Lemma vadd_zero_l F a : length a = F -> vadd (repeat 0 F) a = a.
Proof.
  unfold Model.vadd. revert a; induction F; intros [|x a] H; simpl in *; try lia; auto.
  f_equal; [ring | apply IHF; lia].
Qed.

Lemma vadd_zero_r F a : length a = F -> vadd a (repeat 0 F) = a.
Proof. intros. rewrite vadd_comm. apply vadd_zero_l; auto. Qed.

Lemma vsum_nil F : vsum F [] = repeat 0 F.
Proof. reflexivity. Qed.

Lemma vsum_cons F v vs : vsum F (v :: vs) = vadd v (vsum F vs).
Proof. reflexivity. Qed.

Lemma vsum_length F vs : Forall (fun v => length v = F) vs -> length (vsum F vs) = F.
Proof.
  induction 1.
  - rewrite vsum_nil. apply repeat_length.
  - rewrite vsum_cons. apply vadd_length; auto.
Qed.

Lemma vsum_app F a b :
  Forall (fun v => length v = F) a -> Forall (fun v => length v = F) b ->
  vsum F (a ++ b) = vadd (vsum F a) (vsum F b).
Proof.
  intros Ha Hb. induction Ha as [|v a Hv Ha IH]; simpl app.
  - rewrite vsum_nil. symmetry. apply vadd_zero_l. apply vsum_length; auto.
  - rewrite !vsum_cons, IH. apply vadd_assoc.
Qed.

Lemma vsum_perm F a b :
  Permutation a b -> Forall (fun v => length v = F) a -> vsum F a = vsum F b.
Proof.
  induction 1; intros HF.
  - reflexivity.
  - rewrite !vsum_cons. f_equal. apply IHPermutation. inversion HF; auto.
  - rewrite !vsum_cons. rewrite !vadd_assoc. f_equal. apply vadd_comm.
  - rewrite IHPermutation1 by auto. apply IHPermutation2.
    eapply Permutation_Forall; eauto.
Qed.

Lemma vsum_concat F (ls : list (list (list K))) :
  Forall (Forall (fun v => length v = F)) ls ->
  vsum F (concat ls) = vsum F (map (vsum F) ls).
Proof.
  induction 1 as [|l ls Hl Hls IH]; simpl concat; simpl map.
  - reflexivity.
  - rewrite vsum_app; auto.
    + rewrite vsum_cons, IH. reflexivity.
    + apply Forall_concat. exact Hls.
Qed.

(* coefficient f of a sum of vectors is the sum of the coefficients f *)
Lemma nth_vsum F vs f :
  Forall (fun v => length v = F) vs -> (f < F)%nat ->
  nth f (vsum F vs) 0 = ksum (map (fun v => nth f v 0) vs).
Proof.
  intros HF Hf. induction HF as [|v vs Hv HF IH].
  - rewrite vsum_nil. simpl. apply nth_repeat.
  - rewrite vsum_cons. unfold Model.vadd. rewrite (zipw_nth _ _ _ _ 0 0).
    + simpl. rewrite IH. reflexivity.
    + lia.
    + rewrite vsum_length; auto.
Qed.

(** * Accumulating vectors one at a time: closed form, additivity, order *)
Lemma zero_stats_fits F : fits N (Some (zero_stats N (Z.of_nat F + 1))) F.
Proof.
  unfold fits, zero_stats. simpl.
  replace (Z.to_nat (Z.of_nat F + 1 - 1)) with F by lia. rewrite !repeat_length. auto.
Qed.

Lemma add_vectors_fits s F vs :
  fits N (Some s) F -> Forall (fun v => length v = F) vs -> fits N (Some (add_vectors N s F vs)) F.
Proof.
  intros [H1 H2] HF. unfold fits, add_vectors. simpl. split.
  - apply vadd_length; auto. apply vsum_length; auto.
  - apply vadd_length; auto. apply vsum_length. rewrite Forall_map.
    eapply Forall_impl; [|exact HF]. intros v Hv. rewrite map_length. exact Hv.
Qed.

Lemma mismatch_false F s :
  length (s_sum s) = F -> kav_mismatch (ncols N s) (Z.of_nat F) = false.
Proof.
  intros H. unfold kav_mismatch, ncols. rewrite H. rewrite Z.eqb_refl. reflexivity.
Qed.

Lemma acc_vector_fits (s : stats) v F :
  fits N (Some s) F -> length v = F ->
  acc_vector N (Some s) v = Ok (Some (add_vectors N s F [v])).
Proof.
  intros [H1 H2] Hv. unfold acc_vector. rewrite Hv, (mismatch_false F) by auto.
  unfold add_vectors. simpl length.
  replace (vadd (s_sum s) (vsum F [v])) with (zipw (kav_sum N) (s_sum s) v).
  replace (vadd (s_sq s) (vsum F (map (map sq) [v]))) with (zipw (kav_sq N) (s_sq s) v).
  reflexivity.
  - simpl map. rewrite vsum_cons, vsum_nil, vadd_zero_r by (rewrite map_length; auto).
    unfold Model.vadd. rewrite zipw_map_r. reflexivity.
  - rewrite vsum_cons, vsum_nil, vadd_zero_r by auto. reflexivity.
Qed.

Lemma acc_vector_none v :
  acc_vector N None v = Ok (Some (add_vectors N (zero_stats N (Z.of_nat (length v) + 1)) (length v) [v])).
Proof.
  pose proof (zero_stats_fits (length v)) as Hf.
  rewrite <- (acc_vector_fits _ v (length v) Hf eq_refl).
  unfold acc_vector. unfold kav_newcols.
  rewrite (mismatch_false (length v)). reflexivity.
  destruct Hf; auto.
Qed.

Lemma add_vectors_app s F a b :
  fits N (Some s) F ->
  Forall (fun v => length v = F) a -> Forall (fun v => length v = F) b ->
  add_vectors N (add_vectors N s F a) F b = add_vectors N s F (a ++ b).
Proof.
  intros [H1 H2] Ha Hb. unfold add_vectors. simpl. f_equal.
  - rewrite vsum_app by auto. symmetry. apply vadd_assoc.
  - rewrite app_length, Nat2Z.inj_add, ofZ_add. ring.
  - rewrite map_app, vsum_app. symmetry. apply vadd_assoc.
    all: rewrite Forall_map; eapply Forall_impl; try eassumption;
      intros v Hv; rewrite map_length; exact Hv.
Qed.

Lemma add_vectors_nil s F : fits N (Some s) F -> add_vectors N s F [] = s.
Proof.
  intros [A B]. unfold add_vectors. simpl map. simpl length.
  rewrite !vsum_nil, !vadd_zero_r by auto. change (Z.of_nat 0) with 0%Z. rewrite ofZ_0.
  destruct s as [a c b d]; simpl. f_equal. ring.
Qed.

(* accumulate_additive: a run of vectors adds (count, sum, sum of squares) of the run *)
Lemma acc_vectors_closed st F vs :
  fits N st F -> vs <> [] -> Forall (fun v => length v = F) vs ->
  acc_vectors N st vs = Ok (Some (add_vectors N (start_stats N st F) F vs)).
Proof.
  intros Hfit Hne HF. destruct vs as [|v vs]; [congruence|]. clear Hne.
  inversion HF as [|? ? Hv HF']; subst.
  assert (Hstep : exists s1, acc_vector N st v = Ok (Some s1) /\ fits N (Some s1) (length v)
                             /\ s1 = add_vectors N (start_stats N st (length v)) (length v) [v]).
  { destruct st as [s|].
    - exists (add_vectors N s (length v) [v]).
      split; [apply acc_vector_fits; [exact Hfit | reflexivity]|].
      split; [apply add_vectors_fits; [exact Hfit | constructor; auto] | reflexivity].
    - exists (add_vectors N (zero_stats N (Z.of_nat (length v) + 1)) (length v) [v]).
      split; [apply acc_vector_none|].
      split; [apply add_vectors_fits; [apply zero_stats_fits | constructor; auto] | reflexivity]. }
  destruct Hstep as (s1 & E1 & F1 & D1).
  simpl acc_vectors. rewrite E1.
  assert (Hgen : forall ws s, fits N (Some s) (length v) ->
                   Forall (fun w => length w = length v) ws ->
                   acc_vectors N (Some s) ws = Ok (Some (add_vectors N s (length v) ws))).
  { induction ws as [|w ws IH]; intros s Hs Hws.
    - simpl. rewrite add_vectors_nil by auto. reflexivity.
    - inversion Hws; subst. simpl. rewrite (acc_vector_fits s w (length v)) by auto.
      rewrite IH; auto.
      + rewrite add_vectors_app; auto.
      + apply add_vectors_fits; auto. }
  rewrite Hgen by auto.
  rewrite D1. rewrite add_vectors_app; auto.
  destruct st; simpl; auto. apply zero_stats_fits.
Qed.

(* accumulate_perm: the order of the vectors does not matter *)
Lemma add_vectors_perm s F a b :
  Permutation a b -> Forall (fun v => length v = F) a ->
  add_vectors N s F a = add_vectors N s F b.
Proof.
  intros P HF. unfold add_vectors. f_equal.
  - f_equal. apply vsum_perm; auto.
  - rewrite (Permutation_length P). reflexivity.
  - f_equal. apply vsum_perm.
    + apply Permutation_map. exact P.
    + rewrite Forall_map. eapply Forall_impl; [|exact HF]. intros v Hv. rewrite map_length; auto.
Qed.

Lemma acc_vectors_perm st F a b :
  fits N st F -> a <> [] -> Forall (fun v => length v = F) a -> Permutation a b ->
  acc_vectors N st a = acc_vectors N st b.
Proof.
  intros Hfit Hne HF P.
  rewrite (acc_vectors_closed st F a), (acc_vectors_closed st F b); auto.
  - f_equal. f_equal. apply add_vectors_perm; auto.
  - intros ->. apply Permutation_sym, Permutation_nil in P. auto.
  - eapply Permutation_Forall; eauto.
Qed.

(** * A tensor accumulates as the list of its feature vectors *)
Lemma ksum_cons x l : ksum (x :: l) = x + ksum l.
Proof. reflexivity. Qed.

Lemma vsum_all_nil (vs : list (list K)) : Forall (fun v => v = []) vs -> vsum 0 vs = [].
Proof.
  induction 1 as [|v vs Hv H IH].
  - reflexivity.
  - rewrite vsum_cons, IH. subst v. reflexivity.
Qed.

Lemma vsum_cons_each {I} F (h : I -> K) (g : I -> list K) (rs : list I) :
  vsum (S F) (map (fun r => h r :: g r) rs) = ksum (map h rs) :: vsum F (map g rs).
Proof.
  induction rs as [|r rs IH].
  - reflexivity.
  - simpl map. rewrite !vsum_cons, IH. reflexivity.
Qed.

Lemma cols_length inner (M : list (list K)) : length (cols N inner M) = inner.
Proof. unfold cols. rewrite map_length, seq_length. reflexivity. Qed.

Lemma cols_Forall_length inner (M : list (list K)) :
  Forall (fun v => length v = length M) (cols N inner M).
Proof.
  unfold cols. rewrite Forall_map. apply Forall_forall. intros r _.
  unfold col. apply map_length.
Qed.

Lemma vsum_cols inner (M : list (list K)) :
  Forall (fun row => length row = inner) M ->
  vsum (length M) (cols N inner M) = map ksum M.
Proof.
  induction 1 as [|row M Hrow HM IH].
  - simpl length. apply vsum_all_nil. unfold cols. rewrite Forall_map.
    apply Forall_forall. intros r _. reflexivity.
  - simpl length. unfold cols, col. simpl map at 2.
    rewrite (vsum_cons_each (length M) (fun r => nth r row 0)
                            (fun r => map (fun row0 => nth r row0 0) M)).
    simpl map. f_equal.
    + rewrite <- Hrow. rewrite map_nth_seq. reflexivity.
    + exact IH.
Qed.

Lemma sq_0 : sq 0 = 0.
Proof. unfold Model.sq. ring. Qed.

Lemma cols_map_sq inner (M : list (list K)) :
  cols N inner (map (map sq) M) = map (map sq) (cols N inner M).
Proof.
  unfold cols. rewrite map_map. apply map_ext. intros r.
  unfold col. rewrite !map_map. apply map_ext. intros row.
  rewrite <- sq_0 at 1. apply map_nth.
Qed.

Lemma flat_map_map {A B C} (f : B -> list C) (g : A -> B) l :
  flat_map f (map g l) = flat_map (fun x => f (g x)) l.
Proof. induction l; simpl; auto. f_equal; auto. Qed.

Lemma map_flat_map {A B C} (h : B -> C) (f : A -> list B) l :
  map h (flat_map f l) = flat_map (fun x => map h (f x)) l.
Proof. induction l; simpl; auto. rewrite map_app. f_equal; auto. Qed.

Lemma fibres_map3_sq outer F inner (blocks : list (list (list K))) :
  fibres N (mkView outer F inner (map3 sq blocks)) =
  map (map sq) (fibres N (mkView outer F inner blocks)).
Proof.
  unfold fibres, map3. simpl. rewrite flat_map_map, map_flat_map.
  apply flat_map_ext. intros M. apply cols_map_sq.
Qed.

Lemma map3_id (blocks : list (list (list K))) : map3 (kat_sum_elem N) blocks = blocks.
Proof.
  unfold map3, kat_sum_elem.
  rewrite <- (map_id blocks) at 2. apply map_ext. intros b.
  rewrite <- (map_id b) at 2. apply map_ext. intros r. apply map_id.
Qed.

Lemma fibres_Forall_length outer F inner (blocks : list (list (list K))) :
  shaped outer F inner blocks ->
  Forall (fun v => length v = F) (fibres N (mkView outer F inner blocks)).
Proof.
  intros [_ HF]. unfold fibres. simpl. rewrite flat_map_concat_map.
  apply Forall_concat. rewrite Forall_map.
  eapply Forall_impl; [|exact HF]. intros M [HM _]. rewrite <- HM. apply cols_Forall_length.
Qed.

Lemma fibres_length outer F inner (blocks : list (list (list K))) :
  shaped outer F inner blocks ->
  length (fibres N (mkView outer F inner blocks)) = (outer * inner)%nat.
Proof.
  intros [Hl _]. unfold fibres. simpl. rewrite flat_map_concat_map.
  rewrite (length_concat_uniform inner).
  - rewrite map_length, Hl. reflexivity.
  - rewrite Forall_map. apply Forall_forall. intros M _. apply cols_length.
Qed.

(* the sum over the other axes is the sum of the feature vectors *)
Lemma sum_other_fibres outer F inner (blocks : list (list (list K))) :
  shaped outer F inner blocks ->
  sum_other N F blocks = vsum F (fibres N (mkView outer F inner blocks)).
Proof.
  intros [Hl HF]. unfold sum_other, fibres. simpl.
  rewrite flat_map_concat_map. rewrite vsum_concat.
  - f_equal. rewrite map_map. apply map_ext_Forall.
    eapply Forall_impl; [|exact HF]. intros M [HM Hr]. rewrite <- HM. symmetry. apply vsum_cols. exact Hr.
  - rewrite Forall_map. eapply Forall_impl; [|exact HF]. intros M [HM _].
    rewrite <- HM. apply cols_Forall_length.
Qed.

Lemma map3_shaped {A B} (g : A -> B) outer F inner blocks :
  shaped outer F inner blocks -> shaped outer F inner (map3 g blocks).
Proof.
  intros [Hl HF]. split.
  - unfold map3. rewrite map_length. exact Hl.
  - unfold map3. rewrite Forall_map. eapply Forall_impl; [|exact HF].
    intros M [HM Hr]. split.
    + rewrite map_length. exact HM.
    + rewrite Forall_map. eapply Forall_impl; [|exact Hr]. intros row Hrow.
      rewrite map_length. exact Hrow.
Qed.

(** ** Facts about a good argument *)
Section GoodArg.
Variables (F : nat) (t : tensor K) (axis : Z).
Hypothesis G : good_arg N F t axis.

Lemma good_guard : empty_guard (shape t) = None.
Proof.
  destruct G as (_ & Hne & Hpos & _). unfold empty_guard.
  pose proof (prodZ_pos _ Hpos) as Hp.
  destruct (shape t) as [|d0 sh]; [congruence|]. simpl is_nil. simpl negb.
  replace (prodZ (d0 :: sh) =? 0)%Z with false by (symmetry; apply Z.eqb_neq; lia).
  simpl. inversion Hpos; subst.
  replace (d0 =? 0)%Z with false by (symmetry; apply Z.eqb_neq; lia). reflexivity.
Qed.

Hypothesis P : takes_tensor_path (shape t) = true.

Lemma good_axis :
  (- Z.of_nat (length (shape t)) <= axis < Z.of_nat (length (shape t)))%Z /\
  nth (axis_pos (shape t) axis) (shape t) 0%Z = Z.of_nat F.
Proof. destruct G as (_ & _ & _ & H). rewrite P in H. exact H. Qed.

Lemma good_pos_lt : (axis_pos (shape t) axis < length (shape t))%nat.
Proof.
  destruct good_axis as [Hr _]. unfold axis_pos.
  assert (0 < Z.of_nat (length (shape t)))%Z by lia.
  pose proof (Z.mod_pos_bound axis (Z.of_nat (length (shape t))) H). lia.
Qed.

Lemma good_py_index : py_index (shape t) axis = Some (Z.of_nat F).
Proof.
  destruct good_axis as [Hr Hn]. unfold py_index.
  replace ((- Z.of_nat (length (shape t)) <=? axis)%Z && (axis <? Z.of_nat (length (shape t)))%Z)
    with true by (symmetry; apply andb_true_iff; split; [apply Z.leb_le | apply Z.ltb_lt]; lia).
  f_equal. exact Hn.
Qed.

Let a := axis_pos (shape t) axis.
Let outer := Z.to_nat (prodZ (firstn a (shape t))).
Let inner := Z.to_nat (prodZ (skipn (S a) (shape t))).

Lemma good_outer_pos : (0 < prodZ (firstn a (shape t)))%Z.
Proof. destruct G as (_ & _ & Hpos & _). apply prodZ_pos. apply Forall_firstn. exact Hpos. Qed.

Lemma good_inner_pos : (0 < prodZ (skipn (S a) (shape t)))%Z.
Proof. destruct G as (_ & _ & Hpos & _). apply prodZ_pos. apply Forall_skipn. exact Hpos. Qed.

Lemma good_view : view_of t axis = mkView outer F inner (view3 outer F inner (data t)).
Proof.
  unfold view_of. fold a. destruct good_axis as [_ Hn]. fold a in Hn. rewrite Hn.
  rewrite Nat2Z.id. reflexivity.
Qed.

Lemma good_data_length : length (data t) = (outer * F * inner)%nat.
Proof.
  destruct G as ((_ & Hlen) & _). rewrite Hlen.
  rewrite (prodZ_split (shape t) a) by apply good_pos_lt.
  destruct good_axis as [_ Hn]. fold a in Hn. rewrite Hn.
  pose proof good_outer_pos. pose proof good_inner_pos.
  unfold outer, inner. rewrite !Z2Nat.inj_mul by lia. rewrite Nat2Z.id. reflexivity.
Qed.

Lemma good_shaped : shaped outer F inner (view3 outer F inner (data t)).
Proof. apply view3_shaped. apply good_data_length. Qed.

Lemma good_count : prodZ (other_dims (shape t) a) = Z.of_nat (outer * inner).
Proof.
  rewrite prodZ_other_dims. pose proof good_outer_pos. pose proof good_inner_pos.
  unfold outer, inner. rewrite Nat2Z.inj_mul, !Z2Nat.id by lia. reflexivity.
Qed.

Lemma good_fibres_nonempty : fibres N (view_of t axis) <> [].
Proof.
  rewrite good_view. intros E. apply (f_equal (@length _)) in E.
  rewrite (fibres_length outer F inner) in E by apply good_shaped. simpl in E.
  pose proof good_outer_pos. pose proof good_inner_pos. unfold outer, inner in E. nia.
Qed.

Lemma good_fibres_length : Forall (fun v => length v = F) (fibres N (view_of t axis)).
Proof. rewrite good_view. apply fibres_Forall_length. apply good_shaped. Qed.

(* tensor_eq_vectors *)
Lemma acc_tensor_eq_vectors st :
  fits N st F -> acc_tensor N st t axis = acc_vectors N st (fibres N (view_of t axis)).
Proof.
  intros Hfit.
  rewrite (acc_vectors_closed st F) by (auto using good_fibres_nonempty, good_fibres_length).
  unfold acc_tensor. rewrite good_py_index. fold a.
  assert (Hst : (match st with
                 | None => Ok (zero_stats N (kat_newcols (Z.of_nat F)))
                 | Some s => if kat_mismatch (ncols N s) (Z.of_nat F) then Err ValueError else Ok s
                 end) = Ok (start_stats N st F)).
  { destruct st as [s|]; simpl.
    - destruct Hfit as [H1 _]. unfold kat_mismatch, ncols. rewrite H1, Z.eqb_refl. reflexivity.
    - reflexivity. }
  rewrite Hst. rewrite good_view. cbv zeta. simpl v_F. simpl v_blocks.
  f_equal. f_equal. unfold add_vectors. f_equal.
  - rewrite map3_id. rewrite (sum_other_fibres outer F inner) by apply good_shaped. reflexivity.
  - unfold kat_cnt. f_equal. rewrite good_count.
    rewrite (fibres_length outer F inner) by apply good_shaped. reflexivity.
  - rewrite (sum_other_fibres outer F inner) by (apply map3_shaped; apply good_shaped).
    change (kat_sq_elem N) with sq. rewrite fibres_map3_sq. reflexivity.
Qed.
End GoodArg.

(** * accumulate = accumulating the call's feature vectors; histories *)
Lemma acc_vectors_single st v : acc_vectors N st [v] = acc_vector N st v.
Proof. simpl. destruct (acc_vector N st v); reflexivity. Qed.

Lemma accumulate_eq_vectors F t axis st :
  good_arg N F t axis -> fits N st F ->
  accumulate N st t axis = acc_vectors N st (vectors_of_call N (t, axis)).
Proof.
  intros G Hfit. unfold accumulate, vectors_of_call. rewrite (good_guard F t axis G).
  destruct (takes_tensor_path (shape t)) eqn:P.
  - apply (acc_tensor_eq_vectors F t axis G P). exact Hfit.
  - symmetry. apply acc_vectors_single.
Qed.

Lemma vectors_of_call_good F t axis :
  good_arg N F t axis ->
  vectors_of_call N (t, axis) <> [] /\ Forall (fun v => length v = F) (vectors_of_call N (t, axis)).
Proof.
  intros G. unfold vectors_of_call. destruct (takes_tensor_path (shape t)) eqn:P.
  - split; [apply (good_fibres_nonempty F t axis G P) | apply (good_fibres_length F t axis G P)].
  - split; [discriminate|]. constructor; [|constructor].
    destruct G as (_ & _ & _ & H). rewrite P in H. exact H.
Qed.

Definition good_call (F : nat) (c : tensor K * Z) : Prop := good_arg N F (fst c) (snd c).

Lemma flat_map_good_length F calls :
  Forall (good_call F) calls ->
  Forall (fun v => length v = F) (flat_map (vectors_of_call N) calls).
Proof.
  induction 1 as [|[t axis] calls Hc H IH]; simpl flat_map.
  - constructor.
  - apply Forall_app. split; [|exact IH]. apply (vectors_of_call_good F t axis Hc).
Qed.

(* a successful accumulate of a good argument *)
Lemma accumulate_good F t axis st :
  good_arg N F t axis -> fits N st F ->
  accumulate N st t axis =
  Ok (Some (add_vectors N (start_stats N st F) F (vectors_of_call N (t, axis)))).
Proof.
  intros G Hfit. rewrite (accumulate_eq_vectors F) by auto.
  destruct (vectors_of_call_good F t axis G) as [Hne HF].
  apply acc_vectors_closed; auto.
Qed.

Lemma acc_all_some F calls s :
  Forall (good_call F) calls -> fits N (Some s) F ->
  acc_all N (Some s) calls = Some (add_vectors N s F (flat_map (vectors_of_call N) calls)).
Proof.
  intros H. revert s. induction H as [|[t axis] calls Hc H IH]; intros s Hfit.
  - simpl. rewrite add_vectors_nil by auto. reflexivity.
  - simpl acc_all. rewrite (accumulate_good F t axis (Some s) Hc Hfit).
    destruct (vectors_of_call_good F t axis Hc) as [Hne HF].
    rewrite IH.
    + simpl flat_map. simpl start_stats. rewrite add_vectors_app; auto.
      apply flat_map_good_length; auto.
    + apply add_vectors_fits; auto.
Qed.

(* history_stats: the state after any history of good accumulate calls is the
   count / sums / sums of squares of all feature vectors it contained *)
Lemma acc_all_closed F calls st :
  Forall (good_call F) calls -> calls <> [] -> fits N st F ->
  acc_all N st calls =
  Some (add_vectors N (start_stats N st F) F (flat_map (vectors_of_call N) calls)).
Proof.
  intros H Hne Hfit. destruct st as [s|].
  - apply acc_all_some; auto.
  - destruct calls as [|[t axis] calls]; [congruence|]. inversion H as [|? ? Hc H']; subst.
    simpl acc_all. rewrite (accumulate_good F t axis None Hc Hfit).
    destruct (vectors_of_call_good F t axis Hc) as [Hn HF].
    rewrite (acc_all_some F) by (auto; apply add_vectors_fits; auto; apply zero_stats_fits).
    simpl flat_map. simpl start_stats. rewrite add_vectors_app; auto.
    + apply zero_stats_fits.
    + apply flat_map_good_length; auto.
Qed.

(* history_invariance: histories containing the same feature vectors, in any split,
   order, axis layout, as vectors or as tensors, end in the same state *)
Lemma acc_all_perm F h1 h2 st :
  Forall (good_call F) h1 -> Forall (good_call F) h2 -> h1 <> [] -> fits N st F ->
  Permutation (flat_map (vectors_of_call N) h1) (flat_map (vectors_of_call N) h2) ->
  acc_all N st h1 = acc_all N st h2.
Proof.
  intros H1 H2 Hne Hfit P.
  assert (Hne2 : h2 <> []).
  { intros ->. simpl in P. apply Permutation_sym, Permutation_nil in P.
    destruct h1 as [|[t axis] h1]; [congruence|]. inversion H1; subst.
    destruct (vectors_of_call_good F t axis) as [Hn _]; auto.
    simpl in P. apply app_eq_nil in P. destruct P; auto. }
  rewrite (acc_all_closed F h1), (acc_all_closed F h2) by auto.
  f_equal. apply add_vectors_perm; auto. apply flat_map_good_length; auto.
Qed.

(* a rejected call leaves the state alone, whatever the argument *)
Lemma acc_all_rejected st t axis e calls :
  accumulate N st t axis = Err e -> acc_all N st ((t, axis) :: calls) = acc_all N st calls.
Proof. intros E. simpl. rewrite E. reflexivity. Qed.

(* count_invariant: after a good history statistics are present *)
Lemma have_stats_after F calls :
  Forall (good_call F) calls -> calls <> [] ->
  have_stats N (acc_all N None calls) = true.
Proof.
  intros H Hne. rewrite (acc_all_closed F) by (auto; exact I).
  unfold have_stats, add_vectors. simpl s_cnt.
  apply negb_true_iff. apply not_true_iff_false. rewrite (law_is0 N L).
  replace (0 + nofZ N (Z.of_nat (length (flat_map (vectors_of_call N) calls))))
    with (nofZ N (Z.of_nat (length (flat_map (vectors_of_call N) calls)))) by ring.
  apply ofZ_neq0.
  destruct calls as [|[t axis] calls]; [congruence|]. inversion H; subst.
  destruct (vectors_of_call_good F t axis) as [Hn _]; auto.
  change (flat_map (vectors_of_call N) ((t, axis) :: calls))
    with (vectors_of_call N (t, axis) ++ flat_map (vectors_of_call N) calls).
  rewrite app_length.
  destruct (vectors_of_call N (t, axis)); [congruence|]. simpl length. lia.
Qed.

(** * Dimension mismatch *)
Lemma accumulate_mismatch F F' t axis s :
  good_arg N F' t axis -> fits N (Some s) F -> F <> F' ->
  accumulate N (Some s) t axis = Err ValueError.
Proof.
  intros G [H1 _] Hd. unfold accumulate. rewrite (good_guard F' t axis G).
  destruct (takes_tensor_path (shape t)) eqn:P.
  - unfold acc_tensor. rewrite (good_py_index F' t axis G P).
    unfold kat_mismatch, ncols. rewrite H1.
    destruct (Z.eqb_spec (Z.of_nat F + 1) (Z.of_nat F' + 1)); [lia|]. reflexivity.
  - unfold acc_vector. destruct G as (_ & _ & _ & Hl). rewrite P in Hl. rewrite Hl.
    unfold kav_mismatch, ncols. rewrite H1.
    destruct (Z.eqb_spec (Z.of_nat F + 1) (Z.of_nat F' + 1)); [lia|]. reflexivity.
Qed.

(** * apply *)
Lemma out_f64_true ip f64 : out_f64 ip f64 = true.
Proof. unfold out_f64, copies. destruct ip, f64; reflexivity. Qed.

Lemma alias_iff ip f64 : negb (copies ip f64) = ip && f64.
Proof. unfold copies. destruct ip, f64; reflexivity. Qed.

Lemma npow2 (m : K) : npow N m 2 = sq m.
Proof. unfold Model.sq. simpl. ring. Qed.

(* the per-coefficient parameters in specification form *)
Definition spec_params (nv : bool) (sums sqs : list K) (cnt : K) : list (K * option K) :=
  zipw (fun s q => (s / cnt, veff N nv (q / cnt - sq (s / cnt)))) sums sqs.

Lemma params_spec nv sums sqs cnt :
  params N nv (kpv_mean N) (kpv_var N) (kpv_close N) (kpv_repl N) sums sqs cnt
  = spec_params nv sums sqs cnt.
Proof.
  unfold params, spec_params. apply zipw_ext. intros x y. cbv zeta.
  unfold kpv_mean, kpv_var, kpv_close, kpv_repl, veff. rewrite npow2, ofZ_0, ofZ_1. reflexivity.
Qed.

Lemma params_spec_t nv sums sqs cnt :
  params N nv (kpt_mean N) (kpt_var N) (kpt_close N) (kpt_repl N) sums sqs cnt
  = spec_params nv sums sqs cnt.
Proof. exact (params_spec nv sums sqs cnt). Qed.

Lemma params_spec_l nv sums sqs cnt :
  params N nv (kpl_mean N) (kpl_var N) (kpt_close N) (kpt_repl N) sums sqs cnt
  = spec_params nv sums sqs cnt.
Proof. exact (params_spec nv sums sqs cnt). Qed.

(* parameters computed directly from a list of feature vectors *)
Definition vec_params (nv : bool) (vs : list (list K)) (F : nat) : list (K * option K) :=
  map (fun f => (col_mean N vs f, veff N nv (col_var N vs f))) (seq 0 F).

Lemma vec_params_length nv vs F : length (vec_params nv vs F) = F.
Proof. unfold vec_params. rewrite map_length, seq_length. reflexivity. Qed.

Lemma nth_vec_params nv vs F f d :
  (f < F)%nat -> nth f (vec_params nv vs F) d = (col_mean N vs f, veff N nv (col_var N vs f)).
Proof.
  intros Hf. unfold vec_params.
  set (g := fun f => (col_mean N vs f, veff N nv (col_var N vs f))).
  rewrite (nth_indep _ d (g O)) by (rewrite map_length, seq_length; exact Hf).
  rewrite map_nth. rewrite seq_nth by exact Hf. reflexivity.
Qed.

Lemma comp_map_sq f (vs : list (list K)) : comp N f (map (map sq) vs) = map sq (comp N f vs).
Proof.
  unfold comp. rewrite !map_map. apply map_ext. intros v.
  rewrite <- sq_0 at 1. apply map_nth.
Qed.

Lemma spec_params_of_sums nv F vs (sums sqs : list K) cnt :
  Forall (fun v => length v = F) vs ->
  sums = vsum F vs -> sqs = vsum F (map (map sq) vs) -> cnt = nofZ N (Z.of_nat (length vs)) ->
  spec_params nv sums sqs cnt = vec_params nv vs F.
Proof.
  intros HF -> -> ->.
  assert (HF2 : Forall (fun v => length v = F) (map (map sq) vs)).
  { rewrite Forall_map. eapply Forall_impl; [|exact HF]. intros v Hv. rewrite map_length; auto. }
  apply (nth_ext _ _ (0, None) (0, None)).
  - unfold spec_params. rewrite zipw_length, !vsum_length, vec_params_length by auto. lia.
  - unfold spec_params at 1. rewrite zipw_length, !vsum_length by auto. intros f Hf.
    assert (Hf' : (f < F)%nat) by lia.
    unfold spec_params. rewrite (zipw_nth _ _ _ _ 0 0) by (rewrite vsum_length; auto).
    rewrite nth_vec_params by auto.
    rewrite !nth_vsum by auto.
    unfold col_mean, col_var. fold (comp N f vs). fold (comp N f (map (map sq) vs)).
    rewrite comp_map_sq. reflexivity.
Qed.

Lemma stats_of_vectors_params nv F vs :
  Forall (fun v => length v = F) vs ->
  let s := add_vectors N (zero_stats N (Z.of_nat F + 1)) F vs in
  spec_params nv (s_sum s) (s_sq s) (s_cnt s) = vec_params nv vs F.
Proof.
  intros HF s. apply spec_params_of_sums; auto; unfold s, add_vectors, zero_stats; simpl.
  - replace (Z.to_nat (Z.of_nat F + 1 - 1)) with F by lia. apply vadd_zero_l. apply vsum_length; auto.
  - replace (Z.to_nat (Z.of_nat F + 1 - 1)) with F by lia. apply vadd_zero_l. apply vsum_length.
    rewrite Forall_map. eapply Forall_impl; [|exact HF]. intros v Hv. rewrite map_length; auto.
  - ring.
Qed.

Lemma have_stats_of_vectors F vs :
  vs <> [] -> have_stats N (Some (add_vectors N (zero_stats N (Z.of_nat F + 1)) F vs)) = true.
Proof.
  intros Hne. unfold have_stats, add_vectors, zero_stats. simpl s_cnt.
  apply negb_true_iff. apply not_true_iff_false. rewrite (law_is0 N L).
  replace (0 + nofZ N (Z.of_nat (length vs))) with (nofZ N (Z.of_nat (length vs))) by ring.
  apply ofZ_neq0. destruct vs; [congruence|]. simpl length. lia.
Qed.

Section ApplyFacts.
Context {O : Type}.
Variables (finv fint : K -> K -> option K -> O) (zero : O) (nv : bool).

(* apply_formula (vector): every coefficient is finished with the exact mean and the
   effective variance of the accumulated vectors *)
Lemma apply_vector_global F vs t ip :
  vs <> [] -> Forall (fun v => length v = F) vs -> length (data t) = F ->
  apply_vector N finv zero nv (Some (add_vectors N (zero_stats N (Z.of_nat F + 1)) F vs)) t ip
  = Ok (mkA (shape t)
            (zipw (fun x p => finv x (fst p) (snd p)) (data t) (vec_params nv vs F))
            true (ip && is_f64 t)).
Proof.
  intros Hne HF Hlen. unfold apply_vector.
  set (s := add_vectors N (zero_stats N (Z.of_nat F + 1)) F vs).
  assert (Hfit : fits N (Some s) F) by (apply add_vectors_fits; auto; apply zero_stats_fits).
  destruct Hfit as [H1 H2].
  unfold kpv_mismatch, ncols. rewrite H1, Hlen, Z.eqb_refl. simpl negb. cbv iota.
  unfold s at 1. rewrite (have_stats_of_vectors F vs Hne).
  rewrite params_spec. unfold s. rewrite (stats_of_vectors_params nv F vs HF).
  rewrite out_f64_true, alias_iff. reflexivity.
Qed.

Lemma apply_tensor_global F vs t axis ip :
  vs <> [] -> Forall (fun v => length v = F) vs ->
  good_arg N F t axis -> takes_tensor_path (shape t) = true ->
  apply_tensor N fint zero nv (Some (add_vectors N (zero_stats N (Z.of_nat F + 1)) F vs)) t axis ip
  = Ok (mkA (shape t)
            (apply_blocks N fint (vec_params nv vs F) (v_blocks (view_of t axis)))
            true (ip && is_f64 t)).
Proof.
  intros Hne HF G P. unfold apply_tensor. rewrite (good_py_index F t axis G P).
  set (s := add_vectors N (zero_stats N (Z.of_nat F + 1)) F vs).
  assert (Hfit : fits N (Some s) F) by (apply add_vectors_fits; auto; apply zero_stats_fits).
  destruct Hfit as [H1 H2].
  unfold kpt_mismatch, ncols. rewrite H1, Z.eqb_refl. simpl negb. cbv iota. cbv zeta.
  unfold s at 1. rewrite (have_stats_of_vectors F vs Hne).
  rewrite params_spec_t. unfold s. rewrite (stats_of_vectors_params nv F vs HF).
  rewrite out_f64_true, alias_iff. reflexivity.
Qed.

(* dim_mismatch (apply) *)
Lemma apply_mismatch F F' s t axis ip :
  good_arg N F' t axis -> fits N (Some s) F -> F <> F' ->
  apply N finv fint zero nv (Some s) t axis ip = Err ValueError.
Proof.
  intros G [H1 _] Hd. unfold apply. rewrite (good_guard F' t axis G).
  destruct (takes_tensor_path (shape t)) eqn:P.
  - unfold apply_tensor. rewrite (good_py_index F' t axis G P).
    unfold kpt_mismatch, ncols. rewrite H1.
    destruct (Z.eqb_spec (Z.of_nat F + 1) (Z.of_nat F' + 1)); [lia|]. reflexivity.
  - unfold apply_vector. destruct G as (_ & _ & _ & Hl). rewrite P in Hl. rewrite Hl.
    unfold kpv_mismatch, ncols. rewrite H1.
    destruct (Z.eqb_spec (Z.of_nat F + 1) (Z.of_nat F' + 1)); [lia|]. reflexivity.
Qed.

Lemma zipw_rows_length {P X Y} (g : P -> X -> Y) inner (M : list (list X)) (ps : list P) :
  Forall (fun row => length row = inner) M ->
  Forall (fun row => length row = inner) (zipw (fun row p => map (g p) row) M ps).
Proof.
  intros H. revert ps. induction H as [|row M Hrow HM IH]; intros [|p ps]; simpl; constructor.
  - rewrite map_length. exact Hrow.
  - apply IH.
Qed.

(* C-order element (o, f, r) of the result of apply_blocks *)
Lemma nth_apply_blocks outer F inner ps (blocks : list (list (list K))) o f r d dx :
  shaped outer F inner blocks -> length ps = F ->
  (o < outer)%nat -> (f < F)%nat -> (r < inner)%nat ->
  nth ((o * F + f) * inner + r) (apply_blocks N fint ps blocks) d
  = fint (nth r (nth f (nth o blocks []) []) dx) (fst (nth f ps (0, None))) (snd (nth f ps (0, None))).
Proof.
  intros Hs Hps Ho Hf Hr. unfold apply_blocks.
  set (G := fun block : list (list K) =>
              zipw (fun row p => map (fun x => fint x (fst p) (snd p)) row) block ps).
  assert (HsG : shaped outer F inner (map G blocks)).
  { destruct Hs as [Hl HF]. split; [rewrite map_length; auto|].
    rewrite Forall_map. eapply Forall_impl; [|exact HF]. intros M [HM Hrows]. split.
    - unfold G. apply zipw_length_eq; auto.
    - unfold G. apply (zipw_rows_length (fun p x => fint x (fst p) (snd p))). exact Hrows. }
  rewrite <- (nth_view3 outer F inner _ o f r d) by assumption.
  rewrite view3_flatten3 by exact HsG.
  destruct Hs as [Hl HF].
  change (nth o (map G blocks) []) with (nth o (map G blocks) (G [])).
  rewrite map_nth.
  assert (HM : length (nth o blocks []) = F /\ Forall (fun row => length row = inner) (nth o blocks [])).
  { rewrite Forall_forall in HF. apply HF. apply nth_In. lia. }
  destruct HM as [HM Hrows].
  unfold G. rewrite (zipw_nth _ _ _ _ [] (0, None)) by lia.
  assert (Hrow : length (nth f (nth o blocks []) []) = inner).
  { rewrite Forall_forall in Hrows. apply Hrows. apply nth_In. lia. }
  set (h := fun x : K => fint x (fst (nth f ps (0, None))) (snd (nth f ps (0, None)))).
  change (nth r (map h (nth f (nth o blocks []) [])) d = h (nth r (nth f (nth o blocks []) []) dx)).
  rewrite (nth_indep _ d (h dx)) by (rewrite map_length; lia).
  apply map_nth.
Qed.

(** ** No statistics *)
Lemma apply_vector_nostats t ip :
  apply_vector N finv zero nv None t ip
  = if nv then Err ValueError
    else Ok (mkA (shape t) (map (fun _ => zero) (data t)) true (ip && is_f64 t)).
Proof. unfold apply_vector. rewrite out_f64_true, alias_iff. reflexivity. Qed.

End ApplyFacts.

(** ** Without statistics: a tensor is standardised with its own statistics *)
Lemma map3_ext {A B} (g h : A -> B) blocks : (forall x, g x = h x) -> map3 g blocks = map3 h blocks.
Proof.
  intros E. unfold map3. apply map_ext. intros b. apply map_ext. intros r. apply map_ext. exact E.
Qed.

Section LocalFacts.
Context {O : Type}.
Variables (fint : K -> K -> option K -> O) (zero : O) (nv : bool).
Variables (F : nat) (t : tensor K) (axis : Z).
Hypothesis G : good_arg N F t axis.
Hypothesis P : takes_tensor_path (shape t) = true.

Let a := axis_pos (shape t) axis.
Let outer := Z.to_nat (prodZ (firstn a (shape t))).
Let inner := Z.to_nat (prodZ (skipn (S a) (shape t))).
Let vs := fibres N (view_of t axis).

Lemma others_pos : Forall (fun d => (0 < d)%Z) (other_dims (shape t) a).
Proof.
  destruct G as (_ & _ & Hpos & _). unfold other_dims. apply Forall_app. split.
  - apply Forall_firstn; auto.
  - apply Forall_skipn; auto.
Qed.

Lemma single_vector_test :
  (sumZ (other_dims (shape t) a) =? Z.of_nat (length (other_dims (shape t) a)))%Z
  = (length vs =? 1)%nat.
Proof.
  unfold vs. rewrite (good_view F t axis G P).
  rewrite (fibres_length) by (apply (good_shaped F t axis G P)).
  fold a. fold outer. fold inner.
  pose proof (sum_len_iff_prod_one _ others_pos) as E.
  pose proof (good_count F t axis G) as C. fold a in C. fold outer in C. fold inner in C.
  rewrite C in E.
  destruct (Z.eqb_spec (sumZ (other_dims (shape t) a)) (Z.of_nat (length (other_dims (shape t) a))));
    destruct (Nat.eqb_spec (outer * inner) 1); auto; exfalso.
  - apply E in e. lia.
  - apply n. apply E. lia.
Qed.

Lemma apply_tensor_local st ip :
  have_stats N st = false -> fits N st F -> length vs <> 1%nat ->
  apply_tensor N fint zero nv st t axis ip
  = Ok (mkA (shape t) (apply_blocks N fint (vec_params nv vs F) (v_blocks (view_of t axis)))
            true (ip && is_f64 t)).
Proof.
  intros Hh Hfit Hn. unfold apply_tensor. rewrite (good_py_index F t axis G P).
  assert (Hm : (match st with Some s => kpt_mismatch (ncols N s) (Z.of_nat F) | None => false end) = false).
  { destruct st as [s|]; auto. destruct Hfit as [H1 _].
    unfold kpt_mismatch, ncols. rewrite H1, Z.eqb_refl. reflexivity. }
  rewrite Hm. cbv zeta. rewrite Hh. fold a.
  rewrite single_vector_test. destruct (Nat.eqb_spec (length vs) 1); [contradiction|].
  rewrite params_spec_l, out_f64_true, alias_iff.
  f_equal. f_equal. f_equal.
  pose proof (good_shaped F t axis G P) as Hs. fold a in Hs. fold outer in Hs. fold inner in Hs.
  unfold vs. rewrite (good_view F t axis G P). fold a. fold outer. fold inner.
  simpl v_F. simpl v_blocks.
  apply spec_params_of_sums.
  - apply fibres_Forall_length. exact Hs.
  - apply sum_other_fibres. exact Hs.
  - rewrite (map3_ext (kpl_sq_elem N) sq) by (intros x; apply npow2).
    rewrite (sum_other_fibres outer F inner) by (apply map3_shaped; exact Hs).
    rewrite fibres_map3_sq. reflexivity.
  - pose proof (good_count F t axis G) as C. fold a in C. fold outer in C. fold inner in C.
    rewrite C. rewrite (fibres_length outer F inner) by exact Hs. reflexivity.
Qed.

Lemma apply_tensor_single st ip :
  have_stats N st = false -> fits N st F -> length vs = 1%nat ->
  apply_tensor N fint zero nv st t axis ip
  = if nv then Err ValueError
    else Ok (mkA (shape t) (map (fun _ => zero) (data t)) true (ip && is_f64 t)).
Proof.
  intros Hh Hfit Hn. unfold apply_tensor. rewrite (good_py_index F t axis G P).
  assert (Hm : (match st with Some s => kpt_mismatch (ncols N s) (Z.of_nat F) | None => false end) = false).
  { destruct st as [s|]; auto. destruct Hfit as [H1 _].
    unfold kpt_mismatch, ncols. rewrite H1, Z.eqb_refl. reflexivity. }
  rewrite Hm. cbv zeta. rewrite Hh. fold a.
  rewrite single_vector_test. rewrite Hn. simpl Nat.eqb. cbv iota.
  rewrite out_f64_true, alias_iff. reflexivity.
Qed.
End LocalFacts.

(** * Moments *)
Lemma ksum_map_sub xs m :
  ksum (map (fun x => x - m) xs) = ksum xs - nofZ N (Z.of_nat (length xs)) * m.
Proof.
  induction xs as [|x xs IH].
  - simpl. change (Z.of_nat 0) with 0%Z. rewrite ofZ_0. ring.
  - simpl map. rewrite !ksum_cons, IH. simpl length. rewrite ofZ_S. ring.
Qed.

Lemma ksum_map_sq_sub xs m :
  ksum (map (fun x => sq (x - m)) xs)
  = ksum (map sq xs) - (1 + 1) * m * ksum xs + nofZ N (Z.of_nat (length xs)) * sq m.
Proof.
  induction xs as [|x xs IH].
  - simpl. change (Z.of_nat 0) with 0%Z. rewrite ofZ_0. unfold Model.sq. ring.
  - simpl map. rewrite !ksum_cons, IH. simpl length. rewrite ofZ_S. unfold Model.sq. ring.
Qed.

Lemma ksum_map_scale xs c : ksum (map (fun x => x * c) xs) = ksum xs * c.
Proof. induction xs as [|x xs IH]; simpl; [ring|]. rewrite IH. ring. Qed.

Lemma len_neq0 {A} (xs : list A) : xs <> [] -> nofZ N (Z.of_nat (length xs)) <> 0.
Proof. intros H. apply ofZ_neq0. destruct xs; [congruence|]. simpl length. lia. Qed.

(* centring with the exact mean gives sum zero; the centred sum of squares is n * variance *)
Lemma centred_sum xs :
  xs <> [] ->
  let n := nofZ N (Z.of_nat (length xs)) in
  ksum (map (fun x => x - ksum xs / n) xs) = 0.
Proof. intros H n. rewrite ksum_map_sub. fold n. field. apply len_neq0; auto. Qed.

Lemma centred_sq_sum xs :
  xs <> [] ->
  let n := nofZ N (Z.of_nat (length xs)) in
  let m := ksum xs / n in
  ksum (map (fun x => sq (x - m)) xs) = n * (ksum (map sq xs) / n - sq m).
Proof.
  intros H n m. rewrite ksum_map_sq_sub. fold n. unfold m, Model.sq. field. apply len_neq0; auto.
Qed.

(* feature vectors of the standardised tensor = standardised feature vectors *)
Lemma cols_apply (g : K * option K -> K -> K) inner (M : list (list K)) ps :
  Forall (fun row => length row = inner) M ->
  cols N inner (zipw (fun row p => map (g p) row) M ps)
  = map (fun v => zipw (fun x p => g p x) v ps) (cols N inner M).
Proof.
  intros HM. unfold cols. rewrite map_map. apply map_ext_in. intros r Hr.
  apply in_seq in Hr. unfold col. rewrite map_zipw, zipw_map_l.
  apply zipw_ext_in. intros row p Hin.
  rewrite Forall_forall in HM. specialize (HM row Hin).
  rewrite (nth_indep _ 0 (g p 0)) by (rewrite map_length; lia).
  apply map_nth.
Qed.

Lemma fibres_apply (g : K * option K -> K -> K) outer F inner ps (blocks : list (list (list K))) :
  shaped outer F inner blocks ->
  fibres N (mkView outer F inner (map (fun block => zipw (fun row p => map (g p) row) block ps) blocks))
  = map (fun v => zipw (fun x p => g p x) v ps) (fibres N (mkView outer F inner blocks)).
Proof.
  intros [_ HF]. unfold fibres. simpl. clear outer.
  induction HF as [|M blocks [_ HM] HF IH]; simpl; auto.
  rewrite map_app. f_equal; auto. apply cols_apply; auto.
Qed.

Lemma comp_apply (g : K * option K -> K -> K) F f ps (vs : list (list K)) dp :
  Forall (fun v => length v = F) vs -> length ps = F -> (f < F)%nat ->
  comp N f (map (fun v => zipw (fun x p => g p x) v ps) vs) = map (g (nth f ps dp)) (comp N f vs).
Proof.
  intros HF Hps Hf. unfold comp. rewrite !map_map. apply map_ext_Forall.
  eapply Forall_impl; [|exact HF]. intros v Hv. cbv beta in Hv.
  apply (zipw_nth (fun x p => g p x)); lia.
Qed.

(* local_standardize_moments, generic form: if the finisher is (x - mean) * scale, each
   coefficient of the standardised tensor has mean 0 and variance scale^2 * (its variance) *)
Section LocalMoments.
Variable scale : option K -> K.
Variable fint : K -> K -> option K -> K.
Hypothesis Hfin : forall x m ov, fint x m ov = (x - m) * scale ov.
Variables (nv : bool) (F : nat) (t : tensor K) (axis : Z).
Hypothesis G : good_arg N F t axis.
Hypothesis P : takes_tensor_path (shape t) = true.

Lemma local_fibres ps_vs :
  let vs := fibres N (view_of t axis) in
  let out := apply_blocks N fint (vec_params nv ps_vs F) (v_blocks (view_of t axis)) in
  let ys := fibres N (view_of (mkT (shape t) out true) axis) in
  ys = map (fun v => zipw (fun x p => fint x (fst p) (snd p)) v (vec_params nv ps_vs F)) vs.
Proof.
  intros vs out ys.
  pose proof (good_shaped F t axis G P) as Hs.
  set (a := axis_pos (shape t) axis) in *.
  set (outer := Z.to_nat (prodZ (firstn a (shape t)))) in *.
  set (inner := Z.to_nat (prodZ (skipn (S a) (shape t)))) in *.
  set (g := fun (p : K * option K) (x : K) => fint x (fst p) (snd p)).
  assert (Eout : out = flatten3 (map (fun block => zipw (fun row p => map (g p) row) block (vec_params nv ps_vs F))
                                     (view3 outer F inner (data t)))).
  { unfold out, apply_blocks. rewrite (good_view F t axis G P). reflexivity. }
  assert (Hs' : shaped outer F inner
                  (map (fun block => zipw (fun row p => map (g p) row) block (vec_params nv ps_vs F))
                       (view3 outer F inner (data t)))).
  { destruct Hs as [Hl HF]. split; [rewrite map_length; auto|].
    rewrite Forall_map. eapply Forall_impl; [|exact HF]. intros M [HM Hrows]. split.
    - apply zipw_length_eq; auto. apply vec_params_length.
    - apply zipw_rows_length. exact Hrows. }
  unfold ys, vs. unfold view_of at 1. simpl shape. simpl data.
  destruct (good_axis F t axis G P) as [_ Hn]. fold a. fold a in Hn. rewrite Hn, Nat2Z.id.
  fold outer. fold inner. rewrite Eout. rewrite view3_flatten3 by exact Hs'.
  rewrite (good_view F t axis G P). fold a. fold outer. fold inner.
  apply (fibres_apply g). exact Hs.
Qed.

Lemma local_moments_generic ps_vs f :
  let vs := fibres N (view_of t axis) in
  let out := apply_blocks N fint (vec_params nv ps_vs F) (v_blocks (view_of t axis)) in
  let ys := fibres N (view_of (mkT (shape t) out true) axis) in
  (f < F)%nat ->
  length ys = length vs /\
  comp N f ys = map (fun x => (x - col_mean N ps_vs f) * scale (veff N nv (col_var N ps_vs f)))
                    (comp N f vs).
Proof.
  intros vs out ys Hf.
  pose proof (local_fibres ps_vs) as Eys. cbv zeta in Eys. fold vs out ys in Eys.
  set (g := fun (p : K * option K) (x : K) => fint x (fst p) (snd p)).
  split.
  - rewrite Eys. apply map_length.
  - rewrite Eys. rewrite (comp_apply g F f _ vs (0, None)).
    + rewrite nth_vec_params by exact Hf. apply map_ext. intros x. unfold g. simpl. apply Hfin.
    + apply (good_fibres_length F t axis G P).
    + apply vec_params_length.
    + exact Hf.
Qed.

Lemma local_moments f :
  let vs := fibres N (view_of t axis) in
  let out := apply_blocks N fint (vec_params nv vs F) (v_blocks (view_of t axis)) in
  let ys := fibres N (view_of (mkT (shape t) out true) axis) in
  (f < F)%nat ->
  col_mean N ys f = 0 /\
  col_var N ys f = sq (scale (veff N nv (col_var N vs f))) * col_var N vs f.
Proof.
  intros vs out ys Hf.
  destruct (local_moments_generic vs f Hf) as [Hlen Hcomp]. fold vs out ys in Hlen, Hcomp.
  pose proof (good_fibres_nonempty F t axis G P) as Hne. fold vs in Hne.
  assert (Hxs : comp N f vs <> []).
  { unfold comp. destruct vs; [congruence|]. discriminate. }
  assert (Hl : length (comp N f vs) = length vs) by (unfold comp; apply map_length).
  pose proof (len_neq0 vs Hne) as Hn0.
  set (c := scale (veff N nv (col_var N vs f))) in *.
  set (xs := comp N f vs) in *.
  set (n := nofZ N (Z.of_nat (length vs))) in *.
  assert (Em : col_mean N vs f = ksum xs / n) by reflexivity.
  assert (S1 : ksum (comp N f ys) = 0).
  { rewrite Hcomp. rewrite <- (map_map (fun x => x - col_mean N vs f) (fun y => y * c)).
    rewrite ksum_map_scale. rewrite Em. unfold n. rewrite <- Hl.
    rewrite (centred_sum xs Hxs). ring. }
  assert (S2 : ksum (map sq (comp N f ys)) = sq c * (n * col_var N vs f)).
  { rewrite Hcomp. rewrite map_map.
    transitivity (ksum (map (fun x => sq (x - col_mean N vs f) * sq c) xs)).
    { f_equal. apply map_ext. intros x. unfold Model.sq. ring. }
    rewrite <- (map_map (fun x => sq (x - col_mean N vs f)) (fun y => y * sq c)).
    rewrite ksum_map_scale. rewrite Em. unfold n. rewrite <- Hl.
    rewrite (centred_sq_sum xs Hxs). unfold col_var. fold xs. rewrite Em. rewrite Hl. fold n. ring. }
  split.
  - unfold col_mean. rewrite S1, Hlen. fold n. field. exact Hn0.
  - unfold col_var at 1. unfold col_mean. rewrite S1, S2, Hlen. fold n. unfold Model.sq. field. exact Hn0.
Qed.
End LocalMoments.

(** * apply after a history; apply without statistics *)
Section ApplyTop.
Context {O : Type}.
Variables (finv fint : K -> K -> option K -> O) (zero : O) (nv : bool).

Lemma history_vectors_good F calls :
  Forall (good_call F) calls -> calls <> [] ->
  flat_map (vectors_of_call N) calls <> [] /\
  Forall (fun v => length v = F) (flat_map (vectors_of_call N) calls).
Proof.
  intros H Hne. split; [|apply flat_map_good_length; auto].
  destruct calls as [|[t axis] calls]; [congruence|]. inversion H; subst.
  destruct (vectors_of_call_good F t axis) as [Hn _]; auto.
  change (flat_map (vectors_of_call N) ((t, axis) :: calls))
    with (vectors_of_call N (t, axis) ++ flat_map (vectors_of_call N) calls).
  intros E. apply app_eq_nil in E. destruct E; auto.
Qed.

(* apply_formula: after any history of good accumulate calls, apply finishes every
   element with the exact mean and effective variance, per coefficient of the chosen
   axis, of ALL feature vectors of the history *)
Lemma apply_after_history F calls t axis ip :
  Forall (good_call F) calls -> calls <> [] -> good_arg N F t axis ->
  let vs := flat_map (vectors_of_call N) calls in
  apply N finv fint zero nv (acc_all N None calls) t axis ip
  = Ok (mkA (shape t)
            (if takes_tensor_path (shape t)
             then apply_blocks N fint (vec_params nv vs F) (v_blocks (view_of t axis))
             else zipw (fun x p => finv x (fst p) (snd p)) (data t) (vec_params nv vs F))
            true (ip && is_f64 t)).
Proof.
  intros H Hne G vs. destruct (history_vectors_good F calls H Hne) as [Hvne HvF]. fold vs in Hvne, HvF.
  rewrite (acc_all_closed F) by (auto; exact I). fold vs. simpl start_stats.
  unfold apply. rewrite (good_guard F t axis G).
  destruct (takes_tensor_path (shape t)) eqn:P.
  - apply apply_tensor_global; auto.
  - apply apply_vector_global; auto. destruct G as (_ & _ & _ & Hl). rewrite P in Hl. exact Hl.
Qed.

(* the same, element by element (C order: element (o, f, r) is at (o*F + f)*inner + r) *)
Lemma apply_after_history_vector_elem F calls t axis ip f d :
  Forall (good_call F) calls -> calls <> [] -> good_arg N F t axis ->
  takes_tensor_path (shape t) = false -> (f < F)%nat ->
  let vs := flat_map (vectors_of_call N) calls in
  exists out, apply N finv fint zero nv (acc_all N None calls) t axis ip = Ok out /\
    nth f (a_vals out) d = finv (nth f (data t) 0) (col_mean N vs f) (veff N nv (col_var N vs f)).
Proof.
  intros H Hne G P Hf vs. eexists. split; [apply (apply_after_history F); auto|].
  rewrite P. simpl a_vals. fold vs.
  destruct G as (_ & _ & _ & Hl). rewrite P in Hl.
  rewrite (zipw_nth _ _ _ _ 0 (0, None)) by (rewrite ?vec_params_length; lia).
  rewrite nth_vec_params by exact Hf. reflexivity.
Qed.

Lemma apply_after_history_tensor_elem F calls t axis ip o f r d :
  Forall (good_call F) calls -> calls <> [] -> good_arg N F t axis ->
  takes_tensor_path (shape t) = true ->
  let v := view_of t axis in
  (o < v_outer v)%nat -> (f < F)%nat -> (r < v_inner v)%nat ->
  let vs := flat_map (vectors_of_call N) calls in
  let i := ((o * F + f) * v_inner v + r)%nat in
  exists out, apply N finv fint zero nv (acc_all N None calls) t axis ip = Ok out /\
    nth i (a_vals out) d = fint (nth i (data t) 0) (col_mean N vs f) (veff N nv (col_var N vs f)).
Proof.
  intros H Hne G P v Ho Hf Hr vs i.
  pose proof (good_shaped F t axis G P) as Hs.
  pose proof (good_view F t axis G P) as Ev. fold v in Ev.
  set (outer := Z.to_nat (prodZ (firstn (axis_pos (shape t) axis) (shape t)))) in *.
  set (inner := Z.to_nat (prodZ (skipn (S (axis_pos (shape t) axis)) (shape t)))) in *.
  eexists. split; [apply (apply_after_history F); auto|].
  rewrite P. cbn [a_vals]. fold vs. fold v. subst i.
  clearbody v. subst v. cbn [v_outer v_inner v_blocks] in *.
  rewrite (nth_apply_blocks fint outer F inner _ _ o f r d 0 Hs) by (auto using vec_params_length).
  rewrite nth_vec_params by exact Hf. simpl fst. simpl snd.
  rewrite nth_view3 by assumption. reflexivity.
Qed.

(* ... and for every flat index i: the coefficient of element i is (i / inner) mod F,
   NumPy's broadcasting of a length-F vector along the chosen axis *)
Lemma apply_after_history_flat F calls t axis ip i d :
  Forall (good_call F) calls -> calls <> [] -> good_arg N F t axis ->
  takes_tensor_path (shape t) = true -> (i < length (data t))%nat ->
  let vs := flat_map (vectors_of_call N) calls in
  let f := ((i / v_inner (view_of t axis)) mod F)%nat in
  exists out, apply N finv fint zero nv (acc_all N None calls) t axis ip = Ok out /\
    nth i (a_vals out) d = fint (nth i (data t) 0) (col_mean N vs f) (veff N nv (col_var N vs f)).
Proof.
  intros H Hne G P Hi vs f.
  pose proof (good_data_length F t axis G P) as Hlen.
  pose proof (good_view F t axis G P) as Ev.
  set (outer := Z.to_nat (prodZ (firstn (axis_pos (shape t) axis) (shape t)))) in *.
  set (inner := Z.to_nat (prodZ (skipn (S (axis_pos (shape t) axis)) (shape t)))) in *.
  assert (Einner : v_inner (view_of t axis) = inner) by (rewrite Ev; reflexivity).
  assert (Eouter : v_outer (view_of t axis) = outer) by (rewrite Ev; reflexivity).
  rewrite Hlen in Hi.
  destruct (flat_index_decompose outer F inner i Hi) as (Ho & Hf & Hr & Ei).
  unfold f. rewrite Einner.
  destruct (apply_after_history_tensor_elem F calls t axis ip (i / inner / F) ((i / inner) mod F) (i mod inner) d
              H Hne G P) as (out & E & V); try (rewrite ?Einner, ?Eouter; assumption).
  exists out. split; [exact E|].
  rewrite Einner in V. rewrite <- Ei in V. exact V.
Qed.

(* without statistics *)
Lemma apply_nostats_local F t axis ip :
  good_arg N F t axis -> takes_tensor_path (shape t) = true ->
  length (fibres N (view_of t axis)) <> 1%nat ->
  apply N finv fint zero nv None t axis ip
  = Ok (mkA (shape t)
            (apply_blocks N fint (vec_params nv (fibres N (view_of t axis)) F) (v_blocks (view_of t axis)))
            true (ip && is_f64 t)).
Proof.
  intros G P Hn. unfold apply. rewrite (good_guard F t axis G), P.
  apply (apply_tensor_local fint zero nv F t axis G P None ip); auto. exact I.
Qed.

Lemma apply_nostats_single F t axis ip :
  good_arg N F t axis ->
  (takes_tensor_path (shape t) = true -> length (fibres N (view_of t axis)) = 1%nat) ->
  apply N finv fint zero nv None t axis ip
  = if nv then Err ValueError
    else Ok (mkA (shape t) (map (fun _ => zero) (data t)) true (ip && is_f64 t)).
Proof.
  intros G Hn. unfold apply. rewrite (good_guard F t axis G).
  destruct (takes_tensor_path (shape t)) eqn:P.
  - apply (apply_tensor_single fint zero nv F t axis G P None ip); auto. exact I.
  - apply apply_vector_nostats.
Qed.

(* whatever happens, a returned array is float64, and it is the input object only if
   in_place was requested (and then only for float64 input) *)
Lemma apply_result_dtype st t axis ip out :
  apply N finv fint zero nv st t axis ip = Ok out ->
  a_f64 out = true /\ a_aliases_input out = ip && is_f64 t /\ a_shape out = shape t.
Proof.
  unfold apply. destruct (empty_guard (shape t)); [discriminate|].
  destruct (takes_tensor_path (shape t)).
  - unfold apply_tensor. destruct (py_index (shape t) axis); [|discriminate].
    destruct (match st with Some s => kpt_mismatch (ncols N s) z | None => false end); [discriminate|].
    cbv zeta. rewrite out_f64_true, alias_iff.
    destruct (if have_stats N st then st else None).
    + intros E; inversion E; subst; simpl; auto.
    + destruct (sumZ _ =? _)%Z.
      * destruct nv; [discriminate|]. intros E; inversion E; subst; simpl; auto.
      * intros E; inversion E; subst; simpl; auto.
  - unfold apply_vector. rewrite out_f64_true, alias_iff.
    destruct st as [s|].
    + destruct (kpv_mismatch _ _); [discriminate|].
      destruct (have_stats N (Some s)).
      * intros E; inversion E; subst; simpl; auto.
      * destruct nv; [discriminate|]. intros E; inversion E; subst; simpl; auto.
    + destruct nv; [discriminate|]. intros E; inversion E; subst; simpl; auto.
Qed.
End ApplyTop.

(* apply never changes the state, have_stats neither: by construction of [step] *)
Lemma step_apply_keeps_state {O} (finv fint : K -> K -> option K -> O) zero nv st t axis ip :
  snd (step N finv fint zero nv st (OpApp t axis ip)) = st.
Proof. reflexivity. Qed.

(** * Histories with apply / have_stats interleaved: they do not disturb the state *)
Section RunFacts.
Context {O : Type}.
Variables (finv fint : K -> K -> option K -> O) (zero : O) (nv : bool).

Definition calls_of (ops : list (op N)) : list (tensor K * Z) :=
  flat_map (fun o => match o with OpAcc t axis => [(t, axis)] | _ => [] end) ops.

Lemma run_state st ops :
  snd (run N finv fint zero nv st ops) = acc_all N st (calls_of ops).
Proof.
  revert st. induction ops as [|o ops IH]; intros st; [reflexivity|].
  simpl run. destruct (step N finv fint zero nv st o) as [ob st'] eqn:Es.
  specialize (IH st'). destruct (run N finv fint zero nv st' ops) as [obs st''].
  simpl snd in *. rewrite IH. destruct o as [t axis|t axis ip|]; simpl in Es.
  - simpl calls_of. simpl acc_all. destruct (accumulate N st t axis); inversion Es; subst; reflexivity.
  - inversion Es; subst. reflexivity.
  - inversion Es; subst. reflexivity.
Qed.

Lemma run_app st ops1 ops2 :
  fst (run N finv fint zero nv st (ops1 ++ ops2))
  = fst (run N finv fint zero nv st ops1)
    ++ fst (run N finv fint zero nv (acc_all N st (calls_of ops1)) ops2).
Proof.
  revert st. induction ops1 as [|o ops IH]; intros st; [reflexivity|].
  simpl app. simpl run. destruct (step N finv fint zero nv st o) as [ob st'] eqn:Es.
  specialize (IH st').
  destruct (run N finv fint zero nv st' (ops ++ ops2)) as [obs1 s1].
  destruct (run N finv fint zero nv st' ops) as [obs2 s2].
  simpl fst in *. rewrite IH. simpl. f_equal. f_equal. f_equal.
  destruct o as [t axis|t axis ip|]; simpl in Es.
  - simpl calls_of. simpl acc_all. destruct (accumulate N st t axis); inversion Es; subst; reflexivity.
  - inversion Es; subst. reflexivity.
  - inversion Es; subst. reflexivity.
Qed.

(* what an apply call observes at any point of any history: apply on the state produced by
   the accumulate calls that precede it (earlier apply / have_stats calls are irrelevant) *)
Lemma run_observes_apply st ops t axis ip rest :
  nth (length ops) (fst (run N finv fint zero nv st (ops ++ OpApp t axis ip :: rest))) (ObHave false)
  = ObApp (apply N finv fint zero nv (acc_all N st (calls_of ops)) t axis ip).
Proof.
  rewrite run_app.
  assert (Hl : length (fst (run N finv fint zero nv st ops)) = length ops).
  { clear. revert st. induction ops as [|o ops IH]; intros st; [reflexivity|].
    simpl run. destruct (step N finv fint zero nv st o) as [ob st'].
    specialize (IH st'). destruct (run N finv fint zero nv st' ops). simpl in *. lia. }
  rewrite app_nth2 by lia. rewrite Hl, Nat.sub_diag.
  simpl run. destruct (run N finv fint zero nv _ rest). reflexivity.
Qed.

Lemma run_observes_have st ops rest :
  nth (length ops) (fst (run N finv fint zero nv st (ops ++ OpHave :: rest))) (ObHave false)
  = ObHave (have_stats N (acc_all N st (calls_of ops))).
Proof.
  rewrite run_app.
  assert (Hl : length (fst (run N finv fint zero nv st ops)) = length ops).
  { clear. revert st. induction ops as [|o ops IH]; intros st; [reflexivity|].
    simpl run. destruct (step N finv fint zero nv st o) as [ob st'].
    specialize (IH st'). destruct (run N finv fint zero nv st' ops). simpl in *. lia. }
  rewrite app_nth2 by lia. rewrite Hl, Nat.sub_diag.
  simpl run. destruct (run N finv fint zero nv _ rest). reflexivity.
Qed.
End RunFacts.

End Generic.
