(* C16 - the real-number instance: the code's own final expression
   x * scales - mean * scales  with  scales = 1 / v ** 0.5, the meaning of the
   executable model's pairs, and mean 0 / variance 1 of a locally standardised tensor. *)
From Coq Require Import ZArith List Bool Lia Arith Reals Lra Field QArith Qcanon.
From Verif Require Import C16.Model C16.ListFacts C16.Proofs.
Import ListNotations.
Open Scope R_scope.

Definition r_scale (ov : option R) : R := match ov with Some v => 1 / sqrt v | None => 1 end.

Lemma fin_R_ten_scale x m ov : fin_R_ten x m ov = (x - m) * r_scale ov.
Proof.
  destruct ov as [v|]; unfold fin_R_ten, kpt_out_norm, kpt_out_plain, r_scale; cbv zeta; ring.
Qed.

Lemma fin_R_vec_scale x m ov : fin_R_vec x m ov = (x - m) * r_scale ov.
Proof.
  destruct ov as [v|]; unfold fin_R_vec, kpv_out_norm, kpv_out_plain, r_scale; cbv zeta; ring.
Qed.

(* apply_formula: x * s - mean * s is (x - mean) / sqrt v, resp. x - mean *)
Lemma fin_R_ten_value x m (ov : option R) :
  fin_R_ten x m ov = match ov with Some v => (x - m) / sqrt v | None => x - m end.
Proof. rewrite fin_R_ten_scale. destruct ov; unfold r_scale; [unfold Rdiv|]; ring. Qed.

Lemma fin_R_vec_value x m (ov : option R) :
  fin_R_vec x m ov = match ov with Some v => (x - m) / sqrt v | None => x - m end.
Proof. rewrite fin_R_vec_scale. destruct ov; unfold r_scale; [unfold Rdiv|]; ring. Qed.

(* the pair (x - mean, v) of the executable model means (x - mean) / sqrt v *)
Lemma fin_R_is_pair_value x m (ov : option R) :
  fin_R_ten x m ov = pair_value (fin_pair RNum x m ov) /\
  fin_R_vec x m ov = pair_value (fin_pair RNum x m ov).
Proof.
  rewrite fin_R_ten_value, fin_R_vec_value. unfold pair_value, fin_pair. simpl.
  destruct ov; split; try reflexivity; rewrite sqrt_1; field.
Qed.

(* what veff does over R *)
Lemma veff_R nv v :
  veff RNum nv v = if nv then Some (if r_isclose v 0 then 1 else v) else None.
Proof. reflexivity. Qed.

Lemma fin_R_veff x m nv v :
  fin_R_ten x m (veff RNum nv v)
  = if nv then (if r_isclose v 0 then x - m else (x - m) / sqrt v) else x - m.
Proof.
  rewrite fin_R_ten_value, veff_R. destruct nv; auto.
  destruct (r_isclose v 0); auto. rewrite sqrt_1. field.
Qed.

Lemma fin_R_vec_veff x m nv v :
  fin_R_vec x m (veff RNum nv v)
  = if nv then (if r_isclose v 0 then x - m else (x - m) / sqrt v) else x - m.
Proof.
  rewrite fin_R_vec_value, veff_R. destruct nv; auto.
  destruct (r_isclose v 0); auto. rewrite sqrt_1. field.
Qed.

(** * The variance is non-negative, so "not close to zero" means > 1e-8 > 0 *)
Lemma ksum_sq_nonneg (xs : list R) (m : R) :
  0 <= ksum RNum (map (fun x => sq RNum (x - m)) xs).
Proof.
  induction xs as [|x xs IH].
  - simpl. lra.
  - cbn [map]. rewrite (ksum_cons RNum). unfold sq at 1. cbn [nadd nmul nsub RNum].
    pose proof (Rle_0_sqr (x - m)) as H. unfold Rsqr in H. lra.
Qed.

Lemma col_var_nonneg (vs : list (list R)) f : vs <> [] -> 0 <= col_var RNum vs f.
Proof.
  intros Hne.
  assert (Hxs : comp RNum f vs <> []) by (unfold comp; destruct vs; [congruence | discriminate]).
  pose proof (centred_sq_sum RNum RNum_lawful (comp RNum f vs) Hxs) as E. cbv zeta in E.
  assert (Hl : length (comp RNum f vs) = length vs) by (unfold comp; apply map_length).
  rewrite Hl in E.
  match type of E with _ = ?r => assert (Hpos : 0 <= r) end.
  { rewrite <- E. apply ksum_sq_nonneg. }
  assert (Hn : 0 < IZR (Z.of_nat (length vs))).
  { apply IZR_lt. destruct vs; [congruence|]. simpl length. lia. }
  apply Rmult_le_reg_l with (r := IZR (Z.of_nat (length vs))); [exact Hn|].
  rewrite Rmult_0_r. exact Hpos.
Qed.

Lemma not_close_pos (vs : list (list R)) f :
  vs <> [] -> r_isclose (col_var RNum vs f) 0 = false -> 1 / 100000000 < col_var RNum vs f.
Proof.
  intros Hne Hc. pose proof (col_var_nonneg vs f Hne) as H0.
  destruct (Rle_dec (Rabs (col_var RNum vs f)) (1 / 100000000)) as [Hle|Hgt].
  - apply r_isclose_0 in Hle. congruence.
  - rewrite Rabs_right in Hgt by lra. lra.
Qed.

Lemma scale_plain (c : R) : 1 * 1 * c = c.
Proof. ring. Qed.
Lemma scale_one (c : R) : (1 / sqrt 1) * (1 / sqrt 1) * c = c.
Proof. rewrite sqrt_1. field. Qed.
Lemma scale_sqrt (c : R) : 1 / 100000000 < c -> (1 / sqrt c) * (1 / sqrt c) * c = 1.
Proof.
  intros Hc. assert (Hs : 0 < sqrt c) by (apply sqrt_lt_R0; lra).
  assert (E : c = sqrt c * sqrt c) by (symmetry; apply sqrt_sqrt; lra).
  set (s := sqrt c) in *. clearbody s. subst c. field. lra.
Qed.

(** * local_standardize_moments *)
Lemma local_standardize_moments_R nv F (t : tensor R) axis ip :
  good_arg RNum F t axis -> takes_tensor_path (shape t) = true ->
  length (fibres RNum (view_of t axis)) <> 1%nat ->
  exists out,
    apply_R nv None t axis ip = Ok out /\ a_shape out = shape t /\
    let vs := fibres RNum (view_of t axis) in
    let ys := fibres RNum (view_of (mkT (shape t) (a_vals out) true) axis) in
    length ys = length vs /\
    forall f, (f < F)%nat ->
      col_mean RNum ys f = 0 /\
      col_var RNum ys f =
        (if nv then (if r_isclose (col_var RNum vs f) 0 then col_var RNum vs f else 1)
         else col_var RNum vs f).
Proof.
  intros G P Hn. eexists. split; [|split].
  - unfold apply_R. apply (apply_nostats_local RNum RNum_lawful fin_R_vec fin_R_ten 0 nv F); auto.
  - reflexivity.
  - intros vs ys. cbn [a_vals] in ys. split.
    + unfold ys, vs.
      pose proof (local_fibres RNum fin_R_ten nv F t axis G P (fibres RNum (view_of t axis))) as E.
      cbv zeta in E.
      etransitivity; [exact (f_equal (@length _) E) | apply map_length].
    + intros f Hf.
      destruct (local_moments RNum RNum_lawful r_scale fin_R_ten fin_R_ten_scale nv F t axis G P f Hf)
        as [Hm Hv].
      split; [exact Hm|].
      eapply eq_trans; [exact Hv|]. fold vs. rewrite veff_R.
      pose proof (good_fibres_nonempty RNum F t axis G P) as Hne. fold vs in Hne.
      destruct nv; [|exact (scale_plain _)].
      unfold vs in *. change (T RNum) with R in *.
      match goal with |- context [r_isclose ?x 0] => destruct (r_isclose x 0) eqn:Hc end.
      * exact (scale_one _).
      * exact (scale_sqrt _ (not_close_pos _ f Hne Hc)).
Qed.

(* satisfiable: a 2 x 2 tensor standardised along its last axis *)
Example local_example :
  good_arg RNum 2 (mkT [2%Z; 2%Z] [1; 2; 3; 6] true) (-1) /\
  takes_tensor_path (shape (mkT [2%Z; 2%Z] [1; 2; 3; 6] true)) = true /\
  length (fibres RNum (view_of (mkT [2%Z; 2%Z] [1; 2; 3; 6] true) (-1))) <> 1%nat.
Proof.
  split; [|split].
  - unfold good_arg, wf_tensor. cbn. repeat split; try lia; try discriminate;
      repeat constructor; lia.
  - reflexivity.
  - cbn. discriminate.
Qed.

(** * apply_formula over R: the value of every element after any history *)
Definition standardised (nv : bool) (x mean var : R) : R :=
  if nv then (if r_isclose var 0 then x - mean else (x - mean) / sqrt var) else x - mean.

Lemma apply_R_value_vector nv F calls (t : tensor R) axis ip f d :
  Forall (good_call RNum F) calls -> calls <> [] -> good_arg RNum F t axis ->
  takes_tensor_path (shape t) = false -> (f < F)%nat ->
  let vs := flat_map (vectors_of_call RNum) calls in
  exists out, apply_R nv (acc_all RNum None calls) t axis ip = Ok out /\
    nth f (a_vals out) d
    = standardised nv (nth f (data t) 0) (col_mean RNum vs f) (col_var RNum vs f).
Proof.
  intros H Hne G P Hf vs.
  destruct (apply_after_history_vector_elem RNum RNum_lawful fin_R_vec fin_R_ten 0 nv
              F calls t axis ip f d H Hne G P Hf) as (out & E & V).
  exists out. split; [exact E|]. eapply eq_trans; [exact V|]. apply fin_R_vec_veff.
Qed.

Lemma apply_R_value_tensor nv F calls (t : tensor R) axis ip o f r d :
  Forall (good_call RNum F) calls -> calls <> [] -> good_arg RNum F t axis ->
  takes_tensor_path (shape t) = true ->
  let v := view_of t axis in
  (o < v_outer v)%nat -> (f < F)%nat -> (r < v_inner v)%nat ->
  let vs := flat_map (vectors_of_call RNum) calls in
  let i := ((o * F + f) * v_inner v + r)%nat in
  exists out, apply_R nv (acc_all RNum None calls) t axis ip = Ok out /\
    nth i (a_vals out) d
    = standardised nv (nth i (data t) 0) (col_mean RNum vs f) (col_var RNum vs f).
Proof.
  intros H Hne G P v Ho Hf Hr vs i.
  destruct (apply_after_history_tensor_elem RNum RNum_lawful fin_R_vec fin_R_ten 0 nv
              F calls t axis ip o f r d H Hne G P Ho Hf Hr) as (out & E & V).
  exists out. split; [exact E|]. eapply eq_trans; [exact V|]. apply fin_R_veff.
Qed.

(* the same for every flat (C-order) index: coefficient (i / inner) mod F *)
Lemma apply_R_value_flat nv F calls (t : tensor R) axis ip i d :
  Forall (good_call RNum F) calls -> calls <> [] -> good_arg RNum F t axis ->
  takes_tensor_path (shape t) = true -> (i < length (data t))%nat ->
  let vs := flat_map (vectors_of_call RNum) calls in
  let f := ((i / v_inner (view_of t axis)) mod F)%nat in
  exists out, apply_R nv (acc_all RNum None calls) t axis ip = Ok out /\
    nth i (a_vals out) d
    = standardised nv (nth i (data t) 0) (col_mean RNum vs f) (col_var RNum vs f).
Proof.
  intros H Hne G P Hi vs f.
  destruct (apply_after_history_flat RNum RNum_lawful fin_R_vec fin_R_ten 0 nv
              F calls t axis ip i d H Hne G P Hi) as (out & E & V).
  exists out. split; [exact E|]. eapply eq_trans; [exact V|]. apply fin_R_veff.
Qed.

(** * Examples: the hypotheses of the history theorems are satisfiable (executable instance) *)
Definition ex_t1 : tensor (T QcNum) := mk_tensor [2; 2]%Z 1 [1; -2; 3; 5]%Z true.       (* two vectors, axis -1 *)
Definition ex_t2 : tensor (T QcNum) := mk_tensor [2]%Z 1 [7; 0]%Z false.                (* one vector *)
Definition ex_t3 : tensor (T QcNum) := mk_tensor [2; 3; 1]%Z 1 [7; 3; 1; 0; 5; -2]%Z false. (* three vectors, axis 0 *)

Example ex_good_calls :
  Forall (good_call QcNum 2) [(ex_t1, (-1)%Z); (ex_t2, (-1)%Z)] /\
  Forall (good_call QcNum 2) [(ex_t3, 0%Z)].
Proof.
  split; repeat constructor; unfold good_call, good_arg, wf_tensor; cbn;
    repeat split; try lia; try discriminate; repeat constructor; lia.
Qed.

(* the same three vectors, as a matrix plus a vector, or as one 3-d tensor along axis 0 *)
Definition zvecs (l : list (list Z)) : list (list (T QcNum)) := map (map (fun z => qc_of z 1)) l.

Example ex_vectors1 :
  flat_map (vectors_of_call QcNum) [(ex_t1, (-1)%Z); (ex_t2, (-1)%Z)]
  = zvecs [[1; -2]; [3; 5]; [7; 0]]%Z.
Proof. vm_compute. reflexivity. Qed.

Example ex_vectors2 :
  flat_map (vectors_of_call QcNum) [(ex_t3, 0%Z)] = zvecs (rev [[1; -2]; [3; 5]; [7; 0]]%Z).
Proof. vm_compute. reflexivity. Qed.

Example ex_same_vectors :
  Permutation.Permutation
    (flat_map (vectors_of_call QcNum) [(ex_t1, (-1)%Z); (ex_t2, (-1)%Z)])
    (flat_map (vectors_of_call QcNum) [(ex_t3, 0%Z)]).
Proof.
  rewrite ex_vectors1, ex_vectors2. unfold zvecs. apply Permutation.Permutation_map.
  apply Permutation.Permutation_rev.
Qed.

(* hence, by history_invariance, the same state (and the same transform) *)
Example ex_same_state :
  acc_all QcNum None [(ex_t1, (-1)%Z); (ex_t2, (-1)%Z)] = acc_all QcNum None [(ex_t3, 0%Z)].
Proof.
  apply (acc_all_perm QcNum QcNum_lawful 2).
  - exact (proj1 ex_good_calls).
  - exact (proj2 ex_good_calls).
  - discriminate.
  - exact I.
  - exact ex_same_vectors.
Qed.
