(* C16 - the property theorems, and nothing else.  Each is closed by [exact] of a
   lemma of Proofs.v / ProofsR.v; the axioms each depends on are printed beneath it.
   All are statements about coq/C16/Model.v, whose scalar formulas (k*_ definitions)
   are regenerated from post.py into gen/StandardizeK.v on every run.

   N ranges over every lawful number structure (field of characteristic 0, Leibniz
   equality): in particular the executable instance QcNum that the correspondence
   check runs, and the reals RNum. *)
From Coq Require Import ZArith List Bool Permutation Reals.
From Verif Require Import C16.Model C16.ListFacts C16.Proofs C16.ProofsR.
Import ListNotations.

(* the two instances used are lawful *)
Theorem instances_lawful : Lawful QcNum /\ Lawful RNum.
Proof. exact (conj QcNum_lawful RNum_lawful). Qed.
Print Assumptions instances_lawful.

(* accumulation is additive: a run of feature vectors adds its count, its sums and its
   sums of squares to the statistics matrix (starting from nothing or from any matrix
   with F + 1 columns) *)
Theorem accumulate_additive :
  forall (N : NumOps), Lawful N ->
  forall (st : option (stats N)) (F : nat) (vs : list (list (T N))),
    fits N st F -> vs <> [] -> Forall (fun v => length v = F) vs ->
    acc_vectors N st vs = Ok (Some (add_vectors N (start_stats N st F) F vs)).
Proof. exact acc_vectors_closed. Qed.
Print Assumptions accumulate_additive.

(* ... in any order *)
Theorem accumulate_perm :
  forall (N : NumOps), Lawful N ->
  forall (st : option (stats N)) (F : nat) (a b : list (list (T N))),
    fits N st F -> a <> [] -> Forall (fun v => length v = F) a -> Permutation a b ->
    acc_vectors N st a = acc_vectors N st b.
Proof. exact acc_vectors_perm. Qed.
Print Assumptions accumulate_perm.

(* one accumulate call on a tensor, along any axis, is the accumulation of its feature
   vectors one at a time (and a 1-d array is its own single feature vector) *)
Theorem tensor_eq_vectors :
  forall (N : NumOps), Lawful N ->
  forall (F : nat) (t : tensor (T N)) (axis : Z) (st : option (stats N)),
    good_arg N F t axis -> fits N st F ->
    accumulate N st t axis = acc_vectors N st (vectors_of_call N (t, axis)).
Proof. exact accumulate_eq_vectors. Qed.
Print Assumptions tensor_eq_vectors.

(* the state after ANY history of accumulate calls (vectors, tensors, any axes) holds
   exactly count / sum / sum of squares of all feature vectors the history contained *)
Theorem history_stats :
  forall (N : NumOps), Lawful N ->
  forall (F : nat) (calls : list (tensor (T N) * Z)) (st : option (stats N)),
    Forall (good_call N F) calls -> calls <> [] -> fits N st F ->
    acc_all N st calls
    = Some (add_vectors N (start_stats N st F) F (flat_map (vectors_of_call N) calls)).
Proof. exact acc_all_closed. Qed.
Print Assumptions history_stats.

(* any split or order of the same vectors - along any axis, as vectors or tensors - gives
   the same state, hence the same transform on every later input *)
Theorem history_invariance :
  forall (N : NumOps), Lawful N ->
  forall (F : nat) (h1 h2 : list (tensor (T N) * Z)) (st : option (stats N)),
    Forall (good_call N F) h1 -> Forall (good_call N F) h2 -> h1 <> [] -> fits N st F ->
    Permutation (flat_map (vectors_of_call N) h1) (flat_map (vectors_of_call N) h2) ->
    acc_all N st h1 = acc_all N st h2.
Proof. exact acc_all_perm. Qed.
Print Assumptions history_invariance.

(* apply and have_stats calls interleaved anywhere in a history do not disturb it: an apply
   observes apply on the state made by the accumulate calls before it *)
Theorem interleaving_irrelevant :
  forall (N : NumOps)
         (O : Type) (finv fint : T N -> T N -> option (T N) -> O) (zero : O) (nv : bool)
         (st : option (stats N)) (ops : list (op N)) (t : tensor (T N)) (axis : Z) (ip : bool)
         (rest : list (op N)),
    nth (length ops) (fst (run N finv fint zero nv st (ops ++ OpApp t axis ip :: rest))) (ObHave false)
    = ObApp (apply N finv fint zero nv (acc_all N st (calls_of N ops)) t axis ip).
Proof. exact run_observes_apply. Qed.
Print Assumptions interleaving_irrelevant.

Theorem have_stats_observed :
  forall (N : NumOps)
         (O : Type) (finv fint : T N -> T N -> option (T N) -> O) (zero : O) (nv : bool)
         (st : option (stats N)) (ops rest : list (op N)),
    nth (length ops) (fst (run N finv fint zero nv st (ops ++ OpHave :: rest))) (ObHave false)
    = ObHave (have_stats N (acc_all N st (calls_of N ops))).
Proof. exact run_observes_have. Qed.
Print Assumptions have_stats_observed.

(* have_stats is true after any non-empty history of good accumulate calls *)
Theorem have_stats_after_history :
  forall (N : NumOps), Lawful N ->
  forall (F : nat) (calls : list (tensor (T N) * Z)),
    Forall (good_call N F) calls -> calls <> [] -> have_stats N (acc_all N None calls) = true.
Proof. exact have_stats_after. Qed.
Print Assumptions have_stats_after_history.

(* a mismatching feature dimension raises ValueError, in accumulate and in apply;
   a rejected accumulate leaves the state alone *)
Theorem dim_mismatch_accumulate :
  forall (N : NumOps)
         (F F' : nat) (t : tensor (T N)) (axis : Z) (s : stats N),
    good_arg N F' t axis -> fits N (Some s) F -> F <> F' ->
    accumulate N (Some s) t axis = Err ValueError.
Proof. exact accumulate_mismatch. Qed.
Print Assumptions dim_mismatch_accumulate.

Theorem dim_mismatch_apply :
  forall (N : NumOps)
         (O : Type) (finv fint : T N -> T N -> option (T N) -> O) (zero : O) (nv : bool)
         (F F' : nat) (s : stats N) (t : tensor (T N)) (axis : Z) (ip : bool),
    good_arg N F' t axis -> fits N (Some s) F -> F <> F' ->
    apply N finv fint zero nv (Some s) t axis ip = Err ValueError.
Proof. exact apply_mismatch. Qed.
Print Assumptions dim_mismatch_apply.

Theorem rejected_accumulate_keeps_state :
  forall (N : NumOps)
         (st : option (stats N)) (t : tensor (T N)) (axis : Z) (e : err)
         (calls : list (tensor (T N) * Z)),
    accumulate N st t axis = Err e -> acc_all N st ((t, axis) :: calls) = acc_all N st calls.
Proof. exact acc_all_rejected. Qed.
Print Assumptions rejected_accumulate_keeps_state.

(* apply after any history: every element is finished with the exact mean and (effective)
   variance, per coefficient of the chosen axis, of ALL feature vectors accumulated so far;
   the result is float64 and is the input object only for in_place float64 input *)
Theorem apply_formula :
  forall (N : NumOps), Lawful N ->
  forall (O : Type) (finv fint : T N -> T N -> option (T N) -> O) (zero : O) (nv : bool)
         (F : nat) (calls : list (tensor (T N) * Z)) (t : tensor (T N)) (axis : Z) (ip : bool),
    Forall (good_call N F) calls -> calls <> [] -> good_arg N F t axis ->
    let vs := flat_map (vectors_of_call N) calls in
    apply N finv fint zero nv (acc_all N None calls) t axis ip
    = Ok (mkA (shape t)
              (if takes_tensor_path (shape t)
               then apply_blocks N fint (vec_params N nv vs F) (v_blocks (view_of t axis))
               else zipw (fun x p => finv x (fst p) (snd p)) (data t) (vec_params N nv vs F))
              true (ip && is_f64 t)).
Proof. exact apply_after_history. Qed.
Print Assumptions apply_formula.

(* element by element, over the reals, with the code's own final expression
   x * scales - mean * scales:  C-order element (o, f, r) of a tensor *)
Theorem apply_value_tensor :
  forall (nv : bool) (F : nat) (calls : list (tensor R * Z)) (t : tensor R) (axis : Z) (ip : bool)
         (o f r : nat) (d : R),
    Forall (good_call RNum F) calls -> calls <> [] -> good_arg RNum F t axis ->
    takes_tensor_path (shape t) = true ->
    let v := view_of t axis in
    (o < v_outer v)%nat -> (f < F)%nat -> (r < v_inner v)%nat ->
    let vs := flat_map (vectors_of_call RNum) calls in
    let i := ((o * F + f) * v_inner v + r)%nat in
    exists out, apply_R nv (acc_all RNum None calls) t axis ip = Ok out /\
      nth i (a_vals out) d
      = standardised nv (nth i (data t) 0%R) (col_mean RNum vs f) (col_var RNum vs f).
Proof. exact apply_R_value_tensor. Qed.
Print Assumptions apply_value_tensor.

(* the same for every flat index i of the tensor: its coefficient is (i / inner) mod F,
   i.e. the statistics are broadcast along the chosen axis *)
Theorem apply_value_flat :
  forall (nv : bool) (F : nat) (calls : list (tensor R * Z)) (t : tensor R) (axis : Z) (ip : bool)
         (i : nat) (d : R),
    Forall (good_call RNum F) calls -> calls <> [] -> good_arg RNum F t axis ->
    takes_tensor_path (shape t) = true -> (i < length (data t))%nat ->
    let vs := flat_map (vectors_of_call RNum) calls in
    let f := ((i / v_inner (view_of t axis)) mod F)%nat in
    exists out, apply_R nv (acc_all RNum None calls) t axis ip = Ok out /\
      nth i (a_vals out) d
      = standardised nv (nth i (data t) 0%R) (col_mean RNum vs f) (col_var RNum vs f).
Proof. exact apply_R_value_flat. Qed.
Print Assumptions apply_value_flat.

Theorem apply_value_vector :
  forall (nv : bool) (F : nat) (calls : list (tensor R * Z)) (t : tensor R) (axis : Z) (ip : bool)
         (f : nat) (d : R),
    Forall (good_call RNum F) calls -> calls <> [] -> good_arg RNum F t axis ->
    takes_tensor_path (shape t) = false -> (f < F)%nat ->
    let vs := flat_map (vectors_of_call RNum) calls in
    exists out, apply_R nv (acc_all RNum None calls) t axis ip = Ok out /\
      nth f (a_vals out) d
      = standardised nv (nth f (data t) 0%R) (col_mean RNum vs f) (col_var RNum vs f).
Proof. exact apply_R_value_vector. Qed.
Print Assumptions apply_value_vector.

(* the pair (x - mean, v) returned by the executable model means (x - mean) / sqrt v,
   which is what the code's expression computes *)
Theorem pair_is_code_value :
  forall (x m : R) (ov : option R),
    fin_R_ten x m ov = pair_value (fin_pair RNum x m ov) /\
    fin_R_vec x m ov = pair_value (fin_pair RNum x m ov).
Proof. exact fin_R_is_pair_value. Qed.
Print Assumptions pair_is_code_value.

(* whatever the state and the input: a returned array is float64, has the input's shape,
   and is the input object exactly when in_place was requested on float64 input
   (otherwise the input is untouched) *)
Theorem apply_result_float64_input_untouched :
  forall (N : NumOps)
         (O : Type) (finv fint : T N -> T N -> option (T N) -> O) (zero : O) (nv : bool)
         (st : option (stats N)) (t : tensor (T N)) (axis : Z) (ip : bool) (out : @applied O),
    apply N finv fint zero nv st t axis ip = Ok out ->
    a_f64 out = true /\ a_aliases_input out = ip && is_f64 t /\ a_shape out = shape t.
Proof. exact apply_result_dtype. Qed.
Print Assumptions apply_result_float64_input_untouched.

(* without statistics: a single vector cannot be standardised *)
Theorem apply_without_stats_single :
  forall (N : NumOps)
         (O : Type) (finv fint : T N -> T N -> option (T N) -> O) (zero : O) (nv : bool)
         (F : nat) (t : tensor (T N)) (axis : Z) (ip : bool),
    good_arg N F t axis ->
    (takes_tensor_path (shape t) = true -> length (fibres N (view_of t axis)) = 1%nat) ->
    apply N finv fint zero nv None t axis ip
    = if nv then Err ValueError
      else Ok (mkA (shape t) (map (fun _ => zero) (data t)) true (ip && is_f64 t)).
Proof. exact apply_nostats_single. Qed.
Print Assumptions apply_without_stats_single.

(* without statistics: a tensor is standardised with its own per-coefficient statistics *)
Theorem apply_without_stats_local :
  forall (N : NumOps), Lawful N ->
  forall (O : Type) (finv fint : T N -> T N -> option (T N) -> O) (zero : O) (nv : bool)
         (F : nat) (t : tensor (T N)) (axis : Z) (ip : bool),
    good_arg N F t axis -> takes_tensor_path (shape t) = true ->
    length (fibres N (view_of t axis)) <> 1%nat ->
    apply N finv fint zero nv None t axis ip
    = Ok (mkA (shape t)
              (apply_blocks N fint (vec_params N nv (fibres N (view_of t axis)) F)
                            (v_blocks (view_of t axis)))
              true (ip && is_f64 t)).
Proof. exact apply_nostats_local. Qed.
Print Assumptions apply_without_stats_local.

(* ... so that each coefficient of the result has mean 0 over the other axes and, with
   norm_var, variance 1 - unless its variance is within 1e-8 of zero, in which case it
   is only centred.  Over the reals, for the code's own expression. *)
Theorem local_standardize_moments :
  forall (nv : bool) (F : nat) (t : tensor R) (axis : Z) (ip : bool),
    good_arg RNum F t axis -> takes_tensor_path (shape t) = true ->
    length (fibres RNum (view_of t axis)) <> 1%nat ->
    exists out,
      apply_R nv None t axis ip = Ok out /\ a_shape out = shape t /\
      let vs := fibres RNum (view_of t axis) in
      let ys := fibres RNum (view_of (mkT (shape t) (a_vals out) true) axis) in
      length ys = length vs /\
      forall f, (f < F)%nat ->
        col_mean RNum ys f = 0%R /\
        col_var RNum ys f =
          (if nv then (if r_isclose (col_var RNum vs f) 0 then col_var RNum vs f else 1%R)
           else col_var RNum vs f).
Proof. exact local_standardize_moments_R. Qed.
Print Assumptions local_standardize_moments.

(* the variance E[x^2] - mean^2 of real data is never negative, so "not close to zero"
   means > 1e-8 and the square root is taken of a positive number *)
Theorem variance_positive_unless_close :
  forall (vs : list (list R)) (f : nat),
    vs <> [] -> r_isclose (col_var RNum vs f) 0 = false -> (1 / 100000000 < col_var RNum vs f)%R.
Proof. exact not_close_pos. Qed.
Print Assumptions variance_positive_unless_close.
