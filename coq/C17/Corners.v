(* C17 - corner cases of the code as it is, outside the property's preconditions
   (reserved or empty archive keys, explicit dtype on a raw file, raw path without
   force_as, Kaldi-table-like path).  Witnesses by evaluation of the model on
   integers; each is replayed on the implementation by harness/c17.py.  NOT proof
   obligations: if the code is changed so that one of them stops holding, the
   check only logs it. *)
From Coq Require Import List String Bool ZArith Arith.
From Verif Require Import lib.C17_Base gen.StatsIO C17.Model C17.Spec C17.Proofs.
Import ListNotations.
Open Scope bool_scope.
Open Scope list_scope.

(* key "allow_pickle": save succeeds, nothing is stored, reload fails *)
Lemma key_allow_pickle_lost :
  exists fs', zsave fs_empty wit_obj "s.npz" (Some "allow_pickle"%string) false true = Ok fs' /\
              fs' "s.npz"%string = Some (FNpz false []) /\
              zinit fs' (Some "s.npz"%string) true (Kw None (Some "allow_pickle"%string) None) = Raise KeyError.
Proof. eexists. repeat split. Qed.

(* key "file": TypeError *)
Lemma key_file_typeerror :
  zsave fs_empty wit_obj "s.npz" (Some "file"%string) false true = Raise TypeError.
Proof. reflexivity. Qed.

(* key "": stored, but a load by that key looks for arr_0 *)
Lemma key_empty_not_reloadable :
  exists fs', zsave fs_empty wit_obj "s.npz" (Some ""%string) false true = Ok fs' /\
              zinit fs' (Some "s.npz"%string) true (Kw None (Some ""%string) None) = Raise KeyError.
Proof. eexists. split; reflexivity. Qed.

(* raw file loaded with an explicit dtype: no reshape, the object is unusable *)
Lemma raw_explicit_dtype_unusable :
  exists fs' o', zsave fs_empty wit_obj "stats.bin" None false true = Ok fs' /\
                 zinit fs' (Some "stats.bin"%string) true (Kw (Some DF64) None (Some FaFile)) = Ok o' /\
                 have_stats ZC o' = Raise IndexError.
Proof. eexists. eexists. repeat split. Qed.

(* a raw path without force_as="file": the type cannot be inferred *)
Lemma raw_needs_force_as :
  exists fs', zsave fs_empty wit_obj "stats.bin" None false true = Ok fs' /\
              zinit fs' (Some "stats.bin"%string) true kw_none = Raise IOError.
Proof. eexists. split; reflexivity. Qed.

(* a path that looks like a Kaldi table: what was saved as .npy is not read as .npy *)
Lemma table_prefix_not_npy :
  exists fs', zsave fs_empty wit_obj "ark:s.npy" None false true = Ok fs' /\
              fs' "ark:s.npy"%string = Some (FNpy wit_stats) /\
              init ZC no_reinterp id_cast (fun _ => true) never fs' (Some "ark:s.npy"%string) true kw_none
              <> Ok wit_obj.
Proof. eexists. repeat split. discriminate. Qed.
