(* C17 - executable instance of the model for the correspondence check
   (definitions only; evaluated by vm_compute on generated case files).

   Stored numbers: [VI z] a float that holds the integer z exactly (classified
   by integer arithmetic), [VG id t i n] any other float, identified by the
   harness (one id per bit pattern) together with the answers numpy gave for
   bool(x), isclose(round(x), x), x >= 0.  The re-interpretation oracle is a
   finite table the harness measured on the actual bytes. *)
From Coq Require Import List String Bool ZArith Arith.
From Verif Require Import lib.C17_Base gen.StatsIO C17.Model.
Import ListNotations.
Open Scope bool_scope.
Open Scope list_scope.

Inductive cv := VI (z : Z) | VG (id : Z) (t i n : bool).

Definition CV : VClass cv := {|
  v_truthy := fun v => match v with VI z => negb (Z.eqb z 0) | VG _ t _ _ => t end;
  v_intlike := fun v => match v with VI _ => true | VG _ _ i _ => i end;
  v_nonneg := fun v => match v with VI z => Z.leb 0 z | VG _ _ _ n => n end
|}.

Definition cv_poison := VG (-1) false false false.
Definition cv_add (a b : cv) : cv := match a, b with VI x, VI y => VI (x + y) | _, _ => cv_poison end.
Definition cv_mul (a b : cv) : cv := match a, b with VI x, VI y => VI (x * y) | _, _ => cv_poison end.

Definition cv_eqb (a b : cv) : bool :=
  match a, b with
  | VI x, VI y => Z.eqb x y
  | VG x t i n, VG y t' i' n' => Z.eqb x y && Bool.eqb t t' && Bool.eqb i i' && Bool.eqb n n'
  | _, _ => false
  end.

Fixpoint list_eqb {A} (eqb : A -> A -> bool) (a b : list A) : bool :=
  match a, b with
  | [], [] => true
  | x :: a', y :: b' => eqb x y && list_eqb eqb a' b'
  | _, _ => false
  end.

Definition option_eqb {A} (eqb : A -> A -> bool) (a b : option A) : bool :=
  match a, b with Some x, Some y => eqb x y | None, None => true | _, _ => false end.

Definition arr_eqb (a b : arr cv) : bool :=
  match a, b with
  | Arr1 d l, Arr1 d' l' => dtype_eqb d d' && list_eqb cv_eqb l l'
  | Arr2 d r0 r1, Arr2 d' r0' r1' => dtype_eqb d d' && list_eqb cv_eqb r0 r0' && list_eqb cv_eqb r1 r1'
  | _, _ => false
  end.

Definition entry_eqb (a b : string * arr cv) : bool := String.eqb (fst a) (fst b) && arr_eqb (snd a) (snd b).

(* ---- oracles of one case ---- *)

Definition reinterp_table := list (dtype * list cv * list cv).

Fixpoint reinterp_lookup (t : reinterp_table) (d : dtype) (l : list cv) : list cv :=
  match t with
  | [] => [cv_poison]
  | (d', k, v) :: t' => if dtype_eqb d d' && list_eqb cv_eqb k l then v else reinterp_lookup t' d l
  end.

Definition reinterp_c (t : reinterp_table) (d1 d2 : dtype) (l : list cv) : list cv := reinterp_lookup t d1 l.
Definition cast_c (d1 d2 : dtype) (v : cv) : cv := v.

(* ---- operations and what is observed after each ---- *)

Inductive op :=
| ONew (i : nat) (nv : bool)
| OLoad (i : nat) (p : string) (nv : bool) (kw : kwargs)
| OAcc (i : nat) (xs : list (list cv))
| OSave (i : nat) (p : string) (key : option string) (compress overwrite : bool)
| OWrite (p : string) (f : file cv)
| ODel (p : string)
| OApply (i : nat) (x : list Z).

Inductive obs :=
| BExn (e : exn)
| BObj (s : option (arr cv))
| BFile (f : option (file cv))
| BRaw (v64 v32 : list cv)           (* implementation side only: a raw file's two views *)
| BApply (r : list (Z * Z))
| BAny.                              (* implementation side only: not compared *)

Record case := Case {
  c_tables : list string;            (* paths for which the Kaldi-table regex matches *)
  c_sfext : list string;             (* paths whose extension soundfile claims *)
  c_reinterp : reinterp_table;
  c_ops : list (op * obs)
}.

Record state := St { s_fs : fsys cv; s_objs : nat -> option (obj cv) }.

Definition set_obj (s : state) (i : nat) (o : obj cv) : state :=
  St (s_fs s) (fun j => if Nat.eqb j i then Some o else s_objs s j).

Definition arr_to_z (a : arr cv) : option (arr Z) :=
  let conv := fix conv (l : list cv) : option (list Z) :=
    match l with
    | [] => Some []
    | VI z :: t => match conv t with Some r => Some (z :: r) | None => None end
    | _ :: _ => None
    end in
  match a with
  | Arr1 d l => match conv l with Some l' => Some (Arr1 d l') | None => None end
  | Arr2 d r0 r1 => match conv r0, conv r1 with Some a0, Some a1 => Some (Arr2 d a0 a1) | _, _ => None end
  end.

Definition obj_to_z (o : obj cv) : option (obj Z) :=
  match o_stats o with
  | None => Some (Obj None (o_norm_var o))
  | Some a => match arr_to_z a with Some a' => Some (Obj (Some a') (o_norm_var o)) | None => None end
  end.

Section Run.
  Variable c : case.
  Definition is_table_c (p : string) := str_mem p (c_tables c).
  Definition sf_ext_c (p : string) := str_mem p (c_sfext c).

  Definition step (s : state) (o : op) : state * obs :=
    match o with
    | ONew i nv =>
      match init CV (reinterp_c (c_reinterp c)) cast_c is_table_c sf_ext_c (s_fs s) None nv kw_none with
      | Ok ob => (set_obj s i ob, BObj (o_stats ob))
      | Raise e => (s, BExn e)
      end
    | OLoad i p nv kw =>
      match init CV (reinterp_c (c_reinterp c)) cast_c is_table_c sf_ext_c (s_fs s) (Some p) nv kw with
      | Ok ob => (set_obj s i ob, BObj (o_stats ob))
      | Raise e => (s, BExn e)
      end
    | OAcc i xs =>
      match s_objs s i with
      | None => (s, BExn OtherError)
      | Some ob =>
        match accumulate (VI 0) (VI 1) cv_add cv_mul ob xs with
        | Ok ob' => (set_obj s i ob', BObj (o_stats ob'))
        | Raise e => (s, BExn e)
        end
      end
    | OSave i p key cmp ow =>
      match s_objs s i with
      | None => (s, BExn OtherError)
      | Some ob =>
        match save CV (s_fs s) ob p key cmp ow with
        | Ok fs' => (St fs' (s_objs s), BFile (fs' p))
        | Raise e => (s, BExn e)
        end
      end
    | OWrite p f => (St (fs_set (s_fs s) p f) (s_objs s), BFile (Some f))
    | ODel p => (St (fs_del (s_fs s) p) (s_objs s), BFile None)
    | OApply i x =>
      match s_objs s i with
      | None => (s, BExn OtherError)
      | Some ob =>
        match obj_to_z ob with
        | None => (s, BAny)
        | Some oz => match apply_z oz x with Ok r => (s, BApply r) | Raise e => (s, BExn e) end
        end
      end
    end.

  Fixpoint run (s : state) (ops : list op) : list obs :=
    match ops with
    | [] => []
    | o :: t => let '(s', b) := step s o in b :: run s' t
    end.
End Run.

(* does the model's observation agree with the implementation's?  A model
   exception of class OtherError stands for "some exception, class outside the
   model"; apply results are compared numerically by the harness. *)
Definition obs_match (model impl : obs) : bool :=
  match model, impl with
  | _, BAny => true
  | BAny, _ => true
  | BExn OtherError, BExn _ => true
  | BExn e, BExn e' => exn_eqb e e'
  | BObj s, BObj s' => option_eqb arr_eqb s s'
  | BFile (Some (FRaw DF64 l)), BRaw v64 _ => list_eqb cv_eqb l v64
  | BFile (Some (FRaw DF32 l)), BRaw _ v32 => list_eqb cv_eqb l v32
  | BFile None, BFile None => true
  | BFile (Some (FNpy a)), BFile (Some (FNpy a')) => arr_eqb a a'
  | BFile (Some (FNpz cmp es)), BFile (Some (FNpz cmp' es')) =>
    (match es with [] => true | _ => Bool.eqb cmp cmp' end) && list_eqb entry_eqb es es'
  | BApply _, BApply _ => true
  | _, _ => false
  end.

Definition init_state : state := St fs_empty (fun _ => None).

Definition run_case (c : case) : list obs := run c init_state (map fst (c_ops c)).

Fixpoint mism (k : nat) (model impl : list obs) : list nat :=
  match model, impl with
  | m :: mt, i :: it => if obs_match m i then mism (S k) mt it else k :: mism (S k) mt it
  | [], [] => []
  | _, _ => [k]
  end.

Definition check_case (c : case) : list nat := mism 0 (run_case c) (map snd (c_ops c)).

Fixpoint check_cases (k : nat) (cs : list case) : list (nat * list nat) :=
  match cs with
  | [] => []
  | c :: t => match check_case c with [] => check_cases (S k) t | l => (k, l) :: check_cases (S k) t end
  end.

(* the model's apply results, for the harness to compare numerically:
   (case, op index, code, pairs) with code 0 = returned, 1.. = exception class *)
Definition exn_code (e : exn) : Z :=
  match e with
  | ValueError => 1 | IOError => 2 | TypeError => 3 | KeyError => 4 | IndexError => 5
  | AttributeError => 6 | ImportError => 7 | OtherError => 8
  end%Z.

Fixpoint applies_of (ci : nat) (k : nat) (ops : list op) (model : list obs) : list (nat * nat * Z * list (Z * Z)) :=
  match ops, model with
  | OApply _ _ :: ot, BApply r :: mt => (ci, k, 0%Z, r) :: applies_of ci (S k) ot mt
  | OApply _ _ :: ot, BExn e :: mt => (ci, k, exn_code e, []) :: applies_of ci (S k) ot mt
  | _ :: ot, _ :: mt => applies_of ci (S k) ot mt
  | _, _ => []
  end.

Fixpoint applies (k : nat) (cs : list case) : list (nat * nat * Z * list (Z * Z)) :=
  match cs with
  | [] => []
  | c :: t => applies_of k 0 (map fst (c_ops c)) (run_case c) ++ applies (S k) t
  end.

(* direct evaluation of the translated path inference *)
Definition infer_code (tb sf : bool) (p : string) : Z :=
  match infer_force_as tb sf p with
  | Ok FaTable => 0 | Ok FaSoundfile => 1 | Ok FaWav => 2 | Ok FaHdf5 => 3 | Ok FaNpy => 4
  | Ok FaNpz => 5 | Ok FaPt => 6 | Ok FaSph => 7 | Ok FaKaldi => 8 | Ok FaFile => 9
  | Raise _ => (-1)
  end%Z.

Definition target_code (p : string) : Z :=
  match save_target p with TNpy => 0 | TNpz => 1 | TRaw => 2 end%Z.
