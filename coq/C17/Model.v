(* C17 - model of Standardize.save / Standardize(rfilename=...) (post.py) and of the
   part of read_signal they use (util.py).  Definitions only.

   The decision tables and conditions come from gen/StatsIO.v, which is
   regenerated from the source on every run; this file supplies the control
   skeleton around them (statement by statement after post.py:100-159, 308-362
   and util.py:266-309, 338-510) and the oracles:

     * the file system is a finite map from path strings to typed files
       ([FNpy] what np.save wrote, [FNpz] the entries of a zip archive in order
       plus whether they are deflated, [FRaw] the items tofile wrote and their
       item type);
     * numpy's codecs are assumed faithful: np.load returns what np.save /
       np.savez stored, np.fromfile with the writer's item type returns the items
       written; reading raw bytes through the *other* float type is the opaque
       function [reinterp]; astype is the opaque function [cast];
     * stored numbers are of an abstract type V; the only things the code asks
       about a number are the three predicates of [VClass] (lib/C17_Base.v).   *)
From Coq Require Import List String Bool ZArith Arith Lia.
From Verif Require Import lib.C17_Base gen.StatsIO.
Import ListNotations.
Open Scope bool_scope.

(* ---- arrays, files, objects ------------------------------------------------ *)

(* a 1-D array, or a 2-row matrix (the only 2-D shape the model needs) *)
Inductive arr (V : Type) :=
| Arr1 (dt : dtype) (l : list V)
| Arr2 (dt : dtype) (r0 r1 : list V).
Arguments Arr1 {V} dt l.
Arguments Arr2 {V} dt r0 r1.

Inductive file (V : Type) :=
| FNpy (a : arr V)
| FNpz (compressed : bool) (es : list (string * arr V))
| FRaw (dt : dtype) (l : list V).
Arguments FNpy {V} a.
Arguments FNpz {V} compressed es.
Arguments FRaw {V} dt l.

Definition fsys (V : Type) := string -> option (file V).
Definition fs_empty {V} : fsys V := fun _ => None.
Definition fs_set {V} (fs : fsys V) (p : string) (f : file V) : fsys V :=
  fun q => if String.eqb q p then Some f else fs q.
Definition fs_del {V} (fs : fsys V) (p : string) : fsys V :=
  fun q => if String.eqb q p then None else fs q.

(* the part of a Standardize object that save / apply / accumulate read *)
Record obj (V : Type) := Obj { o_stats : option (arr V); o_norm_var : bool }.
Arguments Obj {V} o_stats o_norm_var.
Arguments o_stats {V} o.
Arguments o_norm_var {V} o.

(* what np.load returns *)
Inductive loaded (V : Type) := LArr (a : arr V) | LNpz (es : list (string * arr V)).
Arguments LArr {V} a.
Arguments LNpz {V} es.

(* keyword arguments of Standardize(rfilename, norm_var, **kwargs) that
   read_signal interprets *)
Record kwargs := Kw { kw_dtype : option dtype; kw_key : option string; kw_force_as : option force_as }.
Definition kw_none := Kw None None None.
Definition kw_empty (k : kwargs) : bool :=
  match kw_dtype k, kw_key k, kw_force_as k with None, None, None => true | _, _, _ => false end.

(* ---- small list helpers ------------------------------------------------------ *)

Fixpoint last_opt {A} (l : list A) : option A :=
  match l with [] => None | [x] => Some x | _ :: t => last_opt t end.

Fixpoint lookup {A} (k : string) (es : list (string * A)) : option A :=
  match es with
  | [] => None
  | (k', v) :: t => if String.eqb k' k then Some v else lookup k t
  end.

(* Python's  d[k] = v  on an insertion-ordered dict *)
Fixpoint dict_set {A} (k : string) (v : A) (es : list (string * A)) : list (string * A) :=
  match es with
  | [] => [(k, v)]
  | (k', v') :: t => if String.eqb k' k then (k, v) :: t else (k', v') :: dict_set k v t
  end.

Fixpoint zip_with {A B C} (f : A -> B -> C) (a : list A) (b : list B) : list C :=
  match a, b with x :: a', y :: b' => f x y :: zip_with f a' b' | _, _ => [] end.

(* ---- the default archive key: first unused "arr_<n>" ------------------------- *)

Definition arr_key (n : nat) : string := fmt_key npz_key_prefix npz_key_suffix (npz_key_start + n).

(* for key in ("arr_{}".format(v) for v in count(0)): if key not in array: break
   - fuelled; [None] = fuel exhausted (Proofs.v: never, with fuel > number of keys) *)
Fixpoint first_unused (fuel k : nat) (keys : list string) : option string :=
  match fuel with
  | O => None
  | S f => if str_mem (arr_key k) keys then first_unused f (S k) keys else Some (arr_key k)
  end.

(* np.savez(file, *args, allow_pickle=True, **kwds) called as savez(path, **entries):
   an entry named like one of savez's own parameters is not stored *)
Definition savez_positional_name : string := "file".
Definition savez_keyword_name : string := "allow_pickle".

Section Model.
  Context {V : Type}.
  Variable C : VClass V.
  (* raw bytes of items of type d1 seen as items of type d2 (d1 <> d2) *)
  Variable reinterp : dtype -> dtype -> list V -> list V.
  (* ndarray.astype *)
  Variable cast : dtype -> dtype -> V -> V.
  (* re.match(r"^(ark|scp)(,\w+)*:", path) and
     path.rsplit(".", maxsplit=1)[-1] in config.SOUNDFILE_SUPPORTED_FILE_TYPES *)
  Variable is_table : string -> bool.
  Variable sf_ext : string -> bool.

  Definition a_dt (a : arr V) : dtype := match a with Arr1 d _ => d | Arr2 d _ _ => d end.
  Definition a_flat (a : arr V) : list V := match a with Arr1 _ l => l | Arr2 _ r0 r1 => r0 ++ r1 end.
  Definition a_ndim (a : arr V) : nat := match a with Arr1 _ _ => 1 | Arr2 _ _ _ => 2 end.

  (* self._stats[0, -1] *)
  Definition count_of (a : arr V) : res V :=
    match a with
    | Arr1 _ _ => Raise IndexError
    | Arr2 _ r0 _ => match last_opt r0 with Some c => Ok c | None => Raise IndexError end
    end.

  (* have_stats:  self._stats is not None and self._stats[0, -1]  (as a truth value) *)
  Definition have_stats (o : obj V) : res bool :=
    match o_stats o with
    | None => Ok false
    | Some a => c <- count_of a ;; Ok (v_truthy C c)
    end.

  (* ---- numpy codecs (oracles) ---- *)

  Definition np_load (fs : fsys V) (p : string) : res (loaded V) :=
    match fs p with
    | None => Raise IOError                       (* FileNotFoundError *)
    | Some (FNpy a) => Ok (LArr a)
    | Some (FNpz _ es) => Ok (LNpz es)
    | Some (FRaw _ []) => Raise OtherError        (* EOFError *)
    | Some (FRaw _ _) => Raise ValueError         (* neither zip nor npy magic: refused as a pickle *)
    end.

  Definition savez (fs : fsys V) (p : string) (es : list (string * arr V)) (compressed : bool)
    : res (fsys V) :=
    if str_mem savez_positional_name (map fst es) then Raise TypeError
    else Ok (fs_set fs p (FNpz compressed
               (filter (fun e => negb (String.eqb (fst e) savez_keyword_name)) es))).

  Definition astype (d : option dtype) (a : arr V) : res (arr V) :=
    match d with
    | None => Ok a
    | Some (DKaldi _) => Raise TypeError          (* data type not understood *)
    | Some d' =>
      Ok (match a with
          | Arr1 d0 l => Arr1 d' (map (cast d0 d') l)
          | Arr2 d0 r0 r1 => Arr2 d' (map (cast d0 d') r0) (map (cast d0 d') r1)
          end)
    end.

  Definition fromfile (fs : fsys V) (p : string) (d : option dtype) : res (arr V) :=
    match d with
    | Some (DKaldi _) => Raise TypeError
    | _ =>
      let d' := match d with Some x => x | None => DF64 end in
      match fs p with
      | None => Raise IOError
      | Some (FRaw fdt l) => Ok (Arr1 d' (if dtype_eqb d' fdt then l else reinterp fdt d' l))
      | Some _ => Raise OtherError                 (* header bytes of an npy / zip file: not modelled *)
      end
    end.

  (* ---- Standardize.save (post.py:308-362) ---- *)

  (* array = dict(); if not overwrite: try: array = dict(np.load(wfilename)) except IOError: pass *)
  Definition npz_existing (fs : fsys V) (wfilename : string) (overwrite : bool)
    : res (list (string * arr V)) :=
    if npz_load_existing overwrite then
      match np_load fs wfilename with
      | Ok (LNpz es) => Ok es
      | Ok (LArr _) => Raise OtherError            (* dict(ndarray): not modelled *)
      | Raise e => if caught_by npz_load_caught e then Ok [] else Raise e
      end
    else Ok [].

  (* if key is None: for key in ("arr_{}".format(v) for v in count(0)): if key not in array: break *)
  Definition npz_pick_key (key : option string) (array : list (string * arr V)) : res string :=
    if npz_use_default_key (match key with None => true | Some _ => false end) then
      match first_unused (S (List.length array)) 0 (map fst array) with
      | Some k => Ok k
      | None => Raise OtherError                   (* fuel; never (Proofs.v) *)
      end
    else match key with Some k => Ok k | None => Raise TypeError end.

  Definition save (fs : fsys V) (o : obj V) (wfilename : string) (key : option string)
             (compress overwrite : bool) : res (fsys V) :=
    hs <- have_stats o ;;
    match save_guard hs with
    | Some e => Raise e
    | None =>
      match o_stats o with
      | None => Raise OtherError                   (* only without the guard *)
      | Some stats =>
        match save_target wfilename with
        | TNpy => Ok (fs_set fs wfilename (FNpy stats))
        | TNpz =>
          array <- npz_existing fs wfilename overwrite ;;
          key' <- npz_pick_key key array ;;
          savez fs wfilename (dict_set key' stats array) (npz_compressed compress)
        | TRaw => Ok (fs_set fs wfilename (FRaw (a_dt stats) (a_flat stats)))
        end
      end
    end.

  (* ---- read_signal restricted to the numpy readers (util.py) ---- *)

  (* if key: data = archive[key]  else: data = archive["arr_0"] *)
  Definition archive_key (key : option string) : option string :=
    match archive_entry (match key with Some _ => true | None => false end)
                        (match key with Some s => str_truthy s | None => false end) with
    | Some k0 => Some k0
    | None => key
    end.

  Definition read_signal (fs : fsys V) (p : string) (d : option dtype) (key : option string)
             (fa : option force_as) : res (arr V) :=
    f <- (match fa with Some f => Ok f | None => infer_force_as (is_table p) (sf_ext p) p end) ;;
    match reader_of f with
    | RNumpyBinary =>
      x <- np_load fs p ;;
      match x with
      | LArr a => astype d a
      | LNpz _ => match d with Some _ => Raise AttributeError | None => Raise OtherError end
      end
    | RNumpyArchive =>
      x <- np_load fs p ;;
      match x with
      | LNpz es =>
        match archive_key key with
        | None => Raise KeyError
        | Some k' => match lookup k' es with Some a => astype d a | None => Raise KeyError end
        end
      | LArr _ => Raise IndexError
      end
    | RFromfile => fromfile fs p d
    | ROther => Raise OtherError                    (* decoders outside the model *)
    end.

  (* ---- Standardize._sanitize_stats (post.py:127-154) ---- *)

  (* ndarray.reshape((2, -1)) of a flat array *)
  Definition reshape2 (l : list V) : option (list V * list V) :=
    let n := List.length l in
    if Nat.even n then Some (firstn (Nat.div2 n) l, skipn (Nat.div2 n) l) else None.

  (* the try block: new value of _stats, and [valid] *)
  Definition sanitize_try (a : arr V) : res (arr V * bool) :=
    match reshape2 (a_flat a) with
    | None => if caught_by sanitize_caught ValueError then Ok (a, false) else Raise ValueError
    | Some (r0, r1) =>
      let a' := Arr2 (a_dt a) r0 r1 in
      match last_opt r0 with
      | Some c => Ok (a', stats_valid C c r0 r1)
      | None => if caught_by sanitize_caught IndexError then Ok (a', false) else Raise IndexError
      end
    end.

  Definition sanitize_step (checked : bool) (a : arr V) (again : arr V -> res (arr V)) : res (arr V) :=
    tv <- sanitize_try a ;;
    let '(a', valid) := tv in
    match sanitize_decision valid checked with
    | SKeep => Ok a'
    | SRaise e => Raise e
    | SRetry =>
      vc <- sanitize_reinterpret (a_dt a') ;;
      let '(view, castto) := vc in
      again (Arr1 castto (map (cast view castto) (reinterp (a_dt a') view (a_flat a'))))
    end.

  (* the recursion is at most two deep in the code as it is; a third round is
     an error of the model's own (OtherError) *)
  Definition sanitize (a : arr V) : res (arr V) :=
    sanitize_step false a (fun b => sanitize_step true b (fun _ => Raise OtherError)).

  (* ---- Standardize.__init__ (post.py:100-125) ---- *)

  Fixpoint probe (fs : fsys V) (p : string) (kw : kwargs) (ds : list dtype) : res (option (arr V)) :=
    match ds with
    | [] => Ok None
    | d :: t =>
      match read_signal fs p (Some d) (kw_key kw) (kw_force_as kw) with
      | Ok a => Ok (Some a)
      | Raise e => if caught_by probe_caught e then probe fs p kw t else Raise e
      end
    end.

  Definition init (fs : fsys V) (rfilename : option string) (norm_var : bool) (kw : kwargs)
    : res (obj V) :=
    match rfilename with
    | Some p =>
      match kw_dtype kw with
      | Some d =>
        a <- read_signal fs p (Some d) (kw_key kw) (kw_force_as kw) ;; Ok (Obj (Some a) norm_var)
      | None =>
        r <- probe fs p kw probe_dtypes ;;
        match r with
        | None => Raise probe_fail_exn
        | Some a =>
          if Nat.eqb (a_ndim a) init_sanitize_ndim
          then (a' <- sanitize a ;; Ok (Obj (Some a') norm_var))
          else Ok (Obj (Some a) norm_var)
        end
      end
    | None => if kw_empty kw then Ok (Obj None norm_var) else Raise init_stray_kwargs_exn
    end.

  (* ---- accumulate (post.py:161-213), for the data the statistics come from ---- *)

  Variable vzero vone : V.
  Variable vadd vmul : V -> V -> V.

  (* _accumulate_vector *)
  Definition acc_vec (o : obj V) (x : list V) : res (obj V) :=
    let n := List.length x in
    st <- (match o_stats o with
           | None => Ok (DF64, repeat vzero (S n), repeat vzero (S n))
           | Some (Arr2 dt r0 r1) =>
             if Nat.eqb (List.length r0) (S n) then Ok (dt, r0, r1) else Raise ValueError
           | Some (Arr1 _ _) => Raise IndexError
           end) ;;
    let '(dt, r0, r1) := st in
    match last_opt r0, last_opt r1 with
    | Some c, Some z =>
      Ok (Obj (Some (Arr2 dt
                 (zip_with vadd (removelast r0) x ++ [vadd c vone])
                 (zip_with vadd (removelast r1) (map (fun v => vmul v v) x) ++ [z])))
              (o_norm_var o))
    | _, _ => Raise IndexError
    end.

  (* accumulate(features): every feature vector of the tensor, one by one (the
     tensor path adds the same numbers in another order); an empty tensor or
     empty vectors are rejected *)
  Fixpoint acc_all (o : obj V) (xs : list (list V)) : res (obj V) :=
    match xs with
    | [] => Ok o
    | x :: t => o' <- acc_vec o x ;; acc_all o' t
    end.

  Definition accumulate (o : obj V) (xs : list (list V)) : res (obj V) :=
    match xs with
    | [] => Raise ValueError
    | x :: _ => if Nat.eqb (List.length x) 0 then Raise ValueError else acc_all o xs
    end.

End Model.

(* ---- integers as stored numbers ---------------------------------------------- *)

Definition ZC : VClass Z := {|
  v_truthy := fun z => negb (Z.eqb z 0);
  v_intlike := fun _ => true;
  v_nonneg := fun z => Z.leb 0 z
|}.

(* apply() on a vector, integer-coded: the i-th output is num_i / sqrt(den_i)
   (post.py:215-249).  [None] stands for an output the integer coding cannot
   express (count <= 0). *)
Definition apply_z (o : obj Z) (x : list Z) : res (list (Z * Z)) :=
  let n := List.length x in
  dimok <- (match o_stats o with
            | None => Ok true
            | Some (Arr2 _ r0 _) => Ok (Nat.eqb (List.length r0) (S n))
            | Some (Arr1 _ _) => Raise IndexError
            end) ;;
  if negb dimok then Raise ValueError else
  hs <- have_stats ZC o ;;
  if hs then
    match o_stats o with
    | Some (Arr2 _ r0 r1) =>
      match last_opt r0 with
      | Some c =>
        Ok (zip_with (fun xi sq =>
                        let '(s, q) := sq in
                        let v := (c * q - s * s)%Z in
                        ((c * xi - s)%Z,
                         if o_norm_var o then (if Z.eqb v 0 then (c * c)%Z else v) else (c * c)%Z))
                     x (combine (removelast r0) (removelast r1)))
      | None => Raise IndexError
      end
    | _ => Raise IndexError
    end
  else if o_norm_var o then Raise ValueError
  else Ok (map (fun _ => (0%Z, 1%Z)) x).
