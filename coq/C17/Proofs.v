(* C17 - lemmas about the model of Standardize.save / Standardize(rfilename=...).
   Everything is over an arbitrary type V of stored numbers with the three
   classification predicates of VClass, arbitrary re-interpretation / cast
   oracles (cast d d = id) and arbitrary path oracles, unless a lemma says Z. *)
From Coq Require Import List String Ascii Bool ZArith Arith Lia FinFun.
From Verif Require Import lib.C17_Base gen.StatsIO C17.Model C17.Spec.
Import ListNotations.
Open Scope bool_scope.
Open Scope list_scope.

(* ------------------------------------------------------------------------ *)
(* A. the default archive key                                                 *)

Lemma arr_key_inj : forall a b, arr_key a = arr_key b -> a = b.
Proof. intros a b H. apply fmt_key_inj in H. lia. Qed.

Lemma first_unused_none : forall f k keys,
  first_unused f k keys = None -> forall j, (k <= j < k + f)%nat -> In (arr_key j) keys.
Proof.
  induction f; intros k keys H j Hj; [lia|].
  simpl in H. destruct (str_mem (arr_key k) keys) eqn:E; [|discriminate].
  destruct (Nat.eq_dec j k) as [->|Hne].
  - now apply str_mem_In.
  - apply (IHf (S k)); [exact H|lia].
Qed.

Lemma map_arr_key_nodup : forall n k, NoDup (map arr_key (seq k n)).
Proof.
  intros n k. apply FinFun.Injective_map_NoDup; [|apply seq_NoDup].
  intros a b. apply arr_key_inj.
Qed.

(* the loop always finds a key when given one more round than there are keys *)
Lemma first_unused_total : forall keys k,
  exists s, first_unused (S (List.length keys)) k keys = Some s.
Proof.
  intros keys k. destruct (first_unused (S (List.length keys)) k keys) eqn:E; [eauto|].
  exfalso. pose proof (first_unused_none _ _ _ E) as H.
  assert (Hincl : incl (map arr_key (seq k (S (List.length keys)))) keys).
  { intros x Hx. apply in_map_iff in Hx. destruct Hx as [j [<- Hj]].
    apply in_seq in Hj. apply H. lia. }
  apply NoDup_incl_length in Hincl; [|apply map_arr_key_nodup].
  rewrite map_length, seq_length in Hincl. lia.
Qed.

(* ... and it is the first unused one *)
Lemma first_unused_spec : forall f k keys s,
  first_unused f k keys = Some s ->
  exists j, s = arr_key j /\ (k <= j)%nat /\ ~ In s keys /\
            forall i, (k <= i < j)%nat -> In (arr_key i) keys.
Proof.
  induction f; intros k keys s H; [discriminate|].
  simpl in H. destruct (str_mem (arr_key k) keys) eqn:E.
  - destruct (IHf _ _ _ H) as [j [Hs [Hk [Hn Hall]]]].
    exists j. repeat split; try assumption; [lia|].
    intros i Hi. destruct (Nat.eq_dec i k) as [->|Hne]; [now apply str_mem_In|apply Hall; lia].
  - inversion H; subst. exists k. repeat split; [lia| |intros; lia].
    intro Hin. apply str_mem_In in Hin. congruence.
Qed.

(* a default key never collides with a parameter name of np.savez *)
Lemma arr_key_not_reserved : forall n,
  arr_key n <> savez_positional_name /\ arr_key n <> savez_keyword_name.
Proof.
  intro n. unfold arr_key, fmt_key, npz_key_prefix, savez_positional_name, savez_keyword_name.
  simpl. split; intro H; inversion H.
Qed.

Lemma arr_key_truthy : forall n, str_truthy (arr_key n) = true.
Proof. intro n. unfold arr_key, fmt_key, npz_key_prefix. reflexivity. Qed.

(* ------------------------------------------------------------------------ *)
(* B. dict assignment, lookup, filter                                         *)

Section Dict.
  Context {A : Type}.

  Lemma lookup_dict_set_same : forall k (v : A) es, lookup k (dict_set k v es) = Some v.
  Proof.
    induction es as [|[k' v'] t IH]; simpl.
    - now rewrite String.eqb_refl.
    - destruct (String.eqb k' k) eqn:E; simpl; [now rewrite String.eqb_refl|now rewrite E].
  Qed.

  Lemma lookup_dict_set_other : forall k k' (v : A) es,
    k' <> k -> lookup k' (dict_set k v es) = lookup k' es.
  Proof.
    intros k k' v es Hne. induction es as [|[k0 v0] t IH]; simpl.
    - destruct (String.eqb k k') eqn:E; [apply String.eqb_eq in E; congruence|reflexivity].
    - destruct (String.eqb k0 k) eqn:E; simpl.
      + apply String.eqb_eq in E; subst k0.
        destruct (String.eqb k k') eqn:E'; [apply String.eqb_eq in E'; congruence|reflexivity].
      + destruct (String.eqb k0 k'); [reflexivity|exact IH].
  Qed.

  Lemma keys_dict_set : forall k (v : A) es,
    map fst (dict_set k v es) =
    if str_mem k (map fst es) then map fst es else map fst es ++ [k].
  Proof.
    intros k v. induction es as [|[k0 v0] t IH]; simpl; [reflexivity|].
    rewrite (String.eqb_sym k k0). destruct (String.eqb k0 k) eqn:E; simpl.
    - apply String.eqb_eq in E. now subst.
    - rewrite IH. unfold str_mem. destruct (existsb (String.eqb k) (map fst t)); reflexivity.
  Qed.

  Lemma in_keys_dict_set : forall k (v : A) es x,
    In x (map fst (dict_set k v es)) <-> x = k \/ In x (map fst es).
  Proof.
    intros k v es x. rewrite keys_dict_set. destruct (str_mem k (map fst es)) eqn:E.
    - apply str_mem_In in E. split; [tauto|]. intros [->|H]; assumption.
    - rewrite in_app_iff. simpl. split; intros H; [destruct H as [H|[H|[]]]; auto|].
      destruct H as [->|H]; auto.
  Qed.

  (* when the key is new the old entries come first, unchanged, and the new one last *)
  Lemma dict_set_new : forall k (v : A) es,
    ~ In k (map fst es) -> dict_set k v es = es ++ [(k, v)].
  Proof.
    intros k v. induction es as [|[k0 v0] t IH]; simpl; intro H; [reflexivity|].
    destruct (String.eqb k0 k) eqn:E.
    - apply String.eqb_eq in E. exfalso. apply H. now left.
    - f_equal. apply IH. intro Hin. apply H. now right.
  Qed.

  Lemma filter_none : forall (f : string * A -> bool) es,
    (forall e, In e es -> f e = true) -> filter f es = es.
  Proof.
    intros f. induction es as [|e t IH]; simpl; intro H; [reflexivity|].
    rewrite (H e (or_introl eq_refl)). f_equal. apply IH. intros; apply H; now right.
  Qed.
End Dict.

(* ------------------------------------------------------------------------ *)
(* C. suffix dispatch: what save writes is what read_signal infers             *)

Lemma ends_with_excl : forall a b s,
  ends_with a s = true ->
  ends_with_l (list_ascii_of_string a) (list_ascii_of_string b) = false ->
  ends_with_l (list_ascii_of_string b) (list_ascii_of_string a) = false ->
  ends_with b s = false.
Proof.
  intros a b s Ha Hab Hba. unfold ends_with in *.
  destruct (ends_with_l (list_ascii_of_string b) (list_ascii_of_string s)) eqn:Hb; [|reflexivity].
  exfalso.
  destruct (Nat.le_ge_cases (List.length (list_ascii_of_string a)) (List.length (list_ascii_of_string b))) as [L|L].
  - rewrite (ends_with_l_nested _ _ _ Ha Hb L) in Hab. discriminate.
  - rewrite (ends_with_l_nested _ _ _ Hb Ha L) in Hba. discriminate.
Qed.

Ltac excl H := rewrite (ends_with_excl _ _ _ H) by reflexivity.

Lemma infer_of_target_npy : forall tb sf p,
  tb = false -> sf = false -> save_target p = TNpy -> infer_force_as tb sf p = Ok FaNpy.
Proof.
  intros tb sf p -> -> H. unfold save_target in H.
  destruct (ends_with ".npy" p) eqn:E; [|destruct (ends_with ".npz" p); discriminate].
  unfold infer_force_as. excl E. excl E. now rewrite E.
Qed.

Lemma infer_of_target_npz : forall tb sf p,
  tb = false -> sf = false -> save_target p = TNpz -> infer_force_as tb sf p = Ok FaNpz.
Proof.
  intros tb sf p -> -> H. unfold save_target in H.
  destruct (ends_with ".npy" p) eqn:E0; [discriminate|].
  destruct (ends_with ".npz" p) eqn:E; [|discriminate].
  unfold infer_force_as. excl E. excl E. now rewrite E0, E.
Qed.

(* ------------------------------------------------------------------------ *)
(* D. save / load round trips                                                  *)

Lemma last_opt_app {A} : forall (l : list A) x, last_opt (l ++ [x]) = Some x.
Proof.
  induction l as [|a t IH]; intro x; [reflexivity|].
  simpl. destruct (t ++ [x]) eqn:E; [destruct t; discriminate|]. rewrite <- E. apply IH.
Qed.

Lemma last_opt_some_nonempty {A} : forall (l : list A) c, last_opt l = Some c -> l <> [].
Proof. intros [|] c H; [discriminate|congruence]. Qed.

Lemma div2_double : forall n, Nat.div2 (n + n) = n.
Proof. intro n. replace (n + n)%nat with (2 * n)%nat by lia. apply Nat.div2_double. Qed.

Lemma even_double : forall n, Nat.even (n + n) = true.
Proof. intro n. replace (n + n)%nat with (2 * n)%nat by lia. apply Nat.even_spec. now exists n. Qed.

Section RoundTrip.
  Context {V : Type}.
  Variable C : VClass V.
  Variable reinterp : dtype -> dtype -> list V -> list V.
  Variable cast : dtype -> dtype -> V -> V.
  Variable is_table sf_ext : string -> bool.
  Hypothesis cast_same : forall d v, cast d d v = v.

  Notation save := (save C).
  Notation init := (init C reinterp cast is_table sf_ext).
  Notation read_signal := (read_signal reinterp cast is_table sf_ext).
  Notation have_stats := (have_stats C).

  (* reshape((2, -1)) undoes the row-major flattening of a 2 x n matrix *)
  Lemma reshape2_app : forall r0 r1 : list V,
    List.length r0 = List.length r1 -> reshape2 (r0 ++ r1) = Some (r0, r1).
  Proof.
    intros r0 r1 H. unfold reshape2. rewrite app_length, <- H, even_double, div2_double.
    rewrite firstn_app, Nat.sub_diag, firstn_all. simpl. rewrite app_nil_r.
    rewrite skipn_app, Nat.sub_diag, skipn_all. reflexivity.
  Qed.

  Lemma map_cast_same : forall d l, map (cast d d) l = l.
  Proof. intros d l. rewrite <- (map_id l) at 2. apply map_ext. apply cast_same. Qed.

  Lemma astype_same : forall a, astype cast (Some (a_dt a)) a = Ok a \/ exists s, a_dt a = DKaldi s.
  Proof.
    intros [d l|d r0 r1]; simpl; destruct d; try (right; eexists; reflexivity); left;
      now rewrite ?map_cast_same.
  Qed.

  Notation resolves := (resolves is_table sf_ext).
  Notation saveable := (saveable C).
  Notation good_stats := (good_stats C).

  Lemma good_saveable : forall a nv, good_stats a -> saveable (Obj (Some a) nv) a.
  Proof.
    intros a nv (r0 & r1 & c & -> & _ & Hc & Ht & _). split; [reflexivity|].
    unfold Model.have_stats. simpl. rewrite Hc. simpl. now rewrite Ht.
  Qed.

  Lemma saveable_shape : forall o a, saveable o a -> exists d r0 r1, a = Arr2 d r0 r1.
  Proof.
    intros o a [Hs Hh]. unfold Model.have_stats in Hh. rewrite Hs in Hh.
    destruct a as [d l|d r0 r1]; [discriminate|eauto].
  Qed.

  (* -- no statistics: ValueError, whatever the target -- *)
  Lemma save_no_stats : forall fs o p key c ow,
    have_stats o = Ok false -> save fs o p key c ow = Raise ValueError.
  Proof. intros fs o p key c ow H. unfold Model.save. rewrite H. reflexivity. Qed.

  Lemma save_fresh_object : forall fs nv p key c ow,
    save fs (Obj None nv) p key c ow = Raise ValueError.
  Proof. intros. now apply save_no_stats. Qed.

  Lemma save_zero_count : forall fs d r0 r1 cnt nv p key c ow,
    last_opt r0 = Some cnt -> v_truthy C cnt = false ->
    save fs (Obj (Some (Arr2 d r0 r1)) nv) p key c ow = Raise ValueError.
  Proof.
    intros. apply save_no_stats. unfold Model.have_stats. simpl. rewrite H. simpl. now rewrite H0.
  Qed.

  (* -- .npy -- *)
  Lemma save_npy : forall fs o a p key c ow,
    saveable o a -> save_target p = TNpy ->
    save fs o p key c ow = Ok (fs_set fs p (FNpy a)).
  Proof.
    intros fs o a p key c ow [Hs Hh] Ht. unfold Model.save. rewrite Hh, Hs, Ht. reflexivity.
  Qed.

  Lemma fs_set_same : forall (fs : fsys V) p f, fs_set fs p f p = Some f.
  Proof. intros. unfold fs_set. now rewrite String.eqb_refl. Qed.

  Lemma fs_set_other : forall (fs : fsys V) p f q, q <> p -> fs_set fs p f q = fs q.
  Proof.
    intros. unfold fs_set. destruct (String.eqb q p) eqn:E; [apply String.eqb_eq in E; congruence|reflexivity].
  Qed.

  Lemma read_npy : forall fs p a kw,
    fs p = Some (FNpy a) -> resolves kw p FaNpy -> a_dt a = DF64 ->
    read_signal fs p (Some DF64) (kw_key kw) (kw_force_as kw) = Ok a.
  Proof.
    intros fs p a kw Hf Hr Hd.
    assert (E : astype cast (Some DF64) a = Ok a).
    { rewrite <- Hd. destruct (astype_same a) as [E|[s E]]; [exact E|congruence]. }
    unfold Model.read_signal, resolves in *.
    destruct (kw_force_as kw) as [f|]; [subst f|rewrite Hr]; simpl;
      unfold np_load; rewrite Hf; simpl; exact E.
  Qed.

  Lemma load_npy : forall fs p a kw nv,
    fs p = Some (FNpy a) -> resolves kw p FaNpy -> kw_dtype kw = None ->
    a_dt a = DF64 -> a_ndim a = 2%nat ->
    init fs (Some p) nv kw = Ok (Obj (Some a) nv).
  Proof.
    intros fs p a kw nv Hf Hr Hk Hd Hn. unfold Model.init. rewrite Hk.
    unfold probe_dtypes. simpl. rewrite (read_npy _ _ _ _ Hf Hr Hd). simpl.
    rewrite Hn. reflexivity.
  Qed.

  Lemma roundtrip_npy : forall fs o a p key c ow kw nv,
    saveable o a -> a_dt a = DF64 -> save_target p = TNpy ->
    resolves kw p FaNpy -> kw_dtype kw = None ->
    exists fs', save fs o p key c ow = Ok fs' /\
                init fs' (Some p) nv kw = Ok (Obj (Some a) nv).
  Proof.
    intros fs o a p key c ow kw nv Hs Hd Ht Hr Hk. eexists. split; [apply save_npy; eassumption|].
    destruct (saveable_shape _ _ Hs) as (d & r0 & r1 & ->).
    apply load_npy; auto. apply fs_set_same.
  Qed.

  (* -- raw binary -- *)
  Lemma save_raw : forall fs o a p key c ow,
    saveable o a -> save_target p = TRaw ->
    save fs o p key c ow = Ok (fs_set fs p (FRaw (a_dt a) (a_flat a))).
  Proof.
    intros fs o a p key c ow [Hs Hh] Ht. unfold Model.save. rewrite Hh, Hs, Ht. reflexivity.
  Qed.

  (* the sanity check accepts good statistics at once: no re-interpretation *)
  Lemma sanitize_good : forall r0 r1 c,
    List.length r0 = List.length r1 -> last_opt r0 = Some c ->
    v_intlike C c = true -> v_nonneg C c = true -> forallb (v_nonneg C) r1 = true ->
    sanitize C reinterp cast (Arr1 DF64 (r0 ++ r1)) = Ok (Arr2 DF64 r0 r1).
  Proof.
    intros r0 r1 c Hl Hc Hi Hn Ha. unfold sanitize, sanitize_step, sanitize_try. simpl.
    rewrite (reshape2_app _ _ Hl), Hc. simpl. unfold stats_valid. rewrite Hi, Hn, Ha. reflexivity.
  Qed.

  Lemma load_raw : forall fs p r0 r1 c kw nv,
    fs p = Some (FRaw DF64 (r0 ++ r1)) ->
    kw_force_as kw = Some FaFile -> kw_dtype kw = None ->
    List.length r0 = List.length r1 -> last_opt r0 = Some c ->
    v_intlike C c = true -> v_nonneg C c = true -> forallb (v_nonneg C) r1 = true ->
    init fs (Some p) nv kw = Ok (Obj (Some (Arr2 DF64 r0 r1)) nv).
  Proof.
    intros fs p r0 r1 c kw nv Hf Hfa Hk Hl Hc Hi Hn Ha. unfold Model.init. rewrite Hk.
    unfold probe_dtypes. simpl. unfold Model.read_signal. rewrite Hfa. simpl.
    unfold fromfile. rewrite Hf. simpl.
    rewrite (sanitize_good _ _ _ Hl Hc Hi Hn Ha). reflexivity.
  Qed.

  Lemma roundtrip_raw : forall fs a p key c ow kw nv nv',
    good_stats a -> save_target p = TRaw ->
    kw_force_as kw = Some FaFile -> kw_dtype kw = None ->
    exists fs', save fs (Obj (Some a) nv') p key c ow = Ok fs' /\
                init fs' (Some p) nv kw = Ok (Obj (Some a) nv).
  Proof.
    intros fs a p key c ow kw nv nv' Hg Ht Hfa Hk.
    pose proof (good_saveable a nv' Hg) as Hs.
    destruct Hg as (r0 & r1 & cnt & -> & Hl & Hc & _ & Hi & Hn & Ha).
    eexists. split; [apply save_raw; eassumption|]. simpl.
    eapply load_raw; eauto. apply fs_set_same.
  Qed.
End RoundTrip.

(* ------------------------------------------------------------------------ *)
(* E. archives: key defaulting, overwrite, repeatability                      *)

Lemma entries_ok_iff : forall {V} (es : list (string * arr V)),
  entries_ok es <-> ~ In savez_positional_name (map fst es) /\ ~ In savez_keyword_name (map fst es).
Proof.
  intros V es. unfold entries_ok, entries_okb. rewrite andb_true_iff, !negb_true_iff.
  rewrite <- !not_true_iff_false, !str_mem_In. tauto.
Qed.

Lemma key_ok_iff : forall k,
  key_ok (Some k) <-> k <> savez_positional_name /\ k <> savez_keyword_name.
Proof.
  intro k. unfold key_ok, key_okb. rewrite andb_true_iff, !negb_true_iff.
  rewrite <- !not_true_iff_false, !String.eqb_eq. tauto.
Qed.


Section Npz.
  Context {V : Type}.
  Variable C : VClass V.
  Variable reinterp : dtype -> dtype -> list V -> list V.
  Variable cast : dtype -> dtype -> V -> V.
  Variable is_table sf_ext : string -> bool.
  Hypothesis cast_same : forall d v, cast d d v = v.

  Notation save := (save C).
  Notation init := (init C reinterp cast is_table sf_ext).
  Notation read_signal := (read_signal reinterp cast is_table sf_ext).
  Notation resolves := (resolves is_table sf_ext).
  Notation saveable := (saveable C).
  Notation good_stats := (good_stats C).
  Notation fs_wf := (@fs_wf V).
  Notation run_saves := (run_saves C).
  Notation req_ok := (req_ok C).

  Lemma savez_ok : forall (fs : fsys V) p es c,
    entries_ok es -> savez fs p es c = Ok (fs_set fs p (FNpz c es)).
  Proof.
    intros fs p es c H. apply entries_ok_iff in H. destruct H as [H1 H2]. unfold savez.
    destruct (str_mem savez_positional_name (map fst es)) eqn:E.
    - apply str_mem_In in E. contradiction.
    - rewrite filter_none; [reflexivity|].
      intros [k v] Hin. simpl. destruct (String.eqb k savez_keyword_name) eqn:E'; [|reflexivity].
      apply String.eqb_eq in E'. subst k. exfalso. apply H2.
      apply in_map_iff. exists (savez_keyword_name, v). auto.
  Qed.

  Lemma entries_ok_nil : entries_ok (@nil (string * arr V)).
  Proof. reflexivity. Qed.

  Lemma entries_ok_dict_set : forall k (a : arr V) es,
    entries_ok es -> k <> savez_positional_name -> k <> savez_keyword_name ->
    entries_ok (dict_set k a es).
  Proof.
    intros k a es H Hp Hk. apply entries_ok_iff in H. destruct H as [H1 H2].
    apply entries_ok_iff. split; intro Hin; apply in_keys_dict_set in Hin;
      destruct Hin as [Hin|Hin]; auto.
  Qed.

  Lemma npz_key_not_reserved : forall key (base : list (string * arr V)),
    key_ok key ->
    npz_key key base <> savez_positional_name /\ npz_key key base <> savez_keyword_name.
  Proof.
    intros [k|] base H; [now apply key_ok_iff|]. unfold npz_key.
    destruct (first_unused_total (map fst base) 0) as [s Hs]. rewrite map_length in Hs.
    rewrite Hs. destruct (first_unused_spec _ _ _ _ Hs) as [j [-> _]].
    apply arr_key_not_reserved.
  Qed.

  Lemma npz_base_ok : forall (fs : fsys V) p ow, npz_ready fs p ow -> entries_ok (npz_base fs p ow).
  Proof.
    intros fs p ow H. unfold npz_base. destruct ow; [apply entries_ok_nil|].
    destruct H as [H|[H|(c0 & es & H & Hok)]]; [discriminate| |]; rewrite H;
      [apply entries_ok_nil|exact Hok].
  Qed.

  (* what the archive branch writes *)
  Lemma save_npz : forall fs o a p key c ow,
    saveable o a -> save_target p = TNpz -> npz_ready fs p ow -> key_ok key ->
    save fs o p key c ow =
    Ok (fs_set fs p (FNpz c (dict_set (npz_key key (npz_base fs p ow)) a (npz_base fs p ow)))).
  Proof.
    intros fs o a p key c ow [Hs Hh] Ht Hr Hk. unfold Model.save. rewrite Hh, Hs, Ht. simpl.
    pose proof (npz_base_ok _ _ _ Hr) as Hb.
    pose proof (npz_key_not_reserved key (npz_base fs p ow) Hk) as [Hn1 Hn2].
    assert (Hload : npz_existing fs p ow = Ok (npz_base fs p ow)).
    { unfold npz_existing, npz_load_existing, npz_base, np_load. destruct ow; simpl; [reflexivity|].
      destruct Hr as [Hr|[Hr|(c0 & es & Hr & _)]]; [discriminate| |]; rewrite Hr; reflexivity. }
    rewrite Hload. simpl.
    assert (Hkey : npz_pick_key key (npz_base fs p ow) = Ok (npz_key key (npz_base fs p ow))).
    { unfold npz_pick_key, npz_use_default_key, npz_key. destruct key as [k|]; [reflexivity|].
      destruct (first_unused_total (map fst (npz_base fs p ow)) 0) as [s Hs'].
      rewrite map_length in Hs'. now rewrite Hs'. }
    rewrite Hkey. simpl. rewrite savez_ok by (now apply entries_ok_dict_set).
    unfold npz_compressed. destruct c; reflexivity.
  Qed.

  (* -- the overwrite flag -- *)

  (* overwrite=True: the archive holds exactly the new entry *)
  Lemma npz_overwrite_true : forall fs o a p key c,
    saveable o a -> save_target p = TNpz -> key_ok key ->
    save fs o p key c true =
    Ok (fs_set fs p (FNpz c [(match key with Some k => k | None => arr_key 0 end, a)])).
  Proof.
    intros fs o a p key c Hs Ht Hk.
    rewrite (save_npz fs o a p key c true Hs Ht (or_introl eq_refl) Hk).
    unfold npz_base, npz_key. simpl. destruct key; reflexivity.
  Qed.

  (* overwrite=False on an existing archive: every other entry is kept, with its
     value, in its place; the new entry replaces the one of the same key or is
     appended; a defaulted key is the first unused arr_<n> and replaces nothing *)
  Lemma npz_overwrite_false : forall fs o a p key c c0 es,
    saveable o a -> save_target p = TNpz -> key_ok key ->
    fs p = Some (FNpz c0 es) -> entries_ok es ->
    exists k es',
      save fs o p key c false = Ok (fs_set fs p (FNpz c es')) /\
      es' = dict_set k a es /\
      lookup k es' = Some a /\
      (forall k', k' <> k -> lookup k' es' = lookup k' es) /\
      match key with
      | Some k0 => k = k0
      | None => exists n, k = arr_key n /\ ~ In k (map fst es) /\
                          (forall i, (i < n)%nat -> In (arr_key i) (map fst es)) /\
                          es' = es ++ [(k, a)]
      end.
  Proof.
    intros fs o a p key c c0 es Hs Ht Hk Hf Hok.
    assert (Hr : npz_ready fs p false) by (right; right; eauto).
    pose proof (save_npz fs o a p key c false Hs Ht Hr Hk) as E.
    assert (Hb : npz_base fs p false = es) by (unfold npz_base; now rewrite Hf).
    rewrite Hb in E. exists (npz_key key es), (dict_set (npz_key key es) a es).
    split; [exact E|]. split; [reflexivity|]. split; [apply lookup_dict_set_same|].
    split; [intros; now apply lookup_dict_set_other|].
    destruct key as [k0|]; [reflexivity|]. unfold npz_key.
    destruct (first_unused_total (map fst es) 0) as [s Hs']. rewrite map_length in Hs'. rewrite Hs'.
    destruct (first_unused_spec _ _ _ _ Hs') as [j [-> [_ [Hn Hall]]]].
    exists j. repeat split; auto; [intros; apply Hall; lia|now apply dict_set_new].
  Qed.

  (* overwrite=False and no file yet: same as a fresh archive *)
  Lemma npz_overwrite_false_missing : forall fs o a p key c,
    saveable o a -> save_target p = TNpz -> key_ok key -> fs p = None ->
    save fs o p key c false =
    Ok (fs_set fs p (FNpz c [(match key with Some k => k | None => arr_key 0 end, a)])).
  Proof.
    intros fs o a p key c Hs Ht Hk Hf.
    rewrite (save_npz fs o a p key c false Hs Ht (or_intror (or_introl Hf)) Hk).
    unfold npz_base, npz_key. rewrite Hf. simpl. destruct key; reflexivity.
  Qed.

  (* -- loading an archive entry -- *)
  Lemma archive_key_given : forall k, str_truthy k = true -> archive_key (Some k) = Some k.
  Proof. intros k H. unfold archive_key, archive_entry. rewrite H. reflexivity. Qed.

  Lemma archive_key_default : archive_key None = Some (arr_key 0).
  Proof. reflexivity. Qed.

  Lemma load_npz : forall fs p c es k a kw nv,
    fs p = Some (FNpz c es) -> resolves kw p FaNpz -> kw_dtype kw = None ->
    lookup k es = Some a -> a_dt a = DF64 -> a_ndim a = 2%nat ->
    (kw_key kw = Some k /\ str_truthy k = true) \/ (k = arr_key 0 /\ kw_key kw = None) ->
    init fs (Some p) nv kw = Ok (Obj (Some a) nv).
  Proof.
    intros fs p c es k a kw nv Hf Hr Hk Hl Hd Hn Hkey.
    assert (E : astype cast (Some DF64) a = Ok a).
    { destruct a as [d l|d r0 r1]; simpl in *; subst; now rewrite ?map_cast_same. }
    assert (K : archive_key (kw_key kw) = Some k).
    { destruct Hkey as [[-> Ht]|[-> ->]]; [now apply archive_key_given|apply archive_key_default]. }
    unfold Model.init. rewrite Hk.
    assert (P : exists t, probe_dtypes = DF64 :: t) by (eexists; reflexivity).
    destruct P as [t ->]. simpl.
    assert (R : read_signal fs p (Some DF64) (kw_key kw) (kw_force_as kw) = Ok a).
    { unfold Model.read_signal, Spec.resolves in *.
      assert (R' : reader_of FaNpz = RNumpyArchive) by reflexivity.
      destruct (kw_force_as kw) as [f|]; [subst f|rewrite Hr]; cbn [bind]; rewrite R';
        unfold np_load; rewrite Hf; cbn [bind]; rewrite K, Hl; exact E. }
    rewrite R. simpl. rewrite Hn. reflexivity.
  Qed.

  (* save then load by the key the entry was stored under *)
  Lemma roundtrip_npz : forall fs o a p key c ow kw nv,
    saveable o a -> a_dt a = DF64 -> save_target p = TNpz ->
    npz_ready fs p ow -> key_ok key ->
    resolves kw p FaNpz -> kw_dtype kw = None ->
    kw_key kw = Some (npz_key key (npz_base fs p ow)) ->
    str_truthy (npz_key key (npz_base fs p ow)) = true ->
    exists fs', save fs o p key c ow = Ok fs' /\
                init fs' (Some p) nv kw = Ok (Obj (Some a) nv).
  Proof.
    intros fs o a p key c ow kw nv Hs Hd Ht Hr Hk Hres Hdt Hkw Htr.
    eexists. split; [apply save_npz; eassumption|].
    destruct (saveable_shape C _ _ Hs) as (d & r0 & r1 & ->).
    eapply load_npz; eauto; [apply fs_set_same|apply lookup_dict_set_same].
  Qed.

  (* a defaulted key is never the empty string *)
  Lemma npz_key_default_truthy : forall (base : list (string * arr V)),
    str_truthy (npz_key None base) = true.
  Proof.
    intro base. unfold npz_key.
    destruct (first_unused_total (map fst base) 0) as [s Hs]. rewrite map_length in Hs. rewrite Hs.
    destruct (first_unused_spec _ _ _ _ Hs) as [j [-> _]]. apply arr_key_truthy.
  Qed.

  (* save without a key into a fresh or overwritten archive, load without a key *)
  Lemma roundtrip_npz_default : forall fs o a p c ow kw nv,
    saveable o a -> a_dt a = DF64 -> save_target p = TNpz ->
    (ow = true \/ fs p = None) ->
    resolves kw p FaNpz -> kw_dtype kw = None -> kw_key kw = None ->
    exists fs', save fs o p None c ow = Ok fs' /\
                init fs' (Some p) nv kw = Ok (Obj (Some a) nv).
  Proof.
    intros fs o a p c ow kw nv Hs Hd Ht Hfresh Hres Hdt Hkw.
    assert (Hr : npz_ready fs p ow) by (destruct Hfresh; [left|right; left]; assumption).
    eexists. split; [apply save_npz; try eassumption; reflexivity|].
    destruct (saveable_shape C _ _ Hs) as (d & r0 & r1 & ->).
    assert (Hb : npz_base fs p ow = []).
    { unfold npz_base. destruct Hfresh as [->| ->]; [reflexivity|now destruct ow]. }
    rewrite Hb. change (npz_key None []) with (arr_key 0).
    apply load_npz with (c := c) (es := dict_set (arr_key 0) (Arr2 d r0 r1) []) (k := arr_key 0);
      try assumption;
      first [ apply fs_set_same | apply lookup_dict_set_same
            | right; split; [reflexivity|assumption] | reflexivity ].
  Qed.

  (* -- repeatability -- *)

  Lemma fs_wf_empty : fs_wf fs_empty.
  Proof. intros p f H. discriminate. Qed.

  Lemma fs_wf_set : forall fs p f, fs_wf fs -> file_ok p f -> fs_wf (fs_set fs p f).
  Proof.
    intros fs p f Hw Hf q g Hq. unfold fs_set in Hq. destruct (String.eqb q p) eqn:E.
    - apply String.eqb_eq in E. inversion Hq; subst. exact Hf.
    - now apply Hw.
  Qed.

  (* one save onto a well-formed file system, whatever is already at the path *)
  Lemma save_ok : forall fs o a p key c ow,
    fs_wf fs -> saveable o a -> key_ok key ->
    exists fs', save fs o p key c ow = Ok fs' /\ fs_wf fs' /\ (forall q, q <> p -> fs' q = fs q) /\
                exists f, fs' p = Some f.
  Proof.
    intros fs o a p key c ow Hw Hs Hk. destruct (save_target p) eqn:Ht.
    - eexists. split; [apply save_npy; eassumption|]. split; [|split].
      + apply fs_wf_set; [exact Hw|]. unfold file_ok. now rewrite Ht.
      + intros; now apply fs_set_other.
      + eexists; apply fs_set_same.
    - assert (Hr : npz_ready fs p ow).
      { destruct (fs p) as [f|] eqn:Hf; [|right; now left].
        pose proof (Hw _ _ Hf) as Hok. unfold file_ok in Hok. rewrite Ht in Hok.
        destruct f; try contradiction. right; right; eauto. }
      eexists. split; [apply save_npz; eassumption|]. split; [|split].
      + apply fs_wf_set; [exact Hw|]. unfold file_ok. rewrite Ht.
        destruct (npz_key_not_reserved key (npz_base fs p ow) Hk).
        apply entries_ok_dict_set; auto. now apply npz_base_ok.
      + intros; now apply fs_set_other.
      + eexists; apply fs_set_same.
    - eexists. split; [apply save_raw; eassumption|]. split; [|split].
      + apply fs_wf_set; [exact Hw|]. unfold file_ok. now rewrite Ht.
      + intros; now apply fs_set_other.
      + eexists; apply fs_set_same.
  Qed.

  Lemma save_sequence_ok : forall rs fs,
    fs_wf fs -> Forall req_ok rs -> exists fs', run_saves fs rs = Ok fs' /\ fs_wf fs'.
  Proof.
    induction rs as [|r t IH]; intros fs Hw Hall; simpl; [eauto|].
    inversion Hall as [|? ? [[a Hs] Hk] Ht]; subst.
    destruct (save_ok fs (sr_obj r) a (sr_path r) (sr_key r) (sr_compress r) (sr_overwrite r) Hw Hs Hk)
      as (fs' & E & Hw' & _). rewrite E. simpl. now apply IH.
  Qed.
End Npz.

(* ------------------------------------------------------------------------ *)
(* F. statistics produced by accumulate are good, whatever the data            *)

Lemma zip_with_length {A B D} (f : A -> B -> D) : forall a b,
  List.length (zip_with f a b) = Nat.min (List.length a) (List.length b).
Proof. induction a; destruct b; simpl; auto. Qed.

Lemma removelast_length {A} : forall l : list A, List.length (removelast l) = pred (List.length l).
Proof.
  intros [|a t]; [reflexivity|].
  assert (H : a :: t <> []) by discriminate.
  pose proof (app_removelast_last a H) as E. apply (f_equal (@List.length A)) in E.
  rewrite app_length in E. change (List.length [last (a :: t) a]) with 1%nat in E.
  rewrite E. lia.
Qed.

Lemma forallb_removelast {A} (P : A -> bool) : forall l, forallb P l = true -> forallb P (removelast l) = true.
Proof.
  intros [|a t] H; [reflexivity|].
  assert (Hne : a :: t <> []) by discriminate.
  rewrite (app_removelast_last a Hne), forallb_app in H. apply andb_true_iff in H. tauto.
Qed.

Lemma last_opt_repeat {A} : forall (x : A) n, last_opt (repeat x (S n)) = Some x.
Proof. induction n; [reflexivity|]. simpl in *. exact IHn. Qed.

Lemma last_opt_in {A} : forall (l : list A) c, last_opt l = Some c -> In c l.
Proof.
  induction l as [|a t IH]; [discriminate|]. destruct t; intros c H.
  - inversion H. now left.
  - right. apply IH. exact H.
Qed.

Section Accumulate.
  Context {V : Type}.
  Variable C : VClass V.
  Variable vzero vone : V.
  Variable vadd vmul : V -> V -> V.
  Notation cnt := (count_value vzero vone vadd).
  Hypothesis nn_zero : v_nonneg C vzero = true.
  Hypothesis nn_sq : forall v, v_nonneg C (vmul v v) = true.
  Hypothesis nn_add : forall a b, v_nonneg C a = true -> v_nonneg C b = true ->
                                  v_nonneg C (vadd a b) = true.
  Hypothesis cnt_good : forall n, (1 <= n)%nat ->
    v_truthy C (cnt n) = true /\ v_intlike C (cnt n) = true /\ v_nonneg C (cnt n) = true.

  Notation acc_vec := (acc_vec vzero vone vadd vmul).
  Notation accumulate := (accumulate vzero vone vadd vmul).

  Lemma forallb_zip_add : forall a b,
    forallb (v_nonneg C) a = true -> forallb (v_nonneg C) b = true ->
    forallb (v_nonneg C) (zip_with vadd a b) = true.
  Proof.
    induction a; destruct b; simpl; intros Ha Hb; try reflexivity.
    apply andb_true_iff in Ha. apply andb_true_iff in Hb. destruct Ha, Hb.
    apply andb_true_iff. split; auto.
  Qed.

  Lemma forallb_sq : forall x, forallb (v_nonneg C) (map (fun v => vmul v v) x) = true.
  Proof. induction x; simpl; [reflexivity|]. now rewrite nn_sq, IHx. Qed.

  (* state after m >= 1 vectors of length F *)
  Definition acc_inv (F m : nat) (o : obj V) : Prop :=
    exists r0 r1,
      o_stats o = Some (Arr2 DF64 r0 r1) /\ List.length r0 = S F /\ List.length r1 = S F /\
      last_opt r0 = Some (cnt m) /\ last_opt r1 = Some vzero /\
      forallb (v_nonneg C) r1 = true.

  Lemma acc_step : forall F dt r0 r1 c x nv,
    List.length r0 = S F -> List.length r1 = S F -> List.length x = F ->
    last_opt r0 = Some c -> last_opt r1 = Some vzero -> forallb (v_nonneg C) r1 = true ->
    exists r0' r1',
      acc_vec (Obj (Some (Arr2 dt r0 r1)) nv) x = Ok (Obj (Some (Arr2 dt r0' r1')) nv) /\
      List.length r0' = S F /\ List.length r1' = S F /\
      last_opt r0' = Some (vadd c vone) /\ last_opt r1' = Some vzero /\
      forallb (v_nonneg C) r1' = true.
  Proof.
    intros F dt r0 r1 c x nv L0 L1 Lx Hc Hz Hnn. unfold Model.acc_vec. simpl.
    rewrite L0, Lx, Nat.eqb_refl. simpl. rewrite Hc, Hz.
    eexists. eexists. split; [reflexivity|].
    repeat split.
    - rewrite app_length, zip_with_length, removelast_length, L0, Lx. simpl. lia.
    - rewrite app_length, zip_with_length, removelast_length, map_length, L1, Lx. simpl. lia.
    - apply last_opt_app.
    - apply last_opt_app.
    - rewrite forallb_app. apply andb_true_iff. split.
      + apply forallb_zip_add; [now apply forallb_removelast|apply forallb_sq].
      + simpl. now rewrite nn_zero.
  Qed.

  Lemma acc_vec_none : forall x nv,
    acc_vec (Obj None nv) x =
    acc_vec (Obj (Some (Arr2 DF64 (repeat vzero (S (List.length x))) (repeat vzero (S (List.length x))))) nv) x.
  Proof.
    intros x nv. unfold Model.acc_vec. cbn [o_stats bind].
    rewrite repeat_length, Nat.eqb_refl. reflexivity.
  Qed.

  Lemma acc_first : forall F x nv,
    List.length x = F -> exists o', acc_vec (Obj None nv) x = Ok o' /\ acc_inv F 1 o' /\ o_norm_var o' = nv.
  Proof.
    intros F x nv Lx. rewrite acc_vec_none, Lx.
    destruct (acc_step F DF64 (repeat vzero (S F)) (repeat vzero (S F)) vzero x nv)
      as (r0' & r1' & E & L0' & L1' & Hc' & Hz' & Hnn'); try apply repeat_length; try apply last_opt_repeat; auto.
    { apply forallb_forall. intros y Hy. apply repeat_spec in Hy. now subst. }
    eexists. split; [exact E|]. split; [|reflexivity].
    exists r0', r1'. repeat split; auto.
  Qed.

  Lemma acc_all_inv : forall F xs m o,
    (1 <= m)%nat -> acc_inv F m o -> (forall x, In x xs -> List.length x = F) ->
    exists o', acc_all vzero vone vadd vmul o xs = Ok o' /\ acc_inv F (m + List.length xs) o' /\
               o_norm_var o' = o_norm_var o.
  Proof.
    intros F. induction xs as [|x t IH]; intros m o Hm Hinv Hlen; simpl.
    - exists o. rewrite Nat.add_0_r. auto.
    - destruct o as [st nv]. destruct Hinv as (r0 & r1 & Hs & L0 & L1 & Hc & Hz & Hnn).
      simpl in Hs. subst st.
      destruct (acc_step F DF64 r0 r1 (cnt m) x nv L0 L1 (Hlen x (or_introl eq_refl)) Hc Hz Hnn)
        as (r0' & r1' & E & L0' & L1' & Hc' & Hz' & Hnn').
      rewrite E. simpl.
      destruct (IH (S m) (Obj (Some (Arr2 DF64 r0' r1')) nv)) as (o' & E' & Hinv' & Hnv').
      + lia.
      + exists r0', r1'. repeat split; auto.
      + intros; apply Hlen; now right.
      + exists o'. split; [exact E'|]. split; [|exact Hnv'].
        replace (m + S (List.length t))%nat with (S m + List.length t)%nat by lia. exact Hinv'.
  Qed.

  (* accumulate on a fresh object, any non-empty data set of vectors of one
     length F >= 1: the result is good - for sums of any sign *)
  Lemma accumulate_good : forall F xs nv,
    (1 <= F)%nat -> xs <> [] -> (forall x, In x xs -> List.length x = F) ->
    exists a, accumulate (Obj None nv) xs = Ok (Obj (Some a) nv) /\ good_stats C a.
  Proof.
    intros F xs nv HF Hne Hlen. destruct xs as [|x t]; [congruence|].
    unfold Model.accumulate. rewrite (Hlen x (or_introl eq_refl)).
    destruct F; [lia|]. simpl Nat.eqb. cbv iota. simpl acc_all.
    destruct (acc_first (S F) x nv (Hlen x (or_introl eq_refl))) as (o1 & E1 & Hinv1 & Hnv1).
    rewrite E1. simpl.
    destruct (acc_all_inv (S F) t 1 o1 (le_n 1) Hinv1) as (o' & E' & Hinv' & Hnv').
    { intros; apply Hlen; now right. }
    rewrite E'. destruct o' as [st nv']. simpl in Hnv'. rewrite Hnv1 in Hnv'. subst nv'.
    destruct Hinv' as (r0 & r1 & Hs & L0 & L1 & Hc & Hz & Hnn). simpl in Hs. subst st.
    eexists. split; [reflexivity|].
    destruct (cnt_good (1 + List.length t)) as (Ht & Hi & Hn); [lia|].
    exists r0, r1, (cnt (1 + List.length t)). repeat split; auto. lia.
  Qed.
End Accumulate.

(* the integers satisfy the hypotheses of the section above *)
Lemma z_count_value : forall n, count_value 0%Z 1%Z Z.add n = Z.of_nat n.
Proof. induction n; [reflexivity|]. simpl count_value. rewrite IHn. lia. Qed.

Lemma accumulate_good_z : forall F (xs : list (list Z)) nv,
  (1 <= F)%nat -> xs <> [] -> (forall x, In x xs -> List.length x = F) ->
  exists a, accumulate 0%Z 1%Z Z.add Z.mul (Obj None nv) xs = Ok (Obj (Some a) nv) /\ good_stats ZC a.
Proof.
  intros F xs nv HF Hne Hlen.
  apply (accumulate_good ZC 0%Z 1%Z Z.add Z.mul) with (F := F); auto.
  - intro v. simpl. apply Z.leb_le. apply Z.square_nonneg.
  - intros a b Ha Hb. simpl in *. apply Z.leb_le in Ha, Hb. apply Z.leb_le. lia.
  - intros n Hn. rewrite z_count_value. simpl. repeat split.
    + apply negb_true_iff. apply Z.eqb_neq. lia.
    + apply Z.leb_le. lia.
Qed.

(* ------------------------------------------------------------------------ *)
(* G. the property for integer data: accumulate, save, reload, apply           *)

Section Reload.
  Context {V : Type}.
  Variable C : VClass V.
  Variable reinterp : dtype -> dtype -> list V -> list V.
  Variable cast : dtype -> dtype -> V -> V.
  Variable is_table sf_ext : string -> bool.
  Hypothesis cast_same : forall d v, cast d d v = v.

  (* good statistics, any target, loader arguments that fit: reload gives them back *)
  Lemma reload_good : forall fs a p key c ow kw nv,
    good_stats C a -> load_fits is_table sf_ext fs p key ow kw ->
    exists fs', save C fs (Obj (Some a) nv) p key c ow = Ok fs' /\
                init C reinterp cast is_table sf_ext fs' (Some p) nv kw = Ok (Obj (Some a) nv).
  Proof.
    intros fs a p key c ow kw nv Hg [Hdt Hfit].
    pose proof (good_saveable C a nv Hg) as Hs.
    assert (Hd : a_dt a = DF64) by (destruct Hg as (r0 & r1 & c0 & -> & _); reflexivity).
    destruct (save_target p) eqn:Ht.
    - now apply roundtrip_npy.
    - destruct Hfit as (Hres & Hr & Hk & [[Hkw Hne]|(Hkw & -> & Hfresh)]).
      + apply roundtrip_npz; auto. destruct key as [k|]; [|apply npz_key_default_truthy].
        simpl. unfold str_truthy. destruct (String.eqb k "") eqn:E; [|reflexivity].
        apply String.eqb_eq in E. subst. congruence.
      + now apply roundtrip_npz_default.
    - eapply roundtrip_raw; eauto.
  Qed.
End Reload.

Section ZProperty.
  Variable reinterp : dtype -> dtype -> list Z -> list Z.
  Variable cast : dtype -> dtype -> Z -> Z.
  Variable is_table sf_ext : string -> bool.
  Hypothesis cast_same : forall d v, cast d d v = v.

  Notation save := (save ZC).
  Notation init := (init ZC reinterp cast is_table sf_ext).
  Notation accumulate := (accumulate 0%Z 1%Z Z.add Z.mul).
  Notation load_fits := (load_fits is_table sf_ext).

  (* full statement: any data set -> accumulate -> save (any target) -> reload ->
     same statistics, hence the same apply on every input *)
  Lemma property_z : forall F (xs : list (list Z)) nv,
    (1 <= F)%nat -> xs <> [] -> (forall x, In x xs -> List.length x = F) ->
    exists a,
      accumulate (Obj None nv) xs = Ok (Obj (Some a) nv) /\
      forall fs p key c ow kw,
        load_fits fs p key ow kw ->
        exists fs' o',
          save fs (Obj (Some a) nv) p key c ow = Ok fs' /\
          init fs' (Some p) nv kw = Ok o' /\
          o_stats o' = Some a /\
          forall x, apply_z o' x = apply_z (Obj (Some a) nv) x.
  Proof.
    intros F xs nv HF Hne Hlen.
    destruct (accumulate_good_z F xs nv HF Hne Hlen) as (a & Ea & Hg).
    exists a. split; [exact Ea|]. intros fs p key c ow kw Hfit.
    destruct (reload_good ZC reinterp cast is_table sf_ext cast_same fs a p key c ow kw nv Hg Hfit) as (fs' & Es & Ei).
    exists fs', (Obj (Some a) nv). repeat split; auto.
  Qed.
End ZProperty.

(* ------------------------------------------------------------------------ *)
(* H. the loader's sanity check and float re-interpretation, on any file       *)

Section Sanitize.
  Context {V : Type}.
  Variable C : VClass V.
  Variable reinterp : dtype -> dtype -> list V -> list V.
  Variable cast : dtype -> dtype -> V -> V.
  Notation sanitize := (sanitize C reinterp cast).
  Notation sanitize_try := (sanitize_try C).

  Notation passes := (passes C).

  Lemma reshape2_lengths : forall (l r0 r1 : list V),
    reshape2 l = Some (r0, r1) -> List.length r0 = List.length r1 /\ l = r0 ++ r1.
  Proof.
    intros l r0 r1 H. unfold reshape2 in H.
    destruct (Nat.even (List.length l)) eqn:E; [|discriminate]. inversion H; subst. clear H.
    apply Nat.even_spec in E. destruct E as [k E].
    assert (D : Nat.div2 (List.length l) = k) by (rewrite E; apply Nat.div2_double).
    rewrite D. split; [|symmetry; apply firstn_skipn].
    rewrite firstn_length, skipn_length. lia.
  Qed.

  Lemma sanitize_try_valid : forall a a',
    sanitize_try a = Ok (a', true) -> passes a' /\ a_dt a' = a_dt a /\ a_flat a' = a_flat a.
  Proof.
    intros a a' H. unfold Model.sanitize_try in H.
    destruct (reshape2 (a_flat a)) as [[r0 r1]|] eqn:R.
    - destruct (reshape2_lengths _ _ _ R) as [L E].
      destruct (last_opt r0) as [c|] eqn:Hc.
      + inversion H; subst. split; [|split; [reflexivity|simpl; now rewrite E]].
        exists (a_dt a), r0, r1, c. auto.
      + destruct (caught_by sanitize_caught IndexError); inversion H.
    - destruct (caught_by sanitize_caught ValueError); inversion H.
  Qed.

  (* the try block never changes the bytes or the item type *)
  Lemma sanitize_try_same : forall a a' v,
    sanitize_try a = Ok (a', v) -> a_dt a' = a_dt a /\ a_flat a' = a_flat a.
  Proof.
    intros a a' v H. unfold Model.sanitize_try in H.
    destruct (reshape2 (a_flat a)) as [[r0 r1]|] eqn:R.
    - destruct (reshape2_lengths _ _ _ R) as [_ E].
      destruct (last_opt r0); [|destruct (caught_by sanitize_caught IndexError)];
        try discriminate; injection H as Ha _; subst a'; simpl; now rewrite E.
    - destruct (caught_by sanitize_caught ValueError); try discriminate.
      injection H as Ha _; subst a'; auto.
  Qed.

  (* the three decisions the code takes *)
  Lemma decision_keep : forall ch, sanitize_decision true ch = SKeep.
  Proof. intros []; reflexivity. Qed.
  Lemma decision_retry : sanitize_decision false false = SRetry.
  Proof. reflexivity. Qed.
  Lemma decision_give_up : exists e, sanitize_decision false true = SRaise e.
  Proof. eexists; reflexivity. Qed.

  (* the array tried on the second round *)
  Definition second_view (a : arr V) (view castto : dtype) : arr V :=
    Arr1 castto (map (cast view castto) (reinterp (a_dt a) view (a_flat a))).

  (* whatever comes out of the sanity check passes it; it is the array read, or
     the re-interpretation of its bytes that the per-dtype table prescribes *)
  Lemma sanitize_ok : forall a a',
    sanitize a = Ok a' ->
    passes a' /\
    ((a_dt a' = a_dt a /\ a_flat a' = a_flat a) \/
     exists view castto,
       sanitize_reinterpret (a_dt a) = Ok (view, castto) /\
       a_dt a' = castto /\ a_flat a' = a_flat (second_view a view castto)).
  Proof.
    intros a a' H. unfold Model.sanitize, sanitize_step in H.
    destruct (sanitize_try a) as [[a1 v1]|e] eqn:T1; [|discriminate]. cbn [bind] in H.
    destruct v1.
    - rewrite decision_keep in H. inversion H; subst.
      destruct (sanitize_try_valid _ _ T1) as (P & D & Fl). split; [exact P|]. left. auto.
    - rewrite decision_retry in H. destruct (sanitize_try_same _ _ _ T1) as [D1 F1].
      rewrite D1, F1 in H.
      destruct (sanitize_reinterpret (a_dt a)) as [[view castto]|e] eqn:RI; [|discriminate].
      cbn [bind] in H.
      match type of H with (tv <- sanitize_try ?b ;; _) = _ =>
        destruct (sanitize_try b) as [[a2 v2]|e] eqn:T2 end; [|discriminate].
      cbn [bind] in H. destruct v2.
      + rewrite decision_keep in H. inversion H; subst.
        destruct (sanitize_try_valid _ _ T2) as (P & D & Fl). split; [exact P|].
        right. exists view, castto. auto.
      + destruct decision_give_up as [e Hg]. rewrite Hg in H. discriminate.
  Qed.

  (* neither the array read nor its re-interpretation is acceptable: an
     exception, never a silently wrong array *)
  Lemma sanitize_both_invalid : forall a,
    (forall a', sanitize_try a <> Ok (a', true)) ->
    (forall view castto a', sanitize_reinterpret (a_dt a) = Ok (view, castto) ->
                            sanitize_try (second_view a view castto) <> Ok (a', true)) ->
    exists e, sanitize a = Raise e.
  Proof.
    intros a H1 H2. unfold Model.sanitize, sanitize_step.
    destruct (sanitize_try a) as [[a1 v1]|e] eqn:T1; [|cbn [bind]; eauto]. cbn [bind].
    destruct v1; [exfalso; eapply H1; eauto|]. rewrite decision_retry.
    destruct (sanitize_try_same _ _ _ T1) as [D1 F1]. rewrite D1, F1.
    destruct (sanitize_reinterpret (a_dt a)) as [[view castto]|e] eqn:RI; [|cbn [bind]; eauto].
    cbn [bind]. fold (second_view a view castto).
    destruct (sanitize_try (second_view a view castto)) as [[a2 v2]|e] eqn:T2; [|cbn [bind]; eauto].
    cbn [bind]. destruct v2; [exfalso; eapply H2; eauto|].
    destruct decision_give_up as [e Hg]. rewrite Hg. eauto.
  Qed.
End Sanitize.

(* ------------------------------------------------------------------------ *)
(* I. witnesses: the preconditions above are needed (model run on integers)   *)

Definition wit_stats : arr Z := Arr2 DF64 [4; -7; 2]%Z [10; 29; 0]%Z.
Definition wit_obj : obj Z := Obj (Some wit_stats) true.

Notation zsave := (save ZC).
Notation zinit := (init ZC no_reinterp id_cast never never).

(* hypotheses of the round-trip lemmas are satisfiable, with negative sums *)
Example wit_good : good_stats ZC wit_stats.
Proof. exists [4; -7; 2]%Z, [10; 29; 0]%Z, 2%Z. repeat split. Qed.

Example wit_accumulated :
  accumulate 0%Z 1%Z Z.add Z.mul (Obj None true) [[1; -2]; [3; -5]]%Z = Ok wit_obj.
Proof. reflexivity. Qed.

Example wit_raw_reload :
  exists fs', zsave fs_empty wit_obj "stats.bin" None false true = Ok fs' /\
              zinit fs' (Some "stats.bin"%string) true (Kw None None (Some FaFile)) = Ok wit_obj.
Proof. eexists. split; reflexivity. Qed.

(* the same statistics under the validity test as it was before commit ff42a61
   (np.all(self._stats >= 0)): rejected *)
Definition stats_valid_before_fix {V} (C : VClass V) (count : V) (row0 row1 : list V) : bool :=
  v_intlike C count && forallb (v_nonneg C) (row0 ++ row1).

Lemma validity_before_fix_rejects_negative_sums :
  exists r0 r1 c, good_stats ZC (Arr2 DF64 r0 r1) /\ last_opt r0 = Some c /\
                  stats_valid ZC c r0 r1 = true /\ stats_valid_before_fix ZC c r0 r1 = false.
Proof. exists [4; -7; 2]%Z, [10; 29; 0]%Z, 2%Z. split; [exact wit_good|]. repeat split. Qed.


(* the preconditions are satisfiable (and decidable: they are boolean tests) *)
Example key_ok_sat :
  key_ok (Some "foo"%string) /\ key_ok (Some "arr_3"%string) /\ key_ok None /\
  key_okb (Some "file"%string) = false /\ key_okb (Some "allow_pickle"%string) = false.
Proof. repeat split. Qed.

Example load_fits_sat :
  load_fits never never (@fs_empty Z) "a.npy" None true kw_none /\
  load_fits never never (@fs_empty Z) "a.npz" None true kw_none /\
  load_fits never never (@fs_empty Z) "a.npz" (Some "foo"%string) false (Kw None (Some "foo"%string) None) /\
  load_fits never never (@fs_empty Z) "stats.bin" None true (Kw None None (Some FaFile)).
Proof.
  repeat split; try reflexivity.
  - right. left. reflexivity.
  - right. repeat split. now left.
  - right. left. reflexivity.
  - left. split; [reflexivity|discriminate].
Qed.

(* a sequence of five saves onto the same archive and a raw file, then reloads *)
Example save_sequence_sat :
  exists fs',
    run_saves ZC fs_empty
      [SaveReq wit_obj "s.npz" None false true; SaveReq wit_obj "s.npz" None true false;
       SaveReq wit_obj "s.npz" (Some "foo"%string) false false; SaveReq wit_obj "r.bin" None false true;
       SaveReq wit_obj "s.npz" (Some "arr_0"%string) false false] = Ok fs' /\
    (exists es, fs' "s.npz"%string = Some (FNpz false es) /\ map fst es = ["arr_0"; "arr_1"; "foo"]%string) /\
    zinit fs' (Some "s.npz"%string) true (Kw None (Some "arr_1"%string) None) = Ok wit_obj /\
    zinit fs' (Some "r.bin"%string) true (Kw None None (Some FaFile)) = Ok wit_obj.
Proof. eexists. split; [reflexivity|]. split; [eexists; split; reflexivity|]. split; reflexivity. Qed.

(* ------------------------------------------------------------------------ *)
(* J. the float32 heuristic, continuing to accumulate, saving twice            *)

Lemma last_opt_map {A B} (f : A -> B) : forall l c, last_opt l = Some c -> last_opt (map f l) = Some (f c).
Proof.
  induction l as [|a t IH]; intros c H; [discriminate|]. destruct t.
  - inversion H. reflexivity.
  - change (last_opt (map f (a :: a0 :: t))) with (last_opt (map f (a0 :: t))). apply IH. exact H.
Qed.

Section Float32.
  Context {V : Type}.
  Variable C : VClass V.
  Variable reinterp : dtype -> dtype -> list V -> list V.
  Variable cast : dtype -> dtype -> V -> V.
  Variable is_table sf_ext : string -> bool.

  (* statistics that some other program stored as raw float32: the loader first
     reads the bytes as float64; if that view fails the sanity check it looks at
     the same bytes as float32 and widens them.  Hypotheses: the float64 view is
     rejected; the two views are views of the same bytes; the widened numbers
     are good. *)
  Lemma load_raw_float32 : forall (fs : fsys V) p r0 r1 c kw nv,
    fs p = Some (FRaw DF32 (r0 ++ r1)) ->
    kw_force_as kw = Some FaFile -> kw_dtype kw = None ->
    (exists a1, sanitize_try C (Arr1 DF64 (reinterp DF32 DF64 (r0 ++ r1))) = Ok (a1, false)) ->
    reinterp DF64 DF32 (reinterp DF32 DF64 (r0 ++ r1)) = r0 ++ r1 ->
    List.length r0 = List.length r1 -> last_opt r0 = Some c ->
    v_intlike C (cast DF32 DF64 c) = true -> v_nonneg C (cast DF32 DF64 c) = true ->
    forallb (v_nonneg C) (map (cast DF32 DF64) r1) = true ->
    init C reinterp cast is_table sf_ext fs (Some p) nv kw =
    Ok (Obj (Some (Arr2 DF64 (map (cast DF32 DF64) r0) (map (cast DF32 DF64) r1))) nv).
  Proof.
    intros fs p r0 r1 c kw nv Hf Hfa Hk [a1 T1] Hbytes Hl Hc Hi Hn Ha.
    unfold Model.init. rewrite Hk.
    assert (P : exists t, probe_dtypes = DF64 :: t) by (eexists; reflexivity).
    destruct P as [t ->]. simpl probe. unfold Model.read_signal. rewrite Hfa. cbn [bind].
    assert (R : reader_of FaFile = RFromfile) by reflexivity. rewrite R.
    unfold fromfile. rewrite Hf. cbn [dtype_eqb bind a_ndim].
    assert (N : Nat.eqb 1 init_sanitize_ndim = true) by reflexivity. rewrite N.
    unfold sanitize, sanitize_step. rewrite T1. cbn [bind]. rewrite decision_retry.
    destruct (sanitize_try_same C _ _ _ T1) as [D1 F1]. rewrite D1, F1.
    assert (RI : sanitize_reinterpret DF64 = Ok (DF32, DF64)) by reflexivity.
    cbn [a_dt a_flat] in *. rewrite RI. cbn [bind]. rewrite Hbytes, map_app.
    unfold sanitize_try. cbn [a_flat a_dt].
    rewrite reshape2_app by (now rewrite !map_length).
    rewrite (last_opt_map _ _ _ Hc). cbn [bind].
    assert (Vd : stats_valid C (cast DF32 DF64 c) (map (cast DF32 DF64) r0) (map (cast DF32 DF64) r1) = true).
    { unfold stats_valid. now rewrite Hi, Hn, Ha. }
    rewrite Vd, decision_keep. reflexivity.
  Qed.
End Float32.

(* accumulating further into good integer statistics (e.g. after a reload)
   keeps them good *)
Lemma acc_vec_good_z : forall (a : arr Z) nv x,
  good_stats ZC a ->
  (exists r0 r1, a = Arr2 DF64 r0 r1 /\ List.length r0 = S (List.length x)) ->
  exists a', acc_vec 0%Z 1%Z Z.add Z.mul (Obj (Some a) nv) x = Ok (Obj (Some a') nv) /\
             good_stats ZC a' /\
             (exists r0 r1, a' = Arr2 DF64 r0 r1 /\ List.length r0 = S (List.length x)).
Proof.
  intros a nv x (r0 & r1 & c & -> & Hl & Hc & Ht & Hi & Hn & Hall) (r0' & r1' & E & Hlen).
  inversion E; subst r0' r1'. clear E.
  assert (Hz : exists z, last_opt r1 = Some z).
  { destruct r1 as [|y t]; [destruct r0; simpl in *; discriminate|].
    destruct (last_opt (y :: t)) eqn:L; [eauto|]. exfalso. clear -L.
    revert y L. induction t; intros y L; [discriminate|]. apply (IHt a). exact L. }
  destruct Hz as [z Hz].
  unfold acc_vec. cbn [o_stats bind]. rewrite Hlen, Nat.eqb_refl. cbn [bind]. rewrite Hc, Hz.
  eexists. split; [reflexivity|]. split.
  - eexists. eexists. exists (c + 1)%Z. split; [reflexivity|].
    simpl in Ht, Hn. apply negb_true_iff in Ht. apply Z.eqb_neq in Ht. apply Z.leb_le in Hn.
    repeat split.
    + rewrite !app_length, !zip_with_length, !removelast_length, map_length, <- Hl, Hlen. simpl. lia.
    + apply last_opt_app.
    + simpl. apply negb_true_iff. apply Z.eqb_neq. lia.
    + simpl. apply Z.leb_le. lia.
    + rewrite forallb_app. apply andb_true_iff. split.
      * apply (forallb_zip_add ZC Z.add).
        -- intros u v Hu Hv. simpl in *. apply Z.leb_le in Hu, Hv. apply Z.leb_le. lia.
        -- now apply forallb_removelast.
        -- apply (forallb_sq ZC Z.mul). intro v. simpl. apply Z.leb_le. apply Z.square_nonneg.
      * simpl. rewrite andb_true_r. rewrite forallb_forall in Hall. apply Hall.
        now apply last_opt_in.
  - eexists. eexists. split; [reflexivity|].
    rewrite app_length, zip_with_length, removelast_length, Hlen. simpl. lia.
Qed.

Lemma accumulate_more_good_z : forall xs (a : arr Z) nv F,
  good_stats ZC a ->
  (exists r0 r1, a = Arr2 DF64 r0 r1 /\ List.length r0 = S F) ->
  (1 <= F)%nat -> xs <> [] -> (forall x, In x xs -> List.length x = F) ->
  exists a', accumulate 0%Z 1%Z Z.add Z.mul (Obj (Some a) nv) xs = Ok (Obj (Some a') nv) /\
             good_stats ZC a'.
Proof.
  intros xs a nv F Hg Hshape HF Hne Hlen.
  assert (G : forall xs a, good_stats ZC a ->
              (exists r0 r1, a = Arr2 DF64 r0 r1 /\ List.length r0 = S F) ->
              (forall x, In x xs -> List.length x = F) ->
              exists a', acc_all 0%Z 1%Z Z.add Z.mul (Obj (Some a) nv) xs = Ok (Obj (Some a') nv) /\
                         good_stats ZC a').
  { clear. induction xs as [|x t IH]; intros a Hg Hs Hlen; simpl; [eauto|].
    assert (Lx : List.length x = F) by (apply Hlen; now left).
    destruct (acc_vec_good_z a nv x Hg) as (a1 & E1 & Hg1 & Hs1).
    { destruct Hs as (r0 & r1 & -> & L). exists r0, r1. split; [reflexivity|]. now rewrite Lx. }
    rewrite E1. cbn [bind]. apply IH; auto.
    - destruct Hs1 as (r0 & r1 & -> & L). exists r0, r1. split; [reflexivity|]. now rewrite <- Lx.
    - intros; apply Hlen; now right. }
  destruct xs as [|x t]; [congruence|]. unfold accumulate.
  rewrite (Hlen x (or_introl eq_refl)). destruct F; [lia|]. cbn [Nat.eqb]. now apply G.
Qed.

(* saving the same statistics again with the same arguments leaves every file as
   it is, for .npy, raw, and an archive under overwrite=True *)
Lemma save_twice_same : forall {V} (C : VClass V) (fs : fsys V) o a p key c,
  saveable C o a -> key_ok key ->
  forall fs', save C fs o p key c true = Ok fs' ->
  exists fs'', save C fs' o p key c true = Ok fs'' /\ forall q, fs'' q = fs' q.
Proof.
  intros V C fs o a p key c Hs Hk fs' E. destruct (save_target p) eqn:Ht.
  - rewrite (save_npy C fs o a p key c true Hs Ht) in E. inversion E; subst.
    eexists. split; [apply save_npy; eassumption|]. intro q. unfold fs_set.
    destruct (String.eqb q p); reflexivity.
  - rewrite (npz_overwrite_true C fs o a p key c Hs Ht Hk) in E. inversion E; subst.
    eexists. split; [apply npz_overwrite_true; eassumption|]. intro q. unfold fs_set.
    destruct (String.eqb q p); reflexivity.
  - rewrite (save_raw C fs o a p key c true Hs Ht) in E. inversion E; subst.
    eexists. split; [apply save_raw; eassumption|]. intro q. unfold fs_set.
    destruct (String.eqb q p); reflexivity.
Qed.
