(* C17 - the property theorems, and nothing else.  Each is closed by [exact] of a
   lemma of Proofs.v; the axioms each depends on are printed beneath it.
   All are statements about C17/Model.v over gen/StatsIO.v, which is regenerated
   from post.py / util.py on every run.  V is any type of stored numbers with the
   three tests the code applies to one (VClass); [reinterp] (bytes seen through
   the other float type), [cast] (astype), [is_table], [sf_ext] (path tests of
   read_signal) are arbitrary oracles. *)
From Coq Require Import List String Bool ZArith Arith.
From Verif Require Import lib.C17_Base gen.StatsIO C17.Model C17.Spec C17.Proofs.
Import ListNotations.
Open Scope bool_scope.
Open Scope list_scope.

(* ---- saving with no accumulated statistics raises ValueError ---- *)
Theorem save_without_stats_valueerror :
  forall V (C : VClass V) (fs : fsys V) (o : obj V) (p : string) (key : option string) (c ow : bool),
    have_stats C o = Ok false -> save C fs o p key c ow = Raise ValueError.
Proof. exact (@save_no_stats). Qed.
Print Assumptions save_without_stats_valueerror.

Theorem fresh_object_save_valueerror :
  forall V (C : VClass V) (fs : fsys V) (nv : bool) (p : string) (key : option string) (c ow : bool),
    save C fs (Obj None nv) p key c ow = Raise ValueError.
Proof. exact (@save_fresh_object). Qed.
Print Assumptions fresh_object_save_valueerror.

Theorem zero_count_save_valueerror :
  forall V (C : VClass V) (fs : fsys V) d (r0 r1 : list V) cnt nv p key c ow,
    last_opt r0 = Some cnt -> v_truthy C cnt = false ->
    save C fs (Obj (Some (Arr2 d r0 r1)) nv) p key c ow = Raise ValueError.
Proof. exact (@save_zero_count). Qed.
Print Assumptions zero_count_save_valueerror.

(* ---- statistics produced by accumulate are good, for data of any sign ---- *)
Theorem accumulated_stats_are_good :
  forall V (C : VClass V) (vzero vone : V) (vadd vmul : V -> V -> V),
    v_nonneg C vzero = true ->
    (forall v, v_nonneg C (vmul v v) = true) ->
    (forall a b, v_nonneg C a = true -> v_nonneg C b = true -> v_nonneg C (vadd a b) = true) ->
    (forall n, (1 <= n)%nat ->
       v_truthy C (count_value vzero vone vadd n) = true /\
       v_intlike C (count_value vzero vone vadd n) = true /\
       v_nonneg C (count_value vzero vone vadd n) = true) ->
    forall (F : nat) (xs : list (list V)) (nv : bool),
      (1 <= F)%nat -> xs <> [] -> (forall x, In x xs -> List.length x = F) ->
      exists a, accumulate vzero vone vadd vmul (Obj None nv) xs = Ok (Obj (Some a) nv) /\
                good_stats C a.
Proof. exact (@accumulate_good). Qed.
Print Assumptions accumulated_stats_are_good.

Theorem accumulated_stats_are_good_z :
  forall (F : nat) (xs : list (list Z)) (nv : bool),
    (1 <= F)%nat -> xs <> [] -> (forall x, In x xs -> List.length x = F) ->
    exists a, accumulate 0%Z 1%Z Z.add Z.mul (Obj None nv) xs = Ok (Obj (Some a) nv) /\
              good_stats ZC a.
Proof. exact accumulate_good_z. Qed.
Print Assumptions accumulated_stats_are_good_z.

(* ... and stay good when more data is accumulated into them (e.g. after a reload) *)
Theorem accumulate_more_keeps_good_z :
  forall (xs : list (list Z)) (a : arr Z) nv F,
    good_stats ZC a ->
    (exists r0 r1, a = Arr2 DF64 r0 r1 /\ List.length r0 = S F) ->
    (1 <= F)%nat -> xs <> [] -> (forall x, In x xs -> List.length x = F) ->
    exists a', accumulate 0%Z 1%Z Z.add Z.mul (Obj (Some a) nv) xs = Ok (Obj (Some a') nv) /\
               good_stats ZC a'.
Proof. exact accumulate_more_good_z. Qed.
Print Assumptions accumulate_more_keeps_good_z.

(* ---- save then reload gives the same statistics, per target ---- *)
Theorem reload_npy :
  forall V (C : VClass V) reinterp cast is_table sf_ext,
    (forall d (v : V), cast d d v = v) ->
    forall (fs : fsys V) (o : obj V) (a : arr V) p key c ow kw nv,
      saveable C o a -> a_dt a = DF64 -> save_target p = TNpy ->
      resolves is_table sf_ext kw p FaNpy -> kw_dtype kw = None ->
      exists fs', save C fs o p key c ow = Ok fs' /\
                  init C reinterp cast is_table sf_ext fs' (Some p) nv kw = Ok (Obj (Some a) nv).
Proof. exact (@roundtrip_npy). Qed.
Print Assumptions reload_npy.

(* raw binary: nothing is assumed about the sums (good_stats constrains only the
   count and the second row) *)
Theorem reload_raw_any_sign :
  forall V (C : VClass V) reinterp cast is_table sf_ext
         (fs : fsys V) (a : arr V) p key c ow kw nv nv',
    good_stats C a -> save_target p = TRaw ->
    kw_force_as kw = Some FaFile -> kw_dtype kw = None ->
    exists fs', save C fs (Obj (Some a) nv') p key c ow = Ok fs' /\
                init C reinterp cast is_table sf_ext fs' (Some p) nv kw = Ok (Obj (Some a) nv).
Proof. exact (@roundtrip_raw). Qed.
Print Assumptions reload_raw_any_sign.

Theorem reload_npz_by_key :
  forall V (C : VClass V) reinterp cast is_table sf_ext,
    (forall d (v : V), cast d d v = v) ->
    forall (fs : fsys V) (o : obj V) (a : arr V) p key c ow kw nv,
      saveable C o a -> a_dt a = DF64 -> save_target p = TNpz ->
      npz_ready fs p ow -> key_ok key ->
      resolves is_table sf_ext kw p FaNpz -> kw_dtype kw = None ->
      kw_key kw = Some (npz_key key (npz_base fs p ow)) ->
      str_truthy (npz_key key (npz_base fs p ow)) = true ->
      exists fs', save C fs o p key c ow = Ok fs' /\
                  init C reinterp cast is_table sf_ext fs' (Some p) nv kw = Ok (Obj (Some a) nv).
Proof. exact (@roundtrip_npz). Qed.
Print Assumptions reload_npz_by_key.

Theorem reload_npz_default_key :
  forall V (C : VClass V) reinterp cast is_table sf_ext,
    (forall d (v : V), cast d d v = v) ->
    forall (fs : fsys V) (o : obj V) (a : arr V) p c ow kw nv,
      saveable C o a -> a_dt a = DF64 -> save_target p = TNpz ->
      ow = true \/ fs p = None ->
      resolves is_table sf_ext kw p FaNpz -> kw_dtype kw = None -> kw_key kw = None ->
      exists fs', save C fs o p None c ow = Ok fs' /\
                  init C reinterp cast is_table sf_ext fs' (Some p) nv kw = Ok (Obj (Some a) nv).
Proof. exact (@roundtrip_npz_default). Qed.
Print Assumptions reload_npz_default_key.

(* all targets at once *)
Theorem reload_any_target :
  forall V (C : VClass V) reinterp cast is_table sf_ext,
    (forall d (v : V), cast d d v = v) ->
    forall (fs : fsys V) (a : arr V) p key c ow kw nv,
      good_stats C a -> load_fits is_table sf_ext fs p key ow kw ->
      exists fs', save C fs (Obj (Some a) nv) p key c ow = Ok fs' /\
                  init C reinterp cast is_table sf_ext fs' (Some p) nv kw = Ok (Obj (Some a) nv).
Proof. exact (@reload_good). Qed.
Print Assumptions reload_any_target.

(* the property end to end on integer data: any data set, any target, same
   statistics after reload, hence the same apply() on every input *)
Theorem reload_same_transform_z :
  forall reinterp cast is_table sf_ext,
    (forall d (v : Z), cast d d v = v) ->
    forall (F : nat) (xs : list (list Z)) (nv : bool),
      (1 <= F)%nat -> xs <> [] -> (forall x, In x xs -> List.length x = F) ->
      exists a,
        accumulate 0%Z 1%Z Z.add Z.mul (Obj None nv) xs = Ok (Obj (Some a) nv) /\
        forall (fs : fsys Z) p key c ow kw,
          load_fits is_table sf_ext fs p key ow kw ->
          exists fs' o',
            save ZC fs (Obj (Some a) nv) p key c ow = Ok fs' /\
            init ZC reinterp cast is_table sf_ext fs' (Some p) nv kw = Ok o' /\
            o_stats o' = Some a /\
            forall x, apply_z o' x = apply_z (Obj (Some a) nv) x.
Proof. exact property_z. Qed.
Print Assumptions reload_same_transform_z.

(* what save writes under .npy / .npz is what read_signal infers from the name *)
Theorem inferred_reader_matches_npy :
  forall tb sf p, tb = false -> sf = false -> save_target p = TNpy -> infer_force_as tb sf p = Ok FaNpy.
Proof. exact infer_of_target_npy. Qed.
Print Assumptions inferred_reader_matches_npy.

Theorem inferred_reader_matches_npz :
  forall tb sf p, tb = false -> sf = false -> save_target p = TNpz -> infer_force_as tb sf p = Ok FaNpz.
Proof. exact infer_of_target_npz. Qed.
Print Assumptions inferred_reader_matches_npz.

(* ---- the overwrite flag and the default key ---- *)
Theorem npz_overwrite_true_drops_others :
  forall V (C : VClass V) (fs : fsys V) (o : obj V) (a : arr V) p key c,
    saveable C o a -> save_target p = TNpz -> key_ok key ->
    save C fs o p key c true =
    Ok (fs_set fs p (FNpz c [(match key with Some k => k | None => arr_key 0 end, a)])).
Proof. exact (@npz_overwrite_true). Qed.
Print Assumptions npz_overwrite_true_drops_others.

Theorem npz_overwrite_false_keeps_others :
  forall V (C : VClass V) (fs : fsys V) (o : obj V) (a : arr V) p key c c0 es,
    saveable C o a -> save_target p = TNpz -> key_ok key ->
    fs p = Some (FNpz c0 es) -> entries_ok es ->
    exists k es',
      save C fs o p key c false = Ok (fs_set fs p (FNpz c es')) /\
      es' = dict_set k a es /\
      lookup k es' = Some a /\
      (forall k', k' <> k -> lookup k' es' = lookup k' es) /\
      match key with
      | Some k0 => k = k0
      | None => exists n, k = arr_key n /\ ~ In k (map fst es) /\
                          (forall i, (i < n)%nat -> In (arr_key i) (map fst es)) /\
                          es' = es ++ [(k, a)]
      end.
Proof. exact (@npz_overwrite_false). Qed.
Print Assumptions npz_overwrite_false_keeps_others.

Theorem npz_overwrite_false_no_file :
  forall V (C : VClass V) (fs : fsys V) (o : obj V) (a : arr V) p key c,
    saveable C o a -> save_target p = TNpz -> key_ok key -> fs p = None ->
    save C fs o p key c false =
    Ok (fs_set fs p (FNpz c [(match key with Some k => k | None => arr_key 0 end, a)])).
Proof. exact (@npz_overwrite_false_missing). Qed.
Print Assumptions npz_overwrite_false_no_file.

Theorem default_key_search_terminates :
  forall keys k, exists s, first_unused (S (List.length keys)) k keys = Some s.
Proof. exact first_unused_total. Qed.
Print Assumptions default_key_search_terminates.

Theorem default_key_is_first_unused :
  forall f k keys s, first_unused f k keys = Some s ->
    exists j, s = arr_key j /\ (k <= j)%nat /\ ~ In s keys /\
              forall i, (k <= i < j)%nat -> In (arr_key i) keys.
Proof. exact first_unused_spec. Qed.
Print Assumptions default_key_is_first_unused.

(* ---- saving is repeatable ---- *)
Theorem save_repeatable :
  forall V (C : VClass V) (fs : fsys V) (o : obj V) (a : arr V) p key c ow,
    fs_wf fs -> saveable C o a -> key_ok key ->
    exists fs', save C fs o p key c ow = Ok fs' /\ fs_wf fs' /\
                (forall q, q <> p -> fs' q = fs q) /\ exists f, fs' p = Some f.
Proof. exact (@save_ok). Qed.
Print Assumptions save_repeatable.

Theorem save_sequence_succeeds :
  forall V (C : VClass V) (rs : list (save_req (V := V))) (fs : fsys V),
    fs_wf fs -> Forall (req_ok C) rs -> exists fs', run_saves C fs rs = Ok fs' /\ fs_wf fs'.
Proof. exact (@save_sequence_ok). Qed.
Print Assumptions save_sequence_succeeds.

Theorem save_twice_same_files :
  forall V (C : VClass V) (fs : fsys V) o a p key c,
    saveable C o a -> key_ok key ->
    forall fs', save C fs o p key c true = Ok fs' ->
    exists fs'', save C fs' o p key c true = Ok fs'' /\ forall q, fs'' q = fs' q.
Proof. exact (@save_twice_same). Qed.
Print Assumptions save_twice_same_files.

(* ---- the loader's sanity check on any 1-D array ---- *)
Theorem loader_output_passes_check :
  forall V (C : VClass V) reinterp cast (a a' : arr V),
    sanitize C reinterp cast a = Ok a' ->
    passes C a' /\
    ((a_dt a' = a_dt a /\ a_flat a' = a_flat a) \/
     exists view castto,
       sanitize_reinterpret (a_dt a) = Ok (view, castto) /\
       a_dt a' = castto /\ a_flat a' = a_flat (second_view reinterp cast a view castto)).
Proof. exact (@sanitize_ok). Qed.
Print Assumptions loader_output_passes_check.

Theorem loader_rejects_when_both_views_invalid :
  forall V (C : VClass V) reinterp cast (a : arr V),
    (forall a', sanitize_try C a <> Ok (a', true)) ->
    (forall view castto a', sanitize_reinterpret (a_dt a) = Ok (view, castto) ->
                            sanitize_try C (second_view reinterp cast a view castto) <> Ok (a', true)) ->
    exists e, sanitize C reinterp cast a = Raise e.
Proof. exact (@sanitize_both_invalid). Qed.
Print Assumptions loader_rejects_when_both_views_invalid.

(* the float32 / float64 re-interpretation heuristic does what it is for *)
Theorem raw_float32_statistics_load :
  forall V (C : VClass V) reinterp cast is_table sf_ext (fs : fsys V) p r0 r1 c kw nv,
    fs p = Some (FRaw DF32 (r0 ++ r1)) ->
    kw_force_as kw = Some FaFile -> kw_dtype kw = None ->
    (exists a1, sanitize_try C (Arr1 DF64 (reinterp DF32 DF64 (r0 ++ r1))) = Ok (a1, false)) ->
    reinterp DF64 DF32 (reinterp DF32 DF64 (r0 ++ r1)) = r0 ++ r1 ->
    List.length r0 = List.length r1 -> last_opt r0 = Some c ->
    v_intlike C (cast DF32 DF64 c) = true -> v_nonneg C (cast DF32 DF64 c) = true ->
    forallb (v_nonneg C) (map (cast DF32 DF64) r1) = true ->
    init C reinterp cast is_table sf_ext fs (Some p) nv kw =
    Ok (Obj (Some (Arr2 DF64 (map (cast DF32 DF64) r0) (map (cast DF32 DF64) r1))) nv).
Proof. exact (@load_raw_float32). Qed.
Print Assumptions raw_float32_statistics_load.

(* ---- regression of the fixed finding: the validity test as it was before
        commit ff42a61 rejects good statistics with a negative sum ---- *)
Theorem validity_before_fix_refuted :
  exists r0 r1 c, good_stats ZC (Arr2 DF64 r0 r1) /\ last_opt r0 = Some c /\
                  stats_valid ZC c r0 r1 = true /\ stats_valid_before_fix ZC c r0 r1 = false.
Proof. exact validity_before_fix_rejects_negative_sums. Qed.
Print Assumptions validity_before_fix_refuted.
