(* C17 - the predicates the theorems are stated with (definitions only). *)
From Coq Require Import List String Bool ZArith Arith.
From Verif Require Import lib.C17_Base gen.StatsIO C17.Model.
Import ListNotations.
Open Scope bool_scope.
Open Scope list_scope.

Section Spec.
  Context {V : Type}.
  Variable C : VClass V.
  Variable is_table sf_ext : string -> bool.

  (* which decoder a load of path p with keyword arguments kw goes through:
     the one forced by force_as=..., else the one inferred from the path *)
  Definition resolves (kw : kwargs) (p : string) (f : force_as) : Prop :=
    match kw_force_as kw with
    | Some f' => f' = f
    | None => infer_force_as (is_table p) (sf_ext p) p = Ok f
    end.

  (* object o holds statistics a and save accepts them (have_stats is true) *)
  Definition saveable (o : obj V) (a : arr V) : Prop :=
    o_stats o = Some a /\ have_stats C o = Ok true.

  (* what every array produced by accumulate looks like: a float64 2 x (F+1)
     matrix whose count is a non-zero, whole, non-negative number and whose
     second row (sums of squares, and a 0) is non-negative.  Nothing is asked
     of the sums, the first F entries of row 0. *)
  Definition good_stats (a : arr V) : Prop :=
    exists r0 r1 c,
      a = Arr2 DF64 r0 r1 /\ List.length r0 = List.length r1 /\ last_opt r0 = Some c /\
      v_truthy C c = true /\ v_intlike C c = true /\ v_nonneg C c = true /\
      forallb (v_nonneg C) r1 = true.

  (* archive entries that np.savez can store under their own names: none is
     called like a parameter of np.savez itself (boolean test) *)
  Definition entries_okb (es : list (string * arr V)) : bool :=
    negb (str_mem savez_positional_name (map fst es)) &&
    negb (str_mem savez_keyword_name (map fst es)).
  Definition entries_ok (es : list (string * arr V)) : Prop := entries_okb es = true.

  (* a key= argument of save that np.savez can store (boolean test) *)
  Definition key_okb (key : option string) : bool :=
    match key with
    | Some k => negb (String.eqb k savez_positional_name) && negb (String.eqb k savez_keyword_name)
    | None => true
    end.
  Definition key_ok (key : option string) : Prop := key_okb key = true.

  (* the entries the archive branch of save starts from *)
  Definition npz_base (fs : fsys V) (p : string) (overwrite : bool) : list (string * arr V) :=
    if overwrite then [] else match fs p with Some (FNpz _ es) => es | _ => [] end.

  (* the key it stores the statistics under *)
  Definition npz_key (key : option string) (base : list (string * arr V)) : string :=
    match key with
    | Some k => k
    | None => match first_unused (S (List.length base)) 0 (map fst base) with
              | Some k => k
              | None => EmptyString
              end
    end.

  (* the archive branch can run: nothing is read (overwrite), or there is no
     file, or the file is an archive np.savez can rewrite *)
  Definition npz_ready (fs : fsys V) (p : string) (overwrite : bool) : Prop :=
    overwrite = true \/ fs p = None \/
    exists c0 es, fs p = Some (FNpz c0 es) /\ entries_ok es.

  (* every file has the kind its name gives it under save (so: it was written
     by save, or is a foreign file of that kind) *)
  Definition file_ok (p : string) (f : file V) : Prop :=
    match save_target p, f with
    | TNpy, FNpy _ => True
    | TNpz, FNpz _ es => entries_ok es
    | TRaw, FRaw _ _ => True
    | _, _ => False
    end.

  Definition fs_wf (fs : fsys V) : Prop := forall p f, fs p = Some f -> file_ok p f.

  (* a sequence of save calls, by any objects, on any paths *)
  Record save_req := SaveReq {
    sr_obj : obj V; sr_path : string; sr_key : option string;
    sr_compress : bool; sr_overwrite : bool }.

  Fixpoint run_saves (fs : fsys V) (rs : list save_req) : res (fsys V) :=
    match rs with
    | [] => Ok fs
    | r :: t =>
      fs' <- save C fs (sr_obj r) (sr_path r) (sr_key r) (sr_compress r) (sr_overwrite r) ;;
      run_saves fs' t
    end.

  Definition req_ok (r : save_req) : Prop :=
    (exists a, saveable (sr_obj r) a) /\ key_ok (sr_key r).

  (* the loader's arguments fit the file kind the path selects under save: no
     explicit dtype; .npy / .npz decoded as such (inferred or forced), anything
     else read with force_as="file"; for an archive, the key the entry was stored
     under (non-empty), or no key at all when the entry is the first of a fresh or
     overwritten archive *)
  Definition load_fits (fs : fsys V) (p : string) (key : option string) (ow : bool) (kw : kwargs) : Prop :=
    kw_dtype kw = None /\
    match save_target p with
    | TNpy => resolves kw p FaNpy
    | TRaw => kw_force_as kw = Some FaFile
    | TNpz =>
      resolves kw p FaNpz /\ npz_ready fs p ow /\ key_ok key /\
      ((kw_key kw = Some (npz_key key (npz_base fs p ow)) /\ key <> Some EmptyString) \/
       (kw_key kw = None /\ key = None /\ (ow = true \/ fs p = None)))
    end.

  (* an array the loader's sanity check accepts *)
  Definition passes (a : arr V) : Prop :=
    exists d r0 r1 c, a = Arr2 d r0 r1 /\ last_opt r0 = Some c /\ stats_valid C c r0 r1 = true /\
                      List.length r0 = List.length r1.
End Spec.

(* the count after n feature vectors: 0 + 1 + ... + 1 in the number type *)
Fixpoint count_value {V : Type} (vzero vone : V) (vadd : V -> V -> V) (n : nat) : V :=
  match n with O => vzero | S k => vadd (count_value vzero vone vadd k) vone end.

(* trivial oracles used where a theorem is about integers and the oracles are
   never consulted (the theorems that matter are proved for arbitrary ones) *)
Definition no_reinterp : dtype -> dtype -> list Z -> list Z := fun _ _ l => l.
Definition id_cast : dtype -> dtype -> Z -> Z := fun _ _ v => v.
Definition never : string -> bool := fun _ => false.
