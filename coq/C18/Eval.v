(* C18 - evaluation of the generated programs on recorded calls of the
   implementation (used by the correspondence files the harness generates;
   definitions only). *)
From Coq Require Import ZArith List Bool.
From Flocq Require Import Core BinarySingleNaN.
From Verif Require Import C18.Model C18.F64 gen.Pre.
Import ListNotations.
Open Scope Z_scope.

Definition prog_of (w : which) : list stmt :=
  match w with WPreemph => preemph_prog | WDither => dither_prog end.

Definition nrun (c : ncase) : nres :=
  let x := map val_of (n_x c) in
  let s := run nops ngen (val_of (n_coeff c)) (n_in_place c) (n_axis c) (prog_of (n_which c))
               (Build_arr (n_dtype c) x) (map val_of (n_g c)) in
  let o := out_arr s in
  {| r_ok := match o with Some _ => true | None => false end;
     r_out := match o with Some a => map repr_of (a_data a) | None => [] end;
     r_dt := option_map (@a_dt val) o;
     r_after := map repr_of (a_data (input_after s));
     r_alias := aliases_input s;
     r_warn := s_warn s;
     r_castable :=
       if is_float (n_dtype c) then true
       else forallb (castable (n_dtype c)) (a_data (nth 1%nat (s_heap s) (Build_arr F64 []))) |}.

Definition dt_eqb (a : option dtype) (d : dtype) : bool :=
  match a with Some x => dtype_eqb x d | None => false end.

(* None = the model reproduces the observation bit for bit *)
Definition ncheck (c : ncase) : option nres :=
  let r := nrun c in
  if r_ok r && dt_eqb (r_dt r) (n_dtype c) && reprs_eqb (r_out r) (n_out c)
     && reprs_eqb (r_after r) (n_after c) && Bool.eqb (r_alias r) (n_alias c)
     && Bool.eqb (r_warn r) (n_warn c)
  then None else Some r.

(* flat, easily parsed form of what the model computed *)
Definition bz (b : bool) : Z := if b then 1 else 0.
Definition repr_t (r : repr) : Z * Z * Z * Z :=
  match r with
  | RInt z => (0, 0, z, 0)
  | RFin s m e => (1, bz s, m, e)
  | RZero s => (2, bz s, 0, 0)
  | RInf s => (3, bz s, 0, 0)
  | RNan => (4, 0, 0, 0)
  end.
Definition nres_t (r : nres) :=
  (r_ok r, map repr_t (r_out r), map repr_t (r_after r), r_alias r, r_castable r, r_warn r).

Fixpoint mismatches (i : Z) (l : list ncase) : list (Z * nres) :=
  match l with
  | [] => []
  | c :: t => match ncheck c with
              | None => mismatches (i + 1) t
              | Some r => (i, r) :: mismatches (i + 1) t
              end
  end.

(* torch functional forms *)
Record tcase := {
  tc_which : which;
  tc_f32 : bool;               (* float32 tensor (else float64) *)
  tc_coeff : inp;
  tc_x : list inp;
  tc_g : list inp;             (* what torch.randn_like yields next *)
  tc_out : list repr
}.

Definition tprog_of (w : which) : tprog :=
  match w with WPreemph => torch_preemph_prog | WDither => torch_dither_prog end.

Definition trun_f {prec emax} (Hp : Prec_gt_0 prec) (Hm : Prec_lt_emax prec emax) (c : tcase)
  : option (list repr) :=
  let cv := tval_of Hp Hm in
  option_map (map repr_of_b)
    (fst (trun (fops prec emax Hp Hm) (lgen (B754_zero false)) (cv (tc_coeff c))
               (tprog_of (tc_which c)) (map cv (tc_x c)) (map cv (tc_g c)))).

Definition trun_case (c : tcase) : option (list repr) :=
  if tc_f32 c then trun_f prec32 emax32 c else trun_f prec64 emax64 c.

Definition tcheck (c : tcase) : option (option (list repr)) :=
  match trun_case c with
  | Some o => if reprs_eqb o (tc_out c) then None else Some (Some o)
  | None => Some None
  end.

Definition nmism (l : list ncase) := map (fun p => (fst p, nres_t (snd p))) (mismatches 0 l).
Definition tmism_t (l : list (Z * option (list repr))) :=
  map (fun p => (fst p, match snd p with Some o => (true, map repr_t o) | None => (false, []) end)) l.

Fixpoint tmismatches (i : Z) (l : list tcase) : list (Z * option (list repr)) :=
  match l with
  | [] => []
  | c :: t => match tcheck c with
              | None => tmismatches (i + 1) t
              | Some r => (i, r) :: tmismatches (i + 1) t
              end
  end.

Definition tmism (l : list tcase) := tmism_t (tmismatches 0 l).
