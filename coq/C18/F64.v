(* C18 - the IEEE-754 instance of the sample operations of Model.v, built on
   Flocq's formalisation of binary floating point (BinarySingleNaN: Bmult,
   Bplus, Bminus with round-to-nearest-even; Btrunc; binary_normalize).
   DEFINITIONS ONLY (theorems are in F64Proofs.v).

   numpy instance [nops]: a sample is an integer (arrays of integer dtype) or a
   binary64 number (arrays of float dtype hold values representable in their
   dtype).  [astype] to float64 converts an integer with correct rounding and
   widens a float exactly; [astype] from float64 truncates toward zero for the
   integer dtypes (C cast; out-of-range results are undefined behaviour in C
   and are NOT modelled: [in_range] says when the result is meaningful) and
   rounds to nearest even for float32 / float16.

   torch instance [fops prec emax]: tensors of one float format, no casts. *)
From Coq Require Import ZArith List Bool.
From Flocq Require Import Core BinarySingleNaN.
From Verif Require Import C18.Model.
Import ListNotations.
Open Scope Z_scope.

#[export] Instance prec64 : Prec_gt_0 53. Proof. reflexivity. Qed.
#[export] Instance emax64 : Prec_lt_emax 53 1024. Proof. reflexivity. Qed.
#[export] Instance prec32 : Prec_gt_0 24. Proof. reflexivity. Qed.
#[export] Instance emax32 : Prec_lt_emax 24 128. Proof. reflexivity. Qed.
#[export] Instance prec16 : Prec_gt_0 11. Proof. reflexivity. Qed.
#[export] Instance emax16 : Prec_lt_emax 11 16. Proof. reflexivity. Qed.

Definition b64 := binary_float 53 1024.
Definition b32 := binary_float 24 128.

(* m * 2^e rounded to the format (exact whenever it is representable) *)
Definition mk64 (m e : Z) : b64 := binary_normalize 53 1024 _ _ mode_NE m e false.
Definition mk32 (m e : Z) : b32 := binary_normalize 24 128 _ _ mode_NE m e false.

(* round a binary64 number to a narrower format and widen it back *)
Definition round_via (prec emax : Z) (Hp : Prec_gt_0 prec) (Hm : Prec_lt_emax prec emax)
           (f : b64) : b64 :=
  match f with
  | B754_finite s m e _ =>
      match binary_normalize prec emax Hp Hm mode_NE (cond_Zopp s (Zpos m)) e s with
      | B754_finite s' m' e' _ => binary_normalize 53 1024 _ _ mode_NE (cond_Zopp s' (Zpos m')) e' s'
      | B754_zero s' => B754_zero s'
      | B754_infinity s' => B754_infinity s'
      | B754_nan => B754_nan
      end
  | _ => f
  end.

Inductive val := VI (z : Z) | VF (f : b64).

Definition to_f (v : val) : b64 :=
  match v with VI z => mk64 z 0 | VF f => f end.

Definition ncast (from to : dtype) (v : val) : val :=
  match to with
  | F64 => VF (to_f v)
  | F32 => VF (round_via 24 128 _ _ (to_f v))
  | F16 => VF (round_via 11 16 _ _ (to_f v))
  | _ => VI (Btrunc (to_f v))
  end.

Definition nops : ops val :=
  {| o_zero := VF (B754_zero false);
     o_add := fun a b => VF (Bplus mode_NE (to_f a) (to_f b));
     o_sub := fun a b => VF (Bminus mode_NE (to_f a) (to_f b));
     o_mul := fun a b => VF (Bmult mode_NE (to_f a) (to_f b));
     o_rint := fun a => VF (Bnearbyint mode_NE (to_f a));
     o_cast := ncast |}.

(* the generator state seen through its output: the deviates still to come *)
Definition lgen {A} (z : A) : rngm A (list A) :=
  {| g_next := fun s k => nth k s z; g_adv := fun s n => skipn n s |}.

Definition ngen : rngm val (list val) := lgen (VF (B754_zero false)).

(* range of an integer dtype (meaningful results of the C cast) *)
Definition int_range (d : dtype) : option (Z * Z) :=
  match d with
  | I8 => Some (-128, 127) | I16 => Some (-32768, 32767)
  | I32 => Some (-2147483648, 2147483647)
  | I64 => Some (-9223372036854775808, 9223372036854775807)
  | U8 => Some (0, 255) | U16 => Some (0, 65535) | U32 => Some (0, 4294967295)
  | U64 => Some (0, 18446744073709551615)
  | _ => None
  end.

Definition finite_val (v : val) : bool :=
  match v with VI _ => true | VF f => is_finite f end.

(* is the float64 value [w] one whose cast to dtype d is defined *)
Definition castable (d : dtype) (w : val) : bool :=
  match int_range d with
  | Some (lo, hi) => finite_val w && (lo <=? Btrunc (to_f w)) && (Btrunc (to_f w) <=? hi)
  | None => true
  end.

(* ---- printable / comparable form of a sample: bit-exact *)
Inductive repr := RInt (z : Z) | RFin (s : bool) (m e : Z) | RZero (s : bool) | RInf (s : bool) | RNan.

Definition repr_of_b {prec emax} (f : binary_float prec emax) : repr :=
  match f with
  | B754_finite s m e _ => RFin s (Zpos m) e
  | B754_zero s => RZero s
  | B754_infinity s => RInf s
  | B754_nan => RNan
  end.
Definition repr_of (v : val) : repr :=
  match v with VI z => RInt z | VF f => repr_of_b f end.

Definition repr_eqb (a b : repr) : bool :=
  match a, b with
  | RInt x, RInt y => x =? y
  | RFin s m e, RFin s' m' e' => Bool.eqb s s' && (m =? m') && (e =? e')
  | RZero s, RZero s' => Bool.eqb s s'
  | RInf s, RInf s' => Bool.eqb s s'
  | RNan, RNan => true
  | _, _ => false
  end.

Fixpoint reprs_eqb (a b : list repr) : bool :=
  match a, b with
  | [], [] => true
  | x :: a', y :: b' => repr_eqb x y && reprs_eqb a' b'
  | _, _ => false
  end.

(* input notation used by the generated case files *)
Inductive inp := NI (z : Z) | NF (m e : Z) | NZ (s : bool) | NInf (s : bool) | NNan.
Definition val_of (i : inp) : val :=
  match i with
  | NI z => VI z
  | NF m e => VF (mk64 m e)
  | NZ s => VF (B754_zero s)
  | NInf s => VF (B754_infinity s)
  | NNan => VF B754_nan
  end.

(* ---- torch: one float format, no casts *)
Definition fops (prec emax : Z) (Hp : Prec_gt_0 prec) (Hm : Prec_lt_emax prec emax)
  : ops (binary_float prec emax) :=
  {| o_zero := B754_zero false;
     o_add := Bplus mode_NE; o_sub := Bminus mode_NE; o_mul := Bmult mode_NE;
     o_rint := Bnearbyint mode_NE;
     o_cast := fun _ _ x => x |}.
Definition fops64 := fops 53 1024 _ _.
Definition fops32 := fops 24 128 _ _.

Definition tval_of {prec emax} (Hp : Prec_gt_0 prec) (Hm : Prec_lt_emax prec emax) (i : inp)
  : binary_float prec emax :=
  match i with
  | NI z => binary_normalize prec emax Hp Hm mode_NE z 0 false
  | NF m e => binary_normalize prec emax Hp Hm mode_NE m e false
  | NZ s => B754_zero s
  | NInf s => B754_infinity s
  | NNan => B754_nan
  end.

(* ---- one recorded call of the implementation, and what the model says *)
Inductive which := WPreemph | WDither.

Record ncase := {
  n_which : which;
  n_coeff : inp;
  n_in_place : bool;
  n_axis : option Z;
  n_dtype : dtype;
  n_x : list inp;
  n_g : list inp;              (* deviates the generator yields next (Dither) *)
  n_out : list repr;           (* observed: returned values *)
  n_after : list repr;         (* observed: input array after the call *)
  n_alias : bool;              (* observed: result shares memory with the input *)
  n_warn : bool                (* observed: a DeprecationWarning was issued *)
}.

Record nres := {
  r_ok : bool;                 (* no exception, a result was returned *)
  r_out : list repr;
  r_dt : option dtype;
  r_after : list repr;
  r_alias : bool;
  r_warn : bool;
  r_castable : bool            (* every cast back to the dtype was defined *)
}.
