(* C18 - lemmas about the IEEE-754 instance (F64.v), resting on Flocq's
   correctness theorems for Bmult / Bplus / Bminus / Btrunc / binary_normalize. *)
From Coq Require Import ZArith Reals Lia Lra List Bool.
From Flocq Require Import Core BinarySingleNaN Relative.
From Verif Require Import C18.Model gen.Pre C18.Run C18.Proofs C18.F64 C18.Stats.
Import ListNotations.
Open Scope R_scope.

Notation fexp64 := (SpecFloat.fexp 53 1024).
Notation rnd64 := (round radix2 fexp64 ZnearestE).

(* a dyadic number n * 2^e with |n| < 2^53 and e >= -1074 is a binary64 number *)
Lemma dyadic_format : forall n e, (Z.abs n < 2 ^ 53)%Z -> (-1074 <= e)%Z ->
  generic_format radix2 fexp64 (IZR n * bpow radix2 e).
Proof.
  intros n e Hn He.
  change fexp64 with (FLT_exp (-1074) 53).
  apply generic_format_FLT.
  apply FLT_spec with (Float radix2 n e); [reflexivity| |exact He].
  exact Hn.
Qed.

Lemma dyadic_round : forall n e, (Z.abs n < 2 ^ 53)%Z -> (-1074 <= e)%Z ->
  rnd64 (IZR n * bpow radix2 e) = IZR n * bpow radix2 e.
Proof. intros. apply round_generic; [auto with typeclass_instances|]. now apply dyadic_format. Qed.

Lemma dyadic_small : forall n e, (Z.abs n < 2 ^ 53)%Z -> (e <= 0)%Z ->
  Rabs (IZR n * bpow radix2 e) < bpow radix2 1024.
Proof.
  intros n e Hn He.
  rewrite Rabs_mult, (Rabs_pos_eq (bpow radix2 e)) by apply bpow_ge_0.
  rewrite <- abs_IZR.
  assert (H1 : IZR (Z.abs n) < bpow radix2 53).
  { change (bpow radix2 53) with (IZR (2 ^ 53)). now apply IZR_lt. }
  assert (H2 : bpow radix2 e <= 1).
  { change 1 with (bpow radix2 0). now apply bpow_le. }
  assert (H3 : 0 <= IZR (Z.abs n)) by (apply IZR_le; lia).
  assert (H4 : 0 < bpow radix2 e) by apply bpow_gt_0.
  assert (H5 : bpow radix2 53 < bpow radix2 1024) by (apply bpow_lt; lia).
  apply Rle_lt_trans with (IZR (Z.abs n) * 1); [|lra].
  apply Rmult_le_compat_l; assumption.
Qed.

(* one step of the recurrence, b - c * a, is EXACT in binary64 when the operands
   are dyadic numbers whose integer numerators stay below 2^53: this is what
   makes the integer-coded correspondence runs exact *)
Lemma b64_step_exact : forall (c a b : b64) (m A B k j : Z),
  is_finite c = true -> is_finite a = true -> is_finite b = true ->
  B2R c = IZR m * bpow radix2 (-k) ->
  B2R a = IZR A * bpow radix2 (-j) ->
  B2R b = IZR B * bpow radix2 (-j) ->
  (0 <= k)%Z -> (0 <= j)%Z -> (k + j <= 1074)%Z ->
  (Z.abs (m * A) < 2 ^ 53)%Z -> (Z.abs (B * 2 ^ k - m * A) < 2 ^ 53)%Z ->
  let y := Bminus mode_NE b (Bmult mode_NE c a) in
  is_finite y = true /\ B2R y = B2R b - B2R c * B2R a.
Proof.
  intros c a b m A B k j Fc Fa Fb Hc Ha Hb Hk Hj Hkj H1 H2 y.
  assert (P : B2R c * B2R a = IZR (m * A) * bpow radix2 (-(k + j))).
  { rewrite Hc, Ha, mult_IZR. replace (-(k + j))%Z with (-k + -j)%Z by lia. rewrite bpow_plus. ring. }
  assert (D : B2R b - B2R c * B2R a = IZR (B * 2 ^ k - m * A) * bpow radix2 (-(k + j))).
  { rewrite P, Hb, minus_IZR, !mult_IZR.
    change 2%Z with (radix_val radix2). rewrite IZR_Zpower by exact Hk.
    replace (-j)%Z with (k + -(k + j))%Z by lia. rewrite bpow_plus. ring. }
  generalize (Bmult_correct 53 1024 _ _ mode_NE c a). cbn [round_mode].
  rewrite P, dyadic_round by (assumption || lia).
  rewrite Rlt_bool_true by (apply dyadic_small; assumption || lia).
  rewrite Fc, Fa. intros (M1 & M2 & _). cbn [andb] in M2.
  generalize (Bminus_correct 53 1024 _ _ mode_NE b (Bmult mode_NE c a) Fb M2). cbn [round_mode].
  rewrite M1, <- P, D, dyadic_round by (assumption || lia).
  rewrite Rlt_bool_true by (apply dyadic_small; assumption || lia).
  intros (S1 & S2 & _). split; [exact S2|exact S1].
Qed.

(* ---- the whole recurrence ------------------------------------------------ *)
Definition vR (v : val) : R := B2R (to_f v).

(* the real-number instance of the sample operations is Stats.Rops *)

(* a float sample that is z * 2^-j with |z| <= N *)
Definition dy (j N : Z) (v : val) : Prop :=
  exists f z, v = VF f /\ is_finite f = true /\ B2R f = IZR z * bpow radix2 (-j) /\ (Z.abs z <= N)%Z.

Section Exact.
Variables (cf : b64) (m k j N : Z).
Hypothesis Fc : is_finite cf = true.
Hypothesis Hc : B2R cf = IZR m * bpow radix2 (-k).
Hypothesis Hk : (0 <= k)%Z.
Hypothesis Hj : (0 <= j)%Z.
Hypothesis Hkj : (k + j <= 1074)%Z.
Hypothesis HN : ((2 ^ k + Z.abs m) * N < 2 ^ 53)%Z.

Lemma bounds_ok : forall A B, (Z.abs A <= N)%Z -> (Z.abs B <= N)%Z ->
  (Z.abs (m * A) < 2 ^ 53)%Z /\ (Z.abs (B * 2 ^ k - m * A) < 2 ^ 53)%Z.
Proof.
  intros A B HA HB.
  assert (P : (0 < 2 ^ k)%Z) by (apply Z.pow_pos_nonneg; lia).
  assert (E1 : (Z.abs (m * A) <= Z.abs m * N)%Z).
  { rewrite Z.abs_mul. apply Z.mul_le_mono_nonneg_l; lia. }
  assert (E2 : (Z.abs (B * 2 ^ k) <= 2 ^ k * N)%Z).
  { rewrite Z.abs_mul, (Z.abs_eq (2 ^ k)) by lia. rewrite Z.mul_comm.
    apply Z.mul_le_mono_nonneg_l; lia. }
  assert (E3 : (0 <= Z.abs m * N)%Z) by (apply Z.le_trans with (Z.abs (m * A)); lia).
  assert (E4 : (0 <= 2 ^ k * N)%Z) by (apply Z.le_trans with (Z.abs (B * 2 ^ k)); lia).
  split; lia.
Qed.

Lemma rec_exact : forall t p,
  dy j N (VF p) -> Forall (dy j N) t ->
  map vR (preemph_rec nops (VF cf) (VF p) t) = preemph_rec Rops (B2R cf) (B2R p) (map vR t)
  /\ Forall (fun v => exists f, v = VF f /\ is_finite f = true) (preemph_rec nops (VF cf) (VF p) t).
Proof.
  induction t as [|v t IH]; intros p Hp Ht; [split; [reflexivity|constructor]|].
  inversion Ht as [|? ? Hv Ht']; subst.
  destruct Hv as (b & B & -> & Fb & Rb & NB).
  destruct Hp as (p' & A & Ep & Fa & Ra & NA). injection Ep as <-.
  destruct (bounds_ok A B NA NB) as (B1 & B2).
  destruct (b64_step_exact cf p b m A B k j Fc Fa Fb Hc Ra Rb Hk Hj Hkj B1 B2) as (Fy & Ry).
  cbn [preemph_rec map]. cbn [o_sub o_mul nops Rops ring_ops to_f].
  destruct (IH b) as (IH1 & IH2); [now exists b, B|assumption|].
  split.
  - f_equal; [exact Ry|]. exact IH1.
  - constructor; [eexists; split; [reflexivity|exact Fy]|exact IH2].
Qed.

Lemma spec_exact : forall w, Forall (dy j N) w ->
  map vR (preemph_spec nops (VF cf) w) = preemph_spec Rops (B2R cf) (map vR w)
  /\ Forall (fun v => exists f, v = VF f /\ is_finite f = true) (preemph_spec nops (VF cf) w).
Proof.
  intros [|v t] H; [split; [reflexivity|constructor]|].
  inversion H as [|? ? Hv Ht]; subst.
  destruct Hv as (b & B & -> & Fb & Rb & NB).
  destruct (rec_exact t b) as (E1 & E2); [now exists b, B|assumption|].
  cbn [preemph_spec map]. split.
  - f_equal. exact E1.
  - constructor; [now exists b|exact E2].
Qed.

(* float64 signal: Preemphasize.apply returns exactly the real-number recurrence *)
Lemma preemph_f64_exact_l : forall ip ax x r, axis_ok ax = true -> Forall (dy j N) x ->
  exists y, out_arr (run nops ngen (VF cf) ip ax preemph_prog (Build_arr F64 x) r)
            = Some (Build_arr F64 y) /\
            map vR y = preemph_spec Rops (B2R cf) (map vR x).
Proof.
  intros ip ax x r Hax Hx.
  destruct (preemph_values_l nops ngen (VF cf) ip ax F64 x r Hax) as (_ & A).
  rewrite !conv_same in A. eexists. split; [exact A|]. now apply spec_exact.
Qed.
End Exact.

(* ---- integer dtypes ------------------------------------------------------- *)
Lemma mk64_int : forall z, (Z.abs z < 2 ^ 53)%Z ->
  is_finite (mk64 z 0) = true /\ B2R (mk64 z 0) = IZR z.
Proof.
  intros z Hz. unfold mk64.
  generalize (binary_normalize_correct 53 1024 _ _ mode_NE z 0 false). cbn [round_mode].
  cbv zeta. unfold F2R. cbn [Fnum Fexp].
  rewrite dyadic_round by (assumption || lia).
  rewrite Rlt_bool_true by (apply dyadic_small; assumption || lia).
  intros (A & B & _). split; [exact B|]. rewrite A. cbn [bpow]. ring.
Qed.

Lemma Btrunc_real : forall f : b64, Btrunc f = Ztrunc (B2R f).
Proof.
  intros f. apply eq_IZR. rewrite Btrunc_correct by exact emax64.
  unfold round, scaled_mantissa, cexp, FIX_exp, F2R. cbn [Fnum Fexp Z.opp bpow]. rewrite !Rmult_1_r. reflexivity.
Qed.

Lemma int_roundtrip : forall z, (Z.abs z < 2 ^ 53)%Z -> Btrunc (mk64 z 0) = z.
Proof.
  intros z Hz. rewrite Btrunc_real. destruct (mk64_int z Hz) as (_ & ->). apply Ztrunc_IZR.
Qed.

Lemma conv_int_to_f64 : forall d zs, is_float d = false ->
  conv nops d F64 (map VI zs) = map (fun z => VF (mk64 z 0)) zs.
Proof.
  intros d zs Hd. unfold conv. replace (dtype_eqb d F64) with false by (now destruct d).
  rewrite map_map. reflexivity.
Qed.

Lemma conv_f64_to_int : forall d y, is_float d = false ->
  conv nops F64 d y = map (fun v => VI (Ztrunc (vR v))) y.
Proof.
  intros d y Hd. unfold conv. replace (dtype_eqb F64 d) with false by (now destruct d).
  apply map_ext. intros v. unfold vR. rewrite <- Btrunc_real. now destruct d.
Qed.

(* integer signal, dyadic coefficient: the result is the exact real recurrence
   truncated toward zero (the C cast) *)
Lemma preemph_int_exact_l : forall (cf : b64) (m k N : Z) d zs ip ax r,
  is_finite cf = true -> B2R cf = IZR m * bpow radix2 (-k) ->
  (0 <= k <= 1074)%Z -> ((2 ^ k + Z.abs m) * N < 2 ^ 53)%Z ->
  is_float d = false -> axis_ok ax = true -> Forall (fun z => (Z.abs z <= N)%Z) zs ->
  out_arr (run nops ngen (VF cf) ip ax preemph_prog (Build_arr d (map VI zs)) r) =
  Some (Build_arr d (map (fun y => VI (Ztrunc y)) (preemph_spec Rops (B2R cf) (map IZR zs)))).
Proof.
  intros cf m k N d zs ip ax r Fc Hc Hk HN Hd Hax Hz.
  destruct (preemph_values_l nops ngen (VF cf) ip ax d (map VI zs) r Hax) as (_ & A).
  rewrite A. f_equal. f_equal.
  rewrite conv_int_to_f64, conv_f64_to_int by assumption.
  assert (P : (0 < 2 ^ k)%Z) by (apply Z.pow_pos_nonneg; lia).
  assert (W : Forall (dy 0 N) (map (fun z => VF (mk64 z 0)) zs)).
  { apply Forall_forall. intros v Hv. apply in_map_iff in Hv. destruct Hv as (z & <- & Hin).
    rewrite Forall_forall in Hz. specialize (Hz z Hin).
    assert (Z.abs z < 2 ^ 53)%Z by nia.
    destruct (mk64_int z H) as (F1 & F2).
    exists (mk64 z 0), z. repeat split; try assumption. rewrite F2. cbn [Z.opp bpow]. ring. }
  destruct (spec_exact cf m k 0 N Fc Hc (proj1 Hk) (Z.le_refl 0) ltac:(lia) HN _ W) as (E & _).
  rewrite <- (map_map vR (fun y => VI (Ztrunc y))), E. f_equal. f_equal.
  rewrite map_map. apply map_ext_in. intros z Hin. unfold vR. cbn [to_f].
  rewrite Forall_forall in Hz. specialize (Hz z Hin).
  assert (Z.abs z < 2 ^ 53)%Z by nia. now destruct (mk64_int z H).
Qed.

(* first sample of an integer signal: unchanged as soon as it is below 2^53 *)
Lemma preemph_int_first_l : forall (c : val) d z zs ip ax r,
  is_float d = false -> axis_ok ax = true -> (Z.abs z < 2 ^ 53)%Z ->
  exists y, out_arr (run nops ngen c ip ax preemph_prog (Build_arr d (map VI (z :: zs))) r)
            = Some (Build_arr d (VI z :: y)).
Proof.
  intros c d z zs ip ax r Hd Hax Hz.
  destruct (preemph_values_l nops ngen c ip ax d (map VI (z :: zs)) r Hax) as (_ & A).
  rewrite A. rewrite conv_int_to_f64 by assumption. cbn [map preemph_spec].
  unfold conv at 1. replace (dtype_eqb F64 d) with false by (now destruct d).
  cbn [map]. eexists. f_equal. f_equal. f_equal.
  replace (o_cast nops F64 d (VF (mk64 z 0))) with (VI (Btrunc (mk64 z 0))) by (now destruct d).
  now rewrite int_roundtrip.
Qed.

(* ---- coefficient 0 in IEEE arithmetic ------------------------------------- *)
(* x + (0 + (+-0) * g) is x again (as a number; bit for bit unless x = -0) *)
Lemma b64_dither_zero : forall (sz : bool) (x g : b64), is_finite g = true ->
  let y := Bplus mode_NE x (Bplus mode_NE (B754_zero false) (Bmult mode_NE (B754_zero sz) g)) in
  B2R y = B2R x /\ (x <> B754_zero true -> y = x).
Proof.
  intros sz x g Hg.
  destruct g as [sg|sg| |sg mg eg Hgb]; try discriminate Hg;
  destruct x as [sx|sx| |sx mx ex Hxb]; destruct sz; try destruct sg; try destruct sx;
    cbn; split; try reflexivity; try (intros _; reflexivity); intros H; now elim H.
Qed.

Lemma dither_f64_zero_coeff_l : forall (sz : bool) ip ax x g, axis_ok ax = true ->
  length g = length x ->
  Forall (fun v => exists f, v = VF f /\ is_finite f = true) g ->
  Forall (fun v => exists f, v = VF f) x ->
  exists y, out_arr (run nops ngen (VF (B754_zero sz)) ip ax dither_prog (Build_arr F64 x) g)
            = Some (Build_arr F64 y) /\ map vR y = map vR x.
Proof.
  intros sz ip ax x g Hax HL Hg Hx.
  destruct (dither_values_l nops ngen (VF (B754_zero sz)) ip ax F64 x g Hax) as (_ & A & _).
  rewrite !conv_same in A. unfold rint_if_int in A. cbn [is_float] in A. eexists. split; [exact A|].
  assert (D : g_draw ngen g (length x) = g).
  { unfold g_draw, ngen, lgen. cbn [g_next]. rewrite <- HL. clear.
    induction g as [|a g IH]; [reflexivity|]. cbn [length seq map nth]. f_equal.
    rewrite <- seq_shift, map_map. exact IH. }
  rewrite D. clear A D. revert g HL Hg.
  induction x as [|a x IH]; intros [|z g] HL Hg; try discriminate HL; [reflexivity|].
  inversion Hx as [|? ? (fa & ->) Hx']; subst. inversion Hg as [|? ? (fz & -> & Fz) Hg']; subst.
  cbn [noise_of map zipw]. f_equal.
  - unfold vR. cbn [o_add o_mul o_zero nops to_f]. now destruct (b64_dither_zero sz fa fz Fz).
  - apply IH; [assumption|now injection HL|assumption].
Qed.

(* the input notation of the case files denotes exactly the dyadic number written *)
Lemma mk64_dyadic : forall n e, (Z.abs n < 2 ^ 53)%Z -> (-1074 <= e <= 0)%Z ->
  is_finite (mk64 n e) = true /\ B2R (mk64 n e) = IZR n * bpow radix2 e.
Proof.
  intros n e Hn He. unfold mk64.
  generalize (binary_normalize_correct 53 1024 _ _ mode_NE n e false). cbn [round_mode].
  cbv zeta. unfold F2R. cbn [Fnum Fexp].
  rewrite dyadic_round by (assumption || lia).
  rewrite Rlt_bool_true by (apply dyadic_small; assumption || lia).
  intros (A & B & _). split; [exact B|exact A].
Qed.

(* the hypotheses of the exactness theorems are satisfiable: coefficient 31/32,
   16-bit samples *)
Example exact_hypotheses_satisfiable :
  let cf := mk64 31 (-5) in
  is_finite cf = true /\ B2R cf = IZR 31 * bpow radix2 (-5) /\
  ((2 ^ 5 + Z.abs 31) * 32768 < 2 ^ 53)%Z /\
  Forall (fun z => (Z.abs z <= 32768)%Z) [-32768; 0; 12345; 32767]%Z /\
  dy 3 32768 (VF (mk64 12345 (-3))).
Proof.
  cbv zeta. destruct (mk64_dyadic 31 (-5)) as (A & B); [reflexivity|lia|].
  repeat split; try assumption; try reflexivity.
  - repeat constructor; discriminate.
  - destruct (mk64_dyadic 12345 (-3)) as (A' & B'); [reflexivity|lia|].
    exists (mk64 12345 (-3)), 12345%Z. repeat split; try assumption. discriminate.
Qed.

(* ---- arbitrary finite operands: "computed in float64" means two roundings --- *)
Definition u64 : R := / 2 * bpow radix2 (-53 + 1).       (* unit roundoff 2^-53 *)
Definition eta64 : R := / 2 * bpow radix2 (-1074).       (* half the smallest subnormal *)

Lemma rnd64_error : forall x, exists eps eta,
  Rabs eps <= u64 /\ Rabs eta <= eta64 /\ rnd64 x = x * (1 + eps) + eta.
Proof.
  intros x.
  destruct (error_N_FLT radix2 (-1074) 53 eq_refl (fun n => negb (Z.even n)) x)
    as (eps & eta & H1 & H2 & _ & H3).
  exists eps, eta. repeat split; assumption.
Qed.

Lemma b64_step_rounded : forall (c a b : b64),
  is_finite c = true -> is_finite a = true -> is_finite b = true ->
  Rabs (rnd64 (B2R c * B2R a)) < bpow radix2 1024 ->
  Rabs (rnd64 (B2R b - rnd64 (B2R c * B2R a))) < bpow radix2 1024 ->
  let y := Bminus mode_NE b (Bmult mode_NE c a) in
  is_finite y = true /\ B2R y = rnd64 (B2R b - rnd64 (B2R c * B2R a)).
Proof.
  intros c a b Fc Fa Fb H1 H2 y.
  generalize (Bmult_correct 53 1024 _ _ mode_NE c a). cbn [round_mode].
  rewrite Rlt_bool_true by exact H1. rewrite Fc, Fa. intros (M1 & M2 & _). cbn [andb] in M2.
  generalize (Bminus_correct 53 1024 _ _ mode_NE b (Bmult mode_NE c a) Fb M2). cbn [round_mode].
  rewrite M1, Rlt_bool_true by exact H2. intros (S1 & S2 & _). split; assumption.
Qed.

(* distance to the exact real value b - c*a: one unit roundoff of each operand
   of the subtraction, plus the two possible underflow errors *)
Lemma b64_step_error : forall (c a b : b64),
  is_finite c = true -> is_finite a = true -> is_finite b = true ->
  Rabs (rnd64 (B2R c * B2R a)) < bpow radix2 1024 ->
  Rabs (rnd64 (B2R b - rnd64 (B2R c * B2R a))) < bpow radix2 1024 ->
  let y := Bminus mode_NE b (Bmult mode_NE c a) in
  Rabs (B2R y - (B2R b - B2R c * B2R a)) <=
    u64 * (Rabs (B2R c * B2R a) + Rabs (B2R b - rnd64 (B2R c * B2R a))) + 2 * eta64.
Proof.
  intros c a b Fc Fa Fb H1 H2 y.
  destruct (b64_step_rounded c a b Fc Fa Fb H1 H2) as (_ & Ry). fold y in Ry. rewrite Ry.
  set (p := B2R c * B2R a) in *.
  destruct (rnd64_error p) as (e1 & n1 & E1 & N1 & P1).
  set (q := B2R b - rnd64 p) in *.
  destruct (rnd64_error q) as (e2 & n2 & E2 & N2 & P2).
  rewrite P2.
  replace (q * (1 + e2) + n2 - (B2R b - p)) with (- (p * e1) - n1 + q * e2 + n2)
    by (unfold q; rewrite P1; ring).
  assert (A1 : Rabs (p * e1) <= u64 * Rabs p).
  { rewrite Rabs_mult, Rmult_comm. apply Rmult_le_compat_r; [apply Rabs_pos|exact E1]. }
  assert (A2 : Rabs (q * e2) <= u64 * Rabs q).
  { rewrite Rabs_mult, Rmult_comm. apply Rmult_le_compat_r; [apply Rabs_pos|exact E2]. }
  assert (T : forall s t v w, Rabs (- s - t + v + w) <= Rabs s + Rabs t + Rabs v + Rabs w).
  { intros. unfold Rabs. repeat destruct Rcase_abs; lra. }
  eapply Rle_trans; [apply T|]. lra.
Qed.

(* every sample of Preemphasize.apply on a finite float64 signal *)
Lemma preemph_f64_accuracy_l : forall (cf : b64) (x : list b64) ip ax r i,
  axis_ok ax = true -> (S i < length x)%nat ->
  let a := nth i x (B754_zero false) in
  let b := nth (S i) x (B754_zero false) in
  is_finite cf = true -> is_finite a = true -> is_finite b = true ->
  Rabs (rnd64 (B2R cf * B2R a)) < bpow radix2 1024 ->
  Rabs (rnd64 (B2R b - rnd64 (B2R cf * B2R a))) < bpow radix2 1024 ->
  exists y, out_arr (run nops ngen (VF cf) ip ax preemph_prog (Build_arr F64 (map VF x)) r)
            = Some (Build_arr F64 y) /\
    length y = length x /\
    nth 0 y (VF (B754_zero false)) = VF (nth 0 x (B754_zero false)) /\
    vR (nth (S i) y (VF (B754_zero false))) = rnd64 (B2R b - rnd64 (B2R cf * B2R a)) /\
    Rabs (vR (nth (S i) y (VF (B754_zero false))) - (B2R b - B2R cf * B2R a)) <=
      u64 * (Rabs (B2R cf * B2R a) + Rabs (B2R b - rnd64 (B2R cf * B2R a))) + 2 * eta64.
Proof.
  intros cf x ip ax r i Hax Hi a b Fc Fa Fb H1 H2.
  destruct (preemph_values_l nops ngen (VF cf) ip ax F64 (map VF x) r Hax) as (_ & A).
  rewrite !conv_same in A. eexists. split; [exact A|].
  destruct (preemph_recurrence_l nops (VF cf) (map VF x) (VF (B754_zero false))) as (L & Z & S).
  rewrite map_length in L, S. split; [exact L|]. split.
  - rewrite Z. apply (map_nth VF).
  - rewrite (S i Hi), !(map_nth VF). cbn [o_sub o_mul nops to_f]. unfold vR. cbn [to_f].
    fold a b. split.
    + now destruct (b64_step_rounded cf a b Fc Fa Fb H1 H2).
    + now apply b64_step_error.
Qed.

(* Dither on float64: x + (0 + c*g) is x (+) (c (x) g): two roundings, the noise
   added is the rounded product of coeff and the deviate *)
Lemma b64_dither_step : forall (c g x : b64),
  is_finite c = true -> is_finite g = true -> is_finite x = true ->
  Rabs (rnd64 (B2R c * B2R g)) < bpow radix2 1024 ->
  Rabs (rnd64 (B2R x + rnd64 (B2R c * B2R g))) < bpow radix2 1024 ->
  let y := Bplus mode_NE x (Bplus mode_NE (B754_zero false) (Bmult mode_NE c g)) in
  is_finite y = true /\ B2R y = rnd64 (B2R x + rnd64 (B2R c * B2R g)).
Proof.
  intros c g x Fc Fg Fx H1 H2 y.
  generalize (Bmult_correct 53 1024 _ _ mode_NE c g). cbn [round_mode].
  rewrite Rlt_bool_true by exact H1. rewrite Fc, Fg. intros (M1 & M2 & _). cbn [andb] in M2.
  assert (Z : is_finite (Bplus mode_NE (B754_zero false) (Bmult mode_NE c g)) = true /\
              B2R (Bplus mode_NE (B754_zero false) (Bmult mode_NE c g)) = B2R (Bmult mode_NE c g)).
  { destruct (Bmult mode_NE c g) as [s|s| |s m e Hb]; try discriminate M2; [destruct s|]; split; reflexivity. }
  destruct Z as (Z1 & Z2).
  generalize (Bplus_correct 53 1024 _ _ mode_NE x _ Fx Z1). cbn [round_mode].
  rewrite Z2, M1, Rlt_bool_true by exact H2. intros (S1 & S2 & _). split; assumption.
Qed.

Lemma g_draw_lgen : forall A (z : A) (g : list A), g_draw (lgen z) g (length g) = g.
Proof.
  intros A z g. unfold g_draw, lgen. cbn [g_next].
  induction g as [|a g IH]; [reflexivity|]. cbn [length seq map nth]. f_equal.
  rewrite <- seq_shift, map_map. exact IH.
Qed.

Lemma nth_zipw : forall A B C (f : A -> B -> C) l m i da db dc,
  (i < length l)%nat -> (i < length m)%nat ->
  nth i (zipw f l m) dc = f (nth i l da) (nth i m db).
Proof.
  induction l as [|a l IH]; intros [|b m] i da db dc Hl Hm; cbn in Hl, Hm; try lia.
  destruct i; [reflexivity|]. cbn [zipw nth]. apply IH; lia.
Qed.

(* every sample of Dither.apply on a finite float64 signal *)
Lemma dither_f64_value_l : forall (cf : b64) (x g : list b64) ip ax i,
  axis_ok ax = true -> length g = length x -> (i < length x)%nat ->
  let xi := nth i x (B754_zero false) in
  let gi := nth i g (B754_zero false) in
  is_finite cf = true -> is_finite gi = true -> is_finite xi = true ->
  Rabs (rnd64 (B2R cf * B2R gi)) < bpow radix2 1024 ->
  Rabs (rnd64 (B2R xi + rnd64 (B2R cf * B2R gi))) < bpow radix2 1024 ->
  exists y, out_arr (run nops ngen (VF cf) ip ax dither_prog (Build_arr F64 (map VF x)) (map VF g))
            = Some (Build_arr F64 y) /\
    length y = length x /\
    vR (nth i y (VF (B754_zero false))) = rnd64 (B2R xi + rnd64 (B2R cf * B2R gi)).
Proof.
  intros cf x g ip ax i Hax HL Hi xi gi Fc Fg Fx H1 H2.
  destruct (dither_values_l nops ngen (VF cf) ip ax F64 (map VF x) (map VF g) Hax) as (_ & A & _).
  rewrite !conv_same in A. unfold rint_if_int in A. cbn [is_float] in A. eexists. split; [exact A|].
  rewrite map_length. rewrite <- HL at 1 3. rewrite <- (map_length VF g).
  unfold ngen. rewrite g_draw_lgen. unfold noise_of. split.
  - rewrite zipw_length; rewrite ?map_length; [reflexivity|now rewrite HL].
  - rewrite (nth_zipw _ _ _ _ _ _ i (VF (B754_zero false)) (VF (B754_zero false)))
      by (rewrite ?map_length; lia).
    rewrite (map_nth VF), map_map.
    set (f := fun z : b64 => o_add nops (o_zero nops) (o_mul nops (VF cf) (VF z))).
    rewrite (nth_indep _ (VF (B754_zero false)) (f (B754_zero false))) by (rewrite map_length; lia).
    rewrite (map_nth f). unfold f.
    unfold vR. cbn [o_add o_mul o_zero nops to_f]. fold xi gi.
    now destruct (b64_dither_step cf gi xi Fc Fg Fx H1 H2).
Qed.

(* ---- float32 / float16 arrays: values of the narrow format survive the round
   trip  narrow -> float64 -> narrow  unchanged *)
Lemma round_via_id : forall prec emax (Hp : Prec_gt_0 prec) (Hm : Prec_lt_emax prec emax) (f : b64),
  is_finite f = true ->
  generic_format radix2 (SpecFloat.fexp prec emax) (B2R f) ->
  Rabs (B2R f) < bpow radix2 emax ->
  round_via prec emax Hp Hm f = f.
Proof.
  intros prec emax Hp Hm f Ff Gf Lf.
  destruct f as [s|s| |s m e Hb]; try reflexivity. unfold round_via.
  set (x := F2R (Float radix2 (cond_Zopp s (Z.pos m)) e)).
  assert (Hx : B2R (B754_finite s m e Hb : b64) = x) by reflexivity.
  assert (Nx : x <> 0).
  { unfold x. intros H. apply eq_0_F2R in H. destruct s; discriminate H. }
  assert (Sx : Rcompare x 0 = if s then Lt else Gt).
  { unfold x. destruct s; cbn [cond_Zopp].
    - apply Rcompare_Lt. now apply F2R_lt_0.
    - apply Rcompare_Gt. now apply F2R_gt_0. }
  generalize (binary_normalize_correct prec emax Hp Hm mode_NE (cond_Zopp s (Z.pos m)) e s).
  cbv zeta. fold x. cbn [round_mode].
  rewrite Hx in Gf, Lf.
  rewrite (round_generic radix2 (SpecFloat.fexp prec emax) ZnearestE x Gf).
  rewrite Rlt_bool_true by exact Lf. rewrite Sx.
  destruct (binary_normalize prec emax Hp Hm mode_NE (cond_Zopp s (Z.pos m)) e s)
    as [s'|s'| |s' m' e' Hb']; intros (R1 & F1 & S1); try discriminate F1.
  - cbn in R1. now elim Nx.
  - cbn [Bsign] in S1.
    assert (R1' : F2R (Float radix2 (cond_Zopp s' (Z.pos m')) e') = x) by exact R1.
    generalize (binary_normalize_correct 53 1024 _ _ mode_NE (cond_Zopp s' (Z.pos m')) e' s').
    cbv zeta. rewrite R1'. cbn [round_mode].
    assert (G64 : generic_format radix2 fexp64 x).
    { rewrite <- Hx. apply generic_format_B2R. }
    rewrite (round_generic radix2 fexp64 ZnearestE x G64).
    assert (L64 : Rabs x < bpow radix2 1024).
    { rewrite <- Hx. apply abs_B2R_lt_emax. }
    rewrite Rlt_bool_true by exact L64. rewrite Sx.
    intros (R2 & F2 & S2).
    apply B2R_Bsign_inj; [exact F2|reflexivity|now rewrite R2|].
    rewrite S2. cbn [Bsign]. now destruct s.
Qed.

(* the first sample of a float32 / float16 signal is returned bit for bit *)
Lemma preemph_narrow_first_l : forall (c : val) d (f : b64) xs ip ax r,
  axis_ok ax = true -> is_finite f = true ->
  (d = F32 /\ generic_format radix2 (SpecFloat.fexp 24 128) (B2R f) /\ Rabs (B2R f) < bpow radix2 128) \/
  (d = F16 /\ generic_format radix2 (SpecFloat.fexp 11 16) (B2R f) /\ Rabs (B2R f) < bpow radix2 16) ->
  exists y, out_arr (run nops ngen c ip ax preemph_prog (Build_arr d (VF f :: xs)) r)
            = Some (Build_arr d (VF f :: y)).
Proof.
  intros c d f xs ip ax r Hax Ff Hd.
  destruct (preemph_values_l nops ngen c ip ax d (VF f :: xs) r Hax) as (_ & A).
  rewrite A. destruct Hd as [(-> & G & L)|(-> & G & L)];
    unfold conv; cbn [dtype_eqb map preemph_spec o_cast nops ncast to_f];
    rewrite round_via_id by assumption; eexists; reflexivity.
Qed.

Example narrow_hypotheses_satisfiable :
  let f := mk64 3 (-1) in
  is_finite f = true /\ generic_format radix2 (SpecFloat.fexp 24 128) (B2R f) /\
  Rabs (B2R f) < bpow radix2 128.
Proof.
  cbv zeta. destruct (mk64_dyadic 3 (-1)) as (A & B); [reflexivity|lia|].
  split; [exact A|]. rewrite B. split.
  - change (SpecFloat.fexp 24 128) with (FLT_exp (-149) 24). apply generic_format_FLT.
    apply FLT_spec with (Float radix2 3 (-1)); [reflexivity|reflexivity|discriminate].
  - apply Rlt_le_trans with (bpow radix2 2); [|apply bpow_le; lia].
    rewrite Rabs_pos_eq by (apply Rmult_le_pos; [lra|apply bpow_ge_0]).
    simpl (bpow radix2 (-1)). simpl (bpow radix2 2). lra.
Qed.

(* ---- integer dtypes after the fix 60e9a5c: np.rint before the cast -------- *)
Lemma nearbyint_trunc : forall f : b64, Btrunc (Bnearbyint mode_NE f) = ZnearestE (B2R f).
Proof.
  intros f. rewrite Btrunc_real.
  destruct (Bnearbyint_correct 53 1024 _ mode_NE f) as (A & _). rewrite A. cbn [round_mode].
  unfold round, scaled_mantissa, cexp, FIX_exp, F2R. cbn [Fnum Fexp Z.opp bpow].
  rewrite !Rmult_1_r. apply Ztrunc_IZR.
Qed.

(* integer signal: Dither returns rint(float64(x) + (0 + c*g)), element by element *)
Lemma dither_int_value_l : forall (c : val) d zs ip ax g,
  is_float d = false -> axis_ok ax = true ->
  out_arr (run nops ngen c ip ax dither_prog (Build_arr d (map VI zs)) g) =
  Some (Build_arr d (map (fun v => VI (ZnearestE (vR v)))
     (zipw (o_add nops) (map (fun z => VF (mk64 z 0)) zs)
           (noise_of nops c (g_draw ngen g (length zs)))))).
Proof.
  intros c d zs ip ax g Hd Hax.
  destruct (dither_values_l nops ngen c ip ax d (map VI zs) g Hax) as (_ & A & _).
  rewrite A. f_equal. f_equal.
  rewrite conv_int_to_f64, conv_f64_to_int, map_length by assumption.
  unfold rint_if_int. rewrite Hd, map_map. apply map_ext. intros v.
  unfold vR. cbn [o_rint nops to_f]. now rewrite <- Btrunc_real, nearbyint_trunc.
Qed.

Definition out_data (s : state val (list val)) : list repr :=
  match out_arr s with Some a => map repr_of (a_data a) | None => [] end.

(* regression witness for the repaired code: symmetric deviates +-3/4 (coeff 1)
   move the int16 samples 1000 and -1000 by +1 and -1: symmetric, signal independent *)
Lemma dither_int_noise_symmetric_l :
  let c := VF (mk64 1 0) in
  let run1 x g := out_data (run nops ngen c false None dither_prog (Build_arr I16 [VI x]) [VF g]) in
  run1 1000%Z (mk64 3 (-2)) = [RInt 1001] /\ run1 1000%Z (mk64 (-3) (-2)) = [RInt 999] /\
  run1 (-1000)%Z (mk64 3 (-2)) = [RInt (-999)] /\ run1 (-1000)%Z (mk64 (-3) (-2)) = [RInt (-1001)].
Proof. vm_compute. repeat split. Qed.

(* THE CODE BEFORE THE FIX (Dither.apply without the np.rint statement, written
   out here; not generated): the cast truncated toward zero, so deviates +1/2
   and -1/2 moved 1000 by 0 and -1 and -1000 by +1 and 0: noise biased by
   -sign(x)/2.  Kept as a regression record of finding
   dither-int-dtype-truncation-bias. *)
Definition old_dither_prog : list stmt :=
  [ SIf (BNot BAxisNone) [SWarn] [];
    SSaveDtype;
    SIf (BOr (BNot BInPlace) (BDtypeNe DCur F64)) [SAstype F64] [];
    SIf (BOr BAxisNone (BOr (BNot (BNot BShapeEmpty)) (BNdimEq 1)))
        [SAug OAdd None None (ENormal ShSignal)]
        [SRandShapeInit; SRandShapeSet; SAug OAdd None None (ENormal ShRandom)];
    SReturnAstypeSaved ].

Lemma old_dither_int_noise_biased_l :
  let c := VF (mk64 1 0) in
  let run1 x g := out_data (run nops ngen c false None old_dither_prog (Build_arr I16 [VI x]) [VF g]) in
  run1 1000%Z (mk64 1 (-1)) = [RInt 1000] /\ run1 1000%Z (mk64 (-1) (-1)) = [RInt 999] /\
  run1 (-1000)%Z (mk64 1 (-1)) = [RInt (-999)] /\ run1 (-1000)%Z (mk64 (-1) (-1)) = [RInt (-1000)].
Proof. vm_compute. repeat split. Qed.
