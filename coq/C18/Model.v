(* C18 - pre-processors (pre.py: Dither.apply, Preemphasize.apply; torch.py:
   pytorch_preemphasize, pytorch_dither).  DEFINITIONS ONLY.

   The model is an interpreter for a small imperative array language whose
   programs are *generated from the source* (gen/pre.py -> coq/gen/Pre.v): one
   statement of the language per statement of the two [apply] bodies.  What is
   hand-written here, and hence validated by the correspondence runs, is the
   meaning of each statement form:

   - arrays live in a heap (a list; a reference is an index); [astype] allocates
     a fresh array, [astype(.., copy=False)] returns the same reference when the
     dtype already agrees; views ([np.moveaxis] of a 1-D array) are the same
     reference;
   - [signal[..., lo:hi] op= e] first evaluates [e] to a temporary (so the
     right-hand side sees the *old* samples) and then updates the slice of the
     array the variable [signal] refers to, in place;
   - [np.random.normal(loc, scale, shape)] draws [n] standard deviates from the
     global generator state and returns [loc + scale * g] (the legacy
     RandomState formula), advancing the state.

   The interpreter is polymorphic in the sample type [V] and in the float64
   operations ([ops]); nothing below assumes any law about them.  Instances:
   an arbitrary commutative ring (Proofs.v), IEEE-754 binary64 as formalised by
   Flocq (Float64.v). *)
From Coq Require Import ZArith List Bool.
Import ListNotations.
Open Scope Z_scope.

(* ------------------------------------------------------------------ dtypes *)
Inductive dtype := F16 | F32 | F64 | I8 | I16 | I32 | I64 | U8 | U16 | U32 | U64.

Definition dtype_eqb (a b : dtype) : bool :=
  match a, b with
  | F16, F16 | F32, F32 | F64, F64 | I8, I8 | I16, I16 | I32, I32 | I64, I64
  | U8, U8 | U16, U16 | U32, U32 | U64, U64 => true
  | _, _ => false
  end.

Definition is_float (d : dtype) : bool :=
  match d with F16 | F32 | F64 => true | _ => false end.

(* ------------------------------------------- operations on samples (float64) *)
Record ops (V : Type) := {
  o_zero : V;                          (* the constant 0 (loc of normal(); new_zeros) *)
  o_add : V -> V -> V;
  o_sub : V -> V -> V;
  o_mul : V -> V -> V;
  o_rint : V -> V;                     (* np.rint: nearest integer, ties to even *)
  o_cast : dtype -> dtype -> V -> V    (* astype between two DIFFERENT dtypes *)
}.
Arguments o_zero {V}. Arguments o_add {V}. Arguments o_sub {V}.
Arguments o_mul {V}. Arguments o_rint {V}. Arguments o_cast {V}.

(* the global generator: [g_next s k] = the k-th standard normal deviate that
   will be produced from state s; [g_adv s n] = the state after n draws *)
Record rngm (V RS : Type) := {
  g_next : RS -> nat -> V;
  g_adv : RS -> nat -> RS
}.
Arguments g_next {V RS}. Arguments g_adv {V RS}.
(* the next n deviates (exactly n of them, by construction) *)
Definition g_draw {V RS} (G : rngm V RS) (s : RS) (n : nat) : list V :=
  map (g_next G s) (seq 0 n).

(* ------------------------------------------------------------------ arrays *)
Record arr (V : Type) := { a_dt : dtype; a_data : list V }.
Arguments a_dt {V}. Arguments a_data {V}. Arguments Build_arr {V}.

(* astype: same dtype -> values unchanged, else element-wise conversion *)
Definition conv {V} (O : ops V) (from to : dtype) (l : list V) : list V :=
  if dtype_eqb from to then l else map (o_cast O from to) l.

(* ------------------------------------------------- Python slices (step 1) *)
Definition norm_idx (n : Z) (o : option Z) (dflt : Z) : Z :=
  match o with
  | None => dflt
  | Some k => if k <? 0 then Z.max 0 (n + k) else Z.min k n
  end.

Definition slice_bounds (lo hi : option Z) (n : nat) : nat * nat :=
  let zn := Z.of_nat n in
  let a := norm_idx zn lo 0 in
  let b := norm_idx zn hi zn in
  (Z.to_nat a, Z.to_nat (Z.max a b)).

Definition slice_get {A} (lo hi : option Z) (l : list A) : list A :=
  let '(a, b) := slice_bounds lo hi (length l) in
  firstn (b - a) (skipn a l).

(* caller guarantees length vals = b - a *)
Definition slice_set {A} (lo hi : option Z) (l vals : list A) : list A :=
  let '(a, b) := slice_bounds lo hi (length l) in
  firstn a l ++ vals ++ skipn b l.

(* number of arrays allocated so far (= the next free reference) *)
Fixpoint hlen {A} (l : list A) : nat :=
  match l with [] => O | _ :: t => S (hlen t) end.

Fixpoint zipw {A B C} (f : A -> B -> C) (l : list A) (m : list B) : list C :=
  match l, m with
  | x :: l', y :: m' => f x y :: zipw f l' m'
  | _, _ => []
  end.

(* ------------------------------------------------------- program syntax *)
Inductive dsel := DSaved | DCur.          (* signal_dtype  |  signal.dtype *)

Inductive bexp :=
| BInPlace                                (* in_place *)
| BAxisNone                               (* axis is None *)
| BAxisIn (l : list (option Z))           (* axis in {...} *)
| BDtypeNe (w : dsel) (d : dtype)         (* <dtype> != np.<d> *)
| BIsInt (w : dsel)                       (* np.issubdtype(<dtype>, np.integer) *)
| BShapeEmpty                             (* not signal.shape *)
| BNdimEq (k : Z)                         (* len(signal.shape) == k *)
| BNot (b : bexp)
| BOr (a b : bexp)
| BAnd (a b : bexp).

Inductive shp := ShSignal | ShRandom.     (* signal.shape | random_shape *)

Inductive aexp :=
| ESig (lo hi : option Z)                 (* signal[..., lo:hi] *)
| EMulCoeff (e : aexp)                    (* self.coeff * e *)
| ENormal (s : shp).                      (* np.random.normal(0, self.coeff, s) *)

Inductive augop := OAdd | OSub.

Inductive stmt :=
| SWarn                                   (* warnings.warn(...) *)
| SSaveDtype                              (* signal_dtype = signal.dtype *)
| SAstype (d : dtype)                     (* signal = signal.astype(np.<d>) *)
| SMoveAxis (to_last : bool)              (* signal = np.moveaxis(signal, ..) *)
| SRandShapeInit                          (* random_shape = [1] * len(signal.shape) *)
| SRandShapeSet                           (* random_shape[axis] = signal.shape[axis] *)
| SAug (op : augop) (lo hi : option Z) (e : aexp)   (* signal[..., lo:hi] op= e *)
| SRint                                   (* np.rint(signal, out=signal) *)
| SIf (b : bexp) (th el : list stmt)
| SReturnAstypeSaved.                     (* return signal.astype(signal_dtype, copy=False) *)

(* ------------------------------------------------------------ semantics *)
Section Sem.
Context {V RS : Type}.
Variable O : ops V.
Variable G : rngm V RS.
Variable coeff : V.
Variable in_place : bool.
Variable axis : option Z.

Record state := {
  s_heap : list (arr V);
  s_sig : nat;             (* the array the variable [signal] refers to *)
  s_saved : dtype;         (* signal_dtype *)
  s_rng : RS;
  s_ret : option nat;      (* set by return *)
  s_err : bool;            (* an exception was raised *)
  s_warn : bool
}.

Definition dummy : arr V := Build_arr F64 [].
Definition cur (s : state) : arr V := nth (s_sig s) (s_heap s) dummy.

Definition opt_eqb (a b : option Z) : bool :=
  match a, b with
  | None, None => true
  | Some x, Some y => x =? y
  | _, _ => false
  end.

Fixpoint beval (b : bexp) (s : state) : bool :=
  match b with
  | BInPlace => in_place
  | BAxisNone => opt_eqb axis None
  | BAxisIn l => existsb (opt_eqb axis) l
  | BDtypeNe DSaved d => negb (dtype_eqb (s_saved s) d)
  | BDtypeNe DCur d => negb (dtype_eqb (a_dt (cur s)) d)
  | BIsInt DSaved => negb (is_float (s_saved s))
  | BIsInt DCur => negb (is_float (a_dt (cur s)))
  | BShapeEmpty => false                 (* a 1-D shape (n,) is a non-empty tuple *)
  | BNdimEq k => k =? 1                  (* signals are 1-D *)
  | BNot a => negb (beval a s)
  | BOr a c => beval a s || beval c s
  | BAnd a c => beval a s && beval c s
  end.

Definition upd_heap (h : list (arr V)) (r : nat) (a : arr V) : list (arr V) :=
  firstn r h ++ a :: skipn (S r) h.

Definition set_cur (s : state) (a : arr V) (r : RS) : state :=
  {| s_heap := upd_heap (s_heap s) (s_sig s) a; s_sig := s_sig s; s_saved := s_saved s;
     s_rng := r; s_ret := s_ret s; s_err := s_err s; s_warn := s_warn s |}.

Definition raise (s : state) : state :=
  {| s_heap := s_heap s; s_sig := s_sig s; s_saved := s_saved s; s_rng := s_rng s;
     s_ret := s_ret s; s_err := true; s_warn := s_warn s |}.

(* allocate a converted copy of the current array; [signal] now refers to it *)
Definition alloc_astype (s : state) (d : dtype) : state :=
  let a := cur s in
  {| s_heap := s_heap s ++ [Build_arr d (conv O (a_dt a) d (a_data a))];
     s_sig := hlen (s_heap s); s_saved := s_saved s; s_rng := s_rng s;
     s_ret := s_ret s; s_err := s_err s; s_warn := s_warn s |}.

(* the noise np.random.normal(0, coeff, n) adds: loc + scale * g *)
Definition normal_of (g : V) : V := o_add O (o_zero O) (o_mul O coeff g).

Fixpoint aeval (e : aexp) (s : state) : list V * RS :=
  match e with
  | ESig lo hi => (slice_get lo hi (a_data (cur s)), s_rng s)
  | EMulCoeff e' => let '(v, r) := aeval e' s in (map (o_mul O coeff) v, r)
  | ENormal _ =>
      (* 1-D: signal.shape = random_shape = (n,) *)
      let n := length (a_data (cur s)) in
      (map normal_of (g_draw G (s_rng s) n), g_adv G (s_rng s) n)
  end.

Definition binop (op : augop) : V -> V -> V :=
  match op with OAdd => o_add O | OSub => o_sub O end.

(* signal[..., lo:hi] op= e.  The ufunc runs in float64; a float target of
   lower precision receives the result cast back (same-kind casting); an
   integer target raises (UFuncTypeError). *)
Definition exec_aug (op : augop) (lo hi : option Z) (e : aexp) (s : state) : state :=
  let '(v, r) := aeval e s in
  let a := cur s in
  let tgt := slice_get lo hi (a_data a) in
  if negb (is_float (a_dt a)) then raise s
  else if negb (Nat.eqb (length v) (length tgt)) then raise s
  else
    let res := conv O F64 (a_dt a) (zipw (binop op) (conv O (a_dt a) F64 tgt) v) in
    set_cur s (Build_arr (a_dt a) (slice_set lo hi (a_data a) res)) r.

(* np.rint(signal, out=signal): element-wise, in place; the float loop does not
   exist for an integer array written through out= (a casting error) *)
Definition exec_rint (s : state) : state :=
  let a := cur s in
  if negb (is_float (a_dt a)) then raise s
  else set_cur s (Build_arr (a_dt a) (map (o_rint O) (a_data a))) (s_rng s).

Definition exec_return (s : state) : state :=
  let a := cur s in
  if dtype_eqb (a_dt a) (s_saved s) then
    {| s_heap := s_heap s; s_sig := s_sig s; s_saved := s_saved s; s_rng := s_rng s;
       s_ret := Some (s_sig s); s_err := s_err s; s_warn := s_warn s |}
  else
    let s' := alloc_astype s (s_saved s) in
    {| s_heap := s_heap s'; s_sig := s_sig s'; s_saved := s_saved s'; s_rng := s_rng s';
       s_ret := Some (s_sig s'); s_err := s_err s'; s_warn := s_warn s' |}.

Definition live (s : state) : bool :=
  match s_ret s with Some _ => false | None => negb (s_err s) end.

Fixpoint exec (st : stmt) (s : state) {struct st} : state :=
  if negb (live s) then s else
  match st with
  | SWarn => {| s_heap := s_heap s; s_sig := s_sig s; s_saved := s_saved s; s_rng := s_rng s;
                s_ret := s_ret s; s_err := s_err s; s_warn := true |}
  | SSaveDtype => {| s_heap := s_heap s; s_sig := s_sig s; s_saved := a_dt (cur s);
                     s_rng := s_rng s; s_ret := s_ret s; s_err := s_err s; s_warn := s_warn s |}
  | SAstype d => alloc_astype s d
  | SMoveAxis _ => s                     (* a view of a 1-D array along its only axis *)
  | SRandShapeInit => s
  | SRandShapeSet => s
  | SAug op lo hi e => exec_aug op lo hi e s
  | SRint => exec_rint s
  | SIf b th el =>
      (fix go (l : list stmt) (s : state) : state :=
         match l with [] => s | x :: r => go r (exec x s) end)
        (if beval b s then th else el) s
  | SReturnAstypeSaved => exec_return s
  end.

Fixpoint exec_list (l : list stmt) (s : state) : state :=
  match l with [] => s | x :: r => exec_list r (exec x s) end.

Definition init (x : arr V) (r : RS) : state :=
  {| s_heap := [x]; s_sig := 0%nat; s_saved := F64; s_rng := r; s_ret := None;
     s_err := false; s_warn := false |}.

Definition run (p : list stmt) (x : arr V) (r : RS) : state := exec_list p (init x r).

(* observables of a call *)
Definition out_arr (s : state) : option (arr V) :=
  match s_ret s with
  | Some k => if s_err s then None else nth_error (s_heap s) k
  | None => None
  end.
Definition input_after (s : state) : arr V := nth 0%nat (s_heap s) dummy.
Definition aliases_input (s : state) : bool :=
  match s_ret s with Some 0%nat => true | _ => false end.

End Sem.

Arguments state : clear implicits.
Arguments s_heap {V RS}. Arguments s_sig {V RS}. Arguments s_rng {V RS}.
Arguments s_ret {V RS}. Arguments s_err {V RS}. Arguments s_warn {V RS}.
Arguments s_saved {V RS}.

(* the axis values a 1-D signal accepts *)
Definition axis_ok (axis : option Z) : bool :=
  match axis with None => true | Some k => (k =? 0) || (k =? -1) end.

(* --------------------------------------------- the documented transforms *)
Section Spec.
Context {V : Type}.
Variable O : ops V.

(* new[0] = old[0]; new[i] = old[i] - coeff * old[i-1] *)
Fixpoint preemph_rec (c : V) (prev : V) (l : list V) : list V :=
  match l with
  | [] => []
  | x :: t => o_sub O x (o_mul O c prev) :: preemph_rec c x t
  end.
Definition preemph_spec (c : V) (l : list V) : list V :=
  match l with [] => [] | x :: t => x :: preemph_rec c x t end.

(* noise vector for standard deviates g: 0 + c * g *)
Definition noise_of (c : V) (g : list V) : list V :=
  map (fun z => o_add O (o_zero O) (o_mul O c z)) g.
Definition dither_spec (c : V) (l g : list V) : list V :=
  zipw (o_add O) l (noise_of c g).

(* Dither rounds to the nearest integer before the cast when the dtype is integral *)
Definition rint_if_int (d : dtype) (l : list V) : list V :=
  if is_float d then l else map (o_rint O) l.

(* what apply returns for input data [x] of dtype [d]: work in float64, cast back *)
Definition via_f64 (d : dtype) (f : list V -> list V) (x : list V) : list V :=
  conv O F64 d (f (conv O d F64 x)).
End Spec.

(* ------------------------------------------- torch functional forms *)
(* expressions over tensors; [TSig] is the current value of the variable sig *)
Inductive texp :=
| TSig
| TNewZeros (n : Z)                       (* sig.new_zeros(n) *)
| TConcat (l : list texp)                 (* torch.concatenate([...]) *)
| TSlice (lo hi : option Z) (e : texp)    (* e[lo:hi] *)
| TSub (a b : texp)
| TAdd (a b : texp)
| TMulCoeff (e : texp)                    (* coeff * e *)
| TRandnLike (e : texp).                  (* torch.randn_like(e) *)

(* a function body: assignments to sig, then the returned expression *)
Record tprog := { t_assigns : list texp; t_ret : texp }.

Section TSem.
Context {V RS : Type}.
Variable O : ops V.
Variable G : rngm V RS.
Variable coeff : V.

(* element-wise binary operation; shapes must agree (else an exception) *)
Definition tzip (f : V -> V -> V) (a b : option (list V)) : option (list V) :=
  match a, b with
  | Some x, Some y => if Nat.eqb (length x) (length y) then Some (zipw f x y) else None
  | _, _ => None
  end.

Fixpoint teval (e : texp) (sig : list V) (r : RS) {struct e} : option (list V) * RS :=
  match e with
  | TSig => (Some sig, r)
  | TNewZeros n => (Some (repeat (o_zero O) (Z.to_nat n)), r)
  | TConcat l =>
      (fix go (l : list texp) (r : RS) : option (list V) * RS :=
         match l with
         | [] => (Some [], r)
         | x :: t =>
             let '(vx, r1) := teval x sig r in
             let '(vt, r2) := go t r1 in
             (match vx, vt with Some a, Some b => Some (a ++ b) | _, _ => None end, r2)
         end) l r
  | TSlice lo hi e' =>
      let '(v, r1) := teval e' sig r in (option_map (slice_get lo hi) v, r1)
  | TSub a b =>
      let '(va, r1) := teval a sig r in
      let '(vb, r2) := teval b sig r1 in (tzip (o_sub O) va vb, r2)
  | TAdd a b =>
      let '(va, r1) := teval a sig r in
      let '(vb, r2) := teval b sig r1 in (tzip (o_add O) va vb, r2)
  | TMulCoeff e' =>
      let '(v, r1) := teval e' sig r in (option_map (map (o_mul O coeff)) v, r1)
  | TRandnLike e' =>
      let '(v, r1) := teval e' sig r in
      match v with
      | Some x => (Some (g_draw G r1 (length x)), g_adv G r1 (length x))
      | None => (None, r1)
      end
  end.

Fixpoint trun_assigns (l : list texp) (sig : option (list V)) (r : RS) : option (list V) * RS :=
  match l with
  | [] => (sig, r)
  | e :: t =>
      match sig with
      | Some s => let '(v, r1) := teval e s r in trun_assigns t v r1
      | None => (None, r)
      end
  end.

Definition trun (p : tprog) (sig : list V) (r : RS) : option (list V) * RS :=
  let '(s1, r1) := trun_assigns (t_assigns p) (Some sig) r in
  match s1 with
  | Some s => teval (t_ret p) s r1
  | None => (None, r1)
  end.
End TSem.
