(* C18 - lemmas behind Props.v.  Part 1: property clauses for ARBITRARY sample
   operations (hence also for IEEE float64).  Part 2: an arbitrary commutative
   ring (linearity, coefficient 0, signal independence, torch forms). *)
From Coq Require Import ZArith List Bool Lia Ring.
From Verif Require Import C18.Model gen.Pre C18.Run.
Import ListNotations.
Open Scope Z_scope.

(* ------------------------------------------------------------------------
   Property clauses for arbitrary sample operations (so in particular for
   IEEE float64 arithmetic and the C casts numpy performs). *)
Section Clauses.
Context {V RS : Type}.
Variable O : ops V.
Variable G : rngm V RS.

(* Preemphasize.apply returns, in the input dtype, the float64 recurrence *)
Lemma preemph_values_l : forall c ip ax d x r, axis_ok ax = true ->
  let s := run O G c ip ax preemph_prog (Build_arr d x) r in
  s_err s = false /\
  out_arr s = Some (Build_arr d (conv O F64 d (preemph_spec O c (conv O d F64 x)))).
Proof. intros. destruct (preemph_run_all O G c ip ax d x r H) as (A & _ & _ & B & _). now split. Qed.

(* ... where the recurrence is y[0] = w[0], y[i+1] = w[i+1] - c * w[i], at every length *)
Lemma preemph_recurrence_l : forall c w dflt,
  length (preemph_spec O c w) = length w /\
  nth 0 (preemph_spec O c w) dflt = nth 0 w dflt /\
  forall i, (S i < length w)%nat ->
    nth (S i) (preemph_spec O c w) dflt = o_sub O (nth (S i) w dflt) (o_mul O c (nth i w dflt)).
Proof.
  intros. split; [apply preemph_spec_length|]. split; [apply preemph_spec_nth0|].
  intros. now apply preemph_spec_nthS.
Qed.

(* the input array is left untouched unless in_place is set on a float64 array ... *)
Lemma preemph_input_untouched_l : forall c ip ax d x r, axis_ok ax = true ->
  ip = false \/ d <> F64 ->
  let s := run O G c ip ax preemph_prog (Build_arr d x) r in
  input_after s = Build_arr d x /\ aliases_input s = false.
Proof.
  intros c ip ax d x r H Hc. destruct (preemph_run_all O G c ip ax d x r H) as (_ & _ & _ & _ & B).
  assert (E : ip && dtype_eqb d F64 = false).
  { destruct Hc as [->|Hd]; [reflexivity|]. destruct d; try (now rewrite andb_false_r). now elim Hd. }
  rewrite E in B. cbv zeta. tauto.
Qed.

(* ... in which case the returned array IS the input array, holding the same values *)
Lemma preemph_in_place_l : forall c ax x r, axis_ok ax = true ->
  let s := run O G c true ax preemph_prog (Build_arr F64 x) r in
  aliases_input s = true /\ out_arr s = Some (input_after s) /\
  out_arr s = out_arr (run O G c false ax preemph_prog (Build_arr F64 x) r).
Proof.
  intros c ax x r H.
  destruct (preemph_run_all O G c true ax F64 x r H) as (_ & _ & _ & A & B & B').
  destruct (preemph_run_all O G c false ax F64 x r H) as (_ & _ & _ & A' & _).
  cbv zeta. rewrite A, A', B'. auto.
Qed.

(* in_place never changes the values returned, whatever the dtype *)
Lemma preemph_in_place_same_values_l : forall c ax d x r, axis_ok ax = true ->
  out_arr (run O G c true ax preemph_prog (Build_arr d x) r) =
  out_arr (run O G c false ax preemph_prog (Build_arr d x) r).
Proof.
  intros c ax d x r H.
  destruct (preemph_run_all O G c true ax d x r H) as (_ & _ & _ & A & _).
  destruct (preemph_run_all O G c false ax d x r H) as (_ & _ & _ & A' & _).
  now rewrite A, A'.
Qed.

(* Preemphasize does not touch the random generator *)
Lemma preemph_rng_l : forall c ip ax d x r, axis_ok ax = true ->
  s_rng (run O G c ip ax preemph_prog (Build_arr d x) r) = r.
Proof. intros. now destruct (preemph_run_all O G c ip ax d x r H) as (_ & A & _). Qed.

(* Dither.apply: float64 sum of the signal and a noise vector that is a
   function of (coeff, generator state, length) only; rounded to the nearest
   integer before the cast back when the dtype is an integer one *)
Lemma dither_values_l : forall c ip ax d x r, axis_ok ax = true ->
  let s := run O G c ip ax dither_prog (Build_arr d x) r in
  s_err s = false /\
  out_arr s = Some (Build_arr d (conv O F64 d (rint_if_int O d
     (zipw (o_add O) (conv O d F64 x) (noise_of O c (g_draw G r (length x))))))) /\
  s_rng s = g_adv G r (length x).
Proof. intros. destruct (dither_run_all O G c ip ax d x r H) as (A & C & _ & B & _). now repeat split. Qed.

Lemma dither_input_untouched_l : forall c ip ax d x r, axis_ok ax = true ->
  ip = false \/ d <> F64 ->
  let s := run O G c ip ax dither_prog (Build_arr d x) r in
  input_after s = Build_arr d x /\ aliases_input s = false.
Proof.
  intros c ip ax d x r H Hc. destruct (dither_run_all O G c ip ax d x r H) as (_ & _ & _ & _ & B).
  assert (E : ip && dtype_eqb d F64 = false).
  { destruct Hc as [->|Hd]; [reflexivity|]. destruct d; try (now rewrite andb_false_r). now elim Hd. }
  rewrite E in B. cbv zeta. tauto.
Qed.

Lemma dither_in_place_l : forall c ax x r, axis_ok ax = true ->
  let s := run O G c true ax dither_prog (Build_arr F64 x) r in
  aliases_input s = true /\ out_arr s = Some (input_after s) /\
  out_arr s = out_arr (run O G c false ax dither_prog (Build_arr F64 x) r).
Proof.
  intros c ax x r H.
  destruct (dither_run_all O G c true ax F64 x r H) as (_ & _ & _ & A & B & B').
  destruct (dither_run_all O G c false ax F64 x r H) as (_ & _ & _ & A' & _).
  cbv zeta. rewrite A, A', B'. auto.
Qed.

Lemma dither_in_place_same_values_l : forall c ax d x r, axis_ok ax = true ->
  out_arr (run O G c true ax dither_prog (Build_arr d x) r) =
  out_arr (run O G c false ax dither_prog (Build_arr d x) r).
Proof.
  intros c ax d x r H.
  destruct (dither_run_all O G c true ax d x r H) as (_ & _ & _ & A & _).
  destruct (dither_run_all O G c false ax d x r H) as (_ & _ & _ & A' & _).
  now rewrite A, A'.
Qed.

(* reproducibility: the result is a function of the generator state at the
   call; two calls from the same state on signals of the same length add the
   SAME noise vector, whatever the signals hold *)
Lemma dither_noise_function_of_state_l : forall c ip ip' ax ax' d d' x x' r,
  axis_ok ax = true -> axis_ok ax' = true -> length x = length x' ->
  exists nz, length nz = length x /\
    out_arr (run O G c ip ax dither_prog (Build_arr d x) r) =
      Some (Build_arr d (conv O F64 d (rint_if_int O d (zipw (o_add O) (conv O d F64 x) nz)))) /\
    out_arr (run O G c ip' ax' dither_prog (Build_arr d' x') r) =
      Some (Build_arr d' (conv O F64 d' (rint_if_int O d' (zipw (o_add O) (conv O d' F64 x') nz)))).
Proof.
  intros c ip ip' ax ax' d d' x x' r H H' L.
  exists (noise_of O c (g_draw G r (length x))). split.
  - unfold noise_of. now rewrite map_length, g_draw_length.
  - destruct (dither_values_l c ip ax d x r H) as (_ & A & _).
    destruct (dither_values_l c ip' ax' d' x' r H') as (_ & A' & _).
    rewrite A, A', L. auto.
Qed.

(* the deprecated axis argument only triggers the warning *)
Lemma axis_only_warns_l : forall c ip ax d x r, axis_ok ax = true ->
  out_arr (run O G c ip ax preemph_prog (Build_arr d x) r) =
    out_arr (run O G c ip None preemph_prog (Build_arr d x) r) /\
  out_arr (run O G c ip ax dither_prog (Build_arr d x) r) =
    out_arr (run O G c ip None dither_prog (Build_arr d x) r) /\
  s_warn (run O G c ip ax preemph_prog (Build_arr d x) r) = negb (opt_eqb ax None) /\
  s_warn (run O G c ip ax dither_prog (Build_arr d x) r) = negb (opt_eqb ax None).
Proof.
  intros c ip ax d x r H.
  destruct (preemph_run_all O G c ip ax d x r H) as (_ & _ & W & A & _).
  destruct (preemph_run_all O G c ip None d x r eq_refl) as (_ & _ & _ & A' & _).
  destruct (dither_run_all O G c ip ax d x r H) as (_ & _ & W2 & B & _).
  destruct (dither_run_all O G c ip None d x r eq_refl) as (_ & _ & _ & B' & _).
  rewrite A, A', B, B'. auto.
Qed.

(* ---- torch functional forms, arbitrary operations *)
Lemma skipn1_app1 : forall A (z : A) l, tl ([z] ++ l) = l.
Proof. reflexivity. Qed.

Lemma removelast_cons_app : forall A (z : A) l, removelast (z :: l) = firstn (length l) (z :: l).
Proof. intros. rewrite removelast_firstn_len. reflexivity. Qed.

Lemma zip_rec_cons : forall c z l,
  zipw (o_sub O) l (map (o_mul O c) (removelast (z :: l))) = preemph_rec O c z l.
Proof. intros. apply zip_is_rec. Qed.

Lemma torch_preemph_run_l : forall c x (r : RS),
  trun O G c torch_preemph_prog x r = (Some (preemph_rec O c (o_zero O) x), r).
Proof.
  intros c x r. unfold trun, torch_preemph_prog. cbn [t_assigns t_ret trun_assigns teval].
  change (Z.to_nat 1) with 1%nat. cbn [repeat app].
  cbn [option_map]. rewrite slice_get_from1, slice_get_to_m1. cbn [tl].
  unfold tzip. rewrite map_length, length_removelast. cbn [length pred]. rewrite ?app_nil_r.
  rewrite Nat.eqb_refl. now rewrite zip_rec_cons.
Qed.

Lemma torch_dither_run_l : forall c x (r : RS),
  trun O G c torch_dither_prog x r =
  (Some (zipw (o_add O) x (map (o_mul O c) (g_draw G r (length x)))), g_adv G r (length x)).
Proof.
  intros c x r. unfold trun, torch_dither_prog. cbn [t_assigns t_ret trun_assigns teval option_map].
  unfold tzip. rewrite map_length, g_draw_length, Nat.eqb_refl. reflexivity.
Qed.

End Clauses.

(* ------------------------------------------------------------------------
   Part 2.  Samples in an arbitrary commutative ring (the reals, the
   rationals, the integers ...), conversions between dtypes exact. *)
Section RingInst.
Variable R : Type.
Variables (rO rI : R) (radd rmul rsub : R -> R -> R) (ropp : R -> R).
Variable rrint : R -> R.              (* rounding to the nearest integer: no law needed *)
Hypothesis Rth : ring_theory rO rI radd rmul rsub ropp (@eq R).
Add Ring Rring : Rth.
Context {RS : Type}.
Variable G : rngm R RS.

Definition ring_ops : ops R :=
  {| o_zero := rO; o_add := radd; o_sub := rsub; o_mul := rmul; o_rint := rrint;
     o_cast := fun _ _ x => x |}.

Lemma conv_ring : forall a b l, conv ring_ops a b l = l.
Proof. intros. unfold conv. destruct (dtype_eqb a b); [reflexivity|]. cbn. apply map_id. Qed.

Lemma zipw_add_zero_noise : forall x g, length g = length x ->
  zipw radd x (noise_of ring_ops rO g) = x.
Proof.
  induction x as [|a x IH]; intros [|z g] H; cbn in *; try reflexivity; try discriminate.
  f_equal; [ring|]. apply IH. lia.
Qed.

(* coefficient 0 is the identity (for every length, in_place, state; float
   dtypes, and integer dtypes whose samples rounding leaves alone) *)
Lemma dither_zero_identity_l : forall ip ax d x r, axis_ok ax = true ->
  is_float d = true \/ Forall (fun v => rrint v = v) x ->
  out_arr (run ring_ops G rO ip ax dither_prog (Build_arr d x) r) = Some (Build_arr d x).
Proof.
  intros ip ax d x r H Hd. destruct (dither_values_l ring_ops G rO ip ax d x r H) as (_ & A & _).
  rewrite A, !conv_ring, zipw_add_zero_noise by apply g_draw_length.
  f_equal. f_equal. unfold rint_if_int. destruct (is_float d); [reflexivity|].
  destruct Hd as [Hd|Hd]; [discriminate|]. cbn [o_rint ring_ops]. clear A.
  induction Hd as [|v l Hv _ IH]; [reflexivity|]. cbn [map]. now rewrite Hv, IH.
Qed.

Lemma noise_ring : forall c g, noise_of ring_ops c g = map (rmul c) g.
Proof. intros. unfold noise_of. apply map_ext. intros. cbn. ring. Qed.

(* the output is signal + coeff * g with g the unit deviates of the state:
   linear in coeff, g depends neither on coeff nor on the signal *)
Lemma dither_linear_l : forall c ip ax d x r, axis_ok ax = true ->
  out_arr (run ring_ops G c ip ax dither_prog (Build_arr d x) r) =
  Some (Build_arr d (rint_if_int ring_ops d (zipw radd x (map (rmul c) (g_draw G r (length x)))))).
Proof.
  intros. destruct (dither_values_l ring_ops G c ip ax d x r H) as (_ & A & _).
  now rewrite A, !conv_ring, noise_ring.
Qed.

Lemma rint_float : forall d l, is_float d = true -> rint_if_int ring_ops d l = l.
Proof. intros d l H. unfold rint_if_int. now rewrite H. Qed.

Lemma zipw_sub_add : forall x n, length n = length x -> zipw rsub (zipw radd x n) x = n.
Proof.
  induction x as [|a x IH]; intros [|z n] H; cbn in *; try reflexivity; try discriminate.
  f_equal; [ring|]. apply IH. lia.
Qed.

(* output - input is the same vector for any two signals of one length *)
Lemma dither_signal_independent_l : forall c ip ip' ax ax' d d' x x' r y y',
  is_float d = true -> is_float d' = true ->
  axis_ok ax = true -> axis_ok ax' = true -> length x = length x' ->
  out_arr (run ring_ops G c ip ax dither_prog (Build_arr d x) r) = Some y ->
  out_arr (run ring_ops G c ip' ax' dither_prog (Build_arr d' x') r) = Some y' ->
  zipw rsub (a_data y) x = zipw rsub (a_data y') x'.
Proof.
  intros c ip ip' ax ax' d d' x x' r y y' Fd Fd' H H' L E E'.
  rewrite dither_linear_l in E, E' by assumption. rewrite rint_float in E, E' by assumption.
  injection E as <-. injection E' as <-. cbn [a_data].
  rewrite !zipw_sub_add by (now rewrite map_length, g_draw_length). now rewrite L.
Qed.

(* scaling the coefficient by a scales output - input by a *)
Lemma dither_scales_l : forall a c ip ax d x r y ya,
  is_float d = true -> axis_ok ax = true ->
  out_arr (run ring_ops G c ip ax dither_prog (Build_arr d x) r) = Some y ->
  out_arr (run ring_ops G (rmul a c) ip ax dither_prog (Build_arr d x) r) = Some ya ->
  zipw rsub (a_data ya) x = map (rmul a) (zipw rsub (a_data y) x).
Proof.
  intros a c ip ax d x r y ya Fd H E E'.
  rewrite dither_linear_l in E, E' by assumption. rewrite rint_float in E, E' by assumption.
  injection E as <-. injection E' as <-. cbn [a_data].
  rewrite !zipw_sub_add by (now rewrite map_length, g_draw_length).
  rewrite map_map. apply map_ext. intros. ring.
Qed.

(* pre-emphasis is linear in the signal (superposition) *)
Lemma preemph_rec_linear : forall c a b t t' p p', length t = length t' ->
  preemph_rec ring_ops c (radd (rmul a p) (rmul b p'))
     (zipw (fun u v => radd (rmul a u) (rmul b v)) t t') =
  zipw (fun u v => radd (rmul a u) (rmul b v))
     (preemph_rec ring_ops c p t) (preemph_rec ring_ops c p' t').
Proof.
  intros c a b t. induction t as [|u t IH]; intros [|v t'] p p' H; cbn in *;
    try reflexivity; try discriminate.
  f_equal; [ring|]. apply IH. lia.
Qed.

Lemma preemph_superposition_l : forall c a b x x', length x = length x' ->
  preemph_spec ring_ops c (zipw (fun u v => radd (rmul a u) (rmul b v)) x x') =
  zipw (fun u v => radd (rmul a u) (rmul b v)) (preemph_spec ring_ops c x) (preemph_spec ring_ops c x').
Proof.
  intros c a b [|u x] [|v x'] H; cbn in *; try reflexivity; try discriminate.
  f_equal. apply preemph_rec_linear. lia.
Qed.

(* pre-emphasis loses nothing: the one-pole recursion x[i] = y[i] + c x[i-1] undoes it *)
Fixpoint deemph (c prev : R) (l : list R) : list R :=
  match l with
  | [] => []
  | y :: t => let x := radd y (rmul c prev) in x :: deemph c x t
  end.

Lemma deemph_rec : forall c t p, deemph c p (preemph_rec ring_ops c p t) = t.
Proof.
  intros c t. induction t as [|u t IH]; intros p; [reflexivity|].
  cbn [preemph_rec deemph]. cbn [o_sub o_mul ring_ops].
  replace (radd (rsub u (rmul c p)) (rmul c p)) with u by ring.
  f_equal. apply IH.
Qed.

Lemma preemph_invertible_l : forall c x, deemph c rO (preemph_spec ring_ops c x) = x.
Proof.
  intros c [|u t]; [reflexivity|]. cbn [preemph_spec deemph].
  replace (radd u (rmul c rO)) with u by ring. f_equal. apply deemph_rec.
Qed.

(* torch functional forms compute the same values as the numpy classes *)
Lemma preemph_rec_zero : forall c x, preemph_rec ring_ops c rO x = preemph_spec ring_ops c x.
Proof.
  intros c [|u t]; [reflexivity|]. cbn [preemph_rec preemph_spec]. f_equal. cbn. ring.
Qed.

Lemma torch_preemph_eq_l : forall c ip ax x r, axis_ok ax = true ->
  option_map (@a_data R) (out_arr (run ring_ops G c ip ax preemph_prog (Build_arr F64 x) r)) =
  fst (trun ring_ops G c torch_preemph_prog x r).
Proof.
  intros. destruct (preemph_values_l ring_ops G c ip ax F64 x r H) as (_ & A).
  rewrite A, torch_preemph_run_l, !conv_ring, preemph_rec_zero. reflexivity.
Qed.

(* same deviates => same dithered values *)
Lemma torch_dither_eq_l : forall c ip ax x r, axis_ok ax = true ->
  option_map (@a_data R) (out_arr (run ring_ops G c ip ax dither_prog (Build_arr F64 x) r)) =
  fst (trun ring_ops G c torch_dither_prog x r).
Proof.
  intros. rewrite dither_linear_l by assumption. now rewrite torch_dither_run_l.
Qed.

End RingInst.

(* the hypotheses are satisfiable: integers, a non-trivial signal *)
Definition zgen : rngm Z Z := {| g_next := fun s k => s + 7 * Z.of_nat k; g_adv := fun s n => s + Z.of_nat n |}.
Definition zops := ring_ops Z 0 Z.add Z.mul Z.sub (fun z => z).

Example preemph_example :
  out_arr (run zops zgen 3 false None preemph_prog (Build_arr I16 [5; 7; -2; 10]) 0)
  = Some (Build_arr I16 [5; -8; -23; 16]).
Proof. reflexivity. Qed.

Example dither_example :
  out_arr (run zops zgen 2 true (Some 0) dither_prog (Build_arr F64 [5; 7; -2]) 1)
  = Some (Build_arr F64 [7; 23; 28])
  /\ aliases_input (run zops zgen 2 true (Some 0) dither_prog (Build_arr F64 [5; 7; -2]) 1) = true.
Proof. split; reflexivity. Qed.

Example ring_instance_Z : ring_theory 0 1 Z.add Z.mul Z.sub Z.opp (@eq Z).
Proof. exact Zth. Qed.
