(* C18 - the property theorems, and nothing else.  They speak about
   [preemph_prog], [dither_prog], [torch_preemph_prog], [torch_dither_prog] of
   gen/Pre.v - regenerated from pre.py / torch.py on every run - executed by the
   interpreter of Model.v.  [O] ranges over ALL sample operations (so the
   statements hold for IEEE float64 arithmetic and numpy's casts), [G] over all
   generators, [d] over all dtypes, [x] over all signals of every length. *)
From Coq Require Import ZArith List Bool Reals Ring.
From Flocq Require Import Core BinarySingleNaN.
From Verif Require Import C18.Model gen.Pre C18.Proofs C18.F64 C18.F64Proofs C18.Stats.
Import ListNotations.
Open Scope Z_scope.

(* ---------------- Preemphasize.apply ---------------- *)

(* the result has the input dtype and holds cast_back(spec(cast_to_float64 x)) *)
Theorem preemph_values : forall V RS (O : ops V) (G : rngm V RS) c ip ax d x r,
  axis_ok ax = true ->
  let s := run O G c ip ax preemph_prog (Build_arr d x) r in
  s_err s = false /\
  out_arr s = Some (Build_arr d (conv O F64 d (preemph_spec O c (conv O d F64 x)))).
Proof. exact @preemph_values_l. Qed.
Print Assumptions preemph_values.

(* spec: y[0] = w[0]; y[i+1] = w[i+1] - c * w[i]; same length - for every length *)
Theorem preemph_recurrence : forall V (O : ops V) c w dflt,
  length (preemph_spec O c w) = length w /\
  nth 0 (preemph_spec O c w) dflt = nth 0 w dflt /\
  forall i, (S i < length w)%nat ->
    nth (S i) (preemph_spec O c w) dflt = o_sub O (nth (S i) w dflt) (o_mul O c (nth i w dflt)).
Proof. exact @preemph_recurrence_l. Qed.
Print Assumptions preemph_recurrence.

Theorem preemph_input_untouched : forall V RS (O : ops V) (G : rngm V RS) c ip ax d x r,
  axis_ok ax = true -> ip = false \/ d <> F64 ->
  let s := run O G c ip ax preemph_prog (Build_arr d x) r in
  input_after s = Build_arr d x /\ aliases_input s = false.
Proof. exact @preemph_input_untouched_l. Qed.
Print Assumptions preemph_input_untouched.

Theorem preemph_in_place : forall V RS (O : ops V) (G : rngm V RS) c ax x r,
  axis_ok ax = true ->
  let s := run O G c true ax preemph_prog (Build_arr F64 x) r in
  aliases_input s = true /\ out_arr s = Some (input_after s) /\
  out_arr s = out_arr (run O G c false ax preemph_prog (Build_arr F64 x) r).
Proof. exact @preemph_in_place_l. Qed.
Print Assumptions preemph_in_place.

Theorem preemph_in_place_same_values : forall V RS (O : ops V) (G : rngm V RS) c ax d x r,
  axis_ok ax = true ->
  out_arr (run O G c true ax preemph_prog (Build_arr d x) r) =
  out_arr (run O G c false ax preemph_prog (Build_arr d x) r).
Proof. exact @preemph_in_place_same_values_l. Qed.
Print Assumptions preemph_in_place_same_values.

Theorem preemph_leaves_generator : forall V RS (O : ops V) (G : rngm V RS) c ip ax d x r,
  axis_ok ax = true -> s_rng (run O G c ip ax preemph_prog (Build_arr d x) r) = r.
Proof. exact @preemph_rng_l. Qed.
Print Assumptions preemph_leaves_generator.

(* ---------------- Dither.apply ---------------- *)

(* result = cast_back(rint_if_int(cast_to_float64 x + noise)) where noise = 0 + c * g
   is built from the next [length x] deviates of the generator only and
   [rint_if_int] rounds to the nearest integer for the integer dtypes (np.rint) *)
Theorem dither_values : forall V RS (O : ops V) (G : rngm V RS) c ip ax d x r,
  axis_ok ax = true ->
  let s := run O G c ip ax dither_prog (Build_arr d x) r in
  s_err s = false /\
  out_arr s = Some (Build_arr d (conv O F64 d (rint_if_int O d
     (zipw (o_add O) (conv O d F64 x) (noise_of O c (g_draw G r (length x))))))) /\
  s_rng s = g_adv G r (length x).
Proof. exact @dither_values_l. Qed.
Print Assumptions dither_values.

Theorem dither_input_untouched : forall V RS (O : ops V) (G : rngm V RS) c ip ax d x r,
  axis_ok ax = true -> ip = false \/ d <> F64 ->
  let s := run O G c ip ax dither_prog (Build_arr d x) r in
  input_after s = Build_arr d x /\ aliases_input s = false.
Proof. exact @dither_input_untouched_l. Qed.
Print Assumptions dither_input_untouched.

Theorem dither_in_place : forall V RS (O : ops V) (G : rngm V RS) c ax x r,
  axis_ok ax = true ->
  let s := run O G c true ax dither_prog (Build_arr F64 x) r in
  aliases_input s = true /\ out_arr s = Some (input_after s) /\
  out_arr s = out_arr (run O G c false ax dither_prog (Build_arr F64 x) r).
Proof. exact @dither_in_place_l. Qed.
Print Assumptions dither_in_place.

Theorem dither_in_place_same_values : forall V RS (O : ops V) (G : rngm V RS) c ax d x r,
  axis_ok ax = true ->
  out_arr (run O G c true ax dither_prog (Build_arr d x) r) =
  out_arr (run O G c false ax dither_prog (Build_arr d x) r).
Proof. exact @dither_in_place_same_values_l. Qed.
Print Assumptions dither_in_place_same_values.

(* reproducible, and the noise does not depend on the signal: from one generator
   state, any two calls on signals of one length add the same vector *)
Theorem dither_noise_function_of_state :
  forall V RS (O : ops V) (G : rngm V RS) c ip ip' ax ax' d d' x x' r,
  axis_ok ax = true -> axis_ok ax' = true -> length x = length x' ->
  exists nz, length nz = length x /\
    out_arr (run O G c ip ax dither_prog (Build_arr d x) r) =
      Some (Build_arr d (conv O F64 d (rint_if_int O d (zipw (o_add O) (conv O d F64 x) nz)))) /\
    out_arr (run O G c ip' ax' dither_prog (Build_arr d' x') r) =
      Some (Build_arr d' (conv O F64 d' (rint_if_int O d' (zipw (o_add O) (conv O d' F64 x') nz)))).
Proof. exact @dither_noise_function_of_state_l. Qed.
Print Assumptions dither_noise_function_of_state.

(* the deprecated axis argument of a 1-D signal only triggers the warning *)
Theorem axis_only_warns : forall V RS (O : ops V) (G : rngm V RS) c ip ax d x r,
  axis_ok ax = true ->
  out_arr (run O G c ip ax preemph_prog (Build_arr d x) r) =
    out_arr (run O G c ip None preemph_prog (Build_arr d x) r) /\
  out_arr (run O G c ip ax dither_prog (Build_arr d x) r) =
    out_arr (run O G c ip None dither_prog (Build_arr d x) r) /\
  s_warn (run O G c ip ax preemph_prog (Build_arr d x) r) = negb (opt_eqb ax None) /\
  s_warn (run O G c ip ax dither_prog (Build_arr d x) r) = negb (opt_eqb ax None).
Proof. exact @axis_only_warns_l. Qed.
Print Assumptions axis_only_warns.

(* ---------------- exact arithmetic: any commutative ring ---------------- *)

Theorem dither_zero_identity :
  forall R rO rI radd rmul rsub ropp rrint, ring_theory rO rI radd rmul rsub ropp (@eq R) ->
  forall RS (G : rngm R RS) ip ax d x r, axis_ok ax = true ->
  is_float d = true \/ Forall (fun v => rrint v = v) x ->
  out_arr (run (ring_ops R rO radd rmul rsub rrint) G rO ip ax dither_prog (Build_arr d x) r)
  = Some (Build_arr d x).
Proof. exact dither_zero_identity_l. Qed.
Print Assumptions dither_zero_identity.

(* output = signal + coeff * g (rounded to integers for the integer dtypes), g the
   unit deviates of the state *)
Theorem dither_linear :
  forall R rO rI radd rmul rsub ropp rrint, ring_theory rO rI radd rmul rsub ropp (@eq R) ->
  forall RS (G : rngm R RS) c ip ax d x r, axis_ok ax = true ->
  out_arr (run (ring_ops R rO radd rmul rsub rrint) G c ip ax dither_prog (Build_arr d x) r) =
  Some (Build_arr d (rint_if_int (ring_ops R rO radd rmul rsub rrint) d
                      (zipw radd x (map (rmul c) (g_draw G r (length x)))))).
Proof. exact dither_linear_l. Qed.
Print Assumptions dither_linear.

Theorem dither_scales_with_coeff :
  forall R rO rI radd rmul rsub ropp rrint, ring_theory rO rI radd rmul rsub ropp (@eq R) ->
  forall RS (G : rngm R RS) a c ip ax d x r y ya, is_float d = true -> axis_ok ax = true ->
  out_arr (run (ring_ops R rO radd rmul rsub rrint) G c ip ax dither_prog (Build_arr d x) r) = Some y ->
  out_arr (run (ring_ops R rO radd rmul rsub rrint) G (rmul a c) ip ax dither_prog (Build_arr d x) r) = Some ya ->
  zipw rsub (a_data ya) x = map (rmul a) (zipw rsub (a_data y) x).
Proof. exact dither_scales_l. Qed.
Print Assumptions dither_scales_with_coeff.

Theorem dither_signal_independent :
  forall R rO rI radd rmul rsub ropp rrint, ring_theory rO rI radd rmul rsub ropp (@eq R) ->
  forall RS (G : rngm R RS) c ip ip' ax ax' d d' x x' r y y',
  is_float d = true -> is_float d' = true ->
  axis_ok ax = true -> axis_ok ax' = true -> length x = length x' ->
  out_arr (run (ring_ops R rO radd rmul rsub rrint) G c ip ax dither_prog (Build_arr d x) r) = Some y ->
  out_arr (run (ring_ops R rO radd rmul rsub rrint) G c ip' ax' dither_prog (Build_arr d' x') r) = Some y' ->
  zipw rsub (a_data y) x = zipw rsub (a_data y') x'.
Proof. exact dither_signal_independent_l. Qed.
Print Assumptions dither_signal_independent.

Theorem preemph_superposition :
  forall R rO rI radd rmul rsub ropp rrint, ring_theory rO rI radd rmul rsub ropp (@eq R) ->
  forall c a b x x', length x = length x' ->
  preemph_spec (ring_ops R rO radd rmul rsub rrint) c (zipw (fun u v => radd (rmul a u) (rmul b v)) x x') =
  zipw (fun u v => radd (rmul a u) (rmul b v))
       (preemph_spec (ring_ops R rO radd rmul rsub rrint) c x) (preemph_spec (ring_ops R rO radd rmul rsub rrint) c x').
Proof. exact preemph_superposition_l. Qed.
Print Assumptions preemph_superposition.

Theorem preemph_invertible :
  forall R rO rI radd rmul rsub ropp rrint, ring_theory rO rI radd rmul rsub ropp (@eq R) ->
  forall c x, deemph R radd rmul c rO (preemph_spec (ring_ops R rO radd rmul rsub rrint) c x) = x.
Proof. exact preemph_invertible_l. Qed.
Print Assumptions preemph_invertible.

(* torch functional forms = numpy classes *)
Theorem torch_preemph_eq :
  forall R rO rI radd rmul rsub ropp rrint, ring_theory rO rI radd rmul rsub ropp (@eq R) ->
  forall RS (G : rngm R RS) c ip ax x r, axis_ok ax = true ->
  option_map (@a_data R)
    (out_arr (run (ring_ops R rO radd rmul rsub rrint) G c ip ax preemph_prog (Build_arr F64 x) r)) =
  fst (trun (ring_ops R rO radd rmul rsub rrint) G c torch_preemph_prog x r).
Proof. exact torch_preemph_eq_l. Qed.
Print Assumptions torch_preemph_eq.

Theorem torch_dither_eq :
  forall R rO rI radd rmul rsub ropp rrint, ring_theory rO rI radd rmul rsub ropp (@eq R) ->
  forall RS (G : rngm R RS) c ip ax x r, axis_ok ax = true ->
  option_map (@a_data R)
    (out_arr (run (ring_ops R rO radd rmul rsub rrint) G c ip ax dither_prog (Build_arr F64 x) r)) =
  fst (trun (ring_ops R rO radd rmul rsub rrint) G c torch_dither_prog x r).
Proof. exact torch_dither_eq_l. Qed.
Print Assumptions torch_dither_eq.

(* torch forms for arbitrary operations *)
Theorem torch_preemph_run : forall V RS (O : ops V) (G : rngm V RS) c x r,
  trun O G c torch_preemph_prog x r = (Some (preemph_rec O c (o_zero O) x), r).
Proof. exact @torch_preemph_run_l. Qed.
Print Assumptions torch_preemph_run.

Theorem torch_dither_run : forall V RS (O : ops V) (G : rngm V RS) c x r,
  trun O G c torch_dither_prog x r =
  (Some (zipw (o_add O) x (map (o_mul O c) (g_draw G r (length x)))), g_adv G r (length x)).
Proof. exact @torch_dither_run_l. Qed.
Print Assumptions torch_dither_run.

(* ---------------- IEEE-754 binary64 (Flocq) ---------------- *)
Open Scope R_scope.

(* float64 signal whose samples are z * 2^-j, coefficient m * 2^-k, numerators
   small enough: "computed in float64" is EXACTLY the real recurrence *)
Theorem preemph_f64_exact : forall (cf : b64) (m k j N : Z),
  is_finite cf = true -> B2R cf = IZR m * bpow radix2 (-k) ->
  (0 <= k)%Z -> (0 <= j)%Z -> (k + j <= 1074)%Z -> ((2 ^ k + Z.abs m) * N < 2 ^ 53)%Z ->
  forall ip ax x r, axis_ok ax = true -> Forall (dy j N) x ->
  exists y, out_arr (run nops ngen (VF cf) ip ax preemph_prog (Build_arr F64 x) r)
            = Some (Build_arr F64 y) /\
            map vR y = preemph_spec Stats.Rops (B2R cf) (map vR x).
Proof. exact preemph_f64_exact_l. Qed.
Print Assumptions preemph_f64_exact.

(* integer dtypes: float64 recurrence, then the C cast = truncation toward zero *)
Theorem preemph_int_exact : forall (cf : b64) (m k N : Z) d zs ip ax r,
  is_finite cf = true -> B2R cf = IZR m * bpow radix2 (-k) ->
  (0 <= k <= 1074)%Z -> ((2 ^ k + Z.abs m) * N < 2 ^ 53)%Z ->
  is_float d = false -> axis_ok ax = true -> Forall (fun z => (Z.abs z <= N)%Z) zs ->
  out_arr (run nops ngen (VF cf) ip ax preemph_prog (Build_arr d (map VI zs)) r) =
  Some (Build_arr d (map (fun y => VI (Ztrunc y)) (preemph_spec Stats.Rops (B2R cf) (map IZR zs)))).
Proof. exact preemph_int_exact_l. Qed.
Print Assumptions preemph_int_exact.

(* y[0] = x[0] also survives the int -> float64 -> int round trip below 2^53 *)
Theorem preemph_int_first_sample : forall (c : val) d z zs ip ax r,
  is_float d = false -> axis_ok ax = true -> (Z.abs z < 2 ^ 53)%Z ->
  exists y, out_arr (run nops ngen c ip ax preemph_prog (Build_arr d (map VI (z :: zs))) r)
            = Some (Build_arr d (VI z :: y)).
Proof. exact preemph_int_first_l. Qed.
Print Assumptions preemph_int_first_sample.

(* ... and of a float32 / float16 signal the narrow -> float64 -> narrow round trip *)
Theorem preemph_narrow_first_sample : forall (c : val) d (f : b64) xs ip ax r,
  axis_ok ax = true -> is_finite f = true ->
  (d = F32 /\ generic_format radix2 (SpecFloat.fexp 24 128) (B2R f) /\ Rabs (B2R f) < bpow radix2 128) \/
  (d = F16 /\ generic_format radix2 (SpecFloat.fexp 11 16) (B2R f) /\ Rabs (B2R f) < bpow radix2 16) ->
  exists y, out_arr (run nops ngen c ip ax preemph_prog (Build_arr d (VF f :: xs)) r)
            = Some (Build_arr d (VF f :: y)).
Proof. exact preemph_narrow_first_l. Qed.
Print Assumptions preemph_narrow_first_sample.

(* coefficient +0.0 or -0.0: float64 Dither returns the signal (as numbers) *)
Theorem dither_f64_zero_coeff : forall (sz : bool) ip ax x g, axis_ok ax = true ->
  length g = length x ->
  Forall (fun v => exists f, v = VF f /\ is_finite f = true) g ->
  Forall (fun v => exists f, v = VF f) x ->
  exists y, out_arr (run nops ngen (VF (B754_zero sz)) ip ax dither_prog (Build_arr F64 x) g)
            = Some (Build_arr F64 y) /\ map vR y = map vR x.
Proof. exact dither_f64_zero_coeff_l. Qed.
Print Assumptions dither_f64_zero_coeff.

(* arbitrary finite float64 signal and coefficient (e.g. the default 0.97): each
   sample is the twice-rounded  rnd(x[i+1] - rnd(c * x[i]))  and lies within two
   unit roundoffs (u64 = 2^-53; eta64 = underflow) of the real-number recurrence;
   the first sample is returned unchanged *)
Theorem preemph_f64_accuracy : forall (cf : b64) (x : list b64) ip ax r i,
  axis_ok ax = true -> (S i < length x)%nat ->
  let a := nth i x (B754_zero false) in
  let b := nth (S i) x (B754_zero false) in
  is_finite cf = true -> is_finite a = true -> is_finite b = true ->
  Rabs (rnd64 (B2R cf * B2R a)) < bpow radix2 1024 ->
  Rabs (rnd64 (B2R b - rnd64 (B2R cf * B2R a))) < bpow radix2 1024 ->
  exists y, out_arr (run nops ngen (VF cf) ip ax preemph_prog (Build_arr F64 (map VF x)) r)
            = Some (Build_arr F64 y) /\
    length y = length x /\
    nth 0 y (VF (B754_zero false)) = VF (nth 0 x (B754_zero false)) /\
    vR (nth (S i) y (VF (B754_zero false))) = rnd64 (B2R b - rnd64 (B2R cf * B2R a)) /\
    Rabs (vR (nth (S i) y (VF (B754_zero false))) - (B2R b - B2R cf * B2R a)) <=
      u64 * (Rabs (B2R cf * B2R a) + Rabs (B2R b - rnd64 (B2R cf * B2R a))) + 2 * eta64.
Proof. exact preemph_f64_accuracy_l. Qed.
Print Assumptions preemph_f64_accuracy.

(* float64 Dither: sample i is rnd(x[i] + rnd(c * g[i])), g the deviates *)
Theorem dither_f64_value : forall (cf : b64) (x g : list b64) ip ax i,
  axis_ok ax = true -> length g = length x -> (i < length x)%nat ->
  let xi := nth i x (B754_zero false) in
  let gi := nth i g (B754_zero false) in
  is_finite cf = true -> is_finite gi = true -> is_finite xi = true ->
  Rabs (rnd64 (B2R cf * B2R gi)) < bpow radix2 1024 ->
  Rabs (rnd64 (B2R xi + rnd64 (B2R cf * B2R gi))) < bpow radix2 1024 ->
  exists y, out_arr (run nops ngen (VF cf) ip ax dither_prog (Build_arr F64 (map VF x)) (map VF g))
            = Some (Build_arr F64 y) /\
    length y = length x /\
    vR (nth i y (VF (B754_zero false))) = rnd64 (B2R xi + rnd64 (B2R cf * B2R gi)).
Proof. exact dither_f64_value_l. Qed.
Print Assumptions dither_f64_value.

(* integer dtypes (after fix 60e9a5c): element by element the result is
   rint(float64(x) + (0 + c*g)), ties to even, whatever the values *)
Theorem dither_int_value : forall (c : val) d zs ip ax g,
  is_float d = false -> axis_ok ax = true ->
  out_arr (run nops ngen c ip ax dither_prog (Build_arr d (map VI zs)) g) =
  Some (Build_arr d (map (fun v => VI (ZnearestE (vR v)))
     (zipw (o_add nops) (map (fun z => VF (mk64 z 0)) zs)
           (noise_of nops c (g_draw ngen g (length zs)))))).
Proof. exact dither_int_value_l. Qed.
Print Assumptions dither_int_value.

(* witness on the repaired code: deviates +3/4, -3/4 move 1000 and -1000 by +1, -1 *)
Theorem dither_int_noise_symmetric_witness :
  let c := VF (mk64 1 0) in
  let run1 x g := out_data (run nops ngen c false None dither_prog (Build_arr I16 [VI x]) [VF g]) in
  run1 1000%Z (mk64 3 (-2)) = [RInt 1001] /\ run1 1000%Z (mk64 (-3) (-2)) = [RInt 999] /\
  run1 (-1000)%Z (mk64 3 (-2)) = [RInt (-999)] /\ run1 (-1000)%Z (mk64 (-3) (-2)) = [RInt (-1001)].
Proof. exact dither_int_noise_symmetric_l. Qed.
Print Assumptions dither_int_noise_symmetric_witness.

(* REGRESSION RECORD about the code BEFORE fix 60e9a5c ([old_dither_prog], written
   out by hand in F64Proofs.v, NOT the current source): the truncating cast biased
   the returned noise by -sign(x)/2 *)
Theorem old_dither_int_noise_biased_refuted :
  let c := VF (mk64 1 0) in
  let run1 x g := out_data (run nops ngen c false None old_dither_prog (Build_arr I16 [VI x]) [VF g]) in
  run1 1000%Z (mk64 1 (-1)) = [RInt 1000] /\ run1 1000%Z (mk64 (-1) (-1)) = [RInt 999] /\
  run1 (-1000)%Z (mk64 1 (-1)) = [RInt (-999)] /\ run1 (-1000)%Z (mk64 (-1) (-1)) = [RInt (-1000)].
Proof. exact old_dither_int_noise_biased_l. Qed.
Print Assumptions old_dither_int_noise_biased_refuted.

(* ---------------- sample moments of the noise (reals) ---------------- *)
Theorem dither_moments : forall RS (G : rngm R RS) c ip ax d x r y, axis_ok ax = true ->
  is_float d = true ->
  out_arr (run Stats.Rops G c ip ax dither_prog (Build_arr d x) r) = Some y ->
  let nz := zipw Rminus (a_data y) x in
  let g := g_draw G r (length x) in
  mean nz = c * mean g /\ std nz = Rabs c * std g /\
  (mean g = 0 -> std g = 1 -> mean nz = 0 /\ std nz = Rabs c).
Proof. exact dither_moments_l. Qed.
Print Assumptions dither_moments.

(* integer dtypes over the reals: for integer samples the returned-minus-input
   noise is rint(c*z) - the same for every signal, and odd in the deviate (so
   symmetric about zero like the deviates); [rrint] is round-half-even *)
Theorem dither_int_noise : forall RS (G : rngm R RS) c ip ax d ks r y, axis_ok ax = true ->
  is_float d = false ->
  let g := g_draw G r (length ks) in
  Forall (fun z => Rabs (c * z - rrint (c * z)) < / 2) g ->
  out_arr (run Stats.Rops G c ip ax dither_prog (Build_arr d (map IZR ks)) r) = Some y ->
  zipw Rminus (a_data y) (map IZR ks) = map (fun z => rrint (c * z)) g /\
  (forall z, In z g -> rrint (c * - z) = - rrint (c * z)).
Proof. exact dither_int_noise_l. Qed.
Print Assumptions dither_int_noise.
