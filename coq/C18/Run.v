(* C18 - symbolic execution of the generated programs gen/Pre.v by the
   interpreter of Model.v, for ARBITRARY sample operations, every dtype,
   in_place setting and admissible axis: [preemph_run_all], [dither_run_all]. *)
From Coq Require Import ZArith List Bool Lia Ring.
From Verif Require Import C18.Model gen.Pre.
Import ListNotations.
Open Scope Z_scope.

(* ------------------------------------------------------------ list facts *)
Lemma slice_get_from1 : forall A (l : list A), slice_get (Some 1) None l = tl l.
Proof.
  intros A l. unfold slice_get, slice_bounds, norm_idx.
  destruct l as [|x t]; [reflexivity|].
  cbn [length tl]. change (1 <? 0) with false. cbv iota.
  replace (Z.to_nat (Z.min 1 (Z.of_nat (S (length t))))) with 1%nat by lia.
  replace (Z.to_nat (Z.max (Z.min 1 (Z.of_nat (S (length t)))) (Z.of_nat (S (length t)))))
    with (S (length t)) by lia.
  cbn [skipn]. replace (S (length t) - 1)%nat with (length t) by lia.
  apply firstn_all.
Qed.

Lemma slice_get_to_m1 : forall A (l : list A), slice_get None (Some (-1)) l = removelast l.
Proof.
  intros A l. unfold slice_get, slice_bounds, norm_idx.
  change (-1 <? 0) with true. cbv iota.
  change (Z.to_nat 0) with 0%nat. cbn [skipn].
  rewrite removelast_firstn_len. f_equal. lia.
Qed.

Lemma slice_get_all : forall A (l : list A), slice_get None None l = l.
Proof.
  intros A l. unfold slice_get, slice_bounds, norm_idx.
  change (Z.to_nat 0) with 0%nat. cbn [skipn].
  replace (Z.to_nat (Z.max 0 (Z.of_nat (length l))) - 0)%nat with (length l) by lia.
  apply firstn_all.
Qed.

Lemma slice_set_from1 : forall A (l v : list A), slice_set (Some 1) None l v = firstn 1 l ++ v.
Proof.
  intros A l v. unfold slice_set, slice_bounds, norm_idx.
  change (1 <? 0) with false. cbv iota.
  replace (Z.to_nat (Z.max (Z.min 1 (Z.of_nat (length l))) (Z.of_nat (length l))))
    with (length l) by lia.
  rewrite skipn_all, app_nil_r.
  destruct l as [|x t]; [reflexivity|].
  cbn [length]. replace (Z.to_nat (Z.min 1 (Z.of_nat (S (length t))))) with 1%nat by lia.
  reflexivity.
Qed.

Lemma slice_set_all : forall A (l v : list A), slice_set None None l v = v.
Proof.
  intros A l v. unfold slice_set, slice_bounds, norm_idx.
  change (Z.to_nat 0) with 0%nat.
  replace (Z.to_nat (Z.max 0 (Z.of_nat (length l)))) with (length l) by lia.
  rewrite skipn_all, app_nil_r. reflexivity.
Qed.

Lemma length_removelast : forall A (l : list A), length (removelast l) = pred (length l).
Proof.
  intros A l. rewrite removelast_firstn_len, firstn_length. lia.
Qed.

Lemma length_tl : forall A (l : list A), length (tl l) = pred (length l).
Proof. now destruct l. Qed.

Lemma zipw_length : forall A B C (f : A -> B -> C) l m,
  length l = length m -> length (zipw f l m) = length l.
Proof.
  induction l; destruct m; cbn; intros; try lia. f_equal. apply IHl. lia.
Qed.

Section AnyOps.
Context {V RS : Type}.
Variable O : ops V.
Variable G : rngm V RS.

(* the slice statement computes the documented recurrence, reading old samples *)
Lemma zip_is_rec : forall c x t,
  zipw (o_sub O) t (map (o_mul O c) (removelast (x :: t))) = preemph_rec O c x t.
Proof.
  intros c x t. revert x. induction t as [|y t IH]; intros x; [reflexivity|].
  change (removelast (x :: y :: t)) with (x :: removelast (y :: t)).
  cbn [map zipw preemph_rec]. f_equal. apply IH.
Qed.

Lemma slices_are_spec : forall c w,
  firstn 1 w ++ zipw (o_sub O) (tl w) (map (o_mul O c) (removelast w)) = preemph_spec O c w.
Proof.
  intros c [|x t]; [reflexivity|]. cbn [firstn tl app preemph_spec]. f_equal. apply zip_is_rec.
Qed.

Lemma preemph_spec_length : forall c w, length (preemph_spec O c w) = length w.
Proof.
  intros c [|x t]; [reflexivity|]. cbn. f_equal. revert x.
  induction t; intros; cbn; [reflexivity|]. f_equal. apply IHt.
Qed.

(* position-wise reading of the recurrence, for every length *)
Lemma preemph_rec_nth : forall c t x i dflt, (i < length t)%nat ->
  nth i (preemph_rec O c x t) dflt =
  o_sub O (nth i t dflt) (o_mul O c (nth i (x :: t) dflt)).
Proof.
  intros c t. induction t as [|y t IH]; intros x i dflt Hi; [cbn in Hi; lia|].
  destruct i; [reflexivity|]. cbn [preemph_rec nth]. rewrite IH by (cbn in Hi; lia).
  reflexivity.
Qed.

Lemma preemph_spec_nth0 : forall c w dflt, nth 0 (preemph_spec O c w) dflt = nth 0 w dflt.
Proof. intros c [|x t] dflt; reflexivity. Qed.

Lemma preemph_spec_nthS : forall c w i dflt, (S i < length w)%nat ->
  nth (S i) (preemph_spec O c w) dflt =
  o_sub O (nth (S i) w dflt) (o_mul O c (nth i w dflt)).
Proof.
  intros c [|x t] i dflt Hi; [cbn in Hi; lia|].
  cbn [preemph_spec nth]. rewrite preemph_rec_nth by (cbn in Hi; lia). reflexivity.
Qed.

(* ---- the statement  signal[..., 1:] -= self.coeff * signal[..., :-1]  *)
Lemma conv_same : forall d l, conv O d d l = l.
Proof. intros d l. unfold conv. now destruct d. Qed.

Lemma aug_preemph_f64 : forall c (s : state V RS),
  a_dt (cur s) = F64 ->
  exec_aug O G c (OSub) (Some 1) None (EMulCoeff (ESig None (Some (-1)))) s =
  set_cur s (Build_arr F64 (preemph_spec O c (a_data (cur s)))) (s_rng s).
Proof.
  intros c s Hd. unfold exec_aug. cbn [aeval].
  rewrite Hd. cbn [is_float negb]. rewrite !conv_same.
  rewrite slice_get_from1, slice_get_to_m1, map_length, length_removelast, length_tl.
  rewrite Nat.eqb_refl. cbn [negb].
  rewrite slice_set_from1. cbn [binop]. now rewrite slices_are_spec.
Qed.

Lemma g_draw_length : forall r n, length (g_draw G r n) = n.
Proof. intros. unfold g_draw. now rewrite map_length, seq_length. Qed.

Lemma zipw_noise : forall c l g,
  zipw (o_add O) l (map (normal_of O c) g) = dither_spec O c l g.
Proof. reflexivity. Qed.

Lemma aug_dither_f64 : forall c sh (s : state V RS),
  a_dt (cur s) = F64 ->
  exec_aug O G c (OAdd) None None (ENormal sh) s =
  set_cur s (Build_arr F64 (dither_spec O c (a_data (cur s))
                              (g_draw G (s_rng s) (length (a_data (cur s))))))
            (g_adv G (s_rng s) (length (a_data (cur s)))).
Proof.
  intros c sh s Hd. unfold exec_aug. cbn [aeval].
  rewrite Hd. cbn [is_float negb]. rewrite !conv_same.
  rewrite slice_get_all, map_length, g_draw_length, Nat.eqb_refl. cbn [negb].
  rewrite slice_set_all. reflexivity.
Qed.


Lemma conv_length : forall a b l, length (conv O a b l) = length l.
Proof. intros. unfold conv. destruct (dtype_eqb a b); [reflexivity|apply map_length]. Qed.

Lemma axis_ok_cases : forall ax, axis_ok ax = true -> ax = None \/ ax = Some 0 \/ ax = Some (-1).
Proof.
  intros [k|] H; [|now left]. right. cbn in H. apply orb_true_iff in H.
  destruct H as [H|H]; apply Z.eqb_eq in H; subst; auto.
Qed.

Lemma exec_list_app : forall c ip ax p q (s : state V RS),
  exec_list O G c ip ax (p ++ q) s = exec_list O G c ip ax q (exec_list O G c ip ax p s).
Proof. induction p; intros; cbn [app exec_list]; auto. Qed.

(* The working state after the prologue of either [apply]: the variable
   [signal] refers to the input array itself (in_place on float64) or to a
   fresh float64 copy; [w] is the float64 working data. *)
Definition st_work (d : dtype) (x w : list V) (r : RS) (wn b : bool) : state V RS :=
  if b
  then {| s_heap := [Build_arr F64 w]; s_sig := 0%nat; s_saved := d; s_rng := r;
          s_ret := None; s_err := false; s_warn := wn |}
  else {| s_heap := [Build_arr d x; Build_arr F64 w]; s_sig := 1%nat; s_saved := d; s_rng := r;
          s_ret := None; s_err := false; s_warn := wn |}.

Lemma in_place_f64 : forall ip d, ip && dtype_eqb d F64 = true -> d = F64.
Proof. intros ip d H. apply andb_true_iff in H. destruct H as [_ H]. now destruct d. Qed.

(* what the final  return signal.astype(signal_dtype, copy=False)  yields *)
Lemma epilogue : forall c ip ax p d x w r wn b, (b = true -> d = F64) ->
  p = [SReturnAstypeSaved] \/
  (axis_ok ax = true /\ p = [SIf (BNot (BAxisIn [Some (-1); None])) [SMoveAxis false] []; SReturnAstypeSaved]) ->
  let s := exec_list O G c ip ax p (st_work d x w r wn b) in
  s_err s = false /\ s_rng s = r /\ s_warn s = wn /\
  out_arr s = Some (Build_arr d (conv O F64 d w)) /\
  (if b then aliases_input s = true /\ input_after s = Build_arr d (conv O F64 d w)
   else aliases_input s = false /\ input_after s = Build_arr d x).
Proof.
  intros c ip ax p d x w r wn b Hb [->|[Hax ->]]; destruct b; try rewrite (Hb eq_refl).
  - cbv zeta; repeat split.
  - destruct d; cbv zeta; repeat split.
  - destruct (axis_ok_cases ax Hax) as [->|[->| ->]]; cbv zeta; repeat split.
  - destruct (axis_ok_cases ax Hax) as [->|[->| ->]]; destruct d; cbv zeta; repeat split.
Qed.

(* ---- Preemphasize.apply, every dtype / in_place / axis a 1-D signal accepts *)
Lemma preemph_prologue : forall c ip ax d x r, axis_ok ax = true ->
  exec_list O G c ip ax (firstn 4 preemph_prog) (init (Build_arr d x) r) =
  st_work d x (conv O d F64 x) r (negb (opt_eqb ax None)) (ip && dtype_eqb d F64).
Proof.
  intros c ip ax d x r Hax.
  destruct (axis_ok_cases ax Hax) as [->|[->| ->]]; destruct ip, d; reflexivity.
Qed.

Lemma preemph_body : forall c ip ax d x w r wn b, (b = true -> d = F64) ->
  exec O G c ip ax (nth 4 preemph_prog SWarn) (st_work d x w r wn b) =
  st_work d x (preemph_spec O c w) r wn b.
Proof.
  intros c ip ax d x w r wn b Hb. destruct b.
  - rewrite (Hb eq_refl). cbn [nth preemph_prog]. unfold st_work.
    cbn [exec live s_ret s_err negb]. rewrite aug_preemph_f64 by reflexivity. reflexivity.
  - cbn [nth preemph_prog]. unfold st_work.
    cbn [exec live s_ret s_err negb]. rewrite aug_preemph_f64 by reflexivity. reflexivity.
Qed.

Lemma preemph_run_all : forall c ip ax d x r, axis_ok ax = true ->
  let s := run O G c ip ax preemph_prog (Build_arr d x) r in
  let y := via_f64 O d (preemph_spec O c) x in
  s_err s = false /\ s_rng s = r /\ s_warn s = negb (opt_eqb ax None) /\
  out_arr s = Some (Build_arr d y) /\
  (if ip && dtype_eqb d F64
   then aliases_input s = true /\ input_after s = Build_arr d y
   else aliases_input s = false /\ input_after s = Build_arr d x).
Proof.
  intros c ip ax d x r Hax. unfold run, via_f64.
  change preemph_prog with (firstn 4 preemph_prog ++ [nth 4 preemph_prog SWarn] ++ skipn 5 preemph_prog).
  rewrite !exec_list_app, preemph_prologue by assumption.
  cbn [exec_list]. rewrite preemph_body by apply in_place_f64.
  apply epilogue; [apply in_place_f64|right; split; [assumption|reflexivity]].
Qed.

(* ---- Dither.apply *)
Lemma dither_prologue : forall c ip ax d x r, axis_ok ax = true ->
  exec_list O G c ip ax (firstn 3 dither_prog) (init (Build_arr d x) r) =
  st_work d x (conv O d F64 x) r (negb (opt_eqb ax None)) (ip && dtype_eqb d F64).
Proof.
  intros c ip ax d x r Hax.
  destruct (axis_ok_cases ax Hax) as [->|[->| ->]]; destruct ip, d; reflexivity.
Qed.

Lemma dither_body : forall c ip ax d x w r wn b, (b = true -> d = F64) -> axis_ok ax = true ->
  exec O G c ip ax (nth 3 dither_prog SWarn) (st_work d x w r wn b) =
  st_work d x (dither_spec O c w (g_draw G r (length w))) (g_adv G r (length w)) wn b.
Proof.
  intros c ip ax d x w r wn b Hb Hax.
  destruct (axis_ok_cases ax Hax) as [->|[->| ->]]; destruct b; try rewrite (Hb eq_refl);
    cbn [nth dither_prog]; unfold st_work;
    cbn [exec live s_ret s_err negb beval opt_eqb orb Z.eqb Pos.eqb];
    rewrite aug_dither_f64 by reflexivity; reflexivity.
Qed.

(* the statement  if np.issubdtype(signal_dtype, np.integer): np.rint(signal, out=signal) *)
Lemma dither_rint : forall c ip ax d x w r wn b, (b = true -> d = F64) ->
  exec O G c ip ax (nth 4 dither_prog SWarn) (st_work d x w r wn b) =
  st_work d x (rint_if_int O d w) r wn b.
Proof.
  intros c ip ax d x w r wn b Hb. destruct b; [rewrite (Hb eq_refl); reflexivity|].
  destruct d; reflexivity.
Qed.

Lemma rint_if_int_length : forall d l, length (rint_if_int O d l) = length l.
Proof. intros. unfold rint_if_int. destruct (is_float d); [reflexivity|apply map_length]. Qed.

Lemma dither_run_all : forall c ip ax d x r, axis_ok ax = true ->
  let s := run O G c ip ax dither_prog (Build_arr d x) r in
  let g := g_draw G r (length x) in
  let y := via_f64 O d (fun w => rint_if_int O d (dither_spec O c w g)) x in
  s_err s = false /\ s_rng s = g_adv G r (length x) /\ s_warn s = negb (opt_eqb ax None) /\
  out_arr s = Some (Build_arr d y) /\
  (if ip && dtype_eqb d F64
   then aliases_input s = true /\ input_after s = Build_arr d y
   else aliases_input s = false /\ input_after s = Build_arr d x).
Proof.
  intros c ip ax d x r Hax. unfold run, via_f64.
  change dither_prog with (firstn 3 dither_prog ++ [nth 3 dither_prog SWarn] ++
                           [nth 4 dither_prog SWarn] ++ skipn 5 dither_prog).
  rewrite !exec_list_app, dither_prologue by assumption.
  cbn [exec_list]. rewrite dither_body by (assumption || apply in_place_f64).
  rewrite dither_rint by apply in_place_f64.
  rewrite conv_length.
  apply epilogue; [apply in_place_f64|left; reflexivity].
Qed.

End AnyOps.

