(* C18 - the statistical clause, as far as it can be proved: with samples in
   the field of reals, the noise Dither adds is coeff * g, so its sample mean is
   coeff * mean(g) and its sample standard deviation |coeff| * std(g).  "Zero
   mean, standard deviation coeff" therefore holds exactly as far as the
   generator's standard normal deviates g have mean 0 and deviation 1 - which
   is a fact about numpy's generator, checked statistically by the harness. *)
From Coq Require Import Reals List Lra Lia ZArith Bool.
From Flocq Require Import Core.
From Verif Require Import C18.Model gen.Pre C18.Run C18.Proofs.
Import ListNotations.
Open Scope R_scope.

Definition rsum (l : list R) : R := fold_right Rplus 0 l.
Definition mean (l : list R) : R := rsum l / INR (length l).
(* np.var / np.std with ddof = 0 *)
Definition var (l : list R) : R := rsum (map (fun x => (x - mean l) ^ 2) l) / INR (length l).
Definition std (l : list R) : R := sqrt (var l).

Lemma rsum_scale : forall A (f : A -> R) k l, rsum (map (fun x => k * f x) l) = k * rsum (map f l).
Proof. induction l; cbn [map]; unfold rsum in *; cbn [fold_right]; [ring|rewrite IHl; ring]. Qed.

Lemma mean_scale : forall c g, mean (map (Rmult c) g) = c * mean g.
Proof.
  intros. unfold mean. rewrite map_length.
  replace (rsum (map (Rmult c) g)) with (c * rsum g); [unfold Rdiv; ring|].
  induction g; unfold rsum in *; cbn [map fold_right]; [ring|rewrite <- IHg; ring].
Qed.

Lemma var_scale : forall c g, var (map (Rmult c) g) = c ^ 2 * var g.
Proof.
  intros. unfold var. rewrite map_length, map_map, mean_scale.
  replace (rsum (map (fun x => (c * x - c * mean g) ^ 2) g))
    with (c ^ 2 * rsum (map (fun x => (x - mean g) ^ 2) g)); [unfold Rdiv; ring|].
  rewrite <- (rsum_scale R (fun x => (x - mean g) ^ 2) (c ^ 2) g).
  f_equal. apply map_ext. intros. ring.
Qed.

Lemma rsum_nonneg : forall l, (forall x, In x l -> 0 <= x) -> 0 <= rsum l.
Proof.
  induction l; intros; unfold rsum in *; cbn [fold_right]; [lra|].
  assert (0 <= a) by (apply H; now left).
  assert (0 <= fold_right Rplus 0 l) by (apply IHl; intros; apply H; now right). lra.
Qed.

Lemma var_nonneg : forall g, 0 <= var g.
Proof.
  intros. unfold var. destruct g as [|a g]; [cbn; unfold Rdiv; rewrite Rmult_0_l; lra|].
  apply Rmult_le_pos.
  - apply rsum_nonneg. intros x Hx. apply in_map_iff in Hx. destruct Hx as (y & <- & _). apply pow2_ge_0.
  - left. apply Rinv_0_lt_compat. apply lt_0_INR. cbn. apply Nat.lt_0_succ.
Qed.

Lemma std_scale : forall c g, std (map (Rmult c) g) = Rabs c * std g.
Proof.
  intros. unfold std. rewrite var_scale, sqrt_mult_alt by apply pow2_ge_0.
  f_equal. rewrite <- Rsqr_pow2. apply sqrt_Rsqr_abs.
Qed.

(* np.rint over the reals: nearest integer, ties to even (Flocq's ZnearestE) *)
Definition rrint (v : R) : R := IZR (ZnearestE v).

Definition Rops : ops R := ring_ops R 0 Rplus Rmult Rminus rrint.

Lemma R_ring : ring_theory 0 1 Rplus Rmult Rminus Ropp (@eq R).
Proof. exact RTheory. Qed.

Lemma dither_moments_l : forall RS (G : rngm R RS) c ip ax d x r y, axis_ok ax = true ->
  is_float d = true ->
  out_arr (run Rops G c ip ax dither_prog (Build_arr d x) r) = Some y ->
  let nz := zipw Rminus (a_data y) x in
  let g := g_draw G r (length x) in
  mean nz = c * mean g /\ std nz = Rabs c * std g /\
  (mean g = 0 -> std g = 1 -> mean nz = 0 /\ std nz = Rabs c).
Proof.
  intros RS G c ip ax d x r y H Fd E. unfold Rops in E.
  rewrite (dither_linear_l R 0 1 Rplus Rmult Rminus Ropp rrint R_ring G) in E by assumption.
  rewrite rint_float in E by assumption.
  injection E as <-. cbn [a_data].
  rewrite (zipw_sub_add R 0 1 Rplus Rmult Rminus Ropp R_ring)
    by (now rewrite map_length, g_draw_length).
  cbv zeta. rewrite mean_scale, std_scale. repeat split; try reflexivity.
  - rewrite H0. ring.
  - rewrite H1. ring.
Qed.

(* a generator whose first four deviates have mean 0 and deviation 1 *)
Example moments_satisfiable :
  let g := [1; -1; 1; -1] in mean g = 0 /\ std g = 1.
Proof.
  cbv zeta. assert (M : mean [1; -1; 1; -1] = 0) by (unfold mean; cbn; field).
  split; [exact M|]. unfold std, var. rewrite M. cbn.
  replace ((_ + _) / _) with 1 by field. apply sqrt_1.
Qed.

(* ---- integer dtypes: the result is rint(x + c*z); for integer samples the
   returned-minus-input noise is rint(c*z): independent of the signal, and an
   odd function of the deviate (hence symmetric about 0 like the deviates) *)
Lemma rrint_shift : forall k n, Rabs (n - rrint n) < / 2 -> rrint (IZR k + n) = IZR k + rrint n.
Proof.
  intros k n H. unfold rrint in *. rewrite <- plus_IZR. f_equal.
  apply Znearest_imp. rewrite plus_IZR.
  replace (IZR k + n - (IZR k + IZR (ZnearestE n))) with (n - IZR (ZnearestE n)) by ring. exact H.
Qed.

Lemma rrint_odd : forall n, Rabs (n - rrint n) < / 2 -> rrint (- n) = - rrint n.
Proof.
  intros n H. unfold rrint in *. rewrite <- opp_IZR. f_equal.
  apply Znearest_imp. rewrite opp_IZR.
  replace (- n - - IZR (ZnearestE n)) with (- (n - IZR (ZnearestE n))) by ring.
  now rewrite Rabs_Ropp.
Qed.

Lemma int_noise_lists : forall c ks g, length g = length ks ->
  Forall (fun z => Rabs (c * z - rrint (c * z)) < / 2) g ->
  zipw Rminus (map rrint (zipw Rplus (map IZR ks) (map (Rmult c) g))) (map IZR ks) =
  map (fun z => rrint (c * z)) g.
Proof.
  intros c ks. induction ks as [|k ks IH]; intros [|z g] L F; cbn in L; try discriminate; [reflexivity|].
  inversion F as [|? ? Hz Fg]; subst. cbn [map zipw]. f_equal.
  - rewrite rrint_shift by exact Hz. ring.
  - apply IH; [now injection L|exact Fg].
Qed.

Lemma dither_int_noise_l : forall RS (G : rngm R RS) c ip ax d ks r y, axis_ok ax = true ->
  is_float d = false ->
  let g := g_draw G r (length ks) in
  Forall (fun z => Rabs (c * z - rrint (c * z)) < / 2) g ->
  out_arr (run Rops G c ip ax dither_prog (Build_arr d (map IZR ks)) r) = Some y ->
  zipw Rminus (a_data y) (map IZR ks) = map (fun z => rrint (c * z)) g /\
  (forall z, In z g -> rrint (c * - z) = - rrint (c * z)).
Proof.
  intros RS G c ip ax d ks r y H Fd g Fg E. unfold Rops in E.
  rewrite (dither_linear_l R 0 1 Rplus Rmult Rminus Ropp rrint R_ring G) in E by assumption.
  injection E as <-. cbn [a_data]. unfold rint_if_int. rewrite Fd. cbn [o_rint ring_ops].
  rewrite map_length. fold g. split.
  - apply int_noise_lists; [unfold g; now rewrite g_draw_length|exact Fg].
  - intros z Hz. rewrite Forall_forall in Fg. specialize (Fg z Hz).
    replace (c * - z) with (- (c * z)) by ring. now apply rrint_odd.
Qed.

(* hypotheses satisfiable: deviate 3/4 is not a tie *)
Example int_noise_satisfiable : Rabs (1 * (3 / 4) - rrint (1 * (3 / 4))) < / 2.
Proof.
  assert (E : rrint (1 * (3 / 4)) = 1).
  { unfold rrint. f_equal. apply Znearest_imp. replace (1 * (3 / 4) - 1) with (- (1 / 4)) by field.
    rewrite Rabs_Ropp, Rabs_pos_eq; lra. }
  rewrite E. replace (1 * (3 / 4) - 1) with (- (1 / 4)) by field. rewrite Rabs_Ropp, Rabs_pos_eq; lra.
Qed.
