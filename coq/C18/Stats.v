(* C18 - the statistical clause, as far as it can be proved: with samples in
   the field of reals, the noise Dither adds is coeff * g, so its sample mean is
   coeff * mean(g) and its sample standard deviation |coeff| * std(g).  "Zero
   mean, standard deviation coeff" therefore holds exactly as far as the
   generator's standard normal deviates g have mean 0 and deviation 1 - which
   is a fact about numpy's generator, checked statistically by the harness. *)
From Coq Require Import Reals List Lra ZArith.
From Verif Require Import C18.Model gen.Pre C18.Run C18.Proofs.
Import ListNotations.
Open Scope R_scope.

Definition rsum (l : list R) : R := fold_right Rplus 0 l.
Definition mean (l : list R) : R := rsum l / INR (length l).
(* np.var / np.std with ddof = 0 *)
Definition var (l : list R) : R := rsum (map (fun x => (x - mean l) ^ 2) l) / INR (length l).
Definition std (l : list R) : R := sqrt (var l).

Lemma rsum_scale : forall A (f : A -> R) k l, rsum (map (fun x => k * f x) l) = k * rsum (map f l).
Proof. induction l; cbn [map]; unfold rsum in *; cbn [fold_right]; [ring|rewrite IHl; ring]. Qed.

Lemma mean_scale : forall c g, mean (map (Rmult c) g) = c * mean g.
Proof.
  intros. unfold mean. rewrite map_length.
  replace (rsum (map (Rmult c) g)) with (c * rsum g); [unfold Rdiv; ring|].
  induction g; unfold rsum in *; cbn [map fold_right]; [ring|rewrite <- IHg; ring].
Qed.

Lemma var_scale : forall c g, var (map (Rmult c) g) = c ^ 2 * var g.
Proof.
  intros. unfold var. rewrite map_length, map_map, mean_scale.
  replace (rsum (map (fun x => (c * x - c * mean g) ^ 2) g))
    with (c ^ 2 * rsum (map (fun x => (x - mean g) ^ 2) g)); [unfold Rdiv; ring|].
  rewrite <- (rsum_scale R (fun x => (x - mean g) ^ 2) (c ^ 2) g).
  f_equal. apply map_ext. intros. ring.
Qed.

Lemma rsum_nonneg : forall l, (forall x, In x l -> 0 <= x) -> 0 <= rsum l.
Proof.
  induction l; intros; unfold rsum in *; cbn [fold_right]; [lra|].
  assert (0 <= a) by (apply H; now left).
  assert (0 <= fold_right Rplus 0 l) by (apply IHl; intros; apply H; now right). lra.
Qed.

Lemma var_nonneg : forall g, 0 <= var g.
Proof.
  intros. unfold var. destruct g as [|a g]; [cbn; unfold Rdiv; rewrite Rmult_0_l; lra|].
  apply Rmult_le_pos.
  - apply rsum_nonneg. intros x Hx. apply in_map_iff in Hx. destruct Hx as (y & <- & _). apply pow2_ge_0.
  - left. apply Rinv_0_lt_compat. apply lt_0_INR. cbn. apply Nat.lt_0_succ.
Qed.

Lemma std_scale : forall c g, std (map (Rmult c) g) = Rabs c * std g.
Proof.
  intros. unfold std. rewrite var_scale, sqrt_mult_alt by apply pow2_ge_0.
  f_equal. rewrite <- Rsqr_pow2. apply sqrt_Rsqr_abs.
Qed.

Definition Rops : ops R := ring_ops R 0 Rplus Rmult Rminus.

Lemma R_ring : ring_theory 0 1 Rplus Rmult Rminus Ropp (@eq R).
Proof. exact RTheory. Qed.

Lemma dither_moments_l : forall RS (G : rngm R RS) c ip ax d x r y, axis_ok ax = true ->
  out_arr (run Rops G c ip ax dither_prog (Build_arr d x) r) = Some y ->
  let nz := zipw Rminus (a_data y) x in
  let g := g_draw G r (length x) in
  mean nz = c * mean g /\ std nz = Rabs c * std g /\
  (mean g = 0 -> std g = 1 -> mean nz = 0 /\ std nz = Rabs c).
Proof.
  intros RS G c ip ax d x r y H E. unfold Rops in E.
  rewrite (dither_linear_l R 0 1 Rplus Rmult Rminus Ropp R_ring G) in E by assumption.
  injection E as <-. cbn [a_data].
  rewrite (zipw_sub_add R 0 1 Rplus Rmult Rminus Ropp R_ring)
    by (now rewrite map_length, g_draw_length).
  cbv zeta. rewrite mean_scale, std_scale. repeat split; try reflexivity.
  - rewrite H0. ring.
  - rewrite H1. ring.
Qed.

(* a generator whose first four deviates have mean 0 and deviation 1 *)
Example moments_satisfiable :
  let g := [1; -1; 1; -1] in mean g = 0 /\ std g = 1.
Proof.
  cbv zeta. assert (M : mean [1; -1; 1; -1] = 0) by (unfold mean; cbn; field).
  split; [exact M|]. unfold std, var. rewrite M. cbn.
  replace ((_ + _) / _) with 1 by field. apply sqrt_1.
Qed.
