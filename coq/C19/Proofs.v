(* C19: scaling functions are strictly increasing and exactly invertible.
   All statements are about the definitions in gen/Scales.v, which are
   regenerated from scales.py on every run. *)
From Coq Require Import Reals Lra Lia.
From Interval Require Import Tactic.
From Verif Require Import gen.Scales.
Open Scope R_scope.

(** * Linear *)
Lemma linear_s2h_h2s_l l m f : m <> 0 -> linear_s2h l m (linear_h2s l m f) = f.
Proof. intros Hm; unfold linear_s2h, linear_h2s; field; exact Hm. Qed.

Lemma linear_h2s_s2h_l l m s : m <> 0 -> linear_h2s l m (linear_s2h l m s) = s.
Proof. intros Hm; unfold linear_s2h, linear_h2s; field; exact Hm. Qed.

Lemma linear_h2s_incr_l l m a b : 0 < m -> a < b -> linear_h2s l m a < linear_h2s l m b.
Proof. intros Hm Hab; unfold linear_h2s. apply Rmult_lt_compat_r; lra. Qed.

Lemma linear_s2h_incr_l l m a b : 0 < m -> a < b -> linear_s2h l m a < linear_s2h l m b.
Proof.
  intros Hm Hab; unfold linear_s2h.
  apply Rplus_lt_compat_r. unfold Rdiv. apply Rmult_lt_compat_r; [apply Rinv_0_lt_compat; lra | lra].
Qed.

(** * Octave *)
Lemma ln2_pos : 0 < ln 2.
Proof. rewrite <- ln_1. apply ln_increasing; lra. Qed.

Lemma lowmax_pos l : 0 < Rmax (1 / 10000000000) l.
Proof. apply Rlt_le_trans with (1 / 10000000000); [lra | apply Rmax_l]. Qed.

Lemma octave_s2h_h2s_l l f : 0 < f -> octave_s2h l (octave_h2s l f) = f.
Proof.
  intros Hf; unfold octave_s2h, octave_h2s.
  pose proof (lowmax_pos l) as Hl. pose proof ln2_pos as H2.
  set (L := Rmax _ _) in *.
  unfold Rpower.
  replace (ln (f / L) / ln 2 * ln 2) with (ln (f / L)) by (field; lra).
  rewrite exp_ln; [field; lra | apply Rdiv_lt_0_compat; lra].
Qed.

Lemma octave_h2s_s2h_l l s : octave_h2s l (octave_s2h l s) = s.
Proof.
  unfold octave_s2h, octave_h2s.
  pose proof (lowmax_pos l) as Hl. pose proof ln2_pos as H2.
  set (L := Rmax _ _) in *.
  replace (Rpower 2 s * L / L) with (Rpower 2 s) by (field; lra).
  unfold Rpower. rewrite ln_exp. field; lra.
Qed.

Lemma octave_h2s_incr_l l a b : 0 < a -> a < b -> octave_h2s l a < octave_h2s l b.
Proof.
  intros Ha Hab; unfold octave_h2s.
  pose proof (lowmax_pos l) as Hl. pose proof ln2_pos as H2.
  set (L := Rmax _ _) in *.
  unfold Rdiv at 1 3. apply Rmult_lt_compat_r; [apply Rinv_0_lt_compat; lra|].
  apply ln_increasing; [apply Rdiv_lt_0_compat; lra|].
  unfold Rdiv. apply Rmult_lt_compat_r; [apply Rinv_0_lt_compat; lra | lra].
Qed.

Lemma octave_s2h_incr_l l a b : a < b -> octave_s2h l a < octave_s2h l b.
Proof.
  intros Hab; unfold octave_s2h.
  pose proof (lowmax_pos l) as Hl.
  apply Rmult_lt_compat_r; [exact Hl|].
  apply Rpower_lt; lra.
Qed.

Lemma octave_rejects_nonpositive_l l : l <= 0 -> octave_rejects l.
Proof. intros H; unfold octave_rejects; exact H. Qed.

Lemma octave_accepts_positive_l l : 0 < l -> ~ octave_rejects l.
Proof. intros H; unfold octave_rejects; lra. Qed.

(** * Mel *)
Lemma mel_s2h_h2s_l f : -700 < f -> mel_s2h (mel_h2s f) = f.
Proof.
  intros Hf; unfold mel_s2h, mel_h2s.
  replace (1127 * ln (1 + f / 700) / 1127) with (ln (1 + f / 700)) by (field; lra).
  rewrite exp_ln; [field | lra].
Qed.

Lemma mel_h2s_s2h_l s : mel_h2s (mel_s2h s) = s.
Proof.
  unfold mel_s2h, mel_h2s.
  replace (1 + 700 * (exp (s / 1127) - 1) / 700) with (exp (s / 1127)) by field.
  rewrite ln_exp; field.
Qed.

Lemma mel_h2s_incr_l a b : -700 < a -> a < b -> mel_h2s a < mel_h2s b.
Proof.
  intros Ha Hab; unfold mel_h2s.
  apply Rmult_lt_compat_l; [lra|]. apply ln_increasing; lra.
Qed.

Lemma mel_s2h_incr_l a b : a < b -> mel_s2h a < mel_s2h b.
Proof.
  intros Hab; unfold mel_s2h.
  apply Rmult_lt_compat_l; [lra|].
  apply Rplus_lt_compat_r. apply exp_increasing. lra.
Qed.

Lemma mel_1000_l : Rabs (mel_h2s 1000 - 1000) <= 2 / 100.
Proof. unfold mel_h2s. interval. Qed.

(** * Bark *)
Definition bark_z (f : R) : R := 2681 / 100 * f / (1960 + f) - 53 / 100.
Definition bark_corr (z : R) : R :=
  if Rlt_dec z 2 then z + 3 / 20 * (2 - z)
  else if Rgt_dec z (201 / 10) then z + 11 / 50 * (z - 201 / 10) else z.
Definition bark_uncorr (s : R) : R :=
  if Rlt_dec s 2 then (20 * s - 6) / 17
  else if Rgt_dec s (201 / 10) then (50 * s + 2211 / 10) / 61 else s.
Definition bark_f (b : R) : R := 1960 * (b + 53 / 100) / (657 / 25 - b).

Lemma bark_h2s_decomp f : bark_h2s f = bark_corr (bark_z f).
Proof. reflexivity. Qed.

Lemma bark_s2h_decomp s : bark_s2h s = bark_f (bark_uncorr s).
Proof.
  unfold bark_s2h, bark_f, bark_uncorr.
  destruct (Rlt_dec s 2); [reflexivity|]. destruct (Rgt_dec s (201 / 10)); reflexivity.
Qed.

Lemma bark_uncorr_corr z : bark_uncorr (bark_corr z) = z.
Proof.
  unfold bark_uncorr, bark_corr.
  destruct (Rlt_dec z 2) as [H1|H1].
  - destruct (Rlt_dec _ 2) as [H2|H2]; [field | lra].
  - destruct (Rgt_dec z (201 / 10)) as [H3|H3].
    + destruct (Rlt_dec _ 2) as [H2|H2]; [lra|].
      destruct (Rgt_dec _ (201 / 10)) as [H4|H4]; [field | lra].
    + destruct (Rlt_dec z 2) as [H2|H2]; [lra|].
      destruct (Rgt_dec z (201 / 10)) as [H4|H4]; [lra | reflexivity].
Qed.

Lemma bark_corr_uncorr s : bark_corr (bark_uncorr s) = s.
Proof.
  unfold bark_uncorr, bark_corr.
  destruct (Rlt_dec s 2) as [H1|H1].
  - destruct (Rlt_dec _ 2) as [H2|H2]; [field | lra].
  - destruct (Rgt_dec s (201 / 10)) as [H3|H3].
    + destruct (Rlt_dec _ 2) as [H2|H2]; [lra|].
      destruct (Rgt_dec _ (201 / 10)) as [H4|H4]; [field | lra].
    + destruct (Rlt_dec s 2) as [H2|H2]; [lra|].
      destruct (Rgt_dec s (201 / 10)) as [H4|H4]; [lra | reflexivity].
Qed.

Lemma bark_f_z f : -1960 < f -> bark_f (bark_z f) = f.
Proof.
  intros Hf; unfold bark_f, bark_z. field_simplify_eq; [lra | split; lra].
Qed.

Lemma bark_z_f b : b < 657 / 25 -> bark_z (bark_f b) = b.
Proof.
  intros Hb; unfold bark_f, bark_z.
  assert (H : 1960 + 1960 * (b + 53 / 100) / (657 / 25 - b) = 1960 * (2681 / 100) / (657 / 25 - b))
    by (field; lra).
  rewrite H. field_simplify_eq; [lra | lra].
Qed.

Lemma bark_z_lt f : -1960 < f -> bark_z f < 657 / 25.
Proof.
  intros Hf; unfold bark_z.
  assert (H : 2681 / 100 * f / (1960 + f) = 2681 / 100 - 2681 / 100 * 1960 / (1960 + f)) by (field; lra).
  rewrite H.
  assert (0 < 2681 / 100 * 1960 / (1960 + f)) by (apply Rdiv_lt_0_compat; lra).
  lra.
Qed.

Lemma bark_s2h_h2s_l f : -1960 < f -> bark_s2h (bark_h2s f) = f.
Proof.
  intros Hf. rewrite bark_s2h_decomp, bark_h2s_decomp, bark_uncorr_corr. apply bark_f_z; exact Hf.
Qed.

Lemma bark_uncorr_lt s : s < 69099 / 2500 -> bark_uncorr s < 657 / 25.
Proof.
  (* corr (26.28) = 26.28 + 0.22*6.18 = 27.6396 *)
  intros Hs; unfold bark_uncorr.
  destruct (Rlt_dec s 2); [lra|]. destruct (Rgt_dec s (201 / 10)); lra.
Qed.

Lemma bark_h2s_s2h_l s : s < 69099 / 2500 -> bark_h2s (bark_s2h s) = s.
Proof.
  intros Hs. rewrite bark_s2h_decomp, bark_h2s_decomp, bark_z_f by (apply bark_uncorr_lt; exact Hs).
  apply bark_corr_uncorr.
Qed.

Lemma bark_corr_incr a b : a < b -> bark_corr a < bark_corr b.
Proof.
  intros Hab; unfold bark_corr.
  destruct (Rlt_dec a 2); destruct (Rlt_dec b 2);
  destruct (Rgt_dec a (201 / 10)); destruct (Rgt_dec b (201 / 10)); lra.
Qed.

Lemma bark_uncorr_incr a b : a < b -> bark_uncorr a < bark_uncorr b.
Proof.
  intros Hab; unfold bark_uncorr.
  destruct (Rlt_dec a 2); destruct (Rlt_dec b 2);
  destruct (Rgt_dec a (201 / 10)); destruct (Rgt_dec b (201 / 10)); lra.
Qed.

Lemma bark_z_incr a b : -1960 < a -> a < b -> bark_z a < bark_z b.
Proof.
  intros Ha Hab; unfold bark_z.
  assert (H : forall f, -1960 < f -> 2681 / 100 * f / (1960 + f) = 2681 / 100 - 2681 / 100 * 1960 / (1960 + f))
    by (intros; field; lra).
  rewrite !H by lra.
  assert (/ (1960 + b) < / (1960 + a)) by (apply Rinv_lt_contravar; [apply Rmult_lt_0_compat; lra | lra]).
  unfold Rdiv. nra.
Qed.

Lemma bark_f_incr a b : b < 657 / 25 -> a < b -> bark_f a < bark_f b.
Proof.
  intros Hb Hab; unfold bark_f.
  assert (H : forall x, x < 657 / 25 -> 1960 * (x + 53 / 100) / (657 / 25 - x) = 1960 * (2681 / 100) / (657 / 25 - x) - 1960)
    by (intros; field; lra).
  rewrite !H by lra.
  assert (/ (657 / 25 - a) < / (657 / 25 - b)) by (apply Rinv_lt_contravar; [apply Rmult_lt_0_compat; lra | lra]).
  unfold Rdiv. nra.
Qed.

Lemma bark_h2s_incr_l a b : -1960 < a -> a < b -> bark_h2s a < bark_h2s b.
Proof.
  intros Ha Hab. rewrite !bark_h2s_decomp. apply bark_corr_incr, bark_z_incr; assumption.
Qed.

Lemma bark_s2h_incr_l a b : b < 69099 / 2500 -> a < b -> bark_s2h a < bark_s2h b.
Proof.
  intros Hb Hab. rewrite !bark_s2h_decomp.
  apply bark_f_incr; [apply bark_uncorr_lt; exact Hb | apply bark_uncorr_incr; exact Hab].
Qed.

(* Continuity across the break-points: the correction is 1.22-Lipschitz (hence
   continuous), and its pieces agree at 2 and 20.1. *)
Lemma bark_corr_lipschitz a b : Rabs (bark_corr a - bark_corr b) <= 61 / 50 * Rabs (a - b).
Proof.
  unfold bark_corr.
  destruct (Rlt_dec a 2); destruct (Rlt_dec b 2);
  destruct (Rgt_dec a (201 / 10)); destruct (Rgt_dec b (201 / 10));
  unfold Rabs; repeat destruct (Rcase_abs _); lra.
Qed.

Lemma bark_uncorr_lipschitz a b : Rabs (bark_uncorr a - bark_uncorr b) <= 20 / 17 * Rabs (a - b).
Proof.
  unfold bark_uncorr.
  destruct (Rlt_dec a 2); destruct (Rlt_dec b 2);
  destruct (Rgt_dec a (201 / 10)); destruct (Rgt_dec b (201 / 10));
  unfold Rabs; repeat destruct (Rcase_abs _); lra.
Qed.

Lemma lipschitz_continuity_pt (g : R -> R) (K : R) :
  0 < K -> (forall a b, Rabs (g a - g b) <= K * Rabs (a - b)) -> forall x, continuity_pt g x.
Proof.
  intros HK Hl x eps Heps.
  exists (eps / K). split; [apply Rdiv_lt_0_compat; lra|].
  intros y [_ Hy]. unfold dist in *; simpl in *; unfold R_dist in *.
  apply Rle_lt_trans with (K * Rabs (y - x)); [apply Hl|].
  apply Rlt_le_trans with (K * (eps / K)); [apply Rmult_lt_compat_l; lra | right; field; lra].
Qed.

Lemma bark_corr_continuous x : continuity_pt bark_corr x.
Proof. apply lipschitz_continuity_pt with (K := 61 / 50); [lra | apply bark_corr_lipschitz]. Qed.

Lemma bark_uncorr_continuous x : continuity_pt bark_uncorr x.
Proof. apply lipschitz_continuity_pt with (K := 20 / 17); [lra | apply bark_uncorr_lipschitz]. Qed.

Lemma bark_z_continuous f : -1960 < f -> continuity_pt bark_z f.
Proof.
  intros Hf. unfold bark_z. reg. lra.
Qed.

Lemma continuity_pt_ext_all (g h : R -> R) x :
  (forall y, g y = h y) -> continuity_pt h x -> continuity_pt g x.
Proof.
  intros E Hc eps Heps. destruct (Hc eps Heps) as [d [Hd Hlim]].
  exists d; split; [exact Hd|]. intros y Hy. rewrite !E. apply Hlim; exact Hy.
Qed.

Lemma bark_h2s_continuous_l f : -1960 < f -> continuity_pt bark_h2s f.
Proof.
  intros Hf. change (continuity_pt (comp bark_corr bark_z) f).
  apply continuity_pt_comp; [apply bark_z_continuous; exact Hf | apply bark_corr_continuous].
Qed.

Lemma bark_f_continuous b : b < 657 / 25 -> continuity_pt bark_f b.
Proof. intros Hb. unfold bark_f. reg. lra. Qed.

Lemma bark_s2h_continuous_l s : s < 69099 / 2500 -> continuity_pt bark_s2h s.
Proof.
  intros Hs. apply continuity_pt_ext_all with (h := comp bark_f bark_uncorr); [apply bark_s2h_decomp|].
  apply continuity_pt_comp; [apply bark_uncorr_continuous | apply bark_f_continuous, bark_uncorr_lt; exact Hs].
Qed.

Lemma ln_continuity_pt x : 0 < x -> continuity_pt ln x.
Proof.
  intros Hx. apply derivable_continuous_pt. exists (/ x). apply derivable_pt_lim_ln; exact Hx.
Qed.

Lemma mel_h2s_continuous_l f : -700 < f -> continuity_pt mel_h2s f.
Proof. intros Hf. unfold mel_h2s. reg. apply ln_continuity_pt. lra. Qed.

Lemma mel_s2h_continuous_l s : continuity_pt mel_s2h s.
Proof. unfold mel_s2h. reg. Qed.

Lemma octave_h2s_continuous_l l f : 0 < f -> continuity_pt (octave_h2s l) f.
Proof.
  intros Hf. unfold octave_h2s. pose proof (lowmax_pos l) as Hl. pose proof ln2_pos as H2.
  set (L := Rmax _ _) in *. reg.
  apply ln_continuity_pt. apply Rmult_lt_0_compat; [lra | apply Rinv_0_lt_compat; lra].
Qed.

(* the pieces of the Bark correction meet at the break-points *)
Lemma bark_breakpoints_l :
  bark_corr 2 = 2 /\ bark_corr (201 / 10) = 201 / 10 /\
  (forall z, z < 2 -> bark_corr z = z + 3 / 20 * (2 - z)) /\
  (forall z, 201 / 10 < z -> bark_corr z = z + 11 / 50 * (z - 201 / 10)) /\
  2 + 3 / 20 * (2 - 2) = 2 /\ 201 / 10 + 11 / 50 * (201 / 10 - 201 / 10) = 201 / 10.
Proof.
  unfold bark_corr. repeat split; try lra.
  - destruct (Rlt_dec 2 2); [lra|]. destruct (Rgt_dec 2 (201 / 10)); lra.
  - destruct (Rlt_dec (201 / 10) 2); [lra|]. destruct (Rgt_dec (201 / 10) (201 / 10)); lra.
  - intros z Hz. destruct (Rlt_dec z 2); [reflexivity | lra].
  - intros z Hz. destruct (Rlt_dec z 2); [lra|]. destruct (Rgt_dec z (201 / 10)); [reflexivity | lra].
Qed.

(* published anchor values: Zwicker's critical-band table puts 1 kHz at 8.5 Bark,
   and Traunmueller's formula is 26.81 f / (1960 + f) - 0.53 *)
Lemma bark_formula_l f : 0 <= f ->
  bark_h2s f = bark_corr (26.81 * f / (1960 + f) - 0.53).
Proof.
  intros Hf. rewrite bark_h2s_decomp. unfold bark_z.
  replace 26.81 with (2681 / 100) by lra. replace 0.53 with (53 / 100) by lra. reflexivity.
Qed.

Lemma bark_1000_l : Rabs (bark_h2s 1000 - 8.5) <= 1 / 10.
Proof.
  rewrite bark_h2s_decomp. unfold bark_z, bark_corr.
  destruct (Rlt_dec _ 2) as [H|H].
  - exfalso. revert H. apply Rle_not_lt. interval.
  - destruct (Rgt_dec _ (201 / 10)) as [H2|H2].
    + exfalso. revert H2. apply Rle_not_lt. interval.
    + interval.
Qed.
