(* C19 - images of the scaling maps: each direction maps its domain INTO the domain of
   the other, and ONTO it, so that "exactly invertible over the whole domain" is a
   bijection statement: hertz_to_scale : D_hz -> D_scale and scale_to_hertz : D_scale -> D_hz
   are mutually inverse bijections (mel: (-700,oo) <-> R; octave: (0,oo) <-> R;
   Bark: (-1960,oo) <-> (-oo, 27.6396); linear: R <-> R).  Injectivity follows. *)
From Coq Require Import Reals Lra.
From Verif Require Import gen.Scales C19.Proofs.
Open Scope R_scope.

Lemma mel_s2h_range_l s : -700 < mel_s2h s.
Proof. unfold mel_s2h. pose proof (exp_pos (s / 1127)). lra. Qed.

Lemma mel_h2s_onto_l s : exists f, -700 < f /\ mel_h2s f = s.
Proof. exists (mel_s2h s). split; [apply mel_s2h_range_l | apply mel_h2s_s2h_l]. Qed.

Lemma mel_s2h_onto_l f : -700 < f -> exists s, mel_s2h s = f.
Proof. intros Hf. exists (mel_h2s f). apply mel_s2h_h2s_l; exact Hf. Qed.

Lemma mel_h2s_injective_l a b : -700 < a -> -700 < b -> mel_h2s a = mel_h2s b -> a = b.
Proof.
  intros Ha Hb H. rewrite <- (mel_s2h_h2s_l a Ha), <- (mel_s2h_h2s_l b Hb), H. reflexivity.
Qed.

Lemma octave_s2h_range_l l s : 0 < octave_s2h l s.
Proof.
  unfold octave_s2h. apply Rmult_lt_0_compat; [unfold Rpower; apply exp_pos | apply lowmax_pos].
Qed.

Lemma octave_h2s_onto_l l s : exists f, 0 < f /\ octave_h2s l f = s.
Proof. exists (octave_s2h l s). split; [apply octave_s2h_range_l | apply octave_h2s_s2h_l]. Qed.

Lemma octave_h2s_injective_l l a b : 0 < a -> 0 < b -> octave_h2s l a = octave_h2s l b -> a = b.
Proof.
  intros Ha Hb H. rewrite <- (octave_s2h_h2s_l l a Ha), <- (octave_s2h_h2s_l l b Hb), H. reflexivity.
Qed.

Lemma bark_corr_top : bark_corr (657 / 25) = 69099 / 2500.
Proof.
  unfold bark_corr. destruct (Rlt_dec (657 / 25) 2); [lra|].
  destruct (Rgt_dec (657 / 25) (201 / 10)); lra.
Qed.

Lemma bark_h2s_range_l f : -1960 < f -> bark_h2s f < 69099 / 2500.
Proof.
  intros Hf. rewrite bark_h2s_decomp, <- bark_corr_top.
  apply bark_corr_incr, bark_z_lt; exact Hf.
Qed.

Lemma bark_f_range b : b < 657 / 25 -> -1960 < bark_f b.
Proof.
  intros Hb. unfold bark_f.
  assert (H : 1960 * (b + 53 / 100) / (657 / 25 - b)
              = 1960 * (2681 / 100) / (657 / 25 - b) - 1960) by (field; lra).
  rewrite H.
  assert (0 < 1960 * (2681 / 100) / (657 / 25 - b)) by (apply Rdiv_lt_0_compat; lra).
  lra.
Qed.

Lemma bark_s2h_range_l s : s < 69099 / 2500 -> -1960 < bark_s2h s.
Proof.
  intros Hs. rewrite bark_s2h_decomp. apply bark_f_range, bark_uncorr_lt; exact Hs.
Qed.

Lemma bark_h2s_onto_l s : s < 69099 / 2500 -> exists f, -1960 < f /\ bark_h2s f = s.
Proof.
  intros Hs. exists (bark_s2h s). split; [apply bark_s2h_range_l | apply bark_h2s_s2h_l]; exact Hs.
Qed.

Lemma bark_s2h_onto_l f : -1960 < f -> exists s, s < 69099 / 2500 /\ bark_s2h s = f.
Proof.
  intros Hf. exists (bark_h2s f). split; [apply bark_h2s_range_l | apply bark_s2h_h2s_l]; exact Hf.
Qed.

Lemma bark_h2s_injective_l a b : -1960 < a -> -1960 < b -> bark_h2s a = bark_h2s b -> a = b.
Proof.
  intros Ha Hb H. rewrite <- (bark_s2h_h2s_l a Ha), <- (bark_s2h_h2s_l b Hb), H. reflexivity.
Qed.

(* non-negative frequencies (the documented use) land on [-0.4205, 27.6396) Bark and [0, oo) mel *)
Lemma mel_h2s_nonneg_l f : 0 <= f -> 0 <= mel_h2s f.
Proof.
  intros Hf. destruct (Req_dec f 0) as [->|Hne].
  - unfold mel_h2s. replace (1 + 0 / 700) with 1 by lra. rewrite ln_1. lra.
  - assert (H0 : mel_h2s 0 = 0) by (unfold mel_h2s; replace (1 + 0 / 700) with 1 by lra; rewrite ln_1; lra).
    rewrite <- H0. left. apply mel_h2s_incr_l; lra.
Qed.

Lemma octave_s2h_onto_l l f : 0 < f -> exists s, octave_s2h l s = f.
Proof. intros Hf. exists (octave_h2s l f). apply octave_s2h_h2s_l; exact Hf. Qed.

Lemma octave_s2h_injective_l l a b : octave_s2h l a = octave_s2h l b -> a = b.
Proof. intros H. rewrite <- (octave_h2s_s2h_l l a), <- (octave_h2s_s2h_l l b), H. reflexivity. Qed.

Lemma mel_s2h_injective_l a b : mel_s2h a = mel_s2h b -> a = b.
Proof. intros H. rewrite <- (mel_h2s_s2h_l a), <- (mel_h2s_s2h_l b), H. reflexivity. Qed.

Lemma bark_s2h_injective_l a b : a < 69099 / 2500 -> b < 69099 / 2500 -> bark_s2h a = bark_s2h b -> a = b.
Proof.
  intros Ha Hb H. rewrite <- (bark_h2s_s2h_l a Ha), <- (bark_h2s_s2h_l b Hb), H. reflexivity.
Qed.

Lemma linear_h2s_onto_l l m s : m <> 0 -> exists f, linear_h2s l m f = s.
Proof. intros Hm. exists (linear_s2h l m s). apply linear_h2s_s2h_l; exact Hm. Qed.

Lemma linear_h2s_injective_l l m a b : m <> 0 -> linear_h2s l m a = linear_h2s l m b -> a = b.
Proof.
  intros Hm H. rewrite <- (linear_s2h_h2s_l l m a Hm), <- (linear_s2h_h2s_l l m b Hm), H. reflexivity.
Qed.
