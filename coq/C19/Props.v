(* C19 - the property theorems, and nothing else.  Each is closed by [exact] of a
   lemma of Proofs.v; the axioms each depends on are printed beneath it.
   All are statements about gen/Scales.v, regenerated from scales.py on every run. *)
From Coq Require Import Reals.
From Verif Require Import gen.Scales C19.Proofs C19.ProofsRange.
Open Scope R_scope.

(* linear: mutual inverses for any non-zero slope, strictly increasing for slope > 0 *)
Theorem linear_s2h_h2s : forall l m f, m <> 0 -> linear_s2h l m (linear_h2s l m f) = f.
Proof. exact linear_s2h_h2s_l. Qed.
Print Assumptions linear_s2h_h2s.
Theorem linear_h2s_s2h : forall l m s, m <> 0 -> linear_h2s l m (linear_s2h l m s) = s.
Proof. exact linear_h2s_s2h_l. Qed.
Print Assumptions linear_h2s_s2h.
Theorem linear_h2s_increasing : forall l m a b, 0 < m -> a < b -> linear_h2s l m a < linear_h2s l m b.
Proof. exact linear_h2s_incr_l. Qed.
Print Assumptions linear_h2s_increasing.
Theorem linear_s2h_increasing : forall l m a b, 0 < m -> a < b -> linear_s2h l m a < linear_s2h l m b.
Proof. exact linear_s2h_incr_l. Qed.
Print Assumptions linear_s2h_increasing.

(* octave: on f > 0 (the scale is only queried from low_hz > 0 upward) *)
Theorem octave_s2h_h2s : forall l f, 0 < f -> octave_s2h l (octave_h2s l f) = f.
Proof. exact octave_s2h_h2s_l. Qed.
Print Assumptions octave_s2h_h2s.
Theorem octave_h2s_s2h : forall l s, octave_h2s l (octave_s2h l s) = s.
Proof. exact octave_h2s_s2h_l. Qed.
Print Assumptions octave_h2s_s2h.
Theorem octave_h2s_increasing : forall l a b, 0 < a -> a < b -> octave_h2s l a < octave_h2s l b.
Proof. exact octave_h2s_incr_l. Qed.
Print Assumptions octave_h2s_increasing.
Theorem octave_s2h_increasing : forall l a b, a < b -> octave_s2h l a < octave_s2h l b.
Proof. exact octave_s2h_incr_l. Qed.
Print Assumptions octave_s2h_increasing.
Theorem octave_h2s_continuous : forall l f, 0 < f -> continuity_pt (octave_h2s l) f.
Proof. exact octave_h2s_continuous_l. Qed.
Print Assumptions octave_h2s_continuous.
Theorem octave_rejects_nonpositive : forall l, l <= 0 -> octave_rejects l.
Proof. exact octave_rejects_nonpositive_l. Qed.
Print Assumptions octave_rejects_nonpositive.
Theorem octave_accepts_positive : forall l, 0 < l -> ~ octave_rejects l.
Proof. exact octave_accepts_positive_l. Qed.
Print Assumptions octave_accepts_positive.

(* mel: on f > -700, which contains [0, 10^5] *)
Theorem mel_s2h_h2s : forall f, -700 < f -> mel_s2h (mel_h2s f) = f.
Proof. exact mel_s2h_h2s_l. Qed.
Print Assumptions mel_s2h_h2s.
Theorem mel_h2s_s2h : forall s, mel_h2s (mel_s2h s) = s.
Proof. exact mel_h2s_s2h_l. Qed.
Print Assumptions mel_h2s_s2h.
Theorem mel_h2s_increasing : forall a b, -700 < a -> a < b -> mel_h2s a < mel_h2s b.
Proof. exact mel_h2s_incr_l. Qed.
Print Assumptions mel_h2s_increasing.
Theorem mel_s2h_increasing : forall a b, a < b -> mel_s2h a < mel_s2h b.
Proof. exact mel_s2h_incr_l. Qed.
Print Assumptions mel_s2h_increasing.
Theorem mel_h2s_continuous : forall f, -700 < f -> continuity_pt mel_h2s f.
Proof. exact mel_h2s_continuous_l. Qed.
Print Assumptions mel_h2s_continuous.
Theorem mel_s2h_continuous : forall s, continuity_pt mel_s2h s.
Proof. exact mel_s2h_continuous_l. Qed.
Print Assumptions mel_s2h_continuous.
Theorem mel_1000 : Rabs (mel_h2s 1000 - 1000) <= 2 / 100.
Proof. exact mel_1000_l. Qed.
Print Assumptions mel_1000.

(* Bark: on f > -1960 (contains [0, 10^5]); the image of that domain is s < 27.6396 *)
Theorem bark_s2h_h2s : forall f, -1960 < f -> bark_s2h (bark_h2s f) = f.
Proof. exact bark_s2h_h2s_l. Qed.
Print Assumptions bark_s2h_h2s.
Theorem bark_h2s_s2h : forall s, s < 69099 / 2500 -> bark_h2s (bark_s2h s) = s.
Proof. exact bark_h2s_s2h_l. Qed.
Print Assumptions bark_h2s_s2h.
Theorem bark_h2s_increasing : forall a b, -1960 < a -> a < b -> bark_h2s a < bark_h2s b.
Proof. exact bark_h2s_incr_l. Qed.
Print Assumptions bark_h2s_increasing.
Theorem bark_s2h_increasing : forall a b, b < 69099 / 2500 -> a < b -> bark_s2h a < bark_s2h b.
Proof. exact bark_s2h_incr_l. Qed.
Print Assumptions bark_s2h_increasing.
Theorem bark_h2s_continuous : forall f, -1960 < f -> continuity_pt bark_h2s f.
Proof. exact bark_h2s_continuous_l. Qed.
Print Assumptions bark_h2s_continuous.
Theorem bark_s2h_continuous : forall s, s < 69099 / 2500 -> continuity_pt bark_s2h s.
Proof. exact bark_s2h_continuous_l. Qed.
Print Assumptions bark_s2h_continuous.
Theorem bark_breakpoints :
  bark_corr 2 = 2 /\ bark_corr (201 / 10) = 201 / 10 /\
  (forall z, z < 2 -> bark_corr z = z + 3 / 20 * (2 - z)) /\
  (forall z, 201 / 10 < z -> bark_corr z = z + 11 / 50 * (z - 201 / 10)) /\
  2 + 3 / 20 * (2 - 2) = 2 /\ 201 / 10 + 11 / 50 * (201 / 10 - 201 / 10) = 201 / 10.
Proof. exact bark_breakpoints_l. Qed.
Print Assumptions bark_breakpoints.
Theorem bark_formula : forall f, 0 <= f -> bark_h2s f = bark_corr (26.81 * f / (1960 + f) - 0.53).
Proof. exact bark_formula_l. Qed.
Print Assumptions bark_formula.
Theorem bark_1000 : Rabs (bark_h2s 1000 - 8.5) <= 1 / 10.
Proof. exact bark_1000_l. Qed.
Print Assumptions bark_1000.

(* images: each map sends its domain INTO and ONTO the other's, so the inverse laws above make
   hertz_to_scale / scale_to_hertz mutually inverse BIJECTIONS between the two whole domains
   (mel: (-700,oo) <-> R; octave: (0,oo) <-> R; Bark: (-1960,oo) <-> (-oo, 69099/2500)) *)
Theorem mel_s2h_range : forall s, -700 < mel_s2h s.
Proof. exact mel_s2h_range_l. Qed.
Print Assumptions mel_s2h_range.
Theorem mel_h2s_onto : forall s, exists f, -700 < f /\ mel_h2s f = s.
Proof. exact mel_h2s_onto_l. Qed.
Print Assumptions mel_h2s_onto.
Theorem mel_s2h_onto : forall f, -700 < f -> exists s, mel_s2h s = f.
Proof. exact mel_s2h_onto_l. Qed.
Print Assumptions mel_s2h_onto.
Theorem mel_h2s_injective : forall a b, -700 < a -> -700 < b -> mel_h2s a = mel_h2s b -> a = b.
Proof. exact mel_h2s_injective_l. Qed.
Print Assumptions mel_h2s_injective.
Theorem mel_h2s_nonneg : forall f, 0 <= f -> 0 <= mel_h2s f.
Proof. exact mel_h2s_nonneg_l. Qed.
Print Assumptions mel_h2s_nonneg.
Theorem octave_s2h_range : forall l s, 0 < octave_s2h l s.
Proof. exact octave_s2h_range_l. Qed.
Print Assumptions octave_s2h_range.
Theorem octave_h2s_onto : forall l s, exists f, 0 < f /\ octave_h2s l f = s.
Proof. exact octave_h2s_onto_l. Qed.
Print Assumptions octave_h2s_onto.
Theorem octave_h2s_injective : forall l a b, 0 < a -> 0 < b -> octave_h2s l a = octave_h2s l b -> a = b.
Proof. exact octave_h2s_injective_l. Qed.
Print Assumptions octave_h2s_injective.
Theorem bark_h2s_range : forall f, -1960 < f -> bark_h2s f < 69099 / 2500.
Proof. exact bark_h2s_range_l. Qed.
Print Assumptions bark_h2s_range.
Theorem bark_s2h_range : forall s, s < 69099 / 2500 -> -1960 < bark_s2h s.
Proof. exact bark_s2h_range_l. Qed.
Print Assumptions bark_s2h_range.
Theorem bark_h2s_onto : forall s, s < 69099 / 2500 -> exists f, -1960 < f /\ bark_h2s f = s.
Proof. exact bark_h2s_onto_l. Qed.
Print Assumptions bark_h2s_onto.
Theorem bark_s2h_onto : forall f, -1960 < f -> exists s, s < 69099 / 2500 /\ bark_s2h s = f.
Proof. exact bark_s2h_onto_l. Qed.
Print Assumptions bark_s2h_onto.
Theorem bark_h2s_injective : forall a b, -1960 < a -> -1960 < b -> bark_h2s a = bark_h2s b -> a = b.
Proof. exact bark_h2s_injective_l. Qed.
Print Assumptions bark_h2s_injective.
Theorem octave_s2h_onto : forall l f, 0 < f -> exists s, octave_s2h l s = f.
Proof. exact octave_s2h_onto_l. Qed.
Print Assumptions octave_s2h_onto.
Theorem octave_s2h_injective : forall l a b, octave_s2h l a = octave_s2h l b -> a = b.
Proof. exact octave_s2h_injective_l. Qed.
Print Assumptions octave_s2h_injective.
Theorem mel_s2h_injective : forall a b, mel_s2h a = mel_s2h b -> a = b.
Proof. exact mel_s2h_injective_l. Qed.
Print Assumptions mel_s2h_injective.
Theorem bark_s2h_injective : forall a b, a < 69099 / 2500 -> b < 69099 / 2500 -> bark_s2h a = bark_s2h b -> a = b.
Proof. exact bark_s2h_injective_l. Qed.
Print Assumptions bark_s2h_injective.
Theorem linear_h2s_onto : forall l m s, m <> 0 -> exists f, linear_h2s l m f = s.
Proof. exact linear_h2s_onto_l. Qed.
Print Assumptions linear_h2s_onto.
Theorem linear_h2s_injective : forall l m a b, m <> 0 -> linear_h2s l m a = linear_h2s l m b -> a = b.
Proof. exact linear_h2s_injective_l. Qed.
Print Assumptions linear_h2s_injective.
