(* C20 - evaluation lemmas used by the generated correspondence files of
   harness/c20.py: they expose single samples of the list-valued model functions
   as closed real expressions that Interval can enclose.  Not part of Props.v. *)
From Coq Require Import Reals ZArith List Bool Lia Lra.
Set Warnings "-ambiguous-paths".
From Coquelicot Require Import Complex.
From Verif Require Import lib.C20_Numpy gen.WinHelp C20.Model C20.ProofsGamma C20.ProofsShift.
Import ListNotations.
Open Scope R_scope.

(* np_shape_at with the integer arithmetic pushed into R *)
Definition shape_real (s : np_shape) (M K : R) : R :=
  let n := 1 - M + 2 * K in
  let d := M - 1 in
  match s with
  | NpBartlett => if Rle_dec n 0 then 1 + n / d else 1 - n / d
  | NpBlackman => 42 / 100 + 5 / 10 * cos (PI * n / d) + 8 / 100 * cos (2 * PI * n / d)
  | NpHamming => 54 / 100 + 46 / 100 * cos (PI * n / d)
  | NpHanning => 5 / 10 + 5 / 10 * cos (PI * n / d)
  end.

Lemma np_shape_real s M k : np_shape_at s M k = shape_real s (IZR M) (IZR k).
Proof.
  unfold np_shape_at, shape_real, np_n.
  rewrite plus_IZR, minus_IZR, mult_IZR. reflexivity.
Qed.

Lemma window_eval k w i d :
  (2 <= w)%Z -> (0 <= i < w)%Z ->
  nth (Z.to_nat i) (window k w) d = shape_real (shape_of k) (IZR w) (IZR i) / norm_of k (IZR w).
Proof.
  intros Hw Hi. unfold window, np_window.
  destruct (Z.ltb_spec w 1); [lia|]. destruct (Z.eqb_spec w 1); [lia|].
  rewrite map_map.
  set (f := fun x : Z => _).
  rewrite (nth_indep _ d (f 0%Z)) by (rewrite map_length, zrange_length; lia).
  rewrite map_nth, zrange_nth by lia. unfold f. rewrite Z2Nat.id by lia.
  rewrite np_shape_real. reflexivity.
Qed.

Lemma gamma_eval_gt1 order peak w i d n t f :
  (2 <= w)%Z -> (2 <= order)%Z -> (0 <= i < w)%Z ->
  n = Z.to_nat (order - 1) -> t = (w - 1 - i)%Z -> f = Z.of_nat (fact n) ->
  nth (Z.to_nat i) (gamma_window order peak w) d =
  let alpha := (IZR order - 1) / (IZR w - peak * IZR w) in
  IZR t ^ n * exp (- alpha * IZR t + (IZR order * ln alpha - ln (IZR f))).
Proof.
  intros Hw Ho Hi -> -> ->. rewrite gamma_window_nth_l by lia.
  unfold gamma_elem, gamma_ln_c, gamma_alpha, gamma_peak. cbv zeta.
  destruct (Z.gtb_spec order 1); [|lia]. rewrite <- INR_IZR_INZ. reflexivity.
Qed.

Lemma gamma_eval_1 peak w i d t :
  (2 <= w)%Z -> (0 <= i < w)%Z -> t = (w - 1 - i)%Z ->
  nth (Z.to_nat i) (gamma_window 1 peak w) d =
  let alpha := 5 / IZR w in exp (- alpha * IZR t + (1 * ln alpha - ln 1)).
Proof.
  intros Hw Hi ->. rewrite gamma_window_nth_l by lia.
  unfold gamma_elem, gamma_ln_c, gamma_alpha. cbv zeta. simpl. ring.
Qed.

Lemma circshift_eval filt s start dft len D j a b q k :
  Zlength filt = len -> D = csf_resolve len start dft -> (0 < D)%Z -> (0 <= j < len)%Z ->
  nth (Z.to_nat j) filt (RtoC 0) = (a, b) ->
  IZR q <= s / IZR D < IZR q + 1 -> k = ((start + j) mod D)%Z ->
  let th := -2 * PI * (s - IZR D * IZR q) / IZR D * IZR k in
  nth (Z.to_nat j) (circshift_out filt s start dft) (RtoC 0) =
  (a * cos th - b * sin th, a * sin th + b * cos th).
Proof.
  intros Hl HD Hpos Hj Hx Hq Hk. cbv zeta.
  unfold circshift_out. rewrite Hl, <- HD.
  assert (Ll : length filt = Z.to_nat len) by (rewrite <- Hl, Zlength_correct; lia).
  rewrite (map2_nth _ _ _ _ _ (RtoC 0) (cis 0)).
  2:{ lia. }
  2:{ rewrite map_length, csf_bins_length by lia. lia. }
  rewrite Hx.
  set (g := fun k0 : Z => _).
  rewrite (nth_indep _ (cis 0) (g 0%Z)) by (rewrite map_length, csf_bins_length by lia; lia).
  rewrite map_nth. unfold g.
  assert (Hb : nth (Z.to_nat j) (csf_bins len start D) 0%Z = k).
  { unfold csf_bins, np_arange2, csf_bin_lo, csf_bin_hi, csf_bin_mod.
    set (h := fun k0 : Z => (k0 mod D)%Z).
    rewrite (nth_indep _ 0%Z (h (start + 0)%Z)) by (rewrite !map_length, zrange_length; lia).
    rewrite map_nth.
    set (h2 := fun i0 : Z => (start + i0)%Z).
    change (start + 0)%Z with (h2 0%Z).
    rewrite (map_nth h2), zrange_nth by (unfold h2; lia). unfold h, h2. rewrite Z2Nat.id by lia. symmetry. assumption. }
  rewrite Hb. unfold csf_shift_reduced, pymod, Rfloor.
  rewrite (Int_part_unique _ q Hq).
  unfold csf_angle, cis, Cmult. simpl. reflexivity.
Qed.
