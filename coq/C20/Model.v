(* C20 - model of the window functions (filters.py:1239-1351) and of the helpers
   gauss_quant / hertz_to_angular / angular_to_hertz / circshift_fourier
   (util.py:55-186).  Definitions only.

   The scalar formulas, normalisers, branch conditions and the gamma-window
   pieces come from gen/WinHelp.v, which gen/winhelp.py regenerates from the
   source on every run; lib/C20_Numpy.v holds the numpy semantics (window shapes,
   arange, %).  This file only assembles them into list-valued functions in the
   order the Python statements do. *)
From Coq Require Import Reals ZArith List Bool.
Set Warnings "-ambiguous-paths".
From Coquelicot Require Import Coquelicot.
From Verif Require Import lib.C20_Numpy gen.WinHelp.
Import ListNotations.
Open Scope R_scope.

(** * The four numpy-shaped windows *)
Inductive wkind := Bartlett | Blackman | Hamming | Hann.

Definition shape_of (k : wkind) : np_shape :=
  match k with
  | Bartlett => bartlett_shape | Blackman => blackman_shape
  | Hamming => hamming_shape | Hann => hann_shape
  end.

Definition norm_of (k : wkind) (width : R) : R :=
  match k with
  | Bartlett => bartlett_norm width | Blackman => blackman_norm width
  | Hamming => hamming_norm width | Hann => hann_norm width
  end.

(* window = np.<shape>(width); window /= <norm>; return window *)
Definition window (k : wkind) (width : Z) : list R :=
  map (fun v => v / norm_of k (IZR width)) (np_window (shape_of k) width).

(** * GammaWindow.get_impulse_response *)
(* np.arange(a, b, c) on integers *)
Definition np_arange3 (a b c : Z) : list Z :=
  let n := if (0 <? c)%Z then ((b - a + c - 1) / c)%Z
           else if (c <? 0)%Z then ((a - b - c - 1) / (- c))%Z else 0%Z in
  map (fun i => (a + c * i)%Z) (zrange n).

(* number of elements addressed by the slice [:stop] of an array of length len *)
Definition slice_upto (stop len : Z) : Z :=
  if (stop <? 0)%Z then Z.max 0 (len + stop) else Z.min stop len.

Definition map2 {A B X} (f : A -> B -> X) (l1 : list A) (l2 : list B) : list X :=
  map (fun p => f (fst p) (snd p)) (combine l1 l2).

Definition gamma_window (order : Z) (peak : R) (width : Z) : list R :=
  match gamma_early width with
  | Some l => l
  | None =>
    let '(a, b, c) := gamma_arange width in
    let ret := np_arange3 a b c in                        (* ret = arange(width-1, -1, -1) *)
    let m := slice_upto (gamma_offs order width) (Zlength ret) in
    (* ret[:offs] = ret[:offs] ** (order-1) * exp(-alpha * ret[:offs] + ln_c) *)
    map2 (fun i t => if (i <? m)%Z then gamma_elem order peak width (IZR t) else IZR t)
         (zrange (Zlength ret)) ret
  end.

(* the gamma probability density of integer order n >= 1 and rate a *)
Definition gamma_pdf (n : nat) (a t : R) : R :=
  a ^ n * t ^ (n - 1) * exp (- a * t) / INR (fact (n - 1)).

(** * circshift_fourier *)
Definition cis (x : R) : C := (cos x, sin x).          (* np.exp(1j * x) *)

Definition np_arange2 (a b : Z) : list Z := map (fun i => (a + i)%Z) (zrange (b - a)).

Definition csf_resolve (len_filt start_idx : Z) (dft_size : option Z) : Z :=
  match dft_size with None => csf_default_dft_size len_filt start_idx | Some d => d end.

(* np.arange(start_idx, start_idx + len(filt)) % dft_size *)
Definition csf_bins (len_filt start_idx dft_size : Z) : list Z :=
  map (fun k => (k mod csf_bin_mod dft_size)%Z)
      (np_arange2 (csf_bin_lo len_filt start_idx) (csf_bin_hi len_filt start_idx)).

Definition circshift_out (filt : list C) (shift : R) (start_idx : Z) (dft_size : option Z) : list C :=
  let len := Zlength filt in
  let d := csf_resolve len start_idx dft_size in          (* if dft_size is None: ... *)
  let s := csf_shift_reduced shift d in                   (* shift %= dft_size *)
  map2 Cmult filt (map (fun k => cis (csf_angle s d k)) (csf_bins len start_idx d)).

(* what the caller observes: the returned array, the argument afterwards, and
   whether the returned array is the argument itself *)
Record csf_result := { csf_ret : list C; csf_arg_after : list C; csf_same_object : bool }.

Definition circshift_fourier (filt : list C) (shift : R) (start_idx : Z) (dft_size : option Z)
           (copy is_complex128 : bool) : csf_result :=
  let out := circshift_out filt shift start_idx dft_size in
  if csf_out_of_place copy is_complex128
  then {| csf_ret := out; csf_arg_after := filt; csf_same_object := false |}
  else {| csf_ret := out; csf_arg_after := out; csf_same_object := true |}.

(** * Inverse DFT (mathematical meaning of np.fft.ifft) *)
Definition Csum (l : list C) : C := fold_right Cplus (RtoC 0) l.

(* The time signal, as a trigonometric polynomial in real time t, of a length-D
   spectrum that holds filt[j] at bin (start_idx + j) mod D (overlapping entries add). *)
Definition seg_idft (d start_idx : Z) (filt : list C) (t : R) : C :=
  Cmult (RtoC (/ IZR d))
        (Csum (map2 (fun x k => Cmult x (cis (2 * PI * IZR k * t / IZR d)))
                    filt (csf_bins (Zlength filt) start_idx d))).

(* the dense spectrum of that segment: X[b] = sum of filt[j] over j with bin j = b *)
Definition embed (d start_idx : Z) (filt : list C) : list C :=
  map (fun b => Csum (map2 (fun x k => if (k =? b)%Z then x else RtoC 0)
                           filt (csf_bins (Zlength filt) start_idx d)))
      (zrange d).

(* ifft(X)[n] = 1/D * sum_k X[k] e^{2 pi i k n / D},  D = len X *)
Definition idft (X : list C) (n : Z) : C :=
  let d := Zlength X in
  Cmult (RtoC (/ IZR d))
        (Csum (map2 (fun x k => Cmult x (cis (2 * PI * IZR k * IZR n / IZR d))) X (zrange d))).

(** * gauss_quant, hertz_to_angular, angular_to_hertz: gen/WinHelp.v as generated *)

(* the standard normal density and CDF (1/2 + integral from the median), for the
   accuracy statements *)
Definition std_normal_pdf (x : R) : R := exp (- (x * x) / 2) / sqrt (2 * PI).
Definition Phi (x : R) : R := 1 / 2 + RInt std_normal_pdf 0 x.
