(* C20: Phi (Model.v: 1/2 + int_0^x of the standard normal density) really is a cumulative
   distribution function: it tends to 0 at -oo and to 1 at +oo, and the density integrates to 1
   over the line.  Rests on the Gaussian integral proved in C05/Gauss.v. *)
From Coq Require Import Reals Lra Lia.
From Coquelicot Require Import Coquelicot.
From Verif Require Import lib.C20_Numpy gen.WinHelp C20.Model C20.ProofsAcc C05.Gauss.
Open Scope R_scope.

Definition Phi_alt (x : R) : R := 1 / 2 + / sqrt PI * GG (/ sqrt 2 * x).

Lemma sqrt2pi : sqrt (2 * PI) = sqrt 2 * sqrt PI.
Proof. apply sqrt_mult; [lra | left; exact PI_RGT_0]. Qed.

Lemma Phi_alt_is_derive x : is_derive Phi_alt x (std_normal_pdf x).
Proof.
  pose proof (sqrt_lt_R0 2 ltac:(lra)) as H2. pose proof (sqrt_lt_R0 PI PI_RGT_0) as HP.
  unfold Phi_alt.
  replace (std_normal_pdf x) with (0 + / sqrt PI * (/ sqrt 2 * gf (/ sqrt 2 * x))).
  2:{ unfold std_normal_pdf, gf. rewrite sqrt2pi.
      replace ((/ sqrt 2 * x) ^ 2) with (x * x / (sqrt 2 * sqrt 2)) by (field; lra).
      rewrite sqrt_sqrt by lra.
      replace (- (x * x / 2)) with (- (x * x) / 2) by field. field. split; lra. }
  apply (is_derive_plus (fun _ => 1 / 2) (fun x => / sqrt PI * GG (/ sqrt 2 * x))).
  - apply (@is_derive_const R_AbsRing R_NormedModule).
  - apply is_derive_scal.
    apply (is_derive_comp GG (fun u => / sqrt 2 * u) x (gf (/ sqrt 2 * x)) (/ sqrt 2)).
    + apply GG_is_derive.
    + auto_derive; [exact I | ring].
Qed.

Lemma Phi_diff_is_derive y : is_derive (fun y => Phi y - Phi_alt y) y 0.
Proof.
  replace 0 with (std_normal_pdf y - std_normal_pdf y) by ring.
  apply (is_derive_minus Phi Phi_alt y (std_normal_pdf y) (std_normal_pdf y));
    [apply Phi_is_derive | apply Phi_alt_is_derive].
Qed.

Lemma Phi_eq_alt x : Phi x = Phi_alt x.
Proof.
  destruct (MVT_gen (fun y => Phi y - Phi_alt y) 0 x (fun _ => 0)) as [c [_ Hc]].
  - intros y _. exact (Phi_diff_is_derive y).
  - intros y _. apply continuity_pt_filterlim.
    apply (@ex_derive_continuous R_AbsRing R_NormedModule (fun y => Phi y - Phi_alt y) y). exists 0. exact (Phi_diff_is_derive y).
  - assert (E0 : Phi 0 - Phi_alt 0 = 0).
    { unfold Phi, Phi_alt. rewrite Rmult_0_r, GG_0.
      rewrite (@RInt_point R_CompleteNormedModule). unfold zero; simpl. ring. }
    lra.
Qed.

Lemma Phi_lim_p : is_lim Phi p_infty 1.
Proof.
  pose proof (sqrt_lt_R0 2 ltac:(lra)) as H2. pose proof (sqrt_lt_R0 PI PI_RGT_0) as HP.
  apply (is_lim_ext Phi_alt); [intros y; symmetry; apply Phi_eq_alt|].
  unfold Phi_alt.
  replace (Finite 1) with (Finite (1 / 2 + / sqrt PI * gauss_half)).
  2:{ f_equal. unfold gauss_half. field. lra. }
  apply (is_lim_plus' (fun _ => 1 / 2) (fun x => / sqrt PI * GG (/ sqrt 2 * x))); [apply is_lim_const|].
  replace (Finite (/ sqrt PI * gauss_half)) with (Rbar_mult (/ sqrt PI) gauss_half) by reflexivity.
  apply is_lim_scal_l.
  apply (is_lim_comp GG (fun u => / sqrt 2 * u) p_infty gauss_half p_infty).
  - apply GG_lim_p.
  - assert (Hi : 0 < / sqrt 2) by (apply Rinv_0_lt_compat; exact H2).
    replace p_infty with (Rbar_mult (/ sqrt 2) p_infty) at 2.
    2:{ simpl. destruct (Rle_dec 0 (/ sqrt 2)) as [H|H]; [|lra].
        destruct (Rle_lt_or_eq_dec 0 (/ sqrt 2) H) as [H'|H']; [reflexivity | lra]. }
    apply is_lim_scal_l. apply is_lim_id.
  - exists 0. intros y _. discriminate.
Qed.

Lemma Phi_lim_m : is_lim Phi m_infty 0.
Proof.
  apply (is_lim_ext (fun x => 1 - Phi (- x))).
  { intros y. rewrite Phi_opp. ring. }
  replace (Finite 0) with (Finite (1 - 1)) by (f_equal; ring).
  apply (is_lim_minus' (fun _ => 1) (fun x => Phi (- x))); [apply is_lim_const|].
  apply (is_lim_comp Phi (fun t => - t) m_infty 1 p_infty).
  - apply Phi_lim_p.
  - replace p_infty with (Rbar_opp m_infty) by reflexivity. apply is_lim_opp. apply is_lim_id.
  - exists 0. intros y _. discriminate.
Qed.

Lemma std_normal_pdf_continuous x : continuous std_normal_pdf x.
Proof. apply pdf_continuous. Qed.
(* the density integrates to 1 over the whole line *)
Lemma std_normal_pdf_total :
  is_RInt_gen std_normal_pdf (Rbar_locally m_infty) (Rbar_locally p_infty) 1.
Proof.
  assert (E : forall x, Derive Phi x = std_normal_pdf x).
  { intros x. apply is_derive_unique. apply Phi_is_derive. }
  apply (is_RInt_gen_ext (Derive Phi)).
  { apply filter_forall. intros [u v] x _. apply E. }
  replace 1 with (1 - 0) at 1 by ring.
  apply is_RInt_gen_Derive.
  - apply filter_forall. intros [u v] x _. eexists. apply Phi_is_derive.
  - apply filter_forall. intros [u v] x _.
    apply (continuous_ext std_normal_pdf); [intros t; symmetry; apply E|]. apply std_normal_pdf_continuous.
  - apply Phi_lim_m.
  - apply Phi_lim_p.
Qed.

(* ... and Phi x is the mass below x *)
Lemma Phi_is_mass_below x :
  is_RInt_gen std_normal_pdf (Rbar_locally m_infty) (at_point x) (Phi x).
Proof.
  assert (E : forall y, Derive Phi y = std_normal_pdf y).
  { intros y. apply is_derive_unique. apply Phi_is_derive. }
  apply (is_RInt_gen_ext (Derive Phi)).
  { apply filter_forall. intros [u v] y _. apply E. }
  replace (Phi x) with (Phi x - 0) at 1 by ring.
  apply is_RInt_gen_Derive.
  - apply filter_forall. intros [u v] y _. eexists. apply Phi_is_derive.
  - apply filter_forall. intros [u v] y _.
    apply (continuous_ext std_normal_pdf); [intros t; symmetry; apply E|]. apply std_normal_pdf_continuous.
  - apply Phi_lim_m.
  - intros P HP. unfold filtermap, at_point. apply locally_singleton. exact HP.
Qed.
