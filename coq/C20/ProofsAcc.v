(* C20 - accuracy of gauss_quant against the normal CDF
   Phi x = 1/2 + int_0^x exp(-t^2/2)/sqrt(2 pi) dt, for EVERY p in [1e-20, 1 - 1e-20].

   With y = sqrt(-2 ln p), p = exp(-y^2/2) and gauss_quant p 0 1 = - oez y, the claim
   Phi(-oez y - e) < p < Phi(-oez y + e) is  0 < Lfun y  and  0 < Ufun y  on
   [1.17, 9.6].  Both functions have closed-form derivatives exp(-y^2/2) * W(y);
   Interval's Taylor models give the sign of W on the whole range (W <= 0 except
   for Ufun on [1.17, 1.4], where |W| <= 1e-6), so each margin is bounded below
   by its value at one end point, and those three values are certified by
   Interval's quadrature (integral tactic). *)
From Coq Require Import Reals Lra.
Set Warnings "-ambiguous-paths".
From Coquelicot Require Import Coquelicot.
From Interval Require Import Tactic.
From Verif Require Import lib.C20_Numpy gen.WinHelp C20.Model C20.ProofsGauss.
Open Scope R_scope.

Lemma pdf_pos x : 0 < std_normal_pdf x.
Proof.
  unfold std_normal_pdf. apply Rdiv_lt_0_compat; [apply exp_pos|].
  apply sqrt_lt_R0. pose proof PI_RGT_0. lra.
Qed.

Lemma pdf_continuous x : continuous std_normal_pdf x.
Proof.
  apply (ex_derive_continuous (V := R_NormedModule)). unfold std_normal_pdf. auto_derive.
  pose proof PI_RGT_0. repeat split; trivial.
  all: try (apply Rgt_not_eq, sqrt_lt_R0; lra); try lra.
Qed.

Lemma pdf_ex_RInt a b : ex_RInt std_normal_pdf a b.
Proof. apply (ex_RInt_continuous (V := R_CompleteNormedModule)). intros z _. apply pdf_continuous. Qed.

(* Phi is strictly increasing: so "Phi (z - e) < p < Phi (z + e)" pins every
   solution q of Phi q = p to within e of z *)
Lemma Phi_increasing a b : a < b -> Phi a < Phi b.
Proof.
  intros H. unfold Phi.
  assert (E : RInt std_normal_pdf 0 b = RInt std_normal_pdf 0 a + RInt std_normal_pdf a b).
  { symmetry. apply (RInt_Chasles std_normal_pdf 0 a b); apply pdf_ex_RInt. }
  rewrite E.
  assert (0 < RInt std_normal_pdf a b).
  { apply RInt_gt_0; [assumption | intros; apply pdf_pos | intros; apply pdf_continuous]. }
  unfold plus in *. simpl in *. lra.
Qed.

Lemma Phi_bracket z e p q : Phi (z - e) < p -> p < Phi (z + e) -> Phi q = p -> Rabs (z - q) < e.
Proof.
  intros H1 H2 Hq. subst p.
  assert (z - e < q).
  { apply Rnot_le_lt. intros C. destruct C as [C | C].
    - pose proof (Phi_increasing _ _ C). lra.
    - subst. lra. }
  assert (q < z + e).
  { apply Rnot_le_lt. intros C. destruct C as [C | C].
    - pose proof (Phi_increasing _ _ C). lra.
    - subst. lra. }
  apply Rabs_def1; lra.
Qed.

Lemma gq_lower p : tail_eps <= p -> p < 1 / 2 -> gauss_quant p 0 1 = - oez (sqrt (-2 * ln p)).
Proof.
  intros. rewrite gq01. unfold rr, zr.
  destruct (Rlt_dec p (1 / 2)), (Rgt_dec p (1 / 2)), (Rlt_dec p tail_eps); lra.
Qed.

Definition within_1e6 (p : R) : Prop :=
  Phi (gauss_quant p 0 1 - 1 / 1000000) < p < Phi (gauss_quant p 0 1 + 1 / 1000000).

(** * Phi: derivative, symmetry *)
Lemma RInt_pdf_is_derive (x : R) : is_derive (fun b => RInt std_normal_pdf 0 b) x (std_normal_pdf x).
Proof.
  apply (@is_derive_RInt R_NormedModule std_normal_pdf (fun b => RInt std_normal_pdf 0 b) 0 x).
  - apply filter_forall. intros b. apply (@RInt_correct R_CompleteNormedModule), pdf_ex_RInt.
  - apply pdf_continuous.
Qed.

Lemma Phi_is_derive (x : R) : is_derive Phi x (std_normal_pdf x).
Proof.
  unfold Phi.
  evar_last.
  - apply (is_derive_plus (fun _ => 1 / 2) (fun b => RInt std_normal_pdf 0 b)).
    + apply is_derive_const.
    + apply RInt_pdf_is_derive.
  - apply plus_zero_l.
Qed.

Lemma pdf_even x : std_normal_pdf (- x) = std_normal_pdf x.
Proof. unfold std_normal_pdf. replace (- (- x * - x) / 2) with (- (x * x) / 2) by field. reflexivity. Qed.

Lemma Phi_opp x : Phi (- x) = 1 - Phi x.
Proof.
  unfold Phi.
  assert (E : RInt std_normal_pdf 0 (- x) = - RInt std_normal_pdf 0 x).
  { pose proof (@RInt_correct R_CompleteNormedModule std_normal_pdf (- 0) (- x) (pdf_ex_RInt _ _)) as H.
    apply (is_RInt_comp_opp std_normal_pdf 0 x) in H.
    apply (@is_RInt_unique R_CompleteNormedModule) in H.
    rewrite Ropp_0 in H. rewrite <- H.
    transitivity (RInt (fun y => opp (std_normal_pdf y)) 0 x).
    - apply RInt_ext. intros y _. rewrite pdf_even. reflexivity.
    - apply (@RInt_opp R_CompleteNormedModule std_normal_pdf 0 x), pdf_ex_RInt. }
  rewrite E. generalize (RInt std_normal_pdf 0 x). intros r. simpl in r. lra.
Qed.

Lemma Phi_0 : Phi 0 = 1 / 2.
Proof. unfold Phi. rewrite RInt_point. unfold zero. simpl. lra. Qed.

(** * The two margins as functions of y = sqrt(-2 ln p) *)
Definition eps6 : R := 1 / 1000000.
Definition Ufun (y : R) : R := Phi (eps6 - oez y) - exp (- (y * y) / 2).
Definition Lfun (y : R) : R := exp (- (y * y) / 2) - Phi (- eps6 - oez y).
(* their derivatives are exp(-y^2/2) times *)
Definition WU (y : R) : R :=
  y - doez y * exp ((y * y - (eps6 - oez y) * (eps6 - oez y)) / 2) / sqrt (2 * PI).
Definition WL (y : R) : R :=
  - y + doez y * exp ((y * y - (- eps6 - oez y) * (- eps6 - oez y)) / 2) / sqrt (2 * PI).

Lemma gauss_is_derive (y : R) : is_derive (fun y => exp (- (y * y) / 2)) y (- y * exp (- (y * y) / 2)).
Proof. auto_derive; [trivial | unfold Rdiv; field]. Qed.

Lemma sqrt2pi_pos : 0 < sqrt (2 * PI).
Proof. apply sqrt_lt_R0. pose proof PI_RGT_0. lra. Qed.

Lemma pdf_split y g :
  std_normal_pdf g = exp (- (y * y) / 2) * (exp ((y * y - g * g) / 2) / sqrt (2 * PI)).
Proof.
  unfold std_normal_pdf.
  replace (exp (- (g * g) / 2)) with (exp (- (y * y) / 2) * exp ((y * y - g * g) / 2)).
  - pose proof sqrt2pi_pos. field. lra.
  - rewrite <- exp_plus. f_equal. field.
Qed.

Lemma Ufun_is_derive (y : R) : 0 <= y -> is_derive Ufun y (exp (- (y * y) / 2) * WU y).
Proof.
  intros Hy. unfold Ufun.
  evar_last.
  - apply (is_derive_minus (fun y => Phi (eps6 - oez y)) (fun y => exp (- (y * y) / 2))).
    + apply (is_derive_comp Phi (fun y => eps6 - oez y)).
      * apply Phi_is_derive.
      * apply (is_derive_minus (fun _ => eps6) oez); [apply is_derive_const | apply oez_is_derive; assumption].
    + apply gauss_is_derive.
  - unfold minus, plus, opp, scal, zero, mult. simpl. unfold mult. simpl.
    rewrite (pdf_split y (eps6 - oez y)). unfold WU. pose proof sqrt2pi_pos. field. lra.
Qed.

Lemma Lfun_is_derive (y : R) : 0 <= y -> is_derive Lfun y (exp (- (y * y) / 2) * WL y).
Proof.
  intros Hy. unfold Lfun.
  evar_last.
  - apply (is_derive_minus (fun y => exp (- (y * y) / 2)) (fun y => Phi (- eps6 - oez y))).
    + apply gauss_is_derive.
    + apply (is_derive_comp Phi (fun y => - eps6 - oez y)).
      * apply Phi_is_derive.
      * apply (is_derive_minus (fun _ => - eps6) oez); [apply is_derive_const | apply oez_is_derive; assumption].
  - unfold minus, plus, opp, scal, zero, mult. simpl. unfold mult. simpl.
    rewrite (pdf_split y (- eps6 - oez y)). unfold WL. pose proof sqrt2pi_pos. field. lra.
Qed.

(** * Signs of the derivatives (Taylor models) and anchor values (certified quadrature) *)
Lemma WL_neg y : 117 / 100 <= y <= 96 / 10 -> WL y <= 0.
Proof.
  intros H. unfold WL, doez, oez, oeN, oeD, eps6.
  interval with (i_bisect y, i_taylor y, i_degree 10, i_prec 80).
Qed.

Lemma WU_neg y : 14 / 10 <= y <= 96 / 10 -> WU y <= 0.
Proof.
  intros H. unfold WU, doez, oez, oeN, oeD, eps6.
  interval with (i_bisect y, i_taylor y, i_degree 10, i_prec 80).
Qed.

Lemma WU_low y : 117 / 100 <= y <= 14 / 10 -> - (1 / 1000000) <= WU y.
Proof.
  intros H. unfold WU, doez, oez, oeN, oeD, eps6.
  interval with (i_bisect y, i_taylor y, i_degree 10, i_prec 80).
Qed.

Lemma L_anchor : 0 < Lfun (96 / 10).
Proof.
  unfold Lfun, Phi, std_normal_pdf, oez, oeN, oeD, eps6. apply Rlt_Rminus.
  integral with (i_prec 160, i_fuel 5000, i_degree 20).
Qed.

Lemma U_anchor_hi : 0 < Ufun (96 / 10).
Proof.
  unfold Ufun, Phi, std_normal_pdf, oez, oeN, oeD, eps6. apply Rlt_Rminus.
  integral with (i_prec 160, i_fuel 5000, i_degree 20).
Qed.

(* at the low end: U(1.17) exceeds what a slope of -1e-6 exp(-y^2/2) can eat over [1.17, 1.4] *)
Lemma U_anchor_lo : 1 / 1000000 * (23 / 100) < Ufun (117 / 100).
Proof.
  unfold Ufun, Phi, std_normal_pdf, oez, oeN, oeD, eps6.
  integral with (i_prec 80, i_fuel 2000, i_degree 15).
Qed.

(** * Monotonicity arguments *)
Lemma nonincreasing_on (f df : R -> R) a b :
  a <= b ->
  (forall x, a <= x <= b -> is_derive f x (df x)) ->
  (forall x, a <= x <= b -> df x <= 0) ->
  forall x, a <= x <= b -> f b <= f x.
Proof.
  intros Hab Hd Hs x Hx.
  destruct (Req_dec x b) as [-> | N]; [lra|].
  destruct (MVT_gen f x b df) as [c [Hc E]].
  - intros t Ht. rewrite Rmin_left, Rmax_right in Ht by lra. apply Hd. lra.
  - intros t Ht. rewrite Rmin_left, Rmax_right in Ht by lra.
    apply derivable_continuous_pt. exists (df t). apply is_derive_Reals, Hd. lra.
  - rewrite Rmin_left, Rmax_right in Hc by lra.
    assert (df c <= 0) by (apply Hs; lra).
    assert (df c * (b - x) <= 0) by nra. lra.
Qed.

Lemma slope_bounded_below (f df : R -> R) a b m :
  a <= b -> 0 <= m ->
  (forall x, a <= x <= b -> is_derive f x (df x)) ->
  (forall x, a <= x <= b -> - m <= df x) ->
  forall x, a <= x <= b -> f a - m * (b - a) <= f x.
Proof.
  intros Hab Hm Hd Hs x Hx.
  destruct (Req_dec x a) as [-> | N]; [nra|].
  destruct (MVT_gen f a x df) as [c [Hc E]].
  - intros t Ht. rewrite Rmin_left, Rmax_right in Ht by lra. apply Hd. lra.
  - intros t Ht. rewrite Rmin_left, Rmax_right in Ht by lra.
    apply derivable_continuous_pt. exists (df t). apply is_derive_Reals, Hd. lra.
  - rewrite Rmin_left, Rmax_right in Hc by lra.
    assert (- m <= df c) by (apply Hs; lra).
    assert (- m * (b - a) <= df c * (x - a)) by nra. lra.
Qed.

Lemma exp_gauss_le1 y : exp (- (y * y) / 2) <= 1.
Proof.
  rewrite <- exp_0. destruct (Req_dec y 0) as [-> | N].
  - right. f_equal. field.
  - left. apply exp_increasing. nra.
Qed.

Lemma Lfun_pos y : 117 / 100 <= y <= 96 / 10 -> 0 < Lfun y.
Proof.
  intros Hy. pose proof L_anchor.
  assert (Lfun (96 / 10) <= Lfun y); [|lra].
  apply (nonincreasing_on Lfun (fun y => exp (- (y * y) / 2) * WL y) (117 / 100)); try lra.
  - intros x Hx. apply Lfun_is_derive. lra.
  - intros x Hx. pose proof (WL_neg x Hx). pose proof (exp_pos (- (x * x) / 2)). nra.
Qed.

Lemma Ufun_pos y : 117 / 100 <= y <= 96 / 10 -> 0 < Ufun y.
Proof.
  intros Hy. destruct (Rle_dec y (14 / 10)) as [Lo | Hi].
  - pose proof U_anchor_lo.
    assert (Ufun (117 / 100) - 1 / 1000000 * (14 / 10 - 117 / 100) <= Ufun y); [|lra].
    apply (slope_bounded_below Ufun (fun y => exp (- (y * y) / 2) * WU y)); try lra.
    + intros x Hx. apply Ufun_is_derive. lra.
    + intros x Hx. pose proof (WU_low x Hx). pose proof (exp_pos (- (x * x) / 2)).
      pose proof (exp_gauss_le1 x). nra.
  - pose proof U_anchor_hi.
    assert (Ufun (96 / 10) <= Ufun y); [|lra].
    apply (nonincreasing_on Ufun (fun y => exp (- (y * y) / 2) * WU y) (14 / 10)); try lra.
    + intros x Hx. apply Ufun_is_derive. lra.
    + intros x Hx. pose proof (WU_neg x Hx). pose proof (exp_pos (- (x * x) / 2)). nra.
Qed.

(** * Back to probabilities *)
Lemma y_of_sq p : 0 < p -> p <= 1 -> exp (- (y_of p * y_of p) / 2) = p.
Proof.
  intros H0 H1. unfold y_of. rewrite sqrt_sqrt.
  - replace (- (-2 * ln p) / 2) with (ln p) by field. apply exp_ln. assumption.
  - assert (ln p <= 0) by (rewrite <- ln_1; destruct (Req_dec p 1) as [-> | N]; [lra | apply Rlt_le, ln_increasing; lra]).
    lra.
Qed.

Lemma y_of_range_acc p : tail_eps <= p -> p < 1 / 2 -> 117 / 100 <= y_of p <= 96 / 10.
Proof.
  intros H1 H2. assert (0 < tail_eps) by (unfold tail_eps; lra).
  assert (A : 117 / 100 <= y_of (1 / 2)) by (unfold y_of; interval).
  assert (B : y_of tail_eps <= 96 / 10) by (unfold y_of, tail_eps; interval).
  split.
  - apply Rlt_le, Rle_lt_trans with (y_of (1 / 2)); [assumption | apply y_of_decreasing; lra].
  - destruct (Req_dec p tail_eps) as [-> | N]; [assumption|].
    apply Rlt_le, Rlt_le_trans with (y_of tail_eps); [apply y_of_decreasing; lra | assumption].
Qed.

Lemma accuracy_lower p : tail_eps <= p -> p < 1 / 2 -> within_1e6 p.
Proof.
  intros H1 H2. assert (0 < tail_eps) by (unfold tail_eps; lra).
  unfold within_1e6. rewrite gq_lower by assumption. fold (y_of p).
  pose proof (y_of_range_acc p H1 H2) as R.
  pose proof (Lfun_pos _ R) as HL. pose proof (Ufun_pos _ R) as HU.
  unfold Lfun, Ufun in *. rewrite y_of_sq in * by lra. unfold eps6 in *.
  replace (- oez (y_of p) - 1 / 1000000) with (- (1 / 1000000) - oez (y_of p)) by ring.
  replace (- oez (y_of p) + 1 / 1000000) with (1 / 1000000 - oez (y_of p)) by ring.
  lra.
Qed.

Lemma accuracy_median : within_1e6 (1 / 2).
Proof.
  unfold within_1e6. pose proof gauss_quant_median_l as M0.
  assert (M : Rabs (gauss_quant (1 / 2) 0 1) < 1 / 1000000) by lra. apply Rabs_def2 in M.
  rewrite <- Phi_0 at 2 3. split; apply Phi_increasing; lra.
Qed.

Lemma accuracy_upper p : 1 / 2 < p -> p <= 1 - tail_eps -> within_1e6 p.
Proof.
  intros H1 H2.
  pose proof (accuracy_lower (1 - p) ltac:(lra) ltac:(lra)) as [A B].
  assert (E : gauss_quant p 0 1 = - gauss_quant (1 - p) 0 1).
  { replace p with (1 - (1 - p)) at 1 by ring. rewrite gauss_quant_symmetric_l by lra. ring. }
  unfold within_1e6. rewrite E.
  replace (- gauss_quant (1 - p) 0 1 - 1 / 1000000) with (- (gauss_quant (1 - p) 0 1 + 1 / 1000000)) by ring.
  replace (- gauss_quant (1 - p) 0 1 + 1 / 1000000) with (- (gauss_quant (1 - p) 0 1 - 1 / 1000000)) by ring.
  rewrite !Phi_opp. lra.
Qed.

(* the accuracy clause, for every probability *)
Lemma gauss_quant_accuracy_l p : tail_eps <= p -> p <= 1 - tail_eps -> within_1e6 p.
Proof.
  intros H1 H2. destruct (Rtotal_order p (1 / 2)) as [L | [-> | G]].
  - apply accuracy_lower; assumption.
  - apply accuracy_median.
  - apply accuracy_upper; assumption.
Qed.

Lemma gauss_quant_accuracy_c p : 1 / 10 ^ 20 <= p -> p <= 1 - 1 / 10 ^ 20 ->
  Phi (gauss_quant p 0 1 - 1 / 1000000) < p < Phi (gauss_quant p 0 1 + 1 / 1000000).
Proof. intros H1 H2. apply gauss_quant_accuracy_l; unfold tail_eps; lra. Qed.

(* hypotheses are satisfiable *)
Example accuracy_example : 1 / 10 ^ 20 <= 1 / 1000 /\ 1 / 1000 <= 1 - 1 / 10 ^ 20.
Proof. lra. Qed.

(* in the form of the property: any true quantile of p is within 1e-6 standard deviations *)
Lemma gauss_quant_accuracy_std_l p mu std x :
  0 < std -> 1 / 10 ^ 20 <= p -> p <= 1 - 1 / 10 ^ 20 ->
  Phi ((x - mu) / std) = p -> Rabs (gauss_quant p mu std - x) < std / 1000000.
Proof.
  intros Hs H1 H2 Hx.
  destruct (gauss_quant_accuracy_l p) as [A B]; try (unfold tail_eps; lra).
  pose proof (Phi_bracket _ _ _ _ A B Hx) as Hb.
  rewrite gauss_quant_affine_l.
  replace (gauss_quant p 0 1 * std + mu - x) with (std * (gauss_quant p 0 1 - (x - mu) / std)) by (field; lra).
  rewrite Rabs_mult, (Rabs_right std) by lra.
  unfold Rdiv at 2. apply Rmult_lt_compat_l; lra.
Qed.

Lemma gauss_quant_accuracy_full_l p : 1 / 10 ^ 20 <= p -> p <= 1 - 1 / 10 ^ 20 ->
  Phi (gauss_quant p 0 1 - 1 / 1000000) < p < Phi (gauss_quant p 0 1 + 1 / 1000000) /\
  forall mu std x, 0 < std -> Phi ((x - mu) / std) = p ->
    Rabs (gauss_quant p mu std - x) < std / 1000000.
Proof.
  intros H1 H2. split.
  - apply gauss_quant_accuracy_c; assumption.
  - intros mu std x Hs Hx. apply gauss_quant_accuracy_std_l; assumption.
Qed.
