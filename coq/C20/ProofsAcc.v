(* C20 - accuracy of gauss_quant against the normal CDF
   Phi x = 1/2 + int_0^x exp(-t^2/2)/sqrt(2 pi) dt. *)
From Coq Require Import Reals Lra.
Set Warnings "-ambiguous-paths".
From Coquelicot Require Import Coquelicot.
From Interval Require Import Tactic.
From Verif Require Import lib.C20_Numpy gen.WinHelp C20.Model C20.ProofsGauss.
Open Scope R_scope.

Lemma pdf_pos x : 0 < std_normal_pdf x.
Proof.
  unfold std_normal_pdf. apply Rdiv_lt_0_compat; [apply exp_pos|].
  apply sqrt_lt_R0. pose proof PI_RGT_0. lra.
Qed.

Lemma pdf_continuous x : continuous std_normal_pdf x.
Proof.
  apply (ex_derive_continuous (V := R_NormedModule)). unfold std_normal_pdf. auto_derive.
  pose proof PI_RGT_0. repeat split; trivial.
  all: try (apply Rgt_not_eq, sqrt_lt_R0; lra); try lra.
Qed.

Lemma pdf_ex_RInt a b : ex_RInt std_normal_pdf a b.
Proof. apply (ex_RInt_continuous (V := R_CompleteNormedModule)). intros z _. apply pdf_continuous. Qed.

(* Phi is strictly increasing: so "Phi (z - e) < p < Phi (z + e)" pins every
   solution q of Phi q = p to within e of z *)
Lemma Phi_increasing a b : a < b -> Phi a < Phi b.
Proof.
  intros H. unfold Phi.
  assert (E : RInt std_normal_pdf 0 b = RInt std_normal_pdf 0 a + RInt std_normal_pdf a b).
  { symmetry. apply (RInt_Chasles std_normal_pdf 0 a b); apply pdf_ex_RInt. }
  rewrite E.
  assert (0 < RInt std_normal_pdf a b).
  { apply RInt_gt_0; [assumption | intros; apply pdf_pos | intros; apply pdf_continuous]. }
  unfold plus in *. simpl in *. lra.
Qed.

Lemma Phi_bracket z e p q : Phi (z - e) < p -> p < Phi (z + e) -> Phi q = p -> Rabs (z - q) < e.
Proof.
  intros H1 H2 Hq. subst p.
  assert (z - e < q).
  { apply Rnot_le_lt. intros C. destruct C as [C | C].
    - pose proof (Phi_increasing _ _ C). lra.
    - subst. lra. }
  assert (q < z + e).
  { apply Rnot_le_lt. intros C. destruct C as [C | C].
    - pose proof (Phi_increasing _ _ C). lra.
    - subst. lra. }
  apply Rabs_def1; lra.
Qed.

Lemma gq_lower p : tail_eps <= p -> p < 1 / 2 -> gauss_quant p 0 1 = - oez (sqrt (-2 * ln p)).
Proof.
  intros. rewrite gq01. unfold rr, zr.
  destruct (Rlt_dec p (1 / 2)), (Rgt_dec p (1 / 2)), (Rlt_dec p tail_eps); lra.
Qed.

Definition within_1e6 (p : R) : Prop :=
  Phi (gauss_quant p 0 1 - 1 / 1000000) < p < Phi (gauss_quant p 0 1 + 1 / 1000000).

Ltac anchor prec :=
  unfold within_1e6; rewrite gq_lower by (unfold tail_eps; lra);
  unfold Phi, std_normal_pdf, oez, oeN, oeD; split;
  integral with (i_prec prec, i_fuel 5000, i_degree 20).

Lemma anchor_4e1 : within_1e6 (4 / 10). Proof. anchor 70%positive. Qed.
Lemma anchor_25e2 : within_1e6 (25 / 100). Proof. anchor 70%positive. Qed.
Lemma anchor_1e1 : within_1e6 (1 / 10). Proof. anchor 70%positive. Qed.
Lemma anchor_33e3 : within_1e6 (33 / 1000). Proof. anchor 70%positive. Qed.
Lemma anchor_1e2 : within_1e6 (1 / 100). Proof. anchor 70%positive. Qed.
Lemma anchor_1e3 : within_1e6 (1 / 10 ^ 3). Proof. anchor 80%positive. Qed.
Lemma anchor_1e4 : within_1e6 (1 / 10 ^ 4). Proof. anchor 80%positive. Qed.
Lemma anchor_1e6 : within_1e6 (1 / 10 ^ 6). Proof. anchor 90%positive. Qed.
Lemma anchor_1e9 : within_1e6 (1 / 10 ^ 9). Proof. anchor 100%positive. Qed.
Lemma anchor_1e12 : within_1e6 (1 / 10 ^ 12). Proof. anchor 120%positive. Qed.
Lemma anchor_1e16 : within_1e6 (1 / 10 ^ 16). Proof. anchor 140%positive. Qed.
Lemma anchor_1e20 : within_1e6 (1 / 10 ^ 20). Proof. anchor 150%positive. Qed.

Lemma gauss_quant_accuracy_anchors_l :
  within_1e6 (4 / 10) /\ within_1e6 (25 / 100) /\ within_1e6 (1 / 10) /\ within_1e6 (33 / 1000) /\
  within_1e6 (1 / 100) /\ within_1e6 (1 / 10 ^ 3) /\ within_1e6 (1 / 10 ^ 4) /\ within_1e6 (1 / 10 ^ 6) /\
  within_1e6 (1 / 10 ^ 9) /\ within_1e6 (1 / 10 ^ 12) /\ within_1e6 (1 / 10 ^ 16) /\ within_1e6 (1 / 10 ^ 20).
Proof.
  repeat split;
    first [ apply anchor_4e1 | apply anchor_25e2 | apply anchor_1e1 | apply anchor_33e3 | apply anchor_1e2
          | apply anchor_1e3 | apply anchor_1e4 | apply anchor_1e6 | apply anchor_1e9 | apply anchor_1e12
          | apply anchor_1e16 | apply anchor_1e20 ].
Qed.
