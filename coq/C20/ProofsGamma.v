(* C20 - GammaWindow: length, non-negativity, "is the time-reversed gamma density",
   position of the maximum. *)
From Coq Require Import Reals ZArith List Bool Lia Lra.
Set Warnings "-ambiguous-paths".
From Verif Require Import lib.C20_Numpy gen.WinHelp C20.Model.
Import ListNotations.
Open Scope R_scope.

(** * Unfolding the model for width >= 2 *)
Lemma zrange_length n : length (zrange n) = Z.to_nat n.
Proof. unfold zrange. rewrite map_length, seq_length. reflexivity. Qed.

Lemma zrange_nth n i d : (i < Z.to_nat n)%nat -> nth i (zrange n) d = Z.of_nat i.
Proof.
  intros H. unfold zrange.
  rewrite (nth_indep _ d (Z.of_nat 0)) by (rewrite map_length, seq_length; assumption).
  rewrite map_nth, seq_nth by assumption. reflexivity.
Qed.

Lemma gamma_ret w : (2 <= w)%Z ->
  (let '(a, b, c) := gamma_arange w in np_arange3 a b c) = map (fun i => (w - 1 - i)%Z) (zrange w).
Proof.
  intros H. unfold gamma_arange, np_arange3.
  destruct (Z.ltb_spec 0 (- (1))); [lia|]. destruct (Z.ltb_spec (- (1)) 0); [|lia].
  replace ((w - 1 - - (1) - - (1) - 1) / - - (1))%Z with w.
  2:{ replace (- - (1))%Z with 1%Z by lia. rewrite Z.div_1_r. lia. }
  apply map_ext. intros i. lia.
Qed.

Lemma gamma_early_none w : (2 <= w)%Z -> gamma_early w = None.
Proof.
  intros H. unfold gamma_early.
  destruct (Z.leb_spec w 0); [lia|]. destruct (Z.eqb_spec w 1); [lia|]. reflexivity.
Qed.

Lemma map2_length {A B X} (f : A -> B -> X) l1 l2 :
  length (map2 f l1 l2) = Nat.min (length l1) (length l2).
Proof. unfold map2. rewrite map_length, combine_length. reflexivity. Qed.

Lemma map2_nth {A B X} (f : A -> B -> X) l1 l2 i d da db :
  (i < length l1)%nat -> (i < length l2)%nat ->
  nth i (map2 f l1 l2) d = f (nth i l1 da) (nth i l2 db).
Proof.
  intros H1 H2. unfold map2.
  set (F := fun p : A * B => f (fst p) (snd p)).
  transitivity (nth i (map F (combine l1 l2)) (F (da, db))).
  - apply nth_indep. rewrite map_length, combine_length. lia.
  - rewrite map_nth. unfold F.
    assert (E : nth i (combine l1 l2) (da, db) = (nth i l1 da, nth i l2 db)).
    { clear - H1 H2. revert l2 i H1 H2. induction l1; intros l2 i H1 H2; simpl in *; [lia|].
      destruct l2; simpl in *; [lia|]. destruct i; [reflexivity|]. apply IHl1; lia. }
    rewrite E. reflexivity.
Qed.

Lemma gamma_window_unfold order peak w :
  (2 <= w)%Z ->
  gamma_window order peak w =
  map2 (fun i t => if (i <? gamma_offs order w)%Z then gamma_elem order peak w (IZR t) else IZR t)
       (zrange w) (map (fun i => (w - 1 - i)%Z) (zrange w)).
Proof.
  intros H. unfold gamma_window. rewrite gamma_early_none by assumption.
  pose proof (gamma_ret w H) as E. destruct (gamma_arange w) as [[a b] c]. rewrite E.
  rewrite Zlength_correct, map_length, zrange_length, Z2Nat.id by lia.
  assert (Hs : slice_upto (gamma_offs order w) w = gamma_offs order w).
  { unfold slice_upto, gamma_offs. destruct (order >? 1)%Z.
    - destruct (Z.ltb_spec (w - 1) 0); lia.
    - destruct (Z.ltb_spec w 0); lia. }
  rewrite Hs. reflexivity.
Qed.

(** * Length *)
Lemma gamma_window_length_l order peak w : Zlength (gamma_window order peak w) = Z.max 0 w.
Proof.
  destruct (Z_lt_le_dec w 2) as [H | H].
  - unfold gamma_window, gamma_early.
    destruct (Z.leb_spec w 0); [rewrite Zlength_nil; lia|].
    destruct (Z.eqb_spec w 1); [subst; reflexivity | lia].
  - rewrite gamma_window_unfold by assumption.
    rewrite Zlength_correct, map2_length, map_length, zrange_length. lia.
Qed.

(** * Every sample, width >= 2, order >= 1 *)
Lemma gamma_window_nth_l order peak w i d :
  (2 <= w)%Z -> (1 <= order)%Z -> (0 <= i < w)%Z ->
  nth (Z.to_nat i) (gamma_window order peak w) d = gamma_elem order peak w (IZR (w - 1 - i)).
Proof.
  intros Hw Ho Hi. rewrite gamma_window_unfold by assumption.
  rewrite (map2_nth _ _ _ _ d 0%Z 0%Z) by (rewrite ?map_length, zrange_length; lia).
  rewrite (nth_indep (map (fun i0 => (w - 1 - i0)%Z) (zrange w)) 0%Z ((fun i0 => (w - 1 - i0)%Z) 0%Z))
    by (rewrite map_length, zrange_length; lia).
  rewrite (map_nth (fun i0 => (w - 1 - i0)%Z)), zrange_nth by lia. rewrite Z2Nat.id by lia.
  destruct (Z.ltb_spec i (gamma_offs order w)) as [L | L]; [reflexivity|].
  (* only the last sample of an order > 1 window is left untouched; it is 0 either way *)
  unfold gamma_offs in L. destruct (order >? 1)%Z eqn:E; [|lia].
  assert (i = w - 1)%Z by lia. subst i. replace (w - 1 - (w - 1))%Z with 0%Z by lia.
  unfold gamma_elem. replace (Z.to_nat (order - 1)) with (S (Z.to_nat (order - 2))) by lia.
  simpl. ring.
Qed.

(** * It is the gamma density, time reversed *)
Lemma fact_pos_R n : 0 < INR (fact n).
Proof. apply lt_0_INR, lt_O_fact. Qed.

Lemma exp_INR_ln n a : 0 < a -> exp (INR n * ln a) = a ^ n.
Proof. intros H. rewrite <- Rpower_pow by assumption. reflexivity. Qed.

Lemma gamma_elem_pdf order peak w t :
  (1 <= order)%Z -> 0 < gamma_alpha order peak w ->
  gamma_elem order peak w t = gamma_pdf (Z.to_nat order) (gamma_alpha order peak w) t.
Proof.
  intros Ho Ha. unfold gamma_elem, gamma_pdf, gamma_ln_c. cbv zeta.
  set (a := gamma_alpha order peak w) in *.
  replace (Z.to_nat (order - 1)) with (Z.to_nat order - 1)%nat by lia.
  replace (IZR order) with (INR (Z.to_nat order)) by (rewrite INR_IZR_INZ, Z2Nat.id by lia; reflexivity).
  set (n := Z.to_nat order).
  rewrite !exp_plus. unfold Rminus. rewrite exp_plus, exp_Ropp, exp_INR_ln by assumption.
  rewrite exp_ln by apply fact_pos_R.
  pose proof (fact_pos_R (n - 1)). field. lra.
Qed.

Lemma gamma_alpha_pos order peak w :
  (1 <= order)%Z -> (1 <= w)%Z -> peak < 1 -> 0 < gamma_alpha order peak w.
Proof.
  intros Ho Hw Hp. unfold gamma_alpha, gamma_peak.
  assert (0 < IZR w) by (apply IZR_lt; lia).
  destruct (Z.gtb_spec order 1).
  - apply Rdiv_lt_0_compat; [|nra].
    assert (2 <= IZR order) by (apply IZR_le; lia). lra.
  - apply Rdiv_lt_0_compat; lra.
Qed.

Lemma gamma_window_closed_form_l order peak w i d :
  (2 <= w)%Z -> (1 <= order)%Z -> peak < 1 -> (0 <= i < w)%Z ->
  nth (Z.to_nat i) (gamma_window order peak w) d =
  gamma_pdf (Z.to_nat order) (gamma_alpha order peak w) (IZR (w - 1 - i)).
Proof.
  intros Hw Ho Hp Hi. rewrite gamma_window_nth_l by assumption.
  apply gamma_elem_pdf; [assumption | apply gamma_alpha_pos; lia || assumption].
Qed.

(* alpha places the mode (n-1)/alpha of the density at time width - peak*width,
   i.e. at sample position  (width-1) - (width - peak*width) = peak*width - 1 *)
Lemma gamma_mode_l order peak w :
  (2 <= order)%Z -> (1 <= w)%Z -> peak < 1 ->
  (IZR order - 1) / gamma_alpha order peak w = IZR w - peak * IZR w.
Proof.
  intros Ho Hw Hp. unfold gamma_alpha, gamma_peak.
  destruct (Z.gtb_spec order 1); [|lia].
  assert (0 < IZR w) by (apply IZR_lt; lia).
  assert (2 <= IZR order) by (apply IZR_le; lia).
  field. split; nra.
Qed.

(* order 1: the peak parameter is not used; rate 5/width *)
Lemma gamma_alpha_order1 peak w : gamma_alpha 1 peak w = 5 / IZR w.
Proof. reflexivity. Qed.

(** * Non-negativity *)
Lemma gamma_elem_nonneg order peak w t : 0 <= t -> 0 <= gamma_elem order peak w t.
Proof.
  intros Ht. unfold gamma_elem. apply Rmult_le_pos; [apply pow_le; assumption | apply Rlt_le, exp_pos].
Qed.

Lemma gamma_window_nonneg_l order peak w x :
  (1 <= order)%Z -> In x (gamma_window order peak w) -> 0 <= x.
Proof.
  intros Ho Hin.
  destruct (Z_lt_le_dec w 2) as [H | H].
  - unfold gamma_window, gamma_early in Hin.
    destruct (Z.leb_spec w 0); [destruct Hin|].
    destruct (Z.eqb_spec w 1); [|lia]. destruct Hin as [<- | []]. lra.
  - destruct (In_nth _ _ 0 Hin) as [n [Hn <-]].
    assert (L : Zlength (gamma_window order peak w) = w) by (rewrite gamma_window_length_l; lia).
    rewrite Zlength_correct in L.
    replace n with (Z.to_nat (Z.of_nat n)) by lia.
    rewrite gamma_window_nth_l by lia.
    apply gamma_elem_nonneg. apply IZR_le. lia.
Qed.

(** * The density has its maximum at (n-1)/a and is strictly unimodal *)
Lemma ln_lt_sub1 x : 0 < x -> x <> 1 -> ln x < x - 1.
Proof.
  intros Hx Hn.
  assert (ln x <> 0).
  { intros E. apply Hn. rewrite <- (exp_ln x Hx), E. apply exp_0. }
  pose proof (exp_ineq1 (ln x) H) as I. rewrite exp_ln in I by assumption. lra.
Qed.

Lemma ln_quot x y : 0 < x -> 0 < y -> ln (x / y) = ln x - ln y.
Proof.
  intros Hx Hy. unfold Rdiv. rewrite ln_mult by (try apply Rinv_0_lt_compat; assumption).
  rewrite ln_Rinv by assumption. ring.
Qed.

(* log-density up to a constant *)
Definition lg (k a t : R) : R := k * ln t - a * t.

Lemma lg_incr k a t1 t2 : 1 <= k -> 0 < t1 < t2 -> a * t2 <= k -> lg k a t1 < lg k a t2.
Proof.
  intros Hk [H1 H2] Ha. unfold lg.
  assert (Hr : ln (t1 / t2) < t1 / t2 - 1).
  { apply ln_lt_sub1.
    - apply Rdiv_lt_0_compat; lra.
    - intros E. apply (Rmult_eq_compat_r t2) in E. unfold Rdiv in E.
      rewrite Rmult_assoc, Rinv_l in E by lra. lra. }
  rewrite ln_quot in Hr by lra.
  (* k (ln t2 - ln t1) > k (t2 - t1)/t2 >= a (t2 - t1) *)
  assert (Hq : (t2 - t1) / t2 = 1 - t1 / t2) by (field; lra).
  assert (0 < (t2 - t1) / t2) by (apply Rdiv_lt_0_compat; lra).
  assert (a * (t2 - t1) <= k * ((t2 - t1) / t2)).
  { replace (a * (t2 - t1)) with (a * t2 * ((t2 - t1) / t2)) by (field; lra).
    apply Rmult_le_compat_r; lra. }
  assert (k * ((t2 - t1) / t2) < k * (ln t2 - ln t1)).
  { apply Rmult_lt_compat_l; lra. }
  lra.
Qed.

Lemma lg_decr k a t1 t2 : 1 <= k -> 0 < t1 < t2 -> k <= a * t1 -> lg k a t2 < lg k a t1.
Proof.
  intros Hk [H1 H2] Ha. unfold lg.
  assert (Hr : ln (t2 / t1) < t2 / t1 - 1).
  { apply ln_lt_sub1.
    - apply Rdiv_lt_0_compat; lra.
    - intros E. apply (Rmult_eq_compat_r t1) in E. unfold Rdiv in E.
      rewrite Rmult_assoc, Rinv_l in E by lra. lra. }
  rewrite ln_quot in Hr by lra.
  assert (0 < (t2 - t1) / t1) by (apply Rdiv_lt_0_compat; lra).
  assert (Hq : (t2 - t1) / t1 = t2 / t1 - 1) by (field; lra).
  assert (k * ((t2 - t1) / t1) <= a * (t2 - t1)).
  { replace (a * (t2 - t1)) with (a * t1 * ((t2 - t1) / t1)) by (field; lra).
    apply Rmult_le_compat_r; lra. }
  assert (k * (ln t2 - ln t1) < k * ((t2 - t1) / t1)).
  { apply Rmult_lt_compat_l; lra. }
  lra.
Qed.

Lemma gamma_pdf_exp n a t :
  (1 <= n)%nat -> 0 < a -> 0 < t ->
  gamma_pdf n a t = a ^ n / INR (fact (n - 1)) * exp (lg (INR (n - 1)) a t).
Proof.
  intros Hn Ha Ht. unfold gamma_pdf, lg.
  unfold Rminus. rewrite exp_plus, exp_INR_ln by assumption.
  replace (- (a * t)) with (- a * t) by ring.
  pose proof (fact_pos_R (n - 1)). field. lra.
Qed.

Lemma gamma_pdf_0 n a : (2 <= n)%nat -> gamma_pdf n a 0 = 0.
Proof.
  intros Hn. unfold gamma_pdf. replace (n - 1)%nat with (S (n - 2)) by lia.
  simpl pow. unfold Rdiv. ring.
Qed.

Lemma gamma_pdf_pos n a t : (1 <= n)%nat -> 0 < a -> 0 < t -> 0 < gamma_pdf n a t.
Proof.
  intros Hn Ha Ht. rewrite gamma_pdf_exp by assumption.
  apply Rmult_lt_0_compat; [|apply exp_pos].
  apply Rdiv_lt_0_compat; [apply pow_lt; assumption | apply fact_pos_R].
Qed.

Lemma INR_pred_ge1 n : (2 <= n)%nat -> 1 <= INR (n - 1).
Proof. intros H. replace 1 with (INR 1) by reflexivity. apply le_INR. lia. Qed.

(* strictly increasing up to the mode *)
Lemma gamma_pdf_incr_l n a t1 t2 :
  (2 <= n)%nat -> 0 < a -> 0 <= t1 < t2 -> a * t2 <= INR (n - 1) ->
  gamma_pdf n a t1 < gamma_pdf n a t2.
Proof.
  intros Hn Ha [H1 H2] Hm.
  destruct (Req_dec t1 0) as [-> | N0].
  - rewrite gamma_pdf_0 by assumption. apply gamma_pdf_pos; [lia | assumption | lra].
  - rewrite !gamma_pdf_exp by (lia || lra).
    apply Rmult_lt_compat_l.
    + apply Rdiv_lt_0_compat; [apply pow_lt; assumption | apply fact_pos_R].
    + apply exp_increasing, lg_incr; [apply INR_pred_ge1; assumption | lra | assumption].
Qed.

(* strictly decreasing after the mode *)
Lemma gamma_pdf_decr_l n a t1 t2 :
  (2 <= n)%nat -> 0 < a -> 0 <= t1 < t2 -> INR (n - 1) <= a * t1 ->
  gamma_pdf n a t2 < gamma_pdf n a t1.
Proof.
  intros Hn Ha [H1 H2] Hm.
  pose proof (INR_pred_ge1 n Hn).
  assert (0 < t1) by (destruct (Req_dec t1 0) as [-> | N0]; [lra | lra]).
  rewrite !gamma_pdf_exp by (lia || lra).
  apply Rmult_lt_compat_l.
  - apply Rdiv_lt_0_compat; [apply pow_lt; assumption | apply fact_pos_R].
  - apply exp_increasing, lg_decr; [assumption | lra | assumption].
Qed.

(* hence (n-1)/a is the global maximum on t >= 0 *)
Lemma gamma_pdf_max_l n a t :
  (2 <= n)%nat -> 0 < a -> 0 <= t -> gamma_pdf n a t <= gamma_pdf n a (INR (n - 1) / a).
Proof.
  intros Hn Ha Ht.
  pose proof (INR_pred_ge1 n Hn).
  assert (Hm : a * (INR (n - 1) / a) = INR (n - 1)) by (field; lra).
  assert (0 < INR (n - 1) / a) by (apply Rdiv_lt_0_compat; lra).
  destruct (Rtotal_order t (INR (n - 1) / a)) as [L | [-> | G]].
  - apply Rlt_le, gamma_pdf_incr_l; try assumption; lra.
  - lra.
  - apply Rlt_le, gamma_pdf_decr_l; try assumption; lra.
Qed.

(* order 1: the exponential density decreases from t = 0 *)
Lemma gamma_pdf_order1_decr_l a t1 t2 : 0 < a -> t1 < t2 -> gamma_pdf 1 a t2 < gamma_pdf 1 a t1.
Proof.
  intros Ha H. unfold gamma_pdf. simpl. unfold Rdiv. rewrite Rinv_1, !Rmult_1_r.
  apply Rmult_lt_compat_l; [assumption|]. apply exp_increasing; nra.
Qed.

(** * Where the largest sample of the window is *)
Section Argmax.
  Variables (order : Z) (peak : R) (w : Z).
  Hypothesis Ho : (2 <= order)%Z.
  Hypothesis Hw : (2 <= w)%Z.
  Hypothesis Hp : 0 < peak < 1.

  Let g (i : Z) := nth (Z.to_nat i) (gamma_window order peak w) 0.
  Let a := gamma_alpha order peak w.
  Let n := Z.to_nat order.

  Lemma g_pdf i : (0 <= i < w)%Z -> g i = gamma_pdf n a (IZR (w - 1 - i)).
  Proof. intros Hi. apply gamma_window_closed_form_l; lia || lra. Qed.

  Lemma a_pos : 0 < a.
  Proof. apply gamma_alpha_pos; lia || lra. Qed.

  Lemma mode_eq : INR (n - 1) = a * (IZR w - peak * IZR w).
  Proof.
    pose proof (gamma_mode_l order peak w ltac:(lia) ltac:(lia) ltac:(lra)) as M.
    fold a in M. pose proof a_pos.
    replace (INR (n - 1)) with (IZR order - 1).
    - rewrite <- M. field. lra.
    - unfold n. rewrite minus_INR by lia. rewrite INR_IZR_INZ, Z2Nat.id by lia. reflexivity.
  Qed.

  (* samples strictly increase while the index stays at or left of peak*width - 1 ... *)
  Lemma gamma_window_rises_l i j :
    (0 <= i < j)%Z -> (j < w)%Z -> IZR j <= peak * IZR w - 1 -> g i < g j.
  Proof.
    intros Hij Hj Hpk. rewrite !g_pdf by lia.
    pose proof a_pos. pose proof mode_eq as M.
    apply gamma_pdf_decr_l; try assumption; [unfold n; lia | |].
    - split; [apply IZR_le; lia | apply IZR_lt; lia].
    - rewrite M. apply Rmult_le_compat_l; [lra|]. rewrite !minus_IZR. lra.
  Qed.

  (* ... and strictly decrease from there on *)
  Lemma gamma_window_falls_l i j :
    (0 <= i < j)%Z -> (j < w)%Z -> peak * IZR w - 1 <= IZR i -> g j < g i.
  Proof.
    intros Hij Hj Hpk. rewrite !g_pdf by lia.
    pose proof a_pos. pose proof mode_eq as M.
    apply gamma_pdf_incr_l; try assumption; [unfold n; lia | |].
    - split; [apply IZR_le; lia | apply IZR_lt; lia].
    - rewrite M. apply Rmult_le_compat_l; [lra|]. rewrite !minus_IZR. lra.
  Qed.

  (* so any index holding the largest sample is within one sample of peak*width - 1 *)
  Lemma gamma_window_argmax_l m :
    (0 <= m < w)%Z -> (forall j, (0 <= j < w)%Z -> g j <= g m) ->
    peak * IZR w - 2 < IZR m < peak * IZR w.
  Proof.
    intros Hm Hmax.
    assert (Hw0 : 2 <= IZR w) by (apply IZR_le; lia).
    split.
    - apply Rnot_le_lt. intros C.
      (* m + 1 is still left of the peak and inside the window *)
      assert (IZR (m + 1) <= peak * IZR w - 1) by (rewrite plus_IZR; lra).
      assert (m + 1 < w)%Z.
      { apply lt_IZR. rewrite plus_IZR. nra. }
      pose proof (gamma_window_rises_l m (m + 1) ltac:(lia) ltac:(lia) H).
      pose proof (Hmax (m + 1)%Z ltac:(lia)). lra.
    - apply Rnot_le_lt. intros C.
      assert (0 < IZR m) by nra.
      assert (1 <= m)%Z by (apply lt_IZR in H; lia).
      assert (peak * IZR w - 1 <= IZR (m - 1)) by (rewrite minus_IZR; lra).
      pose proof (gamma_window_falls_l (m - 1) m ltac:(lia) ltac:(lia) H1).
      pose proof (Hmax (m - 1)%Z ltac:(lia)). lra.
  Qed.
End Argmax.

(* hypotheses are satisfiable: the default GammaWindow(order=4, peak=0.75) at width 8 *)
Example gamma_example : (2 <= 4)%Z /\ (2 <= 8)%Z /\ 0 < 3 / 4 < 1.
Proof. split; [lia | split; [lia | lra]]. Qed.
